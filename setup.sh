#!/bin/bash
# Run once after a fresh restore, offline: pre-builds the harness binaries so
# that the first check does not pay the cold build. Everything comes from disk.
set -e
cd "$(dirname "$0")"
export GOFLAGS=-mod=mod GOPROXY=off GOSUMDB=off GOTOOLCHAIN=local CGO_ENABLED=1
mkdir -p bin evidence replays
( cd harness && cat /repo/go.sum go.sum.extra 2>/dev/null | sort -u > go.sum )
( cd harness && go build -tags verif -o ../bin/vcheck ./cmd/vcheck )
( cd harness && go build -tags verif -race -o ../bin/vcheck-race ./cmd/vcheck )
echo setup ok
