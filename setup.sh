#!/bin/bash
# Run once after a fresh restore, offline: pre-builds the harness binaries so
# that the first check does not pay the cold build. Everything comes from disk.
set -e
cd "$(dirname "$0")"
export GOFLAGS=-mod=mod GOPROXY=off GOSUMDB=off GOTOOLCHAIN=local CGO_ENABLED=1
mkdir -p bin evidence replays
( cd harness && cat /repo/go.sum go.sum.extra 2>/dev/null | sort -u > go.sum )
# one binary per engine package (see ./check): generated mains under harness/cmd/dev_<pkg>
for e in raftsim procluster walcrash smlab model inproc keylab codeclab placelab pdlab synclab englab; do
  [ -d harness/$e ] || continue
  mkdir -p harness/cmd/dev_$e
  { echo "package main"; echo "import ("; echo ' "os"'; echo ' "verif/harness/vc"'; echo " _ \"verif/harness/$e\""
    echo ")"; echo "func main() { os.Exit(vc.Main(os.Args[1:])) }"; } > harness/cmd/dev_$e/main.go
  ( cd harness && go build -tags verif -o ../bin/vcheck-dev_$e ./cmd/dev_$e ) || echo "setup: build of $e failed (its checks will report BUILD-FAILED)"
done
# sanitizer variants used by children of some checks
for e in procluster inproc synclab englab keylab; do
  [ -d harness/$e ] || continue
  ( cd harness && go build -tags verif -race -o ../bin/vcheck-race-dev_$e ./cmd/dev_$e ) || true
done
for e in englab keylab; do
  [ -d harness/$e ] || continue
  ( cd harness && go build -tags verif -asan -o ../bin/vcheck-asan-dev_$e ./cmd/dev_$e ) || true
done
( cd harness && go build -tags verif -o ../bin/vcheck ./cmd/vcheck ) || true
echo setup ok
