package smlab

import (
	"math/rand"
	"strconv"
	"strings"
)

// GenCmd is one generated write command with the generator's knowledge about it.
type GenCmd struct {
	Cmd    Cmd
	Family string // kv | hash | list | set | zset | bitmap | hll | json | ttl | multi
	// FailHint: the generator built this command so that it is expected to FAIL
	// at apply time after passing the leader-side argument checks ("" = no hint).
	FailHint string
}

// Gen generates write commands over tiny adversarial pools (DESIGN section 2,
// E3). Every command passes the leader-side syntactic validation of
// node/*.go (argument counts, key checks, the integer/float/range parsing
// that the proposing node does), so every generated log is client reachable;
// values the leader does NOT validate (INCRBY/SETEX/EXPIRE/HINCRBY/SETRANGE
// arguments, field lengths, table part of the key) are drawn adversarially.
// State-dependent pre-checks of the proposer (setnx/sadd/srem/zrem/lpop on its
// local, possibly stale state) do not restrict what can be in a log.
type Gen struct {
	R      *rand.Rand
	Tables []string
	Keys   []string
	// FailBatchable: probability that a generated batchable command
	// (set/setex/single del/hmset) is built to fail at apply time.
	FailBatchable float64
	// NoPanicInputs excludes inputs known to panic the apply loop on the
	// unchanged tree (SETRANGE with a negative offset), so that logs are not
	// cut short by a crash every replica shares.
	NoPanicInputs bool
	// HLLMode: 0 = no PFADD at all (replaced by INCR), 1 = PFADD only on the
	// dedicated keys HLLKeys that no other command touches, 2 = PFADD on any key.
	HLLMode int
	HLLKeys []string
	// BitmapDedicated: bitmap commands only on dedicated keys that no KV command
	// touches (SETBIT/SETBITV2 on a key that holds a plain string and an expired
	// bitmap meta panics the apply loop on the unchanged tree: "bitmap size mismatch").
	BitmapDedicated bool
	// DurPool / DurOKPool, if set, replace the TTL duration pools (DurPool: for
	// the EXPIRE family, whose argument the proposer does not validate; DurOKPool:
	// valid durations for SET EX / SETEX / SETIFEQ EX).
	DurPool, DurOKPool []string
	// HLLDel: probability that Next returns a command of the directed family
	// "PFADD on a dedicated HLL key / DEL of that key" (DEL is then the only
	// KV-level command that ever touches a HyperLogLog key).
	HLLDel float64
	// Exclude: command names that Next never returns (it draws again).
	Exclude map[string]bool
}

func (g *Gen) dur() string {
	if g.DurPool != nil {
		return g.pick(g.DurPool)
	}
	return g.pick(poolDur)
}

func (g *Gen) durOK() string {
	if g.DurOKPool != nil {
		return g.pick(g.DurOKPool)
	}
	return g.pick(poolDurOK)
}

var (
	poolTables  = []string{"t", "t", "t", "t1", "tt"}
	poolKeys    = []string{"a", "a", "b", "a:", "a:b", "ab", "", "\x00", "\xff", "k"}
	poolMembers = []string{"a", "b", "m1", "m2", "", "a:", "\x00", "\xff", "ab"}
	poolValues  = []string{"", "0", "1", "-1", "9223372036854775807", "-9223372036854775808", "abc", "1.5", " 1", "007", "v", "vvvvvvvvvvvvvvvvvvvv"}
	poolInts    = []string{"1", "-1", "2", "9223372036854775807", "-9223372036854775808", "0", "abc", "", "1.0", "+5"}
	poolDur     = []string{"1", "2", "3", "100", "315360000", "0", "-1", "abc", "4294967295", "3000000000", "9223372036854775807"}
	poolDurOK   = []string{"1", "2", "3", "100", "315360000"}
	poolScores  = []string{"0", "-0", "1", "1", "1.5", "-1", "2", "inf", "-inf", "+inf", "1e308", "3780368512234375", "0.1", "nan"}
	poolIdx     = []string{"0", "1", "-1", "2", "-2", "100", "-100"}
	poolBitOff  = []string{"0", "1", "7", "8", "9", "1023", "8191", "8192", "65537"}
	poolJSON    = []string{"1", "\"s\"", "[1,2]", "{\"b\":1}", "null", "{", "[1,{\"x\":[]}]", "1.50"}
	poolJPath   = []string{".a", ".b", "a.b", "", ".", "a.0", ".arr"}
	poolScoreLo = []string{"-inf", "-inf", "0", "1", "(1", "(0", "1.5", "-1", "-INF"}
	poolScoreHi = []string{"+inf", "+inf", "0", "1", "(1", "2", "1.5", "-1", "+INF"}
	poolLexLo   = []string{"-", "-", "[a", "(a", "[b", "(m1", "[", "(\xff"}
	poolLexHi   = []string{"+", "+", "[a", "(a", "[b", "(m1", "[m2", "[", "(\xff"}
)

// NewGen builds a generator whose key pool is a small random subset of the
// adversarial pool (so that commands collide on keys).
func NewGen(r *rand.Rand) *Gen {
	g := &Gen{R: r, FailBatchable: 0.0, NoPanicInputs: true, HLLMode: 2, HLLKeys: []string{"hll1", "hll2"}}
	nt := 1 + r.Intn(2)
	for i := 0; i < nt; i++ {
		g.Tables = append(g.Tables, poolTables[r.Intn(len(poolTables))])
	}
	nk := 2 + r.Intn(3)
	for i := 0; i < nk; i++ {
		g.Keys = append(g.Keys, poolKeys[r.Intn(len(poolKeys))])
	}
	return g
}

func (g *Gen) pick(p []string) string { return p[g.R.Intn(len(p))] }
func (g *Gen) table() string          { return g.pick(g.Tables) }
func (g *Gen) key() string            { return g.pick(g.Keys) }
func (g *Gen) chance(p float64) bool  { return g.R.Float64() < p }

// LongField is a hash field / member one byte longer than common.MaxSubKeyLen.
var LongField = strings.Repeat("f", 10241)

func (g *Gen) members(min, max int) []string {
	n := min + g.R.Intn(max-min+1)
	out := make([]string, n)
	for i := range out {
		out[i] = g.pick(poolMembers)
	}
	return out
}

// badTableKey returns a full first argument whose table part is missing or
// empty: passes the proposer (namespace present, length ok) and fails in the
// storage layer with "table name ... invalid".
func (g *Gen) badTableKey() []byte {
	if g.chance(0.5) {
		return []byte(DefaultNamespaceBase + ":" + "notable" + g.key()) // no table separator
	}
	return []byte(DefaultNamespaceBase + "::" + g.key()) // empty table
}

func mk(name string, arg1 []byte, rest ...string) Cmd {
	c := Cmd{Args: [][]byte{[]byte(name), arg1}}
	for _, r := range rest {
		c.Args = append(c.Args, []byte(r))
	}
	return c
}

// Next generates one write command.
func (g *Gen) Next() GenCmd {
	for {
		c := g.next()
		if !g.Exclude[c.Cmd.Name()] {
			return c
		}
	}
}

func (g *Gen) next() GenCmd {
	t, k := g.table(), g.key()
	a1 := NsKey(DefaultNamespaceBase, []byte(t), []byte(k))
	if g.HLLDel > 0 && g.chance(g.HLLDel) {
		hk := NsKey(DefaultNamespaceBase, []byte(g.Tables[0]), []byte(g.pick(g.HLLKeys)))
		switch w := g.R.Intn(100); {
		case w < 50:
			return GenCmd{mk("pfadd", hk, g.members(1, 4)...), "hll", ""}
		case w < 85:
			return GenCmd{mk("del", hk), "kv", ""}
		default:
			c := Cmd{Args: [][]byte{[]byte("del"), a1, hk}}
			if g.chance(0.5) {
				c.Args[1], c.Args[2] = c.Args[2], c.Args[1]
			}
			return GenCmd{c, "multi", ""}
		}
	}
	// weights: batchable KV writes are frequent (they are what batches are made of)
	switch w := g.R.Intn(100); {
	case w < 14: // set (batchable)
		if g.chance(g.FailBatchable) {
			return GenCmd{mk("set", g.badTableKey(), g.pick(poolValues)), "kv", "bad-table"}
		}
		if g.chance(0.3) {
			opts := [][]string{{"nx"}, {"xx"}, {"ex", g.durOK()}, {"ex", g.durOK(), "nx"}, {"xx", "ex", g.durOK()}, {"NX"}, {"EX", g.durOK()}}[g.R.Intn(7)]
			return GenCmd{mk("set", a1, append([]string{g.pick(poolValues)}, opts...)...), "kv", ""}
		}
		return GenCmd{mk("set", a1, g.pick(poolValues)), "kv", ""}
	case w < 20: // setex (batchable; duration not validated by the proposer)
		if g.chance(g.FailBatchable) {
			return GenCmd{mk("setex", a1, g.pick([]string{"abc", "0", "-1", "", "1.5"}), g.pick(poolValues)), "ttl", "bad-duration"}
		}
		return GenCmd{mk("setex", a1, g.durOK(), g.pick(poolValues)), "ttl", ""}
	case w < 25: // del single (batchable)
		if g.chance(g.FailBatchable) {
			return GenCmd{mk("del", g.badTableKey()), "kv", "bad-table"}
		}
		return GenCmd{mk("del", a1), "kv", ""}
	case w < 31: // hmset (batchable)
		if g.chance(g.FailBatchable) {
			return GenCmd{mk("hmset", a1, "f0", "v", LongField, "v"), "hash", "long-field"}
		}
		n := 1 + g.R.Intn(3)
		var rest []string
		for i := 0; i < n; i++ {
			rest = append(rest, g.pick(poolMembers), g.pick(poolValues))
		}
		return GenCmd{mk("hmset", a1, rest...), "hash", ""}
	case w < 34: // multi-key del (not batchable)
		n := 2 + g.R.Intn(3)
		c := Cmd{Args: [][]byte{[]byte("del")}}
		for i := 0; i < n; i++ {
			c.Args = append(c.Args, NsKey(DefaultNamespaceBase, []byte(g.table()), []byte(g.key())))
		}
		return GenCmd{c, "multi", ""}
	case w < 36: // plset
		n := 1 + g.R.Intn(3)
		c := Cmd{Args: [][]byte{[]byte("plset")}}
		for i := 0; i < n; i++ {
			c.Args = append(c.Args, NsKey(DefaultNamespaceBase, []byte(g.table()), []byte(g.key())), []byte(g.pick(poolValues)))
		}
		return GenCmd{c, "multi", ""}
	case w < 48: // other kv
		switch g.R.Intn(11) {
		case 0:
			return GenCmd{mk("setnx", a1, g.pick(poolValues)), "kv", ""}
		case 1:
			return GenCmd{mk("getset", a1, g.pick(poolValues)), "kv", ""}
		case 2:
			return GenCmd{mk("incr", a1), "kv", ""}
		case 3:
			return GenCmd{mk("incrby", a1, g.pick(poolInts)), "kv", ""}
		case 4:
			return GenCmd{mk("append", a1, g.pick(poolValues)), "kv", ""}
		case 5:
			offs := []string{"0", "1", "5", "100", "abc", "8388608", ""}
			if !g.NoPanicInputs {
				offs = append(offs, "-1")
			}
			return GenCmd{mk("setrange", a1, g.pick(offs), g.pick(poolValues)), "kv", ""}
		case 6:
			return GenCmd{mk("setifeq", a1, g.pick(poolValues), g.pick(poolValues)), "kv", ""}
		case 7:
			return GenCmd{mk("setifeq", a1, g.pick(poolValues), g.pick(poolValues), "ex", g.durOK()), "kv", ""}
		case 8:
			return GenCmd{mk("delifeq", a1, g.pick(poolValues)), "kv", ""}
		default:
			switch g.HLLMode {
			case 0:
				return GenCmd{mk("incr", a1), "kv", ""}
			case 1:
				return GenCmd{mk("pfadd", NsKey(DefaultNamespaceBase, []byte(t), []byte(g.pick(g.HLLKeys))), g.members(0, 4)...), "hll", ""}
			}
			return GenCmd{mk("pfadd", a1, g.members(0, 4)...), "hll", ""}
		}
	case w < 55: // ttl commands on every type (duration not validated by the proposer)
		name := g.pick([]string{"expire", "expire", "hexpire", "lexpire", "sexpire", "zexpire", "bexpire", "persist", "hpersist", "lpersist", "spersist", "zpersist", "bpersist"})
		if g.BitmapDedicated && (name == "bexpire" || name == "bpersist") {
			a1 = NsKey(DefaultNamespaceBase, []byte(t), []byte(g.pick([]string{"bm1", "bm2"})))
		}
		if strings.HasSuffix(name, "persist") {
			return GenCmd{mk(name, a1), "ttl", ""}
		}
		return GenCmd{mk(name, a1, g.dur()), "ttl", ""}
	case w < 64: // hash
		switch g.R.Intn(6) {
		case 0:
			return GenCmd{mk("hset", a1, g.pick(poolMembers), g.pick(poolValues)), "hash", ""}
		case 1:
			return GenCmd{mk("hsetnx", a1, g.pick(poolMembers), g.pick(poolValues)), "hash", ""}
		case 2:
			return GenCmd{mk("hdel", a1, g.members(1, 3)...), "hash", ""}
		case 3:
			return GenCmd{mk("hincrby", a1, g.pick(poolMembers), g.pick(poolInts)), "hash", ""}
		case 4:
			return GenCmd{mk("hclear", a1), "hash", ""}
		default:
			if g.chance(0.15) {
				return GenCmd{mk("hset", a1, LongField, "v"), "hash", "long-field"}
			}
			return GenCmd{mk("hset", a1, g.pick(poolMembers), g.pick(poolValues)), "hash", ""}
		}
	case w < 73: // list
		switch g.R.Intn(8) {
		case 0, 1:
			return GenCmd{mk("lpush", a1, g.members(1, 3)...), "list", ""}
		case 2:
			return GenCmd{mk("rpush", a1, g.members(1, 3)...), "list", ""}
		case 3:
			return GenCmd{mk("lpop", a1), "list", ""}
		case 4:
			return GenCmd{mk("rpop", a1), "list", ""}
		case 5:
			return GenCmd{mk("lset", a1, g.pick(poolIdx), g.pick(poolValues)), "list", ""}
		case 6:
			return GenCmd{mk("ltrim", a1, g.pick(poolIdx), g.pick(poolIdx)), "list", ""}
		default:
			return GenCmd{mk("lclear", a1), "list", ""}
		}
	case w < 81: // set
		switch g.R.Intn(6) {
		case 0, 1:
			return GenCmd{mk("sadd", a1, g.members(1, 4)...), "set", ""}
		case 2:
			return GenCmd{mk("srem", a1, g.members(1, 3)...), "set", ""}
		case 3:
			return GenCmd{mk("spop", a1), "set", ""}
		case 4:
			return GenCmd{mk("spop", a1, g.pick([]string{"1", "2", "100"})), "set", ""}
		default:
			return GenCmd{mk("sclear", a1), "set", ""}
		}
	case w < 91: // zset
		switch g.R.Intn(9) {
		case 0, 1, 2:
			n := 1 + g.R.Intn(3)
			var rest []string
			for i := 0; i < n; i++ {
				rest = append(rest, g.pick(poolScores), g.pick(poolMembers))
			}
			return GenCmd{mk("zadd", a1, rest...), "zset", ""}
		case 3:
			return GenCmd{mk("zincrby", a1, g.pick(poolScores), g.pick(poolMembers)), "zset", ""}
		case 4:
			return GenCmd{mk("zrem", a1, g.members(1, 3)...), "zset", ""}
		case 5:
			return GenCmd{mk("zremrangebyrank", a1, g.pick(poolIdx), g.pick(poolIdx)), "zset", ""}
		case 6:
			return GenCmd{mk("zremrangebyscore", a1, g.pick(poolScoreLo), g.pick(poolScoreHi)), "zset", ""}
		case 7:
			return GenCmd{mk("zremrangebylex", a1, g.pick(poolLexLo), g.pick(poolLexHi)), "zset", ""}
		default:
			return GenCmd{mk("zclear", a1), "zset", ""}
		}
	case w < 95: // bitmap
		if g.BitmapDedicated {
			a1 = NsKey(DefaultNamespaceBase, []byte(t), []byte(g.pick([]string{"bm1", "bm2"})))
		}
		switch g.R.Intn(4) {
		case 0, 1:
			return GenCmd{mk("setbitv2", a1, g.pick(poolBitOff), g.pick([]string{"0", "1", "1"})), "bitmap", ""}
		case 2:
			return GenCmd{mk("setbit", a1, g.pick(poolBitOff), g.pick([]string{"0", "1", "1"})), "bitmap", ""}
		default:
			return GenCmd{mk("bitclear", a1), "bitmap", ""}
		}
	default: // json
		switch g.R.Intn(5) {
		case 0, 1:
			return GenCmd{mk("json.set", a1, g.pick(poolJPath), g.pick(poolJSON)), "json", ""}
		case 2:
			return GenCmd{mk("json.del", a1, g.pick(poolJPath)), "json", ""}
		case 3:
			return GenCmd{mk("json.arrappend", a1, g.pick(poolJPath), g.pick(poolJSON), g.pick(poolJSON)), "json", ""}
		default:
			return GenCmd{mk("json.arrpop", a1, g.pick(poolJPath)), "json", ""}
		}
	}
}

// NextTs returns the next log timestamp after prev: adversarially close
// (same ns, +-1 ns, exactly on / just before a second boundary), occasionally a
// jump over the small TTLs of the pools, occasionally backwards (entries
// proposed through different leaders carry different clocks).
func (g *Gen) NextTs(prev int64) int64 {
	const sec = int64(1000000000)
	switch w := g.R.Intn(100); {
	case w < 25:
		return prev
	case w < 45:
		return prev + 1
	case w < 50:
		return prev - 1
	case w < 60:
		return prev - prev%sec + sec // exactly the next second boundary
	case w < 68:
		return prev - prev%sec + sec - 1 // last ns of this second
	case w < 80:
		return prev + sec
	case w < 86:
		return prev + 2*sec + int64(g.R.Intn(3))
	case w < 90:
		return prev - sec
	case w < 94:
		return prev + 101*sec
	default:
		return prev + int64(g.R.Intn(1000000))
	}
}

// IsBatchableCmd mirrors kvbatchOperator.IsBatchable without the duplicate-key
// and count conditions: the command class that goes into the shared write batch.
func IsBatchableCmd(c Cmd) bool {
	switch c.Name() {
	case "set", "setex", "hmset":
		return true
	case "del":
		return len(c.Args) == 2
	}
	return false
}

// QuoteArgs / UnquoteArgs: binary-safe string form of a command for JSON witnesses.
func QuoteArgs(c Cmd) []string {
	out := make([]string, len(c.Args))
	for i, a := range c.Args {
		if len(a) > 200 && strings.Count(string(a), string(a[:1])) == len(a) {
			out[i] = "REPEAT:" + strconv.Itoa(len(a)) + ":" + strconv.Quote(string(a[:1]))
			continue
		}
		out[i] = strconv.Quote(string(a))
	}
	return out
}

func UnquoteArgs(q []string) (Cmd, error) {
	c := Cmd{Args: make([][]byte, len(q))}
	for i, s := range q {
		if strings.HasPrefix(s, "REPEAT:") {
			parts := strings.SplitN(s, ":", 3)
			n, err := strconv.Atoi(parts[1])
			if err != nil {
				return c, err
			}
			u, err := strconv.Unquote(parts[2])
			if err != nil {
				return c, err
			}
			c.Args[i] = []byte(strings.Repeat(u, n))
			continue
		}
		u, err := strconv.Unquote(s)
		if err != nil {
			return c, err
		}
		c.Args[i] = []byte(u)
	}
	return c, nil
}
