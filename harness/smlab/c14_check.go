package smlab

import (
	"fmt"
	"os"
	"path/filepath"
	"runtime"
	"sync/atomic"
	"time"

	"github.com/youzan/ZanRedisDB/engine"
	"github.com/youzan/ZanRedisDB/rockredis"
)

// scenario "check-while-copying" (seed C14r3-2): while backupLoop is still
// copying checkpoint (t,i), another replica's check-backup request
// (http /cluster/checkbackup -> KVNode.CheckLocalBackup -> RockDB.IsLocalBackupOK)
// arrives. Whatever IsLocalBackupOK reports as available must restore to exactly
// the state at i: the directory is snapshotted (file copy = the local fetch) at
// the moment the call returned true and restored on a second store.
//
// Deciding signals are logical: "true returned" and "the backup's done channel
// was not yet closed when the call STARTED" (non-trivial execution). If the call
// blocks until the copy is complete (checkpointDirLock) the snapshot is complete
// and the property holds.
func (cs *c14Case) runCheckWhileCopying(mb int) {
	var err error
	var ro *engine.RockOptions
	if cs.Engine == "pebble" {
		ro = &engine.RockOptions{WriteBufferSize: 256 << 20, BlockCache: 8 << 20}
	}
	cs.g.HLLMode = 0
	if cs.a, err = cs.open("A", ro); err != nil {
		cs.incon = err.Error()
		return
	}
	l := cs.a
	big := make([]byte, 1<<20)
	for i := range big {
		big[i] = byte('a' + cs.r.Intn(26))
	}
	cs.inApply = true
	for i := 0; i < mb; i++ {
		cs.idx++
		cs.ts++
		l.Apply([]Entry{{Cmds: []Cmd{CB("set", []byte("big"), []byte(fmt.Sprintf("k%03d", i)), big)}, TsNano: cs.ts, Index: cs.idx, Term: cs.term}}, false, false)
	}
	cs.inApply = false
	cs.write(l, 20)
	l.FlushHLL()
	refRaw := l.RawDumpNoFlush()
	db := l.DB()
	term, idx := cs.term, cs.idx
	ckName := rockredis.GetCheckpointDir(term, idx)
	ckDir := filepath.Join(db.GetBackupDir(), ckName)
	snapDir := filepath.Join(cs.scr, fmt.Sprintf("c14-%d-snap-%d", cs.ID, atomic.AddInt64(&c14DirSeq, 1)), ckName)
	defer os.RemoveAll(filepath.Dir(snapDir))

	var bi *rockredis.BackupInfo
	for try := 0; try < 2000 && bi == nil; try++ {
		if bi = db.Backup(term, idx); bi == nil {
			time.Sleep(time.Millisecond)
		}
	}
	if bi == nil {
		cs.incon = "backup refused"
		return
	}
	cs.nBackups++
	done := make(chan struct{})
	var berr error
	go func() {
		_, berr = bi.GetResult()
		close(done)
	}()
	closed := func() bool {
		select {
		case <-done:
			return true
		default:
			return false
		}
	}
	// the other replica's check-backup requests, until one is answered "ok"
	calls, callsWhileCopying := 0, 0
	gotOK, okStartedWhileCopying, okBeforeDone := false, false, false
	var snapErr error
	for !gotOK {
		startedWhileCopying := !closed()
		ok, _ := db.IsLocalBackupOK(term, idx)
		calls++
		if startedWhileCopying {
			callsWhileCopying++
		}
		if ok {
			gotOK = true
			okStartedWhileCopying = startedWhileCopying
			okBeforeDone = !closed()
			// the fetch: copy the directory as it is right now
			snapErr = copyDir(ckDir, snapDir)
			break
		}
		if !startedWhileCopying {
			break // the copy is done and the checkpoint is still not reported: nothing to fetch
		}
		runtime.Gosched()
	}
	<-done
	if berr != nil {
		cs.incon = "backup failed: " + berr.Error()
		return
	}
	cs.chkCalls, cs.chkCallsWhileCopying = calls, callsWhileCopying
	cs.chkNontrivial = gotOK && okStartedWhileCopying
	cs.chkOKBeforeDone = gotOK && okBeforeDone
	cs.logf("backup %s (%d MB): %d check-backup calls, %d started while the copy was running; ok=%v (that call started while copying=%v, done not yet closed when it returned=%v)",
		ckName, mb, calls, callsWhileCopying, gotOK, okStartedWhileCopying, okBeforeDone)
	if !gotOK {
		return
	}
	if snapErr != nil {
		// files vanish only if something deletes the reported checkpoint meanwhile
		cs.violation("backup-reported-ok-while-copying/"+cs.Engine, fmt.Sprintf("checkpoint %s was reported available but copying it failed: %v", ckName, snapErr), nil)
		return
	}
	// the fetching replica F restores what it fetched
	if cs.b, err = cs.open("F", ro); err != nil {
		cs.incon = err.Error()
		return
	}
	cs.write(cs.b, 5)
	dst := filepath.Join(cs.b.DB().GetBackupDir(), ckName)
	os.RemoveAll(dst)
	if err := copyDir(snapDir, dst); err != nil {
		cs.incon = "copy to F: " + err.Error()
		return
	}
	os.Remove(filepath.Join(dst, "LOCK"))
	err = cs.b.DB().Restore(term, idx)
	cs.nRestores++
	cs.nOther++
	extra := map[string]interface{}{"checkpoint": ckName, "check_calls": calls, "ok_call_started_while_copying": okStartedWhileCopying, "done_closed_when_ok_returned": !okBeforeDone}
	if err != nil {
		cs.violation("backup-reported-ok-while-copying/"+cs.Engine,
			fmt.Sprintf("IsLocalBackupOK(%d,%d) answered ok (call started while the copy was running: %v); the directory fetched at that moment does not restore: %v", term, idx, okStartedWhileCopying, err), extra)
		return
	}
	raw := cs.b.RawDumpNoFlush()
	if d := RawDiff(refRaw, raw); d != "" {
		extra["engine_keys_checkpointed"], extra["engine_keys_restored"] = len(refRaw), len(raw)
		cs.violation("backup-reported-ok-while-copying/"+cs.Engine,
			fmt.Sprintf("IsLocalBackupOK(%d,%d) answered ok while backupLoop was still copying the checkpoint (call started while copying: %v, done not yet closed: %v); the directory fetched at that moment restores to %d of %d engine keys: %s",
				term, idx, okStartedWhileCopying, okBeforeDone, len(raw), len(refRaw), d), extra)
	}
}

// scenario "hll-flush-race" (seed C14-2): the write cache of HyperLogLog keys
// must be in the engine before the backup goroutine takes the engine snapshot.
// Right before every Backup the whole write cache (32 entries) is made dirty with
// freshly PFADDed keys, so that a flush that is not finished when the snapshot
// is taken loses a visible number of keys; the checkpoint is restored right
// away and compared (PFCOUNT of every key through the cache at the backup
// instant vs after the restore).
func (cs *c14Case) runHLLFlushRace(reps int) {
	var err error
	cs.Keep = 0
	if cs.a, err = cs.open("A", nil); err != nil {
		cs.incon = err.Error()
		return
	}
	l := cs.a
	cs.write(l, 5+cs.r.Intn(10))
	for rep := 0; rep < reps && cs.incon == "" && len(cs.viol) == 0; rep++ {
		var es []Entry
		for j := 0; j < rockredis.HLLWriteCacheSize; j++ {
			key := fmt.Sprintf("hf%02d", j)
			args := []string{}
			for e := 0; e < 30+cs.r.Intn(30); e++ {
				args = append(args, fmt.Sprintf("e%d-%d-%d", rep, j, cs.r.Intn(1000000)))
			}
			cs.hll["hllrace:"+key] = true
			cs.idx++
			cs.ts++
			es = append(es, Entry{Cmds: []Cmd{C("pfadd", "hllrace", key, args...)}, TsNano: cs.ts, Index: cs.idx, Term: cs.term})
			cs.nCmds++
		}
		cs.applyChunks(l, es, 1+cs.r.Intn(16))
		cs.nDirtyFills++
		k := cs.backup(true)
		if k == nil {
			return
		}
		if !cs.restore(k, "restore right after a backup with a full dirty HLL cache") {
			return
		}
		if cs.r.Intn(3) == 0 {
			cs.write(l, 1+cs.r.Intn(5))
		}
	}
	cs.checkDirs("at the end")
}
