package smlab

import (
	"fmt"
	"io/ioutil"
	"os"
	"path/filepath"
	"testing"
	"time"
)

func smokeLog(ts int64) []Entry {
	cmds := []Cmd{
		C("set", "t", "a", "1"),
		C("set", "t", "b", "2"),
		C("setex", "t", "c", "100", "v"),
		C("hset", "t", "h", "f", "v"),
		C("hmset", "t", "h2", "f1", "v1", "f2", "v2"),
		C("lpush", "t", "l", "x", "y"),
		C("rpush", "t", "l", "z"),
		C("zadd", "t", "z", "1.5", "m1", "2", "m2"),
		C("sadd", "t", "s", "m1", "m2"),
		C("incr", "t", "n"),
		C("incr", "t", "a"),
		C("incr", "t", "h2"), // kv key h2 does not exist as kv: creates
		C("pfadd", "t", "hll", "e1", "e2"),
		C("setbitv2", "t", "bm", "9", "1"),
		C("json.set", "t", "j", ".a", "1"),
		C("expire", "t", "a", "1000"),
		C("hexpire", "t", "h", "1000"),
		CKeys("del", "t", "b", "nokey"),
		C("getset", "t", "a", "new"),
		C("incr", "t", "a"), // fails: not an integer
	}
	var es []Entry
	for i, c := range cmds {
		es = append(es, Entry{Cmds: []Cmd{c}, TsNano: ts + int64(i), Index: uint64(i + 1), Term: 1})
	}
	return es
}

func TestSmoke(t *testing.T) {
	dir, _ := ioutil.TempDir("", "smlab-smoke-")
	defer os.RemoveAll(dir)
	QuietLogs(dir)
	ts := time.Now().Add(72 * time.Hour).UnixNano()
	var dumps []string
	var replies []string
	for _, eng := range []string{"mem", "pebble"} {
		for _, pol := range []string{"wait_compact", "local_deletion"} {
			for _, v2 := range []bool{false, true} {
				for _, oneBatch := range []bool{false, true} {
					name := fmt.Sprintf("%s-%s-v2%v-one%v", eng, pol, v2, oneBatch)
					l, err := Open(Opts{Engine: eng, ExpirePolicy: pol, Dir: filepath.Join(dir, name), UseRedisV2: v2})
					if err != nil {
						t.Fatalf("%s: %v", name, err)
					}
					log := smokeLog(ts)
					var reps [][]Reply
					if oneBatch {
						reps = l.Apply(log, false, true)
					} else {
						for _, e := range log {
							reps = append(reps, l.Apply([]Entry{e}, false, true)...)
						}
					}
					rs := ""
					for i, r := range reps {
						rs += fmt.Sprintf("%d %v -> %s\n", i, log[i].Cmds[0], r[0].Canon())
					}
					if pol == "wait_compact" {
						replies = append(replies, rs)
					}
					if r := l.R("get", "t", "a"); r.Canon() != `$"new"` {
						t.Errorf("%s: get a = %s\n%s", name, r.Canon(), rs)
					}
					if r := l.R("hgetall", "t", "h2"); r.Canon() != `[$"f1" $"v1" $"f2" $"v2"]` {
						t.Errorf("%s: hgetall = %s", name, r.Canon())
					}
					if r := l.R("lrange", "t", "l", "0", "-1"); r.Canon() != `[$"y" $"x" $"z"]` {
						t.Errorf("%s: lrange = %s", name, r.Canon())
					}
					if r := l.R("zrange", "t", "z", "0", "-1", "withscores"); r.Canon() != `[$"m1" $"1.5" $"m2" $"2"]` {
						t.Errorf("%s: zrange = %s", name, r.Canon())
					}
					if r := l.R("smembers", "t", "s"); r.Canon() != `[$"m1" $"m2"]` {
						t.Errorf("%s: smembers = %s", name, r.Canon())
					}
					if r := l.R("pfcount", "t", "hll"); r.Canon() != `:2` {
						t.Errorf("%s: pfcount = %s", name, r.Canon())
					}
					if r := l.Read(CKeys("exists", "t", "a", "b", "c")); r.Canon() != `:2` {
						t.Errorf("%s: exists = %s", name, r.Canon())
					}
					if r := l.Read(C("scan", "t", "", "count", "10")); r.Kind != "array" {
						t.Errorf("%s: scan = %s", name, r.Canon())
					} else if oneBatch && !v2 && eng == "mem" && pol == "wait_compact" {
						t.Logf("scan: %s", r.Canon())
						t.Logf("hscan: %s", l.R("hscan", "t", "h2", "").Canon())
						t.Logf("ttl a: %s  httl h: %s", l.R("ttl", "t", "a").Canon(), l.R("httl", "t", "h").Canon())
					}
					ld := l.LogicalDump().String()
					raw := l.RawDump()
					if len(raw) == 0 {
						t.Errorf("%s: empty raw dump", name)
					}
					if pol == "wait_compact" {
						dumps = append(dumps, ld)
					}
					if eng == "mem" && pol == "wait_compact" && !v2 && oneBatch {
						t.Logf("replies:\n%s", rs)
						t.Logf("logical dump:\n%s", ld)
						t.Logf("raw dump:\n%s", RawString(raw))
					}
					if eng == "mem" && pol == "local_deletion" && !v2 && oneBatch {
						t.Logf("local_deletion logical dump:\n%s", ld)
					}
					// restart
					if eng == "pebble" {
						if err := l.Reopen(); err != nil {
							t.Fatalf("%s reopen: %v", name, err)
						}
						if d := l.LogicalDump().String(); d != ld {
							t.Errorf("%s: dump differs after reopen:\n%s\nvs\n%s", name, ld, d)
						}
					}
					l.Close()
				}
			}
		}
	}
	for i := 1; i < len(dumps); i++ {
		if dumps[i] != dumps[0] {
			t.Errorf("logical dump %d differs from dump 0:\n%s\nvs\n%s", i, dumps[0], dumps[i])
		}
		if replies[i] != replies[0] {
			t.Errorf("replies %d differ from 0:\n%s\nvs\n%s", i, replies[0], replies[i])
		}
	}
}
