package smlab

import (
	"crypto/sha1"
	"encoding/hex"
	"fmt"
	"io"
	"io/ioutil"
	"math/rand"
	"os"
	"path/filepath"
	"sort"
	"strings"
	"sync"
	"sync/atomic"
	"time"

	"github.com/youzan/ZanRedisDB/engine"
	"github.com/youzan/ZanRedisDB/rockredis"
	"verif/harness/vc"
)

// C14 — a checkpoint restores exactly the state at its index (DESIGN.md section 3, C14).

func init() { vc.Register("C14", "exploration", runC14) }

// ckpt is what the harness knows about one checkpoint.
type ckpt struct {
	Term, Idx uint64
	Dir       string
	RefRaw    []KV     // engine content at the backup instant
	RefLog    []string // logical dump + PFCOUNT lines at the backup instant
	HLLKeys   []string // keys that had received a PFADD at the backup instant
	Hashes    map[string]string
	Done      bool // copy finished (GetResult returned)
	// raw dumps taken after each later apply batch while the copy was still running
	Later [][]KV
	// commands applied while the copy was still running (for the witness)
	LaterCmds []string
}

func (k *ckpt) name() string { return rockredis.GetCheckpointDir(k.Term, k.Idx) }

type c14Violation struct {
	Sig, Summary string
	Witness      interface{}
}

// c14Case runs one scenario; everything it does is appended to Script (the witness).
type c14Case struct {
	ID       int
	Scenario string
	Engine   string
	Policy   string
	Keep     int
	Seed     int64

	r      *rand.Rand
	g      *Gen
	scr    string
	a, b   *Lab
	idx    uint64
	term   uint64
	ts     int64
	ckpts  []*ckpt
	latest uint64 // value last given to SetLatestSnapIndex
	hll    map[string]bool
	Script []string
	viol   []c14Violation
	incon  string

	panicked, inApply              bool
	nearReached                    bool
	nFetch                         int
	nDirtyFills, reps              int
	chkCalls, chkCallsWhileCopying int
	chkNontrivial, chkOKBeforeDone bool
	nReachable, nAccepted          int // interrupted-fetch: reachable left-overs / accepted without a fetch
	nLoud                          int // ... answered with a loud error
	leakMarkers, leakVisible       int
	leakReadyMs, leakCopyMs        float64

	// evidence
	nBackups, nRestores, nRepeat, nOther, nCompact, nReopen, nHashChecks, nPurged, nImmediate, nCmds, nLaterDumps int
	nPurgedDuringRestore                                                                                          int
}

func (cs *c14Case) logf(f string, args ...interface{}) {
	if len(cs.Script) < 400 {
		cs.Script = append(cs.Script, fmt.Sprintf(f, args...))
	}
}

func (cs *c14Case) violation(sig, summary string, extra map[string]interface{}) {
	w := map[string]interface{}{
		"scenario": cs.Scenario, "engine": cs.Engine, "policy": cs.Policy, "keep_backup": cs.Keep,
		"case_seed": cs.Seed, "script": append([]string{}, cs.Script...),
	}
	for k, v := range extra {
		w[k] = v
	}
	cs.viol = append(cs.viol, c14Violation{sig, summary, w})
}

func hashDir(dir string) (map[string]string, error) {
	out := map[string]string{}
	fis, err := ioutil.ReadDir(dir)
	if err != nil {
		return nil, err
	}
	for _, fi := range fis {
		if fi.IsDir() {
			continue
		}
		f, err := os.Open(filepath.Join(dir, fi.Name()))
		if err != nil {
			return nil, err
		}
		h := sha1.New()
		n, err := io.Copy(h, f)
		f.Close()
		if err != nil {
			return nil, err
		}
		out[fi.Name()] = fmt.Sprintf("%d:%s", n, hex.EncodeToString(h.Sum(nil)))
	}
	return out, nil
}

func diffHashes(a, b map[string]string) string {
	var d []string
	for k, v := range a {
		if w, ok := b[k]; !ok {
			d = append(d, "removed "+k)
		} else if w != v {
			d = append(d, fmt.Sprintf("changed %s (%s -> %s)", k, v, w))
		}
	}
	for k := range b {
		if _, ok := a[k]; !ok && k != "LOCK" {
			// LOCK: pebble's lock file, created when the restore code opens the
			// checkpoint read-only to validate it (CheckDBEngForRead); not a change
			// of the checkpoint's content
			d = append(d, "added "+k)
		}
	}
	sort.Strings(d)
	return strings.Join(d, "; ")
}

// onlyRemovals: every part of a diffHashes result is a removed file.
func onlyRemovals(d string) bool {
	for _, part := range strings.Split(d, "; ") {
		if !strings.HasPrefix(part, "removed ") {
			return false
		}
	}
	return d != ""
}

func copyDir(src, dst string) error {
	if err := os.MkdirAll(dst, 0755); err != nil {
		return err
	}
	fis, err := ioutil.ReadDir(src)
	if err != nil {
		return err
	}
	for _, fi := range fis {
		if fi.IsDir() {
			continue
		}
		in, err := os.Open(filepath.Join(src, fi.Name()))
		if err != nil {
			return err
		}
		out, err := os.OpenFile(filepath.Join(dst, fi.Name()), os.O_CREATE|os.O_WRONLY|os.O_TRUNC, fi.Mode())
		if err != nil {
			in.Close()
			return err
		}
		_, err = io.Copy(out, in)
		in.Close()
		out.Close()
		if err != nil {
			return err
		}
		os.Chtimes(filepath.Join(dst, fi.Name()), fi.ModTime(), fi.ModTime())
	}
	return nil
}

var c14DirSeq int64

func (cs *c14Case) open(name string, ro *engine.RockOptions) (*Lab, error) {
	dir := filepath.Join(cs.scr, fmt.Sprintf("c14-%d-%s-%d", cs.ID, name, atomic.AddInt64(&c14DirSeq, 1)))
	return Open(Opts{Engine: cs.Engine, ExpirePolicy: cs.Policy, Dir: dir, KeepBackup: cs.Keep, RockOpts: ro})
}

// logicalWithPF: logical dump (HLL cache NOT flushed by the harness) + PFCOUNT
// lines for every key that ever received a PFADD (read through the cache).
func (cs *c14Case) hllKeyList() []string {
	var ks []string
	for tk := range cs.hll {
		ks = append(ks, tk)
	}
	sort.Strings(ks)
	return ks
}

func (cs *c14Case) logicalWithPF(l *Lab, hllKeys []string) []string {
	d := LogicalDumpOf(l.DB())
	var pf []string
	for _, tk := range hllKeys {
		rep := l.Read(Cmd{Args: [][]byte{[]byte("pfcount"), append([]byte(l.NamespaceBase()+":"), tk...)}})
		pf = append(pf, fmt.Sprintf("pfcount %q = %s", tk, rep.Canon()))
	}
	sort.Strings(pf)
	return append(d.Lines, pf...)
}

// write applies n generated commands to lab l in random apply batches.
func (cs *c14Case) write(l *Lab, n int) {
	var es []Entry
	for i := 0; i < n; i++ {
		gc := cs.g.Next()
		if gc.Cmd.Name() == "pfadd" {
			if cc, err := CutNamespaces(gc.Cmd); err == nil {
				cs.hll[string(cc.Args[1])] = true
			}
		}
		cs.ts = cs.g.NextTs(cs.ts)
		cs.idx++
		es = append(es, Entry{Cmds: []Cmd{gc.Cmd}, TsNano: cs.ts, Index: cs.idx, Term: cs.term})
		cs.nCmds++
	}
	for len(es) > 0 {
		k := 1 + cs.r.Intn(8)
		if k > len(es) {
			k = len(es)
		}
		if l == cs.a && cs.copyRunning() {
			// while a checkpoint copy is running the engine content is recorded after
			// every single command (engine commits inside one apply batch are the
			// granularity at which later writes can leak into the copy)
			k = 1
		}
		cs.applyAndTrack(l, es[:k])
		es = es[k:]
	}
}

func (cs *c14Case) copyRunning() bool {
	for _, k := range cs.ckpts {
		if !k.Done {
			return true
		}
	}
	return false
}

// applyAndTrack applies one apply batch on lab A and, for every checkpoint whose
// copy is still running, records the engine content after it.
func (cs *c14Case) applyAndTrack(l *Lab, es []Entry) {
	cs.inApply = true
	l.Apply(es, false, false)
	cs.inApply = false
	if l != cs.a {
		return
	}
	for _, k := range cs.ckpts {
		if !k.Done && len(k.Later) < 60 {
			k.Later = append(k.Later, l.RawDumpNoFlush())
			for _, e := range es {
				k.LaterCmds = append(k.LaterCmds, e.Cmds[0].String())
			}
			cs.nLaterDumps++
		}
	}
}

// backup takes a checkpoint of lab A at the current index exactly like the
// apply loop does (kvStoreSM.GetSnapshot): Backup(term,index), WaitReady(), and
// then - before any further write - records the reference dumps.
// waitResult: also wait for the copy to finish before returning (the safe variant).
func (cs *c14Case) backup(waitResult bool) *ckpt {
	l := cs.a
	db := l.DB()
	var bi *rockredis.BackupInfo
	for try := 0; try < 2000; try++ {
		bi = db.Backup(cs.term, cs.idx)
		if bi != nil {
			break
		}
		time.Sleep(time.Millisecond) // previous copy / purge still running
	}
	if bi == nil {
		cs.incon = "backup refused for 2 s"
		return nil
	}
	bi.WaitReady()
	k := &ckpt{Term: cs.term, Idx: cs.idx, Dir: filepath.Join(db.GetBackupDir(), rockredis.GetCheckpointDir(cs.term, cs.idx))}
	k.HLLKeys = cs.hllKeyList()
	k.RefRaw = l.RawDumpNoFlush()
	k.RefLog = cs.logicalWithPF(l, k.HLLKeys)
	// a checkpoint with the same name replaces the old one
	for i, o := range cs.ckpts {
		if o.Term == k.Term && o.Idx == k.Idx {
			cs.ckpts = append(cs.ckpts[:i], cs.ckpts[i+1:]...)
			break
		}
	}
	cs.ckpts = append(cs.ckpts, k)
	cs.nBackups++
	done := make(chan error, 1)
	go func() {
		_, err := bi.GetResult()
		done <- err
	}()
	finish := func() {
		if err := <-done; err != nil {
			cs.incon = "backup failed: " + err.Error()
			return
		}
		h, err := hashDir(k.Dir)
		if err != nil {
			// already purged (KeepBackup) - nothing to hash
			h = nil
		}
		k.Hashes = h
		k.Done = true
	}
	cs.logf("backup %s wait_result=%v (engine keys=%d)", k.name(), waitResult, len(k.RefRaw))
	if waitResult {
		finish()
		return k
	}
	cs.nImmediate++
	// like the apply loop: continue with the next writes right away; the copy
	// goes on in the background
	n := 1 + cs.r.Intn(6)
	for i := 0; i < n; i++ {
		select {
		case err := <-done:
			done <- err
			i = n
		default:
			cs.write(l, 1+cs.r.Intn(3))
		}
	}
	finish()
	return k
}

func (cs *c14Case) existing() []*ckpt {
	var out []*ckpt
	for _, k := range cs.ckpts {
		if !k.Done {
			continue
		}
		if _, err := os.Stat(k.Dir); err == nil {
			out = append(out, k)
		}
	}
	return out
}

// checkRestored compares lab l (just restored from k) with the reference.
func (cs *c14Case) checkRestored(l *Lab, k *ckpt, what string) {
	raw := l.RawDumpNoFlush()
	lg := cs.logicalWithPF(l, k.HLLKeys)
	rd := RawDiff(k.RefRaw, raw)
	ld := (&Logical{Lines: k.RefLog}).Diff(&Logical{Lines: lg})
	if rd == "" && ld == "" {
		return
	}
	// classification: the restored content is exactly the content after one of
	// the apply batches that ran while the copy was still going on
	for j, later := range k.Later {
		if rd != "" && RawDiff(later, raw) == "" && RawDiff(k.RefRaw, later) != "" {
			sig := cs.Engine + "-checkpoint-leaks-later-writes"
			cs.violation(sig, fmt.Sprintf("%s of checkpoint %s yields the state after %d later apply batch(es) that were applied after WaitReady() while the copy was running, not the state at index %d", what, k.name(), j+1, k.Idx),
				map[string]interface{}{"checkpoint": k.name(), "what": what, "later_apply_batches_visible": j + 1, "later_commands": k.LaterCmds,
					"raw_diff_ref_vs_restored": rd, "logical_diff_ref_vs_restored": ld})
			return
		}
	}
	kind := "raw"
	detail := rd
	if ld != "" {
		kind, detail = "logical", ld
	}
	cs.violation("restore-mismatch/"+kind+"/"+cs.Engine, fmt.Sprintf("%s of checkpoint %s differs from the state recorded at the backup instant (index %d): %s", what, k.name(), k.Idx, detail),
		map[string]interface{}{"checkpoint": k.name(), "what": what, "raw_diff": rd, "logical_diff": ld, "later_apply_batches_recorded": len(k.Later)})
}

func (cs *c14Case) restore(k *ckpt, what string) bool {
	if _, serr := os.Stat(k.Dir); serr != nil {
		return false // purged meanwhile (every backup and every restore purges)
	}
	err := cs.a.DB().Restore(k.Term, k.Idx)
	cs.logf("%s %s -> %v", what, k.name(), err)
	if err != nil {
		// The purge step of the backup goroutine runs asynchronously after
		// GetResult() returned; it may remove an unprotected old checkpoint
		// between the Stat above and the Restore (seen on an idle machine by
		// `vp check`). That is the "purged meanwhile" case, not a failure of
		// the restore; whether the purge was admissible is judged by checkDirs.
		if _, serr := os.Stat(k.Dir); serr != nil {
			cs.nPurgedDuringRestore++
			return false
		}
		cs.violation("restore-fails/"+cs.Engine, fmt.Sprintf("%s of existing completed checkpoint %s failed: %v", what, k.name(), err), map[string]interface{}{"checkpoint": k.name()})
		return false
	}
	cs.nRestores++
	cs.checkRestored(cs.a, k, what)
	// The store now holds the state of index k.Idx. Checkpoint names are
	// (term,index) labels that the purge orders by; in a raft group they grow
	// monotonically on a node (a snapshot is only installed above the applied
	// index), so the history that follows gets a new term and keeps counting
	// indexes upwards instead of re-using the abandoned range.
	cs.term++
	return true
}

// checkDirs: checkpoint files unchanged; purge never removed a protected checkpoint.
func (cs *c14Case) checkDirs(when string) {
	var newest *ckpt
	for _, k := range cs.ckpts {
		if !k.Done {
			continue
		}
		if newest == nil || k.Term > newest.Term || (k.Term == newest.Term && k.Idx > newest.Idx) {
			newest = k
		}
	}
	for _, k := range cs.ckpts {
		if !k.Done {
			continue
		}
		_, err := os.Stat(k.Dir)
		if err != nil {
			if k.Hashes != nil {
				cs.nPurged++
				k.Hashes = nil
				cs.logf("checkpoint %s is gone (%s)", k.name(), when)
			}
			if cs.latest > 0 && k.Idx >= cs.latest {
				cs.violation("purge-removed-protected-checkpoint", fmt.Sprintf("checkpoint %s (index %d >= latest snapshot index %d) was removed (%s)", k.name(), k.Idx, cs.latest, when),
					map[string]interface{}{"checkpoint": k.name(), "latest_snap_index": cs.latest})
			} else if k == newest {
				cs.violation("purge-removed-newest-checkpoint", fmt.Sprintf("the newest completed checkpoint %s was removed (%s)", k.name(), when), map[string]interface{}{"checkpoint": k.name()})
			}
			continue
		}
		if k.Hashes == nil {
			continue
		}
		h, err := hashDir(k.Dir)
		if err != nil {
			continue
		}
		cs.nHashChecks++
		if d := diffHashes(k.Hashes, h); d != "" {
			// The purge (asynchronous, after every backup) may be removing this
			// directory right now. os.RemoveAll deletes file by file, so a
			// directory that only LOST files is "being purged" until it is gone:
			// wait for that on a generous watchdog (a cold or slow disk needs far
			// more than milliseconds; `vp check` on a fresh copy showed > 20 ms),
			// never decide on the wall clock. Content that changed or a file that
			// was added is judged at once (after one second look).
			gone := false
			protected := k == newest || (cs.latest > 0 && k.Idx >= cs.latest)
			for try := 0; try < 3000; try++ {
				if protected && try > 0 {
					break // nothing may remove files of a protected checkpoint: judged after one second look
				}
				time.Sleep(20 * time.Millisecond)
				if _, serr := os.Stat(k.Dir); serr != nil {
					gone = true
					break
				}
				if h, err = hashDir(k.Dir); err != nil {
					continue // vanishing under the walk
				}
				d = diffHashes(k.Hashes, h)
				if d == "" || !onlyRemovals(d) {
					break
				}
			}
			if gone || d == "" {
				continue
			}
			if onlyRemovals(d) && !protected {
				// still half removed after 60 s: no verdict from a watchdog
				cs.incon = fmt.Sprintf("checkpoint %s lost files (%s) but its directory did not disappear within the 60 s watchdog (%s)", k.name(), d, when)
				k.Hashes = h
				continue
			}
			cs.violation("checkpoint-files-changed/"+cs.Engine, fmt.Sprintf("files of checkpoint %s changed (%s): %s", k.name(), when, d), map[string]interface{}{"checkpoint": k.name(), "diff": d})
			k.Hashes = h
		}
	}
}

func (cs *c14Case) close() {
	for _, l := range []*Lab{cs.a, cs.b} {
		if l == nil {
			continue
		}
		if cs.panicked {
			l.Abandon()
		} else {
			l.Destroy()
		}
	}
}

// ---------------------------------------------------------------------------
// scenarios

func (cs *c14Case) runRandom(steps int) {
	var err error
	if cs.a, err = cs.open("A", nil); err != nil {
		cs.incon = err.Error()
		return
	}
	cs.write(cs.a, 5+cs.r.Intn(20))
	for s := 0; s < steps && cs.incon == "" && len(cs.viol) == 0; s++ {
		ex := cs.existing()
		switch w := cs.r.Intn(100); {
		case w < 28:
			cs.write(cs.a, 1+cs.r.Intn(25))
		case w < 50:
			cs.backup(cs.r.Intn(2) == 0)
			if cs.r.Intn(4) == 0 && cs.incon == "" { // two back-to-back
				cs.write(cs.a, cs.r.Intn(2))
				cs.backup(cs.r.Intn(2) == 0)
			}
		case w < 58:
			if cs.Engine == "pebble" {
				compactAll(cs.a)
				cs.nCompact++
				cs.logf("compact all")
				cs.checkDirs("after compaction")
			}
		case w < 76:
			if len(ex) > 0 {
				k := ex[cs.r.Intn(len(ex))]
				if cs.r.Intn(2) == 0 {
					k = ex[len(ex)-1]
				}
				if cs.restore(k, "restore") {
					cs.checkDirs("after restore")
					if cs.r.Intn(3) == 0 {
						cs.nRepeat++
						cs.restore(k, "repeated restore")
					}
				}
			}
		case w < 84:
			// the raft layer reports the persisted snapshot index
			if len(ex) > 0 {
				k := ex[cs.r.Intn(len(ex))]
				if k.Idx >= cs.latest {
					cs.latest = k.Idx
					cs.a.DB().SetLatestSnapIndex(k.Idx)
					cs.logf("SetLatestSnapIndex(%d)", k.Idx)
				}
			}
		case w < 92:
			if len(ex) > 0 {
				cs.otherNode(ex[cs.r.Intn(len(ex))])
			}
		default:
			if cs.Engine == "pebble" {
				// clean process restart; the store keeps its data
				before := cs.logicalWithPFFlushed(cs.a)
				if err := cs.a.Reopen(); err != nil {
					cs.incon = "reopen: " + err.Error()
					return
				}
				cs.a.DB().SetLatestSnapIndex(cs.latest)
				cs.nReopen++
				cs.logf("reopen")
				after := cs.logicalWithPFFlushed(cs.a)
				if d := (&Logical{Lines: before}).Diff(&Logical{Lines: after}); d != "" {
					cs.violation("reopen-changes-state/"+cs.Engine, "state differs after a clean close and reopen: "+d, nil)
				}
			}
		}
		cs.checkDirs("after step")
	}
	// final: restore every checkpoint that still exists once more
	for _, k := range cs.existing() {
		if cs.incon != "" || len(cs.viol) > 0 {
			break
		}
		if _, err := os.Stat(k.Dir); err != nil {
			continue // purged by the previous restore
		}
		cs.restore(k, "final restore")
	}
	cs.checkDirs("at the end")
}

func (cs *c14Case) logicalWithPFFlushed(l *Lab) []string {
	l.FlushHLL()
	return cs.logicalWithPF(l, cs.hllKeyList())
}

// otherNode: a second store with its own history fetches the checkpoint
// directory (cp -rp, the code's local transfer) and restores it.
func (cs *c14Case) otherNode(k *ckpt) {
	var err error
	if cs.b == nil {
		if cs.b, err = cs.open("B", nil); err != nil {
			cs.incon = err.Error()
			return
		}
	}
	// B diverges
	saveIdx, saveTerm := cs.idx, cs.term
	cs.idx, cs.term = 1000000+uint64(cs.nOther)*1000, 99
	cs.write(cs.b, 3+cs.r.Intn(15))
	cs.idx, cs.term = saveIdx, saveTerm
	dst := filepath.Join(cs.b.DB().GetBackupDir(), k.name())
	os.RemoveAll(dst)
	if err := copyDir(k.Dir, dst); err != nil {
		cs.incon = "copy checkpoint: " + err.Error()
		return
	}
	err = cs.b.DB().Restore(k.Term, k.Idx)
	cs.logf("other node: copy + restore %s -> %v", k.name(), err)
	if err != nil {
		cs.violation("restore-fails/"+cs.Engine, fmt.Sprintf("restore of fetched checkpoint %s on another node failed: %v", k.name(), err), nil)
		return
	}
	cs.nOther++
	cs.nRestores++
	cs.checkRestored(cs.b, k, "restore on another node")
}

// runFileReuse steers into the shape where the live store and a checkpoint hold
// a same-named .sst with different content: checkpoint 1, more data + compaction
// (new sst numbers), checkpoint 2, restore 1 (file numbering restarts from 1's
// manifest), different data + compaction (same numbers, other content), restore 2.
func (cs *c14Case) runFileReuse() {
	var err error
	if cs.a, err = cs.open("A", nil); err != nil {
		cs.incon = err.Error()
		return
	}
	flush := func() {
		compactAll(cs.a)
		cs.nCompact++
		cs.logf("compact all")
	}
	cs.write(cs.a, 10+cs.r.Intn(20))
	flush()
	k1 := cs.backup(true)
	if k1 == nil {
		return
	}
	rounds := 1 + cs.r.Intn(2)
	for i := 0; i < rounds; i++ {
		cs.write(cs.a, 10+cs.r.Intn(20))
		flush()
	}
	k2 := cs.backup(true)
	if k2 == nil {
		return
	}
	cs.checkDirs("after second backup")
	if !cs.restore(k1, "restore older") {
		return
	}
	for i := 0; i < rounds; i++ {
		cs.write(cs.a, 10+cs.r.Intn(20))
		flush()
	}
	if cs.r.Intn(2) == 0 {
		if err := cs.a.Reopen(); err != nil {
			cs.incon = "reopen: " + err.Error()
			return
		}
		cs.nReopen++
		cs.logf("reopen")
	}
	cs.checkDirs("after diverging from the older checkpoint")
	if !cs.restore(k2, "restore newer over diverged files") {
		return
	}
	cs.checkDirs("after restoring the newer checkpoint")
	cs.write(cs.a, 5+cs.r.Intn(10))
	flush()
	cs.checkDirs("after more writes")
	cs.nRepeat++
	cs.restore(k2, "repeated restore")
	cs.restore(k1, "restore older again")
	cs.checkDirs("at the end")
}

// runLeak: large unflushed write-ahead log, then Backup, WaitReady and marker
// writes in a tight loop until the copy is finished (DESIGN 1.6 #8).
func (cs *c14Case) runLeak(mb int) {
	var err error
	ro := &engine.RockOptions{WriteBufferSize: 256 << 20, BlockCache: 8 << 20}
	if cs.Engine == "mem" {
		ro = nil
	}
	if cs.a, err = cs.open("A", ro); err != nil {
		cs.incon = err.Error()
		return
	}
	l := cs.a
	big := make([]byte, 1<<20)
	for i := range big {
		big[i] = byte('a' + cs.r.Intn(26))
	}
	for i := 0; i < mb; i++ {
		cs.idx++
		cs.ts++
		l.Apply([]Entry{{Cmds: []Cmd{CB("set", []byte("big"), []byte(fmt.Sprintf("k%03d", i)), big)}, TsNano: cs.ts, Index: cs.idx, Term: cs.term}}, false, false)
	}
	cs.write(l, 10)
	cs.logf("wrote %d MB of unflushed data", mb)
	// reference BEFORE the backup (no HLL keys pending here: flush explicitly)
	l.FlushHLL()
	refRaw := l.RawDumpNoFlush()
	db := l.DB()
	var bi *rockredis.BackupInfo
	for try := 0; try < 2000 && bi == nil; try++ {
		if bi = db.Backup(cs.term, cs.idx); bi == nil {
			time.Sleep(time.Millisecond)
		}
	}
	if bi == nil {
		cs.incon = "backup refused"
		return
	}
	t0 := time.Now()
	bi.WaitReady()
	ready := time.Since(t0)
	k := &ckpt{Term: cs.term, Idx: cs.idx, Dir: filepath.Join(db.GetBackupDir(), rockredis.GetCheckpointDir(cs.term, cs.idx)), RefRaw: refRaw}
	cs.nBackups++
	cs.nImmediate++
	done := make(chan error, 1)
	go func() {
		_, err := bi.GetResult()
		done <- err
	}()
	markers := 0
	var berr error
loop:
	for markers < 100000 {
		select {
		case berr = <-done:
			break loop
		default:
		}
		cs.idx++
		cs.ts++
		l.Apply([]Entry{{Cmds: []Cmd{C("set", "marker", fmt.Sprintf("m%06d", markers), "x")}, TsNano: cs.ts, Index: cs.idx, Term: cs.term}}, false, false)
		markers++
	}
	if markers >= 100000 {
		berr = <-done
	}
	copyDur := time.Since(t0)
	if berr != nil {
		cs.incon = "backup failed: " + berr.Error()
		return
	}
	cs.logf("backup %s: WaitReady after %v, copy finished after %v, %d marker writes in between", k.name(), ready, copyDur, markers)
	k.Done = true
	k.Hashes, _ = hashDir(k.Dir)
	cs.ckpts = append(cs.ckpts, k)
	if err := db.Restore(k.Term, k.Idx); err != nil {
		cs.violation("restore-fails/"+cs.Engine, fmt.Sprintf("restore of %s failed: %v", k.name(), err), nil)
		return
	}
	cs.nRestores++
	raw := l.RawDumpNoFlush()
	// split the restored content into marker keys and the rest
	var rest []KV
	visible := map[int]bool{}
	for _, kv := range raw {
		if strings.HasPrefix(string(kv.K), "\x15marker:m") {
			var n int
			fmt.Sscanf(string(kv.K[len("\x15marker:m"):]), "%d", &n)
			visible[n] = true
			continue
		}
		if string(kv.K) == "\x0ameta:marker" {
			continue // table counter of the marker table
		}
		rest = append(rest, kv)
	}
	cs.leakMarkers, cs.leakVisible = markers, len(visible)
	cs.leakReadyMs, cs.leakCopyMs = float64(ready.Microseconds())/1000, float64(copyDur.Microseconds())/1000
	if d := RawDiff(refRaw, rest); d != "" {
		cs.violation("restore-mismatch/raw/"+cs.Engine, "restored content (markers aside) differs from the state at the backup instant: "+d, nil)
		return
	}
	if len(visible) > 0 {
		prefix := true
		for i := 0; i < len(visible); i++ {
			if !visible[i] {
				prefix = false
			}
		}
		if !prefix {
			cs.violation("restore-mismatch/markers-not-a-prefix/"+cs.Engine, fmt.Sprintf("%d of %d markers visible after restore, but not a prefix of the marker sequence", len(visible), markers), nil)
			return
		}
		cs.violation(cs.Engine+"-checkpoint-leaks-later-writes",
			fmt.Sprintf("%d of %d marker keys written AFTER WaitReady() of Backup(%d,%d) are visible after Restore(%d,%d) (WaitReady returned after %v, copy finished after %v, %d MB unflushed WAL)",
				len(visible), markers, k.Term, k.Idx, k.Term, k.Idx, ready, copyDur, mb),
			map[string]interface{}{"markers_written_after_waitready": markers, "markers_visible_after_restore": len(visible), "waitready_ms": cs.leakReadyMs, "copy_done_ms": cs.leakCopyMs, "unflushed_mb": mb})
	}
}

// ---------------------------------------------------------------------------

func newC14Case(c *vc.Ctx, id int, scenario string) *c14Case {
	r := c.Rand(int64(1000000 + id))
	cs := &c14Case{ID: id, Scenario: scenario, r: r, scr: c.Scratch, term: 1, hll: map[string]bool{}, Seed: c.Seed*1000003 + int64(id)}
	cs.Engine = "pebble"
	if r.Intn(3) == 0 {
		cs.Engine = "mem"
	}
	cs.Policy = "wait_compact"
	if r.Intn(5) == 0 {
		cs.Policy = "local_deletion"
	}
	cs.Keep = []int{0, 2, 3, 2}[r.Intn(4)]
	cs.g = NewGen(r)
	cs.g.HLLMode = 1
	cs.g.BitmapDedicated = true
	cs.g.FailBatchable = 0
	cs.ts = time.Now().Add(72 * time.Hour).UnixNano()
	return cs
}

func runC14(c *vc.Ctx) error {
	QuietLogs(c.Scratch)
	c.Ev.Rule = "case = one store (pebble or mem, wait_compact or local_deletion, KeepBackup default/2/3) driven by a seeded script of: write bursts from the E3 generator (all families, HLL on dedicated keys), " +
		"Backup(term,index)+WaitReady exactly like kvStoreSM.GetSnapshot (reference raw+logical+PFCOUNT dump recorded before the next write; variants: wait for GetResult / continue writing immediately), CompactAllRange, " +
		"Restore of an older or the newest checkpoint, repeated restore, SetLatestSnapIndex, restore on a second diverged store after copying the checkpoint dir, clean reopen; plus a director that forces same-named sst files with different content, " +
		"plus the large-unflushed-WAL marker scenario, plus 'near-identical-sst' (A and B built by identical operation sequences, a few early keys overwritten on A only with same-length values, both compacted: B holds an sst with the name, size and tail of one in A's checkpoint), " +
		"plus 'hll-flush-race' (all 32 entries of the HyperLogLog write cache made dirty right before every Backup, checkpoint restored right away), " +
		"plus 'check-while-copying' (IsLocalBackupOK polled by another replica while backupLoop copies a large checkpoint; the directory is fetched at the moment it is reported ok and restored on a second store), " +
		"plus 'interrupted-fetch' (sources A and C with the same data but different engine file numbers, a partial left-over of a fetch from C in B's backup dir, then the production prepareSnapshotForStore fetch from A and Restore). Oracle: dump(after restore) == dump(at backup instant) raw and logical; sha1 of every checkpoint file unchanged after restores/compactions/writes; purge never removes a checkpoint >= latest snapshot index nor the newest one. " +
		"non-trivial = case with >=1 restore of a checkpoint after the store had diverged from it; distinct by hash(script)"
	c.Ev.Assume("engines pebble and mem only; rocksdb checkpoints (hard-linked sst + backup engine) are not exercised")
	c.Ev.Assume("restore interrupted by a crash is C06's subject; here every restore runs to completion")
	c.Ev.Assume("log timestamps are 72 h in the future so that no TTL expires on the wall clock between the reference dump and the dump after restore")
	c.Ev.Assume("the 'other node' fetch is a plain file copy of the checkpoint directory (what common.RunFileSync does for a local source)")

	restoreStdout := MuteStdout() // the mem engine prints the whole store on every checkpoint
	defer restoreStdout()
	out := Stdout()

	nRandom := c.Pick(600, 9000)
	nReuse := c.Pick(80, 1000)
	nLeak := c.Pick(3, 12)
	var cases []*c14Case
	id := 0
	for i := 0; i < nRandom; i++ {
		cases = append(cases, newC14Case(c, id, "random"))
		id++
	}
	for i := 0; i < nReuse; i++ {
		cs := newC14Case(c, id, "file-number-reuse")
		cs.Engine = "pebble"
		cases = append(cases, cs)
		id++
	}
	for i := 0; i < c.Pick(6, 40); i++ {
		cases = append(cases, newC14Case(c, id, "near-identical-sst"))
		id++
	}
	for i := 0; i < c.Pick(8, 40); i++ {
		cs := newC14Case(c, id, "hll-flush-race")
		cs.Engine = []string{"pebble", "mem"}[i%2]
		cs.reps = c.Pick(10, 20)
		cases = append(cases, cs)
		id++
	}
	for i := 0; i < c.Pick(60, 600); i++ {
		cases = append(cases, newC14Case(c, id, "interrupted-fetch"))
		id++
	}
	var mu sync.Mutex
	var all []c14Violation
	var done int64
	finishCase := func(cs *c14Case) {
		cs.close()
		if cs.incon != "" {
			mu.Lock()
			c.Inconclusive(fmt.Sprintf("case %d (%s): %s", cs.ID, cs.Scenario, cs.incon))
			mu.Unlock()
			return
		}
		c.Ev.Eval()
		c.Ev.Count("cases_"+cs.Scenario, 1)
		c.Ev.Count("cases_engine_"+cs.Engine, 1)
		c.Ev.Count("cases_policy_"+cs.Policy, 1)
		c.Ev.Count("commands_applied", int64(cs.nCmds))
		c.Ev.Count("checkpoints_taken", int64(cs.nBackups))
		c.Ev.Count("checkpoints_taken_continue_immediately_after_waitready", int64(cs.nImmediate))
		c.Ev.Count("restores", int64(cs.nRestores))
		c.Ev.Count("checkpoints_purged_between_stat_and_restore", int64(cs.nPurgedDuringRestore))
		c.Ev.Count("repeated_restores", int64(cs.nRepeat))
		c.Ev.Count("restores_on_other_node", int64(cs.nOther))
		c.Ev.Count("compactions", int64(cs.nCompact))
		c.Ev.Count("reopens", int64(cs.nReopen))
		c.Ev.Count("checkpoint_dir_hash_checks", int64(cs.nHashChecks))
		c.Ev.Count("checkpoints_purged", int64(cs.nPurged))
		c.Ev.Count("raw_dumps_during_running_copy", int64(cs.nLaterDumps))
		c.Ev.Count("backups_right_after_filling_the_hll_write_cache_with_dirty_keys", int64(cs.nDirtyFills))
		if cs.Scenario == "near-identical-sst" {
			if cs.nearReached {
				c.Ev.Count("near_identical_sst_cases", 1)
			} else {
				c.Ev.Count("near_identical_sst_not_reached", 1)
				if len(cs.Script) > 0 {
					c.Ev.Set("near_identical_sst_not_reached_sample", cs.Script[len(cs.Script)-3:])
				}
			}
		}
		c.Ev.Count("fetches_through_prepareSnapshotForStore_after_interrupted_fetch", int64(cs.nFetch))
		c.Ev.Count("interrupted_fetch_reachable_leftovers_(prefix_of_real_cp_order)", int64(cs.nReachable))
		c.Ev.Count("interrupted_fetch_partial_leftovers_accepted_without_fetch", int64(cs.nAccepted))
		c.Ev.Count("interrupted_fetch_loud_errors", int64(cs.nLoud))
		if cs.nRestores > 0 {
			h := sha1.Sum([]byte(strings.Join(cs.Script, "\n")))
			c.Ev.Nontrivial(hex.EncodeToString(h[:8]))
		}
		if cs.ID < 2 {
			s := cs.Script
			if len(s) > 25 {
				s = s[:25]
			}
			c.Ev.Sample(2, map[string]interface{}{"scenario": cs.Scenario, "engine": cs.Engine, "policy": cs.Policy, "keep_backup": cs.Keep, "script": s})
		}
		if len(cs.viol) > 0 {
			c.Ev.Count("cases_with_violation_"+cs.Scenario+"_"+cs.Engine, 1)
		}
		mu.Lock()
		all = append(all, cs.viol...)
		mu.Unlock()
		if n := atomic.AddInt64(&done, 1); n%100 == 0 {
			fmt.Fprintf(out, "C14 progress: %d cases\n", n)
		}
	}
	c.ParallelFor(len(cases), func(i int) {
		cs := cases[i]
		defer func() {
			if e := recover(); e != nil {
				// a panic of the apply loop on generated input is C11's subject; a panic
				// in backup/restore code is reported here
				cs.panicked = true
				msg := fmt.Sprintf("%v", e)
				if cs.inApply {
					cs.incon = "apply loop panicked on generated input (C11): " + msg
				} else {
					cs.violation("panic/"+cs.Engine, fmt.Sprintf("panic during %s scenario outside the apply path: %s", cs.Scenario, msg), nil)
				}
				finishCase(cs)
			}
		}()
		switch cs.Scenario {
		case "random":
			cs.runRandom(12 + cs.r.Intn(14))
		case "file-number-reuse":
			cs.runFileReuse()
		case "hll-flush-race":
			cs.runHLLFlushRace(cs.reps)
		case "near-identical-sst":
			cs.runNearSST()
		case "interrupted-fetch":
			cs.runFetch()
		}
		finishCase(cs)
	})
	// the marker scenario needs the machine for itself (timing), run it serially
	for i := 0; i < nLeak; i++ {
		for _, eng := range []string{"pebble", "mem"} {
			if eng == "mem" && i > 0 {
				continue
			}
			cs := newC14Case(c, id, "large-wal-markers")
			id++
			cs.Engine, cs.Policy, cs.Keep = eng, "wait_compact", 0
			mb := 48
			if eng == "mem" {
				mb = 8
			}
			cs.runLeak(mb)
			c.Ev.Count("marker_scenario_runs_"+eng, 1)
			c.Ev.Count("marker_writes_after_waitready_"+eng, int64(cs.leakMarkers))
			c.Ev.Count("markers_visible_after_restore_"+eng, int64(cs.leakVisible))
			c.Ev.Max("marker_scenario_copy_done_ms_max_"+eng, int64(cs.leakCopyMs))
			c.Ev.Max("marker_scenario_waitready_ms_max_"+eng, int64(cs.leakReadyMs))
			finishCase(cs)
		}
	}
	// check-backup request while the checkpoint is being copied (serial: timing)
	for i := 0; i < c.Pick(2, 8); i++ {
		for _, eng := range []string{"pebble", "mem"} {
			cs := newC14Case(c, id, "check-while-copying")
			id++
			cs.Engine, cs.Policy, cs.Keep = eng, "wait_compact", 0
			mb := 32
			if eng == "mem" {
				mb = 6
			}
			func() {
				defer func() {
					if e := recover(); e != nil {
						cs.panicked = true
						cs.incon = fmt.Sprintf("panic: %v", e)
					}
				}()
				cs.runCheckWhileCopying(mb)
			}()
			c.Ev.Count("check_while_copying_runs_"+eng, 1)
			c.Ev.Count("check_while_copying_calls_started_while_copying_"+eng, int64(cs.chkCallsWhileCopying))
			if cs.chkNontrivial {
				c.Ev.Count("check_while_copying_nontrivial_(ok_call_started_while_copying)_"+eng, 1)
			} else {
				c.Ev.Count("check_while_copying_trivial_"+eng, 1)
			}
			if cs.chkOKBeforeDone {
				c.Ev.Count("check_while_copying_ok_returned_before_done_closed_"+eng, 1)
			}
			finishCase(cs)
		}
	}
	restoreStdout()
	for _, v := range all {
		viol(c, v.Sig, v.Summary, v.Witness)
	}
	return nil
}
