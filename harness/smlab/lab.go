// Package smlab (engine E3) drives the REAL replicated state machine of
// ZanRedisDB (node.StateMachine on a real KVStore / rockredis.RockDB) from the
// outside, exactly the way node.applyEntries does: shared batch operator,
// per-entry ApplyRaftRequest, CommitBatch at apply-batch boundaries, replies
// collected through a real pkg/wait. See API.md next to this file.
package smlab

import (
	"errors"
	"fmt"
	"os"
	"strings"
	"sync/atomic"

	"github.com/youzan/ZanRedisDB/common"
	"github.com/youzan/ZanRedisDB/engine"
	"github.com/youzan/ZanRedisDB/node"
	"github.com/youzan/ZanRedisDB/pkg/wait"
	"github.com/youzan/ZanRedisDB/rockredis"
)

// DefaultNamespace is the full namespace name (base name + "-" + partition).
const DefaultNamespace = "default-0"

// Opts selects the store under the state machine.
type Opts struct {
	Engine       string // "mem" | "pebble" (never rocksdb: link shim only)
	ExpirePolicy string // "wait_compact" (default) | "local_deletion"
	Dir          string // data dir (put it under c.Scratch)
	Namespace    string // full namespace name, default "default-0"

	KeepBackup int // rockredis KeepBackup (0 = code default MaxCheckpointNum=10)
	// Engine sizing. The production defaults (64 MB memtable, block cache 1 % of
	// RAM per store) make hundreds of short-lived stores slow; smlab defaults to
	// 4 MB / 8 MB. Set explicitly to override (e.g. C14 wants a large unflushed WAL).
	WriteBufferSize int
	BlockCache      int64
	// RockOpts, if non-nil, is used verbatim (EngineType is overwritten by Engine).
	RockOpts *engine.RockOptions
	// UseRedisV2 encodes single-key entries like a server with use_redis_v2:
	// raft entry DataType RedisV2Req, namespace kept in the proposal. Default is
	// the default server mode: BatchInternalRaftRequest{1 x RedisReq}, namespace cut
	// by the proposing node.
	UseRedisV2 bool
}

// Lab is one real replica state machine.
type Lab struct {
	opts   Opts
	policy common.ExpirationPolicy
	nsBase string
	sm     node.StateMachine
	store  *node.KVStore
	rn     *node.KVNode
	w      wait.Wait
	stop   chan struct{}
	nextID uint64

	// position of the last applied entry (0 if the entries carried no index)
	LastIndex, LastTerm uint64
	// Stats, cumulative over the life of the Lab (survive Reopen)
	Entries, Requests, ApplyBatches int64
}

func policyOf(s string) (common.ExpirationPolicy, common.DataVersionT, error) {
	switch s {
	case "", "wait_compact":
		return common.WaitCompact, common.ValueHeaderV1, nil
	case "local_deletion":
		return common.LocalDeletion, common.DefaultDataVer, nil
	}
	return 0, 0, fmt.Errorf("smlab: unknown expire policy %q", s)
}

// Open creates (or re-opens, if Dir holds data) a replica.
func Open(o Opts) (*Lab, error) {
	if o.Engine != "mem" && o.Engine != "pebble" {
		return nil, fmt.Errorf("smlab: engine %q not allowed (use mem or pebble)", o.Engine)
	}
	if o.Dir == "" {
		return nil, errors.New("smlab: Opts.Dir required")
	}
	if o.Namespace == "" {
		o.Namespace = DefaultNamespace
	}
	pol, _, err := policyOf(o.ExpirePolicy)
	if err != nil {
		return nil, err
	}
	base, _ := common.GetNamespaceAndPartition(o.Namespace)
	if base == "" {
		return nil, fmt.Errorf("smlab: namespace %q must be <base>-<partition>", o.Namespace)
	}
	l := &Lab{opts: o, policy: pol, nsBase: base, stop: make(chan struct{}), nextID: 1 << 32}
	if err := l.open(); err != nil {
		return nil, err
	}
	return l, nil
}

func (l *Lab) kvOptions() *node.KVOptions {
	o := l.opts
	pol, dv, _ := policyOf(o.ExpirePolicy)
	var ro engine.RockOptions
	if o.RockOpts != nil {
		ro = *o.RockOpts
	} else {
		ro.WriteBufferSize = o.WriteBufferSize
		if ro.WriteBufferSize <= 0 {
			ro.WriteBufferSize = 4 << 20
		}
		ro.BlockCache = o.BlockCache
		if ro.BlockCache <= 0 {
			ro.BlockCache = 8 << 20
		}
	}
	ro.EngineType = o.Engine
	engine.FillDefaultOptions(&ro)
	return &node.KVOptions{
		DataDir:          o.Dir,
		KeepBackup:       o.KeepBackup,
		EngType:          rockredis.EngType,
		ExpirationPolicy: pol,
		DataVersion:      dv,
		RockOpts:         ro,
	}
}

func (l *Lab) open() error {
	if err := os.MkdirAll(l.opts.Dir, 0755); err != nil {
		return err
	}
	w := wait.New()
	sm, err := node.NewStateMachine(l.kvOptions(), node.MachineConfig{}, 1, l.opts.Namespace, nil, w, nil)
	if err != nil {
		return err
	}
	store := node.VerifStoreOf(sm)
	if store == nil {
		sm.Close()
		return errors.New("smlab: state machine has no KVStore")
	}
	l.sm, l.store, l.w = sm, store, w
	l.rn = node.VerifReadNodeOfSM(sm, l.opts.Namespace)
	return nil
}

// Close closes the state machine and its store (flushes the HLL cache, like a
// clean process stop).
func (l *Lab) Close() {
	if l.sm != nil {
		l.sm.Close()
		l.sm = nil
		l.store = nil
		l.rn = nil
	}
}

// Reopen closes the store and builds a new state machine on the same
// directory: a clean process restart. pebble keeps its data; mem re-loads only
// what a previous Restore left in <dir>/mem/mem.dat (i.e. mem loses everything
// that was not restored from a checkpoint).
func (l *Lab) Reopen() error {
	l.Close()
	return l.open()
}

// Abandon gives up a lab whose apply loop panicked: the real process would be
// dead. Closing such a store can block forever (the mem engine's write batch
// keeps the single writer lock of the radix tree when a handler panics between
// its first Put and the commit), so the close runs in a goroutine that may never
// return; the directory is removed right away.
func (l *Lab) Abandon() {
	sm := l.sm
	l.sm, l.store, l.rn = nil, nil, nil
	if sm != nil {
		go func() {
			defer func() { recover() }()
			sm.Close()
		}()
	}
	os.RemoveAll(l.opts.Dir)
}

// Destroy closes the lab and removes its directory.
func (l *Lab) Destroy() {
	l.Close()
	os.RemoveAll(l.opts.Dir)
}

func (l *Lab) DB() *rockredis.RockDB           { return l.store.RockDB }
func (l *Lab) Store() *node.KVStore            { return l.store }
func (l *Lab) SM() node.StateMachine           { return l.sm }
func (l *Lab) ReadNode() *node.KVNode          { return l.rn }
func (l *Lab) Wait() wait.Wait                 { return l.w }
func (l *Lab) Options() Opts                   { return l.opts }
func (l *Lab) NamespaceBase() string           { return l.nsBase }
func (l *Lab) Policy() common.ExpirationPolicy { return l.policy }

// ---------------------------------------------------------------------------
// commands and entries

// Cmd is one redis command as a client sends it: Args[0] = name, Args[1] =
// "<namespace>:<table>:<key>" (namespace = base name, e.g. "default"), further
// key arguments of multi-key commands (del, exists, plset, mset) carry the
// namespace too.
type Cmd struct{ Args [][]byte }

func (c Cmd) Name() string {
	if len(c.Args) == 0 {
		return ""
	}
	return strings.ToLower(string(c.Args[0]))
}

func (c Cmd) String() string {
	var sb strings.Builder
	for i, a := range c.Args {
		if i > 0 {
			sb.WriteByte(' ')
		}
		if len(a) > 64 {
			fmt.Fprintf(&sb, "%q...(%d bytes)", a[:24], len(a))
		} else {
			fmt.Fprintf(&sb, "%q", a)
		}
	}
	return sb.String()
}

// Strs renders the command as a string list (for JSON witnesses).
func (c Cmd) Strs() []string {
	r := make([]string, len(c.Args))
	for i, a := range c.Args {
		r[i] = string(a)
	}
	return r
}

func (c Cmd) clone() Cmd {
	n := Cmd{Args: make([][]byte, len(c.Args))}
	for i, a := range c.Args {
		n.Args[i] = append([]byte{}, a...)
	}
	return n
}

// DefaultNamespaceBase is the namespace prefix used by the package-level
// command builders.
const DefaultNamespaceBase = "default"

// NsKey builds "<nsbase>:<table>:<key>".
func NsKey(nsBase string, table, key []byte) []byte {
	b := make([]byte, 0, len(nsBase)+len(table)+len(key)+2)
	b = append(b, nsBase...)
	b = append(b, ':')
	b = append(b, table...)
	b = append(b, ':')
	b = append(b, key...)
	return b
}

// C builds a single-key command for the default namespace:
// C("set","t","k","v") = SET default:t:k v.
func C(name, table, key string, rest ...string) Cmd {
	c := Cmd{Args: make([][]byte, 0, 2+len(rest))}
	c.Args = append(c.Args, []byte(name), NsKey(DefaultNamespaceBase, []byte(table), []byte(key)))
	for _, r := range rest {
		c.Args = append(c.Args, []byte(r))
	}
	return c
}

// CB is C for binary arguments.
func CB(name string, table, key []byte, rest ...[]byte) Cmd {
	c := Cmd{Args: make([][]byte, 0, 2+len(rest))}
	c.Args = append(c.Args, []byte(name), NsKey(DefaultNamespaceBase, table, key))
	c.Args = append(c.Args, rest...)
	return c
}

// CKeys builds a multi-key command whose arguments are all keys of one table
// (DEL, EXISTS, MGET): CKeys("del","t","a","b").
func CKeys(name, table string, keys ...string) Cmd {
	c := Cmd{Args: [][]byte{[]byte(name)}}
	for _, k := range keys {
		c.Args = append(c.Args, NsKey(DefaultNamespaceBase, []byte(table), []byte(k)))
	}
	return c
}

// CKVs builds a key/value-pair command (PLSET, MSET): CKVs("plset","t","a","1","b","2").
func CKVs(name, table string, kvs ...string) Cmd {
	c := Cmd{Args: [][]byte{[]byte(name)}}
	for i, s := range kvs {
		if i%2 == 0 {
			c.Args = append(c.Args, NsKey(DefaultNamespaceBase, []byte(table), []byte(s)))
		} else {
			c.Args = append(c.Args, []byte(s))
		}
	}
	return c
}

// Cmd builds a single-key command with the lab's namespace.
func (l *Lab) Cmd(name, table, key string, rest ...string) Cmd {
	c := C(name, table, key, rest...)
	c.Args[1] = NsKey(l.nsBase, []byte(table), []byte(key))
	return c
}

// keyArgPositions returns which argument positions are keys carrying a
// namespace, mirroring the leader-side wrappers of node/util.go:
// wrapWriteMergeCommandKK (del), wrapMergeCommandKK (exists), wrapReadCommandKK
// (mget), wrapWriteMergeCommandKVKV (plset; mset is only registered on the
// apply side and takes the same shape); everything else: Args[1] only.
func keyArgPositions(name string, n int) []int {
	var pos []int
	switch name {
	case "del", "exists", "mget":
		for i := 1; i < n; i++ {
			pos = append(pos, i)
		}
	case "plset", "mset":
		for i := 1; i < n; i += 2 {
			pos = append(pos, i)
		}
	default:
		if n > 1 {
			pos = append(pos, 1)
		}
	}
	return pos
}

// CutNamespaces returns a copy of the command with the namespace removed from
// every key argument: what the proposing node puts into a RedisReq proposal.
func CutNamespaces(c Cmd) (Cmd, error) {
	n := c.clone()
	for _, i := range keyArgPositions(n.Name(), len(n.Args)) {
		k, err := common.CutNamesapce(n.Args[i])
		if err != nil {
			return n, err
		}
		n.Args[i] = k
	}
	return n, nil
}

// Entry is one raft log entry. With the default encoding it is a
// BatchInternalRaftRequest with len(Cmds) requests (a client write is always
// one request per entry; several requests per entry are what the cluster log
// syncer produces), each with its own request id, all with the entry
// timestamp. With Opts.UseRedisV2 single-command entries are RedisV2 entries.
type Entry struct {
	Cmds   []Cmd
	TsNano int64 // log timestamp (ns), taken by the proposer: reaches every handler as ts
	Index  uint64
	Term   uint64
	IDs    []uint64 // request ids, len(Cmds); nil: generated by the lab
}

// E builds a one-command entry.
func E(ts int64, c Cmd) Entry { return Entry{Cmds: []Cmd{c}, TsNano: ts} }

// buildReqList produces the BatchInternalRaftRequest that node.applyEntry hands
// to ApplyRaftRequest for this entry, going through the real marshal/unmarshal.
func (l *Lab) buildReqList(e *Entry, ids []uint64) (node.BatchInternalRaftRequest, error) {
	var reqList node.BatchInternalRaftRequest
	if len(e.Cmds) == 0 {
		return reqList, nil // entry without data (leader no-op)
	}
	if l.opts.UseRedisV2 && len(e.Cmds) == 1 && len(keyArgPositions(e.Cmds[0].Name(), len(e.Cmds[0].Args))) <= 1 {
		// node.applyEntry for evnt.DataType == RedisV2Req
		var r node.InternalRaftRequest
		r.Header.ID = ids[0]
		r.Header.Timestamp = e.TsNano
		r.Header.DataType = int32(node.RedisV2Req)
		r.Data = common.BuildCommand(e.Cmds[0].clone().Args).Raw
		reqList.ReqNum = 1
		reqList.Reqs = append(reqList.Reqs, r)
		reqList.Timestamp = e.TsNano
		return reqList, nil
	}
	var prop node.BatchInternalRaftRequest
	prop.Timestamp = e.TsNano
	for i, c := range e.Cmds {
		cc, err := CutNamespaces(c)
		if err != nil {
			return reqList, fmt.Errorf("smlab: command %v: %v (the proposing node rejects it, it never reaches the log)", c, err)
		}
		var r node.InternalRaftRequest
		r.Header.ID = ids[i]
		r.Header.Timestamp = e.TsNano
		r.Header.DataType = int32(node.RedisReq)
		r.Data = common.BuildCommand(cc.Args).Raw
		prop.Reqs = append(prop.Reqs, r)
	}
	prop.ReqNum = int32(len(prop.Reqs))
	data, err := prop.Marshal()
	if err != nil {
		return reqList, err
	}
	if err := reqList.Unmarshal(data); err != nil {
		return reqList, err
	}
	return reqList, nil
}

// Apply applies the entries as ONE apply batch, mirroring
// node.applyEntries: one GetBatchOperator() for the whole batch, per entry
// ApplyRaftRequest(isReplaying, batch, reqList, term, index, stop) and one
// CommitBatch() at the end. (Inside ApplyRaftRequest the real code commits the
// shared batch before any non-batchable command, before a repeated key, and
// after 100 commands - that is the code under test, not mirrored here.)
//
// waiters=true registers every request id on the lab's pkg/wait before applying
// (what the proposing leader does) and returns, per entry, the value each
// request was answered with. waiters=false is a follower: nothing is
// registered, the result is nil.
func (l *Lab) Apply(batch []Entry, isReplaying bool, waiters bool) [][]Reply {
	type pend struct {
		ids []uint64
		wrs []wait.WaitResult
	}
	pends := make([]pend, len(batch))
	reqLists := make([]node.BatchInternalRaftRequest, len(batch))
	buildErrs := make([]error, len(batch))
	for i := range batch {
		e := &batch[i]
		ids := e.IDs
		if len(ids) != len(e.Cmds) {
			ids = make([]uint64, len(e.Cmds))
			for j := range ids {
				ids[j] = atomic.AddUint64(&l.nextID, 1)
			}
		}
		pends[i].ids = ids
		reqLists[i], buildErrs[i] = l.buildReqList(e, ids)
		if waiters && buildErrs[i] == nil {
			for _, id := range ids {
				pends[i].wrs = append(pends[i].wrs, l.w.Register(id))
			}
		}
	}
	bo := l.sm.GetBatchOperator()
	for i := range batch {
		e := &batch[i]
		if buildErrs[i] != nil {
			continue
		}
		l.sm.ApplyRaftRequest(isReplaying, bo, reqLists[i], e.Term, e.Index, l.stop)
		if e.Index > 0 {
			l.LastIndex, l.LastTerm = e.Index, e.Term
		}
		l.Entries++
		l.Requests += int64(len(e.Cmds))
	}
	if bo != nil {
		bo.CommitBatch()
	}
	l.ApplyBatches++
	if !waiters {
		return nil
	}
	out := make([][]Reply, len(batch))
	for i := range batch {
		out[i] = make([]Reply, len(batch[i].Cmds))
		for j := range batch[i].Cmds {
			if buildErrs[i] != nil {
				out[i][j] = Reply{Kind: "rejected", Err: buildErrs[i].Error()}
				continue
			}
			wr := pends[i].wrs[j]
			select {
			case <-wr.WaitC():
				out[i][j] = NormalizeValue(wr.GetResult())
			default:
				// never answered: the client would hang until its timeout
				out[i][j] = Reply{Kind: "unanswered"}
				l.w.Trigger(pends[i].ids[j], nil)
			}
		}
	}
	return out
}

// ApplyOne applies one command as its own entry and apply batch, as leader.
func (l *Lab) ApplyOne(ts int64, c Cmd) Reply {
	r := l.Apply([]Entry{E(ts, c)}, false, true)
	return r[0][0]
}

// FlushHLL writes the dirty HyperLogLog write cache to the engine (what Backup
// and a clean close do). PFADD effects are invisible to RawDump before that.
func (l *Lab) FlushHLL() { l.store.RockDB.VerifFlushHLL() }
