package smlab

import (
	"bytes"
	"fmt"
	"net"
	"strconv"
	"strings"

	"github.com/absolute8511/redcon"
	"github.com/youzan/ZanRedisDB/common"
)

// Reply is a normalised reply: either the value a write request was answered
// with through pkg/wait (Kind int, bulk, nil, status, array, error, other), or
// a parsed RESP reply of a read handler (same kinds). Comparable with
// reflect.DeepEqual or through Canon().
//
// Kinds: "int", "bulk", "status", "nil", "array", "error", "other" (a Go value
// of a type the normaliser does not know, rendered with %#v in Bulk),
// "unanswered" (request id never triggered), "rejected" (refused by the
// proposer-side key check, never applied).
type Reply struct {
	Kind string  `json:"kind"`
	Int  int64   `json:"int,omitempty"`
	Bulk []byte  `json:"bulk,omitempty"`
	Arr  []Reply `json:"arr,omitempty"`
	Err  string  `json:"err,omitempty"`
	Nil  bool    `json:"nil,omitempty"`
}

func (r Reply) IsErr() bool { return r.Kind == "error" }

// Canon is a deterministic one-line rendering.
func (r Reply) Canon() string {
	var sb strings.Builder
	r.canon(&sb)
	return sb.String()
}

func (r Reply) canon(sb *strings.Builder) {
	switch r.Kind {
	case "int":
		fmt.Fprintf(sb, ":%d", r.Int)
	case "bulk":
		fmt.Fprintf(sb, "$%q", r.Bulk)
	case "status":
		fmt.Fprintf(sb, "+%s", r.Bulk)
	case "nil":
		sb.WriteString("nil")
	case "error":
		fmt.Fprintf(sb, "-ERR(%s)", r.Err)
	case "array":
		sb.WriteByte('[')
		for i, e := range r.Arr {
			if i > 0 {
				sb.WriteByte(' ')
			}
			e.canon(sb)
		}
		sb.WriteByte(']')
	default:
		fmt.Fprintf(sb, "<%s %q %s>", r.Kind, r.Bulk, r.Err)
	}
}

func (r Reply) String() string { return r.Canon() }

// Strings returns the elements of an array reply (or the single bulk) as strings.
func (r Reply) Strings() []string {
	if r.Kind != "array" {
		if r.Kind == "bulk" || r.Kind == "status" {
			return []string{string(r.Bulk)}
		}
		return nil
	}
	out := make([]string, 0, len(r.Arr))
	for _, e := range r.Arr {
		switch e.Kind {
		case "bulk", "status":
			out = append(out, string(e.Bulk))
		case "int":
			out = append(out, strconv.FormatInt(e.Int, 10))
		case "nil":
			out = append(out, "<nil>")
		default:
			out = append(out, e.Canon())
		}
	}
	return out
}

func bulkReply(b []byte) Reply {
	if b == nil {
		return Reply{Kind: "nil", Nil: true}
	}
	return Reply{Kind: "bulk", Bulk: append([]byte{}, b...)}
}

// NormalizeValue converts a value returned by an apply-side handler (or a
// merge-read handler) into a Reply.
func NormalizeValue(v interface{}) Reply {
	switch x := v.(type) {
	case nil:
		return Reply{Kind: "nil", Nil: true}
	case error:
		if x == nil {
			return Reply{Kind: "nil", Nil: true}
		}
		return Reply{Kind: "error", Err: x.Error()}
	case int64:
		return Reply{Kind: "int", Int: x}
	case int:
		return Reply{Kind: "int", Int: int64(x)}
	case int32:
		return Reply{Kind: "int", Int: int64(x)}
	case uint64:
		return Reply{Kind: "int", Int: int64(x)}
	case float64:
		return Reply{Kind: "bulk", Bulk: []byte(strconv.FormatFloat(x, 'g', -1, 64))}
	case bool:
		if x {
			return Reply{Kind: "int", Int: 1}
		}
		return Reply{Kind: "int", Int: 0}
	case []byte:
		return bulkReply(x)
	case string:
		return Reply{Kind: "status", Bulk: []byte(x)}
	case [][]byte:
		r := Reply{Kind: "array", Arr: make([]Reply, 0, len(x))}
		for _, b := range x {
			r.Arr = append(r.Arr, bulkReply(b))
		}
		return r
	case []string:
		r := Reply{Kind: "array", Arr: make([]Reply, 0, len(x))}
		for _, s := range x {
			r.Arr = append(r.Arr, Reply{Kind: "bulk", Bulk: []byte(s)})
		}
		return r
	case []int64:
		r := Reply{Kind: "array", Arr: make([]Reply, 0, len(x))}
		for _, n := range x {
			r.Arr = append(r.Arr, Reply{Kind: "int", Int: n})
		}
		return r
	case []interface{}:
		r := Reply{Kind: "array", Arr: make([]Reply, 0, len(x))}
		for _, e := range x {
			r.Arr = append(r.Arr, NormalizeValue(e))
		}
		return r
	case []common.ScorePair:
		r := Reply{Kind: "array", Arr: make([]Reply, 0, 2*len(x))}
		for _, p := range x {
			r.Arr = append(r.Arr, bulkReply(p.Member), Reply{Kind: "bulk", Bulk: []byte(strconv.FormatFloat(p.Score, 'g', -1, 64))})
		}
		return r
	case common.ScorePair:
		return Reply{Kind: "array", Arr: []Reply{bulkReply(x.Member), {Kind: "bulk", Bulk: []byte(strconv.FormatFloat(x.Score, 'g', -1, 64))}}}
	case []common.KVRecord:
		r := Reply{Kind: "array", Arr: make([]Reply, 0, 2*len(x))}
		for _, p := range x {
			r.Arr = append(r.Arr, bulkReply(p.Key), bulkReply(p.Value))
		}
		return r
	case []common.FieldPair:
		r := Reply{Kind: "array", Arr: make([]Reply, 0, 2*len(x))}
		for _, p := range x {
			r.Arr = append(r.Arr, bulkReply(p.Field), bulkReply(p.Value))
		}
		return r
	case *common.ScanResult:
		if x == nil {
			return Reply{Kind: "nil", Nil: true}
		}
		if x.Error != nil {
			return Reply{Kind: "error", Err: x.Error.Error()}
		}
		cur := x.NextCursor
		if cur == nil {
			cur = []byte{}
		}
		return Reply{Kind: "array", Arr: []Reply{bulkReply(cur), NormalizeValue(x.Keys)}}
	case *common.FullScanResult:
		if x == nil {
			return Reply{Kind: "nil", Nil: true}
		}
		if x.Error != nil {
			return Reply{Kind: "error", Err: x.Error.Error()}
		}
		cur := x.NextCursor
		if cur == nil {
			cur = []byte{}
		}
		return Reply{Kind: "array", Arr: []Reply{bulkReply(cur), NormalizeValue(x.Results)}}
	}
	return Reply{Kind: "other", Bulk: []byte(fmt.Sprintf("%T:%#v", v, v))}
}

// ---------------------------------------------------------------------------
// recording connection: the real redcon.Writer formats the reply, a small RESP
// parser turns it into a Reply.

type recConn struct {
	buf bytes.Buffer
	wr  *redcon.Writer
	ctx interface{}
}

func newRecConn() *recConn {
	c := &recConn{}
	c.wr = redcon.NewWriter(&c.buf)
	return c
}

func (c *recConn) RemoteAddr() string             { return "smlab" }
func (c *recConn) Close() error                   { return nil }
func (c *recConn) WriteError(msg string)          { c.wr.WriteError(msg) }
func (c *recConn) WriteString(str string)         { c.wr.WriteString(str) }
func (c *recConn) WriteBulk(bulk []byte)          { c.wr.WriteBulk(bulk) }
func (c *recConn) WriteBulkString(bulk string)    { c.wr.WriteBulkString(bulk) }
func (c *recConn) WriteInt(num int)               { c.wr.WriteInt(num) }
func (c *recConn) WriteInt64(num int64)           { c.wr.WriteInt64(num) }
func (c *recConn) WriteArray(count int)           { c.wr.WriteArray(count) }
func (c *recConn) WriteNull()                     { c.wr.WriteNull() }
func (c *recConn) WriteRaw(data []byte)           { c.wr.WriteRaw(data) }
func (c *recConn) Context() interface{}           { return c.ctx }
func (c *recConn) SetContext(v interface{})       { c.ctx = v }
func (c *recConn) SetReadBuffer(bytes int)        {}
func (c *recConn) Detach() redcon.DetachedConn    { return nil }
func (c *recConn) ReadPipeline() []redcon.Command { return nil }
func (c *recConn) PeekPipeline() []redcon.Command { return nil }
func (c *recConn) NetConn() net.Conn              { return nil }
func (c *recConn) Flush() error                   { return c.wr.Flush() }

// replies parses everything written so far.
func (c *recConn) replies() ([]Reply, error) {
	c.wr.Flush()
	b := c.buf.Bytes()
	var out []Reply
	for len(b) > 0 {
		r, rest, err := parseRESP(b)
		if err != nil {
			return out, err
		}
		out = append(out, r)
		b = rest
	}
	return out, nil
}

func readLine(b []byte) (line []byte, rest []byte, err error) {
	i := bytes.Index(b, []byte("\r\n"))
	if i < 0 {
		return nil, nil, fmt.Errorf("resp: missing CRLF in %q", trunc(b))
	}
	return b[:i], b[i+2:], nil
}

func trunc(b []byte) []byte {
	if len(b) > 60 {
		return b[:60]
	}
	return b
}

func parseRESP(b []byte) (Reply, []byte, error) {
	if len(b) == 0 {
		return Reply{}, nil, fmt.Errorf("resp: empty")
	}
	line, rest, err := readLine(b)
	if err != nil {
		return Reply{}, nil, err
	}
	switch b[0] {
	case '+':
		return Reply{Kind: "status", Bulk: append([]byte{}, line[1:]...)}, rest, nil
	case '-':
		return Reply{Kind: "error", Err: string(line[1:])}, rest, nil
	case ':':
		n, err := strconv.ParseInt(string(line[1:]), 10, 64)
		if err != nil {
			return Reply{}, nil, fmt.Errorf("resp: bad int %q", line)
		}
		return Reply{Kind: "int", Int: n}, rest, nil
	case '$':
		n, err := strconv.Atoi(string(line[1:]))
		if err != nil {
			return Reply{}, nil, fmt.Errorf("resp: bad bulk len %q", line)
		}
		if n < 0 {
			return Reply{Kind: "nil", Nil: true}, rest, nil
		}
		if len(rest) < n+2 {
			return Reply{}, nil, fmt.Errorf("resp: short bulk (%d of %d)", len(rest), n+2)
		}
		return Reply{Kind: "bulk", Bulk: append([]byte{}, rest[:n]...)}, rest[n+2:], nil
	case '*':
		n, err := strconv.Atoi(string(line[1:]))
		if err != nil {
			return Reply{}, nil, fmt.Errorf("resp: bad array len %q", line)
		}
		if n < 0 {
			return Reply{Kind: "nil", Nil: true}, rest, nil
		}
		r := Reply{Kind: "array", Arr: make([]Reply, 0, n)}
		for i := 0; i < n; i++ {
			if len(rest) == 0 {
				return r, nil, fmt.Errorf("resp: array announced %d elements, got %d", n, i)
			}
			var e Reply
			e, rest, err = parseRESP(rest)
			if err != nil {
				return r, nil, err
			}
			r.Arr = append(r.Arr, e)
		}
		return r, rest, nil
	}
	return Reply{}, nil, fmt.Errorf("resp: unknown type byte %q", b[0])
}

// Read executes a READ command through the REAL registered handler of the
// KVNode handler table (node_cmd_reg.go): plain read handlers get a recording
// redcon.Conn (so the reply formatting is the real one); merge-read handlers
// (scan, advscan, revscan, advrevscan, fullscan, exists, hidx.from) are called
// directly and their result value is normalised (ScanResult -> [cursor, [keys]]).
// The command must carry the namespace like a client command.
// A handler that panics yields Kind "error" with Err "PANIC: ...".
func (l *Lab) Read(cmd Cmd) (rep Reply) {
	name := cmd.Name()
	rc := common.BuildCommand(cmd.clone().Args)
	defer func() {
		if e := recover(); e != nil {
			rep = Reply{Kind: "error", Err: fmt.Sprintf("PANIC: %v", e)}
		}
	}()
	if h, ok := l.rn.GetHandler(name); ok {
		conn := newRecConn()
		h(conn, rc)
		rs, err := conn.replies()
		if err != nil {
			return Reply{Kind: "error", Err: "smlab: malformed reply: " + err.Error()}
		}
		switch len(rs) {
		case 0:
			return Reply{Kind: "unanswered"}
		case 1:
			return rs[0]
		default:
			// a handler that wrote more than one top-level reply: protocol desync
			return Reply{Kind: "other", Err: "multiple top-level replies", Arr: rs}
		}
	}
	if h, isWrite, ok := l.rn.GetMergeHandler(name); ok && !isWrite {
		v, err := h(rc)
		if err != nil {
			return Reply{Kind: "error", Err: err.Error()}
		}
		return NormalizeValue(v)
	}
	return Reply{Kind: "error", Err: "smlab: no read handler registered for '" + name + "'"}
}

// R is shorthand for l.Read(l.Cmd(name, table, key, rest...)).
func (l *Lab) R(name, table, key string, rest ...string) Reply {
	return l.Read(l.Cmd(name, table, key, rest...))
}
