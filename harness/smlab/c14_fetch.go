package smlab

import (
	"fmt"
	"io/ioutil"
	"net"
	"net/http"
	"net/http/httptest"
	"os"
	"os/exec"
	"path/filepath"
	"sort"
	"strings"
	"sync/atomic"

	"github.com/youzan/ZanRedisDB/common"
	"github.com/youzan/ZanRedisDB/engine"
	"github.com/youzan/ZanRedisDB/node"
	"github.com/youzan/ZanRedisDB/raft/raftpb"
	"github.com/youzan/ZanRedisDB/rockredis"
)

// C14, "another node that fetched it to catch up": two directed scenarios.

// openAt opens a lab whose data dir is <root>/<namespace>, the layout that the
// production fetch path (prepareSnapshotForStore) derives source paths from.
func (cs *c14Case) openAt(root string, ro *engine.RockOptions) (*Lab, error) {
	return Open(Opts{Engine: cs.Engine, ExpirePolicy: cs.Policy, Dir: filepath.Join(root, DefaultNamespace), KeepBackup: cs.Keep, RockOpts: ro})
}

func (cs *c14Case) root(name string) string {
	return filepath.Join(cs.scr, fmt.Sprintf("c14-%d-%s-%d", cs.ID, name, atomic.AddInt64(&c14DirSeq, 1)))
}

// genEntries draws n generator commands as single-command entries continuing the case's log.
func (cs *c14Case) genEntries(n int) []Entry {
	var es []Entry
	for i := 0; i < n; i++ {
		gc := cs.g.Next()
		if gc.Cmd.Name() == "pfadd" {
			if cc, err := CutNamespaces(gc.Cmd); err == nil {
				cs.hll[string(cc.Args[1])] = true
			}
		}
		cs.ts = cs.g.NextTs(cs.ts)
		cs.idx++
		es = append(es, Entry{Cmds: []Cmd{gc.Cmd}, TsNano: cs.ts, Index: cs.idx, Term: cs.term})
		cs.nCmds++
	}
	return es
}

// applyChunks applies entries in apply batches of at most k entries.
func (cs *c14Case) applyChunks(l *Lab, es []Entry, k int) {
	cs.inApply = true
	for len(es) > 0 {
		m := k
		if m > len(es) {
			m = len(es)
		}
		l.Apply(es[:m], false, false)
		es = es[m:]
	}
	cs.inApply = false
}

// compactAll compacts the whole key space. RockDB.CompactAllRange passes an
// empty range to the engine, which pebble treats as "overlaps nothing" (no
// flush, no compaction), so the explicit full range is compacted as well.
func compactAll(l *Lab) {
	l.DB().CompactAllRange()
	l.DB().CompactRange([]byte{0x00}, []byte{0xff, 0xff, 0xff, 0xff})
}

// cpRP copies a checkpoint directory the way common.RunFileSync does for a
// source on the same host: cp -rp <src> <dstParent> (merges into an existing directory).
func cpRP(src, dstParent string) error {
	if _, err := exec.LookPath("cp"); err != nil {
		return copyDir(src, filepath.Join(dstParent, filepath.Base(src)))
	}
	os.MkdirAll(dstParent, 0755)
	out, err := exec.Command("cp", "-rp", src, dstParent).CombinedOutput()
	if err != nil {
		return fmt.Errorf("cp -rp: %v: %s", err, out)
	}
	return nil
}

// takeCheckpoint: Backup + WaitReady + reference dumps + wait for the copy, on any lab.
func (cs *c14Case) takeCheckpoint(l *Lab, term, idx uint64) *ckpt {
	save := cs.a
	saveT, saveI := cs.term, cs.idx
	cs.a, cs.term, cs.idx = l, term, idx
	k := cs.backup(true)
	cs.a, cs.term, cs.idx = save, saveT, saveI
	return k
}

// ---------------------------------------------------------------------------
// scenario "near-identical-sst" (seed C14r2-1): the restoring node holds an sst
// with the same NAME, SIZE and TAIL as one of the checkpoint but a different
// early data block.

func (cs *c14Case) runNearSST() {
	cs.Engine, cs.Policy, cs.Keep = "pebble", "wait_compact", 0
	cs.g.HLLMode = 0 // stored HLL bytes differ between replicas (known finding); A and B must be byte-identical here
	// no compression, no automatic L0 compaction: A and B go through the same
	// sequence of flushes and compactions, so their file numbers match
	ro := &engine.RockOptions{WriteBufferSize: 8 << 20, BlockCache: 8 << 20, MinLevelToCompress: 6, Level0FileNumCompactionTrigger: 12}
	var err error
	if cs.a, err = cs.open("A", ro); err != nil {
		cs.incon = err.Error()
		return
	}
	if cs.b, err = cs.open("B", ro); err != nil {
		cs.incon = err.Error()
		return
	}
	// a little bit of everything, identical on both
	pre := cs.genEntries(10 + cs.r.Intn(30))
	cs.applyChunks(cs.a, pre, 8)
	cs.applyChunks(cs.b, pre, 8)
	// bulk: n keys with fixed-width values in one table (>= 300 KB in one sst)
	n := 3500 + cs.r.Intn(5000)
	vlen := 80 + cs.r.Intn(100)
	val := func(j, gen int) string {
		v := fmt.Sprintf("gen%d-%06d-", gen, j)
		for len(v) < vlen {
			v += string(rune('a' + (j+len(v))%26))
		}
		return v
	}
	var bulk []Entry
	for j := 0; j < n; j++ {
		cs.idx++
		cs.ts++
		bulk = append(bulk, Entry{Cmds: []Cmd{C("set", "bulk", fmt.Sprintf("key%06d", j), val(j, 1))}, TsNano: cs.ts, Index: cs.idx, Term: cs.term})
	}
	cs.nCmds += n
	cs.applyChunks(cs.a, bulk, 100)
	cs.applyChunks(cs.b, bulk, 100)
	// A only (B is lagging): a few EARLY keys get same-length values
	first := cs.r.Intn(n / 8)
	cnt := 2 + cs.r.Intn(12)
	var upd []Entry
	for j := first; j < first+cnt; j++ {
		cs.idx++
		cs.ts++
		upd = append(upd, Entry{Cmds: []Cmd{C("set", "bulk", fmt.Sprintf("key%06d", j), val(j, 2))}, TsNano: cs.ts, Index: cs.idx, Term: cs.term})
	}
	cs.nCmds += cnt
	cs.applyChunks(cs.a, upd, 1+cs.r.Intn(cnt))
	cs.logf("A and B: %d identical generator commands + %d bulk keys (value %d bytes); A only: keys %d..%d overwritten with same-length values", len(pre), n, vlen, first, first+cnt-1)
	compactAll(cs.a)
	compactAll(cs.b)
	cs.nCompact += 2
	k := cs.backup(true)
	if k == nil {
		return
	}
	// precondition: B holds an sst with the same name and size as one of the
	// checkpoint but a different content
	hb, err := hashDir(cs.b.DB().GetDataDir())
	if err != nil {
		cs.incon = "hash B: " + err.Error()
		return
	}
	reached := false
	for name, h := range k.Hashes {
		if !strings.HasSuffix(name, ".sst") {
			continue
		}
		if o, ok := hb[name]; ok && o != h && strings.SplitN(o, ":", 2)[0] == strings.SplitN(h, ":", 2)[0] {
			var sz int64
			fmt.Sscanf(h, "%d:", &sz)
			if sz > 300*1024 {
				reached = true
				cs.logf("precondition reached: %s has the same name and size (%d bytes) on B and in the checkpoint, different content", name, sz)
			}
		}
	}
	cs.nearReached = reached
	if !reached {
		var la, lb []string
		for name, h := range k.Hashes {
			if strings.HasSuffix(name, ".sst") {
				la = append(la, name+"="+h)
			}
		}
		for name, h := range hb {
			if strings.HasSuffix(name, ".sst") {
				lb = append(lb, name+"="+h)
			}
		}
		sort.Strings(la)
		sort.Strings(lb)
		cs.logf("precondition NOT reached: checkpoint sst %v, B sst %v", la, lb)
	}
	if err := cpRP(k.Dir, cs.b.DB().GetBackupDir()); err != nil {
		cs.incon = err.Error()
		return
	}
	err = cs.b.DB().Restore(k.Term, k.Idx)
	cs.logf("other node: cp -rp + restore %s -> %v", k.name(), err)
	if err != nil {
		cs.violation("restore-fails/"+cs.Engine, fmt.Sprintf("restore of fetched checkpoint %s on another node failed: %v", k.name(), err), nil)
		return
	}
	cs.nOther++
	cs.nRestores++
	cs.checkRestored(cs.b, k, "restore on another node that holds a near-identical sst")
	cs.checkDirs("after the restore on the other node")
}

// ---------------------------------------------------------------------------
// scenario "interrupted-fetch" (seed C14r2-2): the production fetch path
// (prepareSnapshotForStore / handleReuseOldCheckpoint / RunFileSync / postFileSync)
// after a fetch from another source was interrupted.

type c14ClusterInfo struct{ infos []common.SnapshotSyncInfo }

func (s *c14ClusterInfo) GetClusterName() string { return "verif-c14" }
func (s *c14ClusterInfo) GetSnapshotSyncInfo(fullNS string) ([]common.SnapshotSyncInfo, error) {
	return s.infos, nil
}
func (s *c14ClusterInfo) UpdateMeForNamespaceLeader(fullNS string) (bool, error) { return false, nil }

// backupAPI serves /cluster/checkbackup/<ns> like server/httpapi.go checkNodeBackup.
func backupAPI(l *Lab) (*httptest.Server, string, error) {
	srv := httptest.NewServer(http.HandlerFunc(func(w http.ResponseWriter, r *http.Request) {
		if !strings.HasPrefix(r.URL.Path, common.APICheckBackup+"/") {
			http.Error(w, "not found", http.StatusNotFound)
			return
		}
		body, _ := ioutil.ReadAll(r.Body)
		var rs raftpb.Snapshot
		if err := rs.Unmarshal(body); err != nil {
			http.Error(w, err.Error(), http.StatusBadRequest)
			return
		}
		ok, err := l.DB().IsLocalBackupOK(rs.Metadata.Term, rs.Metadata.Index)
		if err != nil || !ok {
			http.Error(w, "no backup", http.StatusNotFound)
			return
		}
		w.WriteHeader(http.StatusOK)
	}))
	_, port, err := net.SplitHostPort(srv.Listener.Addr().String())
	return srv, port, err
}

func (cs *c14Case) runFetch() {
	// pebble only: the mem engine's CheckDBEngForRead is a stub, any left-over
	// directory counts as a usable local backup there
	cs.Engine, cs.Keep = "pebble", 0
	cs.g.HLLMode = 0 // the sources A and C must be byte-identical (stored HLL bytes are not, known finding)
	rootA, rootB, rootC := cs.root("nodeA"), cs.root("nodeB"), cs.root("nodeC")
	defer func() {
		os.RemoveAll(rootA)
		os.RemoveAll(rootB)
		os.RemoveAll(rootC)
	}()
	var err error
	if cs.a, err = cs.openAt(rootA, nil); err != nil {
		cs.incon = err.Error()
		return
	}
	if cs.b, err = cs.openAt(rootB, nil); err != nil {
		cs.incon = err.Error()
		return
	}
	c, err := cs.openAt(rootC, nil)
	if err != nil {
		cs.incon = err.Error()
		return
	}
	defer func() {
		if cs.panicked {
			c.Abandon()
		} else {
			c.Destroy()
		}
	}()
	// the log: generator commands, a window of plain SETs (idempotent: replayed by
	// C after its restart), more generator commands
	p1 := cs.genEntries(10 + cs.r.Intn(60))
	var win []Entry
	nw := 1 + cs.r.Intn(12)
	for j := 0; j < nw; j++ {
		cs.idx++
		cs.ts++
		win = append(win, Entry{Cmds: []Cmd{C("set", "t", fmt.Sprintf("w%02d", j), fmt.Sprintf("value-%d", j))}, TsNano: cs.ts, Index: cs.idx, Term: cs.term})
	}
	p2 := cs.genEntries(10 + cs.r.Intn(60))
	// A: the whole log
	cs.applyChunks(cs.a, p1, 8)
	cs.applyChunks(cs.a, win, 4)
	cs.applyChunks(cs.a, p2, 8)
	// C: same log; it is restarted after the window and replays the window (the
	// entries after its last raft snapshot), so its engine file numbers and
	// sequence numbers differ from A's while the data is the same
	cs.applyChunks(c, p1, 8)
	cs.applyChunks(c, win, 4)
	restarts := 1 + cs.r.Intn(2)
	for i := 0; i < restarts; i++ {
		if cs.Engine == "pebble" {
			if err := c.Reopen(); err != nil {
				cs.incon = "reopen C: " + err.Error()
				return
			}
			cs.nReopen++
		}
		cs.inApply = true
		c.Apply(win[cs.r.Intn(len(win)):], true, false)
		cs.inApply = false
	}
	cs.applyChunks(c, p2, 8)
	term, idx := cs.term, cs.idx
	kA := cs.backup(true)
	if kA == nil {
		return
	}
	kC := cs.takeCheckpoint(c, term, idx)
	if kC == nil {
		return
	}
	if d := RawDiff(kA.RefRaw, kC.RefRaw); d != "" {
		// the two sources must hold the same data (harness precondition)
		cs.incon = "sources A and C differ: " + d
		return
	}
	// drop C from the list the case's own checks look at (it is a checkpoint of another lab)
	for i, o := range cs.ckpts {
		if o == kC {
			cs.ckpts = append(cs.ckpts[:i], cs.ckpts[i+1:]...)
			break
		}
	}
	// B is lagging
	cs.applyChunks(cs.b, p1[:cs.r.Intn(len(p1))], 8)
	// first attempt: fetch from C, killed in the middle: a seed-chosen subset of
	// C's files is there, source_node_info (written after the copy) usually not
	ckName := rockredis.GetCheckpointDir(term, idx)
	leftover := filepath.Join(cs.b.DB().GetBackupDir(), ckName)
	os.MkdirAll(leftover, 0755)
	// Two families of left-overs.
	// "synthetic": a seed-chosen subset of C's files (the shapes of seed C14r2-2).
	// "reachable": exactly what a kill of everything during the REAL local fetch
	//   leaves. Production order (prepareSnapshotForStore): handleReuseOldCheckpoint,
	//   then common.RunFileSync = `cp -rp <src>/<t-i> <backupdir>` which writes
	//   straight into the final directory name, file by file in cp's own order
	//   (learned from the real `cp -rpv` on the same source directory), and only
	//   after cp returned postFileSync writes source_node_info. So: a prefix of
	//   the copy order, the last file possibly cut short, source_node_info only
	//   together with the complete copy.
	var copied []string
	var missing []string
	withInfo := false
	reachable := cs.r.Intn(2) == 0
	fromRoot, fromCk := rootC, kC
	if reachable && cs.r.Intn(2) == 0 {
		fromRoot, fromCk = rootA, kA // the same source is asked again after the restart
	}
	var order []string
	if reachable {
		order = cpOrder(fromCk.Dir, cs.root("cporder"))
		if order == nil {
			reachable = false
			fromRoot, fromCk = rootC, kC
		}
	}
	if reachable {

		// every prefix of the copy order, with and without a cut last file,
		// enumerated over the cases
		p := cs.ID % (len(order) + 1)
		cut := p > 0 && (cs.ID/(len(order)+1))%2 == 1
		for i, nme := range order {
			if i >= p {
				missing = append(missing, fileClass(nme)+"-missing")
				continue
			}
			src, dst := filepath.Join(fromCk.Dir, nme), filepath.Join(leftover, nme)
			if err := copyFile1(src, dst); err != nil {
				cs.incon = "partial copy: " + err.Error()
				return
			}
			if i == p-1 && cut {
				if fi, err := os.Stat(dst); err == nil && fi.Size() > 1 {
					os.Truncate(dst, int64(cs.r.Intn(int(fi.Size()))))
					missing = append(missing, fileClass(nme)+"-truncated")
					copied = append(copied, nme+"(cut short)")
					continue
				}
			}
			copied = append(copied, nme)
		}
		if p == len(order) && !cut && cs.r.Intn(2) == 0 {
			withInfo = true // cp finished and postFileSync ran before the kill
			node.VerifPostFileSync(leftover, filepath.Join(fromRoot, DefaultNamespace))
		}
		cs.nReachable++
		cs.logf("REACHABLE left-over of a killed `cp -rp` from %s (copy order %v): %v, source_node_info=%v; C was restarted %d time(s)", filepath.Base(fromRoot), order, copied, withInfo, restarts)
	} else {
		fis, _ := ioutil.ReadDir(kC.Dir)
		var names []string
		for _, fi := range fis {
			names = append(names, fi.Name())
		}
		sort.Strings(names)
		variant := cs.r.Intn(4)
		for _, nme := range names {
			keep := true
			switch variant {
			case 0: // everything but CURRENT
				keep = nme != "CURRENT"
			case 1: // random subset without CURRENT
				keep = cs.r.Intn(2) == 0 && nme != "CURRENT"
			case 2: // only the write-ahead log and MANIFEST files
				keep = strings.HasSuffix(nme, ".log") || strings.HasPrefix(nme, "MANIFEST")
			case 3: // complete
			}
			if keep {
				if err := copyFile1(filepath.Join(kC.Dir, nme), filepath.Join(leftover, nme)); err != nil {
					cs.incon = "partial copy: " + err.Error()
					return
				}
				copied = append(copied, nme)
			}
		}
		withInfo = cs.r.Intn(4) == 0
		if withInfo {
			node.VerifPostFileSync(leftover, "127.0.0.1"+filepath.Join(rootC, DefaultNamespace))
		}
		cs.logf("synthetic left-over of a fetch from C: %v in %s (source_node_info=%v); C was restarted %d time(s)", copied, ckName, withInfo, restarts)
	}
	// B is restarted
	if cs.Engine == "pebble" {
		if err := cs.b.Reopen(); err != nil {
			cs.incon = "reopen B: " + err.Error()
			return
		}
		cs.nReopen++
	}
	// second attempt through the production code: only A is available
	srv, port, err := backupAPI(cs.a)
	if err != nil {
		cs.incon = "http: " + err.Error()
		return
	}
	defer srv.Close()
	ci := &c14ClusterInfo{infos: []common.SnapshotSyncInfo{{ReplicaID: 1, NodeID: 1, RemoteAddr: "127.0.0.1", HttpAPIPort: port, DataRoot: rootA}}}
	mc := node.MachineConfig{NodeID: 2, BroadcastAddr: "127.0.0.1", DataRootDir: rootB}
	var snap raftpb.Snapshot
	snap.Metadata.Term, snap.Metadata.Index = term, idx
	stop := make(chan struct{})
	err = node.VerifPrepareSnapshotForStore(cs.b.Store(), mc, ci, DefaultNamespace, 2, stop, snap, 0)
	cs.logf("prepareSnapshotForStore(B, source A) -> %v", err)
	_, ierr := os.Stat(filepath.Join(leftover, "source_node_info"))
	fetched := ierr == nil && !withInfo // postFileSync runs after every fetch
	if err != nil {
		if _, lerr := exec.LookPath("cp"); lerr != nil {
			cs.incon = "no cp command"
			return
		}
		if reachable {
			cs.nLoud++ // a loud error is an acceptable outcome for a left-over of a crash
			return
		}
		cs.violation("fetch-fails/"+cs.Engine, fmt.Sprintf("prepareSnapshotForStore for %s from an available source failed after an interrupted fetch: %v", ckName, err), nil)
		return
	}
	err = cs.b.DB().Restore(term, idx)
	cs.logf("restore %s on B -> %v", ckName, err)
	if err != nil && reachable {
		cs.nLoud++
		return
	}
	if reachable && !fetched && len(missing) > 0 {
		// the partial left-over was accepted as a usable local backup
		// (IsLocalBackupOK), nothing was fetched: the restored state must still be
		// the checkpointed one
		cs.nAccepted++
		raw := cs.b.RawDumpNoFlush()
		if d := RawDiff(kA.RefRaw, raw); d != "" {
			sort.Strings(missing)
			sig := "partial-leftover-accepted/" + strings.Join(uniq(missing), "+")
			cs.violation(sig, fmt.Sprintf("a left-over of a killed local fetch of snapshot %s (%v of the copy order %v) is accepted by IsLocalBackupOK: prepareSnapshotForStore fetches nothing, Restore returns nil and the state differs from the checkpointed one: %s", ckName, copied, order, d),
				map[string]interface{}{"checkpoint": ckName, "copy_order": order, "leftover_files": copied, "missing": missing, "engine_keys_checkpointed": len(kA.RefRaw), "engine_keys_restored": len(raw)})
			return
		}
	}
	if err != nil {
		cs.violation("restore-fails/"+cs.Engine, fmt.Sprintf("restore of the fetched checkpoint %s failed: %v", ckName, err), nil)
		return
	}
	cs.nOther++
	cs.nRestores++
	cs.nFetch++
	cs.checkRestored(cs.b, kA, "restore of the checkpoint fetched through prepareSnapshotForStore after an interrupted fetch from another source")
	cs.checkDirs("after the fetch")
}

func uniq(a []string) []string {
	var out []string
	for i, x := range a {
		if i == 0 || a[i-1] != x {
			out = append(out, x)
		}
	}
	return out
}

// fileClass names the kind of an engine file of a checkpoint directory.
func fileClass(name string) string {
	switch {
	case strings.HasSuffix(name, ".log"):
		return "wal"
	case strings.HasSuffix(name, ".sst"):
		return "sst"
	case strings.HasPrefix(name, "MANIFEST"):
		return "manifest"
	case strings.HasPrefix(name, "OPTIONS"):
		return "options"
	case name == "CURRENT":
		return "current"
	}
	return "other"
}

// cpOrder learns the order in which the real `cp -rp` copies the files of a
// checkpoint directory on this file system (coreutils sorts the directory
// entries by inode where that helps, else it uses readdir order) by running
// `cp -rpv` into a scratch directory. nil if that is not possible.
func cpOrder(src, scratch string) []string {
	defer os.RemoveAll(scratch)
	if err := os.MkdirAll(scratch, 0755); err != nil {
		return nil
	}
	out, err := exec.Command("cp", "-rpv", src, scratch).Output()
	if err != nil {
		return nil
	}
	var order []string
	for _, ln := range strings.Split(string(out), "\n") {
		i := strings.LastIndex(ln, " -> ")
		if i < 0 {
			continue
		}
		dst := strings.Trim(strings.TrimSpace(ln[i+4:]), "'\"`‘’")
		nme := filepath.Base(dst)
		if nme == filepath.Base(src) {
			continue
		}
		if _, err := os.Stat(filepath.Join(src, nme)); err == nil {
			order = append(order, nme)
		}
	}
	fis, _ := ioutil.ReadDir(src)
	n := 0
	for _, fi := range fis {
		if !fi.IsDir() {
			n++
		}
	}
	if len(order) != n || n == 0 {
		return nil
	}
	return order
}

func copyFile1(src, dst string) error {
	b, err := ioutil.ReadFile(src)
	if err != nil {
		return err
	}
	fi, err := os.Stat(src)
	if err != nil {
		return err
	}
	if err := ioutil.WriteFile(dst, b, fi.Mode()); err != nil {
		return err
	}
	return os.Chtimes(dst, fi.ModTime(), fi.ModTime())
}
