package smlab

import (
	"io"
	"io/ioutil"
	"log"
	"os"
	"path/filepath"
	"sync"

	"github.com/youzan/ZanRedisDB/common"
	"github.com/youzan/ZanRedisDB/engine"
	"github.com/youzan/ZanRedisDB/node"
	"github.com/youzan/ZanRedisDB/rockredis"
	"github.com/youzan/ZanRedisDB/slow"
)

type fileLogger struct{ l *log.Logger }

func (f *fileLogger) Output(d int, s string) error        { return f.l.Output(d+1, "INFO: "+s) }
func (f *fileLogger) OutputErr(d int, s string) error     { return f.l.Output(d+1, "ERR: "+s) }
func (f *fileLogger) OutputWarning(d int, s string) error { return f.l.Output(d+1, "WARN: "+s) }

var quietOnce sync.Mutex
var quietFile *os.File

// QuietLogs routes the loggers of the repo packages used by the lab (node,
// rockredis, engine, slow) and Go's standard logger (pebble's event listener
// logs through it) to <dir>/repo.log at warning level, so that checks do not
// spam stdout/stderr. dir == "" discards everything. Note that the state
// machine logs every failing command at ERROR level regardless of the level;
// those lines go to the file as well. Safe to call more than once.
//
// NOT covered: the mem engine's checkpoint prints every key and value to
// stdout with fmt.Printf (engine/mem_eng.go, printToStdout is hard-wired to
// true); see MuteStdout.
func QuietLogs(dir string) {
	quietOnce.Lock()
	defer quietOnce.Unlock()
	var w io.Writer = ioutil.Discard
	if dir != "" {
		os.MkdirAll(dir, 0755)
		f, err := os.OpenFile(filepath.Join(dir, "repo.log"), os.O_CREATE|os.O_WRONLY|os.O_APPEND, 0644)
		if err == nil {
			if quietFile != nil {
				quietFile.Close()
			}
			quietFile = f
			w = f
		}
	}
	lg := &fileLogger{l: log.New(w, "", log.LstdFlags|log.Lmicroseconds)}
	node.SetLogger(common.LOG_WARN, lg)
	rockredis.SetLogger(common.LOG_WARN, lg)
	engine.SetLogger(common.LOG_WARN, lg)
	slow.SetLogger(common.LOG_ERR, lg)
	log.SetOutput(w)
}

var muteMu sync.Mutex
var muteCount int
var realStdout *os.File
var devNull *os.File

// MuteStdout points os.Stdout at /dev/null until the returned function is
// called (reference counted, goroutine safe). Needed around Backup on the mem
// engine, whose checkpoint prints the whole store with fmt.Printf. While muted,
// use Stdout() for the check's own output.
func MuteStdout() (restore func()) {
	muteMu.Lock()
	defer muteMu.Unlock()
	if muteCount == 0 {
		if devNull == nil {
			devNull, _ = os.OpenFile(os.DevNull, os.O_WRONLY, 0)
		}
		realStdout = os.Stdout
		if devNull != nil {
			os.Stdout = devNull
		}
	}
	muteCount++
	done := false
	return func() {
		muteMu.Lock()
		defer muteMu.Unlock()
		if done {
			return
		}
		done = true
		muteCount--
		if muteCount == 0 {
			os.Stdout = realStdout
		}
	}
}

// Stdout returns the real standard output even while MuteStdout is in effect.
func Stdout() *os.File {
	muteMu.Lock()
	defer muteMu.Unlock()
	if muteCount > 0 && realStdout != nil {
		return realStdout
	}
	return os.Stdout
}
