package smlab

import (
	"crypto/sha1"
	"encoding/hex"
	"encoding/json"
	"fmt"
	"io/ioutil"
	"math/rand"
	"os"
	"path/filepath"
	"sort"
	"strings"
	"sync"
	"sync/atomic"
	"time"

	"github.com/youzan/ZanRedisDB/rockredis"
	"verif/harness/vc"
)

// C07 — same log => same data and replies (DESIGN.md section 3, C07).

func init() { vc.Register("C07", "exploration", runC07) }

// c07Case is one command log: one client write per raft entry.
type c07Case struct {
	ID     int
	Policy string
	V2     bool
	Cmds   []GenCmd
	Ts     []int64
	// Live: "live-clock" log. Log timestamps are the real clock at generation
	// time: setup + TTLs of 2 s in log second S, commands on those keys still in
	// second S (2 s before the expiry by log time), then commands in log second
	// S+3 (after the expiry by log time). The delayed replicas run after a real
	// sleep longer than the TTL, so every wall-clock based expiry decision in an
	// apply path differs between a replica and its delayed twin, while every
	// log-timestamp based decision is identical. Dumps of such logs are compared
	// at engine level only (reads filter by the wall clock).
	Live         bool
	LiveB, LiveC int // first index of phase B (same second) and C (second S+3)
	// LiveExclKnown: the commands with a known wall-clock dependence in the apply
	// path (knownWallclockCmds) are not generated in this log
	LiveExclKnown bool
	liveOff       []int64 // per command: offset (ns) from T0 (phase A/B) or from the start of second S+3 (phase C)

	hllOnce   sync.Once
	hllKeys   map[string]int // "table:key" -> index of the first PFADD on it
	hllKeyMix map[string]int // "table:key" -> index of the first non-PFADD command on it after its first PFADD
	hllMix    int            // minimum over hllKeyMix, -1 none
	// hllOnlyDel: every non-PFADD command that touches a key after its first
	// PFADD is a DEL. On the unchanged tree the ONLY effect of the write cache in
	// such a log is the integer reply of those DELs (an HLL that lives only in the
	// cache is not counted as deleted); the HLL itself is gone on every replica.
	hllOnlyDel bool
}

// keyArgs returns the "table:key" arguments of command i.
func (cs *c07Case) keyArgs(i int) []string {
	cc, err := CutNamespaces(cs.Cmds[i].Cmd)
	if err != nil {
		return nil
	}
	var out []string
	for _, p := range keyArgPositions(cc.Name(), len(cc.Args)) {
		out = append(out, string(cc.Args[p]))
	}
	return out
}

func (cs *c07Case) hll() (map[string]int, int) {
	cs.hllOnce.Do(func() {
		cs.hllKeys = map[string]int{}
		cs.hllKeyMix = map[string]int{}
		cs.hllMix = -1
		cs.hllOnlyDel = true
		for i, gc := range cs.Cmds {
			ks := cs.keyArgs(i)
			if gc.Cmd.Name() == "pfadd" {
				if len(ks) > 0 {
					if _, ok := cs.hllKeys[ks[0]]; !ok {
						cs.hllKeys[ks[0]] = i
					}
				}
				continue
			}
			for _, k := range ks {
				if _, ok := cs.hllKeys[k]; ok {
					if gc.Cmd.Name() != "del" {
						cs.hllOnlyDel = false
					}
					if _, seen := cs.hllKeyMix[k]; !seen {
						cs.hllKeyMix[k] = i
					}
					if cs.hllMix < 0 {
						cs.hllMix = i
					}
				}
			}
		}
	})
	return cs.hllKeys, cs.hllMix
}

// touchesHLLKey: one of the keys of command i received a PFADD before i, and
// command i is a KV-level command, or it is a PFADD on a key that a KV-level
// command touched in between (the write cache and the engine then disagree
// about that key, and which one a command sees depends on replica-local flushes).
func (cs *c07Case) touchesHLLKey(i int) bool {
	keys, _ := cs.hll()
	isPF := cs.Cmds[i].Cmd.Name() == "pfadd"
	for _, k := range cs.keyArgs(i) {
		first, ok := keys[k]
		if !ok || first >= i {
			continue
		}
		if !isPF {
			return true
		}
		if m, ok := cs.hllKeyMix[k]; ok && m < i {
			return true
		}
	}
	return false
}

func (cs *c07Case) entries(from, to int) []Entry {
	es := make([]Entry, 0, to-from)
	for i := from; i < to; i++ {
		es = append(es, Entry{Cmds: []Cmd{cs.Cmds[i].Cmd}, TsNano: cs.Ts[i], Index: uint64(i + 1), Term: 1})
	}
	return es
}

// repSpec describes how one replica executes the log.
type repSpec struct {
	Name   string `json:"name"`
	Engine string `json:"engine"`
	// Cuts: apply-batch boundaries, strictly increasing, last == len(log):
	// batch k applies entries [Cuts[k-1], Cuts[k]).
	Cuts []int `json:"cuts"`
	// Mode: "live" (leader: isReplaying=false, waiters registered),
	// "follower-replay" (clean store, everything isReplaying=true, no waiters),
	// "install" (a running follower that applied [0,C1) installs the checkpoint
	// another replica took at C2 >= C1 - Restore without process restart - and
	// applies the rest live),
	// "restore" (live until C2 with a checkpoint taken after entry C1; then
	// process restart, Restore(checkpoint C1), entries (C1,C2] replayed with
	// isReplaying=true and no waiters, the rest live).
	Mode string `json:"mode"`
	C1   int    `json:"c1,omitempty"`
	C2   int    `json:"c2,omitempty"`
}

type repResult struct {
	Replies  []string // Canon per command; "" = no waiter registered
	Raw      []KV
	Logical  *Logical
	PanicAt  int // index of the first entry of the apply batch that panicked, -1 = none
	PanicMsg string
	Err      string // harness-level failure (open/backup/restore): inconclusive
	Batches  int
	Restarts int
	Installs int
	// real clock (UnixNano) right before the first and right after the last apply
	ApplyStart, ApplyEnd int64
}

var c07DirSeq int64

func applyGuard(l *Lab, es []Entry, replaying, waiters bool) (reps [][]Reply, pmsg string) {
	defer func() {
		if e := recover(); e != nil {
			pmsg = fmt.Sprintf("%v", e)
			if len(pmsg) > 300 {
				pmsg = pmsg[:300]
			}
		}
	}()
	reps = l.Apply(es, replaying, waiters)
	return reps, ""
}

func runReplica(scratch string, cs *c07Case, sp repSpec) (res repResult) {
	n := len(cs.Cmds)
	res.PanicAt = -1
	res.Replies = make([]string, n)
	dir := filepath.Join(scratch, fmt.Sprintf("c07-%d-%s-%d", cs.ID, sp.Name, atomic.AddInt64(&c07DirSeq, 1)))
	l, err := Open(Opts{Engine: sp.Engine, ExpirePolicy: cs.Policy, Dir: dir, UseRedisV2: cs.V2})
	if err != nil {
		res.Err = "open: " + err.Error()
		return
	}
	defer func() {
		if res.PanicAt >= 0 {
			l.Abandon() // the real process would be dead; Close may block forever
			return
		}
		l.Destroy()
	}()
	// run applies entries [from,to) along the spec's cuts
	run := func(from, to int, replaying, waiters bool) bool {
		start := from
		for _, c := range sp.Cuts {
			if c <= start {
				continue
			}
			end := c
			if end > to {
				end = to
			}
			reps, pmsg := applyGuard(l, cs.entries(start, end), replaying, waiters)
			res.Batches++
			if pmsg != "" {
				res.PanicAt, res.PanicMsg = start, pmsg
				return false
			}
			if waiters {
				for i := start; i < end; i++ {
					res.Replies[i] = reps[i-start][0].Canon()
				}
			}
			start = end
			if start >= to {
				break
			}
		}
		return true
	}
	res.ApplyStart = time.Now().UnixNano()
	defer func() {
		if res.ApplyEnd == 0 {
			res.ApplyEnd = time.Now().UnixNano()
		}
	}()
	switch sp.Mode {
	case "live":
		if !run(0, n, false, true) {
			return
		}
	case "follower-replay":
		if !run(0, n, true, false) {
			return
		}
	case "restore":
		if !run(0, sp.C1, false, true) {
			return
		}
		var restoreMute func()
		if sp.Engine == "mem" {
			restoreMute = MuteStdout()
		}
		bi := l.DB().Backup(1, uint64(sp.C1))
		for try := 0; bi == nil && try < 200; try++ {
			// Backup hands the request to the backup goroutine with a non-blocking
			// send; right after Open that goroutine may not be receiving yet
			time.Sleep(time.Millisecond)
			bi = l.DB().Backup(1, uint64(sp.C1))
		}
		if bi == nil {
			if restoreMute != nil {
				restoreMute()
			}
			res.Err = "backup refused"
			return
		}
		bi.WaitReady()
		_, berr := bi.GetResult() // C07 waits for the copy: the early-release window is C14's subject
		if restoreMute != nil {
			restoreMute()
		}
		if berr != nil {
			res.Err = "backup: " + berr.Error()
			return
		}
		if !run(sp.C1, sp.C2, false, true) {
			return
		}
		if err := l.Reopen(); err != nil { // process restart
			res.Err = "reopen: " + err.Error()
			return
		}
		res.Restarts++
		if err := l.DB().Restore(1, uint64(sp.C1)); err != nil {
			res.Err = "restore: " + err.Error()
			return
		}
		if !run(sp.C1, sp.C2, true, false) {
			return
		}
		if !run(sp.C2, n, false, true) {
			return
		}
	case "install":
		// a running follower that got as far as C1 installs the checkpoint another
		// replica took at C2 >= C1 (Restore WITHOUT process restart) and continues
		src, err := Open(Opts{Engine: sp.Engine, ExpirePolicy: cs.Policy, Dir: dir + "-src", UseRedisV2: cs.V2})
		if err != nil {
			res.Err = "open source: " + err.Error()
			return
		}
		srcDone := false
		defer func() {
			if !srcDone {
				src.Abandon()
			}
		}()
		for start := 0; start < sp.C2; {
			end := sp.C2
			for _, c := range sp.Cuts {
				if c > start {
					if c < end {
						end = c
					}
					break
				}
			}
			if _, pmsg := applyGuard(src, cs.entries(start, end), false, false); pmsg != "" {
				res.PanicAt, res.PanicMsg = start, pmsg
				return
			}
			start = end
		}
		bi := src.DB().Backup(1, uint64(sp.C2))
		for try := 0; bi == nil && try < 200; try++ {
			time.Sleep(time.Millisecond)
			bi = src.DB().Backup(1, uint64(sp.C2))
		}
		if bi == nil {
			res.Err = "backup refused"
			return
		}
		bi.WaitReady()
		if _, berr := bi.GetResult(); berr != nil {
			res.Err = "backup: " + berr.Error()
			return
		}
		if !run(0, sp.C1, false, true) {
			return
		}
		ck := rockredis.GetCheckpointDir(1, uint64(sp.C2))
		if err := copyDir(filepath.Join(src.DB().GetBackupDir(), ck), filepath.Join(l.DB().GetBackupDir(), ck)); err != nil {
			res.Err = "fetch checkpoint: " + err.Error()
			return
		}
		if err := l.DB().Restore(1, uint64(sp.C2)); err != nil {
			res.Err = "restore: " + err.Error()
			return
		}
		res.Installs++
		src.Destroy()
		srcDone = true
		if !run(sp.C2, n, false, true) {
			return
		}
	default:
		res.Err = "bad mode " + sp.Mode
		return
	}
	res.ApplyEnd = time.Now().UnixNano()
	keys, _ := cs.hll()
	var pf []string
	res.Raw = l.RawDump()
	res.Logical = LogicalDumpOf(l.DB())
	// cardinalities of HyperLogLog keys are compared through PFCOUNT (the stored
	// bytes of an HLL value are masked in the dump comparison, see maskLogical).
	// PFCOUNT is issued AFTER the dumps: it caches the count inside the value.
	for tk := range keys {
		rep := l.Read(Cmd{Args: [][]byte{[]byte("pfcount"), append([]byte(l.NamespaceBase()+":"), tk...)}})
		pf = append(pf, fmt.Sprintf("pfcount %q = %s", tk, rep.Canon()))
	}
	sort.Strings(pf)
	res.Logical.Lines = append(res.Logical.Lines, pf...)
	return
}

// maskHLL hides the stored bytes of the values of keys that received a PFADD
// (finding hll-stored-bytes-differ: the value is a gob encoding of a Go map).
func maskLogical(d *Logical, keys map[string]int) *Logical {
	if len(keys) == 0 {
		return d
	}
	pre := map[string]bool{}
	for tk := range keys {
		i := strings.IndexByte(tk, ':')
		if i < 0 {
			continue
		}
		pre["kv "+q([]byte(tk[:i]))+" "+q([]byte(tk[i+1:]))+" "] = true
	}
	out := &Logical{Lines: make([]string, len(d.Lines))}
	for i, ln := range d.Lines {
		out.Lines[i] = ln
		if strings.HasPrefix(ln, "kv ") {
			for p := range pre {
				if strings.HasPrefix(ln, p) {
					// an HLL value is stored WITHOUT the wait_compact value header; its
					// first 13 bytes (type, cached count) get decoded as one, so exp= is
					// part of the masked bytes
					out.Lines[i] = p + "<hll-masked>"
				}
			}
		}
	}
	return out
}

// hllLineDiff: the first differing line of two logical dumps is the line of an
// HLL key, a PFCOUNT line or a table counter.
func hllLineDiff(a, b *Logical, keys map[string]int) bool {
	isHLL := func(ln string) bool {
		if strings.HasPrefix(ln, "counter ") || strings.HasPrefix(ln, "pfcount ") {
			return true
		}
		for tk := range keys {
			i := strings.IndexByte(tk, ':')
			if i < 0 {
				continue
			}
			tkq := q([]byte(tk[:i])) + " " + q([]byte(tk[i+1:])) + " "
			// the KV entry itself, or the bitmap of the same key (SETBIT converts an
			// existing KV value of that key into bitmap segments)
			if strings.HasPrefix(ln, "kv "+tkq) || strings.HasPrefix(ln, "bitmap "+tkq) {
				return true
			}
		}
		return false
	}
	n := len(a.Lines)
	if len(b.Lines) < n {
		n = len(b.Lines)
	}
	for i := 0; i < n; i++ {
		if a.Lines[i] != b.Lines[i] {
			return isHLL(a.Lines[i]) || isHLL(b.Lines[i])
		}
	}
	if len(a.Lines) > n {
		return isHLL(a.Lines[n])
	}
	if len(b.Lines) > n {
		return isHLL(b.Lines[n])
	}
	return false
}

// hllRawDiff: the first differing engine entry is the KV entry of an HLL key or a table counter.
func hllRawDiff(a, b []KV, keys map[string]int) bool {
	isHLL := func(k []byte) bool {
		if len(k) > 0 && k[0] == 0x0a {
			return true
		}
		if len(k) > 1 && k[0] == 0x15 {
			_, ok := keys[string(k[1:])]
			return ok
		}
		if len(k) > 1 && k[0] == rockredis.BitmapMetaType {
			if tk, err := rockredis.VerifBitDecodeMetaKey(k); err == nil {
				_, ok := keys[string(tk)]
				return ok
			}
		}
		if len(k) > 1 && k[0] == rockredis.BitmapType {
			if t, vk, _, err := rockredis.VerifDecodeBitmapKey(k); err == nil {
				rk := vk
				if r, _, verr := rockredis.VerifDecodeVerKey(vk); verr == nil {
					rk = r
				}
				if _, ok := keys[string(rockredis.VerifPackRedisKey(t, rk))]; ok {
					return true
				}
				_, ok := keys[string(rockredis.VerifPackRedisKey(t, vk))]
				return ok
			}
		}
		return false
	}
	n := len(a)
	if len(b) < n {
		n = len(b)
	}
	for i := 0; i < n; i++ {
		if string(a[i].K) != string(b[i].K) {
			return isHLL(a[i].K) || isHLL(b[i].K)
		}
		if string(a[i].V) != string(b[i].V) {
			return isHLL(a[i].K)
		}
	}
	if len(a) > n {
		return isHLL(a[n].K)
	}
	if len(b) > n {
		return isHLL(b[n].K)
	}
	return false
}

func maskRaw(kvs []KV, keys map[string]int) []KV {
	if len(keys) == 0 {
		return kvs
	}
	out := make([]KV, len(kvs))
	for i, kv := range kvs {
		out[i] = kv
		if len(kv.K) > 1 && kv.K[0] == 0x15 {
			if _, ok := keys[string(kv.K[1:])]; ok {
				out[i].V = []byte("<hll-masked>")
			}
		}
	}
	return out
}

// ---------------------------------------------------------------------------
// partitions

func cutsEvery(n int) []int {
	c := make([]int, n)
	for i := range c {
		c[i] = i + 1
	}
	return c
}

func cutsRandom(r *rand.Rand, n int) []int {
	var c []int
	i := 0
	for i < n {
		var sz int
		switch w := r.Intn(10); {
		case w < 3:
			sz = 1
		case w < 7:
			sz = 2 + r.Intn(4)
		default:
			sz = 5 + r.Intn(20)
		}
		i += sz
		if i > n {
			i = n
		}
		c = append(c, i)
	}
	return c
}

// withForced adds a boundary in front of every forced index (and keeps n last).
func withForced(cuts []int, forced []int, n int, extra ...int) []int {
	m := map[int]bool{n: true}
	for _, c := range cuts {
		m[c] = true
	}
	for _, f := range forced {
		if f > 0 {
			m[f] = true
		}
	}
	for _, e := range extra {
		if e > 0 && e <= n {
			m[e] = true
		}
	}
	out := make([]int, 0, len(m))
	for c := range m {
		if c > 0 && c <= n {
			out = append(out, c)
		}
	}
	sort.Ints(out)
	return out
}

func cutsFP(c []int) string {
	var sb strings.Builder
	prev := 0
	for _, x := range c {
		fmt.Fprintf(&sb, "%d,", x-prev)
		prev = x
	}
	return sb.String()
}

// ---------------------------------------------------------------------------
// the first open shared write batch that a failing batchable command aborts
// (model of kvbatchOperator: IsBatchable / dupCheckMap / 100 limit / CommitBatch)

type abortWindow struct {
	From, At int // commands [From,At) are in the open batch when command At fails
}

func firstAbortWindow(cs *c07Case, cuts []int, failing map[int]bool) *abortWindow {
	cutSet := map[int]bool{}
	for _, c := range cuts {
		cutSet[c] = true
	}
	var open []int
	keys := map[string]bool{}
	reset := func() { open = open[:0]; keys = map[string]bool{} }
	for i := range cs.Cmds {
		if cutSet[i] {
			reset() // apply-batch boundary: CommitBatch
		}
		c := cs.Cmds[i].Cmd
		cc, err := CutNamespaces(c)
		if err != nil {
			continue
		}
		pk := string(cc.Args[1])
		if IsBatchableCmd(c) && !keys[pk] && len(open) < 100 {
			if failing[i] {
				if len(open) > 0 {
					return &abortWindow{From: open[0], At: i}
				}
				reset()
				continue
			}
			open = append(open, i)
			keys[pk] = true
		} else {
			// CommitBatch before a non-batchable command, a repeated key or the 101st
			// command; that command itself then runs unbatched (BeginBatch is only
			// called on the IsBatchable branch)
			reset()
		}
	}
	return nil
}

// ---------------------------------------------------------------------------
// comparison

type divergence struct {
	Kind   string `json:"kind"` // reply | raw | logical | panic
	A      string `json:"a"`
	B      string `json:"b"`
	Index  int    `json:"index"` // command index for reply/panic, -1 for dumps
	Detail string `json:"detail"`
	// Class: "" = unexplained; "hll-bytes" = only the stored bytes of HLL values
	// differ (PFCOUNT equal); "hll-mix" = a KV-level command met a key that lives
	// in the HyperLogLog write cache on one replica and in the engine on another
	Class string `json:"class,omitempty"`
}

func (d *divergence) String() string {
	return fmt.Sprintf("%s divergence %s vs %s at %d: %s", d.Kind, d.A, d.B, d.Index, d.Detail)
}

// compareTo compares replica b against reference a. limit: compare replies of
// commands [0,limit) only and skip dumps if limit < n.
func compareTo(cs *c07Case, an string, a *repResult, bn string, b *repResult, rawToo bool, limit int) *divergence {
	n := len(cs.Cmds)
	hllKeys, hllMix := cs.hll()
	var delReply *divergence
	if a.PanicAt != b.PanicAt {
		// a panic is located at its apply batch; replicas with different batching
		// place it differently. Compare the command ranges instead.
		if a.PanicAt < 0 || b.PanicAt < 0 {
			return &divergence{Kind: "panic", A: an, B: bn, Index: maxInt(a.PanicAt, b.PanicAt), Detail: fmt.Sprintf("only one replica panicked: %q vs %q", a.PanicMsg, b.PanicMsg)}
		}
	}
	upto := limit
	if a.PanicAt >= 0 && a.PanicAt < upto {
		upto = a.PanicAt
	}
	if b.PanicAt >= 0 && b.PanicAt < upto {
		upto = b.PanicAt
	}
	for i := 0; i < upto; i++ {
		if a.Replies[i] == "" || b.Replies[i] == "" {
			continue
		}
		if a.Replies[i] != b.Replies[i] {
			d := &divergence{Kind: "reply", A: an, B: bn, Index: i, Detail: fmt.Sprintf("%v -> %s vs %s", cs.Cmds[i].Cmd, a.Replies[i], b.Replies[i])}
			if cs.touchesHLLKey(i) {
				d.Class = "hll-mix"
				if cs.hllOnlyDel {
					if cs.Cmds[i].Cmd.Name() == "del" && strings.HasPrefix(a.Replies[i], ":") && strings.HasPrefix(b.Replies[i], ":") {
						// known and harmless for what follows: the DEL of an HLL that only
						// lives in the write cache is answered with a lower count; the key is
						// gone on both replicas. Keep comparing.
						if delReply == nil {
							d.Class = "hll-del-reply"
							delReply = d
						}
						continue
					}
					// anything else on such a key is not what the unchanged tree shows
					d.Class = "hll-survives-del"
				}
			}
			return d
		}
	}
	if limit < n || a.PanicAt >= 0 || b.PanicAt >= 0 {
		return delReply
	}
	var bytesOnly *divergence
	if cs.Live || os.Getenv("VERIF_DEV_XRAW") != "" {
		// live-clock logs: reads (and with them the logical dump) filter by the wall
		// clock, which passes an expiry instant during the run. The engine content
		// is produced above the engine and is byte-identical on mem and pebble, so
		// it is compared directly, also across engine types.
		rawToo = cs.Policy != "local_deletion"
	}
	if d := a.Logical.Diff(b.Logical); d != "" && !cs.Live {
		ma, mb := maskLogical(a.Logical, hllKeys), maskLogical(b.Logical, hllKeys)
		if md := ma.Diff(mb); md != "" {
			dv := &divergence{Kind: "logical", A: an, B: bn, Index: -1, Detail: md}
			// in a log where a KV-level command met an HLL key, the known effects are
			// confined to that key's line, its PFCOUNT and the table counter
			if hllMix >= 0 && hllLineDiff(ma, mb, hllKeys) {
				dv.Class = "hll-mix"
				dv.Index = hllMix
				if cs.hllOnlyDel {
					dv.Class = "hll-survives-del"
				}
			}
			return dv
		}
		bytesOnly = &divergence{Kind: "logical", A: an, B: bn, Index: -1, Detail: d, Class: "hll-bytes"}
	}
	if rawToo {
		if d := RawDiff(a.Raw, b.Raw); d != "" {
			ra, rb := maskRaw(a.Raw, hllKeys), maskRaw(b.Raw, hllKeys)
			if md := RawDiff(ra, rb); md != "" {
				dv := &divergence{Kind: "raw", A: an, B: bn, Index: -1, Detail: md}
				if hllMix >= 0 && hllRawDiff(ra, rb, hllKeys) {
					dv.Class = "hll-mix"
					dv.Index = hllMix
					if cs.hllOnlyDel {
						dv.Class = "hll-survives-del"
					}
				}
				return dv
			}
			if bytesOnly == nil {
				bytesOnly = &divergence{Kind: "raw", A: an, B: bn, Index: -1, Detail: d, Class: "hll-bytes"}
			}
		}
	}
	if delReply != nil {
		return delReply
	}
	return bytesOnly
}

func maxInt(a, b int) int {
	if a > b {
		return a
	}
	return b
}

// ---------------------------------------------------------------------------
// case generation

// knownWallclockCmds: commands whose apply path is known to judge expiry by the
// wall clock on the unchanged tree (finding wallclock-expiry-in-apply/<cmd>).
// Half of the live-clock logs do not contain them, so that the first divergence
// of a log is not always the known one.
var knownWallclockCmds = map[string]bool{"hclear": true}

// liveExpiry returns the first expiry instant (real clock = log clock, ns) of a
// live-clock log: the start of second S+2.
func (cs *c07Case) liveExpiry() int64 {
	const sec = int64(1000000000)
	return cs.Ts[0] - cs.Ts[0]%sec + 2*sec
}

// liveTTL is the only TTL used in live-clock logs; liveSleep is the real sleep
// before the delayed replicas (> TTL, so that the expiry instant on the real
// clock lies between a replica and its delayed twin).
const (
	liveTTL   = "2"
	liveSleep = 2600 * time.Millisecond
)

// genLiveCase builds a live-clock log (see c07Case.Live). By LOG time every
// outcome is well defined with a margin: all expire times are S+2 (set in phase
// A/B) or S+5 (set in phase C); phase A/B commands carry timestamps in second S
// (2 s before S+2), phase C commands in second S+3 (1 s after S+2, 2 s before
// S+5). No command is ever in the same second as, or the second before, an expiry.
func genLiveCase(r *rand.Rand, id int, n int) *c07Case {
	cs := &c07Case{ID: id, Policy: "wait_compact", Live: true}
	cs.V2 = r.Intn(4) == 0
	g := NewGen(r)
	g.HLLMode = 0
	if r.Intn(10) < 3 {
		g.FailBatchable = 0.1
	}
	if r.Intn(2) == 0 {
		cs.LiveExclKnown = true
		g.Exclude = knownWallclockCmds
	}
	g.DurPool = []string{liveTTL, liveTTL, liveTTL, liveTTL, "315360000", "abc", "0", "-1"}
	g.DurOKPool = []string{liveTTL, liveTTL, liveTTL, "315360000"}
	// offsets are generated first; retime() ties them to the real clock right
	// before the log is executed
	ts := int64(0)
	next := func() int64 {
		// adversarially close
		switch r.Intn(4) {
		case 0:
		case 1:
			ts++
		case 2:
			ts += int64(r.Intn(1000))
		default:
			ts += int64(r.Intn(2000000))
		}
		if ts > 900000000 {
			ts = 900000000
		}
		return ts
	}
	add := func(c GenCmd) {
		cs.Cmds = append(cs.Cmds, c)
		cs.liveOff = append(cs.liveOff, next())
	}
	// phase A: give every key of the pool some typed content with a TTL
	pairs := 0
	for _, t := range g.Tables {
		for _, k := range g.Keys {
			if pairs >= 3 {
				break
			}
			pairs++
			a1 := NsKey(DefaultNamespaceBase, []byte(t), []byte(k))
			for _, typ := range r.Perm(7)[:2+r.Intn(3)] {
				switch typ {
				case 0:
					add(GenCmd{mk("setex", a1, liveTTL, g.pick(poolValues)), "ttl", ""})
				case 1:
					add(GenCmd{mk("sadd", a1, g.members(2, 4)...), "set", ""})
					add(GenCmd{mk("sexpire", a1, liveTTL), "ttl", ""})
				case 2:
					add(GenCmd{mk("hmset", a1, "a", "1", g.pick(poolMembers), g.pick(poolValues)), "hash", ""})
					add(GenCmd{mk("hexpire", a1, liveTTL), "ttl", ""})
				case 3:
					add(GenCmd{mk("rpush", a1, g.members(2, 4)...), "list", ""})
					add(GenCmd{mk("lexpire", a1, liveTTL), "ttl", ""})
				case 4:
					add(GenCmd{mk("zadd", a1, "1", "a", "2", g.pick(poolMembers), "3", "m2"), "zset", ""})
					add(GenCmd{mk("zexpire", a1, liveTTL), "ttl", ""})
				case 5:
					add(GenCmd{mk("setbitv2", a1, g.pick(poolBitOff), "1"), "bitmap", ""})
					add(GenCmd{mk("bexpire", a1, liveTTL), "ttl", ""})
				default:
					add(GenCmd{mk("set", a1, g.pick(poolValues)), "kv", ""})
					add(GenCmd{mk("expire", a1, liveTTL), "ttl", ""})
				}
			}
		}
	}
	// phase B: still in log second S, i.e. before the expiry by log time
	cs.LiveB = len(cs.Cmds)
	nb := n/2 + r.Intn(10)
	for i := 0; i < nb; i++ {
		add(g.Next())
	}
	// phase C: log second S+3, i.e. after the expiry by log time
	cs.LiveC = len(cs.Cmds)
	ts = int64(r.Intn(1000))
	nc := n/3 + r.Intn(10)
	for i := 0; i < nc; i++ {
		add(g.Next())
	}
	cs.retime(time.Now().UnixNano())
	return cs
}

// retime ties a live-clock log to the real clock: T0 = now; phase A/B
// timestamps are T0+offset clamped into log second S = sec(T0), phase C
// timestamps lie in second S+3.
func (cs *c07Case) retime(now int64) {
	const sec = int64(1000000000)
	s0 := now - now%sec
	cs.Ts = make([]int64, len(cs.Cmds))
	for i := range cs.Cmds {
		if i < cs.LiveC {
			t := now + cs.liveOff[i]
			if t > s0+sec-1 {
				t = s0 + sec - 1
			}
			cs.Ts[i] = t
		} else {
			cs.Ts[i] = s0 + 3*sec + cs.liveOff[i]
		}
	}
}

func genCase(r *rand.Rand, id int, n int) *c07Case {
	if r.Intn(4) == 0 {
		return genLiveCase(r, id, n)
	}
	cs := &c07Case{ID: id, Policy: "wait_compact"}
	if r.Intn(4) == 0 {
		cs.Policy = "local_deletion"
	}
	cs.V2 = r.Intn(4) == 0
	g := NewGen(r)
	if r.Intn(10) < 4 {
		g.FailBatchable = 0.12
	}
	switch w := r.Intn(10); {
	case w < 5:
		g.HLLMode = 0
	case w < 8:
		g.HLLMode = 1
	default:
		g.HLLMode = 2
	}
	if r.Intn(6) == 0 {
		// directed family: PFADD new key -> [flush / restart cut on some replicas]
		// -> DEL -> PFADD; nothing but DEL ever touches the HyperLogLog keys
		g.HLLMode = 1
		g.HLLDel = 0.15
	}
	// log timestamps days away from real time, in both directions
	offs := []time.Duration{-72 * time.Hour, 72 * time.Hour, -9600 * time.Hour, 9600 * time.Hour, 30 * time.Hour, -30 * time.Hour}
	ts := time.Now().Add(offs[r.Intn(len(offs))]).UnixNano()
	for i := 0; i < n; i++ {
		cs.Cmds = append(cs.Cmds, g.Next())
		ts = g.NextTs(ts)
		cs.Ts = append(cs.Ts, ts)
	}
	return cs
}

// ---------------------------------------------------------------------------
// witness

type c07Witness struct {
	Live    bool        `json:"live_clock,omitempty"` // timestamps are re-based to the real clock on replay
	Policy  string      `json:"policy"`
	V2      bool        `json:"use_redis_v2"`
	Cmds    [][]string  `json:"cmds"` // Go-quoted args; REPEAT:n:"c" = n times c
	Ts      []int64     `json:"ts_nano"`
	Specs   []repSpec   `json:"replicas"`
	Div     divergence  `json:"divergence"`
	Replies [][]string  `json:"replies_by_replica,omitempty"`
	Note    string      `json:"note,omitempty"`
	Minimal interface{} `json:"minimal,omitempty"`
}

func (cs *c07Case) witness(specs []repSpec, d *divergence, results map[string]*repResult) *c07Witness {
	w := &c07Witness{Live: cs.Live, Policy: cs.Policy, V2: cs.V2, Ts: cs.Ts, Specs: specs, Div: *d}
	for _, c := range cs.Cmds {
		w.Cmds = append(w.Cmds, QuoteArgs(c.Cmd))
	}
	for _, sp := range specs {
		if r, ok := results[sp.Name]; ok && r != nil && (sp.Name == d.A || sp.Name == d.B) {
			w.Replies = append(w.Replies, append([]string{sp.Name}, r.Replies...))
		}
	}
	return w
}

func caseFromWitness(w *c07Witness) (*c07Case, error) {
	cs := &c07Case{ID: 0, Policy: w.Policy, V2: w.V2, Ts: append([]int64{}, w.Ts...), Live: w.Live}
	if cs.Live && len(cs.Ts) > 0 {
		// re-base to the real clock by whole seconds (keeps every second boundary)
		const sec = int64(1000000000)
		now := time.Now().UnixNano()
		delta := (now - now%sec) - (cs.Ts[0] - cs.Ts[0]%sec)
		for i := range cs.Ts {
			cs.Ts[i] += delta
		}
	}
	for _, q := range w.Cmds {
		c, err := UnquoteArgs(q)
		if err != nil {
			return nil, err
		}
		cs.Cmds = append(cs.Cmds, GenCmd{Cmd: c})
	}
	return cs, nil
}

// ---------------------------------------------------------------------------
// evaluation of one case, phase 1 (everything except the delayed replicas)

type c07Eval struct {
	cs          *c07Case
	specs       []repSpec // clean-case replicas (R0..R3) + delayed ones (R4,R5) appended
	results     map[string]*repResult
	failing     map[int]bool // R0: command failed at apply
	forced      []int        // indices of failing batchable commands
	div         *divergence  // first unexplained divergence
	known       *divergence  // divergence explained by the batch-abort finding
	knownSig    string
	knownWin    *abortWindow
	incon       string
	taintRun    bool
	reported    map[string]bool
	tooLate     bool            // live-clock log: R0 did not finish before the expiry instant (retry with a fresh log)
	lateSkip    map[string]bool // live-clock log: replicas excluded from comparison because of their real execution time
	hllDelReply *divergence     // DEL of a cache-only HLL answered with a lower count (does not taint)
	hllBytes    *divergence     // only the stored bytes of HLL values differ (does not taint)
	hllMix      *divergence     // HLL write-cache flush timing met a KV-level command (taints the log)
}

// note files a divergence by class; it returns true if the evaluation of this
// log has to stop (unexplained divergence, or the log is tainted).
func (ev *c07Eval) note(d *divergence) bool {
	switch d.Class {
	case "hll-bytes":
		if ev.hllBytes == nil {
			ev.hllBytes = d
		}
		return false
	case "hll-del-reply":
		if ev.hllDelReply == nil {
			ev.hllDelReply = d
		}
		return false
	case "hll-mix":
		ev.hllMix = d
		return true
	}
	ev.div = d
	return true
}

func (ev *c07Eval) tainted() bool { return ev.div != nil || ev.hllMix != nil }

func c07Specs(r *rand.Rand, cs *c07Case, forced []int) []repSpec {
	n := len(cs.Cmds)
	specs := []repSpec{
		{Name: "R0", Engine: "mem", Cuts: cutsEvery(n), Mode: "live"},
		{Name: "R1", Engine: "mem", Cuts: withForced(nil, forced, n), Mode: "live"},
		{Name: "R2", Engine: "pebble", Cuts: withForced(cutsRandom(r, n), forced, n), Mode: "live"},
	}
	if w := r.Intn(3); w == 0 && n >= 3 {
		c1 := 1 + r.Intn(n-1)
		c2 := c1 + r.Intn(n-c1+1)
		specs = append(specs, repSpec{Name: "R3", Engine: "pebble", Cuts: withForced(cutsRandom(r, n), forced, n, c1, c2), Mode: "restore", C1: c1, C2: c2})
	} else if w == 1 && n >= 3 {
		c1 := r.Intn(n)
		c2 := c1 + r.Intn(n-c1+1)
		if c2 == 0 {
			c2 = 1
		}
		specs = append(specs, repSpec{Name: "R3", Engine: "pebble", Cuts: withForced(cutsRandom(r, n), forced, n, c1, c2), Mode: "install", C1: c1, C2: c2})
	} else {
		specs = append(specs, repSpec{Name: "R3", Engine: "mem", Cuts: withForced(cutsRandom(r, n), forced, n), Mode: "follower-replay"})
	}
	// executed >= 1.1 s later in real time (phase 2)
	specs = append(specs,
		repSpec{Name: "R4", Engine: "mem", Cuts: cutsEvery(n), Mode: "live"},
		repSpec{Name: "R5", Engine: "pebble", Cuts: specs[2].Cuts, Mode: "live"})
	return specs
}

func engineOf(specs []repSpec, name string) string {
	for _, s := range specs {
		if s.Name == name {
			return s.Engine
		}
	}
	return ""
}

// evalPhase1 runs R0..R3 and the taint replicas and compares.
func evalPhase1(scratch string, r *rand.Rand, cs *c07Case, fixedSpecs []repSpec) *c07Eval {
	ev := &c07Eval{cs: cs, results: map[string]*repResult{}, failing: map[int]bool{}, reported: map[string]bool{}}
	n := len(cs.Cmds)
	r0 := runReplica(scratch, cs, repSpec{Name: "R0", Engine: "mem", Cuts: cutsEvery(n), Mode: "live"})
	ev.results["R0"] = &r0
	if r0.Err != "" {
		ev.incon = "R0: " + r0.Err
		return ev
	}
	ev.lateSkip = map[string]bool{}
	// live-clock logs: replicas of phase 1 are only compared with each other if
	// they applied the whole log before the first expiry instant on the real
	// clock (minus a margin); then every wall-clock based decision agrees among
	// them and a divergence cannot be blamed on the clock
	liveDeadline := int64(0)
	if cs.Live {
		liveDeadline = cs.liveExpiry() - int64(100*time.Millisecond)
		if r0.ApplyEnd > liveDeadline {
			ev.tooLate = true
			return ev
		}
	}
	upto := n
	if r0.PanicAt >= 0 {
		upto = r0.PanicAt
	}
	for i := 0; i < upto; i++ {
		if strings.HasPrefix(r0.Replies[i], "-ERR(") {
			ev.failing[i] = true
			if IsBatchableCmd(cs.Cmds[i].Cmd) {
				ev.forced = append(ev.forced, i)
			}
		}
	}
	if fixedSpecs != nil {
		ev.specs = make([]repSpec, len(fixedSpecs))
		for i, sp := range fixedSpecs {
			sp.Cuts = withForced(sp.Cuts, ev.forced, n)
			ev.specs[i] = sp
		}
	} else {
		ev.specs = c07Specs(r, cs, ev.forced)
	}
	for _, sp := range ev.specs[1:] {
		if sp.Name == "R4" || sp.Name == "R5" {
			continue
		}
		res := runReplica(scratch, cs, sp)
		ev.results[sp.Name] = &res
		if res.Err != "" {
			ev.incon = sp.Name + ": " + res.Err
			return ev
		}
		if cs.Live && res.ApplyEnd > liveDeadline {
			ev.lateSkip[sp.Name] = true
		}
	}
	local := cs.Policy == "local_deletion"
	for _, sp := range ev.specs[1:] {
		res := ev.results[sp.Name]
		if res == nil || ev.lateSkip[sp.Name] {
			continue
		}
		// raw dumps are compared within an engine type (R0 is the mem reference,
		// R2 the pebble one); under local deletion only logical dumps (documented exception)
		if d := compareTo(cs, "R0", &r0, sp.Name, res, !local && sp.Engine == "mem", n); d != nil && ev.note(d) {
			return ev
		}
		if sp.Engine == "pebble" && sp.Name != "R2" && !local && !ev.lateSkip["R2"] {
			if d := compareTo(cs, "R2", ev.results["R2"], sp.Name, res, true, n); d != nil && ev.note(d) {
				return ev
			}
		}
	}
	// taint case: the same log WITHOUT the forced boundaries in front of failing
	// batchable commands; expected to show DESIGN 1.6 #2 on the unchanged tree.
	if len(ev.forced) > 0 && fixedSpecs == nil && !ev.tainted() {
		evalTaint(scratch, ev, []repSpec{
			{Name: "T1", Engine: "mem", Cuts: []int{n}, Mode: "live"},
			{Name: "T2", Engine: "pebble", Cuts: cutsRandom(r, n), Mode: "live"},
		})
	}
	return ev
}

// evalTaint runs the log on replicas whose partitions are NOT cut in front of
// failing batchable commands and classifies a divergence from R0.
func evalTaint(scratch string, ev *c07Eval, tspecs []repSpec) {
	cs := ev.cs
	n := len(cs.Cmds)
	local := cs.Policy == "local_deletion"
	r0 := ev.results["R0"]
	ev.taintRun = true
	for _, sp := range tspecs {
		res := runReplica(scratch, cs, sp)
		ev.results[sp.Name] = &res
		ev.specs = append(ev.specs, sp)
		if res.Err != "" {
			ev.incon = sp.Name + ": " + res.Err
			return
		}
		if cs.Live && res.ApplyEnd > cs.liveExpiry()-int64(100*time.Millisecond) {
			ev.lateSkip[sp.Name] = true
			continue
		}
		d := compareTo(cs, "R0", r0, sp.Name, &res, !local && sp.Engine == "mem", n)
		if d == nil {
			continue
		}
		win := firstAbortWindow(cs, sp.Cuts, ev.failing)
		if d.Kind == "reply" && win != nil && d.Index >= win.From && d.Index < win.At &&
			res.Replies[d.Index] == r0.Replies[win.At] {
			// command d.Index was sitting in the shared write batch when command
			// win.At failed: it is answered with that command's error and dropped.
			// Everything before d.Index agreed; the rest of this log is tainted.
			if ev.known == nil {
				ev.known = d
				ev.knownWin = win
				ev.knownSig = "batch-abort-drops-earlier/" + cs.Cmds[win.At].Cmd.Name()
			}
			continue
		}
		if ev.note(d) {
			return
		}
	}
}

// divSig is the signature of an unexplained divergence.
func divSig(ev *c07Eval, d *divergence) string {
	if d.Class == "hll-survives-del" {
		// a log in which DEL is the only KV-level command on HyperLogLog keys: the
		// unchanged tree differs in the DEL reply only
		if d.Kind == "reply" {
			return "hll-survives-del/" + ev.cs.Cmds[maxInt(d.Index, 0)].Cmd.Name()
		}
		return "hll-survives-del/state"
	}
	sig := d.Kind + "-divergence/" + engineOf(ev.specs, d.A) + "-" + engineOf(ev.specs, d.B)
	if d.Kind == "reply" || d.Kind == "panic" {
		sig = d.Kind + "-divergence/" + ev.cs.Cmds[maxInt(d.Index, 0)].Cmd.Name()
	}
	if d.B == "R4" || d.B == "R5" {
		sig = "wallclock-" + sig
		if ev.cs.Live {
			// live-clock log: the twin applied the log before, this replica after the
			// expiry instant on the real clock; everything else is equal
			sig = "wallclock-expiry-in-apply/state"
			if d.Kind == "reply" {
				sig = "wallclock-expiry-in-apply/" + ev.cs.Cmds[maxInt(d.Index, 0)].Cmd.Name()
			}
		}
	}
	return sig
}

// evalPhase2 runs the delayed replicas and compares them byte for byte with
// their phase-1 twins.
func evalPhase2(scratch string, ev *c07Eval) {
	cs := ev.cs
	n := len(cs.Cmds)
	local := cs.Policy == "local_deletion"
	for _, sp := range ev.specs {
		var twin string
		switch sp.Name {
		case "R4":
			twin = "R0"
		case "R5":
			twin = "R2"
		default:
			continue
		}
		if ev.lateSkip[twin] {
			continue
		}
		res := runReplica(scratch, cs, sp)
		ev.results[sp.Name] = &res
		if res.Err != "" {
			ev.incon = sp.Name + ": " + res.Err
			return
		}
		if cs.Live && res.ApplyStart < cs.liveExpiry() {
			ev.lateSkip[sp.Name] = true // cannot happen after the sleep; be safe
			continue
		}
		if d := compareTo(cs, twin, ev.results[twin], sp.Name, &res, !local, n); d != nil && ev.note(d) {
			return
		}
	}
}

// ---------------------------------------------------------------------------
// shrinking (phase-1 divergences only): greedy removal of log entries while a
// divergence of the same kind between the same pair of replica kinds persists.

func removeFromCuts(cuts []int, start, cnt, n int) []int {
	var out []int
	for _, c := range cuts {
		switch {
		case c <= start:
		case c >= start+cnt:
			c -= cnt
		default:
			c = start
		}
		if c > 0 && (len(out) == 0 || out[len(out)-1] != c) {
			out = append(out, c)
		}
	}
	if len(out) == 0 || out[len(out)-1] != n {
		out = append(out, n)
	}
	return out
}

func removeIdx(x, start, cnt int) int {
	switch {
	case x <= start:
		return x
	case x >= start+cnt:
		return x - cnt
	}
	return start
}

// shrinkCase keeps the replica specs (partitions, restart points) and maps
// them onto the reduced log.
func shrinkCase(scratch string, cs *c07Case, specs []repSpec, kind string) (*c07Case, []repSpec) {
	cur, curSpecs := cs, specs
	budget := 150
	fails := func(c *c07Case, sp []repSpec) bool {
		budget--
		ev := evalPhase1(scratch, rand.New(rand.NewSource(1)), c, sp)
		return ev.incon == "" && ev.div != nil && ev.div.Kind == kind
	}
	chunk := len(cur.Cmds) / 2
	for chunk >= 1 && budget > 0 {
		removed := false
		for start := 0; start+chunk <= len(cur.Cmds) && budget > 0; {
			c := &c07Case{ID: cur.ID, Policy: cur.Policy, V2: cur.V2}
			c.Cmds = append(append([]GenCmd{}, cur.Cmds[:start]...), cur.Cmds[start+chunk:]...)
			c.Ts = append(append([]int64{}, cur.Ts[:start]...), cur.Ts[start+chunk:]...)
			n := len(c.Cmds)
			var sps []repSpec
			for _, sp := range curSpecs {
				if sp.Name == "T1" || sp.Name == "T2" {
					continue
				}
				sp.Cuts = removeFromCuts(sp.Cuts, start, chunk, n)
				if sp.Mode == "restore" || sp.Mode == "install" {
					sp.C1 = removeIdx(sp.C1, start, chunk)
					sp.C2 = removeIdx(sp.C2, start, chunk)
					if sp.C1 < 1 && sp.Mode == "restore" {
						sp.C1 = 1
					}
					if sp.C2 < 1 {
						sp.C2 = 1
					}
					if sp.C2 > n {
						sp.C2 = n
					}
					if sp.C1 > sp.C2 {
						sp.C1 = sp.C2
					}
					if sp.C2 < sp.C1 {
						sp.C2 = sp.C1
					}
					sp.Cuts = withForced(sp.Cuts, nil, n, sp.C1, sp.C2)
				}
				sps = append(sps, sp)
			}
			if n >= 1 && fails(c, sps) {
				cur, curSpecs = c, sps
				removed = true
			} else {
				start += chunk
			}
		}
		if !removed || chunk == 1 {
			chunk /= 2
		}
	}
	return cur, curSpecs
}

// minimalAbortWitness confirms DESIGN 1.6 #2 with two commands: one earlier
// batchable write and the failing batchable command, applied as one apply
// batch and as two.
func minimalAbortWitness(scratch string, cs *c07Case, win *abortWindow) interface{} {
	mc := &c07Case{ID: cs.ID, Policy: cs.Policy, V2: cs.V2,
		Cmds: []GenCmd{cs.Cmds[win.At-1], cs.Cmds[win.At]}, Ts: []int64{cs.Ts[win.At-1], cs.Ts[win.At]}}
	// the command right before the failing one is in the open batch by construction
	// only if it is batchable; otherwise take the first command of the window
	if !IsBatchableCmd(mc.Cmds[0].Cmd) {
		mc.Cmds[0], mc.Ts[0] = cs.Cmds[win.From], cs.Ts[win.From]
	}
	one := runReplica(scratch, mc, repSpec{Name: "M1", Engine: "mem", Cuts: []int{2}, Mode: "live"})
	two := runReplica(scratch, mc, repSpec{Name: "M2", Engine: "mem", Cuts: []int{1, 2}, Mode: "live"})
	m := map[string]interface{}{
		"cmds":                      [][]string{QuoteArgs(mc.Cmds[0].Cmd), QuoteArgs(mc.Cmds[1].Cmd)},
		"replies_one_apply_batch":   one.Replies,
		"replies_two_apply_batches": two.Replies,
	}
	if one.Logical != nil && two.Logical != nil {
		m["dump_one_apply_batch"] = one.Logical.Lines
		m["dump_two_apply_batches"] = two.Logical.Lines
		m["confirmed"] = one.Logical.Diff(two.Logical) != "" || fmt.Sprint(one.Replies) != fmt.Sprint(two.Replies)
	}
	return m
}

// minimalHLLBytesWitness: the same single PFADD on two fresh replicas; the
// stored value (GET) differs although PFCOUNT is equal.
func minimalHLLBytesWitness(scratch string) interface{} {
	cmd := C("pfadd", "t", "h", "m1", "m2", "m3", "m4", "m5", "m6")
	ts := time.Now().Add(72 * time.Hour).UnixNano()
	var first, firstCnt string
	for i := 0; i < 40; i++ {
		l, err := Open(Opts{Engine: "mem", Dir: filepath.Join(scratch, fmt.Sprintf("hllmin-%d-%d", i, atomic.AddInt64(&c07DirSeq, 1)))})
		if err != nil {
			return err.Error()
		}
		l.ApplyOne(ts, cmd)
		l.FlushHLL()
		get := l.R("get", "t", "h").Canon()
		cnt := l.R("pfcount", "t", "h").Canon()
		l.Destroy()
		if i == 0 {
			first, firstCnt = get, cnt
			continue
		}
		if get != first {
			return map[string]interface{}{"cmd": QuoteArgs(cmd), "get_replica_a": first, "get_replica_b": get,
				"pfcount_replica_a": firstCnt, "pfcount_replica_b": cnt, "confirmed": true, "attempts": i + 1}
		}
	}
	return map[string]interface{}{"cmd": QuoteArgs(cmd), "confirmed": false}
}

// minimalHLLMixWitness: PFADD k; DEL k with and without a checkpoint in between.
func minimalHLLMixWitness(scratch string) interface{} {
	ts := time.Now().Add(72 * time.Hour).UnixNano()
	out := map[string]interface{}{"cmds": [][]string{QuoteArgs(C("pfadd", "t", "h", "m1")), QuoteArgs(C("del", "t", "h"))}}
	var reps [2]string
	var dumps [2][]string
	for v := 0; v < 2; v++ {
		l, err := Open(Opts{Engine: "pebble", Dir: filepath.Join(scratch, fmt.Sprintf("hllmix-%d-%d", v, atomic.AddInt64(&c07DirSeq, 1)))})
		if err != nil {
			return err.Error()
		}
		l.Apply([]Entry{{Cmds: []Cmd{C("pfadd", "t", "h", "m1")}, TsNano: ts, Index: 1, Term: 1}}, false, true)
		if v == 1 {
			if bi := l.DB().Backup(1, 1); bi != nil { // a replica-local checkpoint flushes the cache
				bi.WaitReady()
				bi.GetResult()
			}
		}
		r := l.Apply([]Entry{{Cmds: []Cmd{C("del", "t", "h")}, TsNano: ts + 1, Index: 2, Term: 1}}, false, true)
		reps[v] = r[0][0].Canon()
		dumps[v] = l.LogicalDump().Lines
		l.Destroy()
	}
	out["del_reply_without_checkpoint"] = reps[0]
	out["del_reply_with_checkpoint_between"] = reps[1]
	out["dump_without_checkpoint"] = dumps[0]
	out["dump_with_checkpoint_between"] = dumps[1]
	out["confirmed"] = reps[0] != reps[1] || fmt.Sprint(dumps[0]) != fmt.Sprint(dumps[1])
	return out
}

// ---------------------------------------------------------------------------

func fpCase(cs *c07Case, specs []repSpec) string {
	h := sha1.New()
	for i, c := range cs.Cmds {
		for _, a := range c.Cmd.Args {
			h.Write(a)
			h.Write([]byte{0})
		}
		if i > 0 {
			fmt.Fprintf(h, "%d;", cs.Ts[i]-cs.Ts[i-1])
		}
	}
	for _, sp := range specs {
		fmt.Fprintf(h, "%s:%s:%d:%d|", sp.Name, cutsFP(sp.Cuts), sp.C1, sp.C2)
	}
	return hex.EncodeToString(h.Sum(nil))[:16]
}

func runC07(c *vc.Ctx) error {
	QuietLogs(c.Scratch)
	c.Ev.Rule = "case = random log of ~60 single-command entries from the E3 generator (all write families, tiny adversarial key/member/int pools, " +
		"adversarially close log timestamps days away from real time) executed on replicas R0 (mem, 1 entry per apply batch), R1 (mem, maximal batches), " +
		"R2 (pebble, random partition), R3 (checkpoint+restart+replay with isReplaying, or a running follower installing another replica's checkpoint, or clean follower replay without waiters), R4/R5 (R0/R2 re-executed >=2.6 s later); " +
		"1/4 of the logs (by seed) are live-clock logs: log timestamps = real clock at execution, setup + 2 s TTLs on every type in log second S, ~35 generator commands on those keys still in second S (before the expiry by log time), ~25 in second S+3 (after it), " +
		"phase-1 replicas must finish before the expiry instant on the real clock (else excluded/retimed), delayed replicas start after it; such logs are compared on replies and engine content (also mem vs pebble), not on wall-clock filtered reads; " +
		"replies per request id, logical dumps (all), raw dumps (within engine type; not under local_deletion) must be equal. " +
		"non-trivial = R2's partition has an apply batch with >=2 batchable commands AND >=1 command failed at apply AND >=1 TTL-bearing command was applied; " +
		"distinct by hash(commands, timestamp deltas, all partitions, restart cut points)"
	c.Ev.Assume("engines mem and pebble only (the rocksdb fork is not available); compaction-filter based lazy expiry cleaning exists only on rocksdb")
	c.Ev.Assume("one in-process clock: wall-clock offsets between replicas are approximated by executing >=1.1 s later with log timestamps hours..400 days away from real time")
	c.Ev.Assume("live-clock logs: every command is at least 1 s (by log time) away from every expire time (TTL granularity is seconds); wait_compact only; no PFADD; half of them without the commands of knownWallclockCmds (hclear)")
	c.Ev.Assume("local_deletion: logical dumps only, background checker parked (300 s period, runs are shorter)")
	c.Ev.Assume("logs contain only commands that pass the proposer-side syntactic validation; SETRANGE with a negative offset (panics the apply loop on every replica, C11) and MSET (not registered on the client side) are not generated")
	c.Ev.Assume("apply batches are cut in front of every batchable command that fails at apply (clean case); the uncut log is evaluated separately (taint case) up to the first divergence and classified")

	if c.Replay != "" {
		return replayC07(c)
	}

	nLogs := c.Pick(960, 19200)
	logLen := 60
	chunk := 320
	var mu sync.Mutex
	var shrunk int
	knownReported := map[string]bool{}
	report := func(ev *c07Eval, allowShrink bool) {
		cs := ev.cs
		firstOf := func(sig string) bool {
			mu.Lock()
			defer mu.Unlock()
			f := !knownReported[sig]
			knownReported[sig] = true
			return f
		}
		if ev.known != nil && !ev.reported["known"] {
			ev.reported["known"] = true
			c.Ev.Count("taint_logs_diverged_by_batch_abort", 1)
			w := cs.witness(ev.specs, ev.known, ev.results)
			w.Note = fmt.Sprintf("commands [%d,%d) were in the open shared write batch when command %d failed at apply; they are answered with its error and their effects are dropped", ev.knownWin.From, ev.knownWin.At, ev.knownWin.At)
			if firstOf(ev.knownSig) {
				w.Minimal = minimalAbortWitness(c.Scratch, cs, ev.knownWin)
			}
			viol(c, ev.knownSig, ev.known.String(), w)
		}
		if ev.hllBytes != nil && !ev.reported["hllBytes"] {
			ev.reported["hllBytes"] = true
			c.Ev.Count("logs_with_hll_stored_bytes_difference", 1)
			sig := "hll-stored-bytes-differ/pfadd"
			w := cs.witness(ev.specs, ev.hllBytes, nil)
			w.Note = "only the stored bytes of a HyperLogLog value differ between the replicas (PFCOUNT and everything else equal): the value is a gob encoding that contains a Go map (tmpSet), whose iteration order is random"
			if firstOf(sig) {
				w.Minimal = minimalHLLBytesWitness(c.Scratch)
			}
			viol(c, sig, ev.hllBytes.String(), w)
		}
		if ev.hllDelReply != nil && !ev.reported["hllDelReply"] {
			ev.reported["hllDelReply"] = true
			c.Ev.Count("logs_with_del_reply_of_cache_only_hll_differing", 1)
			w := cs.witness(ev.specs, ev.hllDelReply, ev.results)
			w.Note = "DEL of a HyperLogLog that lives only in the write cache does not count it (reply lower by one than on a replica that flushed the cache before); the key is gone on both replicas, evaluation of the log continues"
			viol(c, "hll-cache-flush-timing/del", ev.hllDelReply.String(), w)
		}
		if ev.hllMix != nil && !ev.reported["hllMix"] {
			ev.reported["hllMix"] = true
			c.Ev.Count("logs_tainted_by_hll_cache_flush_timing", 1)
			// reply-level: named after the command that got different answers;
			// dump-level: "state"
			sig := "hll-cache-flush-timing/state"
			if ev.hllMix.Kind == "reply" && ev.hllMix.Index >= 0 {
				sig = "hll-cache-flush-timing/" + cs.Cmds[ev.hllMix.Index].Cmd.Name()
			}
			w := cs.witness(ev.specs, ev.hllMix, ev.results)
			w.Note = "a PFADD lives only in the in-memory HyperLogLog write cache until a replica-local flush (checkpoint, restart, LRU eviction); a later KV-level command on that key sees the key on a replica that flushed and does not see it on one that did not"
			if firstOf("hll-cache-flush-timing") {
				w.Minimal = minimalHLLMixWitness(c.Scratch)
			}
			viol(c, sig, ev.hllMix.String(), w)
		}
		if ev.div != nil && !ev.reported["div"] {
			ev.reported["div"] = true
			d := ev.div
			sig := divSig(ev, d)
			mu.Lock()
			doShrink := allowShrink && shrunk < 3
			if doShrink {
				shrunk++
			}
			mu.Unlock()
			w := cs.witness(ev.specs, d, ev.results)
			if doShrink {
				small, sspecs := shrinkCase(c.Scratch, cs, ev.specs, d.Kind)
				if len(small.Cmds) < len(cs.Cmds) {
					sev := evalPhase1(c.Scratch, rand.New(rand.NewSource(1)), small, sspecs)
					if sev.div != nil {
						w = small.witness(sev.specs, sev.div, sev.results)
						w.Note = fmt.Sprintf("shrunk from %d to %d commands", len(cs.Cmds), len(small.Cmds))
						d = sev.div
					}
				}
			}
			viol(c, sig, d.String(), w)
		}
	}

	for base := 0; base < nLogs; base += chunk {
		m := chunk
		if base+m > nLogs {
			m = nLogs - base
		}
		evs := make([]*c07Eval, m)
		c.ParallelFor(m, func(k int) {
			id := base + k
			r := c.Rand(int64(id))
			cs := genCase(r, id, logLen-10+r.Intn(21))
			specSeed := r.Int63()
			ev := evalPhase1(c.Scratch, rand.New(rand.NewSource(specSeed)), cs, nil)
			for try := 0; ev.tooLate && try < 4; try++ {
				// the machine was too slow to apply the log before its first expiry
				// instant: same commands, fresh timestamps
				c.Ev.Count("live_clock_logs_retimed_(too_slow)", 1)
				cs.retime(time.Now().UnixNano())
				ev = evalPhase1(c.Scratch, rand.New(rand.NewSource(specSeed)), cs, nil)
			}
			if ev.tooLate {
				c.Ev.Count("live_clock_logs_skipped_(too_slow)", 1)
				return
			}
			evs[k] = ev
			if ev.incon != "" {
				c.Inconclusive(fmt.Sprintf("log %d: %s", id, ev.incon))
				return
			}
			// evidence
			c.Ev.Count("logs", 1)
			c.Ev.Count("commands", int64(len(cs.Cmds)))
			c.Ev.Count("logs_policy_"+cs.Policy, 1)
			if cs.V2 {
				c.Ev.Count("logs_redis_v2_encoding", 1)
			}
			if cs.Live {
				c.Ev.Count("live_clock_logs", 1)
				if cs.LiveExclKnown {
					c.Ev.Count("live_clock_logs_without_known_wallclock_cmds", 1)
				}
				c.Ev.Count("live_clock_cmds_setup_with_ttl", int64(cs.LiveB))
				c.Ev.Count("live_clock_cmds_before_expiry_by_log_time", int64(cs.LiveC-cs.LiveB))
				c.Ev.Count("live_clock_cmds_after_expiry_by_log_time", int64(len(cs.Cmds)-cs.LiveC))
				c.Ev.Count("live_clock_phase1_replicas_excluded_(applied_too_late)", int64(len(ev.lateSkip)))
			}
			fam := map[string]int64{}
			for i, gc := range cs.Cmds {
				fam["commands_family_"+gc.Family]++
				if ev.failing[i] {
					fam["failed_at_apply_"+gc.Cmd.Name()]++
					fam["failed_at_apply_total"]++
				}
			}
			for k, v := range fam {
				c.Ev.Count(k, v)
			}
			if r0 := ev.results["R0"]; r0 != nil && r0.PanicAt >= 0 {
				c.Ev.Count("logs_cut_short_by_apply_panic_on_all_replicas", 1)
				msg := r0.PanicMsg
				if len(msg) > 60 {
					msg = msg[:60]
				}
				c.Ev.Count("apply_panic:"+cs.Cmds[r0.PanicAt].Cmd.Name()+": "+msg, 1)
				c.Ev.Set("apply_panic_sample", fmt.Sprintf("%v: %s", cs.Cmds[r0.PanicAt].Cmd, r0.PanicMsg))
			}
			c.Ev.Count("failing_batchable_commands_forced_cut", int64(len(ev.forced)))
			if ev.taintRun {
				c.Ev.Count("taint_logs_run", 1)
			}
			for _, sp := range ev.specs {
				res := ev.results[sp.Name]
				if res == nil {
					continue
				}
				c.Ev.Count("replica_executions", 1)
				c.Ev.Count("apply_batches", int64(res.Batches))
				c.Ev.Count("restarts_with_checkpoint_restore", int64(res.Restarts))
				c.Ev.Count("running_follower_installs_of_another_replicas_checkpoint", int64(res.Installs))
				if sp.Mode == "follower-replay" {
					c.Ev.Count("follower_replays_without_waiters", 1)
				}
			}
			report(ev, true)
		})
		// phase 2: >= 1.1 s later in real time
		time.Sleep(liveSleep)
		c.ParallelFor(m, func(k int) {
			ev := evs[k]
			if ev == nil || ev.incon != "" {
				return
			}
			cs := ev.cs
			if !ev.tainted() {
				evalPhase2(c.Scratch, ev)
				if ev.incon != "" {
					c.Inconclusive(fmt.Sprintf("log %d: %s", cs.ID, ev.incon))
					return
				}
				for _, nme := range []string{"R4", "R5"} {
					if res := ev.results[nme]; res != nil {
						c.Ev.Count("replica_executions", 1)
						c.Ev.Count("delayed_replica_executions", 1)
						c.Ev.Count("apply_batches", int64(res.Batches))
					}
				}
				report(ev, false)
			} else {
				c.Ev.Count("logs_not_evaluated_to_the_end_(tainted_or_violating)", 1)
			}
			c.Ev.Eval()
			// non-trivial rule
			multi := false
			r2cuts := ev.specs[2].Cuts
			prev := 0
			for _, cut := range r2cuts {
				nb := 0
				for i := prev; i < cut; i++ {
					if IsBatchableCmd(cs.Cmds[i].Cmd) {
						nb++
					}
				}
				if nb >= 2 {
					multi = true
				}
				prev = cut
			}
			ttl := false
			for i, gc := range cs.Cmds {
				nme := gc.Cmd.Name()
				if !ev.failing[i] && (strings.HasSuffix(nme, "expire") || nme == "setex" || (nme == "set" && len(gc.Cmd.Args) > 4)) {
					ttl = true
				}
			}
			if multi && ttl && len(ev.failing) > 0 {
				c.Ev.Nontrivial(fpCase(cs, ev.specs))
			}
			var parts []string
			for _, sp := range ev.specs {
				parts = append(parts, sp.Name+":"+cutsFP(sp.Cuts))
			}
			if cs.ID < 2 {
				var cmds []string
				for i := 0; i < len(cs.Cmds) && i < 12; i++ {
					cmds = append(cmds, cs.Cmds[i].Cmd.String())
				}
				c.Ev.Sample(2, map[string]interface{}{"policy": cs.Policy, "first_commands": cmds, "partitions": parts})
			}
			mu.Lock()
			for _, sp := range ev.specs {
				partSet[cutsFP(sp.Cuts)] = struct{}{}
			}
			mu.Unlock()
			// free memory
			ev.results = nil
		})
		fmt.Printf("C07 progress: %d/%d logs, violations=%d\n", base+m, nLogs, c.Violations())
	}
	mu.Lock()
	c.Ev.Set("distinct_batch_partitions", len(partSet))
	mu.Unlock()
	return nil
}

var partSet = map[string]struct{}{}

// viol reports a violation and counts it by signature in the evidence.
func viol(c *vc.Ctx, sig, summary string, w interface{}) {
	c.Ev.Count("violations_by_signature:"+sig, 1)
	if skip := os.Getenv("VERIF_DEV_SKIP_SIG"); skip != "" { // development aid: count, do not report
		for _, p := range strings.Split(skip, ",") {
			if strings.HasPrefix(sig, p) {
				return
			}
		}
	}
	c.Violation(sig, summary, w)
}

func replayC07(c *vc.Ctx) error {
	b, err := ioutil.ReadFile(c.Replay)
	if err != nil {
		return err
	}
	var doc struct {
		Witness c07Witness `json:"witness"`
	}
	if err := json.Unmarshal(b, &doc); err != nil {
		return err
	}
	cs, err := caseFromWitness(&doc.Witness)
	if err != nil {
		return err
	}
	var specs []repSpec
	for _, sp := range doc.Witness.Specs {
		if sp.Name == "T1" || sp.Name == "T2" {
			continue
		}
		specs = append(specs, sp)
	}
	var tspecs []repSpec
	for _, sp := range doc.Witness.Specs {
		if sp.Name == "T1" || sp.Name == "T2" {
			tspecs = append(tspecs, sp)
		}
	}
	ev := evalPhase1(c.Scratch, rand.New(rand.NewSource(1)), cs, specs)
	if ev.incon == "" && !ev.tainted() && len(tspecs) > 0 {
		evalTaint(c.Scratch, ev, tspecs)
	}
	if !ev.tainted() && ev.incon == "" {
		time.Sleep(liveSleep)
		evalPhase2(c.Scratch, ev)
	}
	if ev.incon != "" {
		return fmt.Errorf("replay inconclusive: %s", ev.incon)
	}
	c.Ev.Eval()
	if ev.known != nil {
		fmt.Fprintf(os.Stdout, "replay: %s\n", ev.known.String())
		c.Violation(ev.knownSig, ev.known.String(), cs.witness(ev.specs, ev.known, ev.results))
	}
	if ev.div != nil {
		fmt.Fprintf(os.Stdout, "replay: %s\n", ev.div.String())
		c.Violation(divSig(ev, ev.div), ev.div.String(), cs.witness(ev.specs, ev.div, ev.results))
	}
	if ev.hllBytes != nil {
		fmt.Fprintf(os.Stdout, "replay: %s\n", ev.hllBytes.String())
		c.Violation("hll-stored-bytes-differ/pfadd", ev.hllBytes.String(), cs.witness(ev.specs, ev.hllBytes, nil))
	}
	if ev.hllDelReply != nil {
		fmt.Fprintf(os.Stdout, "replay: %s\n", ev.hllDelReply.String())
		c.Violation("hll-cache-flush-timing/del", ev.hllDelReply.String(), cs.witness(ev.specs, ev.hllDelReply, ev.results))
	}
	if ev.hllMix != nil {
		fmt.Fprintf(os.Stdout, "replay: %s\n", ev.hllMix.String())
		sig := "hll-cache-flush-timing/state"
		if ev.hllMix.Kind == "reply" && ev.hllMix.Index >= 0 {
			sig = "hll-cache-flush-timing/" + cs.Cmds[ev.hllMix.Index].Cmd.Name()
		}
		c.Violation(sig, ev.hllMix.String(), cs.witness(ev.specs, ev.hllMix, ev.results))
	}
	if ev.known == nil && ev.div == nil && ev.hllBytes == nil && ev.hllMix == nil && ev.hllDelReply == nil {
		fmt.Println("replay: no divergence")
	}
	return nil
}
