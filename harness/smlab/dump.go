package smlab

import (
	"bytes"
	"fmt"
	"sort"
	"strconv"
	"strings"

	"github.com/youzan/ZanRedisDB/common"
	"github.com/youzan/ZanRedisDB/engine"
	"github.com/youzan/ZanRedisDB/rockredis"
)

// KV is one engine key/value.
type KV struct{ K, V []byte }

// RawDump returns every engine key/value in engine order through the engine's
// own full-range iterator. The HyperLogLog write cache is flushed first (what
// Backup and a clean close do; otherwise PFADD effects are not in the engine).
func (l *Lab) RawDump() []KV {
	l.FlushHLL()
	return l.RawDumpNoFlush()
}

// RawDumpNoFlush is RawDump without flushing the HLL cache.
func (l *Lab) RawDumpNoFlush() []KV {
	return RawDumpOf(l.store.RockDB)
}

// RawDumpOf dumps any open RockDB.
func RawDumpOf(db *rockredis.RockDB) []KV {
	it, err := db.VerifEngine().GetIterator(engine.IteratorOpts{})
	if err != nil {
		panic(fmt.Sprintf("smlab: raw iterator: %v", err))
	}
	defer it.Close()
	var out []KV
	for it.SeekToFirst(); it.Valid(); it.Next() {
		out = append(out, KV{K: it.Key(), V: it.Value()})
	}
	return out
}

// RawString renders a raw dump one "hexkey=hexvalue" per line.
func RawString(kvs []KV) string {
	var sb strings.Builder
	for _, kv := range kvs {
		fmt.Fprintf(&sb, "%q = %q\n", kv.K, kv.V)
	}
	return sb.String()
}

// RawEqual compares two raw dumps; the description of the first difference is
// returned ("" if equal).
func RawDiff(a, b []KV) string {
	n := len(a)
	if len(b) < n {
		n = len(b)
	}
	for i := 0; i < n; i++ {
		if !bytes.Equal(a[i].K, b[i].K) {
			return fmt.Sprintf("entry %d: key %q vs %q", i, a[i].K, b[i].K)
		}
		if !bytes.Equal(a[i].V, b[i].V) {
			return fmt.Sprintf("entry %d key %q (%s): value %q vs %q", i, a[i].K, DescribeRawKey(a[i].K), a[i].V, b[i].V)
		}
	}
	if len(a) != len(b) {
		var extra KV
		if len(a) > n {
			extra = a[n]
		} else {
			extra = b[n]
		}
		return fmt.Sprintf("length %d vs %d; first extra key %q (%s)", len(a), len(b), extra.K, DescribeRawKey(extra.K))
	}
	return ""
}

// DescribeRawKey gives a human-readable classification of an engine key.
func DescribeRawKey(k []byte) string {
	if len(k) == 0 {
		return "empty"
	}
	switch k[0] {
	case rockredis.TableMetaType:
		t, _ := rockredis.VerifDecodeTableMetaKey(k)
		return fmt.Sprintf("table-counter table=%q", t)
	case rockredis.TableIndexMetaType:
		return "table-index-meta"
	case rockredis.KVType:
		tk, _ := rockredis.VerifDecodeKVKey(k)
		return fmt.Sprintf("kv %q", tk)
	case rockredis.HSizeType, rockredis.LMetaType, rockredis.SSizeType, rockredis.ZSizeType, rockredis.BitmapMetaType:
		dt, tk, _ := rockredis.VerifDecodeAnyMetaKey(k)
		return fmt.Sprintf("meta type=%d %q", dt, tk)
	case rockredis.HashType, rockredis.SetType, rockredis.ZSetType:
		_, t, key, sub, err := rockredis.VerifDecodeCollSubKey(k)
		if err != nil {
			return fmt.Sprintf("coll-elem type=%d undecodable: %v", k[0], err)
		}
		rk, ver, verr := rockredis.VerifDecodeVerKey(key)
		if verr == nil {
			return fmt.Sprintf("coll-elem type=%d table=%q key=%q ver=%d sub=%q", k[0], t, rk, ver, sub)
		}
		return fmt.Sprintf("coll-elem type=%d table=%q key=%q sub=%q", k[0], t, key, sub)
	case rockredis.ZScoreType:
		t, key, m, s, err := rockredis.VerifZDecodeScoreKey(k)
		if err != nil {
			return fmt.Sprintf("zscore undecodable: %v", err)
		}
		return fmt.Sprintf("zscore table=%q verkey=%q member=%q score=%v", t, key, m, s)
	case rockredis.ListType:
		t, key, seq, err := rockredis.VerifLDecodeListKey(k)
		if err != nil {
			return fmt.Sprintf("list-elem undecodable: %v", err)
		}
		return fmt.Sprintf("list-elem table=%q verkey=%q seq=%d", t, key, seq)
	case rockredis.BitmapType:
		t, key, idx, err := rockredis.VerifDecodeBitmapKey(k)
		if err != nil {
			return fmt.Sprintf("bitmap-elem undecodable: %v", err)
		}
		return fmt.Sprintf("bitmap-elem table=%q verkey=%q index=%d", t, key, idx)
	case rockredis.JSONType:
		t, rk, _ := rockredis.VerifDecodeJSONKey(k)
		return fmt.Sprintf("json table=%q key=%q", t, rk)
	case rockredis.ExpTimeType:
		dt, tk, when, _ := rockredis.VerifExpDecodeTimeKey(k)
		return fmt.Sprintf("exp-time type=%d key=%q when=%d", dt, tk, when)
	case rockredis.ExpMetaType:
		dt, tk, _ := rockredis.VerifExpDecodeMetaKey(k)
		return fmt.Sprintf("exp-meta type=%d key=%q", dt, tk)
	}
	return fmt.Sprintf("unknown type byte %d", k[0])
}

// Logical is a canonical, deterministic text form of the user-visible content
// of a store: one line per table counter and per key of every data type.
type Logical struct {
	Lines []string
}

func (d *Logical) String() string { return strings.Join(d.Lines, "\n") + "\n" }

// Diff returns a description of the first differing line ("" if equal).
func (d *Logical) Diff(o *Logical) string {
	n := len(d.Lines)
	if len(o.Lines) < n {
		n = len(o.Lines)
	}
	for i := 0; i < n; i++ {
		if d.Lines[i] != o.Lines[i] {
			return fmt.Sprintf("line %d:\n  A: %s\n  B: %s", i, d.Lines[i], o.Lines[i])
		}
	}
	if len(d.Lines) != len(o.Lines) {
		var extra string
		if len(d.Lines) > n {
			extra = "A has extra: " + d.Lines[n]
		} else {
			extra = "B has extra: " + o.Lines[n]
		}
		return fmt.Sprintf("%d vs %d lines; %s", len(d.Lines), len(o.Lines), extra)
	}
	return ""
}

func q(b []byte) string { return strconv.Quote(string(b)) }

// LogicalDump produces the canonical logical content of the store.
//
// Keys are ENUMERATED from the engine (KV keys, collection meta keys, json
// keys; decoded with the exported codecs), so enumeration does not depend on
// the wall clock. CONTENT is read through the rockredis read API (KVGet,
// HGetAll, LRange, SMembers, ZRange, BitCountV2, JGet, GetTableKeyCount), i.e.
// it is what a reader sees NOW: under wait_compact a key whose expire time is
// before the wall clock reads as absent ("gone"). The stored absolute expire
// time (exp=, unix seconds, 0 = none) is taken from the value header
// (wait_compact) or from the expire index (local_deletion) and does not depend
// on the wall clock. Keep log timestamps + TTLs far away (days) from the real
// time if two dumps taken at different real times are to be compared.
//
// Line forms (all strings Go-quoted):
//
//	counter <table> n=<table key counter>
//	kv <table> <key> exp=<t> val=<value>|gone
//	hash <table> <key> exp=<t> len=<HLEN> {<field>=<value>,...}
//	list <table> <key> exp=<t> len=<LLEN> [<e0>,<e1>,...]
//	set  <table> <key> exp=<t> len=<SCARD> {<m>,...}
//	zset <table> <key> exp=<t> len=<ZCARD> [<member>:<score>,...]   (rank order)
//	bitmap <table> <key> exp=<t> bitcount=<n> {<segment index>:<hex>,...}
//	json <table> <key> val=<document>
//	tableindex <hex key>=<hex value>
//	other <hex key>=<hex value>       (engine key of an unknown type)
//
// Lines are sorted by (kind, table, key); the HLL cache is flushed first.
func (l *Lab) LogicalDump() *Logical {
	l.FlushHLL()
	return LogicalDumpOf(l.store.RockDB)
}

// LogicalDumpOf dumps any open RockDB (HLL cache not flushed).
func LogicalDumpOf(db *rockredis.RockDB) *Logical {
	raw := RawDumpOf(db)
	local := db.VerifExpirationPolicy() == common.LocalDeletion
	var expIdx map[string][]int64
	if local {
		expIdx, _ = db.VerifLocalExpireIndex()
	}
	expOf := func(dt byte, tk []byte) string {
		if local {
			ws := expIdx[string([]byte{dt})+string(tk)]
			if len(ws) == 0 {
				return "0"
			}
			// local deletion never removes an older record when a key gets a new
			// ttl: the earliest one is the one that will delete the key.
			parts := make([]string, len(ws))
			for i, w := range ws {
				parts[i] = strconv.FormatInt(w, 10)
			}
			return strings.Join(parts, "+")
		}
		e, found, err := db.VerifExpireAt(dt, tk)
		if err != nil {
			return "err(" + err.Error() + ")"
		}
		if !found {
			return "?"
		}
		return strconv.FormatInt(e, 10)
	}
	split := func(tk []byte) (string, string) {
		t, rk, err := rockredis.VerifExtractTableFromRedisKey(tk)
		if err != nil {
			return "?" + q(tk), "?"
		}
		return q(t), q(rk)
	}
	errs := func(err error) string {
		if err == nil {
			return ""
		}
		return " ERR(" + err.Error() + ")"
	}
	// current version of bitmap keys, to tell live segments from stale ones
	type bitSeg struct {
		idx int64
		val []byte
	}
	bitSegs := map[string][]bitSeg{} // "table:realkey" + "\x00" + ver -> segments
	for _, kv := range raw {
		if len(kv.K) > 0 && kv.K[0] == rockredis.BitmapType {
			t, vk, idx, err := rockredis.VerifDecodeBitmapKey(kv.K)
			if err != nil {
				continue
			}
			rk, ver, verr := rockredis.VerifDecodeVerKey(vk)
			if verr != nil || local {
				rk, ver = vk, 0
			}
			id := string(rockredis.VerifPackRedisKey(t, rk)) + "\x00" + strconv.FormatInt(ver, 10)
			bitSegs[id] = append(bitSegs[id], bitSeg{idx, kv.V})
		}
	}
	var lines []string
	for _, kv := range raw {
		k := kv.K
		if len(k) == 0 {
			lines = append(lines, fmt.Sprintf("other %x=%x", k, kv.V))
			continue
		}
		switch k[0] {
		case rockredis.TableMetaType:
			t, err := rockredis.VerifDecodeTableMetaKey(k)
			if err != nil {
				lines = append(lines, fmt.Sprintf("other %x=%x", k, kv.V))
				continue
			}
			n, cerr := db.GetTableKeyCount(t)
			lines = append(lines, fmt.Sprintf("counter %s n=%d%s", q(t), n, errs(cerr)))
		case rockredis.TableIndexMetaType:
			lines = append(lines, fmt.Sprintf("tableindex %x=%x", k, kv.V))
		case rockredis.KVType:
			tk, _ := rockredis.VerifDecodeKVKey(k)
			t, rk := split(tk)
			v, err := db.KVGet(tk)
			val := "gone"
			if v != nil {
				val = q(v)
			}
			lines = append(lines, fmt.Sprintf("kv %s %s exp=%s val=%s%s", t, rk, expOf(rockredis.KVType, tk), val, errs(err)))
		case rockredis.HSizeType:
			tk, _ := rockredis.VerifHDecodeSizeKey(k)
			t, rk := split(tk)
			n, _ := db.HLen(tk)
			_, recs, err := db.HGetAll(tk)
			var sb strings.Builder
			for i, r := range recs {
				if i > 0 {
					sb.WriteByte(',')
				}
				sb.WriteString(q(r.Rec.Key) + "=" + q(r.Rec.Value))
				if r.Err != nil {
					sb.WriteString(errs(r.Err))
				}
			}
			lines = append(lines, fmt.Sprintf("hash %s %s exp=%s len=%d {%s}%s", t, rk, expOf(rockredis.HashType, tk), n, sb.String(), errs(err)))
		case rockredis.LMetaType:
			tk, _ := rockredis.VerifLDecodeMetaKey(k)
			t, rk := split(tk)
			n, _ := db.LLen(tk)
			es, err := db.LRange(tk, 0, -1)
			parts := make([]string, len(es))
			for i, e := range es {
				parts[i] = q(e)
			}
			lines = append(lines, fmt.Sprintf("list %s %s exp=%s len=%d [%s]%s", t, rk, expOf(rockredis.ListType, tk), n, strings.Join(parts, ","), errs(err)))
		case rockredis.SSizeType:
			tk, _ := rockredis.VerifSDecodeSizeKey(k)
			t, rk := split(tk)
			n, _ := db.SCard(tk)
			ms, err := db.SMembers(tk)
			parts := make([]string, len(ms))
			for i, e := range ms {
				parts[i] = q(e)
			}
			lines = append(lines, fmt.Sprintf("set %s %s exp=%s len=%d {%s}%s", t, rk, expOf(rockredis.SetType, tk), n, strings.Join(parts, ","), errs(err)))
		case rockredis.ZSizeType:
			tk, _ := rockredis.VerifZDecodeSizeKey(k)
			t, rk := split(tk)
			n, _ := db.ZCard(tk)
			ps, err := db.ZRange(tk, 0, -1)
			parts := make([]string, len(ps))
			for i, p := range ps {
				parts[i] = q(p.Member) + ":" + strconv.FormatFloat(p.Score, 'g', -1, 64)
			}
			lines = append(lines, fmt.Sprintf("zset %s %s exp=%s len=%d [%s]%s", t, rk, expOf(rockredis.ZSetType, tk), n, strings.Join(parts, ","), errs(err)))
		case rockredis.BitmapMetaType:
			tk, _ := rockredis.VerifBitDecodeMetaKey(k)
			t, rk := split(tk)
			n, err := db.BitCountV2(tk, 0, -1)
			ver := int64(0)
			if !local {
				if h, herr := rockredis.VerifDecodeHeader(kv.V); herr == nil {
					ver = h.ValueVersion
				}
			}
			segs := bitSegs[string(tk)+"\x00"+strconv.FormatInt(ver, 10)]
			parts := make([]string, len(segs))
			for i, s := range segs {
				parts[i] = fmt.Sprintf("%d:%x", s.idx, s.val)
			}
			lines = append(lines, fmt.Sprintf("bitmap %s %s exp=%s bitcount=%d {%s}%s", t, rk, expOf(rockredis.BitmapType, tk), n, strings.Join(parts, ","), errs(err)))
		case rockredis.JSONType:
			t, rk, err := rockredis.VerifDecodeJSONKey(k)
			if err != nil {
				lines = append(lines, fmt.Sprintf("other %x=%x", k, kv.V))
				continue
			}
			vs, gerr := db.JGet(rockredis.VerifPackRedisKey(t, rk), []byte(""))
			val := ""
			if len(vs) > 0 {
				val = vs[0]
			}
			lines = append(lines, fmt.Sprintf("json %s %s val=%s%s", q(t), q(rk), strconv.Quote(val), errs(gerr)))
		case rockredis.HashType, rockredis.ListType, rockredis.SetType, rockredis.ZSetType,
			rockredis.ZScoreType, rockredis.BitmapType, rockredis.ExpTimeType, rockredis.ExpMetaType:
			// element / index keys: content comes through the read API above
		default:
			lines = append(lines, fmt.Sprintf("other %x=%x", k, kv.V))
		}
	}
	sort.Strings(lines)
	return &Logical{Lines: lines}
}
