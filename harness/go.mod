module verif/harness

go 1.23

require (
	github.com/absolute8511/redcon v0.9.3
	github.com/absolute8511/redigo v1.4.6
	github.com/anishathalye/porcupine v1.3.0
	github.com/gobwas/glob v0.2.3
	github.com/julienschmidt/httprouter v1.2.0
	github.com/youzan/ZanRedisDB v0.0.0
	github.com/youzan/go-zanredisdb v0.6.3
	go.etcd.io/gofail v0.2.0
	google.golang.org/grpc v1.9.2
)

require (
	github.com/AndreasBriese/bbloom v0.0.0-20190306092124-e2d15f34fcf9 // indirect
	github.com/absolute8511/go-hll v0.0.0-20190228064837-043118556d83 // indirect
	github.com/absolute8511/hyperloglog v0.0.0-20171127080255-5259284545fc // indirect
	github.com/absolute8511/hyperloglog2 v0.1.1 // indirect
	github.com/beorn7/perks v1.0.1 // indirect
	github.com/certifi/gocertifi v0.0.0-20200211180108-c7c1fbc02894 // indirect
	github.com/cespare/xxhash/v2 v2.1.1 // indirect
	github.com/cockroachdb/errors v1.2.4 // indirect
	github.com/cockroachdb/logtags v0.0.0-20190617123548-eb05cc24525f // indirect
	github.com/cockroachdb/pebble v0.0.0-20200616214509-8de6baeca713 // indirect
	github.com/coreos/etcd v3.1.15+incompatible // indirect
	github.com/coreos/go-semver v0.2.0 // indirect
	github.com/coreos/go-systemd v0.0.0-20180511133405-39ca1b05acc7 // indirect
	github.com/coreos/pkg v0.0.0-20180108230652-97fdf19511ea // indirect
	github.com/dgraph-io/badger v0.0.0-20190301165350-b669ca040b3d // indirect
	github.com/dgryski/go-bits v0.0.0-20180113010104-bd8a69a71dc2 // indirect
	github.com/dgryski/go-farm v0.0.0-20190104051053-3adb47b1fb0f // indirect
	github.com/dgryski/go-metro v0.0.0-20180109044635-280f6062b5bc // indirect
	github.com/dustin/go-humanize v1.0.0 // indirect
	github.com/emirpasic/gods v1.12.0 // indirect
	github.com/getsentry/raven-go v0.2.0 // indirect
	github.com/gogo/protobuf v1.3.1 // indirect
	github.com/golang/protobuf v1.3.2 // indirect
	github.com/golang/snappy v0.0.2-0.20190904063534-ff6b7dc882cf // indirect
	github.com/hashicorp/go-immutable-radix v1.3.0 // indirect
	github.com/hashicorp/golang-lru v0.5.4 // indirect
	github.com/matttproud/golang_protobuf_extensions v1.0.1 // indirect
	github.com/pkg/errors v0.9.1 // indirect
	github.com/prometheus/client_golang v1.3.0 // indirect
	github.com/prometheus/client_model v0.1.0 // indirect
	github.com/prometheus/common v0.7.0 // indirect
	github.com/prometheus/procfs v0.0.8 // indirect
	github.com/shirou/gopsutil v0.0.0-20180427012116-c95755e4bcd7 // indirect
	github.com/tidwall/gjson v1.1.0 // indirect
	github.com/tidwall/match v1.0.1 // indirect
	github.com/tidwall/sjson v1.0.0 // indirect
	github.com/twmb/murmur3 v1.1.5 // indirect
	github.com/ugorji/go v0.0.0-20170107133203-ded73eae5db7 // indirect
	github.com/xiang90/probing v0.0.0-20160813154853-07dd2e8dfe18 // indirect
	github.com/youzan/gorocksdb v0.0.0-20201201080653-1a9b5c65c962 // indirect
	go.uber.org/atomic v1.6.0 // indirect
	go.uber.org/multierr v1.5.0 // indirect
	go.uber.org/zap v1.16.0 // indirect
	golang.org/x/exp v0.0.0-20200513190911-00229845015e // indirect
	golang.org/x/net v0.0.0-20191209160850-c0dbc17a3553 // indirect
	golang.org/x/sys v0.0.0-20200519105757-fe76b779f299 // indirect
	golang.org/x/text v0.3.0 // indirect
	google.golang.org/genproto v0.0.0-20180518175338-11a468237815 // indirect
	gopkg.in/natefinch/lumberjack.v2 v2.0.0 // indirect
)

replace github.com/youzan/ZanRedisDB => /repo

replace github.com/youzan/gorocksdb => ../third_party/gorocksdb

replace github.com/ugorji/go => ../third_party/ugorji-go

replace github.com/hashicorp/go-immutable-radix v1.3.0 => github.com/absolute8511/go-immutable-radix v1.3.1-0.20210225131658-3dcbbb786587
