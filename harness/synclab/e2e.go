package synclab

// End-to-end variant of C19 with the REAL sender: a source cluster of one
// voter plus one role_log_syncer learner (RemoteSyncCluster =
// test://127.0.0.1:<grpc port of the destination>) replicating into a
// single-replica destination cluster, each server in its own OS process
// (`--child c19-e2e`), while clients write unique-id commands to the source
// and the driver stops/restarts (gracefully and with kill -9) the learner and
// the destination. Oracle: after settle the destination's logical content of
// every written key equals the source's, every id once.

import (
	"bufio"
	"bytes"
	"encoding/json"
	"fmt"
	"io/ioutil"
	"math/rand"
	"net"
	"net/http"
	"os"
	"os/exec"
	"path/filepath"
	"strconv"
	"strings"
	"sync"
	"sync/atomic"
	"syscall"
	"time"

	"github.com/youzan/ZanRedisDB/common"
	"github.com/youzan/ZanRedisDB/node"
	"github.com/youzan/ZanRedisDB/rockredis"
	"github.com/youzan/ZanRedisDB/server"

	"verif/harness/vc"
)

const e2eNS = "default-0"

type e2eNodeCfg struct {
	Role        string `json:"role"` // "voter" | "learner" | "dest"
	Dir         string `json:"dir"`
	Engine      string `json:"engine"`
	ClusterID   string `json:"cluster_id"`   // transport cluster id
	ClusterName string `json:"cluster_name"` // name reported by the cluster info (source cluster name of the syncer)
	NodeID      uint64 `json:"node_id"`
	RedisPort   int    `json:"redis_port"`
	GrpcPort    int    `json:"grpc_port"`
	HttpPort    int    `json:"http_port"`
	RaftPort    int    `json:"raft_port"`
	CtrlPort    int    `json:"ctrl_port"`
	SnapCount   int    `json:"snap_count"`
	SnapCatchup int    `json:"snap_catchup"`
	// seeds of the raft group (the voter) and where its backups live
	SeedNodeID   uint64 `json:"seed_node_id"`
	SeedRaftPort int    `json:"seed_raft_port"`
	SeedHttpPort int    `json:"seed_http_port"`
	SeedDir      string `json:"seed_dir"`
	DestGrpcPort int    `json:"dest_grpc_port"`
	Restart      bool   `json:"restart"` // data exists on disk
	LogLevel     int32  `json:"log_level"`
}

type e2eNode struct {
	cfg    e2eNodeCfg
	mu     sync.Mutex
	srv    *server.Server
	nsConf *node.NamespaceConfig
}

func (n *e2eNode) nn() *node.NamespaceNode {
	n.mu.Lock()
	defer n.mu.Unlock()
	if n.srv == nil {
		return nil
	}
	return n.srv.GetNamespaceFromFullName(e2eNS)
}

func childE2E(args []string) int {
	if len(args) < 1 {
		return 2
	}
	b, err := ioutil.ReadFile(args[0])
	if err != nil {
		fmt.Fprintln(os.Stderr, err)
		return 2
	}
	var cfg e2eNodeCfg
	if err := json.Unmarshal(b, &cfg); err != nil {
		fmt.Fprintln(os.Stderr, err)
		return 2
	}
	if cfg.Engine != "mem" && cfg.Engine != "pebble" {
		fmt.Fprintln(os.Stderr, "engine not allowed:", cfg.Engine)
		return 2
	}
	os.MkdirAll(cfg.Dir, 0755)
	lf, err := os.OpenFile(filepath.Join(cfg.Dir, "repo.log"), os.O_CREATE|os.O_APPEND|os.O_WRONLY, 0644)
	if err != nil {
		return 2
	}
	setRepoLoggers(cfg.LogLevel, lf)
	node.EnableForTest() // snapshot files of the source are copied locally instead of through an rsync daemon
	if cfg.Role == "dest" {
		node.SetSyncerOnly(true)
	}
	n := &e2eNode{cfg: cfg}
	raftAddr := "http://127.0.0.1:" + strconv.Itoa(cfg.RaftPort)
	if !cfg.Restart {
		ioutil.WriteFile(filepath.Join(cfg.Dir, "myid"), []byte(strconv.FormatUint(cfg.NodeID, 10)), 0644)
	}
	conf := server.ServerConfig{
		ClusterID: cfg.ClusterID, DataDir: cfg.Dir, RedisAPIPort: cfg.RedisPort, GrpcAPIPort: cfg.GrpcPort, HttpAPIPort: cfg.HttpPort,
		LocalRaftAddr: raftAddr, BroadcastAddr: "127.0.0.1", MetricAddr: "127.0.0.1:0", ProfilePort: -1, TickMs: 100, ElectionTick: 5,
	}
	conf.RocksDBOpts.EngineType = cfg.Engine
	ci := &fakeClusterInfo{clusterName: cfg.ClusterName}
	seedID, seedRaft, seedHTTP, seedDir := cfg.NodeID, cfg.RaftPort, cfg.HttpPort, cfg.Dir
	if cfg.Role == "learner" {
		conf.LearnerRole = common.LearnerRoleLogSyncer
		conf.RemoteSyncCluster = "test://127.0.0.1:" + strconv.Itoa(cfg.DestGrpcPort)
		seedID, seedRaft, seedHTTP, seedDir = cfg.SeedNodeID, cfg.SeedRaftPort, cfg.SeedHttpPort, cfg.SeedDir
	}
	ci.snapSyncs = []common.SnapshotSyncInfo{{NodeID: seedID, ReplicaID: seedID, RemoteAddr: "127.0.0.1", HttpAPIPort: strconv.Itoa(seedHTTP), DataRoot: seedDir}}
	nsConf := node.NewNSConfig()
	nsConf.Name = e2eNS
	nsConf.BaseName = "default"
	nsConf.EngType = rockredis.EngType
	nsConf.PartitionNum = 1
	nsConf.SnapCount = cfg.SnapCount
	nsConf.SnapCatchup = cfg.SnapCatchup
	nsConf.Replicator = 1
	nsConf.RaftGroupConf.GroupID = 1000
	nsConf.RaftGroupConf.SeedNodes = []node.ReplicaInfo{{NodeID: seedID, ReplicaID: seedID, RaftAddr: "http://127.0.0.1:" + strconv.Itoa(seedRaft)}}
	nsConf.ExpirationPolicy = common.WaitCompactExpirationPolicy
	nsConf.DataVersion = common.ValueHeaderV1Str
	n.nsConf = nsConf
	srv, err := server.NewServer(conf)
	if err != nil {
		fmt.Fprintln(os.Stderr, err)
		return 2
	}
	srv.GetNsMgr().SetIClusterInfo(ci)
	join := cfg.Restart || cfg.Role == "learner"
	nc := *nsConf
	if _, err := srv.InitKVNamespace(cfg.NodeID, &nc, join); err != nil {
		fmt.Fprintln(os.Stderr, "init namespace:", err)
		return 2
	}
	srv.Start()
	n.srv = srv

	mux := http.NewServeMux()
	reply := func(w http.ResponseWriter, v interface{}) {
		b, _ := json.Marshal(v)
		w.Write(b)
	}
	mux.HandleFunc("/ping", func(w http.ResponseWriter, r *http.Request) {
		nn := n.nn()
		out := map[string]interface{}{"ready": nn != nil}
		if nn != nil {
			out["leader"] = nn.Node.IsLead()
			out["applied"] = nn.Node.GetAppliedIndex()
			st := nn.Node.GetRaftStatus()
			out["commit"] = st.Commit
			out["lead"] = st.Lead
			if cfg.Role == "learner" {
				stats := nn.Node.GetStats("", false)
				out["synced_index"] = stats.InternalStats["synced_index"]
			}
		}
		reply(w, out)
	})
	mux.HandleFunc("/member", func(w http.ResponseWriter, r *http.Request) {
		if nn := n.nn(); nn != nil {
			reply(w, nn.Node.GetLocalMemberInfo())
		} else {
			http.Error(w, "not ready", 503)
		}
	})
	mux.HandleFunc("/addlearner", func(w http.ResponseWriter, r *http.Request) {
		var m common.MemberInfo
		body, _ := ioutil.ReadAll(r.Body)
		if err := json.Unmarshal(body, &m); err != nil {
			http.Error(w, err.Error(), 400)
			return
		}
		nn := n.nn()
		if nn == nil {
			http.Error(w, "not ready", 503)
			return
		}
		if err := nn.Node.ProposeAddLearner(m); err != nil {
			http.Error(w, err.Error(), 500)
			return
		}
		reply(w, "ok")
	})
	mux.HandleFunc("/synced", func(w http.ResponseWriter, r *http.Request) {
		nn := n.nn()
		if nn == nil {
			http.Error(w, "not ready", 503)
			return
		}
		t, i, _ := nn.Node.GetRemoteClusterSyncedRaft(r.URL.Query().Get("cluster"))
		reply(w, map[string]uint64{"term": t, "index": i})
	})
	mux.HandleFunc("/dump", func(w http.ResponseWriter, r *http.Request) {
		nn := n.nn()
		if nn == nil {
			http.Error(w, "not ready", 503)
			return
		}
		var prefixes []string
		body, _ := ioutil.ReadAll(r.Body)
		json.Unmarshal(body, &prefixes)
		out := map[string]srcData{}
		for _, p := range prefixes {
			d, err := readSrcData(nn.Node, p)
			if err != nil {
				http.Error(w, err.Error(), 500)
				return
			}
			out[p] = d
		}
		reply(w, out)
	})
	mux.HandleFunc("/stopns", func(w http.ResponseWriter, r *http.Request) {
		nn := n.nn()
		if nn == nil {
			http.Error(w, "not ready", 503)
			return
		}
		nn.Close()
		for i := 0; i < 2000; i++ {
			if _, still := srv.GetNsMgr().GetNamespaces()[e2eNS]; !still {
				break
			}
			time.Sleep(10 * time.Millisecond)
		}
		reply(w, "ok")
	})
	mux.HandleFunc("/startns", func(w http.ResponseWriter, r *http.Request) {
		nc := *nsConf
		nn, err := srv.InitKVNamespace(cfg.NodeID, &nc, true)
		if err == nil {
			err = nn.Start(false)
		}
		if err != nil {
			http.Error(w, err.Error(), 500)
			return
		}
		reply(w, "ok")
	})
	quit := make(chan struct{})
	mux.HandleFunc("/quit", func(w http.ResponseWriter, r *http.Request) {
		reply(w, "ok")
		close(quit)
	})
	l, err := net.Listen("tcp", "127.0.0.1:"+strconv.Itoa(cfg.CtrlPort))
	if err != nil {
		fmt.Fprintln(os.Stderr, "ctrl listen:", err)
		return 2
	}
	go http.Serve(l, mux)
	<-quit
	srv.Stop()
	return 0
}

// ------------------------------------------------------------ parent side

type e2eProc struct {
	cfg     e2eNodeCfg
	cfgPath string
	cmd     *exec.Cmd
	done    chan struct{}
}

type e2eRun struct {
	c       *vc.Ctx
	name    string
	dir     string
	engine  string
	seed    int64
	procs   map[string]*e2eProc
	events  []string
	mu      sync.Mutex
	counts  map[string]int64
	inconcl string
}

type e2eResult struct {
	Runs []*e2eRunResult
}

type e2eRunResult struct {
	PortCollision bool
	Name          string
	Inconclusive  string
	Violations    []violation
	Counts        map[string]int64
	Events        []string
}

func (r *e2eRun) keepLogs() string {
	dir := filepath.Join(vc.VerifDir, "replays", "C19")
	os.MkdirAll(dir, 0755)
	dst := filepath.Join(dir, fmt.Sprintf("e2elog-%s-seed%d.log", r.name, r.seed))
	var buf []byte
	buf = append(buf, []byte(strings.Join(r.events, "\n")+"\n")...)
	for _, role := range []string{"dest", "learner", "voter"} {
		for _, f := range []string{filepath.Join(r.dir, role+".stdout.log"), filepath.Join(r.dir, role, "repo.log")} {
			if b, err := ioutil.ReadFile(f); err == nil {
				if len(b) > 3<<20 {
					b = b[len(b)-(3<<20):]
				}
				buf = append(buf, []byte("\n===== "+f+" =====\n")...)
				buf = append(buf, b...)
			}
		}
	}
	ioutil.WriteFile(dst, buf, 0644)
	return dst
}

func (r *e2eRun) ev(format string, a ...interface{}) {
	r.mu.Lock()
	r.events = append(r.events, fmt.Sprintf(format, a...))
	r.mu.Unlock()
}

func (r *e2eRun) spawn(role string, restart bool) error {
	p := r.procs[role]
	p.cfg.Restart = restart
	b, _ := json.Marshal(p.cfg)
	p.cfgPath = filepath.Join(r.dir, role+".cfg.json")
	ioutil.WriteFile(p.cfgPath, b, 0644)
	self, err := os.Executable()
	if err != nil {
		return err
	}
	lf, err := os.OpenFile(filepath.Join(r.dir, role+".stdout.log"), os.O_CREATE|os.O_APPEND|os.O_WRONLY, 0644)
	if err != nil {
		return err
	}
	cmd := exec.Command(self, "--child", "c19-e2e", p.cfgPath)
	cmd.Stdout, cmd.Stderr = lf, lf
	cmd.Env = append(os.Environ(), "TMPDIR="+r.c.Scratch)
	cmd.SysProcAttr = &syscall.SysProcAttr{Setpgid: true, Pdeathsig: syscall.SIGKILL}
	if err := cmd.Start(); err != nil {
		lf.Close()
		return err
	}
	procMu.Lock()
	procs = append(procs, cmd)
	procMu.Unlock()
	p.cmd = cmd
	p.done = make(chan struct{})
	go func(done chan struct{}) { cmd.Wait(); lf.Close(); close(done) }(p.done)
	return nil
}

func (r *e2eRun) kill9(role string) {
	p := r.procs[role]
	if p.cmd != nil && p.cmd.Process != nil {
		syscall.Kill(-p.cmd.Process.Pid, syscall.SIGKILL)
		p.cmd.Process.Kill()
		<-p.done
	}
}

func (r *e2eRun) ctrl(role, path string, body []byte, out interface{}) error {
	p := r.procs[role]
	cl := &http.Client{Timeout: 60 * time.Second}
	url := fmt.Sprintf("http://127.0.0.1:%d%s", p.cfg.CtrlPort, path)
	var rsp *http.Response
	var err error
	if body != nil {
		rsp, err = cl.Post(url, "application/json", bytes.NewReader(body))
	} else {
		rsp, err = cl.Get(url)
	}
	if err != nil {
		return err
	}
	defer rsp.Body.Close()
	b, _ := ioutil.ReadAll(rsp.Body)
	if rsp.StatusCode != 200 {
		return fmt.Errorf("%s %s: %d %s", role, path, rsp.StatusCode, strings.TrimSpace(string(b)))
	}
	if out != nil {
		return json.Unmarshal(b, out)
	}
	return nil
}

func (r *e2eRun) waitPing(role string, d time.Duration, cond func(m map[string]interface{}) bool) bool {
	deadline := time.Now().Add(d)
	for time.Now().Before(deadline) {
		var m map[string]interface{}
		if err := r.ctrl(role, "/ping", nil, &m); err == nil && m["ready"] == true && cond(m) {
			return true
		}
		select {
		case <-r.procs[role].done:
			return false
		default:
		}
		time.Sleep(100 * time.Millisecond)
	}
	return false
}

// waitFlowing waits until the destination's synced index is within `within`
// entries of the source voter's applied index (bounded; only paces the faults).
func (r *e2eRun) waitFlowing(srcName string, within uint64, d time.Duration) {
	deadline := time.Now().Add(d)
	for time.Now().Before(deadline) {
		var vm map[string]interface{}
		var sm map[string]uint64
		if r.ctrl("voter", "/ping", nil, &vm) == nil && r.ctrl("dest", "/synced?cluster="+srcName, nil, &sm) == nil {
			if a, ok := vm["applied"].(float64); ok && sm["index"]+within >= uint64(a) {
				return
			}
		}
		time.Sleep(200 * time.Millisecond)
	}
}

// respCmd sends one redis command and reads one reply (simple strings,
// errors, integers and bulk strings are enough for the four commands).
func respCmd(conn net.Conn, br *bufio.Reader, args ...string) (string, error) {
	var sb strings.Builder
	fmt.Fprintf(&sb, "*%d\r\n", len(args))
	for _, a := range args {
		fmt.Fprintf(&sb, "$%d\r\n%s\r\n", len(a), a)
	}
	conn.SetDeadline(time.Now().Add(15 * time.Second))
	if _, err := conn.Write([]byte(sb.String())); err != nil {
		return "", err
	}
	line, err := br.ReadString('\n')
	if err != nil {
		return "", err
	}
	line = strings.TrimRight(line, "\r\n")
	if len(line) == 0 {
		return "", fmt.Errorf("empty reply")
	}
	switch line[0] {
	case '-':
		return "", fmt.Errorf("%s", line[1:])
	case '$':
		n, _ := strconv.Atoi(line[1:])
		if n < 0 {
			return "", nil
		}
		buf := make([]byte, n+2)
		if _, err := ioReadFull(br, buf); err != nil {
			return "", err
		}
		return string(buf[:n]), nil
	default:
		return line[1:], nil
	}
}

func ioReadFull(br *bufio.Reader, buf []byte) (int, error) {
	n := 0
	for n < len(buf) {
		m, err := br.Read(buf[n:])
		n += m
		if err != nil {
			return n, err
		}
	}
	return n, nil
}

func runE2E(c *vc.Ctx) *e2eResult {
	res := &e2eResult{}
	var wg sync.WaitGroup
	var mu sync.Mutex
	for i, eng := range []string{"mem", "pebble"} {
		wg.Add(1)
		go func(i int, eng string) {
			defer wg.Done()
			rr := runE2EOne(c, i, eng)
			for attempt := 2; attempt <= 3 && rr.PortCollision; attempt++ {
				// a process lost the race for a probed port: same plan again with fresh ports
				os.RemoveAll(filepath.Join(c.Scratch, "e2e-"+eng))
				rr = runE2EOne(c, i, eng)
			}
			mu.Lock()
			res.Runs = append(res.Runs, rr)
			mu.Unlock()
		}(i, eng)
	}
	wg.Wait()
	return res
}

func runE2EOne(c *vc.Ctx, idx int, engine string) *e2eRunResult {
	rng := c.Rand(int64(1900 + idx))
	r := &e2eRun{c: c, name: "e2e-" + engine, dir: filepath.Join(c.Scratch, "e2e-"+engine), engine: engine, seed: c.Seed,
		procs: map[string]*e2eProc{}, counts: map[string]int64{}}
	out := &e2eRunResult{Name: r.name, Counts: r.counts}
	os.MkdirAll(r.dir, 0755)
	fail := func(why string) *e2eRunResult {
		for _, role := range []string{"dest", "learner", "voter"} {
			if logHas(filepath.Join(r.dir, role+".stdout.log"), "address already in use") {
				out.PortCollision = true
			}
		}
		out.Inconclusive = why + "; logs kept in " + r.keepLogs()
		out.Events = r.events
		for role := range r.procs {
			r.kill9(role)
		}
		return out
	}
	logLevel := int32(common.LOG_WARN)
	if os.Getenv("VERIF_C19_LOG") == "info" {
		logLevel = common.LOG_INFO
	}
	mk := func(role string, nodeID uint64, clusterID, clusterName string, snap int) (*e2eProc, error) {
		p := &e2eProc{cfg: e2eNodeCfg{Role: role, Dir: filepath.Join(r.dir, role), Engine: engine, ClusterID: clusterID, ClusterName: clusterName,
			NodeID: nodeID, SnapCount: snap, SnapCatchup: 3, LogLevel: logLevel}}
		for _, pp := range []*int{&p.cfg.RedisPort, &p.cfg.GrpcPort, &p.cfg.HttpPort, &p.cfg.RaftPort, &p.cfg.CtrlPort} {
			port, err := freePort()
			if err != nil {
				return nil, err
			}
			*pp = port
		}
		r.procs[role] = p
		return p, nil
	}
	srcName := "c19-e2e-src-" + engine
	dest, err := mk("dest", 1, "c19-e2e-dstc-"+engine, "c19-e2e-dst-"+engine, 20+rng.Intn(20))
	if err != nil {
		return fail(err.Error())
	}
	voter, err := mk("voter", 1, "c19-e2e-srcc-"+engine, srcName, 150+rng.Intn(100))
	if err != nil {
		return fail(err.Error())
	}
	learner, err := mk("learner", 2, "c19-e2e-srcc-"+engine, srcName, 30+rng.Intn(30))
	if err != nil {
		return fail(err.Error())
	}
	learner.cfg.SeedNodeID, learner.cfg.SeedRaftPort, learner.cfg.SeedHttpPort, learner.cfg.SeedDir = 1, voter.cfg.RaftPort, voter.cfg.HttpPort, voter.cfg.Dir
	learner.cfg.DestGrpcPort = dest.cfg.GrpcPort
	// the source keeps enough log behind its snapshot for a learner that was down for a moment;
	// only "learner-down-long" forces the voter to send its snapshot to the learner
	voter.cfg.SnapCatchup = 1500
	isLeader := func(m map[string]interface{}) bool { return m["leader"] == true }
	any := func(m map[string]interface{}) bool { return true }
	for _, role := range []string{"dest", "voter"} {
		if err := r.spawn(role, false); err != nil {
			return fail("spawn " + role + ": " + err.Error())
		}
	}
	if !r.waitPing("dest", 60*time.Second, isLeader) || !r.waitPing("voter", 60*time.Second, isLeader) {
		return fail("destination or source voter did not become leader")
	}
	if err := r.spawn("learner", false); err != nil {
		return fail("spawn learner: " + err.Error())
	}
	if !r.waitPing("learner", 60*time.Second, any) {
		return fail("learner not ready")
	}
	var member json.RawMessage
	if err := r.ctrl("learner", "/member", nil, &member); err != nil {
		return fail("learner member info: " + err.Error())
	}
	if err := r.ctrl("voter", "/addlearner", member, nil); err != nil {
		return fail("add learner: " + err.Error())
	}
	r.ev("source voter + learner + destination running (engine %s); learner added", engine)

	// writers
	const writers = 4
	total := int64(c.Pick(800, 5000))
	var written, acked, failed int64
	stopW := make(chan struct{})
	var wwg sync.WaitGroup
	prefixes := make([]string, writers)
	for w := 0; w < writers; w++ {
		prefixes[w] = fmt.Sprintf("default:c19e2e:w%d-", w)
		wwg.Add(1)
		go func(w int) {
			defer wwg.Done()
			var conn net.Conn
			var br *bufio.Reader
			pre := prefixes[w]
			for i := 1; ; i++ {
				select {
				case <-stopW:
					return
				default:
				}
				if atomic.AddInt64(&written, 1) > total {
					return
				}
				time.Sleep(25 * time.Millisecond) // ~160 write groups/s over all writers: the syncer keeps up unless it is down
				cmds := [][]string{{"rpush", pre + "log", fmt.Sprintf("u%d", i)}, {"incr", pre + "n"}, {"append", pre + "s", fmt.Sprintf("%d,", i)}, {"hincrby", pre + "h", "f", "1"}}
				for _, cmd := range cmds {
					if conn == nil {
						cn, err := net.DialTimeout("tcp", "127.0.0.1:"+strconv.Itoa(voter.cfg.RedisPort), 5*time.Second)
						if err != nil {
							time.Sleep(200 * time.Millisecond)
							atomic.AddInt64(&failed, 1)
							continue
						}
						conn, br = cn, bufio.NewReader(cn)
					}
					if _, err := respCmd(conn, br, cmd...); err != nil {
						atomic.AddInt64(&failed, 1)
						conn.Close()
						conn = nil
					} else {
						atomic.AddInt64(&acked, 1)
					}
				}
			}
		}(w)
	}
	// fault plan (function of seed): after a number of written groups, one action
	actions := []string{"learner-graceful", "dest-graceful", "learner-kill9", "dest-kill9", "learner-down-long", "dest-graceful", "learner-graceful", "dest-kill9"}
	if engine == "pebble" {
		// a learner that needs the voter's snapshot makes the destination install the source's
		// checkpoint through the local-copy fallback, which is only faithful for the one-file mem checkpoints
		actions = []string{"learner-graceful", "dest-graceful", "learner-kill9", "dest-kill9", "dest-graceful", "learner-graceful", "dest-kill9"}
	}
	rng.Shuffle(len(actions), func(i, j int) { actions[i], actions[j] = actions[j], actions[i] })
	nAct := c.Pick(3, len(actions))
	step := total / int64(nAct+1)
	for k := 0; k < nAct; k++ {
		target := step * int64(k+1)
		wd := time.Now().Add(4 * time.Minute)
		for atomic.LoadInt64(&written) < target && time.Now().Before(wd) {
			time.Sleep(50 * time.Millisecond)
		}
		r.waitFlowing(srcName, 3000, 90*time.Second)
		act := actions[k]
		r.ev("after %d write groups: %s", atomic.LoadInt64(&written), act)
		r.counts["e2e_"+act]++
		switch act {
		case "learner-graceful", "dest-graceful":
			role := strings.Split(act, "-")[0]
			if err := r.ctrl(role, "/stopns", nil, nil); err != nil {
				close(stopW)
				wwg.Wait()
				return fail(act + ": " + err.Error())
			}
			time.Sleep(time.Duration(200+rng.Intn(1500)) * time.Millisecond)
			if err := r.ctrl(role, "/startns", nil, nil); err != nil {
				close(stopW)
				wwg.Wait()
				return fail(act + ": " + err.Error())
			}
			r.waitPing(role, 60*time.Second, any)
		case "learner-kill9", "dest-kill9":
			role := strings.Split(act, "-")[0]
			r.kill9(role)
			time.Sleep(time.Duration(200+rng.Intn(1500)) * time.Millisecond)
			if err := r.spawn(role, true); err != nil {
				close(stopW)
				wwg.Wait()
				return fail(act + ": " + err.Error())
			}
			r.waitPing(role, 60*time.Second, any)
		case "learner-down-long":
			r.kill9("learner")
			from := atomic.LoadInt64(&written)
			need := int64((voter.cfg.SnapCatchup+2*voter.cfg.SnapCount)/4 + 50) // enough source entries for the voter to snapshot and compact past the learner
			wd := time.Now().Add(2 * time.Minute)
			for atomic.LoadInt64(&written) < from+need && atomic.LoadInt64(&written) < total && time.Now().Before(wd) {
				time.Sleep(50 * time.Millisecond)
			}
			if err := r.spawn("learner", true); err != nil {
				close(stopW)
				wwg.Wait()
				return fail(act + ": " + err.Error())
			}
			r.waitPing("learner", 60*time.Second, any)
			// let the snapshot dance (transfer + apply on the destination) finish before the next fault
			r.waitFlowing(srcName, 1000, 3*time.Minute)
		}
	}
	wwg.Wait()
	select {
	case <-stopW:
	default:
		close(stopW)
	}
	r.counts["e2e_client_commands_acked"] = acked
	r.counts["e2e_client_commands_failed"] = failed
	// settle: the destination's synced index reaches the source's applied index
	var vm map[string]interface{}
	if !r.waitPing("voter", 30*time.Second, isLeader) || r.ctrl("voter", "/ping", nil, &vm) != nil {
		return fail("source voter lost")
	}
	srcApplied := uint64(vm["applied"].(float64))
	deadline := time.Now().Add(5 * time.Minute)
	var lastIdx uint64
	for {
		var sm map[string]uint64
		if err := r.ctrl("dest", "/synced?cluster="+srcName, nil, &sm); err == nil {
			lastIdx = sm["index"]
			if lastIdx >= srcApplied {
				break
			}
		}
		if time.Now().After(deadline) {
			return fail(fmt.Sprintf("settle not reached: destination synced index %d, source applied %d", lastIdx, srcApplied))
		}
		time.Sleep(300 * time.Millisecond)
	}
	time.Sleep(500 * time.Millisecond)
	pb, _ := json.Marshal(prefixes)
	var srcDump, dstDump map[string]srcData
	if err := r.ctrl("voter", "/dump", pb, &srcDump); err != nil {
		return fail("dump source: " + err.Error())
	}
	if err := r.ctrl("dest", "/dump", pb, &dstDump); err != nil {
		return fail("dump destination: " + err.Error())
	}
	r.counts["e2e_source_applied_index"] = int64(srcApplied)
	r.counts["e2e_keys_compared"] = int64(4 * len(prefixes))
	for _, p := range prefixes {
		s, d := srcDump[p], dstDump[p]
		sig, why := e2eDiff(s, d)
		if sig != "" {
			if sig == "entry-applied-twice" && engine == "pebble" && (r.counts["e2e_dest-graceful"]+r.counts["e2e_dest-kill9"] > 0) {
				sig = "entry-applied-twice/after-restore-from-pebble-checkpoint"
			}
			r.keepLogs()
			holes := 0
			if sig == "entry-skipped" {
				// the destination warns for every index gap INSIDE a received batch
				// ("raft log commit not continued"): many of them mean that the real sender
				// itself sent a batch with holes
				if b, err := ioutil.ReadFile(filepath.Join(r.dir, "dest", "repo.log")); err == nil {
					holes = strings.Count(string(b), "raft log commit not continued")
				}
				if holes >= 20 {
					sig = "entry-skipped/sender-batch-with-holes"
				}
			}
			out.Violations = append(out.Violations, violation{Sig: "e2e/" + sig, Summary: fmt.Sprintf("[%s] keys %s*: %s", r.name, p, why),
				Witness: map[string]interface{}{"engine": engine, "seed": c.Seed, "events": r.events, "source": s, "destination": d, "index_gaps_inside_received_batches": holes,
					"replay_note": "the fault plan is a function of the seed; process timing is re-sampled"}})
			break
		}
	}
	out.Events = r.events
	for _, role := range []string{"learner", "voter", "dest"} {
		r.ctrl(role, "/quit", nil, nil)
	}
	time.Sleep(200 * time.Millisecond)
	for role := range r.procs {
		r.kill9(role)
	}
	return out
}

// e2eDiff compares destination content with source content for one writer's keys.
func e2eDiff(s, d srcData) (string, string) {
	cnt := map[string]int{}
	for _, u := range d.Log {
		cnt[u]++
	}
	for _, u := range s.Log {
		if cnt[u] > 1 {
			return "entry-applied-twice", fmt.Sprintf("destination list contains %s %d times", u, cnt[u])
		}
		if cnt[u] == 0 {
			return "entry-skipped", fmt.Sprintf("destination list lacks %s (source has %d elements, destination %d)", u, len(s.Log), len(d.Log))
		}
	}
	if len(d.Log) != len(s.Log) {
		return "content-differs", fmt.Sprintf("destination list has %d elements, source %d", len(d.Log), len(s.Log))
	}
	for i := range s.Log {
		if s.Log[i] != d.Log[i] {
			return "entry-out-of-order", fmt.Sprintf("list position %d: source %s destination %s", i, s.Log[i], d.Log[i])
		}
	}
	if s.N != d.N {
		if d.N > s.N {
			return "entry-applied-twice", fmt.Sprintf("counter n: source %d destination %d", s.N, d.N)
		}
		return "entry-skipped", fmt.Sprintf("counter n: source %d destination %d", s.N, d.N)
	}
	if s.S != d.S {
		return "content-differs", fmt.Sprintf("string s differs (source len %d, destination len %d)", len(s.S), len(d.S))
	}
	if s.HF != d.HF {
		if d.HF > s.HF {
			return "entry-applied-twice", fmt.Sprintf("hash counter: source %d destination %d", s.HF, d.HF)
		}
		return "entry-skipped", fmt.Sprintf("hash counter: source %d destination %d", s.HF, d.HF)
	}
	return "", ""
}

func absorbE2E(c *vc.Ctx, res *e2eResult) {
	for _, rr := range res.Runs {
		for k, v := range rr.Counts {
			c.Ev.Count(k, v)
		}
		for _, v := range rr.Violations {
			c.Violation(v.Sig, v.Summary, v.Witness)
		}
		if len(rr.Violations) > 0 {
			c.Ev.Eval()
			continue
		}
		if rr.Inconclusive != "" {
			c.Inconclusive(fmt.Sprintf("end-to-end run %s: %s", rr.Name, rr.Inconclusive))
			continue
		}
		c.Ev.Eval()
		c.Ev.Count("e2e_runs_compared", 1)
		c.Ev.Nontrivial("e2e:" + rr.Name + ":" + strings.Join(rr.Events, "|"))
		c.Ev.Sample(5, map[string]interface{}{"end_to_end": rr.Name, "events": rr.Events})
	}
}

var _ = rand.Int
