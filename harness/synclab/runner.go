package synclab

// One scenario = one receiver instance + several faithful-but-unlucky senders
// executing a deterministic plan (function of the scenario seed), observed by
// the exactly-once / monotonicity monitors.

import (
	"context"
	"crypto/sha1"
	"encoding/hex"
	"encoding/json"
	"fmt"
	"math/rand"
	"os"
	"os/exec"
	"path"
	"path/filepath"
	"sort"
	"strconv"
	"strings"
	"sync"
	"sync/atomic"
	"time"

	"github.com/youzan/ZanRedisDB/node"
	"github.com/youzan/ZanRedisDB/rockredis"
	"github.com/youzan/ZanRedisDB/server"
	"github.com/youzan/ZanRedisDB/syncerpb"
	"google.golang.org/grpc"
)

const (
	pathMethod = "method" // Server.ApplyRaftReqs called in-process as a method
	pathGRPC   = "grpc"   // the same handler over a real gRPC connection to the server's grpc port
	pathNode   = "node"   // KVNode.ProposeRawAndWaitFromSyncer, one entry after the other
)

type senderSpec struct {
	Src  int    `json:"src"`
	Path string `json:"path"`
}

type scenarioCfg struct {
	ID      int          `json:"id"`
	Name    string       `json:"name"`
	Seed    int64        `json:"seed"`
	Profile string       `json:"profile"` // "single" | "three"
	Rx      rxConfig     `json:"rx"`
	Sources []srcSpec    `json:"sources"`
	Senders []senderSpec `json:"senders"`
	Steps   int          `json:"steps"`
	// ServerRestarts bounds the number of full Server.Stop/NewServer cycles (each costs ~6 s)
	ServerRestarts int `json:"server_restarts"`
}

type step struct {
	Op      string `json:"op"`
	S       int    `json:"s,omitempty"`
	N       int    `json:"n,omitempty"`
	Fault   string `json:"fault,omitempty"` // "" | "dropreply" | "cancel" | "abandon"
	DelayUs int    `json:"delay_us,omitempty"`
	ToFol   bool   `json:"to_follower,omitempty"`
	Back    int    `json:"back,omitempty"`
	S2      int    `json:"s2,omitempty"`
	N2      int    `json:"n2,omitempty"`
	Fault2  string `json:"fault2,omitempty"`
	R       int    `json:"r,omitempty"`  // replica selector: k-th non-leader (or k-th replica for single)
	NS      string `json:"ns,omitempty"` // full namespace name for namespace-level operations
	Leader  bool   `json:"leader,omitempty"`
}

type event struct {
	Seq    int    `json:"seq"`
	Kind   string `json:"kind"`
	Sender int    `json:"sender,omitempty"`
	Src    string `json:"src,omitempty"`
	From   int    `json:"from,omitempty"`
	To     int    `json:"to,omitempty"`
	Path   string `json:"path,omitempty"`
	Target int    `json:"target"`
	Fault  string `json:"fault,omitempty"`
	Res    string `json:"res,omitempty"`
	Ans    string `json:"answer,omitempty"` // what the receiver answered: "ok" | "error" | "unknown" (cancelled / still running)
	Ref    int    `json:"ref,omitempty"`    // late-answer: seq of the call it belongs to
	PosOrd int    `json:"pos_before,omitempty"`
	Note   string `json:"note,omitempty"`
}

type violation struct {
	Sig     string      `json:"sig"`
	Summary string      `json:"summary"`
	Witness interface{} `json:"witness"`
}

type scenarioResult struct {
	ID           int              `json:"id"`
	Name         string           `json:"name"`
	Inconclusive string           `json:"inconclusive,omitempty"`
	Violations   []violation      `json:"violations,omitempty"`
	Counters     map[string]int64 `json:"counters"`
	Maxes        map[string]int64 `json:"maxes"`
	Fingerprint  string           `json:"fingerprint"`
	Nontrivial   bool             `json:"nontrivial"`
	Sample       interface{}      `json:"sample,omitempty"`
	WallS        float64          `json:"wall_s"`
}

type sender struct {
	id   int
	src  *source
	path string
	next int // next ordinal to send
	// the last attempt that the sender saw fail (injected or genuine)
	failFrom, failTo int
}

type posObs struct {
	epoch int64
	term  uint64
	index uint64
}

type runner struct {
	cfg     scenarioCfg
	rx      *receiver
	srcs    []*source
	senders []*sender
	plan    []step

	mu       sync.Mutex
	events   []event
	seq      int
	viol     []violation
	counters map[string]int64
	maxes    map[string]int64
	lastObs  map[string]posObs // observer|replica|ns|cluster -> last observation
	inconcl  string

	wg       sync.WaitGroup // abandoned in-process calls
	inflight int64
	stopPoll chan struct{}
	pollWG   sync.WaitGroup

	acked                []int              // per source: highest ordinal the receiver acknowledged with OK
	lastQ                []map[string]int   // per replica: ns|cluster -> ordinal at the last quiescent snapshot
	lastQEpoch           []map[string]int64 // per replica: ns -> replica epoch at the last quiescent snapshot of that namespace
	serverRestartsLeft   int
	barrier              uint64
	fpHash               []string
	sawRedeliveryApplied bool
	sawRestartOrSnap     bool
	snapfailDone         map[string]bool
	lastStarted          *replica
	restoreSeen          []int32 // per replica and namespace: a raft snapshot install was observed since the last clean quiescent check
	suspect              *suspectObs
	effMu                sync.RWMutex // held (write) while a remote snapshot replaces the receiver's store
	img                  *receiver    // "source replica image": builds real checkpoints with the content of the source at an ordinal
	imgNext              int
}

type suspectObs struct {
	sig, summary string
	src          *source
	ord          int
	obs          interface{}
}

func (rn *runner) nsIdx(full string) int {
	for i, b := range rn.cfg.Rx.Namespaces {
		if fullNS(b) == full {
			return i
		}
	}
	return 0
}

func (rn *runner) seenSlot(r *replica, full string) *int32 {
	return &rn.restoreSeen[r.idx*len(rn.cfg.Rx.Namespaces)+rn.nsIdx(full)]
}

func (rn *runner) count(k string, n int64) {
	rn.mu.Lock()
	rn.counters[k] += n
	rn.mu.Unlock()
}

func (rn *runner) max(k string, v int64) {
	rn.mu.Lock()
	if cur, ok := rn.maxes[k]; !ok || v > cur {
		rn.maxes[k] = v
	}
	rn.mu.Unlock()
}

func (rn *runner) record(e event) int {
	rn.mu.Lock()
	rn.seq++
	e.Seq = rn.seq
	rn.events = append(rn.events, e)
	rn.mu.Unlock()
	return e.Seq
}

func (rn *runner) violated() bool {
	rn.mu.Lock()
	defer rn.mu.Unlock()
	return len(rn.viol) > 0
}

// violate records a violation with a witness: scenario config (regenerates the
// plan), the delivery sequence recorded so far (calls touching the offending
// ordinal first, then the tail), and the offending observation.
func (rn *runner) violate(sig, summary string, src *source, ord int, obs interface{}) {
	rn.mu.Lock()
	defer rn.mu.Unlock()
	if len(rn.viol) >= 3 {
		return
	}
	var rel []event
	if src != nil && ord > 0 {
		for _, e := range rn.events {
			if e.Kind == "call" && e.Src == src.Name && e.From <= ord && ord <= e.To {
				rel = append(rel, e)
			}
		}
		if len(rel) > 60 {
			rel = rel[len(rel)-60:]
		}
	}
	tail := rn.events
	if len(tail) > 250 {
		tail = tail[len(tail)-250:]
	}
	w := map[string]interface{}{
		"scenario":           rn.cfg,
		"plan":               rn.plan,
		"offending":          obs,
		"calls_with_ordinal": rel,
		"delivery_tail":      append([]event{}, tail...),
		"events_total":       len(rn.events),
		"replay_note":        "re-executes the plan generated from scenario.seed; goroutine timing (concurrent senders, cancel delays, leader transfer offsets) is re-sampled",
	}
	rn.viol = append(rn.viol, violation{Sig: sig, Summary: fmt.Sprintf("[%s] %s", rn.cfg.Name, summary), Witness: w})
}

func (rn *runner) setInconclusive(why string) {
	rn.mu.Lock()
	if rn.inconcl == "" {
		rn.inconcl = why
	}
	rn.mu.Unlock()
}

// observe feeds one (term,index) reading of the synced position into the
// monotonicity monitor. Readings are compared per observer goroutine, replica
// and replica epoch (the in-memory state of a replica is rebuilt from
// snapshot+log after a restart; across restarts the position is compared at
// quiescent points, see quiescentCheck).
func (rn *runner) observe(observer string, r *replica, epoch int64, src *source, term, index uint64) {
	key := observer + "|" + fmt.Sprint(r.idx) + "|" + src.NSBase + "|" + src.Name
	rn.mu.Lock()
	last, ok := rn.lastObs[key]
	rn.lastObs[key] = posObs{epoch, term, index}
	rn.counters["position_polls"]++
	rn.mu.Unlock()
	if ord, ok2 := src.ordinal(index); ok2 {
		rn.max("max_position_ordinal", int64(ord))
	} else {
		rn.violate("synced-position-unknown-index", fmt.Sprintf("replica %d reports synced index %d for %s which no sender ever sent (base %d, K %d)", r.idx, index, src.Name, src.Base, src.K), src, 0,
			map[string]interface{}{"observer": observer, "replica": r.idx, "term": term, "index": index})
		return
	}
	if ok && last.epoch == epoch && (term < last.term || index < last.index) {
		rn.violate("synced-position-regressed",
			fmt.Sprintf("synced position of %s on replica %d went from (%d,%d) to (%d,%d) within one life of the node (observer %s)",
				src.Name, r.idx, last.term, last.index, term, index, observer), src, 0,
			map[string]interface{}{"observer": observer, "replica": r.idx, "before": []uint64{last.term, last.index}, "after": []uint64{term, index}})
	}
}

// ------------------------------------------------------------ delivery

func (rn *runner) pickTarget(ns string, follower bool, k int) *replica {
	lead := rn.rx.waitLeader(ns, 8*time.Second)
	if !follower || len(rn.rx.reps) == 1 {
		if lead != nil {
			return lead
		}
		for _, r := range rn.rx.reps {
			r.mu.RLock()
			up := r.up
			r.mu.RUnlock()
			if up {
				return r
			}
		}
		return rn.rx.reps[0]
	}
	var fols []*replica
	for _, r := range rn.rx.reps {
		if r != lead {
			fols = append(fols, r)
		}
	}
	return fols[k%len(fols)]
}

func (rn *runner) positionOrdinal(r *replica, src *source) int {
	r.mu.RLock()
	defer r.mu.RUnlock()
	nn := r.nsNodeLocked(fullNS(src.NSBase))
	if nn == nil {
		return -1
	}
	_, idx, _ := nn.Node.GetRemoteClusterSyncedRaft(src.Name)
	ord, ok := src.ordinal(idx)
	if !ok {
		return -1
	}
	return ord
}

// rawCall performs one delivery of ordinals [from,to] to replica r over the
// given path and returns "" when the receiver acknowledged all of it.
func (rn *runner) rawCall(ctx context.Context, r *replica, src *source, from, to int, path string) string {
	switch path {
	case pathNode:
		for o := from; o <= to; o++ {
			r.mu.RLock()
			nn := r.nsNodeLocked(fullNS(src.NSBase))
			r.mu.RUnlock()
			if nn == nil {
				return "namespace not ready"
			}
			rl := src.batchReq(o)
			if err := nn.Node.ProposeRawAndWaitFromSyncer(rl, src.term(o), src.index(o), src.ts(o)); err != nil {
				return fmt.Sprintf("ordinal %d: %v", o, err)
			}
		}
		return ""
	default:
		reqs := &syncerpb.RaftReqs{}
		for o := from; o <= to; o++ {
			reqs.RaftLog = append(reqs.RaftLog, src.logData(o))
		}
		var rsp *syncerpb.RpcErr
		var err error
		if path == pathGRPC {
			rsp, err = r.client.ApplyRaftReqs(ctx, reqs, grpc.MaxCallSendMsgSize(256<<20))
		} else {
			r.mu.RLock()
			srv, up := r.srv, r.up
			r.mu.RUnlock()
			if !up {
				return "replica down"
			}
			rsp, err = srv.ApplyRaftReqs(ctx, reqs)
		}
		if err != nil {
			return "rpc error: " + err.Error()
		}
		if rsp != nil && rsp.ErrCode != 0 && rsp.ErrCode != 200 {
			return fmt.Sprintf("err_code %d: %s", rsp.ErrCode, rsp.ErrMsg)
		}
		return ""
	}
}

func (rn *runner) noteAck(s *sender, to int) {
	rn.mu.Lock()
	if to > rn.acked[s.src.idxInRunner(rn)] {
		rn.acked[s.src.idxInRunner(rn)] = to
	}
	rn.mu.Unlock()
}

func (s *source) idxInRunner(rn *runner) int {
	for i, x := range rn.srcs {
		if x == s {
			return i
		}
	}
	return -1
}

// send executes ONE attempt of the sender's next batch. The sender's cursor
// advances only when the sender itself saw an OK (faithful sender: a batch is
// retried until acknowledged, exactly like RemoteLogSender.sendRaftLog).
func (rn *runner) send(s *sender, n int, fault string, delayUs int, toFollower bool, rsel int, observer string) bool {
	if s.next > s.src.K {
		return true
	}
	from := s.next
	to := from + n - 1
	if to > s.src.K {
		to = s.src.K
	}
	if s.path != pathGRPC && fault == "cancel" {
		fault = "abandon"
	}
	ns := fullNS(s.src.NSBase)
	r := rn.pickTarget(ns, toFollower, rsel)
	pos := rn.positionOrdinal(r, s.src)
	ev := event{Kind: "call", Sender: s.id, Src: s.src.Name, From: from, To: to, Path: s.path, Target: r.idx, Fault: fault, PosOrd: pos}
	rn.count("calls", 1)
	rn.count("calls_"+s.path, 1)
	rn.count("entries_offered", int64(to-from+1))
	if toFollower && len(rn.rx.reps) > 1 {
		rn.count("calls_to_follower", 1)
	}
	if pos >= 0 {
		switch {
		case pos >= to:
			rn.count("redelivery_stale_all_applied", 1)
		case pos >= from:
			rn.count("redelivery_overlapping_position", 1)
		}
		if pos >= from {
			rn.mu.Lock()
			rn.sawRedeliveryApplied = true
			rn.mu.Unlock()
		}
	}
	if s.failFrom == from && s.failTo > 0 {
		switch {
		case s.failTo == to:
			rn.count("redelivery_whole_batch_after_failure", 1)
		case to < s.failTo:
			rn.count("redelivery_partial_batch_after_failure", 1)
		default:
			rn.count("redelivery_extended_batch_after_failure", 1)
		}
	}
	atomic.AddInt64(&rn.inflight, 1)
	defer atomic.AddInt64(&rn.inflight, -1)
	ok := false
	switch fault {
	case "cancel": // real cancellation of the gRPC call; the server side handler keeps running
		ctx, cancel := context.WithCancel(context.Background())
		done := make(chan string, 1)
		go func() { done <- rn.rawCall(ctx, r, s.src, from, to, s.path) }()
		select {
		case res := <-done:
			cancel()
			// finished before the cancel fired: the reply is dropped anyway
			if res == "" {
				rn.noteAck(s, to)
			}
			ev.Ans = ansOf(res)
			ev.Res = "injected: reply dropped (call finished before cancel: " + okStr(res) + ")"
		case <-time.After(time.Duration(delayUs) * time.Microsecond):
			cancel()
			res := <-done
			ev.Ans = "unknown"
			ev.Res = "injected: cancelled after " + fmt.Sprint(delayUs) + "us: " + okStr(res)
		}
		rn.count("injected_cancel", 1)
	case "abandon": // the sender gives up waiting (timeout) while the in-process call keeps running
		rn.wg.Add(1)
		atomic.AddInt64(&rn.inflight, 1)
		done := make(chan string, 1)
		seqCh := make(chan int, 1)
		go func() {
			defer rn.wg.Done()
			defer atomic.AddInt64(&rn.inflight, -1)
			res := rn.rawCall(context.Background(), r, s.src, from, to, s.path)
			if res == "" {
				rn.noteAck(s, to)
			}
			done <- res
			if ref := <-seqCh; ref > 0 {
				rn.record(event{Kind: "late-answer", Ref: ref, Sender: s.id, Src: s.src.Name, From: from, To: to, Target: r.idx, Ans: ansOf(res), Res: okStr(res)})
			}
		}()
		late := false
		select {
		case res := <-done:
			ev.Ans = ansOf(res)
			ev.Res = "injected: reply dropped (call finished before timeout: " + okStr(res) + ")"
		case <-time.After(time.Duration(delayUs) * time.Microsecond):
			ev.Ans = "unknown"
			late = true
			ev.Res = "injected: sender timed out after " + fmt.Sprint(delayUs) + "us, call still running"
		}
		defer func(late bool) {
			// executed after the call event got its sequence number (see below)
			if late {
				seqCh <- ev.Seq
			} else {
				seqCh <- 0
			}
		}(late)
		rn.count("injected_abandon", 1)
	case "dropreply":
		res := rn.rawCall(context.Background(), r, s.src, from, to, s.path)
		if res == "" {
			rn.noteAck(s, to)
		}
		ev.Ans = ansOf(res)
		ev.Res = "injected: reply dropped (" + okStr(res) + ")"
		rn.count("injected_dropreply", 1)
	default:
		res := rn.rawCall(context.Background(), r, s.src, from, to, s.path)
		if res == "" {
			ok = true
			rn.noteAck(s, to)
			ev.Res = "ok"
			ev.Ans = "ok"
		} else {
			ev.Res = "error: " + res
			ev.Ans = "error"
			rn.count("genuine_errors", 1)
		}
	}
	ev.Seq = rn.record(ev)
	rn.mu.Lock()
	rn.fpHash = append(rn.fpHash, fmt.Sprintf("%s:%d-%d:%s:%v", s.src.Name, from, to, fault, ok))
	rn.mu.Unlock()
	if ok {
		s.next = to + 1
		s.failFrom, s.failTo = 0, 0
	} else {
		s.failFrom, s.failTo = from, to
	}
	// GetSyncedRaft between calls (in-process method), per source of that namespace
	rn.pollOnce(observer, r, false)
	return ok
}

func ansOf(res string) string {
	if res == "" {
		return "ok"
	}
	return "error"
}

func okStr(res string) string {
	if res == "" {
		return "receiver answered ok"
	}
	return "receiver answered " + res
}

// pollOnce reads GetSyncedRaft for every source cluster on replica r through
// the handler method (in-process) or the gRPC connection.
func (rn *runner) pollOnce(observer string, r *replica, viaGRPC bool) {
	for _, src := range rn.srcs {
		req := &syncerpb.SyncedRaftReq{ClusterName: src.Name, RaftGroupName: fullNS(src.NSBase)}
		e1 := atomic.LoadInt64(&r.epoch)
		var rsp *syncerpb.SyncedRaftRsp
		var err error
		if viaGRPC {
			ctx, cancel := context.WithTimeout(context.Background(), 2*time.Second)
			rsp, err = r.client.GetSyncedRaft(ctx, req)
			cancel()
		} else {
			r.mu.RLock()
			srv, up := r.srv, r.up
			if !up {
				r.mu.RUnlock()
				continue
			}
			rsp, err = srv.GetSyncedRaft(context.Background(), req)
			r.mu.RUnlock()
		}
		e2 := atomic.LoadInt64(&r.epoch)
		if err != nil || rsp == nil || e1 != e2 {
			continue
		}
		rn.observe(observer, r, e1, src, rsp.Term, rsp.Index)
	}
}

// ------------------------------------------------------------ pollers

// pollers: (a) a gRPC GetSyncedRaft poller, (b) an in-process poller that reads
// the position and THEN the effects on the same node object: effects only
// grow while a node lives, so effects read after the position must cover it.
func (rn *runner) startPollers() {
	rn.stopPoll = make(chan struct{})
	rn.pollWG.Add(2)
	go func() {
		defer rn.pollWG.Done()
		i := 0
		for {
			select {
			case <-rn.stopPoll:
				return
			default:
			}
			r := rn.rx.reps[i%len(rn.rx.reps)]
			i++
			rn.pollOnce("grpc-poller", r, true)
			time.Sleep(2 * time.Millisecond)
		}
	}()
	go func() {
		defer rn.pollWG.Done()
		i := 0
		for {
			select {
			case <-rn.stopPoll:
				return
			default:
			}
			r := rn.rx.reps[i%len(rn.rx.reps)]
			src := rn.srcs[(i/len(rn.rx.reps))%len(rn.srcs)]
			i++
			rn.effectSample(r, src)
			if atomic.LoadInt64(&rn.inflight) == 0 {
				time.Sleep(time.Millisecond)
			} else if i%64 == 0 {
				time.Sleep(50 * time.Microsecond)
			}
		}
	}()
}

func (rn *runner) stopPollers() {
	if rn.stopPoll != nil {
		close(rn.stopPoll)
		rn.pollWG.Wait()
		rn.stopPoll = nil
	}
}

func (rn *runner) effectSample(r *replica, src *source) {
	rn.effMu.RLock()
	defer rn.effMu.RUnlock()
	r.mu.RLock()
	defer r.mu.RUnlock()
	nn := r.nsNodeLocked(fullNS(src.NSBase))
	if nn == nil {
		return
	}
	nd := nn.Node
	if nd.IsApplyingSnapshot() {
		if atomic.SwapInt32(rn.seenSlot(r, fullNS(src.NSBase)), 1) == 0 {
			rn.count("raft_snapshot_installs_observed", 1)
		}
		return
	}
	snap1 := nd.GetLastSnapIndex()
	term, idx, _ := nd.GetRemoteClusterSyncedRaft(src.Name)
	ord, ok := src.ordinal(idx)
	if !ok {
		rn.observe("effect-poller", r, atomic.LoadInt64(&r.epoch), src, term, idx)
		return
	}
	var hf, n, ll int64
	var err error
	func() {
		defer func() {
			if rec := recover(); rec != nil {
				err = fmt.Errorf("panic in read handler: %v", rec)
			}
		}()
		pre := src.keyPrefix()
		hf, err = readHF(nd, pre)
		if err != nil {
			return
		}
		var c *recConn
		c, err = readCmd(nd, "get", pre+"n")
		if err != nil {
			return
		}
		if len(c.bulks) > 0 {
			fmt.Sscan(string(c.bulks[0]), &n)
		}
		c, err = readCmd(nd, "llen", pre+"log")
		if err != nil {
			return
		}
		if len(c.ints) > 0 {
			ll = c.ints[0]
		}
	}()
	// a raft snapshot INSTALL replaces the store and the positions (not atomically):
	// the applying flag is set for the whole install and the snapshot index moves
	// at its end, so a sample that overlapped an install is recognised and dropped.
	if err != nil || nd.IsApplyingSnapshot() || nd.GetLastSnapIndex() != snap1 {
		rn.count("effect_samples_discarded", 1)
		return
	}
	rn.count("effect_samples", 1)
	rn.observe("effect-poller", r, atomic.LoadInt64(&r.epoch), src, term, idx)
	if hf < src.cH[ord] || n < src.cN[ord] || ll < src.cLog[ord] {
		rn.suspectf("position-ahead-of-effect",
			fmt.Sprintf("replica %d reported synced ordinal %d of %s, but effects read afterwards on the same node are behind: h.f=%d (need >=%d) n=%d (need >=%d) llen(log)=%d (need >=%d)",
				r.idx, ord, src.Name, hf, src.cH[ord], n, src.cN[ord], ll, src.cLog[ord]), src, ord,
			map[string]interface{}{"replica": r.idx, "position_ordinal": ord, "hf": hf, "n": n, "llen": ll})
	}
}

// suspectf: the poller saw the position ahead of the effects. The driver then
// takes a quiescent snapshot: if entries at or below the position are missing
// for good, the more precise entry-skipped verdict is given by that check;
// otherwise the position was only transiently ahead and this observation is
// the violation.
func (rn *runner) suspectf(sig, summary string, src *source, ord int, obs interface{}) {
	rn.mu.Lock()
	if rn.suspect == nil {
		rn.suspect = &suspectObs{sig, summary, src, ord, obs}
	}
	rn.mu.Unlock()
}

func (rn *runner) resolveSuspect() {
	rn.mu.Lock()
	sp := rn.suspect
	rn.mu.Unlock()
	if sp == nil || rn.violated() {
		return
	}
	rn.quiescentCheck("after the poller saw a position ahead of its effects", false)
	if !rn.violated() {
		rn.violate(sp.sig, sp.summary+" (transient: the effects were complete at the next quiescent point)", sp.src, sp.ord, sp.obs)
	}
}

// ------------------------------------------------------------ quiescent check

type replicaSnap struct {
	Replica int                  `json:"replica"`
	Applied uint64               `json:"applied"`
	Pos     map[string][2]uint64 `json:"pos"` // cluster -> term,index
	Data    map[string]srcData   `json:"-"`
}

// quiescentRead returns, for one namespace, a snapshot of positions and data
// of the running replicas, each taken while provably nothing was being applied
// on that replica: before the read the replica's applied index equals its own
// raft commit index C, after the read its commit index is still C. A replica
// only applies entries up to its own commit index, which never decreases, and
// the applied index is published after an apply batch completed, so no entry
// was applied (or half applied) on that replica during the read. The leader
// must be among the replicas read; a replica that stays behind the leader's
// commit index for more than a grace period is left out (counted).
func (rn *runner) quiescentRead(ns string, wd time.Duration) ([]replicaSnap, string) {
	start := time.Now()
	deadline := start.Add(wd)
	for attempt := 0; ; attempt++ {
		if time.Now().After(deadline) {
			return nil, "no quiescent point reached for " + ns + ": " + rn.raftDiag(ns)
		}
		if attempt > 0 {
			time.Sleep(5 * time.Millisecond)
		}
		lead := rn.rx.leader(ns)
		if lead == nil {
			continue
		}
		snaps, lagging, ok := rn.tryQuiescentRead(ns, lead, time.Since(start) > 4*time.Second)
		if ok {
			rn.max("quiescent_read_attempts_max", int64(attempt+1))
			if lagging > 0 {
				rn.count("replicas_left_out_of_a_check_because_lagging", int64(lagging))
			}
			return snaps, ""
		}
	}
}

func (rn *runner) raftDiag(ns string) string {
	out := ""
	for _, r := range rn.rx.reps {
		r.mu.RLock()
		nn := r.nsNodeLocked(ns)
		if nn == nil {
			out += fmt.Sprintf("[r%d down/not ready up=%v nsUp=%v] ", r.idx, r.up, r.nsUp[ns])
		} else {
			st := nn.Node.GetRaftStatus()
			out += fmt.Sprintf("[r%d id=%d term=%d commit=%d raftApplied=%d lead=%d state=%v nodeApplied=%d applyingSnap=%v] ", r.idx, st.ID, st.Term, st.Commit, st.Applied, st.Lead, st.RaftState, nn.Node.GetAppliedIndex(), nn.Node.IsApplyingSnapshot())
		}
		r.mu.RUnlock()
	}
	return out
}

func (rn *runner) tryQuiescentRead(ns string, lead *replica, allowLagging bool) (out []replicaSnap, lagging int, ok bool) {
	var ups []*replica
	for _, r := range rn.rx.reps {
		r.mu.RLock()
		defer r.mu.RUnlock()
		if nn := r.nsNodeLocked(ns); nn != nil {
			ups = append(ups, r)
		} else if r.up && r.nsUp[ns] {
			return nil, 0, false // starting
		}
	}
	defer func() {
		if rec := recover(); rec != nil {
			out, ok = nil, false
		}
	}()
	commit1 := map[*replica]uint64{}
	var maxCommit uint64
	for _, r := range ups {
		nd := r.nsNodeLocked(ns).Node
		st := nd.GetRaftStatus()
		if st.ID == 0 {
			return nil, 0, false
		}
		commit1[r] = st.Commit
		if st.Commit > maxCommit {
			maxCommit = st.Commit
		}
	}
	var sel []*replica
	for _, r := range ups {
		nd := r.nsNodeLocked(ns).Node
		if commit1[r] != maxCommit {
			if r == lead || !allowLagging {
				return nil, 0, false
			}
			lagging++
			continue
		}
		if nd.GetAppliedIndex() != commit1[r] || nd.IsApplyingSnapshot() {
			return nil, 0, false
		}
		sel = append(sel, r)
	}
	leadIn := false
	for _, r := range sel {
		if r == lead {
			leadIn = true
		}
	}
	if !leadIn {
		return nil, 0, false
	}
	for _, r := range sel {
		nd := r.nsNodeLocked(ns).Node
		rs := replicaSnap{Replica: r.idx, Applied: commit1[r], Pos: map[string][2]uint64{}, Data: map[string]srcData{}}
		for _, src := range rn.srcs {
			if fullNS(src.NSBase) != ns {
				continue
			}
			t, i, _ := nd.GetRemoteClusterSyncedRaft(src.Name)
			rs.Pos[src.Name] = [2]uint64{t, i}
			d, err := readSrcData(nd, src.keyPrefix())
			if err != nil {
				return nil, 0, false
			}
			rs.Data[src.Name] = d
		}
		out = append(out, rs)
	}
	for _, r := range sel {
		nd := r.nsNodeLocked(ns).Node
		st := nd.GetRaftStatus()
		if st.ID == 0 || st.Commit != commit1[r] || nd.GetAppliedIndex() != commit1[r] || nd.IsApplyingSnapshot() {
			return nil, 0, false
		}
	}
	return out, lagging, true
}

// quiescentCheck waits for the outstanding in-process calls, takes a quiescent
// snapshot per namespace and runs oracles (1), (3), (4).
func (rn *runner) quiescentCheck(label string, final bool) {
	rn.wg.Wait()
	for full := range rn.rx.nsConfs {
		snaps, why := rn.quiescentRead(full, 90*time.Second)
		if why != "" {
			rn.setInconclusive(label + ": " + why)
			return
		}
		rn.count("quiescent_comparisons", int64(len(snaps)))
		ev := event{Kind: "check", Note: label + " " + full}
		for _, rs := range snaps {
			r := rn.rx.reps[rs.Replica]
			epoch := atomic.LoadInt64(&r.epoch)
			for si, src := range rn.srcs {
				if fullNS(src.NSBase) != full {
					continue
				}
				tp := rs.Pos[src.Name]
				ord, ok := src.ordinal(tp[1])
				obs := map[string]interface{}{"check": label, "replica": rs.Replica, "cluster": src.Name, "position": tp, "data": shortData(rs.Data[src.Name])}
				if !ok {
					rn.violate("synced-position-unknown-index", fmt.Sprintf("replica %d: synced index %d of %s was never sent", rs.Replica, tp[1], src.Name), src, 0, obs)
					continue
				}
				ev.Note += fmt.Sprintf(" r%d:%s=%d", rs.Replica, src.Name, ord)
				obs["position_ordinal"] = ord
				if ord > 0 && tp[0] != src.term(ord) {
					rn.violate("synced-position-wrong-term", fmt.Sprintf("replica %d: synced position of %s is (%d,%d) but the source entry at that index has term %d", rs.Replica, src.Name, tp[0], tp[1], src.term(ord)), src, ord, obs)
				}
				if sig, why := src.diff(ord, rs.Data[src.Name]); sig != "" {
					if sig == "entry-skipped" {
						sig = rn.classifySkip(src, ord, rs.Data[src.Name], obs)
					}
					if sig == "entry-applied-twice" && rn.cfg.Rx.Engine == "pebble" &&
						(rn.lastQEpoch[rs.Replica][full] != epoch || atomic.LoadInt32(rn.seenSlot(r, full)) == 1) {
						// the replica rebuilt its store from a pebble checkpoint (restart or raft
						// snapshot install) since its last clean quiescent point
						sig = "entry-applied-twice/after-restore-from-pebble-checkpoint"
						obs["note"] = "replica restored its store from a pebble checkpoint since its last clean quiescent point (restart or raft snapshot install)"
					}
					rn.violate(sig, fmt.Sprintf("replica %d, cluster %s at quiescent point %q: %s", rs.Replica, src.Name, label, why), src, firstBadOrdinal(src, ord, rs.Data[src.Name]), obs)
				}
				// oracle (4) + monotonicity across quiescent points
				key := full + "|" + src.Name
				if prev, ok := rn.lastQ[rs.Replica][key]; ok && ord < prev {
					sig := "synced-position-regressed"
					if rn.lastQEpoch[rs.Replica][full] != epoch {
						sig = "position-lost-after-restart"
					}
					obs["previous_quiescent_ordinal"] = prev
					rn.violate(sig, fmt.Sprintf("replica %d: synced position of %s was ordinal %d at the previous quiescent point and is %d now", rs.Replica, src.Name, prev, ord), src, prev, obs)
				}
				rn.lastQ[rs.Replica][key] = ord
				rn.mu.Lock()
				ack := rn.acked[si]
				rn.mu.Unlock()
				if ord < ack {
					obs["acked_ordinal"] = ack
					rn.violate("acked-entry-lost", fmt.Sprintf("replica %d: the receiver acknowledged %s up to ordinal %d but its synced position at the quiescent point is %d", rs.Replica, src.Name, ack, ord), src, ack, obs)
				}
				if final && ord != src.K {
					rn.setInconclusive(fmt.Sprintf("final drain did not reach the end: %s at %d of %d on replica %d", src.Name, ord, src.K, rs.Replica))
				}
			}
			rn.lastQEpoch[rs.Replica][full] = epoch
			atomic.StoreInt32(rn.seenSlot(r, full), 0)
		}
		// replicas of one group must agree (they applied the same log prefix)
		for i := 1; i < len(snaps); i++ {
			for name, tp := range snaps[0].Pos {
				if snaps[i].Pos[name] != tp {
					rn.violate("replica-position-divergence", fmt.Sprintf("cluster %s: replica %d has position %v, replica %d has %v at the same applied index %d",
						name, snaps[0].Replica, tp, snaps[i].Replica, snaps[i].Pos[name], snaps[0].Applied), nil, 0,
						map[string]interface{}{"check": label, "a": snaps[0], "b": snaps[i]})
				}
			}
		}
		rn.record(ev)
	}
}

// firstBadOrdinal returns the lowest ordinal whose identifiable effect (list
// element u_o or id o in the string s) is duplicated, missing at or below the
// position p, or present beyond it; 0 if only the anonymous counters differ.
func firstBadOrdinal(src *source, p int, got srcData) int {
	seenL := map[string]int{}
	for _, u := range got.Log {
		seenL[u]++
	}
	seenS := map[string]int{}
	for _, x := range strings.Split(strings.TrimSuffix(got.S, ","), ",") {
		if x != "" {
			seenS[x]++
		}
	}
	for o := 1; o <= src.K; o++ {
		for _, op := range src.ops(o) {
			c := -1
			switch op {
			case 0:
				c = seenL[src.uid(o)]
			case 2:
				c = seenS[strconv.Itoa(o)]
			}
			if c < 0 {
				continue
			}
			if c > 1 || (c == 0 && o <= p) || (c == 1 && o > p) {
				return o
			}
		}
	}
	return 0
}

// classifySkip refines entry-skipped by the delivery history of the first
// missing ordinal: if every call that offered it before the position passed it
// was answered with an error (or cut), while a later entry of such a call was
// applied, the receiver applied the tail of a pipelined batch whose head it
// had dropped.
func (rn *runner) classifySkip(src *source, pos int, got srcData, obs map[string]interface{}) string {
	m := firstBadOrdinal(src, pos, got)
	if m == 0 {
		return "entry-skipped"
	}
	// g: the first ordinal after the gap whose identifiable effect is present
	seenL := map[string]bool{}
	for _, u := range got.Log {
		seenL[u] = true
	}
	seenS := map[string]bool{}
	for _, x := range strings.Split(strings.TrimSuffix(got.S, ","), ",") {
		seenS[x] = true
	}
	g := 0
	for o := m + 1; o <= pos && g == 0; o++ {
		for _, op := range src.ops(o) {
			if (op == 0 && seenL[src.uid(o)]) || (op == 2 && seenS[strconv.Itoa(o)]) {
				g = o
			}
		}
	}
	if g == 0 {
		return "entry-skipped"
	}
	rn.mu.Lock()
	defer rn.mu.Unlock()
	late := map[int]string{}
	for _, e := range rn.events {
		if e.Kind == "late-answer" {
			late[e.Ref] = e.Ans
		}
	}
	for _, e := range rn.events {
		if e.Kind != "call" || e.Src != src.Name || e.From > m || m > e.To {
			continue
		}
		ans := e.Ans
		if a, ok := late[e.Seq]; ok {
			ans = a
		}
		if ans == "ok" {
			// the first answer "ok" for a call that carried m: everything before it failed or is unknown
			break
		}
		if e.Path != pathNode && e.To >= g {
			// one pipelined call, not acknowledged, carried both the missing ordinal m and
			// the applied ordinal g > m
			obs["first_missing_ordinal"] = m
			obs["first_applied_ordinal_after_the_gap"] = g
			obs["pipelined_call_not_acknowledged"] = e
			return "entry-skipped/tail-of-unacknowledged-pipelined-batch-applied"
		}
	}
	return "entry-skipped"
}

// ------------------------------------------------------------ fault steps

func (rn *runner) selectReplica(ns string, leader bool, k int) *replica {
	lead := rn.rx.waitLeader(ns, 10*time.Second)
	if leader || len(rn.rx.reps) == 1 {
		if lead != nil {
			return lead
		}
		return rn.rx.reps[0]
	}
	var fols []*replica
	for _, r := range rn.rx.reps {
		if r != lead {
			fols = append(fols, r)
		}
	}
	return fols[k%len(fols)]
}

func (rn *runner) restartNS(ns string, leader bool, k int, quiesceFirst bool) {
	r := rn.selectReplica(ns, leader, k)
	if quiesceFirst {
		rn.quiescentCheck("before restart of "+ns+" on replica "+fmt.Sprint(r.idx), false)
	}
	rn.record(event{Kind: "restart-ns", Target: r.idx, Note: ns})
	rn.count("restarts_namespace", 1)
	rn.mu.Lock()
	rn.sawRestartOrSnap = true
	rn.fpHash = append(rn.fpHash, "restart-ns")
	rn.mu.Unlock()
	pre := map[string]int{}
	for _, src := range rn.srcs {
		if fullNS(src.NSBase) == ns {
			pre[src.Name] = rn.positionOrdinal(r, src)
		}
	}
	if err := rn.rx.stopNS(r, ns); err != nil {
		rn.setInconclusive("stop namespace: " + err.Error())
		return
	}
	if err := rn.rx.startNS(r, ns); err != nil {
		rn.setInconclusive("start namespace: " + err.Error())
		return
	}
	// what a sender that asks right after the restart would see (evidence only)
	for _, src := range rn.srcs {
		if fullNS(src.NSBase) == ns {
			if now := rn.positionOrdinal(r, src); now >= 0 && pre[src.Name] >= 0 && now < pre[src.Name] {
				rn.count("transient_position_below_prestop_right_after_restart", 1)
			}
		}
	}
	if rn.rx.waitLeader(ns, 75*time.Second) == nil {
		rn.setInconclusive("no leader after restart of " + ns)
		return
	}
	if quiesceFirst {
		rn.quiescentCheck("after restart of "+ns+" on replica "+fmt.Sprint(r.idx), false)
	}
}

func (rn *runner) restartServer() {
	if rn.serverRestartsLeft <= 0 || len(rn.rx.reps) != 1 {
		return
	}
	rn.serverRestartsLeft--
	r := rn.rx.reps[0]
	rn.quiescentCheck("before server restart", false)
	rn.record(event{Kind: "restart-server", Target: r.idx})
	rn.count("restarts_server", 1)
	rn.mu.Lock()
	rn.sawRestartOrSnap = true
	rn.fpHash = append(rn.fpHash, "restart-server")
	rn.mu.Unlock()
	rn.stopPollers()
	if r.conn != nil {
		r.conn.Close()
	}
	rn.rx.stopServer(r)
	// fresh ports: the old listeners are closed asynchronously by the server
	for _, pp := range []*int{&r.redisPort, &r.grpcPort, &r.httpPort} {
		p, err := freePort()
		if err != nil {
			rn.setInconclusive("no free port")
			return
		}
		*pp = p
	}
	if err := rn.rx.startServer(r, false); err != nil {
		rn.setInconclusive("server restart failed: " + err.Error())
		return
	}
	if err := rn.rx.dial(r); err != nil {
		rn.setInconclusive("dial after restart: " + err.Error())
		return
	}
	rn.startPollers()
	for full := range rn.rx.nsConfs {
		if rn.rx.waitLeader(full, 30*time.Second) == nil {
			rn.setInconclusive("no leader after server restart")
			return
		}
	}
	rn.quiescentCheck("after server restart", false)
}

func (rn *runner) transfer(ns string, k int) {
	if len(rn.rx.reps) < 2 {
		return
	}
	lead := rn.rx.waitLeader(ns, 10*time.Second)
	if lead == nil {
		return
	}
	var cands []*replica
	for _, r := range rn.rx.reps {
		r.mu.RLock()
		ok := r != lead && r.nsNodeLocked(ns) != nil
		r.mu.RUnlock()
		if ok {
			cands = append(cands, r)
		}
	}
	if len(cands) == 0 {
		return
	}
	rn.transferFromTo(ns, lead, cands[k%len(cands)])
}

func (rn *runner) transferTo(ns string, to *replica) {
	lead := rn.rx.waitLeader(ns, 10*time.Second)
	if lead == nil || lead == to {
		return
	}
	to.mu.RLock()
	ok := to.nsNodeLocked(ns) != nil
	to.mu.RUnlock()
	if ok {
		rn.transferFromTo(ns, lead, to)
	}
}

func (rn *runner) transferFromTo(ns string, lead, to *replica) {
	lead.mu.RLock()
	nn := lead.nsNodeLocked(ns)
	lead.mu.RUnlock()
	if nn == nil {
		return
	}
	err := nn.TransferMyLeader(to.id, to.id)
	res := "ok"
	if err != nil {
		res = err.Error()
	} else {
		rn.count("leader_transfers_done", 1)
	}
	rn.count("leader_transfers_requested", 1)
	rn.record(event{Kind: "transfer-leader", Target: to.idx, Note: fmt.Sprintf("%s from replica %d", ns, lead.idx), Res: res})
	rn.mu.Lock()
	rn.fpHash = append(rn.fpHash, "transfer")
	rn.mu.Unlock()
}

func (rn *runner) backup(ns string) {
	lead := rn.rx.waitLeader(ns, 10*time.Second)
	if lead == nil {
		return
	}
	lead.mu.RLock()
	nn := lead.nsNodeLocked(ns)
	lead.mu.RUnlock()
	if nn == nil {
		return
	}
	nn.Node.BackupDB(false)
	rn.count("forced_backups", 1)
	rn.record(event{Kind: "backup", Target: lead.idx, Note: ns})
}

// snapFail plays the sender's remote-snapshot dance (NotifyTransferSnap,
// status polling, NotifyApplySnap) for a snapshot of the source that is AHEAD
// of the receiver and whose files cannot be fetched (the source path does not
// exist). The receiver must answer and must leave the synced position alone,
// so that the sender's later normal replay is not filtered. (A transfer that
// succeeds cannot be played faithfully here: it needs the source's rsync
// daemon; the local-copy fallback merges into a reused old checkpoint.)
func (rn *runner) snapFail(s *sender, ahead int) {
	src := s.src
	ns := fullNS(src.NSBase)
	if rn.snapfailDone[ns+"|"+src.Name] {
		return
	}
	o := rn.frontier(src) + ahead
	if o > src.K {
		return
	}
	lead := rn.rx.waitLeader(ns, 10*time.Second)
	if lead == nil {
		return
	}
	rn.snapfailDone[ns+"|"+src.Name] = true
	lead.mu.RLock()
	srv, up := lead.srv, lead.up
	lead.mu.RUnlock()
	if !up {
		return
	}
	req := &syncerpb.RaftApplySnapReq{ClusterName: src.Name, RaftGroupName: ns, Term: src.term(o), Index: src.index(o),
		SyncAddr: "", SyncPath: rn.rx.dir + "/no-such-source-backup"}
	stReq := &syncerpb.RaftApplySnapStatusReq{ClusterName: src.Name, RaftGroupName: ns, Term: src.term(o), Index: src.index(o)}
	stop := make(chan struct{})
	var pwg sync.WaitGroup
	pwg.Add(1)
	go func() { // the sender polls the status while the receiver works on the transfer
		defer pwg.Done()
		for {
			select {
			case <-stop:
				return
			default:
			}
			srv.GetApplySnapStatus(context.Background(), stReq)
			time.Sleep(100 * time.Microsecond)
		}
	}()
	r1, e1 := srv.NotifyTransferSnap(context.Background(), req)
	req2 := *req
	r2, e2 := srv.NotifyApplySnap(context.Background(), &req2)
	close(stop)
	pwg.Wait()
	st, _ := srv.GetApplySnapStatus(context.Background(), stReq)
	rn.count("failed_remote_snapshot_attempts", 1)
	rn.record(event{Kind: "remote-snapshot-that-cannot-be-fetched", Src: src.Name, From: o, To: o, Target: lead.idx,
		Res: fmt.Sprintf("transfer: %v %v; apply: %v %v; status: %v", r1, e1, r2, e2, st)})
}

// ------------------------------------------------------------ remote snapshot: transfer ok, first apply fails, retry

// imageAt builds a real checkpoint whose content is the source's content at
// ordinal o (a second real single-replica server of the same engine is fed
// the entries 1..o once, in order, and forced to back up) and stages it the
// way the source node would offer it: <stage>/rocksdb_backup/<term(o)-index(o)>.
func (rn *runner) imageAt(src *source, o int) (string, error) {
	ns := fullNS(src.NSBase)
	if rn.img == nil {
		img, err := newReceiver(rn.cfg.Name+"-img", rn.rx.dir+"-img", rxConfig{Engine: rn.cfg.Rx.Engine, Replicas: 1, SnapCount: 5, SnapCatchup: 2, Namespaces: []string{src.NSBase}})
		if err != nil {
			return "", err
		}
		if err := img.start(); err != nil {
			return "", err
		}
		rn.img = img
		rn.imgNext = 1
		if img.waitLeader(ns, 90*time.Second) == nil {
			return "", fmt.Errorf("image server has no leader")
		}
	}
	r := rn.img.reps[0]
	deadline := time.Now().Add(60 * time.Second)
	for rn.imgNext <= o {
		to := rn.imgNext + 63
		if to > o {
			to = o
		}
		if res := rn.rawCall(context.Background(), r, src, rn.imgNext, to, pathMethod); res != "" {
			if time.Now().After(deadline) {
				return "", fmt.Errorf("feeding the image server failed: %s", res)
			}
			time.Sleep(100 * time.Millisecond)
			continue
		}
		rn.imgNext = to + 1
	}
	r.mu.RLock()
	nn := r.nsNodeLocked(ns)
	r.mu.RUnlock()
	if nn == nil {
		return "", fmt.Errorf("image namespace not ready")
	}
	if _, idx, _ := nn.Node.GetRemoteClusterSyncedRaft(src.Name); idx != src.index(o) {
		return "", fmt.Errorf("image server is at source index %d, want %d", idx, src.index(o))
	}
	a0 := nn.Node.GetAppliedIndex()
	backupDir := rockredis.GetBackupDir(path.Join(r.dir, ns))
	var ck string
	for wd := time.Now().Add(60 * time.Second); ck == "" && time.Now().Before(wd); {
		nn.Node.BackupDB(false)
		for i := 0; i < 20 && ck == ""; i++ {
			dirs, _ := filepath.Glob(path.Join(backupDir, "*-*"))
			for _, d := range dirs {
				var t, i uint64
				if n, err := fmt.Sscanf(filepath.Base(d), "%016x-%016x", &t, &i); err == nil && n == 2 && i >= a0 {
					if _, err := os.Stat(path.Join(d, "mem.dat")); err == nil || rn.cfg.Rx.Engine != "mem" {
						ck = d
					}
				}
			}
			if ck == "" {
				time.Sleep(100 * time.Millisecond)
			}
		}
	}
	if ck == "" {
		return "", fmt.Errorf("the image server produced no checkpoint at or after index %d", a0)
	}
	stage := path.Join(rn.rx.dir+"-stage", fmt.Sprintf("o%d", o))
	dst := path.Join(rockredis.GetBackupDir(stage), rockredis.GetCheckpointDir(src.term(o), src.index(o)))
	os.RemoveAll(dst)
	os.MkdirAll(path.Dir(dst), 0755)
	if out, err := exec.Command("cp", "-rp", ck, dst).CombinedOutput(); err != nil {
		return "", fmt.Errorf("staging the checkpoint: %v %s", err, out)
	}
	return stage, nil
}

// shipOnce is one round of what the real sender does to ship a snapshot:
// NotifyTransferSnap, poll the status, NotifyApplySnap, poll the status.
func (rn *runner) shipOnce(srv *server.Server, src *source, o int, stage string, faultBeforeApply func()) (syncerpb.RaftApplySnapStatus, string) {
	ns := fullNS(src.NSBase)
	req := &syncerpb.RaftApplySnapReq{ClusterName: src.Name, RaftGroupName: ns, Term: src.term(o), Index: src.index(o), SyncAddr: "", SyncPath: stage}
	stReq := &syncerpb.RaftApplySnapStatusReq{ClusterName: src.Name, RaftGroupName: ns, Term: src.term(o), Index: src.index(o)}
	wait := func(wanted ...syncerpb.RaftApplySnapStatus) (syncerpb.RaftApplySnapStatus, bool) {
		var last syncerpb.RaftApplySnapStatus
		for wd := time.Now().Add(40 * time.Second); time.Now().Before(wd); {
			if rsp, err := srv.GetApplySnapStatus(context.Background(), stReq); err == nil {
				last = rsp.Status
				for _, w := range wanted {
					if last == w {
						return last, true
					}
				}
			}
			time.Sleep(20 * time.Millisecond)
		}
		return last, false
	}
	rpcErr, err := srv.NotifyTransferSnap(context.Background(), req)
	if err != nil || (rpcErr != nil && rpcErr.ErrCode != 0) {
		return syncerpb.ApplyUnknown, fmt.Sprintf("notify transfer: %v %v", rpcErr, err)
	}
	st, ok := wait(syncerpb.ApplyTransferSuccess, syncerpb.ApplySuccess, syncerpb.ApplyFailed)
	if !ok {
		return st, "transfer status not reached"
	}
	if st != syncerpb.ApplyTransferSuccess {
		return st, ""
	}
	if faultBeforeApply != nil {
		faultBeforeApply()
	}
	req2 := &syncerpb.RaftApplySnapReq{ClusterName: src.Name, RaftGroupName: ns, Term: src.term(o), Index: src.index(o)}
	if _, err := srv.NotifyApplySnap(context.Background(), req2); err != nil {
		return st, "notify apply: " + err.Error()
	}
	st, ok = wait(syncerpb.ApplySuccess, syncerpb.ApplyFailed)
	if !ok {
		return st, "apply status not reached"
	}
	return st, ""
}

// snapShip: the source compacted its log, so the sender ships its snapshot at
// an ordinal ahead of the receiver. The transfer succeeds, then the
// transferred backup is lost before the apply entry runs: the apply fails and
// the position must stay where it was (quiescent check). The sender retries
// the whole shipping, undisturbed; afterwards the receiver must hold exactly
// the source's content at the snapshot ordinal, and the log stream continues.
func (rn *runner) snapShip(ahead int) {
	if len(rn.rx.reps) != 1 {
		return
	}
	src := rn.srcs[0]
	ns := fullNS(src.NSBase)
	rn.quiescentCheck("before shipping a remote snapshot", false)
	if rn.violated() || rn.inconcl != "" {
		return
	}
	r := rn.rx.reps[0]
	pos := rn.positionOrdinal(r, src)
	if f := rn.frontier(src) - 1; f > pos {
		pos = f
	}
	o := pos + ahead
	if pos < 0 || o > src.K-20 {
		return
	}
	stage, err := rn.imageAt(src, o)
	if err != nil {
		rn.setInconclusive("snapshot image: " + err.Error())
		return
	}
	r.mu.RLock()
	srv, up := r.srv, r.up
	r.mu.RUnlock()
	if !up {
		return
	}
	remote := path.Join(rockredis.GetBackupDirForRemote(path.Join(r.dir, ns)), rockredis.GetCheckpointDir(src.term(o), src.index(o)))
	lost := false
	rn.effMu.Lock()
	st, why := rn.shipOnce(srv, src, o, stage, func() {
		if _, err := os.Stat(remote); err == nil {
			os.RemoveAll(remote)
			lost = true
		}
	})
	rn.effMu.Unlock()
	rn.count("remote_snapshot_apply_attempts_with_lost_backup", 1)
	rn.record(event{Kind: "remote-snapshot-shipped-backup-lost-before-apply", Src: src.Name, From: o, To: o, Target: r.idx,
		Res: fmt.Sprintf("status reported to the sender: %v %s (transferred backup removed: %v)", st, why, lost)})
	rn.mu.Lock()
	rn.fpHash = append(rn.fpHash, "snapship")
	rn.mu.Unlock()
	// the failed apply must not have moved the position: data == model(position)
	rn.quiescentCheck("after a remote snapshot apply that failed", false)
	if rn.violated() || rn.inconcl != "" {
		return
	}
	if lost && st == syncerpb.ApplyFailed {
		rn.count("remote_snapshot_apply_failed_as_intended", 1)
	}
	for i := 0; i < 3 && st != syncerpb.ApplySuccess; i++ {
		rn.effMu.Lock()
		st, why = rn.shipOnce(srv, src, o, stage, nil)
		rn.effMu.Unlock()
		rn.record(event{Kind: "remote-snapshot-shipped-again", Src: src.Name, From: o, To: o, Target: r.idx, Res: fmt.Sprintf("status: %v %s", st, why)})
	}
	if st != syncerpb.ApplySuccess {
		rn.setInconclusive(fmt.Sprintf("retry of the remote snapshot did not succeed: %v %s", st, why))
		return
	}
	rn.count("remote_snapshots_applied", 1)
	rn.mu.Lock()
	rn.sawRestartOrSnap = true
	rn.mu.Unlock()
	// the senders continue after the snapshot, like a learner that restored it
	for _, s := range rn.senders {
		if s.src == src {
			s.next = o + 1
			s.failFrom, s.failTo = 0, 0
		}
	}
	rn.quiescentCheck("after the retried remote snapshot was applied", false)
}

// ------------------------------------------------------------ plan

func genPlan(cfg scenarioCfg) []step {
	rng := rand.New(rand.NewSource(cfg.Seed*7919 + 13))
	var plan []step
	three := cfg.Rx.Replicas > 1
	xfer := cfg.Profile == "three-xfer" // leader transfers also in the middle of a batch
	nsList := make([]string, 0, len(cfg.Rx.Namespaces))
	for _, b := range cfg.Rx.Namespaces {
		nsList = append(nsList, fullNS(b))
	}
	pickN := func() int {
		switch rng.Intn(10) {
		case 0:
			return 1
		case 1, 2, 3:
			return 2 + rng.Intn(4)
		case 4, 5, 6:
			return 6 + rng.Intn(12)
		case 7, 8:
			return 20 + rng.Intn(40)
		default:
			return 64 + rng.Intn(200)
		}
	}
	pickFault := func() string {
		switch x := rng.Intn(100); {
		case x < 58:
			return ""
		case x < 74:
			return "dropreply"
		default:
			return "cancel" // becomes "abandon" on the in-process paths
		}
	}
	delay := func() int { return []int{0, 20, 50, 100, 200, 400, 800, 1500, 3000}[rng.Intn(9)] }
	downFollower := false
	snapretry := cfg.Profile == "snapretry"
	shipAt := map[int]bool{}
	if snapretry {
		shipAt[cfg.Steps/4+rng.Intn(5)] = true
		shipAt[cfg.Steps*2/3+rng.Intn(5)] = true
	}
	for len(plan) < cfg.Steps {
		if snapretry && shipAt[len(plan)] {
			// the source compacted its log: the sender ships its snapshot; the first apply fails, the sender retries
			plan = append(plan, step{Op: "snapship", N: 20 + rng.Intn(80)})
			plan = append(plan, step{Op: "rewind", S: rng.Intn(len(cfg.Senders)), Back: []int{3, 10, 40, 1000}[rng.Intn(4)]})
			plan = append(plan, step{Op: "send", S: rng.Intn(len(cfg.Senders)), N: pickN()})
			continue
		}
		x := rng.Intn(1000)
		s := rng.Intn(len(cfg.Senders))
		switch {
		case x < 470:
			st := step{Op: "send", S: s, N: pickN(), Fault: pickFault(), DelayUs: delay()}
			if three && rng.Intn(12) == 0 {
				st.ToFol = true
				st.R = rng.Intn(2)
			}
			plan = append(plan, st)
		case x < 560: // sender restarts from an older cursor: stale and overlapping batches
			plan = append(plan, step{Op: "rewind", S: s, Back: []int{1, 2, 3, 5, 8, 13, 30, 80, 1000}[rng.Intn(9)]})
			k := 1 + rng.Intn(4)
			for i := 0; i < k; i++ {
				plan = append(plan, step{Op: "send", S: s, N: pickN(), Fault: pickFault(), DelayUs: delay()})
			}
		case x < 660: // two senders deliver the same range concurrently
			s2 := otherSenderOfSameSource(cfg, s, rng)
			if s2 < 0 {
				continue
			}
			n := pickN()
			n2 := n
			if rng.Intn(2) == 0 {
				n2 = pickN()
			}
			plan = append(plan, step{Op: "par", S: s, N: n, Fault: pickFault(), DelayUs: delay(), S2: s2, N2: n2, Fault2: pickFault(), Back: []int{0, 0, 1, 2, 5, 10}[rng.Intn(6)]})
		case x < 760:
			plan = append(plan, step{Op: "check"})
		case x < 800:
			plan = append(plan, step{Op: "backup", NS: nsList[rng.Intn(len(nsList))]})
		case x < 830:
			if snapretry {
				// a failed transfer would leave a Failed status that blocks another snapshot of the cluster for 5 minutes
				continue
			}
			plan = append(plan, step{Op: "snapfail", S: s, N: 5 + rng.Intn(30)})
		default:
			if !three {
				switch y := rng.Intn(100); {
				case y < 55:
					plan = append(plan, step{Op: "restart-ns", NS: nsList[rng.Intn(len(nsList))], Leader: true})
				case y < 85: // restart while a delivery is in flight
					plan = append(plan, step{Op: "send+restart", S: s, N: 20 + rng.Intn(200), DelayUs: delay(), Leader: true})
				default:
					plan = append(plan, step{Op: "restart-server"})
				}
			} else {
				ns := nsList[rng.Intn(len(nsList))]
				switch y := rng.Intn(100); {
				case y < 25:
					plan = append(plan, step{Op: "transfer", NS: ns, R: rng.Intn(2)})
				case y < 55: // leader transfer while a big batch is being proposed
					if xfer {
						plan = append(plan, step{Op: "send+transfer", S: s, N: 100 + rng.Intn(400), DelayUs: delay(), R: rng.Intn(2), ToFol: rng.Intn(3) == 0})
					} else {
						plan = append(plan, step{Op: "transfer", NS: ns, R: rng.Intn(2)})
					}
				case y < 70:
					plan = append(plan, step{Op: "restart-ns", NS: ns, Leader: rng.Intn(2) == 0, R: rng.Intn(2)})
				case y < 80:
					plan = append(plan, step{Op: "send+restart", S: s, N: 20 + rng.Intn(200), DelayUs: delay(), Leader: rng.Intn(2) == 0, R: rng.Intn(2)})
				default: // follower down long enough to need a raft snapshot from the leader
					if !downFollower {
						plan = append(plan, step{Op: "stop-follower", NS: ns, R: rng.Intn(2)})
						downFollower = true
						k := 3 + rng.Intn(5)
						for i := 0; i < k; i++ {
							plan = append(plan, step{Op: "send", S: rng.Intn(len(cfg.Senders)), N: 8 + rng.Intn(30), Fault: pickFault(), DelayUs: delay()})
						}
						plan = append(plan, step{Op: "start-followers"})
						downFollower = false
						if rng.Intn(2) == 0 {
							plan = append(plan, step{Op: "check"})
							plan = append(plan, step{Op: "transfer-to-restarted", NS: ns})
							plan = append(plan, step{Op: "rewind", S: s, Back: 1000})
							plan = append(plan, step{Op: "send", S: s, N: 64 + rng.Intn(100)})
						}
					}
				}
			}
		}
	}
	return plan
}

func otherSenderOfSameSource(cfg scenarioCfg, s int, rng *rand.Rand) int {
	var c []int
	for i, sp := range cfg.Senders {
		if i != s && sp.Src == cfg.Senders[s].Src {
			c = append(c, i)
		}
	}
	if len(c) == 0 {
		return -1
	}
	return c[rng.Intn(len(c))]
}

// frontier = lowest ordinal that was never acknowledged to any sender of the source.
func (rn *runner) frontier(src *source) int {
	f := 1
	for _, s := range rn.senders {
		if s.src == src && s.next > f {
			f = s.next
		}
	}
	return f
}

func (rn *runner) exec(st step) {
	switch st.Op {
	case "send":
		rn.send(rn.senders[st.S], st.N, st.Fault, st.DelayUs, st.ToFol, st.R, "driver")
	case "rewind":
		s := rn.senders[st.S]
		// a restarted sender resumes from an older cursor (never beyond what was acknowledged to some sender)
		c := rn.frontier(s.src) - st.Back
		if c < 1 {
			c = 1
		}
		s.next = c
		rn.count("sender_restarts_with_older_cursor", 1)
		rn.record(event{Kind: "sender-restart", Sender: s.id, Src: s.src.Name, From: c, Note: "cursor set back"})
	case "par":
		a, b := rn.senders[st.S], rn.senders[st.S2]
		c := a.next - st.Back
		if c < 1 {
			c = 1
		}
		b.next = c
		rn.count("concurrent_sender_pairs", 1)
		var wg sync.WaitGroup
		wg.Add(2)
		go func() { defer wg.Done(); rn.send(a, st.N, st.Fault, st.DelayUs, false, 0, "par-a") }()
		go func() { defer wg.Done(); rn.send(b, st.N2, st.Fault2, st.DelayUs, false, 0, "par-b") }()
		wg.Wait()
	case "check":
		rn.quiescentCheck("plan", false)
	case "backup":
		rn.backup(st.NS)
	case "snapfail":
		rn.snapFail(rn.senders[st.S], st.N)
	case "snapship":
		rn.snapShip(st.N)
	case "restart-ns":
		rn.restartNS(st.NS, st.Leader, st.R, true)
	case "restart-server":
		rn.restartServer()
	case "send+restart":
		s := rn.senders[st.S]
		ns := fullNS(s.src.NSBase)
		var wg sync.WaitGroup
		wg.Add(1)
		go func() { defer wg.Done(); rn.send(s, st.N, "", 0, false, 0, "par-a") }()
		time.Sleep(time.Duration(st.DelayUs) * time.Microsecond)
		rn.restartNS(ns, st.Leader, st.R, false)
		wg.Wait()
		rn.count("restarts_during_delivery", 1)
	case "transfer":
		rn.wg.Wait() // calm transfer: no in-process call is outstanding
		rn.transfer(st.NS, st.R)
	case "send+transfer":
		s := rn.senders[st.S]
		ns := fullNS(s.src.NSBase)
		var wg sync.WaitGroup
		wg.Add(1)
		go func() { defer wg.Done(); rn.send(s, st.N, "", 0, st.ToFol, st.R, "par-a") }()
		time.Sleep(time.Duration(st.DelayUs) * time.Microsecond)
		rn.transfer(ns, st.R)
		wg.Wait()
		rn.count("leader_transfers_during_delivery", 1)
	case "stop-follower":
		r := rn.selectReplica(st.NS, false, st.R)
		rn.record(event{Kind: "stop-follower", Target: r.idx, Note: st.NS})
		if err := rn.rx.stopNS(r, st.NS); err != nil {
			rn.setInconclusive(err.Error())
		}
		rn.count("follower_stops", 1)
		rn.mu.Lock()
		rn.sawRestartOrSnap = true
		rn.fpHash = append(rn.fpHash, "stop-follower")
		rn.mu.Unlock()
	case "start-followers":
		rn.startDown()
	case "transfer-to-restarted":
		// make the replica that was restarted last the leader, so that its restored position filters the stale replay
		if rn.lastStarted != nil {
			rn.transferTo(st.NS, rn.lastStarted)
		}
	}
}

func (rn *runner) startDown() {
	for _, r := range rn.rx.reps {
		for full := range rn.rx.nsConfs {
			r.mu.RLock()
			down := r.up && !r.nsUp[full]
			r.mu.RUnlock()
			if down {
				rn.record(event{Kind: "start-follower", Target: r.idx, Note: full})
				rn.lastStarted = r
				if err := rn.rx.startNS(r, full); err != nil {
					rn.setInconclusive("start namespace: " + err.Error())
				}
			}
		}
	}
}

// drain: every source is sent to its end by its first sender, without
// injected faults, retrying genuine errors like the real sender does.
func (rn *runner) drain() {
	rn.startDown()
	done := map[*source]bool{}
	for _, s := range rn.senders {
		if done[s.src] {
			continue
		}
		done[s.src] = true
		s.next = rn.frontier(s.src)
		deadline := time.Now().Add(90 * time.Second)
		for s.next <= s.src.K {
			if rn.send(s, 48, "", 0, false, 0, "driver") {
				continue
			}
			if time.Now().After(deadline) {
				rn.setInconclusive("drain of " + s.src.Name + " did not finish")
				return
			}
			time.Sleep(100 * time.Millisecond)
		}
	}
}

func runScenario(cfg scenarioCfg, dir string) (res scenarioResult) {
	start := time.Now()
	res = scenarioResult{ID: cfg.ID, Name: cfg.Name, Counters: map[string]int64{}, Maxes: map[string]int64{}}
	rn := &runner{cfg: cfg, counters: res.Counters, maxes: res.Maxes, lastObs: map[string]posObs{}, snapfailDone: map[string]bool{},
		serverRestartsLeft: cfg.ServerRestarts}
	defer func() {
		if rec := recover(); rec != nil {
			res.Inconclusive = fmt.Sprintf("harness panic: %v", rec)
		}
		res.WallS = time.Since(start).Seconds()
	}()
	rx, err := newReceiver(cfg.Name, dir, cfg.Rx)
	if err != nil {
		res.Inconclusive = "receiver setup: " + err.Error()
		return
	}
	rn.rx = rx
	for _, sp := range cfg.Sources {
		rn.srcs = append(rn.srcs, newSource(sp))
	}
	for i, sp := range cfg.Senders {
		rn.senders = append(rn.senders, &sender{id: i, src: rn.srcs[sp.Src], path: sp.Path, next: 1})
	}
	rn.acked = make([]int, len(rn.srcs))
	for range rx.reps {
		rn.lastQ = append(rn.lastQ, map[string]int{})
		rn.lastQEpoch = append(rn.lastQEpoch, map[string]int64{})
	}
	rn.restoreSeen = make([]int32, len(rx.reps)*len(cfg.Rx.Namespaces))
	rn.plan = genPlan(cfg)
	if err := rx.start(); err != nil {
		res.Inconclusive = "receiver start: " + err.Error()
		rx.stopAll()
		return
	}
	defer rx.stopAll()
	defer func() {
		if rn.img != nil {
			rn.img.stopAll()
		}
	}()
	for full := range rx.nsConfs {
		if rx.waitLeader(full, 30*time.Second) == nil {
			res.Inconclusive = "no leader for " + full
			return
		}
	}
	for _, r := range rx.reps {
		for full := range rx.nsConfs {
			rn.lastQEpoch[r.idx][full] = atomic.LoadInt64(&r.epoch)
		}
	}
	rn.startPollers()
	for i, st := range rn.plan {
		if rn.violated() || rn.inconcl != "" {
			break
		}
		rn.exec(st)
		rn.resolveSuspect()
		_ = i
	}
	if !rn.violated() && rn.inconcl == "" {
		rn.drain()
	}
	if !rn.violated() && rn.inconcl == "" {
		rn.quiescentCheck("final", true)
	}
	rn.resolveSuspect()
	rn.stopPollers()
	rn.wg.Wait()
	// snapshots observed: snapshot index per replica at the end
	for _, r := range rx.reps {
		for full := range rx.nsConfs {
			r.mu.RLock()
			if nn := r.nsNodeLocked(full); nn != nil {
				if si := nn.Node.GetLastSnapIndex(); si > 0 {
					rn.count("replicas_with_raft_snapshot_at_end", 1)
					rn.mu.Lock()
					rn.sawRestartOrSnap = true
					rn.mu.Unlock()
				}
				rn.max("raft_applied_index_max", int64(nn.Node.GetAppliedIndex()))
			}
			r.mu.RUnlock()
		}
	}
	rn.mu.Lock()
	res.Violations = rn.viol
	res.Inconclusive = rn.inconcl
	h := sha1.Sum([]byte(fmt.Sprint(rn.fpHash)))
	res.Fingerprint = hex.EncodeToString(h[:8])
	res.Nontrivial = rn.sawRedeliveryApplied && rn.sawRestartOrSnap
	var sample []event
	for _, e := range rn.events {
		if len(sample) < 14 {
			sample = append(sample, e)
		}
	}
	res.Sample = map[string]interface{}{"scenario": cfg.Name, "profile": cfg.Profile, "engine": cfg.Rx.Engine, "replicas": cfg.Rx.Replicas,
		"delivery_sequence_prefix": sample, "events_total": len(rn.events)}
	rn.mu.Unlock()
	return
}

// helper for deterministic ordering in reports
func sortedKeys(m map[string]int64) []string {
	var ks []string
	for k := range m {
		ks = append(ks, k)
	}
	sort.Strings(ks)
	return ks
}

var _ = json.Marshal
var _ = node.FromClusterSyncer
