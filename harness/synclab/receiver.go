package synclab

// The receiver side of C19: one or three real server.Server instances hosted
// in this process (the check runs inside a `--child c19-run` process, so that
// process-global state of the repo packages -- syncer-only mode, loggers,
// os.Exit in Fatalf -- never touches the dispatcher).

import (
	"errors"
	"fmt"
	"io/ioutil"
	"net"
	"os"
	"path"
	"strconv"
	"strings"
	"sync"
	"sync/atomic"
	"time"

	"github.com/absolute8511/redcon"
	"github.com/youzan/ZanRedisDB/common"
	"github.com/youzan/ZanRedisDB/node"
	"github.com/youzan/ZanRedisDB/rockredis"
	"github.com/youzan/ZanRedisDB/server"
	"github.com/youzan/ZanRedisDB/syncerpb"
	"google.golang.org/grpc"
)

type fakeClusterInfo struct {
	clusterName string
	mu          sync.Mutex
	snapSyncs   []common.SnapshotSyncInfo
}

func (ci *fakeClusterInfo) GetClusterName() string { return ci.clusterName }
func (ci *fakeClusterInfo) GetSnapshotSyncInfo(fullNS string) ([]common.SnapshotSyncInfo, error) {
	ci.mu.Lock()
	defer ci.mu.Unlock()
	return append([]common.SnapshotSyncInfo{}, ci.snapSyncs...), nil
}
func (ci *fakeClusterInfo) UpdateMeForNamespaceLeader(fullNS string) (bool, error) {
	return false, nil
}

// ---------------------------------------------------------------- ports

var portMu sync.Mutex
var portBase, portSpan, portOff int
var portUsed = map[int]bool{}

// setPortBlock restricts this process to the ports [base, base+span).
func setPortBlock(base, span int) {
	portMu.Lock()
	defer portMu.Unlock()
	if base <= 0 || span <= 0 {
		base, span = portLo+(os.Getpid()*37+int(time.Now().UnixNano()/1000))%(portHi-portLo-400), 400
	}
	portBase, portSpan, portOff = base, span, 0
}

// freePort probes a free TCP port at run time inside the block of this
// process: the port is verified by binding it on all interfaces and on
// 127.0.0.1 (the servers listen on ":port", rafthttp on 127.0.0.1:port)
// right before use. The blocks lie below the ephemeral range, so outgoing
// connections of concurrently running checks cannot grab a probed port; what
// remains is another process probing the same number between this probe and
// the server's own bind, which kills the child and is handled by relaunching it.
func freePort() (int, error) {
	portMu.Lock()
	defer portMu.Unlock()
	if portSpan == 0 {
		portBase, portSpan = portLo+(os.Getpid()*37+int(time.Now().UnixNano()/1000))%(portHi-portLo-400), 400
	}
	for tries := 0; tries < portSpan; tries++ {
		p := portBase + portOff%portSpan
		portOff++
		if portUsed[p] {
			continue
		}
		l, err := net.Listen("tcp", ":"+strconv.Itoa(p))
		if err != nil {
			continue
		}
		l.Close()
		l, err = net.Listen("tcp", "127.0.0.1:"+strconv.Itoa(p))
		if err != nil {
			continue
		}
		l.Close()
		portUsed[p] = true
		return p, nil
	}
	return 0, errors.New("no free port found in the block of this process")
}

// ---------------------------------------------------------------- receiver

type rxConfig struct {
	Engine      string   `json:"engine"`   // "mem" | "pebble"
	Replicas    int      `json:"replicas"` // 1 | 3
	SnapCount   int      `json:"snap_count"`
	SnapCatchup int      `json:"snap_catchup"`
	Namespaces  []string `json:"namespaces"` // base names; one partition each ("<base>-0")
}

type replica struct {
	idx       int
	id        uint64
	dir       string
	redisPort int
	grpcPort  int
	httpPort  int
	raftPort  int
	raftAddr  string

	// mu guards srv / node objects against the restart operations: readers
	// (pollers, deliveries that address node objects directly) hold RLock
	mu     sync.RWMutex
	srv    *server.Server
	up     bool
	nsUp   map[string]bool
	epoch  int64 // incremented at every stop/start of the server or of one of its namespaces
	conn   *grpc.ClientConn
	client syncerpb.CrossClusterAPIClient
}

type receiver struct {
	cfg       rxConfig
	name      string
	dir       string
	clusterID string
	ci        *fakeClusterInfo
	reps      []*replica
	nsConfs   map[string]*node.NamespaceConfig // per full name (shared template; copied per replica)
	restarts  int64
}

func fullNS(base string) string { return base + "-0" }

func newReceiver(name, dir string, cfg rxConfig) (*receiver, error) {
	rx := &receiver{cfg: cfg, name: name, dir: dir, clusterID: "c19-" + name,
		ci: &fakeClusterInfo{clusterName: "c19-dest-" + name}, nsConfs: map[string]*node.NamespaceConfig{}}
	var seeds []node.ReplicaInfo
	for i := 0; i < cfg.Replicas; i++ {
		r := &replica{idx: i, id: uint64(i + 1), dir: path.Join(dir, strconv.Itoa(i)), nsUp: map[string]bool{}}
		for _, pp := range []*int{&r.redisPort, &r.grpcPort, &r.httpPort, &r.raftPort} {
			p, err := freePort()
			if err != nil {
				return nil, err
			}
			*pp = p
		}
		r.raftAddr = "http://127.0.0.1:" + strconv.Itoa(r.raftPort)
		rx.reps = append(rx.reps, r)
		seeds = append(seeds, node.ReplicaInfo{NodeID: r.id, ReplicaID: r.id, RaftAddr: r.raftAddr})
		rx.ci.snapSyncs = append(rx.ci.snapSyncs, common.SnapshotSyncInfo{
			NodeID: r.id, ReplicaID: r.id, RemoteAddr: "127.0.0.1",
			HttpAPIPort: strconv.Itoa(r.httpPort), DataRoot: r.dir,
		})
	}
	for gi, base := range cfg.Namespaces {
		c := node.NewNSConfig()
		c.Name = fullNS(base)
		c.BaseName = base
		c.EngType = rockredis.EngType
		c.PartitionNum = 1
		c.SnapCount = cfg.SnapCount
		c.SnapCatchup = cfg.SnapCatchup
		c.Replicator = cfg.Replicas
		c.RaftGroupConf.GroupID = uint64(1000 + gi)
		c.RaftGroupConf.SeedNodes = seeds
		c.ExpirationPolicy = common.WaitCompactExpirationPolicy
		c.DataVersion = common.ValueHeaderV1Str
		rx.nsConfs[c.Name] = c
	}
	return rx, nil
}

func (rx *receiver) serverConf(r *replica) server.ServerConfig {
	conf := server.ServerConfig{
		ClusterID:     rx.clusterID,
		DataDir:       r.dir,
		RedisAPIPort:  r.redisPort,
		GrpcAPIPort:   r.grpcPort,
		HttpAPIPort:   r.httpPort,
		LocalRaftAddr: r.raftAddr,
		BroadcastAddr: "127.0.0.1",
		MetricAddr:    "127.0.0.1:0",
		ProfilePort:   -1,
		TickMs:        100,
		ElectionTick:  5,
		UseRocksWAL:   false,
	}
	conf.RocksDBOpts.EngineType = rx.cfg.Engine
	return conf
}

func (rx *receiver) nsConfCopy(full string) *node.NamespaceConfig {
	c := *rx.nsConfs[full]
	return &c
}

// startServer creates and starts the server object of a replica. first=true
// for the very first start (no data on disk).
func (rx *receiver) startServer(r *replica, first bool) error {
	if rx.cfg.Engine != "mem" && rx.cfg.Engine != "pebble" {
		return fmt.Errorf("engine %q is not allowed (only mem and pebble)", rx.cfg.Engine)
	}
	r.mu.Lock()
	defer r.mu.Unlock()
	if first {
		os.MkdirAll(r.dir, 0700)
		ioutil.WriteFile(path.Join(r.dir, "myid"), []byte(strconv.FormatUint(r.id, 10)), 0644)
	}
	srv, err := server.NewServer(rx.serverConf(r))
	if err != nil {
		return err
	}
	srv.GetNsMgr().SetIClusterInfo(rx.ci)
	for full := range rx.nsConfs {
		if _, err := srv.InitKVNamespace(r.id, rx.nsConfCopy(full), !first); err != nil {
			return fmt.Errorf("init namespace %s on replica %d: %v", full, r.id, err)
		}
		r.nsUp[full] = true
	}
	srv.Start()
	r.srv = srv
	r.up = true
	atomic.AddInt64(&r.epoch, 1)
	return nil
}

func (rx *receiver) start() error {
	for _, r := range rx.reps {
		if err := rx.startServer(r, true); err != nil {
			return err
		}
	}
	for _, r := range rx.reps {
		if err := rx.dial(r); err != nil {
			return err
		}
	}
	return nil
}

func (rx *receiver) dial(r *replica) error {
	conn, err := grpc.Dial("127.0.0.1:"+strconv.Itoa(r.grpcPort), grpc.WithInsecure())
	if err != nil {
		return err
	}
	r.conn = conn
	r.client = syncerpb.NewCrossClusterAPIClient(conn)
	return nil
}

// stopServer stops the whole server object of a replica gracefully (this takes
// several seconds: Server.Stop proposes a backup and sleeps).
func (rx *receiver) stopServer(r *replica) {
	r.mu.Lock()
	defer r.mu.Unlock()
	if !r.up {
		return
	}
	atomic.AddInt64(&r.epoch, 1)
	r.srv.Stop()
	r.up = false
	for k := range r.nsUp {
		r.nsUp[k] = false
	}
	atomic.AddInt64(&rx.restarts, 1)
}

// stopNS closes one namespace node of a replica gracefully (what the
// repository's own restart tests do) and waits until the manager forgot it.
func (rx *receiver) stopNS(r *replica, full string) error {
	r.mu.Lock()
	defer r.mu.Unlock()
	if !r.up || !r.nsUp[full] {
		return nil
	}
	nn := r.srv.GetNamespaceFromFullName(full)
	if nn == nil {
		return errors.New("namespace not found: " + full)
	}
	atomic.AddInt64(&r.epoch, 1)
	nn.Close()
	deadline := time.Now().Add(20 * time.Second)
	for {
		if _, still := r.srv.GetNsMgr().GetNamespaces()[full]; !still {
			break
		}
		if time.Now().After(deadline) {
			return errors.New("namespace did not disappear after Close: " + full)
		}
		time.Sleep(10 * time.Millisecond)
	}
	r.nsUp[full] = false
	return nil
}

func (rx *receiver) startNS(r *replica, full string) error {
	r.mu.Lock()
	defer r.mu.Unlock()
	if !r.up || r.nsUp[full] {
		return nil
	}
	var err error
	for attempt := 0; attempt < 4; attempt++ {
		var nn *node.NamespaceNode
		nn, err = r.srv.InitKVNamespace(r.id, rx.nsConfCopy(full), true)
		if err != nil {
			return err
		}
		if err = nn.Start(false); err == nil {
			break
		}
		if !strings.Contains(err.Error(), "locked") {
			return err
		}
		// the WAL of the previous incarnation is not released yet (seen under -race on a
		// loaded machine): drop the node object that failed to start and try again
		nn.Close()
		deadline := time.Now().Add(10 * time.Second)
		for time.Now().Before(deadline) {
			if _, still := r.srv.GetNsMgr().GetNamespaces()[full]; !still {
				break
			}
			time.Sleep(20 * time.Millisecond)
		}
		time.Sleep(time.Second)
	}
	if err != nil {
		return err
	}
	r.nsUp[full] = true
	atomic.AddInt64(&r.epoch, 1)
	atomic.AddInt64(&rx.restarts, 1)
	return nil
}

func (rx *receiver) stopAll() {
	var wg sync.WaitGroup
	for _, r := range rx.reps {
		if r.conn != nil {
			r.conn.Close()
		}
		wg.Add(1)
		go func(r *replica) {
			defer wg.Done()
			rx.stopServer(r)
		}(r)
	}
	wg.Wait()
}

// nsNode returns the namespace node object of a replica (nil when down).
// The caller must hold r.mu (read or write).
func (r *replica) nsNodeLocked(full string) *node.NamespaceNode {
	if !r.up || !r.nsUp[full] || r.srv == nil {
		return nil
	}
	nn := r.srv.GetNamespaceFromFullName(full)
	if nn == nil || !nn.IsReady() {
		return nil
	}
	return nn
}

// leader returns the replica whose node of the raft group is leader, or nil.
func (rx *receiver) leader(full string) *replica {
	for _, r := range rx.reps {
		r.mu.RLock()
		nn := r.nsNodeLocked(full)
		lead := nn != nil && nn.Node.IsLead()
		r.mu.RUnlock()
		if lead {
			return r
		}
	}
	return nil
}

func (rx *receiver) waitLeader(full string, d time.Duration) *replica {
	deadline := time.Now().Add(d)
	for {
		if r := rx.leader(full); r != nil {
			return r
		}
		if time.Now().After(deadline) {
			return nil
		}
		time.Sleep(20 * time.Millisecond)
	}
}

// ---------------------------------------------------------------- reading a replica

// recConn records what a read handler writes (the real read handlers of the
// node are invoked directly, so that followers can be read as well).
type recConn struct {
	err   string
	null  bool
	ints  []int64
	bulks [][]byte
	strs  []string
	arr   int
}

func (c *recConn) RemoteAddr() string             { return "c19" }
func (c *recConn) Close() error                   { return nil }
func (c *recConn) WriteError(msg string)          { c.err = msg }
func (c *recConn) WriteString(str string)         { c.strs = append(c.strs, str) }
func (c *recConn) WriteBulk(bulk []byte)          { c.bulks = append(c.bulks, append([]byte{}, bulk...)) }
func (c *recConn) WriteBulkString(bulk string)    { c.bulks = append(c.bulks, []byte(bulk)) }
func (c *recConn) WriteInt(num int)               { c.ints = append(c.ints, int64(num)) }
func (c *recConn) WriteInt64(num int64)           { c.ints = append(c.ints, num) }
func (c *recConn) WriteArray(count int)           { c.arr = count }
func (c *recConn) WriteNull()                     { c.null = true }
func (c *recConn) WriteRaw(data []byte)           {}
func (c *recConn) Context() interface{}           { return nil }
func (c *recConn) SetContext(v interface{})       {}
func (c *recConn) SetReadBuffer(bytes int)        {}
func (c *recConn) Detach() redcon.DetachedConn    { return nil }
func (c *recConn) ReadPipeline() []redcon.Command { return nil }
func (c *recConn) PeekPipeline() []redcon.Command { return nil }
func (c *recConn) NetConn() net.Conn              { return nil }
func (c *recConn) Flush() error                   { return nil }

func readCmd(nd *node.KVNode, args ...string) (*recConn, error) {
	h, ok := nd.GetHandler(strings.ToLower(args[0]))
	if !ok {
		return nil, errors.New("no read handler for " + args[0])
	}
	bargs := make([][]byte, len(args))
	for i, a := range args {
		bargs[i] = []byte(a)
	}
	c := &recConn{}
	h(c, common.BuildCommand(bargs))
	if c.err != "" {
		return c, errors.New(c.err)
	}
	return c, nil
}

// srcData is the logical content of the four keys of one source cluster.
type srcData struct {
	Log []string `json:"log"`
	N   int64    `json:"n"`
	S   string   `json:"s"`
	HF  int64    `json:"hf"`
}

func readSrcData(nd *node.KVNode, keyPrefix string) (srcData, error) {
	var d srcData
	c, err := readCmd(nd, "lrange", keyPrefix+"log", "0", "-1")
	if err != nil {
		return d, err
	}
	for _, b := range c.bulks {
		d.Log = append(d.Log, string(b))
	}
	c, err = readCmd(nd, "get", keyPrefix+"n")
	if err != nil {
		return d, err
	}
	if len(c.bulks) > 0 {
		d.N, _ = strconv.ParseInt(string(c.bulks[0]), 10, 64)
	}
	c, err = readCmd(nd, "get", keyPrefix+"s")
	if err != nil {
		return d, err
	}
	if len(c.bulks) > 0 {
		d.S = string(c.bulks[0])
	}
	c, err = readCmd(nd, "hget", keyPrefix+"h", "f")
	if err != nil {
		return d, err
	}
	if len(c.bulks) > 0 {
		d.HF, _ = strconv.ParseInt(string(c.bulks[0]), 10, 64)
	}
	return d, nil
}

func readHF(nd *node.KVNode, keyPrefix string) (int64, error) {
	c, err := readCmd(nd, "hget", keyPrefix+"h", "f")
	if err != nil {
		return 0, err
	}
	if len(c.bulks) > 0 {
		v, _ := strconv.ParseInt(string(c.bulks[0]), 10, 64)
		return v, nil
	}
	return 0, nil
}
