package synclab

// Race-detector reports of the -race child: counted from the GORACE log files
// (exit codes are unreliable), de-duplicated; a report is a violation of C19
// only if both accesses are in functions of the files the property anchors.

import (
	"fmt"
	"io/ioutil"
	"path/filepath"
	"regexp"
	"sort"
	"strings"

	"verif/harness/vc"
)

var c19AnchorFiles = []string{"/node/remote_sync_mgr.go", "/node/node.go", "/server/grpc_api.go"}

type raceFrame struct {
	Func string `json:"func"`
	File string `json:"file"`
}

type raceReport struct {
	Stacks [2][]raceFrame `json:"stacks"`
	Raw    string         `json:"raw"`
}

var reLine = regexp.MustCompile(`^\s+(/\S+\.go):(\d+)`)

func parseRaceLogs(dir string) []raceReport {
	files, _ := filepath.Glob(filepath.Join(dir, "race*"))
	var out []raceReport
	for _, f := range files {
		b, err := ioutil.ReadFile(f)
		if err != nil {
			continue
		}
		blocks := strings.Split(string(b), "WARNING: DATA RACE")
		for _, blk := range blocks[1:] {
			if i := strings.Index(blk, "=================="); i >= 0 {
				blk = blk[:i]
			}
			var rep raceReport
			rep.Raw = "WARNING: DATA RACE" + blk
			if len(rep.Raw) > 6000 {
				rep.Raw = rep.Raw[:6000]
			}
			lines := strings.Split(blk, "\n")
			stack := -1
			var fn string
			for _, ln := range lines {
				t := strings.TrimSpace(ln)
				switch {
				case strings.HasPrefix(t, "Read at") || strings.HasPrefix(t, "Write at") || strings.HasPrefix(t, "Previous read at") || strings.HasPrefix(t, "Previous write at") ||
					strings.HasPrefix(t, "Atomic read at") || strings.HasPrefix(t, "Atomic write at") || strings.HasPrefix(t, "Previous atomic"):
					stack++
					fn = ""
				case strings.HasPrefix(t, "Goroutine ") || strings.HasPrefix(t, "[failed to restore the stack]"):
					if strings.HasPrefix(t, "Goroutine ") {
						stack = 2
					}
				case t == "":
					fn = ""
				default:
					if stack < 0 || stack > 1 {
						continue
					}
					if m := reLine.FindStringSubmatch(ln); m != nil {
						if fn != "" {
							rep.Stacks[stack] = append(rep.Stacks[stack], raceFrame{Func: fn, File: m[1]})
						}
						fn = ""
					} else {
						fn = strings.TrimSuffix(t, "()")
						if i := strings.LastIndex(fn, "("); i > 0 && strings.HasSuffix(fn, ")") && !strings.Contains(fn[i:], "*") {
							fn = fn[:i]
						}
					}
				}
			}
			out = append(out, rep)
		}
	}
	return out
}

// accessFrame is the innermost frame of a stack that lies in the repository.
func accessFrame(st []raceFrame) (raceFrame, bool) {
	for _, f := range st {
		if strings.Contains(f.Func, "github.com/youzan/ZanRedisDB/") || strings.HasPrefix(f.File, "/repo/") {
			return f, true
		}
	}
	return raceFrame{}, false
}

func inAnchor(f raceFrame) bool {
	for _, a := range c19AnchorFiles {
		if strings.HasSuffix(f.File, a) {
			return true
		}
	}
	return false
}

func shortFunc(fn string) string {
	return strings.TrimPrefix(fn, "github.com/youzan/ZanRedisDB/")
}

func absorbRace(c *vc.Ctx, dirs []string) {
	var reps []raceReport
	for _, d := range dirs {
		reps = append(reps, parseRaceLogs(d)...)
	}
	c.Ev.Count("race_report_blocks", int64(len(reps)))
	seen := map[string]bool{}
	var outside []string
	for _, rep := range reps {
		a, okA := accessFrame(rep.Stacks[0])
		b, okB := accessFrame(rep.Stacks[1])
		fa, fb := shortFunc(a.Func), shortFunc(b.Func)
		if !okA {
			fa = "?"
		}
		if !okB {
			fb = "?"
		}
		pair := []string{fa, fb}
		sort.Strings(pair)
		key := strings.Join(pair, " <-> ")
		if seen[key] {
			continue
		}
		seen[key] = true
		harness := false
		for _, st := range rep.Stacks {
			if len(st) > 0 && strings.Contains(st[0].Func, "verif/harness/") {
				harness = true
			}
		}
		if okA && okB && inAnchor(a) && inAnchor(b) && !harness {
			c.Violation("race/"+key, fmt.Sprintf("data race between two accesses in C19 anchor files: %s (%s) and %s (%s)", fa, a.File, fb, b.File),
				map[string]interface{}{"variant": "race", "report": rep.Raw, "stacks": rep.Stacks})
		} else {
			outside = append(outside, key)
		}
	}
	c.Ev.Count("race_reports_distinct", int64(len(seen)))
	sort.Strings(outside)
	if len(outside) > 30 {
		outside = outside[:30]
	}
	c.Ev.Set("race_reports_outside_anchor", outside)
}
