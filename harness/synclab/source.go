package synclab

// Source-cluster model: what a log-syncer learner of a source cluster would
// send. A source entry is encoded exactly like node/syncer_learner.go does:
// RaftLogData{Type: EntryNormalRaw, ClusterName, RaftGroupName, Term, Index,
// RaftTimestamp, Data}, Data = the marshalled BatchInternalRaftRequest of the
// source's committed entry with Type=FromClusterSyncer, OrigTerm, OrigIndex,
// OrigCluster and the entry's Timestamp set by the learner's state machine.

import (
	"fmt"
	"strconv"
	"strings"

	"github.com/youzan/ZanRedisDB/common"
	"github.com/youzan/ZanRedisDB/node"
	"github.com/youzan/ZanRedisDB/syncerpb"
)

const (
	modeQuad     = "quad"      // one source entry = 4 requests (RPUSH, INCR, APPEND, HINCRBY), old-style redis requests
	modeSingle   = "single"    // one command per source entry (what ProposeInternal produces), RedisReq
	modeSingleV2 = "single-v2" // one command per source entry, RedisV2Req (namespace kept in the key)
)

type srcSpec struct {
	Name   string `json:"name"`   // source cluster name
	NSBase string `json:"ns"`     // receiving namespace base name
	Mode   string `json:"mode"`   // encoding mode
	K      int    `json:"k"`      // number of source entries (ordinals 1..K)
	Base   uint64 `json:"base"`   // source raft index of ordinal o is Base+o
	Term0  uint64 `json:"term0"`  // term of the first entry
	TermUp []int  `json:"termup"` // ordinals at which the source term increases by one
	Empty  []int  `json:"empty"`  // ordinals that carry no request (e.g. the source's leader-change entries)
	Conf   []int  `json:"conf"`   // ordinals that carry a remote conf change custom request
	Pad    int    `json:"pad"`    // extra payload bytes appended to every u_i (makes the apply window wider)
	T0     int64  `json:"t0"`     // raft timestamp of ordinal 1 (ns); ordinal o has T0+o*1000
}

type source struct {
	srcSpec
	isEmpty map[int]bool
	isConf  map[int]bool
	terms   []uint64 // per ordinal (index 0 unused)
	// cumulative expected counts per ordinal
	cLog []int64
	cN   []int64
	cS   []int64
	cH   []int64
	pad  string
}

func newSource(sp srcSpec) *source {
	s := &source{srcSpec: sp, isEmpty: map[int]bool{}, isConf: map[int]bool{}}
	for _, o := range sp.Empty {
		s.isEmpty[o] = true
	}
	for _, o := range sp.Conf {
		s.isConf[o] = true
	}
	up := map[int]bool{}
	for _, o := range sp.TermUp {
		up[o] = true
	}
	s.terms = make([]uint64, sp.K+1)
	s.cLog = make([]int64, sp.K+1)
	s.cN = make([]int64, sp.K+1)
	s.cS = make([]int64, sp.K+1)
	s.cH = make([]int64, sp.K+1)
	t := sp.Term0
	for o := 1; o <= sp.K; o++ {
		if up[o] {
			t++
		}
		s.terms[o] = t
		s.cLog[o], s.cN[o], s.cS[o], s.cH[o] = s.cLog[o-1], s.cN[o-1], s.cS[o-1], s.cH[o-1]
		for _, op := range s.ops(o) {
			switch op {
			case 0:
				s.cLog[o]++
			case 1:
				s.cN[o]++
			case 2:
				s.cS[o]++
			case 3:
				s.cH[o]++
			}
		}
	}
	if sp.Pad > 0 {
		s.pad = "." + strings.Repeat("x", sp.Pad)
	}
	return s
}

// ops lists the commands of ordinal o: 0 RPUSH log u_o, 1 INCR n, 2 APPEND s "o,", 3 HINCRBY h f 1.
func (s *source) ops(o int) []int {
	if s.isEmpty[o] || s.isConf[o] {
		return nil
	}
	if s.Mode == modeQuad {
		return []int{0, 1, 2, 3}
	}
	return []int{o % 4}
}

func (s *source) index(o int) uint64 { return s.Base + uint64(o) }
func (s *source) term(o int) uint64  { return s.terms[o] }
func (s *source) ts(o int) int64     { return s.T0 + int64(o)*1000 }

// ordinal maps a synced index reported by the receiver back to an ordinal
// (0 = nothing synced). ok=false if the index was never sent by this source.
func (s *source) ordinal(index uint64) (int, bool) {
	if index == 0 {
		return 0, true
	}
	if index <= s.Base || index > s.Base+uint64(s.K) {
		return 0, false
	}
	return int(index - s.Base), true
}

func (s *source) table() string     { return "c19" + s.Name }
func (s *source) keyPrefix() string { return s.NSBase + ":" + s.table() + ":" } // full redis key prefix
func (s *source) uid(o int) string  { return "u" + strconv.Itoa(o) + s.pad }

func (s *source) cmdArgs(o int, op int, withNS bool) [][]byte {
	pre := s.table() + ":"
	if withNS {
		pre = s.keyPrefix()
	}
	switch op {
	case 0:
		return [][]byte{[]byte("rpush"), []byte(pre + "log"), []byte(s.uid(o))}
	case 1:
		return [][]byte{[]byte("incr"), []byte(pre + "n")}
	case 2:
		return [][]byte{[]byte("append"), []byte(pre + "s"), []byte(strconv.Itoa(o) + ",")}
	default:
		return [][]byte{[]byte("hincrby"), []byte(pre + "h"), []byte("f"), []byte("1")}
	}
}

// batchReq builds the BatchInternalRaftRequest the source's learner would
// have for ordinal o (fresh object every time: the receiver rewrites it).
func (s *source) batchReq(o int) *node.BatchInternalRaftRequest {
	var rl node.BatchInternalRaftRequest
	rl.Timestamp = s.ts(o)
	rl.Type = node.FromClusterSyncer
	rl.OrigTerm = s.term(o)
	rl.OrigIndex = s.index(o)
	rl.OrigCluster = s.Name
	if s.isConf[o] {
		// what logSyncerSM.ApplyRaftConfRequest sends for a conf change of the source
		rl.ReqNum = 1
		rl.Reqs = append(rl.Reqs, node.InternalRaftRequest{
			Header: node.RequestHeader{ID: 0, DataType: int32(node.CustomReq), Timestamp: rl.Timestamp},
			Data: []byte(fmt.Sprintf(`{"ProposeOp":%d,"RemoteTerm":%d,"RemoteIndex":%d}`,
				node.ProposeOp_RemoteConfChange, rl.OrigTerm, rl.OrigIndex)),
		})
		return &rl
	}
	ops := s.ops(o)
	rl.ReqNum = int32(len(ops))
	for k, op := range ops {
		dt := int32(node.RedisReq)
		withNS := false
		if s.Mode == modeSingleV2 {
			dt = int32(node.RedisV2Req)
			withNS = true
		}
		cmd := common.BuildCommand(s.cmdArgs(o, op, withNS))
		rl.Reqs = append(rl.Reqs, node.InternalRaftRequest{
			Header: node.RequestHeader{ID: uint64(o)*8 + uint64(k) + 1, DataType: dt, Timestamp: rl.Timestamp},
			Data:   cmd.Raw,
		})
	}
	return &rl
}

// logData builds the gRPC message element for ordinal o with a private buffer.
func (s *source) logData(o int) syncerpb.RaftLogData {
	rl := s.batchReq(o)
	d, err := rl.Marshal()
	if err != nil {
		panic(err)
	}
	return syncerpb.RaftLogData{
		Type:          syncerpb.EntryNormalRaw,
		ClusterName:   s.Name,
		RaftGroupName: fullNS(s.NSBase),
		Term:          rl.OrigTerm,
		Index:         rl.OrigIndex,
		RaftTimestamp: rl.Timestamp,
		Data:          d,
	}
}

// expected returns the content the four keys must have when exactly the
// ordinals 1..p were applied once, in order.
func (s *source) expected(p int) srcData {
	var d srcData
	var sb strings.Builder
	for o := 1; o <= p; o++ {
		for _, op := range s.ops(o) {
			switch op {
			case 0:
				d.Log = append(d.Log, s.uid(o))
			case 1:
				d.N++
			case 2:
				sb.WriteString(strconv.Itoa(o))
				sb.WriteString(",")
			case 3:
				d.HF++
			}
		}
	}
	d.S = sb.String()
	return d
}

// diff compares the data read from a replica with the model at position p.
// It returns "" when equal, otherwise a signature and a human readable reason.
// Ids make a repeat or a skip explicit: nothing is inferred from counts alone
// unless the entry carries only a counting command (single modes).
func (s *source) diff(p int, got srcData) (sig string, why string) {
	exp := s.expected(p)
	// list: every id once, in order
	seen := map[string]int{}
	for _, u := range got.Log {
		seen[u]++
	}
	for o := 1; o <= s.K; o++ {
		has := false
		for _, op := range s.ops(o) {
			if op == 0 {
				has = true
			}
		}
		if !has {
			continue
		}
		c := seen[s.uid(o)]
		if c > 1 {
			return "entry-applied-twice", fmt.Sprintf("list log contains u%d %d times (position ordinal %d)", o, c, p)
		}
		if c == 0 && o <= p {
			return "entry-skipped", fmt.Sprintf("u%d is absent from list log although the synced position is ordinal %d", o, p)
		}
		if c == 1 && o > p {
			return "effect-beyond-position", fmt.Sprintf("u%d is present in list log although the synced position is only ordinal %d", o, p)
		}
	}
	if len(got.Log) != len(exp.Log) {
		return "foreign-element", fmt.Sprintf("list log has %d elements, expected %d", len(got.Log), len(exp.Log))
	}
	for i := range exp.Log {
		if got.Log[i] != exp.Log[i] {
			return "entry-out-of-order", fmt.Sprintf("list log[%d]=%s expected %s", i, shortID(got.Log[i]), shortID(exp.Log[i]))
		}
	}
	// append string: ids explicit as well
	if got.S != exp.S {
		gs := strings.Split(strings.TrimSuffix(got.S, ","), ",")
		cnt := map[string]int{}
		for _, x := range gs {
			if x != "" {
				cnt[x]++
			}
		}
		for o := 1; o <= s.K; o++ {
			has := false
			for _, op := range s.ops(o) {
				if op == 2 {
					has = true
				}
			}
			if !has {
				continue
			}
			c := cnt[strconv.Itoa(o)]
			if c > 1 {
				return "entry-applied-twice", fmt.Sprintf("string s contains id %d %d times (position ordinal %d)", o, c, p)
			}
			if c == 0 && o <= p {
				return "entry-skipped", fmt.Sprintf("id %d is absent from string s although the synced position is ordinal %d", o, p)
			}
			if c == 1 && o > p {
				return "effect-beyond-position", fmt.Sprintf("id %d present in string s although the synced position is only ordinal %d", o, p)
			}
		}
		return "entry-out-of-order", fmt.Sprintf("string s differs from the in-order concatenation (len %d vs %d)", len(got.S), len(exp.S))
	}
	if got.N != exp.N {
		if got.N > exp.N {
			return "entry-applied-twice", fmt.Sprintf("counter n=%d, expected %d at position ordinal %d", got.N, exp.N, p)
		}
		return "entry-skipped", fmt.Sprintf("counter n=%d, expected %d at position ordinal %d", got.N, exp.N, p)
	}
	if got.HF != exp.HF {
		if got.HF > exp.HF {
			return "entry-applied-twice", fmt.Sprintf("hash counter h.f=%d, expected %d at position ordinal %d", got.HF, exp.HF, p)
		}
		return "entry-skipped", fmt.Sprintf("hash counter h.f=%d, expected %d at position ordinal %d", got.HF, exp.HF, p)
	}
	return "", ""
}

func shortID(u string) string {
	if i := strings.IndexByte(u, '.'); i > 0 {
		return u[:i]
	}
	return u
}

func shortData(d srcData) srcData {
	out := d
	out.Log = nil
	for _, u := range d.Log {
		out.Log = append(out.Log, shortID(u))
	}
	return out
}
