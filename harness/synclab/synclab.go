// Package synclab decides C19 (cross-cluster log replay applies each source
// entry exactly once): a real server.Server (single replica, or three
// in-process replicas) receives source entries through the real gRPC handler
// ApplyRaftReqs (as a method and over a real gRPC connection) and through
// KVNode.ProposeRawAndWaitFromSyncer, from senders that are faithful (in
// order, a batch is retried until acknowledged) but unlucky (replies dropped,
// calls cancelled, restarts from an older cursor, concurrent senders), while
// the receiver is restarted, snapshotted and its leadership transferred.
// See /verif/DESIGN.md, section 3, C19.
package synclab

import (
	"encoding/json"
	"fmt"
	"io/ioutil"
	"math/rand"
	"os"
	"os/exec"
	"path/filepath"
	"sort"
	"strings"
	"sync"
	"syscall"
	"time"

	"github.com/youzan/ZanRedisDB/common"
	"github.com/youzan/ZanRedisDB/engine"
	"github.com/youzan/ZanRedisDB/node"
	"github.com/youzan/ZanRedisDB/raft"
	"github.com/youzan/ZanRedisDB/rockredis"
	"github.com/youzan/ZanRedisDB/server"
	"github.com/youzan/ZanRedisDB/slow"
	"github.com/youzan/ZanRedisDB/transport/rafthttp"

	"verif/harness/vc"
)

func init() {
	vc.Register("C19", "exploration", runC19)
	vc.Need("C19", "race")
	vc.RegisterChild("c19-run", childRun)
	vc.RegisterChild("c19-e2e", childE2E)
}

// ------------------------------------------------------------ child: c19-run

type childCfg struct {
	Scenarios []scenarioCfg `json:"scenarios"`
	Parallel  int           `json:"parallel"`
	Dir       string        `json:"dir"`
	Out       string        `json:"out"`
	LogLevel  int32         `json:"log_level"`
	PortBase  int           `json:"port_base"` // this child probes its ports inside [PortBase, PortBase+PortSpan)
	PortSpan  int           `json:"port_span"`
	// development aid (VERIF_C19_FAKE_COLLISION): die like a child whose server lost the race for a port
	FakeCollision bool `json:"fake_collision,omitempty"`
}

type childOut struct {
	Done    bool             `json:"done"`
	Results []scenarioResult `json:"results"`
}

type fileLogger struct {
	mu sync.Mutex
	f  *os.File
}

func (l *fileLogger) out(p, s string) error {
	l.mu.Lock()
	fmt.Fprintf(l.f, "%s %s%s\n", time.Now().Format("15:04:05.000000"), p, s)
	l.mu.Unlock()
	return nil
}
func (l *fileLogger) Output(d int, s string) error        { return l.out("", s) }
func (l *fileLogger) OutputErr(d int, s string) error     { return l.out("ERR ", s) }
func (l *fileLogger) OutputWarning(d int, s string) error { return l.out("WARN ", s) }

func setRepoLoggers(level int32, f *os.File) {
	lg := &fileLogger{f: f}
	server.SetLogger(level, lg)
	node.SetLogger(level, lg)
	rockredis.SetLogger(level, lg)
	engine.SetLogger(level, lg)
	slow.SetLogger(level, lg)
	rafthttp.SetLogger(level, lg)
	_ = raft.SetLogger
}

func childRun(args []string) int {
	if len(args) < 1 {
		fmt.Fprintln(os.Stderr, "usage: --child c19-run <cfg.json>")
		return 2
	}
	b, err := ioutil.ReadFile(args[0])
	if err != nil {
		fmt.Fprintln(os.Stderr, err)
		return 2
	}
	var cfg childCfg
	if err := json.Unmarshal(b, &cfg); err != nil {
		fmt.Fprintln(os.Stderr, err)
		return 2
	}
	setPortBlock(cfg.PortBase, cfg.PortSpan)
	if cfg.FakeCollision {
		fmt.Println("panic: failed to listen rafthttp : listen tcp 127.0.0.1:1: bind: address already in use (simulated)")
		return 1
	}
	os.MkdirAll(cfg.Dir, 0755)
	lf, err := os.Create(filepath.Join(cfg.Dir, "repo.log"))
	if err != nil {
		fmt.Fprintln(os.Stderr, err)
		return 2
	}
	defer lf.Close()
	setRepoLoggers(cfg.LogLevel, lf)
	// the receiver is a stand-by cluster: only the syncer may write
	node.SetSyncerOnly(true)

	var mu sync.Mutex
	out := childOut{}
	flush := func() {
		mu.Lock()
		defer mu.Unlock()
		b, _ := json.Marshal(out)
		tmp := cfg.Out + ".tmp"
		if ioutil.WriteFile(tmp, b, 0644) == nil {
			os.Rename(tmp, cfg.Out)
		}
	}
	par := cfg.Parallel
	if par < 1 {
		par = 1
	}
	sem := make(chan struct{}, par)
	var wg sync.WaitGroup
	for _, sc := range cfg.Scenarios {
		wg.Add(1)
		sem <- struct{}{}
		go func(sc scenarioCfg) {
			defer wg.Done()
			defer func() { <-sem }()
			res := runScenario(sc, filepath.Join(cfg.Dir, fmt.Sprintf("sc%d", sc.ID)))
			mu.Lock()
			out.Results = append(out.Results, res)
			mu.Unlock()
			flush()
		}(sc)
	}
	wg.Wait()
	mu.Lock()
	out.Done = true
	mu.Unlock()
	flush()
	return 0
}

// ------------------------------------------------------------ scenario generation

func genScenario(id int, seed int64, profile, engineType string, steps int, kPer int, serverRestarts int) scenarioCfg {
	rng := rand.New(rand.NewSource(seed))
	sc := scenarioCfg{ID: id, Seed: seed, Profile: profile, Steps: steps, ServerRestarts: serverRestarts}
	sc.Name = fmt.Sprintf("s%d-%s-%s", id, profile, engineType)
	sc.Rx = rxConfig{Engine: engineType, SnapCount: []int{8, 12, 20, 30}[rng.Intn(4)], SnapCatchup: []int{2, 3, 5}[rng.Intn(3)]}
	modes := []string{modeQuad, modeSingle, modeSingleV2}
	paths := []string{pathMethod, pathGRPC, pathNode}
	mkSrc := func(name, ns, mode string, pad int) srcSpec {
		sp := srcSpec{Name: name, NSBase: ns, Mode: mode, K: kPer, Base: uint64(rng.Intn(5000)), Term0: uint64(2 + rng.Intn(6)),
			Pad: pad, T0: 1700000000000000000 + int64(rng.Intn(1000000))*1000000}
		for i := 0; i < 3; i++ {
			sp.TermUp = append(sp.TermUp, 2+rng.Intn(kPer-2))
		}
		for o := 2; o <= kPer; o++ {
			switch rng.Intn(40) {
			case 0:
				sp.Empty = append(sp.Empty, o)
			case 1:
				sp.Conf = append(sp.Conf, o)
			}
		}
		sort.Ints(sp.TermUp)
		return sp
	}
	if profile == "snapretry" {
		sc.Rx.Replicas = 1
		sc.Rx.Namespaces = []string{"default"}
		sc.Sources = []srcSpec{mkSrc("srcA", "default", modeQuad, 64)}
	} else if profile == "single" {
		sc.Rx.Replicas = 1
		sc.Rx.Namespaces = []string{"default", "nsb"}
		sc.Sources = []srcSpec{
			mkSrc("srcA", "default", modeQuad, 64),
			mkSrc("srcB", "default", modes[1+rng.Intn(2)], 1024),
			mkSrc("srcC", "nsb", modes[rng.Intn(3)], 16),
		}
	} else {
		sc.Rx.Replicas = 3
		sc.Rx.Namespaces = []string{"default"}
		sc.Sources = []srcSpec{
			mkSrc("srcA", "default", modeQuad, 64),
			mkSrc("srcB", "default", modes[rng.Intn(3)], 512),
		}
	}
	for i := range sc.Sources {
		p := rng.Intn(3)
		sc.Senders = append(sc.Senders, senderSpec{Src: i, Path: paths[p]}, senderSpec{Src: i, Path: paths[(p+1+rng.Intn(2))%3]})
	}
	return sc
}

func genScenarios(c *vc.Ctx) (plain []scenarioCfg, raced []scenarioCfg) {
	rng := c.Rand(19)
	type kind struct{ profile, eng string }
	var kinds []kind
	if !c.Thorough() {
		kinds = []kind{{"single", "mem"}, {"three", "mem"}, {"single", "pebble"}, {"three-xfer", "mem"},
			{"single", "mem"}, {"three", "pebble"}, {"single", "pebble"}, {"three", "mem"},
			{"snapretry", "mem"}, {"three-xfer", "pebble"}}
	} else {
		base := []kind{{"single", "mem"}, {"three", "mem"}, {"single", "pebble"}, {"three", "pebble"}, {"snapretry", "mem"}, {"three-xfer", "mem"}, {"three-xfer", "pebble"}}
		for i := 0; i < 56; i++ {
			kinds = append(kinds, base[i%7])
		}
	}
	id := 0
	for _, k := range kinds {
		steps := c.Pick(130, 240)
		if k.profile != "single" {
			steps = c.Pick(100, 190)
		}
		if k.profile == "snapretry" {
			steps = c.Pick(70, 140)
		}
		sr := 0
		if (k.profile == "single" || k.profile == "snapretry") && (c.Thorough() || id%4 == 0) {
			sr = 1
		}
		plain = append(plain, genScenario(id, rng.Int63n(1<<40), k.profile, k.eng, steps, c.Pick(700, 1200), sr))
		id++
	}
	nr := c.Pick(3, 16)
	for i := 0; i < nr; i++ {
		k := []kind{{"single", "mem"}, {"three", "mem"}, {"three-xfer", "pebble"}, {"snapretry", "mem"}, {"single", "pebble"}, {"three", "pebble"}, {"three-xfer", "mem"}}[i%7]
		sc := genScenario(1000+i, rng.Int63n(1<<40), k.profile, k.eng, c.Pick(60, 120), c.Pick(300, 600), 0)
		sc.Name += "-race"
		raced = append(raced, sc)
	}
	return
}

// ------------------------------------------------------------ parent

type childProc struct {
	label   string
	variant string
	attempt int
	cfg     childCfg
	cfgPath string
	cmd     *exec.Cmd
	raceDir string
	logPath string
	err     error
	out     childOut
}

var procMu sync.Mutex
var procs []*exec.Cmd

func killAllChildren() {
	procMu.Lock()
	defer procMu.Unlock()
	for _, p := range procs {
		if p.Process != nil {
			syscall.Kill(-p.Process.Pid, syscall.SIGKILL)
			p.Process.Kill()
		}
	}
}

func startChild(c *vc.Ctx, cp *childProc, childName string, timeout time.Duration) {
	bin := vc.VariantBinary(cp.variant)
	if cp.variant == "plain" {
		// the binary that is running (development builds have their own name)
		if self, err := os.Executable(); err == nil {
			bin = self
		}
	}
	if _, err := os.Stat(bin); err != nil {
		cp.err = fmt.Errorf("binary %s missing: %v", bin, err)
		return
	}
	b, _ := json.Marshal(cp.cfg)
	cp.cfgPath = filepath.Join(c.Scratch, cp.label+".cfg.json")
	ioutil.WriteFile(cp.cfgPath, b, 0644)
	cp.logPath = filepath.Join(c.Scratch, cp.label+".stdout.log")
	lf, err := os.Create(cp.logPath)
	if err != nil {
		cp.err = err
		return
	}
	cmd := exec.Command(bin, "--child", childName, cp.cfgPath)
	cmd.Stdout = lf
	cmd.Stderr = lf
	cmd.Env = append(os.Environ(), "TMPDIR="+c.Scratch)
	if cp.variant == "race" {
		cp.raceDir = filepath.Join(c.Scratch, cp.label+"-race")
		os.MkdirAll(cp.raceDir, 0755)
		cmd.Env = append(cmd.Env, "GORACE=halt_on_error=0 log_path="+filepath.Join(cp.raceDir, "race"))
	}
	cmd.SysProcAttr = &syscall.SysProcAttr{Setpgid: true, Pdeathsig: syscall.SIGKILL}
	if err := cmd.Start(); err != nil {
		cp.err = err
		lf.Close()
		return
	}
	procMu.Lock()
	procs = append(procs, cmd)
	procMu.Unlock()
	cp.cmd = cmd
	done := make(chan error, 1)
	go func() { done <- cmd.Wait() }()
	select {
	case err := <-done:
		if err != nil {
			cp.err = fmt.Errorf("child %s exited: %v", cp.label, err)
		}
	case <-time.After(timeout):
		syscall.Kill(-cmd.Process.Pid, syscall.SIGKILL)
		cmd.Process.Kill()
		<-done
		cp.err = fmt.Errorf("child %s killed by watchdog after %v", cp.label, timeout)
	}
	lf.Close()
	if ob, err := ioutil.ReadFile(cp.cfg.Out); err == nil {
		json.Unmarshal(ob, &cp.out)
	}
}

func runC19(c *vc.Ctx) error {
	defer killAllChildren()
	c.Ev.Rule = "One execution = one receiver instance (real server.Server, single replica with 2 raft groups or 3 in-process replicas; engine mem or pebble; SnapCount 8..30) " +
		"fed by 2 senders per source cluster (2-3 source clusters, encodings: 4 requests per entry / one RedisReq per entry / one RedisV2Req per entry, with empty and conf-change entries and term changes) over the paths " +
		"ApplyRaftReqs-as-method, ApplyRaftReqs-over-gRPC and ProposeRawAndWaitFromSyncer. The plan (a function of VERIF_SEED, tier and scenario index) interleaves: batches of 1..260 entries offered in order, " +
		"replies dropped / calls cancelled or abandoned (the sender re-sends with the same or another batch size), sender restarts from an older cursor (stale and overlapping batches), two senders delivering the same range concurrently, " +
		"deliveries to a follower, leader transfers (also in the middle of a batch), graceful stop+start of a namespace node or of the whole server on the same directory (also in the middle of a batch), a follower kept down until it needs a raft snapshot, forced backups, " +
		"a remote snapshot whose files cannot be fetched (position must stay), in the snapretry scenarios (single replica, mem, one source) a remote snapshot of the source at an ordinal ahead of the receiver (a real checkpoint built by a second real server fed with the source entries) whose transfer succeeds, whose transferred backup is lost before the apply entry runs (apply fails: position must stay, checked at a quiescent point) and which the sender then ships again (receiver must equal the source at the snapshot ordinal, replay continues behind it), and quiescent checks. A sender never offers ordinal j before every i<j was acknowledged to it (or, after a restart, to a previous sender). " +
		"Oracles: at quiescent points (every running replica has applied == max commit before and after the read) the keys log/n/s/h.f of each source equal the model at the replica's synced position, positions never decrease between quiescent points (also across restarts) nor below an acknowledged ordinal; " +
		"GetSyncedRaft polled by the driver after every call, by a gRPC poller and by an in-process poller never decreases within one life of a node; effects read after a position on the same node cover that position. " +
		"evaluations = scenarios that ran to their final check; an execution is non-trivial when it contained >=1 delivery of an entry at or below the synced position read just before the call AND >=1 receiver restart or raft snapshot; " +
		"distinct = distinct sequences of (source, ordinal range, injected fault, outcome, receiver fault) fingerprints. " +
		"Thorough tier additionally: the same scenarios under -race (reports whose two accesses lie in remote_sync_mgr.go/node.go/grpc_api.go are violations race/<funcs>) and two end-to-end runs (mem, pebble) with the REAL sender: " +
		"source voter + role_log_syncer learner (test://127.0.0.1:<dest grpc>) + single-replica destination, one OS process each, 4 redis clients writing unique-id RPUSH/INCR/APPEND/HINCRBY groups to the source while learner and destination are stopped/started gracefully and killed -9 and respawned " +
		"(mem: also a learner kept down until the voter must send its snapshot, i.e. the remote snapshot transfer+apply path); oracle: at settle (destination synced index >= source applied index) destination content == source content for every written key, every id once."
	c.Ev.Assume("engines mem and pebble only (no verdict for rocksdb)")
	c.Ev.Assume("in-process receiver restarts are graceful (Close/Stop + start on the same directory); kill -9 of the receiver and of the real sender is covered only by the end-to-end variant (thorough tier)")
	c.Ev.Assume("remote snapshot transfers that succeed use the local-copy path of common.RunFileSync (SyncAddr empty) and the mem engine only (one-file checkpoints; the rsync path needs the source's daemon); the apply failure injected is 'transferred backup lost before the apply entry runs'")
	c.Ev.Assume("the receiver runs in syncer-only mode (stand-by cluster), so the timestamp conflict filter of master-master mode is not part of the checked mechanism")
	c.Ev.Assume("a transiently lower position reported right after a restart, while the node still replays its own log, is counted (transient_position_below_prestop_right_after_restart) but is not a violation: positions are compared within one life of a node and across restarts at quiescent points")
	c.Ev.Assume("replays re-execute the recorded scenario (same plan); goroutine timing of concurrent senders, cancel delays and leader-transfer offsets is re-sampled, so racy failures are approximately replayable")

	var plain, raced []scenarioCfg
	if c.Replay != "" {
		if eng, seed, ok := loadE2EReplay(c.Replay); ok {
			// end-to-end witness: same engine, same seed => same fault plan (process timing re-sampled)
			c.Seed = seed
			idx := 0
			if eng == "pebble" {
				idx = 1
			}
			absorbE2E(c, &e2eResult{Runs: []*e2eRunResult{runE2EOne(c, idx, eng)}})
			return nil
		}
		sc, variant, err := loadReplay(c.Replay)
		if err != nil {
			return err
		}
		if variant == "race" {
			raced = []scenarioCfg{sc}
		} else {
			plain = []scenarioCfg{sc}
		}
	} else {
		plain, raced = genScenarios(c)
	}
	if only := os.Getenv("VERIF_C19_ONLY"); only != "" { // development aid: run the scenarios whose name starts with one of the given prefixes
		filter := func(in []scenarioCfg) (out []scenarioCfg) {
			for _, sc := range in {
				for _, p := range strings.Split(only, ",") {
					if strings.HasPrefix(sc.Name, p+"-") {
						out = append(out, sc)
					}
				}
			}
			return
		}
		plain, raced = filter(plain), filter(raced)
	}
	logLevel := int32(common.LOG_WARN)
	if os.Getenv("VERIF_C19_LOG") == "info" {
		logLevel = common.LOG_INFO
	}
	// One child per group of scenarios, so that a child that dies (a port
	// collision with another check kills the whole process: rafthttp panics,
	// the redis listener calls os.Exit) only takes its own group with it; a
	// child that died with "address already in use" is relaunched with a fresh
	// port block for the scenarios that have no result yet (3 attempts).
	blocks := newPortBlocks(c.Seed)
	setPortBlock(blocks.next()) // the parent's own block (ports of the end-to-end processes)
	type group struct {
		label, variant string
		scs            []scenarioCfg
	}
	var groups []group
	split := func(label, variant string, scs []scenarioCfg, size int) {
		for i := 0; i < len(scs); i += size {
			j := i + size
			if j > len(scs) {
				j = len(scs)
			}
			groups = append(groups, group{fmt.Sprintf("%s%d", label, i/size), variant, scs[i:j]})
		}
	}
	split("plain", "plain", plain, 4)
	split("race", "race", raced, c.Pick(3, 4))
	timeout := time.Duration(c.Pick(140, 600)) * time.Second
	// at most this many children of a kind at a time (quick: all of them)
	sem := map[string]chan struct{}{"plain": make(chan struct{}, c.Pick(8, 2)), "race": make(chan struct{}, c.Pick(4, 1))}
	var mu sync.Mutex
	var finished []*childProc
	var raceDirs []string
	var wg sync.WaitGroup
	for _, g := range groups {
		wg.Add(1)
		go func(g group) {
			defer wg.Done()
			sem[g.variant] <- struct{}{}
			defer func() { <-sem[g.variant] }()
			todo := g.scs
			for attempt := 1; attempt <= 3 && len(todo) > 0; attempt++ {
				label := fmt.Sprintf("%s-a%d", g.label, attempt)
				base, span := blocks.next()
				cp := &childProc{label: label, variant: g.variant, attempt: attempt,
					cfg: childCfg{Scenarios: todo, Parallel: len(todo), Dir: filepath.Join(c.Scratch, label), Out: filepath.Join(c.Scratch, label+".out.json"),
						LogLevel: logLevel, PortBase: base, PortSpan: span, FakeCollision: attempt == 1 && os.Getenv("VERIF_C19_FAKE_COLLISION") != ""}}
				startChild(c, cp, "c19-run", timeout)
				got := map[int]bool{}
				for _, res := range cp.out.Results {
					got[res.ID] = true
				}
				var rest []scenarioCfg
				for _, sc := range todo {
					if !got[sc.ID] {
						rest = append(rest, sc)
					}
				}
				retry := len(rest) > 0 && attempt < 3 && logHas(cp.logPath, "address already in use")
				mu.Lock()
				finished = append(finished, cp)
				if cp.raceDir != "" {
					raceDirs = append(raceDirs, cp.raceDir)
				}
				if retry {
					c.Ev.Count("children_relaunched_after_port_collision", 1)
					// the scenarios without result are taken over by the next attempt
					cp.cfg.Scenarios = nil
					for _, sc := range todo {
						if got[sc.ID] {
							cp.cfg.Scenarios = append(cp.cfg.Scenarios, sc)
						}
					}
				}
				mu.Unlock()
				if !retry {
					break
				}
				todo = rest
			}
		}(g)
	}
	var e2eRes *e2eResult
	if c.Thorough() && c.Replay == "" && os.Getenv("VERIF_C19_NO_E2E") == "" {
		wg.Add(1)
		go func() {
			defer wg.Done()
			e2eRes = runE2E(c)
		}()
	}
	wg.Wait()

	c.Ev.Count("children_started", int64(len(finished)))
	for _, cp := range finished {
		got := map[int]bool{}
		for _, res := range cp.out.Results {
			got[res.ID] = true
			absorb(c, cp, res)
		}
		for _, sc := range cp.cfg.Scenarios {
			if !got[sc.ID] {
				c.Inconclusive(fmt.Sprintf("scenario %s produced no result (%v); child log kept in %s", sc.Name, cp.err, keepLog(c, cp)))
			}
		}
	}
	if len(raceDirs) > 0 {
		absorbRace(c, raceDirs)
	}
	if e2eRes != nil {
		absorbE2E(c, e2eRes)
	}
	if os.Getenv("VERIF_C19_KEEP") != "" {
		for _, cp := range finished {
			fmt.Printf("kept log of %s: %s\n", cp.label, keepLog(c, cp))
		}
	}
	return nil
}

func logHas(path, needle string) bool {
	b, err := ioutil.ReadFile(path)
	return err == nil && strings.Contains(string(b), needle)
}

// portBlocks hands out disjoint port blocks below the ephemeral range
// (32768..60999 here, so that outgoing connections of other processes cannot
// take a probed port); the first block is a function of seed, pid and time so
// that concurrently running checks rarely share one.
type portBlocks struct {
	mu   sync.Mutex
	cur  int
	span int
}

const (
	portLo = 20000
	portHi = 32000
)

func newPortBlocks(seed int64) *portBlocks {
	span := 200
	n := (portHi - portLo) / span
	h := uint64(seed)*2654435761 + uint64(os.Getpid())*40503 + uint64(time.Now().UnixNano()/1000)
	return &portBlocks{cur: int(h % uint64(n)), span: span}
}

func (pb *portBlocks) next() (int, int) {
	pb.mu.Lock()
	defer pb.mu.Unlock()
	n := (portHi - portLo) / pb.span
	base := portLo + (pb.cur%n)*pb.span
	pb.cur++
	return base, pb.span
}

func keepLog(c *vc.Ctx, cp *childProc) string {
	dir := filepath.Join(vc.VerifDir, "replays", "C19")
	os.MkdirAll(dir, 0755)
	dst := filepath.Join(dir, fmt.Sprintf("childlog-%s-seed%d-%s.log", c.Tier, c.Seed, cp.label))
	var buf []byte
	for _, p := range []string{cp.logPath, filepath.Join(cp.cfg.Dir, "repo.log")} {
		if b, err := ioutil.ReadFile(p); err == nil {
			if len(b) > 4<<20 {
				b = b[len(b)-(4<<20):]
			}
			buf = append(buf, []byte("\n===== "+p+" =====\n")...)
			buf = append(buf, b...)
		}
	}
	ioutil.WriteFile(dst, buf, 0644)
	return dst
}

func absorb(c *vc.Ctx, cp *childProc, res scenarioResult) {
	for _, k := range sortedKeys(res.Counters) {
		c.Ev.Count(k, res.Counters[k])
	}
	for _, k := range sortedKeys(res.Maxes) {
		c.Ev.Max(k, res.Maxes[k])
	}
	for _, v := range res.Violations {
		w := map[string]interface{}{"variant": cp.variant, "detail": v.Witness}
		c.Violation(v.Sig, v.Summary, w)
	}
	if len(res.Violations) > 0 {
		c.Ev.Eval()
		return
	}
	if res.Inconclusive != "" {
		c.Inconclusive(fmt.Sprintf("scenario %s: %s", res.Name, res.Inconclusive))
		return
	}
	c.Ev.Eval()
	c.Ev.Count("scenarios_"+cp.variant, 1)
	if res.Nontrivial {
		c.Ev.Nontrivial(res.Fingerprint)
	}
	c.Ev.Sample(3, res.Sample)
	c.Ev.Max("scenario_wall_s_max", int64(res.WallS))
}

func loadE2EReplay(path string) (string, int64, bool) {
	var doc struct {
		Witness struct {
			Engine string   `json:"engine"`
			Seed   int64    `json:"seed"`
			Events []string `json:"events"`
		} `json:"witness"`
	}
	b, err := ioutil.ReadFile(path)
	if err != nil || json.Unmarshal(b, &doc) != nil || doc.Witness.Engine == "" || len(doc.Witness.Events) == 0 {
		return "", 0, false
	}
	return doc.Witness.Engine, doc.Witness.Seed, true
}

func loadReplay(path string) (scenarioCfg, string, error) {
	var doc struct {
		Witness struct {
			Variant string `json:"variant"`
			Detail  struct {
				Scenario scenarioCfg `json:"scenario"`
			} `json:"detail"`
		} `json:"witness"`
	}
	b, err := ioutil.ReadFile(path)
	if err != nil {
		return scenarioCfg{}, "", err
	}
	if err := json.Unmarshal(b, &doc); err != nil {
		return scenarioCfg{}, "", err
	}
	if doc.Witness.Detail.Scenario.Name == "" {
		return scenarioCfg{}, "", fmt.Errorf("replay file %s carries no scenario", path)
	}
	return doc.Witness.Detail.Scenario, doc.Witness.Variant, nil
}
