package pdlab

import (
	"encoding/json"
	"fmt"
	"math/rand"
	"os"
	"runtime"
	"strings"
	"sync"
	"time"
)

// Live sequences: the balance path (rebalanceNamespace ->
// addNodeToNamespaceAndWaitReady) and the node-decommission path
// (processRemovingNodes) contain literal time.After(5 s) waits. They run
// unmodified in their own goroutine (the role of the DoBalance /
// handleRemovingNodes goroutines of the real pd), while the scheduler thread
// plays the checkNamespaces and handleDataNodes goroutines: every tick (real
// time) it executes one seeded event: the fake nodes follow the metadata, a
// full doCheckNamespaces runs, a node fails or returns, a sync answer flips.
// The world therefore changes concurrently with the coordinator's decisions;
// the monitor uses its windowed observations for the two clauses that refer
// to "what the nodes report" / "which nodes are reachable" (see monitor.go).

var liveWeights = mkWeights(map[string]int{
	"check": 30, "world": 40, "scan": 6, "crash": 2, "ttl": 2, "restart": 4, "new_node": 2, "flip": 4, "reg_fail": 1,
})

var debugLive = os.Getenv("PDLAB_DEBUG") != ""

const liveTick = 120 * time.Millisecond
const liveRoundWatchdog = 100 * time.Second
const liveHealAfter = 9 * time.Second
const liveBlockedCut = 25 * time.Second

func (l *lab) runLive(n int) {
	// up to 16 live instances at a time (they mostly sleep)
	sem := make(chan struct{}, 16)
	var wg sync.WaitGroup
	for i := 0; i < n; i++ {
		wg.Add(1)
		sem <- struct{}{}
		go func(i int) {
			defer wg.Done()
			defer func() { <-sem }()
			defer func() {
				if r := recover(); r != nil {
					l.c.Inconclusive(fmt.Sprintf("live sequence %d: harness panic: %v", i, r))
				}
			}()
			l.runLiveOne(i)
		}(i)
	}
	wg.Wait()
}

func genLiveParams(l *lab, i int) (Params, *rand.Rand) {
	p, r := genParams(l.c, i, "live")
	// the balance path needs spare nodes and something to move
	p.Nodes = 4 + r.Intn(6)
	if p.Replica >= p.Nodes {
		p.Replica = p.Nodes - 1
	}
	if p.Replica > 4 {
		p.Replica = 3
	}
	// every partition that has to move costs at least one literal 5 s wait
	p.Partitions = 2 + r.Intn(l.c.Pick(1, 2))
	p.BalanceVer = ""
	if r.Intn(2) == 0 {
		p.BalanceVer = "v2"
	}
	p.InitLayout, p.InitRemoving = nil, nil
	switch x := r.Intn(10); {
	case x < 5:
		// all partitions packed on the same nodes: the balance path has replicas to move
		p.InitKind = "packed"
		perm := r.Perm(p.Nodes)
		for pid := 0; pid < p.Partitions; pid++ {
			var lst []int
			for _, x := range perm[:p.Replica] {
				lst = append(lst, x+1)
			}
			p.InitLayout = append(p.InitLayout, lst)
			p.InitRemoving = append(p.InitRemoving, 0)
		}
	case x < 8:
		p.InitKind = "exact"
		for pid := 0; pid < p.Partitions; pid++ {
			perm := r.Perm(p.Nodes)
			var lst []int
			for _, x := range perm[:p.Replica] {
				lst = append(lst, x+1)
			}
			p.InitLayout = append(p.InitLayout, lst)
			p.InitRemoving = append(p.InitRemoving, 0)
		}
	default:
		p.InitKind = "alloc"
	}
	p.NEvents = l.c.Pick(4, 5) // balance rounds
	return p, r
}

func (l *lab) runLiveOne(i int) {
	p, r := genLiveParams(l, i)
	in, err := newInstance(p, l.c.Scratch)
	if err != nil {
		l.c.Inconclusive(fmt.Sprintf("live sequence %d: setup failed: %v", i, err))
		return
	}
	defer in.close()
	step := func(ev Event) bool {
		in.mu.Lock()
		in.curEvent = len(in.events)
		in.mu.Unlock()
		in.events = append(in.events, ev)
		in.exec(&in.events[in.curEvent])
		in.mu.Lock()
		stop := len(in.mon.found) > 0
		if debugLive {
			fmt.Printf("#### event %d %s\n", in.curEvent, evStr(in.events, in.curEvent))
			for _, k := range in.reg.partKeysLocked() {
				ri, _ := in.reg.currentReplicaLocked(k.ns, k.pid)
				b, _ := json.Marshal(in.mon.view(ri))
				fmt.Printf("####   %s %s\n", k, b)
			}
		}
		in.mu.Unlock()
		return stop || in.coordPanic != ""
	}
	// the cluster becomes stable by two full checks
	stopped := step(Event{Kind: "check"}) || step(Event{Kind: "check"})
	markNodeAt := -1
	if r.Intn(10) < 5 {
		markNodeAt = r.Intn(p.NEvents)
	}
	conclusive := true
	cut := false
	for round := 0; round < p.NEvents && !stopped; round++ {
		if round == markNodeAt {
			// decommission a node that holds a replica
			node := 1 + r.Intn(len(in.w.nodes))
			in.mu.Lock()
			if ri, ok := in.reg.currentReplicaLocked(p.NS, r.Intn(p.Partitions)); ok && len(ri.RaftNodes) > 0 {
				node = idxs(ri.RaftNodes)[r.Intn(len(ri.RaftNodes))]
			}
			in.mu.Unlock()
			stopped = step(Event{Kind: "mark_node", Node: node})
		} else if r.Intn(10) < 4 {
			stopped = step(Event{Kind: "new_node"})
		}
		// let the cluster become stable again (two full checks with the nodes following in between)
		for k := 0; k < 3 && !stopped; k++ {
			stopped = step(Event{Kind: "world", Acts: in.genWorldActs(r)}) || step(Event{Kind: "check"})
		}
		if stopped {
			break
		}
		done := make(chan string, 1)
		removing := in.coord.VerifRemovingNodes()
		kind := "balance_round"
		if len(removing) > 0 {
			kind = "removing_nodes_round"
		}
		in.mu.Lock()
		in.curEvent = len(in.events)
		in.mu.Unlock()
		in.events = append(in.events, Event{Kind: kind, Arg: round})
		in.counts["ev_"+kind]++
		roundEv := in.curEvent
		go func() {
			res := ""
			in.guardBG(kind, func() {
				if len(removing) > 0 {
					in.coord.VerifProcessRemovingNodes(in.monitorChan, removing)
					res = fmt.Sprintf("removing=%v", len(in.coord.VerifRemovingNodes()))
				} else {
					moved, balanced := in.coord.VerifRebalanceNamespace(in.monitorChan)
					res = fmt.Sprintf("moved=%v balanced=%v", moved, balanced)
				}
			})
			done <- res
		}()
		begin := time.Now()
		running := true
		var blockedSince time.Time
		for running && !stopped {
			select {
			case res := <-done:
				in.events[roundEv].Res = res
				running = false
				in.mu.Lock()
				if in.bgPanic != "" {
					in.coordPanic = in.bgPanic
					stopped = true
				}
				in.mu.Unlock()
			case <-time.After(liveTick):
				// the etcd register rescans its cache shortly after every change (watch trigger, 3 s ticker)
				in.mu.Lock()
				in.reg.backgroundScanLocked()
				in.mu.Unlock()
				// The balance goroutine holds balanceWaiting while it waits (without bound) for the node
				// it added to become ready. If that node is meanwhile marked for removal, nobody can finish
				// the removal (doCheckNamespaces skips removeNamespaceFromRemovings while balanceWaiting is
				// set) and the wait never ends. That state is recognised here and ends the instance; all
				// writes up to it have been judged, so the sequence stays conclusive.
				if in.balanceBlockedByRemoving() {
					if blockedSince.IsZero() {
						blockedSince = time.Now()
					}
				} else {
					blockedSince = time.Time{}
				}
				if !blockedSince.IsZero() && time.Since(blockedSince) > liveBlockedCut {
					close(in.monitorChan)
					l.waitBG(in, done)
					in.events[roundEv].Res = "cut: balance waits for a node that is marked for removal; removal cannot finish while balanceWaiting is set"
					in.counts["live_rounds_cut_balance_wait_vs_pending_removal"]++
					running = false
					stopped = true
					cut = true
					break
				}
				if time.Since(begin) > liveRoundWatchdog {
					// generous watchdog: give up on this instance without a verdict
					close(in.monitorChan)
					l.waitBG(in, done)
					conclusive = false
					running = false
					stopped = true
					l.c.Inconclusive(fmt.Sprintf("live sequence %d: round %d exceeded the watchdog", i, round))
					break
				}
				if time.Since(begin) > liveHealAfter {
					// the round has seen enough trouble: from now on only healing events, so that the
					// coordinator's unbounded "wait until the added node is ready" loop terminates
					stopped = step(in.genHealEvent(r))
				} else {
					stopped = step(in.genEvent(r, liveWeights))
				}
			}
		}
		if cut {
			break
		}
		if running {
			// a violation or a coordinator panic ended the sequence: stop the background call
			close(in.monitorChan)
			l.waitBG(in, done)
			break
		}
		in.mu.Lock()
		in.counts["live_round_ms_total"] += time.Since(begin).Milliseconds()
		in.mu.Unlock()
		if debugLive {
			fmt.Printf("debug live %d round %d %s: %s in %.1fs (events so far %d)\n", i, round, kind, in.events[roundEv].Res, time.Since(begin).Seconds(), len(in.events))
		}
		// between rounds: let removals finish, nodes catch up, the cluster become stable again
		for k := 0; k < 12 && !stopped; k++ {
			time.Sleep(liveTick / 4)
			switch k % 3 {
			case 0:
				stopped = step(Event{Kind: "world", Acts: in.genWorldActs(r)})
			case 1:
				stopped = step(Event{Kind: "check"})
			default:
				stopped = step(in.genEvent(r, liveWeights))
			}
		}
	}
	if debugLive {
		fmt.Printf("debug live %d finished, %d events\n", i, len(in.events))
	}
	l.finish(in, conclusive)
}

// guardBG is guard for the background goroutine (the panic text is written
// under the instance lock because the scheduler thread reads it).
func (in *instance) guardBG(name string, fn func()) {
	defer func() {
		if r := recover(); r != nil {
			in.mu.Lock()
			in.bgPanic = fmt.Sprintf("%s: %v", name, r)
			in.mu.Unlock()
		}
	}()
	fn()
}

// genHealEvent: restart a dead node, undo a sync flip, otherwise let the nodes
// follow the metadata / run a check.
func (in *instance) genHealEvent(r *rand.Rand) Event {
	in.mu.Lock()
	defer in.mu.Unlock()
	for _, n := range in.w.nodes {
		if !n.httpUp || !n.listed {
			return Event{Kind: "restart", Node: n.idx}
		}
	}
	for _, n := range in.w.nodes {
		for d, v := range n.notSynced {
			if v == 2 {
				_, pid := splitDesp(d)
				return Event{Kind: "flip", Node: n.idx, Pid: pid}
			}
		}
	}
	if r.Intn(3) == 0 {
		return Event{Kind: "check"}
	}
	return Event{Kind: "world", Acts: in.genWorldActsLocked(r)}
}

// balanceBlockedByRemoving: the balance flag is held and in some partition the
// most recently added raft node is marked for removal.
func (in *instance) balanceBlockedByRemoving() bool {
	if in.coord.VerifBalanceWaiting() == 0 {
		return false
	}
	in.mu.Lock()
	defer in.mu.Unlock()
	for _, k := range in.reg.partKeysLocked() {
		if ri, ok := in.reg.currentReplicaLocked(k.ns, k.pid); ok {
			for nid := range ri.Removings {
				// the most recently added replica (the one a balance step would be waiting for)
				if int64(ri.RaftIDs[nid]) == ri.MaxRaftID {
					return true
				}
			}
		}
	}
	return false
}

// waitBG waits for the background coordinator call to return after the
// monitor channel was closed. All its waits select on that channel, so this
// is immediate; if it is not, the stacks are printed and the instance is
// abandoned without a verdict.
func (l *lab) waitBG(in *instance, done chan string) {
	select {
	case <-done:
	case <-time.After(90 * time.Second):
		buf := make([]byte, 1<<20)
		buf = buf[:runtime.Stack(buf, true)]
		var keep []string
		for _, g := range strings.Split(string(buf), "\n\n") {
			if strings.Contains(g, "pdnode_coord.") {
				keep = append(keep, g)
			}
		}
		out := strings.Join(keep, "\n\n")
		if len(out) > 6000 {
			out = out[:6000]
		}
		l.c.Inconclusive(fmt.Sprintf("live sequence %d: background coordinator call did not return 90 s after the monitor channel was closed:\n%s", in.p.Index, out))
	}
}
