package pdlab

import (
	"fmt"
	"math/rand"
	"runtime"
	"sort"
	"strconv"
	"sync"
	"time"

	"github.com/youzan/ZanRedisDB/cluster"
	"github.com/youzan/ZanRedisDB/cluster/pdnode_coord"
)

// Params fully describe the start state of one sequence.
type Params struct {
	Index      int    `json:"index"`
	Mode       string `json:"mode"` // sync | live
	Nodes      int    `json:"nodes"`
	Replica    int    `json:"replica"`
	Partitions int    `json:"partitions"`
	BalanceVer string `json:"balance_ver"`
	InitKind   string `json:"init_kind"` // alloc | exact | extra | short | removing
	NS         string `json:"ns"`
	NEvents    int    `json:"n_events"`
	// InitLayout: per partition the node indexes (1-based) of the initial raft nodes;
	// InitRemoving: per partition a node index marked for removal at start (0 = none).
	InitLayout   [][]int `json:"init_layout"`
	InitRemoving []int   `json:"init_removing"`
}

// Event is one concrete scheduler step. Node/Pid/Arg are concrete so that a
// recorded list can be re-executed literally.
type Event struct {
	Kind string        `json:"k"`
	Node int           `json:"n,omitempty"`
	Pid  int           `json:"p,omitempty"`
	Arg  int           `json:"a,omitempty"`
	Acts []worldAction `json:"acts,omitempty"`
	Res  string        `json:"r,omitempty"` // outcome (informational)
}

type savedInfo struct {
	info *cluster.PartitionMetaInfo
}

type instance struct {
	mu sync.Mutex // guards reg, w, mon

	p     Params
	reg   *fakeReg
	w     *world
	mon   *monitor
	coord *pdnode_coord.PDCoordinator

	setup    bool
	live     bool
	curEvent int
	curKind  string // kind of the event being executed (sync sequences: the origin of a write)
	events   []Event

	waiting     map[string]map[int]time.Time
	monitorChan chan struct{}
	closedChan  chan struct{}                      // an already closed monitor channel ("the pd is just losing its leadership")
	saved       map[int]*cluster.PartitionMetaInfo // stale partition infos kept by the scheduler
	savedNodes  map[string]cluster.NodeInfo
	savedEpoch  int64
	hasSavedN   bool

	counts      map[string]int64
	coordPanic  string
	bgPanic     string // set by the background goroutine of a live sequence (under mu)
	setupFailed string
}

func newInstance(p Params, dataDir string) (*instance, error) {
	in := &instance{p: p, waiting: map[string]map[int]time.Time{}, monitorChan: make(chan struct{}),
		saved: map[int]*cluster.PartitionMetaInfo{}, counts: map[string]int64{}, live: p.Mode == "live"}
	in.closedChan = make(chan struct{})
	close(in.closedChan)
	in.reg = newFakeReg(in)
	in.w = newWorld(in)
	in.mon = newMonitor(in)
	me := &cluster.NodeInfo{NodeIP: "127.0.0.1", HttpPort: "1", RedisPort: "2", RegID: 100000}
	in.coord = pdnode_coord.NewPDCoordinator("verif-c18", me, &cluster.Options{
		AutoBalanceAndMigrate: true, BalanceStart: 0, BalanceEnd: 24, BalanceVer: p.BalanceVer, DataDir: dataDir})
	in.coord.SetRegister(in.reg)
	in.coord.VerifBecomeLeader()
	if err := in.doSetup(); err != nil {
		in.close()
		return nil, err
	}
	return in, nil
}

func (in *instance) close() {
	in.w.closeAll()
}

// presentNodes hands the current listing to the coordinator (what the
// register's data node watch would deliver), and lets the monitor observe.
func (in *instance) presentNodes() {
	in.mu.Lock()
	l := in.w.listedInfosLocked()
	in.reg.dataNodes = l
	in.w.version++
	in.mon.observeLocked()
	in.mu.Unlock()
	in.coord.VerifSetDataNodes(l, true)
}

func (in *instance) worldChanged() {
	in.mu.Lock()
	in.w.version++
	in.mon.observeLocked()
	in.mu.Unlock()
}

func (in *instance) doSetup() error {
	p := &in.p
	in.setup = true
	defer func() { in.setup = false }()
	for i := 0; i < p.Nodes; i++ {
		if _, err := in.w.addNode(true); err != nil {
			return err
		}
	}
	in.presentNodes()
	meta := cluster.NamespaceMetaInfo{PartitionNum: p.Partitions, Replica: p.Replica, EngType: "rockredis", SnapCount: 100}
	gid, err := in.reg.PrepareNamespaceMinGID()
	if err != nil {
		return err
	}
	meta.MinGID = gid
	meta.MagicCode = 1
	if err := in.reg.CreateNamespace(p.NS, &meta); err != nil {
		return err
	}
	for pid := 0; pid < p.Partitions; pid++ {
		if err := in.reg.CreateNamespacePartition(p.NS, pid); err != nil {
			return err
		}
	}
	var infos []cluster.PartitionReplicaInfo
	if p.InitKind == "alloc" && p.InitLayout == nil {
		// the real allocation code on the presented node set
		l, cerr := in.coord.VerifAllocNamespaceRaftNodes(p.NS, in.coord.VerifGetCurrentNodes(nil), p.Replica, p.Partitions, nil)
		if cerr != nil {
			return fmt.Errorf("allocNamespaceRaftNodes: %v", cerr.String())
		}
		infos = l
		for _, ri := range l {
			p.InitLayout = append(p.InitLayout, idxs(ri.RaftNodes))
			p.InitRemoving = append(p.InitRemoving, 0)
		}
	} else {
		for pid := 0; pid < p.Partitions; pid++ {
			var ri cluster.PartitionReplicaInfo
			ri.RaftIDs = map[string]uint64{}
			ri.Removings = map[string]cluster.RemovingInfo{}
			for _, ni := range p.InitLayout[pid] {
				nid := in.w.nodes[ni-1].nid
				ri.RaftNodes = append(ri.RaftNodes, nid)
				ri.MaxRaftID++
				ri.RaftIDs[nid] = uint64(ri.MaxRaftID)
			}
			if rm := p.InitRemoving[pid]; rm > 0 {
				nid := in.w.nodes[rm-1].nid
				ri.Removings[nid] = cluster.RemovingInfo{RemoveTime: time.Now().UnixNano(), RemoveReplicaID: ri.RaftIDs[nid]}
			}
			infos = append(infos, ri)
		}
	}
	for pid := range infos {
		ri := infos[pid]
		if err := in.reg.UpdateNamespacePartReplicaInfo(p.NS, pid, &ri, 0); err != nil {
			return err
		}
		in.mu.Lock()
		in.w.initGroupLocked(partKey{p.NS, pid}.String(), &ri)
		in.mu.Unlock()
	}
	in.mu.Lock()
	in.reg.backgroundScanLocked()
	in.mon.observeLocked()
	in.mu.Unlock()
	return nil
}

// guard runs a coordinator call; a panic inside the real code ends the
// sequence (the real pd would have died) and is reported as evidence, it is
// not a verdict about C18.
func (in *instance) guard(name string, fn func()) {
	defer func() {
		if r := recover(); r != nil {
			buf := make([]byte, 1<<13)
			buf = buf[:runtime.Stack(buf, false)]
			in.coordPanic = fmt.Sprintf("%s: %v\n%s", name, r, buf)
		}
	}()
	fn()
}

func (in *instance) desp(pid int) string { return partKey{in.p.NS, pid}.String() }

// freshInfo returns a copy of the partition info as doCheckNamespaces gets it
// (GetAllNamespaces: rescans when the changed flag is set).
func (in *instance) freshInfo(pid int) *cluster.PartitionMetaInfo {
	all, _, err := in.reg.GetAllNamespaces()
	if err != nil {
		return nil
	}
	parts, ok := all[in.p.NS]
	if !ok {
		return nil
	}
	pi, ok := parts[pid]
	if !ok {
		return nil
	}
	return pi.GetCopy()
}

func errStr(e *cluster.CoordErr) string {
	if e == nil {
		return "ok"
	}
	return e.ErrMsg
}

// exec executes one concrete event.
func (in *instance) exec(ev *Event) {
	in.counts["ev_"+ev.Kind]++
	in.mu.Lock()
	in.curKind = ev.Kind
	in.mu.Unlock()
	switch ev.Kind {
	case "crash": // the process dies; Arg=1: its register key disappears at once
		n := in.node(ev.Node)
		if n == nil {
			return
		}
		in.mu.Lock()
		n.httpUp = false
		if ev.Arg == 1 {
			n.listed = false
		}
		in.mu.Unlock()
		if ev.Arg == 1 {
			in.presentNodes()
		} else {
			in.worldChanged()
		}
	case "ttl": // register keys of dead processes expire
		in.mu.Lock()
		ch := false
		for _, n := range in.w.nodes {
			if !n.httpUp && n.listed {
				n.listed = false
				ch = true
			}
		}
		in.mu.Unlock()
		if ch {
			in.presentNodes()
		}
	case "delist": // register key lost although the process answers (etcd session trouble)
		n := in.node(ev.Node)
		if n == nil {
			return
		}
		in.mu.Lock()
		n.listed = false
		in.mu.Unlock()
		in.presentNodes()
	case "restart": // the process comes (back) up and registers; Arg=1: it has to catch up first
		n := in.node(ev.Node)
		if n == nil {
			return
		}
		in.mu.Lock()
		wasUp := n.httpUp
		n.httpUp = true
		n.listed = true
		if !wasUp && ev.Arg == 1 {
			for desp, g := range in.w.groups {
				if _, ok := g.members[n.info.RegID]; ok && n.notSynced[desp] == 0 {
					n.notSynced[desp] = 1
				}
			}
		}
		in.mu.Unlock()
		in.presentNodes()
	case "new_node":
		if len(in.w.nodes) >= 14 {
			return
		}
		if _, err := in.w.addNode(true); err == nil {
			ev.Node = len(in.w.nodes)
			in.presentNodes()
		}
	case "flip": // a node's answer to israftsynced flips
		n := in.node(ev.Node)
		if n == nil {
			return
		}
		in.mu.Lock()
		d := in.desp(ev.Pid)
		if n.notSynced[d] == 0 {
			n.notSynced[d] = 2
		} else {
			n.notSynced[d] = 0
		}
		in.mu.Unlock()
		in.worldChanged()
	case "world": // the fake data nodes execute (part of) the metadata
		in.mu.Lock()
		for _, a := range ev.Acts {
			var pid int
			var ns string
			ns, pid = splitDesp(a.Desp)
			if ri, ok := in.reg.currentReplicaLocked(ns, pid); ok {
				in.w.applyActionLocked(a, ri)
				in.counts["world_"+a.Kind]++
			}
		}
		in.mon.observeLocked()
		in.mu.Unlock()
	case "scan":
		in.mu.Lock()
		in.reg.backgroundScanLocked()
		in.mu.Unlock()
	case "reg_fail":
		in.mu.Lock()
		in.reg.failWrites = 1
		in.mu.Unlock()
	case "check": // doCheckNamespaces; Arg=0 full check, Arg=1 single partition (from the register cache)
		in.guard("doCheckNamespaces", func() {
			if ev.Arg == 1 {
				fi := &cluster.NamespaceNameInfo{NamespaceName: in.p.NS, NamespacePartition: ev.Pid}
				in.coord.VerifDoCheckNamespaces(in.monitorChan, fi, in.waiting, false)
			} else {
				in.coord.VerifDoCheckNamespaces(in.monitorChan, nil, in.waiting, true)
			}
		})
	case "save": // the scheduler keeps a copy of a partition info (and of the node set) for a later stale call
		if pi := in.freshInfo(ev.Pid); pi != nil {
			in.saved[ev.Pid] = pi
		}
		in.savedNodes, in.savedEpoch = in.coord.VerifGetCurrentNodesWithEpoch(nil)
		in.hasSavedN = true
	case "migrate": // handleNamespaceMigrate as doCheckNamespaces calls it; Arg&1: stale partition info; Arg&2: stale node set
		pi := in.pickInfo(ev.Pid, ev.Arg&1 != 0)
		if pi == nil {
			return
		}
		nodes, epoch := in.coord.VerifGetCurrentNodesWithEpoch(pi.Tags)
		if ev.Arg&2 != 0 && in.hasSavedN {
			nodes, epoch = in.savedNodes, in.savedEpoch
		}
		in.guard("handleNamespaceMigrate", func() {
			ev.Res = errStr(in.coord.VerifHandleNamespaceMigrate(pi, nodes, epoch))
		})
	case "finish": // removeNamespaceFromRemovings as doCheckNamespaces calls it
		pi := in.pickInfo(ev.Pid, ev.Arg&1 != 0)
		if pi == nil || len(pi.Removings) == 0 {
			return
		}
		in.guard("removeNamespaceFromRemovings", func() {
			in.coord.VerifRemoveNamespaceFromRemovings(pi)
		})
	case "add": // addNamespaceToNode under the conditions of its call site (addNodeToNamespaceAndWaitReady)
		var pi *cluster.PartitionMetaInfo
		if ev.Arg&1 != 0 {
			pi = in.saved[ev.Pid]
		} else {
			pi, _ = in.reg.GetNamespacePartInfo(in.p.NS, ev.Pid) // from the register cache, like the call site
		}
		n := in.node(ev.Node)
		if pi == nil || n == nil || cluster.FindSlice(pi.RaftNodes, n.nid) != -1 || len(pi.GetISR()) > pi.Replica {
			ev.Res = "precondition"
			return
		}
		in.guard("addNamespaceToNode", func() {
			if ok, err := pdnode_coord.IsAllISRFullReady(pi); err != nil || !ok {
				ev.Res = "isr-not-ready"
				return
			}
			ev.Res = errStr(in.coord.VerifAddNamespaceToNode(pi, n.nid))
		})
	case "remove": // removeNamespaceFromNode under the conditions of its call sites (balance / unwanted replica)
		pi := in.pickInfo(ev.Pid, ev.Arg&1 != 0)
		n := in.node(ev.Node)
		// rebalanceNamespace removes the unwanted replica right after the added one became ready
		// (every ISR node answered, lists the new member and is synced); a concurrent migrate may have
		// marked another replica meanwhile, so the partition info can carry a pending removal here.
		if pi == nil || n == nil || len(pi.RaftNodes) <= pi.Replica {
			ev.Res = "precondition"
			return
		}
		in.guard("removeNamespaceFromNode", func() {
			if ok, err := pdnode_coord.IsAllISRFullReady(pi); err != nil || !ok {
				ev.Res = "isr-not-ready"
				return
			}
			ev.Res = errStr(in.coord.VerifRemoveNamespaceFromNode(pi, n.nid))
		})
	case "balance_add":
		// The real call site of addNamespaceToNode in the balance path: addNodeToNamespaceAndWaitReady.
		// Its waits select on the monitor channel; with an already closed channel it performs exactly
		// one decision step (probe the replicas, add the node) and returns, so it can run synchronously.
		pi := in.pickInfo(ev.Pid, ev.Arg&1 != 0)
		if pi == nil || len(pi.GetISR()) > pi.Replica {
			ev.Res = "precondition"
			return
		}
		in.guard("addNodeToNamespaceAndWaitReady", func() {
			names := pdnode_coord.VerifGetNodeNameList(in.coord.VerifGetCurrentNodes(pi.Tags))
			_, err := in.coord.VerifAddNodeToNamespaceAndWaitReady(in.closedChan, pi, names)
			if err != nil {
				ev.Res = err.Error()
			}
		})
	case "proc_removing":
		// processRemovingNodes (node decommission), as handleRemovingNodes calls it; closed monitor
		// channel for the same reason as above.
		removing := in.coord.VerifRemovingNodes()
		if len(removing) == 0 {
			ev.Res = "precondition"
			return
		}
		in.guard("processRemovingNodes", func() {
			in.coord.VerifProcessRemovingNodes(in.closedChan, removing)
		})
	case "op_remove":
		// Operator API (pdserver HTTP): PDCoordinator.RemoveNamespaceFromNode at an arbitrary state.
		// Arg 0: Node is (usually) a current replica; 1: bad partition string; 2: partition out of range.
		n := in.node(ev.Node)
		if n == nil {
			return
		}
		pidStr := strconv.Itoa(ev.Pid)
		switch ev.Arg {
		case 1:
			pidStr = "x" + pidStr
		case 2:
			pidStr = strconv.Itoa(ev.Pid + 1000)
		}
		in.mu.Lock()
		if ri, ok := in.reg.currentReplicaLocked(in.p.NS, ev.Pid); ok && ev.Arg == 0 {
			cls := "op_remove_state"
			isr := len(ri.GetISR())
			switch {
			case cluster.FindSlice(ri.RaftNodes, n.nid) == -1:
				cls += "_non_member"
			case isr*2 > in.p.Replica && (isr-1)*2 <= in.p.Replica:
				cls += "_at_minimal_majority"
			case isr < in.p.Replica:
				cls += "_below_replica"
			case isr == in.p.Replica:
				cls += "_at_replica"
			default:
				cls += "_above_replica"
			}
			in.counts[cls]++
			if len(ri.Removings) > 0 {
				in.counts["op_remove_state_with_pending_removal"]++
			}
			if d := in.w.deadCountLocked(ri.RaftNodes); d > 0 {
				in.counts["op_remove_state_with_dead_replica"]++
				if d*2 > len(ri.RaftNodes) {
					in.counts["op_remove_state_with_majority_dead"]++
				}
			}
		}
		in.mu.Unlock()
		in.guard("RemoveNamespaceFromNode", func() {
			if err := in.coord.RemoveNamespaceFromNode(in.p.NS, pidStr, n.nid); err != nil {
				ev.Res = err.Error()
				in.counts["op_remove_refused"]++
			} else {
				ev.Res = "ok"
				in.counts["op_remove_ok"]++
			}
		})
	case "op_stable_num": // operator API: lower the stable node number to the number of nodes currently listed
		in.mu.Lock()
		cnt := len(in.w.listedInfosLocked())
		in.mu.Unlock()
		if err := in.coord.SetClusterStableNodeNum(cnt); err != nil {
			ev.Res = err.Error()
		}
	case "op_autobalance": // operator API: switch automatic balance/migration off (Arg 0) or on (Arg 1)
		in.coord.SwitchAutoBalance(ev.Arg == 1)
	case "mark_node": // admin API: decommission a node
		n := in.node(ev.Node)
		if n != nil {
			in.coord.MarkNodeAsRemoving(n.nid)
		}
	}
}

func splitDesp(d string) (string, int) {
	for i := len(d) - 1; i >= 0; i-- {
		if d[i] == '-' {
			pid := 0
			fmt.Sscanf(d[i+1:], "%d", &pid)
			return d[:i], pid
		}
	}
	return d, 0
}

func (in *instance) node(i int) *fnode {
	if i < 1 || i > len(in.w.nodes) {
		return nil
	}
	return in.w.nodes[i-1]
}

func (in *instance) pickInfo(pid int, stale bool) *cluster.PartitionMetaInfo {
	if stale {
		if s, ok := in.saved[pid]; ok {
			return s.GetCopy()
		}
		return nil
	}
	return in.freshInfo(pid)
}

// ---- event generation (adaptive: looks at the state, records concrete events) ----

type weights struct {
	kinds []string
	w     []int
	total int
}

func mkWeights(m map[string]int) *weights {
	ws := &weights{}
	for k := range m {
		ws.kinds = append(ws.kinds, k)
	}
	sort.Strings(ws.kinds)
	for _, k := range ws.kinds {
		ws.w = append(ws.w, m[k])
		ws.total += m[k]
	}
	return ws
}

func (ws *weights) pick(r *rand.Rand) string {
	x := r.Intn(ws.total)
	for i, w := range ws.w {
		if x < w {
			return ws.kinds[i]
		}
		x -= w
	}
	return ws.kinds[0]
}

// opRemoveWithMajorityDead: the operator API RemoveNamespaceFromNode is also issued while more than
// half of the partition's replicas are absent from the presented node list. On the unchanged tree the
// API then marks the removal (removeNamespaceFromNode has no liveness guard of its own; only
// handleNamespaceMigrate has one), which the monitor reports as
// removal-marked-with-majority-unreachable/op_remove (see known_findings.json).
const opRemoveWithMajorityDead = true

var syncWeights = mkWeights(map[string]int{
	"check": 30, "world": 26, "scan": 3, "crash": 6, "ttl": 5, "restart": 7, "new_node": 2, "flip": 5,
	"migrate": 5, "finish": 3, "add": 2, "remove": 3, "save": 2, "delist": 1, "reg_fail": 1, "mark_node": 1,
	"balance_add": 3, "proc_removing": 3, "op_remove": 5, "op_stable_num": 1, "op_autobalance": 1,
})

// genEvent chooses the next event from the current state.
func (in *instance) genEvent(r *rand.Rand, ws *weights) Event {
	kind := ws.pick(r)
	ev := Event{Kind: kind}
	nNodes := len(in.w.nodes)
	in.mu.Lock()
	var up, down []int
	delistedUp := 0
	for _, n := range in.w.nodes {
		if n.httpUp {
			up = append(up, n.idx)
			if !n.listed {
				delistedUp++
			}
		} else {
			down = append(down, n.idx)
		}
	}
	in.mu.Unlock()
	ev.Pid = r.Intn(in.p.Partitions)
	switch kind {
	case "crash":
		// keep most of the cluster up most of the time
		if len(up) == 0 || (len(down) >= 2 && r.Intn(4) != 0) || (len(down) >= 1 && r.Intn(3) == 0) {
			return in.genFallback(r)
		}
		ev.Node = up[r.Intn(len(up))]
		ev.Arg = r.Intn(2)
	case "delist":
		// at most one node at a time is "answering but without a register key" (see assumptions)
		if len(up) == 0 || delistedUp > 0 {
			return in.genFallback(r)
		}
		ev.Node = up[r.Intn(len(up))]
	case "restart":
		if len(down) == 0 || r.Intn(5) == 0 {
			ev.Node = 1 + r.Intn(nNodes) // may be a re-registration of a running (possibly delisted) node
		} else {
			ev.Node = down[r.Intn(len(down))]
		}
		ev.Arg = r.Intn(2)
	case "flip":
		ev.Node = 1 + r.Intn(nNodes)
	case "world":
		ev.Acts = in.genWorldActs(r)
	case "check":
		if r.Intn(8) == 0 {
			ev.Arg = 1
		}
	case "op_remove":
		ev.Node = 1 + r.Intn(nNodes)
		in.mu.Lock()
		majorityDead := false
		if ri, ok := in.reg.currentReplicaLocked(in.p.NS, ev.Pid); ok && len(ri.RaftNodes) > 0 {
			if r.Intn(8) != 0 {
				ev.Node = int(cluster.ExtractRegIDFromGenID(ri.RaftNodes[r.Intn(len(ri.RaftNodes))]))
			}
			majorityDead = in.w.deadCountLocked(ri.RaftNodes)*2 > len(ri.RaftNodes)
		}
		in.mu.Unlock()
		if !opRemoveWithMajorityDead && majorityDead {
			return in.genFallback(r)
		}
		if x := r.Intn(20); x == 0 {
			ev.Arg = 1
		} else if x == 1 {
			ev.Arg = 2
		}
	case "op_autobalance":
		if r.Intn(10) < 7 {
			ev.Arg = 1
		}
	case "proc_removing":
		if len(in.coord.VerifRemovingNodes()) == 0 {
			return in.genFallback(r)
		}
	case "mark_node":
		// decommissioning is rare, and one node at a time
		if len(in.coord.VerifRemovingNodes()) > 0 || r.Intn(3) != 0 {
			return in.genFallback(r)
		}
		ev.Node = 1 + r.Intn(nNodes)
	case "migrate", "finish", "remove", "balance_add":
		if r.Intn(5) == 0 {
			ev.Arg |= 1
		}
		if kind == "migrate" && r.Intn(8) == 0 {
			ev.Arg |= 2
		}
		if kind == "remove" {
			ev.Node = 1 + r.Intn(nNodes)
			// prefer a node that is a replica of the partition
			in.mu.Lock()
			if ri, ok := in.reg.currentReplicaLocked(in.p.NS, ev.Pid); ok && len(ri.RaftNodes) > 0 && r.Intn(6) != 0 {
				ev.Node = int(cluster.ExtractRegIDFromGenID(ri.RaftNodes[r.Intn(len(ri.RaftNodes))]))
			}
			in.mu.Unlock()
		}
	case "add":
		if r.Intn(6) == 0 {
			ev.Arg |= 1
		}
		ev.Node = 1 + r.Intn(nNodes)
		if len(up) > 0 && r.Intn(5) != 0 {
			ev.Node = up[r.Intn(len(up))]
		}
	}
	return ev
}

func (in *instance) genFallback(r *rand.Rand) Event {
	if r.Intn(2) == 0 {
		return Event{Kind: "check"}
	}
	return Event{Kind: "world", Acts: in.genWorldActs(r)}
}

// genWorldActs: each pending data-node action happens with probability 0.7
// (the scheduler-chosen delay of the closed loop).
func (in *instance) genWorldActs(r *rand.Rand) []worldAction {
	in.mu.Lock()
	defer in.mu.Unlock()
	return in.genWorldActsLocked(r)
}

func (in *instance) genWorldActsLocked(r *rand.Rand) []worldAction {
	var acts []worldAction
	for _, k := range in.reg.partKeysLocked() {
		ri, ok := in.reg.currentReplicaLocked(k.ns, k.pid)
		if !ok {
			continue
		}
		for _, a := range in.w.pendingActionsLocked(k.String(), ri) {
			if r.Intn(10) < 7 {
				acts = append(acts, a)
			}
		}
	}
	return acts
}
