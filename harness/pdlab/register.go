package pdlab

import (
	"encoding/json"
	"errors"
	"fmt"
	"sort"

	"github.com/youzan/ZanRedisDB/cluster"
)

// fakeReg is an in-memory cluster.PDRegister with the semantics of the etcd
// register (cluster/register_etcd.go):
//   - one cluster-wide modification index; every successful write increments
//     it and stamps it on the written value as its epoch (etcd ModifiedIndex);
//   - UpdateNamespacePartReplicaInfo: oldGen==0 is create-if-absent, otherwise
//     compare-and-swap on the stored epoch;
//   - values are stored as JSON strings and decoded on every read (so callers
//     never share memory with the store, and nil/empty maps round-trip the
//     way they do through etcd);
//   - GetAllNamespaces / GetNamespacePartInfo / GetNamespaceInfo /
//     GetNamespaceMetaInfo are served from a cache that is rebuilt by
//     GetAllNamespaces when the changed flag is set (every own write sets it)
//     and by the background scan (here: the scheduler event "reg_scan").
//
// All state is guarded by the instance lock (inst.mu), shared with the world,
// because the monitor (called while a write is accepted) reads the world.
type fakeReg struct {
	in *instance

	index    int64
	metas    map[string]storedVal          // ns -> meta json
	partDirs map[string]map[int]bool       // ns -> created partition dirs
	replicas map[string]map[int]*storedVal // ns -> pid -> replica info json
	schemas  map[string]map[string]cluster.SchemaInfo
	minGID   int64

	changed    bool
	cache      map[string]map[int]cluster.PartitionMetaInfo
	cacheEpoch cluster.EpochType

	dataNodes []cluster.NodeInfo

	// failNext > 0: the next write fails as if etcd was unreachable
	failWrites int

	calls map[string]int64
}

type storedVal struct {
	value string
	epoch int64
}

var errEtcdTestFailed = errors.New("101: Compare failed (fake register: stale epoch)")
var errEtcdNodeExist = errors.New("105: Key already exists (fake register)")
var errEtcdKeyNotFound = errors.New("100: Key not found (fake register)")
var errEtcdUnreachable = errors.New("fake register: etcd cluster is unavailable")

func newFakeReg(in *instance) *fakeReg {
	return &fakeReg{
		in:       in,
		index:    10,
		metas:    map[string]storedVal{},
		partDirs: map[string]map[int]bool{},
		replicas: map[string]map[int]*storedVal{},
		schemas:  map[string]map[string]cluster.SchemaInfo{},
		cache:    map[string]map[int]cluster.PartitionMetaInfo{},
		changed:  true,
		calls:    map[string]int64{},
	}
}

func (r *fakeReg) lock(call string) {
	r.in.mu.Lock()
	r.calls[call]++
}
func (r *fakeReg) unlock() { r.in.mu.Unlock() }

// ---- cluster.Register ----

func (r *fakeReg) InitClusterID(id string) {}
func (r *fakeReg) Start()                  {}
func (r *fakeReg) Stop()                   {}

func (r *fakeReg) GetAllPDNodes() ([]cluster.NodeInfo, error) {
	return nil, nil
}

// scanLocked rebuilds the cache from the store (EtcdRegister.scanNamespaces).
func (r *fakeReg) scanLocked() {
	r.changed = false
	nsInfos := make(map[string]map[int]cluster.PartitionMetaInfo)
	for ns, parts := range r.replicas {
		mv, ok := r.metas[ns]
		if !ok {
			continue
		}
		var meta cluster.NamespaceMetaInfo
		if err := json.Unmarshal([]byte(mv.value), &meta); err != nil {
			continue
		}
		meta.VerifSetMetaEpoch(cluster.EpochType(mv.epoch))
		pm := make(map[int]cluster.PartitionMetaInfo, meta.PartitionNum)
		nsInfos[ns] = pm
		for pid, sv := range parts {
			if pid >= meta.PartitionNum {
				continue
			}
			var ri cluster.PartitionReplicaInfo
			if err := json.Unmarshal([]byte(sv.value), &ri); err != nil {
				continue
			}
			ri.VerifSetEpoch(cluster.EpochType(sv.epoch))
			var info cluster.PartitionMetaInfo
			info.Name = ns
			info.Partition = pid
			info.NamespaceMetaInfo = meta
			info.PartitionReplicaInfo = ri
			pm[pid] = info
		}
	}
	if cluster.EpochType(r.index) > r.cacheEpoch {
		r.cache = nsInfos
		r.cacheEpoch = cluster.EpochType(r.index)
	}
}

func (r *fakeReg) GetAllNamespaces() (map[string]map[int]cluster.PartitionMetaInfo, cluster.EpochType, error) {
	r.lock("GetAllNamespaces")
	defer r.unlock()
	if r.changed {
		if len(r.metas) == 0 {
			return nil, 0, cluster.ErrKeyNotFound
		}
		r.scanLocked()
	}
	return r.cache, r.cacheEpoch, nil
}

// backgroundScan is what EtcdRegister.refreshNamespaces does on its ticker.
func (r *fakeReg) backgroundScanLocked() {
	if r.changed && len(r.metas) > 0 {
		r.scanLocked()
	}
}

func (r *fakeReg) GetNamespacePartInfo(ns string, partition int) (*cluster.PartitionMetaInfo, error) {
	r.lock("GetNamespacePartInfo")
	defer r.unlock()
	nsInfo, ok := r.cache[ns]
	if !ok {
		return nil, cluster.ErrKeyNotFound
	}
	p, ok := nsInfo[partition]
	if !ok {
		return nil, cluster.ErrKeyNotFound
	}
	return p.GetCopy(), nil
}

func (r *fakeReg) currentReplicaLocked(ns string, partition int) (*cluster.PartitionReplicaInfo, bool) {
	parts, ok := r.replicas[ns]
	if !ok {
		return nil, false
	}
	sv, ok := parts[partition]
	if !ok {
		return nil, false
	}
	var ri cluster.PartitionReplicaInfo
	if err := json.Unmarshal([]byte(sv.value), &ri); err != nil {
		return nil, false
	}
	ri.VerifSetEpoch(cluster.EpochType(sv.epoch))
	return &ri, true
}

func (r *fakeReg) GetRemoteNamespaceReplicaInfo(ns string, partition int) (*cluster.PartitionReplicaInfo, error) {
	r.lock("GetRemoteNamespaceReplicaInfo")
	defer r.unlock()
	ri, ok := r.currentReplicaLocked(ns, partition)
	if !ok {
		r.changed = true
		return nil, cluster.ErrKeyNotFound
	}
	return ri, nil
}

func (r *fakeReg) metaLocked(ns string) (cluster.NamespaceMetaInfo, bool) {
	var meta cluster.NamespaceMetaInfo
	mv, ok := r.metas[ns]
	if !ok {
		return meta, false
	}
	if err := json.Unmarshal([]byte(mv.value), &meta); err != nil {
		return meta, false
	}
	meta.VerifSetMetaEpoch(cluster.EpochType(mv.epoch))
	return meta, true
}

func (r *fakeReg) GetNamespaceMetaInfo(ns string) (cluster.NamespaceMetaInfo, error) {
	r.lock("GetNamespaceMetaInfo")
	defer r.unlock()
	parts, ok := r.cache[ns]
	if !ok || len(parts) == 0 {
		meta, ok := r.metaLocked(ns)
		if !ok {
			return meta, cluster.ErrKeyNotFound
		}
		return meta, nil
	}
	return parts[0].NamespaceMetaInfo, nil
}

func (r *fakeReg) GetNamespaceInfo(ns string) ([]cluster.PartitionMetaInfo, error) {
	r.lock("GetNamespaceInfo")
	defer r.unlock()
	nsInfo, ok := r.cache[ns]
	if !ok {
		return nil, cluster.ErrKeyNotFound
	}
	parts := make([]cluster.PartitionMetaInfo, 0, len(nsInfo))
	for _, v := range nsInfo {
		parts = append(parts, *v.GetCopy())
	}
	return parts, nil
}

func (r *fakeReg) GetNamespacesNotifyChan() chan struct{} { return make(chan struct{}) }

func (r *fakeReg) GetNamespaceSchemas(ns string) (map[string]cluster.SchemaInfo, error) {
	r.lock("GetNamespaceSchemas")
	defer r.unlock()
	s, ok := r.schemas[ns]
	if !ok || len(s) == 0 {
		return nil, cluster.ErrKeyNotFound
	}
	c := make(map[string]cluster.SchemaInfo, len(s))
	for k, v := range s {
		c[k] = v
	}
	return c, nil
}

func (r *fakeReg) GetNamespaceTableSchema(ns string, table string) (*cluster.SchemaInfo, error) {
	r.lock("GetNamespaceTableSchema")
	defer r.unlock()
	s, ok := r.schemas[ns][table]
	if !ok {
		return nil, cluster.ErrKeyNotFound
	}
	return &s, nil
}

func (r *fakeReg) SaveKV(key string, value string) error { return nil }
func (r *fakeReg) GetKV(key string) (string, error)      { return "", cluster.ErrKeyNotFound }

// ---- cluster.PDRegister ----

func (r *fakeReg) Register(nodeData *cluster.NodeInfo) error   { return nil }
func (r *fakeReg) Unregister(nodeData *cluster.NodeInfo) error { return nil }

func (r *fakeReg) GetClusterEpoch() (cluster.EpochType, error) {
	r.lock("GetClusterEpoch")
	defer r.unlock()
	return cluster.EpochType(r.index), nil
}

func (r *fakeReg) GetClusterMetaInfo() (cluster.ClusterMetaInfo, error) {
	r.lock("GetClusterMetaInfo")
	defer r.unlock()
	return cluster.ClusterMetaInfo{MaxGID: r.minGID}, nil
}

func (r *fakeReg) AcquireAndWatchLeader(leader chan *cluster.NodeInfo, stop chan struct{}) {
	<-stop
	close(leader)
}

func (r *fakeReg) GetDataNodes() ([]cluster.NodeInfo, error) {
	r.lock("GetDataNodes")
	defer r.unlock()
	return append([]cluster.NodeInfo{}, r.dataNodes...), nil
}

func (r *fakeReg) WatchDataNodes(nodeC chan []cluster.NodeInfo, stopC chan struct{}) {
	// the harness presents node lists through VerifSetDataNodes (same
	// bookkeeping as handleDataNodes); the watch loop is not used.
	<-stopC
	close(nodeC)
}

func (r *fakeReg) CreateNamespace(ns string, meta *cluster.NamespaceMetaInfo) error {
	r.lock("CreateNamespace")
	defer r.unlock()
	if meta.MinGID <= 0 {
		return errors.New("namespace MinGID is invalid")
	}
	if _, ok := r.metas[ns]; ok {
		return cluster.ErrKeyAlreadyExist
	}
	b, err := json.Marshal(meta)
	if err != nil {
		return err
	}
	r.index++
	r.metas[ns] = storedVal{value: string(b), epoch: r.index}
	meta.VerifSetMetaEpoch(cluster.EpochType(r.index))
	r.changed = true
	return nil
}

func (r *fakeReg) UpdateNamespaceMetaInfo(ns string, meta *cluster.NamespaceMetaInfo, oldGen cluster.EpochType) error {
	r.lock("UpdateNamespaceMetaInfo")
	defer r.unlock()
	r.changed = true
	mv, ok := r.metas[ns]
	if !ok {
		return errEtcdKeyNotFound
	}
	if mv.epoch != int64(oldGen) {
		return errEtcdTestFailed
	}
	b, err := json.Marshal(meta)
	if err != nil {
		return err
	}
	r.index++
	r.metas[ns] = storedVal{value: string(b), epoch: r.index}
	meta.VerifSetMetaEpoch(cluster.EpochType(r.index))
	return nil
}

func (r *fakeReg) CreateNamespacePartition(ns string, partition int) error {
	r.lock("CreateNamespacePartition")
	defer r.unlock()
	d, ok := r.partDirs[ns]
	if !ok {
		d = map[int]bool{}
		r.partDirs[ns] = d
	}
	if d[partition] {
		return cluster.ErrKeyAlreadyExist
	}
	r.index++
	d[partition] = true
	return nil
}

func (r *fakeReg) IsExistNamespace(ns string) (bool, error) {
	r.lock("IsExistNamespace")
	defer r.unlock()
	_, ok := r.metas[ns]
	return ok, nil
}

func (r *fakeReg) IsExistNamespacePartition(ns string, partition int) (bool, error) {
	r.lock("IsExistNamespacePartition")
	defer r.unlock()
	return r.partDirs[ns][partition], nil
}

func (r *fakeReg) DeleteNamespacePart(ns string, partition int) error {
	r.lock("DeleteNamespacePart")
	defer r.unlock()
	if d, ok := r.partDirs[ns]; ok {
		delete(d, partition)
	}
	if p, ok := r.replicas[ns]; ok {
		delete(p, partition)
	}
	r.index++
	r.changed = true
	return nil
}

func (r *fakeReg) DeleteWholeNamespace(ns string) error {
	r.lock("DeleteWholeNamespace")
	defer r.unlock()
	delete(r.metas, ns)
	delete(r.partDirs, ns)
	delete(r.replicas, ns)
	r.index++
	r.changed = true
	return nil
}

// UpdateNamespacePartReplicaInfo is the observation point of property C18:
// every call is reported to the monitor together with the verdict of the
// compare-and-swap.
func (r *fakeReg) UpdateNamespacePartReplicaInfo(ns string, partition int,
	replicaInfo *cluster.PartitionReplicaInfo, oldGen cluster.EpochType) error {
	r.lock("UpdateNamespacePartReplicaInfo")
	defer r.unlock()
	b, err := json.Marshal(replicaInfo)
	if err != nil {
		return err
	}
	if r.failWrites > 0 {
		r.failWrites--
		r.in.mon.rejected(ns, partition, replicaInfo, oldGen, "register-unreachable")
		return errEtcdUnreachable
	}
	parts, ok := r.replicas[ns]
	if !ok {
		parts = map[int]*storedVal{}
		r.replicas[ns] = parts
	}
	cur, exists := parts[partition]
	var prev *cluster.PartitionReplicaInfo
	if exists {
		prev, _ = r.currentReplicaLocked(ns, partition)
	}
	if oldGen == 0 {
		if exists {
			r.in.mon.rejected(ns, partition, replicaInfo, oldGen, "create-but-exists")
			return errEtcdNodeExist
		}
	} else {
		if !exists {
			r.in.mon.rejected(ns, partition, replicaInfo, oldGen, "cas-key-missing")
			return errEtcdKeyNotFound
		}
		if cur.epoch != int64(oldGen) {
			r.in.mon.rejected(ns, partition, replicaInfo, oldGen, "cas-stale-epoch")
			return errEtcdTestFailed
		}
	}
	r.index++
	parts[partition] = &storedVal{value: string(b), epoch: r.index}
	replicaInfo.VerifSetEpoch(cluster.EpochType(r.index))
	r.changed = true
	next, _ := r.currentReplicaLocked(ns, partition)
	r.in.mon.accepted(ns, partition, prev, next)
	return nil
}

func (r *fakeReg) PrepareNamespaceMinGID() (int64, error) {
	r.lock("PrepareNamespaceMinGID")
	defer r.unlock()
	r.minGID += 10000
	r.index++
	return r.minGID, nil
}

func (r *fakeReg) UpdateNamespaceSchema(ns string, table string, schema *cluster.SchemaInfo) error {
	r.lock("UpdateNamespaceSchema")
	defer r.unlock()
	m, ok := r.schemas[ns]
	if !ok {
		m = map[string]cluster.SchemaInfo{}
		r.schemas[ns] = m
	}
	old, exists := m[table]
	if schema.Epoch == 0 && exists {
		return errEtcdNodeExist
	}
	if schema.Epoch != 0 && (!exists || old.Epoch != schema.Epoch) {
		return errEtcdTestFailed
	}
	r.index++
	schema.Epoch = cluster.EpochType(r.index)
	m[table] = *schema
	r.changed = true
	return nil
}

// ---- helpers for the harness (caller holds the instance lock) ----

type partKey struct {
	ns  string
	pid int
}

func (k partKey) String() string { return fmt.Sprintf("%s-%d", k.ns, k.pid) }

func (r *fakeReg) partKeysLocked() []partKey {
	var ks []partKey
	for ns, parts := range r.replicas {
		for pid := range parts {
			ks = append(ks, partKey{ns, pid})
		}
	}
	sort.Slice(ks, func(i, j int) bool {
		if ks[i].ns != ks[j].ns {
			return ks[i].ns < ks[j].ns
		}
		return ks[i].pid < ks[j].pid
	})
	return ks
}

var _ cluster.PDRegister = (*fakeReg)(nil)
