// Package pdlab is engine E8: the real PDCoordinator of cluster/pdnode_coord
// runs against an in-memory register (fakeReg) and fake data nodes that answer
// the coordinator's real HTTP probes; a seeded scheduler interleaves node
// events, sync-answer flips and coordinator actions, and a monitor checks the
// literal clauses of property C18 on every accepted metadata write.
// See /verif/DESIGN.md section 3, C18.
package pdlab

import (
	"crypto/sha1"
	"encoding/hex"
	"encoding/json"
	"fmt"
	"io/ioutil"
	"math/rand"
	"os"
	"path/filepath"
	"runtime"
	"strings"
	"sync"
	"sync/atomic"
	"time"

	"github.com/youzan/ZanRedisDB/cluster"
	"github.com/youzan/ZanRedisDB/cluster/pdnode_coord"
	"github.com/youzan/ZanRedisDB/common"

	"verif/harness/vc"
)

func init() {
	vc.Register("C18", "exploration", runC18)
}

// fileLogger receives the coordinator's log (errors only) in a scratch file.
type fileLogger struct {
	mu sync.Mutex
	f  *os.File
}

func (l *fileLogger) write(p, s string) error {
	l.mu.Lock()
	fmt.Fprintf(l.f, "%s %s\n", p, s)
	l.mu.Unlock()
	return nil
}
func (l *fileLogger) Output(d int, s string) error        { return l.write("I", s) }
func (l *fileLogger) OutputErr(d int, s string) error     { return l.write("E", s) }
func (l *fileLogger) OutputWarning(d int, s string) error { return l.write("W", s) }

// Witness is the replay file content of a violation.
type Witness struct {
	Params  Params       `json:"params"`
	Events  []Event      `json:"events"`
	First   mviolation   `json:"first_violation"`
	All     []mviolation `json:"all_violations_of_the_write,omitempty"`
	Writes  []WriteRec   `json:"register_writes"`
	World   interface{}  `json:"world_at_violation"`
	Note    string       `json:"note"`
	Minimal []Event      `json:"minimal_events,omitempty"`
}

func genParams(c *vc.Ctx, i int, mode string) (Params, *rand.Rand) {
	r := c.Rand(int64(i)*2 + 11)
	if mode == "live" {
		r = c.Rand(int64(i)*2 + 900000001)
	}
	p := Params{Index: i, Mode: mode, NS: "verifns"}
	p.Nodes = 3 + r.Intn(7)
	switch x := r.Intn(100); {
	case x < 5:
		p.Replica = 1
	case x < 15:
		p.Replica = 2
	case x < 55:
		p.Replica = 3
	case x < 70:
		p.Replica = 4
	default:
		p.Replica = 5
	}
	if p.Replica > p.Nodes {
		p.Replica = p.Nodes
	}
	p.Partitions = 1 + r.Intn(4)
	if r.Intn(10) < 6 {
		p.BalanceVer = pdnode_coord.BalanceV2Str
	}
	p.NEvents = 50 + r.Intn(151)
	switch x := r.Intn(100); {
	case x < 55:
		p.InitKind = "alloc"
	case x < 70:
		p.InitKind = "exact"
	case x < 80:
		p.InitKind = "extra"
	case x < 90:
		p.InitKind = "short"
	default:
		p.InitKind = "removing"
	}
	if p.InitKind != "alloc" {
		maj := p.Replica/2 + 1
		for pid := 0; pid < p.Partitions; pid++ {
			cnt := p.Replica
			rm := false
			switch p.InitKind {
			case "extra":
				if p.Nodes > p.Replica {
					cnt = p.Replica + 1
				}
			case "short":
				if maj < p.Replica {
					cnt = maj + r.Intn(p.Replica-maj)
				}
			case "removing":
				if p.Nodes > p.Replica && r.Intn(2) == 0 {
					cnt = p.Replica + 1
				}
				rm = (cnt-1)*2 > p.Replica
			}
			perm := r.Perm(p.Nodes)
			var l []int
			for _, x := range perm[:cnt] {
				l = append(l, x+1)
			}
			p.InitLayout = append(p.InitLayout, l)
			if rm {
				p.InitRemoving = append(p.InitRemoving, l[r.Intn(len(l))])
			} else {
				p.InitRemoving = append(p.InitRemoving, 0)
			}
		}
	}
	return p, r
}

type seqResult struct {
	in       *instance
	err      error
	replaced int
}

type lab struct {
	c        *vc.Ctx
	mu       sync.Mutex
	agg      map[string]int64
	maxRem   int64
	panics   []string
	replaced int64
	shrunk   int
}

func (l *lab) add(k string, n int64) {
	l.mu.Lock()
	l.agg[k] += n
	l.mu.Unlock()
}

// worldSnapshot: node and group state for the witness.
func (in *instance) worldSnapshotLocked() interface{} {
	type ns struct {
		Node      int                          `json:"node"`
		Up        bool                         `json:"http_up"`
		Listed    bool                         `json:"listed"`
		View      map[string]map[uint64]uint64 `json:"member_views,omitempty"`
		NotSynced map[string]int               `json:"not_synced,omitempty"`
	}
	var nodes []ns
	for _, n := range in.w.nodes {
		x := ns{Node: n.idx, Up: n.httpUp, Listed: n.listed, View: map[string]map[uint64]uint64{}, NotSynced: map[string]int{}}
		for d, v := range n.view {
			x.View[d] = copyMembers(v)
		}
		for d, v := range n.notSynced {
			if v != 0 {
				x.NotSynced[d] = v
			}
		}
		nodes = append(nodes, x)
	}
	groups := map[string]map[uint64]uint64{}
	for d, g := range in.w.groups {
		groups[d] = copyMembers(g.members)
	}
	return map[string]interface{}{"nodes": nodes, "group_members": groups}
}

// finish collects evidence of one sequence and reports its first violation.
func (l *lab) finish(in *instance, conclusive bool) {
	c := l.c
	in.mu.Lock()
	found := append([]mviolation{}, in.mon.found...)
	writes := append([]WriteRec{}, in.mon.writes...)
	replaced := in.mon.replacedLocked()
	world := in.worldSnapshotLocked()
	monCounts := map[string]int64{}
	for k, v := range in.mon.counts {
		monCounts[k] = v
	}
	probes := map[string]int64{}
	for k, v := range in.w.probes {
		probes[k] = v
	}
	calls := map[string]int64{}
	for k, v := range in.reg.calls {
		calls[k] = v
	}
	maxRem := in.mon.maxRemovings
	in.mu.Unlock()

	if len(found) > 0 {
		first := found[0]
		var same []mviolation
		for _, f := range found {
			if f.Write.Event == first.Write.Event && f.Write.Part == first.Write.Part {
				same = append(same, f)
			}
		}
		if len(writes) > 40 {
			writes = writes[len(writes)-40:]
		}
		var minimal []Event
		if in.p.Mode == "sync" && first.Write.Event < len(in.events) {
			l.mu.Lock()
			doShrink := l.shrunk < 3
			if doShrink {
				l.shrunk++
			}
			l.mu.Unlock()
			if doShrink {
				minimal = l.shrink(in.p, in.events[:first.Write.Event+1], first.Sig, 150)
			}
		}
		w := Witness{Params: in.p, Events: in.events, First: first, All: same, Writes: writes, World: world, Minimal: minimal,
			Note: "node ids are given as node indexes (= register ids); re-run with ./check C18 --replay <this file>. " +
				"The event list is re-executed literally; the coordinator iterates over Go maps and reads the clock, so a replay is only approximately deterministic."}
		c.Violation(first.Sig, fmt.Sprintf("%s mode=%s nodes=%d partitions=%d %s (event %d of sequence %d: %s)", first.Summary, in.p.Mode, in.p.Nodes, in.p.Partitions,
			verStr(in.p.BalanceVer), first.Write.Event, in.p.Index, evStr(in.events, first.Write.Event)), w)
	}
	if in.coordPanic != "" {
		l.mu.Lock()
		if len(l.panics) < 5 {
			l.panics = append(l.panics, fmt.Sprintf("sequence %d (%s): %s", in.p.Index, in.p.Mode, in.coordPanic))
		}
		l.mu.Unlock()
		l.add("coordinator_panics", 1)
		head := in.coordPanic
		if i := strings.Index(head, "\n"); i > 0 {
			head = head[:i]
		}
		l.add("coordinator_panic_kind/"+head, 1)
		l.add("coordinator_panics_init_"+in.p.InitKind, 1)
	}
	if !conclusive {
		return
	}
	c.Ev.Eval()
	l.add("sequences_"+in.p.Mode, 1)
	l.add("events_total", int64(len(in.events)))
	l.add(fmt.Sprintf("sequences_replica_%d", in.p.Replica), 1)
	l.add("sequences_init_"+in.p.InitKind, 1)
	l.add("sequences_balance_"+verStr(in.p.BalanceVer), 1)
	for k, v := range in.counts {
		l.add(k, v)
	}
	for k, v := range monCounts {
		l.add(k, v)
	}
	for k, v := range probes {
		l.add("probe_"+k, v)
	}
	for k, v := range calls {
		l.add("regcall_"+k, v)
	}
	l.mu.Lock()
	if int64(maxRem) > l.maxRem {
		l.maxRem = int64(maxRem)
	}
	l.mu.Unlock()
	if replaced > 0 {
		b, _ := json.Marshal(in.events)
		h := sha1.Sum(b)
		c.Ev.Nontrivial(hex.EncodeToString(h[:8]))
		l.add("sequences_with_replacement", 1)
		l.add("partitions_with_replacement", int64(replaced))
	}
	if in.p.Index < 2 {
		evs := in.events
		if len(evs) > 25 {
			evs = evs[:25]
		}
		c.Ev.Sample(4, map[string]interface{}{"params": in.p, "events_prefix": evs})
	}
}

func verStr(v string) string {
	if v == pdnode_coord.BalanceV2Str {
		return "v2"
	}
	return "v1"
}

func evStr(evs []Event, i int) string {
	if i < 0 || i >= len(evs) {
		return "?"
	}
	b, _ := json.Marshal(evs[i])
	return string(b)
}

// runSyncSeq runs one wait-free sequence: every coordinator action is a
// synchronous call from the scheduler, the world only changes between calls.
func (l *lab) runSyncSeq(i int) {
	p, r := genParams(l.c, i, "sync")
	in, err := newInstance(p, l.c.Scratch)
	if err != nil {
		l.c.Inconclusive(fmt.Sprintf("sequence %d: setup failed: %v", i, err))
		return
	}
	defer in.close()
	for e := 0; e < p.NEvents; e++ {
		ev := in.genEvent(r, syncWeights)
		in.curEvent = e
		in.events = append(in.events, ev)
		in.exec(&in.events[e])
		if debugSeq {
			in.mu.Lock()
			fmt.Printf("#### event %d %s\n", e, evStr(in.events, e))
			for _, k := range in.reg.partKeysLocked() {
				ri, _ := in.reg.currentReplicaLocked(k.ns, k.pid)
				b, _ := json.Marshal(in.mon.view(ri))
				fmt.Printf("####   %s %s\n", k, b)
			}
			b, _ := json.Marshal(in.worldSnapshotLocked())
			fmt.Printf("####   world %s\n", b)
			in.mu.Unlock()
		}
		in.mu.Lock()
		stop := len(in.mon.found) > 0
		in.mu.Unlock()
		if stop || in.coordPanic != "" {
			break
		}
	}
	if debugSeq && in.coordPanic != "" {
		fmt.Println("#### coordinator panic:", in.coordPanic)
	}
	l.finish(in, true)
}

var debugSeq bool

func runC18(c *vc.Ctx) error {
	lf, err := os.Create(filepath.Join(c.Scratch, "coordinator.log"))
	if err != nil {
		return err
	}
	defer lf.Close()
	cluster.SetLogger(common.LOG_ERR, &fileLogger{f: lf})
	// package-level wait intervals of the coordinator: set once, before any
	// parallel phase. Zero = "the waiting time has passed": decisions then
	// depend on the logical order of calls only.
	pdnode_coord.VerifSetWaitIntervals(0, 0)

	l := &lab{c: c, agg: map[string]int64{}}
	c.Ev.Rule = "a sequence = start state (3..9 fake nodes, replica 1..5, 1..4 partitions, balance v1/v2, initial layout from the real allocation code or a random valid one incl. over-/under-replicated and removal-pending ones) " +
		"+ 50..200 seeded events: node crash / register key expiry / delist / restart / new node, israftsynced flips, fake nodes executing the metadata (join, leave, view propagation, catch-up) with scheduler-chosen delay, register cache scans and write failures, " +
		"and coordinator actions through the verif wrappers (doCheckNamespaces full/single, handleNamespaceMigrate, removeNamespaceFromRemovings, addNamespaceToNode, removeNamespaceFromNode, with fresh or stale arguments; addNodeToNamespaceAndWaitReady and processRemovingNodes with an already closed monitor channel = one wait-free decision step; MarkNodeAsRemoving; the operator APIs RemoveNamespaceFromNode (random current replica at any state, sometimes a non-member / bad partition), SetClusterStableNodeNum, SwitchAutoBalance); " +
		"live sequences additionally run rebalanceNamespace / processRemovingNodes unmodified (literal 5 s waits) in their own goroutine. " +
		"The monitor judges every replica-info write accepted by the in-memory register. Non-trivial = a sequence in which at least one replica was actually replaced (removal marked + new node added + removal finished in one partition); distinct by the hash of the executed event list."
	c.Ev.Assume("the replication factor of a namespace is fixed during a sequence (ChangeNamespaceMetaParam is not exercised)")
	c.Ev.Assume("fake data nodes follow the metadata: a membership change commits only while a majority of the current members run; no byzantine answers")
	c.Ev.Assume("a node that answers the probes but has lost its register key (event delist) exists at most one at a time; a node is 'unreachable' for the monitor when it is absent from the node list the harness presents")
	c.Ev.Assume("a panic inside the real coordinator code (counted in coordinator_panics) ends that sequence like a pd crash would; it is reported as evidence, it is not a verdict about C18")
	c.Ev.Assume("wait intervals (waitMigrateInterval, waitRemoveRemovingNodeInterval) are set to zero: every wait counts as elapsed, the order of calls decides")
	c.Ev.Assume("sync sequences are deterministic up to the coordinator's own map iteration order and clock reads; live sequences (goroutines, real time) are only approximately replayable")

	if c.Replay != "" {
		return l.replay(c.Replay)
	}

	if v := os.Getenv("PDLAB_SEQ"); v != "" {
		// development aid: run one sync sequence with the coordinator's log on stdout
		var i int
		fmt.Sscanf(v, "%d", &i)
		cluster.SetLogger(common.LOG_INFO, &fileLogger{f: os.Stdout})
		debugSeq = true
		l.runSyncSeq(i)
		return nil
	}
	if v := os.Getenv("PDLAB_LIVE"); v != "" {
		// development aid: run one live sequence with the coordinator's log on stdout
		var i int
		fmt.Sscanf(v, "%d", &i)
		cluster.SetLogger(common.LOG_INFO, &fileLogger{f: os.Stdout})
		debugLive = true
		l.runLiveOne(i)
		return nil
	}
	nSync := c.Pick(400, 20000)
	nLive := c.Pick(3, 48)
	start := time.Now()
	var wg sync.WaitGroup
	wg.Add(1)
	go func() {
		defer wg.Done()
		l.runLive(nLive)
	}()
	// a sequence mostly waits (10 ms sleeps inside doCheckNamespaces, loopback round trips):
	// every worker runs a group of syncGroup sequences concurrently
	const syncGroup = 4
	var done int64
	c.ParallelFor((nSync+syncGroup-1)/syncGroup, func(g int) {
		var gw sync.WaitGroup
		var pmu sync.Mutex
		var pan interface{}
		for j := 0; j < syncGroup; j++ {
			i := g*syncGroup + j
			if i >= nSync {
				break
			}
			gw.Add(1)
			go func() {
				defer gw.Done()
				defer func() {
					if r := recover(); r != nil {
						buf := make([]byte, 1<<13)
						buf = buf[:runtime.Stack(buf, false)]
						pmu.Lock()
						pan = fmt.Sprintf("sequence %d: %v\n%s", i, r, buf)
						pmu.Unlock()
					}
				}()
				l.runSyncSeq(i)
			}()
		}
		gw.Wait()
		if pan != nil {
			panic(pan)
		}
		if d := atomic.AddInt64(&done, syncGroup); d%3000 < syncGroup && c.Thorough() {
			fmt.Printf("progress C18: %d/%d sync sequences, %.0fs\n", d, nSync, time.Since(start).Seconds())
		}
	})
	if debugLive {
		fmt.Printf("debug: sync part done after %.1fs\n", time.Since(start).Seconds())
	}
	wg.Wait()
	if debugLive {
		fmt.Printf("debug: live part done after %.1fs\n", time.Since(start).Seconds())
	}

	l.mu.Lock()
	for k, v := range l.agg {
		c.Ev.Count(k, v)
	}
	c.Ev.Set("max_concurrent_removings_seen", l.maxRem)
	if len(l.panics) > 0 {
		c.Ev.Set("coordinator_panic_samples", l.panics)
	}
	l.mu.Unlock()
	return nil
}

func (l *lab) replay(path string) error {
	b, err := ioutil.ReadFile(path)
	if err != nil {
		return err
	}
	var doc struct {
		Witness Witness `json:"witness"`
	}
	if err := json.Unmarshal(b, &doc); err != nil {
		return err
	}
	w := doc.Witness
	if w.Params.Mode == "live" {
		fmt.Printf("REPLAY property=C18 live sequence %d: re-running the same seeded live scenario (approximate)\n", w.Params.Index)
		l.runLiveOne(w.Params.Index)
		return nil
	}
	in, err := newInstance(w.Params, l.c.Scratch)
	if err != nil {
		return err
	}
	defer in.close()
	for e := range w.Events {
		ev := w.Events[e]
		ev.Res = ""
		in.curEvent = e
		in.events = append(in.events, ev)
		in.exec(&in.events[e])
		in.mu.Lock()
		stop := len(in.mon.found) > 0
		in.mu.Unlock()
		if stop || in.coordPanic != "" {
			break
		}
	}
	in.mu.Lock()
	n := len(in.mon.found)
	in.mu.Unlock()
	fmt.Printf("REPLAY property=C18 sequence %d: %d events re-executed, violations=%d panic=%v\n", w.Params.Index, len(in.events), n, in.coordPanic != "")
	l.finish(in, true)
	return nil
}
