package pdlab

// Witness shrinking for sync sequences: re-execute the recorded event list
// with events removed (ddmin-style, bounded number of re-executions) and keep
// a removal when the same violation signature shows up again. Because the
// coordinator iterates over Go maps, a candidate is only accepted when it
// reproduces; a failed reproduction just keeps the longer list.

func (l *lab) reproduces(p Params, evs []Event, sig string) bool {
	p.Mode = "sync"
	in, err := newInstance(p, l.c.Scratch)
	if err != nil {
		return false
	}
	defer in.close()
	for e := range evs {
		ev := evs[e]
		ev.Res = ""
		in.curEvent = e
		in.events = append(in.events, ev)
		in.exec(&in.events[e])
		in.mu.Lock()
		found := in.mon.found
		in.mu.Unlock()
		if len(found) > 0 {
			for _, f := range found {
				if f.Sig == sig {
					return true
				}
			}
			return false
		}
		if in.coordPanic != "" {
			return false
		}
	}
	return false
}

func (l *lab) shrink(p Params, events []Event, sig string, budget int) []Event {
	cur := append([]Event{}, events...)
	runs := 0
	try := func(c []Event) bool {
		if runs >= budget {
			return false
		}
		runs++
		return l.reproduces(p, c, sig)
	}
	if !try(cur) {
		return nil // not reproducible as recorded (map iteration order / timing)
	}
	chunk := len(cur) / 2
	for chunk >= 1 && runs < budget {
		removed := false
		for start := 0; start+chunk <= len(cur) && runs < budget; {
			cand := append(append([]Event{}, cur[:start]...), cur[start+chunk:]...)
			if len(cand) > 0 && try(cand) {
				cur = cand
				removed = true
			} else {
				start += chunk
			}
		}
		if !removed || chunk == 1 {
			chunk /= 2
		}
	}
	return cur
}
