package pdlab

import (
	"fmt"
	"net"
	"net/http"
	"sort"
	"strconv"

	"github.com/julienschmidt/httprouter"
	"github.com/youzan/ZanRedisDB/cluster"
	"github.com/youzan/ZanRedisDB/common"
)

// fnode is one fake data node: a node id whose HTTP address points at a
// listener run by the harness. The listener stays bound for the whole
// sequence (so that the port cannot be taken over by another instance); a
// node that is "down" aborts every connection without an answer.
type fnode struct {
	idx    int // 1-based, also the register id (RegID)
	nid    string
	info   cluster.NodeInfo
	ln     net.Listener
	srv    *http.Server
	httpUp bool // process up: answers the coordinator's probes
	listed bool // present in the data node list the register presents (etcd TTL key)
	// per raft group (key "ns-pid"):
	view map[string]map[uint64]uint64 // the node's own view of the group membership: regID -> raft replica id
	// 0 = synced; 1 = catching up after a join (ends by the world action "synced");
	// 2 = flipped by the scheduler (ends by another flip). Non-zero answers 406 on /cluster/israftsynced.
	notSynced map[string]int
}

// group is the committed membership of one partition's raft group.
type group struct {
	members map[uint64]uint64 // regID -> raft replica id
}

type world struct {
	in      *instance
	nodes   []*fnode // index = idx-1
	byNid   map[string]*fnode
	groups  map[string]*group
	version int64
	probes  map[string]int64
}

func newWorld(in *instance) *world {
	return &world{in: in, byNid: map[string]*fnode{}, groups: map[string]*group{}, probes: map[string]int64{}}
}

// addNode creates a fake node with its own listener on 127.0.0.1.
func (w *world) addNode(up bool) (*fnode, error) {
	ln, err := net.Listen("tcp", "127.0.0.1:0")
	if err != nil {
		return nil, err
	}
	port := ln.Addr().(*net.TCPAddr).Port
	n := &fnode{idx: len(w.nodes) + 1, ln: ln, httpUp: up, listed: up,
		view: map[string]map[uint64]uint64{}, notSynced: map[string]int{}}
	n.info = cluster.NodeInfo{
		RegID:     uint64(n.idx),
		NodeIP:    "127.0.0.1",
		Hostname:  fmt.Sprintf("fake-%d", n.idx),
		RedisPort: strconv.Itoa(20000 + n.idx),
		HttpPort:  strconv.Itoa(port),
		Version:   "verif",
	}
	n.info.ID = cluster.GenNodeID(&n.info, "datanode")
	n.nid = n.info.ID
	router := httprouter.New()
	router.Handle("GET", common.APIGetMembers+"/:namespace", common.Decorate(
		func(rw http.ResponseWriter, req *http.Request, ps httprouter.Params) (interface{}, error) {
			return w.handleMembers(n, ps.ByName("namespace"))
		}, common.V1))
	router.Handle("GET", common.APIIsRaftSynced+"/:namespace", common.Decorate(
		func(rw http.ResponseWriter, req *http.Request, ps httprouter.Params) (interface{}, error) {
			return w.handleSynced(n, ps.ByName("namespace"))
		}, common.V1))
	router.Handle("GET", common.APIGetIndexes+"/:namespace", common.Decorate(
		func(rw http.ResponseWriter, req *http.Request, ps httprouter.Params) (interface{}, error) {
			w.in.mu.Lock()
			up := n.httpUp
			w.in.mu.Unlock()
			if !up {
				panic(http.ErrAbortHandler)
			}
			return map[string]*common.IndexSchema{}, nil
		}, common.V1))
	n.srv = &http.Server{Handler: router}
	n.srv.SetKeepAlivesEnabled(false)
	go n.srv.Serve(ln)
	w.in.mu.Lock()
	w.nodes = append(w.nodes, n)
	w.byNid[n.nid] = n
	w.in.mu.Unlock()
	return n, nil
}

func (w *world) closeAll() {
	for _, n := range w.nodes {
		n.srv.Close()
	}
}

// ---- what a node answers (pure functions of the world state; the HTTP
// handlers and the monitor's predicates both use exactly these) ----

const (
	ansOK        = 200
	ansNotFound  = 404 // the node does not run this namespace partition
	ansNotSynced = 406
	ansDown      = 0 // no answer at all
)

// answerMembersLocked: the member list node n reports for the group.
func (w *world) answerMembersLocked(n *fnode, desp string) (int, map[uint64]uint64) {
	if !n.httpUp {
		return ansDown, nil
	}
	v, ok := n.view[desp]
	if !ok {
		return ansNotFound, nil
	}
	// a node only runs the namespace while it is itself a member in its own view
	if _, self := v[n.info.RegID]; !self {
		return ansNotFound, nil
	}
	return ansOK, v
}

func (w *world) answerSyncedLocked(n *fnode, desp string) int {
	if !n.httpUp {
		return ansDown
	}
	v, ok := n.view[desp]
	if !ok {
		return ansNotFound
	}
	if _, self := v[n.info.RegID]; !self {
		return ansNotFound
	}
	if n.notSynced[desp] != 0 {
		return ansNotSynced
	}
	return ansOK
}

func (w *world) handleMembers(n *fnode, desp string) (interface{}, error) {
	w.in.mu.Lock()
	code, v := w.answerMembersLocked(n, desp)
	var list []*common.MemberInfo
	if code == ansOK {
		ids := make([]uint64, 0, len(v))
		for reg := range v {
			ids = append(ids, reg)
		}
		sort.Slice(ids, func(i, j int) bool { return ids[i] < ids[j] })
		for _, reg := range ids {
			list = append(list, &common.MemberInfo{ID: v[reg], NodeID: reg, GroupName: desp})
		}
	}
	w.probes[fmt.Sprintf("members_%d", code)]++
	w.in.mu.Unlock()
	switch code {
	case ansDown:
		panic(http.ErrAbortHandler)
	case ansNotFound:
		return nil, common.HttpErr{Code: http.StatusNotFound, Text: "no namespace found"}
	}
	return list, nil
}

func (w *world) handleSynced(n *fnode, desp string) (interface{}, error) {
	w.in.mu.Lock()
	code := w.answerSyncedLocked(n, desp)
	w.probes[fmt.Sprintf("israftsynced_%d", code)]++
	w.in.mu.Unlock()
	switch code {
	case ansDown:
		panic(http.ErrAbortHandler)
	case ansNotFound:
		return nil, common.HttpErr{Code: http.StatusNotFound, Text: "no namespace found"}
	case ansNotSynced:
		return nil, common.HttpErr{Code: http.StatusNotAcceptable, Text: "raft node is not synced yet"}
	}
	return nil, nil
}

// allISRFullReadyLocked is the harness's own evaluation of "the current
// replicas report being in sync" for a replica info: every ISR node answers,
// lists every ISR node with its raft id, and answers synced. It is computed
// from the same answer functions the HTTP handlers use.
func (w *world) allISRFullReadyLocked(desp string, ri *cluster.PartitionReplicaInfo) (bool, string) {
	isr := ri.GetISR()
	if len(ri.RaftNodes) == 0 {
		return false, "no raft nodes"
	}
	for _, remote := range isr {
		rn, ok := w.byNid[remote]
		if !ok {
			return false, fmt.Sprintf("isr node %s is not a node of this world", remote)
		}
		code, v := w.answerMembersLocked(rn, desp)
		if code != ansOK {
			return false, fmt.Sprintf("node %d answers %d to members", rn.idx, code)
		}
		for _, nid := range isr {
			reg := cluster.ExtractRegIDFromGenID(nid)
			if rid, ok := v[reg]; !ok || rid != ri.RaftIDs[nid] {
				return false, fmt.Sprintf("node %d does not list member node %d with raft id %d", rn.idx, reg, ri.RaftIDs[nid])
			}
		}
		if sc := w.answerSyncedLocked(rn, desp); sc != ansOK {
			return false, fmt.Sprintf("node %d answers %d to israftsynced", rn.idx, sc)
		}
	}
	return true, ""
}

// deadCountLocked: how many of the given nodes are absent from the live node
// set the harness currently presents to the coordinator.
func (w *world) deadCountLocked(nids []string) int {
	dead := 0
	for _, nid := range nids {
		n, ok := w.byNid[nid]
		if !ok || !n.listed {
			dead++
		}
	}
	return dead
}

func (w *world) listedInfosLocked() []cluster.NodeInfo {
	var l []cluster.NodeInfo
	for _, n := range w.nodes {
		if n.listed {
			l = append(l, n.info)
		}
	}
	return l
}

// ---- the closed loop: fake nodes execute the metadata ----

func copyMembers(m map[uint64]uint64) map[uint64]uint64 {
	c := make(map[uint64]uint64, len(m))
	for k, v := range m {
		c[k] = v
	}
	return c
}

// groupQuorumUpLocked: a membership change can only commit while a majority of
// the committed members run.
func (w *world) groupQuorumUpLocked(g *group) bool {
	up := 0
	for reg := range g.members {
		if int(reg) <= len(w.nodes) && w.nodes[reg-1].httpUp {
			up++
		}
	}
	return up*2 > len(g.members)
}

// initGroupLocked installs a group whose members are exactly the raft nodes of
// the initial layout, all joined, views equal and synced.
func (w *world) initGroupLocked(desp string, ri *cluster.PartitionReplicaInfo) {
	g := &group{members: map[uint64]uint64{}}
	for _, nid := range ri.RaftNodes {
		g.members[cluster.ExtractRegIDFromGenID(nid)] = ri.RaftIDs[nid]
	}
	w.groups[desp] = g
	for reg := range g.members {
		n := w.nodes[reg-1]
		n.view[desp] = copyMembers(g.members)
	}
}

// pendingActionsLocked lists what the data nodes would do next for the given
// metadata: join a listed raft node, remove a member marked for removal (or no
// longer in the metadata), propagate the committed membership to a lagging
// node, finish a catch-up.
type worldAction struct {
	Kind string `json:"kind"` // join | leave | view | synced
	Desp string `json:"group"`
	Node int    `json:"node"`
}

func (w *world) pendingActionsLocked(desp string, ri *cluster.PartitionReplicaInfo) []worldAction {
	var acts []worldAction
	g, ok := w.groups[desp]
	if !ok {
		return nil
	}
	quorum := w.groupQuorumUpLocked(g)
	wanted := map[uint64]uint64{}
	for _, nid := range ri.RaftNodes {
		if _, removing := ri.Removings[nid]; removing {
			continue
		}
		wanted[cluster.ExtractRegIDFromGenID(nid)] = ri.RaftIDs[nid]
	}
	if quorum {
		// leave: members that the metadata no longer wants (marked removing, dropped, or re-added under a new raft id)
		regs := make([]uint64, 0, len(g.members))
		for reg := range g.members {
			regs = append(regs, reg)
		}
		sort.Slice(regs, func(i, j int) bool { return regs[i] < regs[j] })
		for _, reg := range regs {
			if rid, ok := wanted[reg]; !ok || rid != g.members[reg] {
				if len(g.members) > 1 {
					acts = append(acts, worldAction{"leave", desp, int(reg)})
				}
			}
		}
		// join: wanted nodes that run and are not members yet
		wregs := make([]uint64, 0, len(wanted))
		for reg := range wanted {
			wregs = append(wregs, reg)
		}
		sort.Slice(wregs, func(i, j int) bool { return wregs[i] < wregs[j] })
		for _, reg := range wregs {
			if _, ok := g.members[reg]; ok {
				continue
			}
			if int(reg) <= len(w.nodes) && w.nodes[reg-1].httpUp {
				acts = append(acts, worldAction{"join", desp, int(reg)})
			}
		}
	}
	for _, n := range w.nodes {
		if !n.httpUp {
			continue
		}
		_, isMember := g.members[n.info.RegID]
		v, hasView := n.view[desp]
		if isMember || hasView {
			if !hasView || !sameMembers(v, g.members) {
				acts = append(acts, worldAction{"view", desp, n.idx})
			}
		}
		if isMember && n.notSynced[desp] == 1 {
			acts = append(acts, worldAction{"synced", desp, n.idx})
		}
	}
	return acts
}

func sameMembers(a, b map[uint64]uint64) bool {
	if len(a) != len(b) {
		return false
	}
	for k, v := range a {
		if b[k] != v {
			return false
		}
	}
	return true
}

// applyActionLocked executes one pending action against the current metadata.
func (w *world) applyActionLocked(a worldAction, ri *cluster.PartitionReplicaInfo) {
	g, ok := w.groups[a.Desp]
	if !ok || a.Node < 1 || a.Node > len(w.nodes) {
		return
	}
	n := w.nodes[a.Node-1]
	reg := n.info.RegID
	switch a.Kind {
	case "join":
		if _, removing := ri.Removings[n.nid]; removing {
			return
		}
		rid, ok := ri.RaftIDs[n.nid]
		if !ok || cluster.FindSlice(ri.RaftNodes, n.nid) == -1 || !n.httpUp || !w.groupQuorumUpLocked(g) {
			return
		}
		if _, already := g.members[reg]; already {
			return
		}
		g.members[reg] = rid
		n.view[a.Desp] = copyMembers(g.members)
		n.notSynced[a.Desp] = 1
	case "leave":
		if _, ok := g.members[reg]; !ok || len(g.members) <= 1 || !w.groupQuorumUpLocked(g) {
			return
		}
		if _, removing := ri.Removings[n.nid]; !removing && cluster.FindSlice(ri.RaftNodes, n.nid) != -1 && ri.RaftIDs[n.nid] == g.members[reg] {
			return // the metadata (still) wants this member
		}
		delete(g.members, reg)
		if n.httpUp {
			n.view[a.Desp] = copyMembers(g.members)
		}
	case "view":
		if n.httpUp {
			n.view[a.Desp] = copyMembers(g.members)
		}
	case "synced":
		if n.notSynced[a.Desp] == 1 {
			n.notSynced[a.Desp] = 0
		}
	}
	w.version++
}
