package pdlab

import (
	"fmt"
	"sort"
	"strings"

	"github.com/youzan/ZanRedisDB/cluster"
)

// monitor checks the literal clauses of property C18 on every replica-info
// write that the fake register ACCEPTS. Rejected writes are only counted.
//
// All methods are called with the instance lock held (from inside the fake
// register's UpdateNamespacePartReplicaInfo, or from the scheduler after a
// world change), so "what the harness answers now" is well defined.
type monitor struct {
	in           *instance
	tracks       map[partKey]*partTrack
	found        []mviolation
	counts       map[string]int64
	writes       []WriteRec
	maxRemovings int
}

type partTrack struct {
	usedIDs map[uint64]string // every raft replica id ever assigned in this partition -> node
	// windowed observations since the last accepted write of this partition
	// (used in live mode, where decisions and world changes are concurrent):
	readySeen   bool // at some world version all current replicas reported in sync
	aliveOKSeen bool // at some presented node list not more than half of RaftNodes were absent
	marks       int
	adds        int
	finishes    int
}

type mviolation struct {
	Sig     string   `json:"signature"`
	Summary string   `json:"summary"`
	Write   WriteRec `json:"write"`
}

// WriteRec is one UpdateNamespacePartReplicaInfo call as seen by the register.
type WriteRec struct {
	Event    int          `json:"event_index"`
	Part     string       `json:"partition"`
	Accepted bool         `json:"accepted"`
	Reason   string       `json:"reject_reason,omitempty"`
	Prev     *ReplicaView `json:"prev,omitempty"`
	Next     *ReplicaView `json:"next"`
	Notes    []string     `json:"notes,omitempty"`
}

// ReplicaView is a PartitionReplicaInfo with node ids replaced by node indexes
// (the ids contain the listener ports, which differ from run to run).
type ReplicaView struct {
	RaftNodes []int          `json:"raft_nodes"`
	RaftIDs   map[int]uint64 `json:"raft_ids"`
	Removings []int          `json:"removings"`
	MaxRaftID int64          `json:"max_raft_id"`
	Epoch     int64          `json:"epoch"`
}

func (m *monitor) view(ri *cluster.PartitionReplicaInfo) *ReplicaView {
	if ri == nil {
		return nil
	}
	v := &ReplicaView{RaftIDs: map[int]uint64{}, MaxRaftID: ri.MaxRaftID, Epoch: int64(ri.Epoch())}
	for _, nid := range ri.RaftNodes {
		v.RaftNodes = append(v.RaftNodes, int(cluster.ExtractRegIDFromGenID(nid)))
	}
	for nid, id := range ri.RaftIDs {
		v.RaftIDs[int(cluster.ExtractRegIDFromGenID(nid))] = id
	}
	for nid := range ri.Removings {
		v.Removings = append(v.Removings, int(cluster.ExtractRegIDFromGenID(nid)))
	}
	sort.Ints(v.Removings)
	return v
}

func newMonitor(in *instance) *monitor {
	return &monitor{in: in, tracks: map[partKey]*partTrack{}, counts: map[string]int64{}}
}

func (m *monitor) rejected(ns string, pid int, ri *cluster.PartitionReplicaInfo, oldGen cluster.EpochType, reason string) {
	m.counts["writes_rejected"]++
	m.counts["writes_rejected_"+reason]++
	if len(m.writes) < 400 {
		m.writes = append(m.writes, WriteRec{Event: m.in.curEvent, Part: partKey{ns, pid}.String(), Accepted: false, Reason: reason, Next: m.view(ri)})
	}
}

// observeLocked updates the windowed observations after a world change.
func (m *monitor) observeLocked() {
	for k, t := range m.tracks {
		cur, ok := m.in.reg.currentReplicaLocked(k.ns, k.pid)
		if !ok {
			continue
		}
		if ok, _ := m.in.w.allISRFullReadyLocked(k.String(), cur); ok {
			t.readySeen = true
		}
		if m.in.w.deadCountLocked(cur.RaftNodes)*2 <= len(cur.RaftNodes) {
			t.aliveOKSeen = true
		}
	}
}

func (m *monitor) accepted(ns string, pid int, prev, next *cluster.PartitionReplicaInfo) {
	k := partKey{ns, pid}
	t, ok := m.tracks[k]
	if !ok {
		t = &partTrack{usedIDs: map[uint64]string{}}
		m.tracks[k] = t
	}
	rec := WriteRec{Event: m.in.curEvent, Part: k.String(), Accepted: true, Prev: m.view(prev), Next: m.view(next)}
	defer func() {
		if len(m.writes) < 400 {
			m.writes = append(m.writes, rec)
		}
		// start a new observation window for this partition
		t.readySeen, t.aliveOKSeen = false, false
		if ok, _ := m.in.w.allISRFullReadyLocked(k.String(), next); ok {
			t.readySeen = true
		}
		if m.in.w.deadCountLocked(next.RaftNodes)*2 <= len(next.RaftNodes) {
			t.aliveOKSeen = true
		}
	}()
	if m.in.setup || prev == nil {
		// initial layout written by the harness (or a create): only remember the ids
		for nid, id := range next.RaftIDs {
			t.usedIDs[id] = nid
		}
		m.counts["writes_setup"]++
		return
	}
	m.counts["writes_accepted"]++
	meta, ok := m.in.reg.metaLocked(ns)
	if !ok {
		return
	}
	replica := meta.Replica
	viol := func(sig, format string, args ...interface{}) {
		if !m.in.live && strings.HasPrefix(m.in.curKind, "op_") {
			sig += "/" + m.in.curKind // the write was issued by an operator API call
		}
		s := fmt.Sprintf(format, args...)
		rec.Notes = append(rec.Notes, sig+": "+s)
		m.found = append(m.found, mviolation{Sig: sig, Summary: fmt.Sprintf("%s replica=%d: %s", k.String(), replica, s), Write: rec})
	}
	idx := func(nid string) int { return int(cluster.ExtractRegIDFromGenID(nid)) }

	// --- clause: at most one replica marked for removal at a time
	if len(next.Removings) > m.maxRemovings {
		m.maxRemovings = len(next.Removings)
	}
	if len(next.Removings) > 1 {
		viol("two-removals-pending", "accepted metadata has %d replicas marked for removal: %v", len(next.Removings), rec.Next.Removings)
	}
	// --- clause: remaining replicas are a strict majority of the replication factor, on distinct nodes
	isr := next.GetISR()
	if len(isr)*2 <= replica {
		viol("isr-not-majority-of-replica", "remaining replicas %v (raft nodes %v minus removings %v) are not a strict majority of replication factor %d",
			len(isr), rec.Next.RaftNodes, rec.Next.Removings, replica)
	}
	seen := map[string]bool{}
	for _, nid := range next.RaftNodes {
		if seen[nid] {
			viol("duplicate-replica-node", "node %d is listed twice in raft nodes %v", idx(nid), rec.Next.RaftNodes)
			break
		}
		seen[nid] = true
	}
	// --- diff against the previously accepted metadata
	var added, dropped, marked []string
	for _, nid := range next.RaftNodes {
		if cluster.FindSlice(prev.RaftNodes, nid) == -1 {
			added = append(added, nid)
		}
	}
	for _, nid := range prev.RaftNodes {
		if cluster.FindSlice(next.RaftNodes, nid) == -1 {
			dropped = append(dropped, nid)
		}
	}
	for nid := range next.Removings {
		if _, ok := prev.Removings[nid]; !ok {
			marked = append(marked, nid)
		}
	}
	sort.Strings(marked)
	// --- clause: replacements are added one at a time, only when the current replicas report in sync and no removal is pending
	if len(added) > 1 {
		viol("two-replicas-added-in-one-write", "nodes %v added in one write (prev %v, next %v)", idxs(added), rec.Prev.RaftNodes, rec.Next.RaftNodes)
	}
	if len(added) >= 1 {
		t.adds++
		m.counts["adds"]++
		if len(prev.Removings) > 0 || len(next.Removings) > 0 {
			viol("replica-added-while-removal-pending", "node %v added while removal of %v is pending", idxs(added), append(rec.Prev.Removings, rec.Next.Removings...))
		}
		readyNow, why := m.in.w.allISRFullReadyLocked(k.String(), prev)
		ok := readyNow
		if m.in.live && t.readySeen {
			ok = true // concurrent world: the replicas did report in sync at some moment since the previous write
		}
		if !ok {
			viol("replica-added-while-not-in-sync", "node %v added although the current replicas %v did not report in sync (%s)", idxs(added), rec.Prev.RaftNodes, why)
		}
	}
	// --- clause: raft replica ids are never reused
	ids := map[uint64]string{}
	for _, nid := range next.RaftNodes {
		id, has := next.RaftIDs[nid]
		if !has {
			m.counts["raft_node_without_id"]++
			continue
		}
		if other, dup := ids[id]; dup {
			viol("raft-id-reused", "raft id %d is assigned to node %d and node %d at once", id, idx(other), idx(nid))
		}
		ids[id] = nid
		if cluster.FindSlice(prev.RaftNodes, nid) != -1 && prev.RaftIDs[nid] == id {
			continue // unchanged assignment
		}
		// a new assignment
		if owner, used := t.usedIDs[id]; used {
			viol("raft-id-reused", "raft id %d given to node %d was assigned before in this partition (to node %d)", id, idx(nid), idx(owner))
		} else if int64(id) <= prev.MaxRaftID {
			viol("raft-id-reused", "raft id %d given to node %d is not above the previous MaxRaftID %d", id, idx(nid), prev.MaxRaftID)
		}
	}
	for nid, id := range next.RaftIDs {
		t.usedIDs[id] = nid
	}
	// --- clause: never mark a removal when more than half of the replicas are unreachable
	if len(marked) > 0 {
		t.marks++
		m.counts["removals_marked"]++
		dead := m.in.w.deadCountLocked(prev.RaftNodes)
		bad := dead*2 > len(prev.RaftNodes)
		if bad && m.in.live && t.aliveOKSeen {
			bad = false
		}
		if bad {
			viol("removal-marked-with-majority-unreachable", "removal of %v marked while %d of the %d replicas %v are absent from the live node set",
				idxs(marked), dead, len(prev.RaftNodes), rec.Prev.RaftNodes)
		}
		if dead > 0 {
			m.counts["removals_marked_with_dead_replica"]++
		} else {
			m.counts["removals_marked_all_alive"]++
		}
	}
	if len(dropped) > 0 {
		t.finishes++
		m.counts["removals_finished"]++
		for _, nid := range dropped {
			if _, ok := prev.Removings[nid]; !ok {
				m.counts["dropped_without_mark"]++
			}
		}
	}
	if len(added) == 0 && len(dropped) == 0 && len(marked) == 0 {
		m.counts["writes_other"]++ // e.g. leader reorder
	}
}

func idxs(nids []string) []int {
	var r []int
	for _, n := range nids {
		r = append(r, int(cluster.ExtractRegIDFromGenID(n)))
	}
	return r
}

// replacedLocked: number of partitions in which a replica was actually
// replaced (a removal marked, a new node added and a removal finished).
func (m *monitor) replacedLocked() int {
	n := 0
	for _, t := range m.tracks {
		if t.marks > 0 && t.adds > 0 && t.finishes > 0 {
			n++
		}
	}
	return n
}
