package main

// One blank import per engine package; each registers its checks in init().
// (./check links only the owning engine per check; this binary links all.)
import (
	_ "verif/harness/codeclab"
	_ "verif/harness/englab"
	_ "verif/harness/inproc"
	_ "verif/harness/keylab"
	_ "verif/harness/model"
	_ "verif/harness/pdlab"
	_ "verif/harness/placelab"
	_ "verif/harness/procluster"
	_ "verif/harness/raftsim"
	_ "verif/harness/smlab"
	_ "verif/harness/synclab"
	_ "verif/harness/walcrash"
)
