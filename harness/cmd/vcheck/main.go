// vcheck dispatches to the registered property checks: vcheck <id> <tier>.
package main

import (
	"os"

	"verif/harness/vc"
)

func main() {
	os.Exit(vc.Main(os.Args[1:]))
}
