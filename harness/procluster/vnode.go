package procluster

import (
	"encoding/json"
	"fmt"
	"io/ioutil"
	"net/http"
	"os"
	"os/signal"
	"path/filepath"
	"sort"
	"strconv"
	"strings"
	"sync/atomic"
	"syscall"
	"time"

	"github.com/youzan/ZanRedisDB/common"
	"github.com/youzan/ZanRedisDB/node"
	"github.com/youzan/ZanRedisDB/rockredis"
	"github.com/youzan/ZanRedisDB/server"
	"github.com/youzan/ZanRedisDB/wal"

	"verif/harness/failpoint"
	"verif/harness/vc"
)

func init() {
	vc.RegisterChild("vnode", vnodeMain)
}

// Member describes one replica of the namespace as seen by every node.
type Member struct {
	NodeID   uint64 `json:"node_id"` // also used as raft replica id
	RaftAddr string `json:"raft_addr"`
	HTTPPort int    `json:"http_port"`
	DataDir  string `json:"data_dir"`
}

// NodeConfig is the JSON file a vnode child is started with.
type NodeConfig struct {
	ClusterID       string   `json:"cluster_id"`
	NodeID          uint64   `json:"node_id"`
	DataDir         string   `json:"data_dir"`
	RedisPort       int      `json:"redis_port"`
	HTTPPort        int      `json:"http_port"`
	GRPCPort        int      `json:"grpc_port"`
	RaftPort        int      `json:"raft_port"`
	MetricPort      int      `json:"metric_port"`
	ProfilePort     int      `json:"profile_port"`
	HarnessPort     int      `json:"harness_port"`
	Engine          string   `json:"engine"` // "pebble" | "mem" (never rocksdb)
	UseRocksWAL     bool     `json:"use_rocks_wal"`
	TickMs          int      `json:"tick_ms"`
	ElectionTick    int      `json:"election_tick"`
	KeepBackup      int      `json:"keep_backup"`
	WALSegmentBytes int64    `json:"wal_segment_bytes"`
	OptimizedFsync  bool     `json:"optimized_fsync"`
	NSBase          string   `json:"ns_base"`
	GroupID         uint64   `json:"group_id"`
	SnapCount       int      `json:"snap_count"`
	SnapCatchup     int      `json:"snap_catchup"`
	Replicator      int      `json:"replicator"`
	Members         []Member `json:"members"`
	Table           string   `json:"table"`
	LogLevel        int32    `json:"log_level"`
}

type fakeClusterInfo struct {
	name  string
	syncs []common.SnapshotSyncInfo
}

func (ci *fakeClusterInfo) GetClusterName() string { return ci.name }
func (ci *fakeClusterInfo) GetSnapshotSyncInfo(fullNS string) ([]common.SnapshotSyncInfo, error) {
	return ci.syncs, nil
}
func (ci *fakeClusterInfo) UpdateMeForNamespaceLeader(fullNS string) (bool, error) { return false, nil }

// NodeStatus is what GET /status of the harness endpoint returns.
type NodeStatus struct {
	NodeID         uint64 `json:"node_id"`
	Pid            int    `json:"pid"`
	Ready          bool   `json:"ready"`
	Stopping       bool   `json:"stopping"`
	IsLeader       bool   `json:"is_leader"`
	Leader         uint64 `json:"leader"`
	Term           uint64 `json:"term"`
	Commit         uint64 `json:"commit"`
	Applied        uint64 `json:"applied"`
	LastSnapIndex  uint64 `json:"last_snap_index"`
	ApplyingSnap   bool   `json:"applying_snap"`
	RaftStatusOK   bool   `json:"raft_status_ok"`
	SnapsInstalled int64  `json:"snaps_installed"`
	UptimeMs       int64  `json:"uptime_ms"`
}

// Dump is the logical content of one table of the namespace.
type Dump struct {
	KV   map[string]string            `json:"kv"`
	TTL  map[string]bool              `json:"ttl"` // kv keys that carry a TTL
	Hash map[string]map[string]string `json:"hash"`
	List map[string][]string          `json:"list"`
	Set  map[string][]string          `json:"set"`
	ZSet map[string][][2]string       `json:"zset"` // member, score
	// HyperLogLog keys (named by the caller): only their PFCOUNT is part of the
	// logical state, the stored bytes legitimately differ between replicas and
	// acknowledged PFADDs may still sit in the write-back cache
	PF map[string]int64 `json:"pf,omitempty"`
	// HLEN / LLEN / SCARD / ZCARD of the collection keys (the stored size meta)
	Card map[string]int64 `json:"card,omitempty"`
}

func vnodeFatal(code int, format string, args ...interface{}) int {
	fmt.Fprintf(os.Stderr, "VNODE-FATAL: "+format+"\n", args...)
	return code
}

// Exit codes of the vnode child (besides death by signal):
//
//	0 graceful stop (SIGTERM), 2 bad invocation/config, 3 namespace failed to
//	start (startRaft / restore / replay error), 7 namespace stopped itself
//	while running, 9 parent died.
func vnodeMain(args []string) int {
	if len(args) < 1 {
		return vnodeFatal(2, "usage: vcheck --child vnode <config.json>")
	}
	b, err := ioutil.ReadFile(args[0])
	if err != nil {
		return vnodeFatal(2, "config: %v", err)
	}
	var cfg NodeConfig
	if err := json.Unmarshal(b, &cfg); err != nil {
		return vnodeFatal(2, "config: %v", err)
	}
	if cfg.Engine != "pebble" && cfg.Engine != "mem" {
		return vnodeFatal(2, "engine %q refused: only pebble and mem are usable in this sandbox", cfg.Engine)
	}
	start := time.Now()
	fp, err := failpoint.InstallFromEnv()
	if err != nil {
		return vnodeFatal(2, "failpoints: %v", err)
	}
	// window in which committed entries are already with the apply loop but not yet in the WAL
	fp.WindowOpen = []string{"node.raft.afterPublish", "node.raft.beforePersist"}
	fp.WindowClose = "node.raft.beforeAppend"
	if cfg.WALSegmentBytes > 0 {
		wal.SegmentSizeBytes = cfg.WALSegmentBytes
	}
	if cfg.LogLevel > 0 {
		server.SetLogger(cfg.LogLevel, common.NewLogger())
		node.SetLogger(cfg.LogLevel, common.NewLogger())
		rockredis.SetLogger(cfg.LogLevel, common.NewLogger())
	}
	os.MkdirAll(cfg.DataDir, 0755)
	ioutil.WriteFile(filepath.Join(cfg.DataDir, "myid"), []byte(strconv.FormatUint(cfg.NodeID, 10)), 0644)

	raftAddr := "http://127.0.0.1:" + strconv.Itoa(cfg.RaftPort)
	sc := server.ServerConfig{
		ClusterID:      cfg.ClusterID,
		DataDir:        cfg.DataDir,
		RedisAPIPort:   cfg.RedisPort,
		HttpAPIPort:    cfg.HTTPPort,
		GrpcAPIPort:    cfg.GRPCPort,
		ProfilePort:    cfg.ProfilePort,
		MetricAddr:     "127.0.0.1:" + strconv.Itoa(cfg.MetricPort),
		LocalRaftAddr:  raftAddr,
		BroadcastAddr:  "127.0.0.1",
		TickMs:         cfg.TickMs,
		ElectionTick:   cfg.ElectionTick,
		KeepBackup:     cfg.KeepBackup,
		UseRocksWAL:    cfg.UseRocksWAL,
		SharedRocksWAL: true,
	}
	sc.RocksDBOpts.EngineType = cfg.Engine
	sc.WALRocksDBOpts.EngineType = "pebble" // raft log engine when use_rocks_wal (never rocksdb here)

	ci := &fakeClusterInfo{name: cfg.ClusterID}
	var seeds []node.ReplicaInfo
	for _, m := range cfg.Members {
		seeds = append(seeds, node.ReplicaInfo{NodeID: m.NodeID, ReplicaID: m.NodeID, RaftAddr: m.RaftAddr})
		ci.syncs = append(ci.syncs, common.SnapshotSyncInfo{ReplicaID: m.NodeID, NodeID: m.NodeID,
			RemoteAddr: "127.0.0.1", HttpAPIPort: strconv.Itoa(m.HTTPPort), DataRoot: m.DataDir})
	}
	fullNS := cfg.NSBase + "-0"
	nsConf := node.NewNSConfig()
	nsConf.Name = fullNS
	nsConf.BaseName = cfg.NSBase
	nsConf.EngType = rockredis.EngType
	nsConf.PartitionNum = 1
	nsConf.SnapCount = cfg.SnapCount
	nsConf.SnapCatchup = cfg.SnapCatchup
	nsConf.Replicator = cfg.Replicator
	nsConf.OptimizedFsync = cfg.OptimizedFsync
	nsConf.RaftGroupConf.GroupID = cfg.GroupID
	nsConf.RaftGroupConf.SeedNodes = seeds
	nsConf.ExpirationPolicy = common.WaitCompactExpirationPolicy
	nsConf.DataVersion = common.ValueHeaderV1Str

	s, err := server.NewServer(sc)
	if err != nil {
		return vnodeFatal(3, "NewServer: %v", err)
	}
	s.GetNsMgr().SetIClusterInfo(ci)
	if _, err := s.InitKVNamespace(cfg.NodeID, nsConf, false); err != nil {
		return vnodeFatal(3, "InitKVNamespace: %v", err)
	}
	s.Start()
	// NamespaceMgr.Start ignores the error of NamespaceNode.Start; a namespace
	// that failed to start (restore / replay error) is simply not ready.
	if s.GetNamespaceFromFullName(fullNS) == nil {
		return vnodeFatal(3, "namespace %s did not start (startRaft/restore/replay failed, see log above)", fullNS)
	}
	fmt.Fprintf(os.Stderr, "VNODE-STARTED node=%d pid=%d after %v\n", cfg.NodeID, os.Getpid(), time.Since(start))

	var stopping int32
	h := &vnodeHarness{cfg: cfg, s: s, fullNS: fullNS, fp: fp, start: start}
	mux := http.NewServeMux()
	mux.HandleFunc("/status", h.status)
	mux.HandleFunc("/dump", h.dump)
	mux.HandleFunc("/transfer-leader", h.transfer)
	mux.Handle("/failpoint", fp)
	mux.Handle("/failpoint/hits", fp)
	go func() {
		err := http.ListenAndServe("127.0.0.1:"+strconv.Itoa(cfg.HarnessPort), mux)
		fmt.Fprintf(os.Stderr, "VNODE-FATAL: harness endpoint: %v\n", err)
		os.Exit(2)
	}()

	sigc := make(chan os.Signal, 1)
	signal.Notify(sigc, syscall.SIGTERM, syscall.SIGINT)
	ppid := os.Getppid()
	tick := time.NewTicker(200 * time.Millisecond)
	for {
		select {
		case <-sigc:
			atomic.StoreInt32(&stopping, 1)
			fmt.Fprintf(os.Stderr, "VNODE-STOPPING node=%d (SIGTERM)\n", cfg.NodeID)
			s.Stop()
			fmt.Fprintf(os.Stderr, "VNODE-STOPPED node=%d\n", cfg.NodeID)
			return 0
		case <-tick.C:
			if os.Getppid() != ppid {
				return 9
			}
			// With the real placement driver the data coordinator would restart a
			// namespace that stopped itself; here the process exits and the
			// driver (acting as supervisor) decides.
			if _, ok := s.GetNsMgr().GetNamespaces()[fullNS]; !ok {
				return vnodeFatal(7, "namespace %s stopped itself", fullNS)
			}
		}
	}
}

type vnodeHarness struct {
	cfg    NodeConfig
	s      *server.Server
	fullNS string
	fp     *failpoint.Registry
	start  time.Time
}

func (h *vnodeHarness) kvn() *node.KVNode {
	nn := h.s.GetNamespaceFromFullName(h.fullNS)
	if nn == nil {
		return nil
	}
	return nn.Node
}

func (h *vnodeHarness) status(w http.ResponseWriter, req *http.Request) {
	st := NodeStatus{NodeID: h.cfg.NodeID, Pid: os.Getpid(), UptimeMs: time.Since(h.start).Nanoseconds() / 1e6}
	kvn := h.kvn()
	if kvn != nil {
		st.Ready = true
		st.Stopping = kvn.IsStopping()
		st.IsLeader = kvn.IsLead()
		st.Applied = kvn.GetAppliedIndex()
		st.LastSnapIndex = kvn.GetLastSnapIndex()
		st.ApplyingSnap = kvn.IsApplyingSnapshot()
		if lm := kvn.GetLeadMember(); lm != nil {
			st.Leader = lm.ID
		}
		// raft Status() is answered by the raft loop, which may be stalled by a
		// failpoint sleep: ask with a timeout.
		type rs struct{ term, commit, lead uint64 }
		ch := make(chan rs, 1)
		go func() {
			defer func() { recover() }()
			s := kvn.GetRaftStatus()
			ch <- rs{s.Term, s.Commit, s.Lead}
		}()
		select {
		case r := <-ch:
			st.Term, st.Commit, st.RaftStatusOK = r.term, r.commit, true
			if st.Leader == 0 {
				st.Leader = r.lead
			}
		case <-time.After(1500 * time.Millisecond):
		}
	}
	st.SnapsInstalled = h.fp.Hits()["node.applySnap.afterRestore"]
	json.NewEncoder(w).Encode(&st)
}

func (h *vnodeHarness) transfer(w http.ResponseWriter, req *http.Request) {
	kvn := h.kvn()
	if kvn == nil {
		http.Error(w, "namespace not ready", 503)
		return
	}
	to, err := strconv.ParseUint(req.URL.Query().Get("to"), 10, 64)
	if err != nil {
		http.Error(w, "bad to", 400)
		return
	}
	if err := kvn.TransferLeadership(to); err != nil {
		http.Error(w, err.Error(), 409)
		return
	}
	fmt.Fprint(w, "ok")
}

func (h *vnodeHarness) read(kvn *node.KVNode, name string, args ...string) (interface{}, error) {
	hd, ok := kvn.GetHandler(name)
	if !ok {
		return nil, fmt.Errorf("no read handler %s", name)
	}
	raw := make([][]byte, 0, len(args)+1)
	raw = append(raw, []byte(name))
	for _, a := range args {
		raw = append(raw, []byte(a))
	}
	c := &recConn{}
	hd(c, common.BuildCommand(raw))
	return c.result()
}

func (h *vnodeHarness) scanKeys(kvn *node.KVNode, typ string) ([]string, error) {
	mh, _, ok := kvn.GetMergeHandler("advscan")
	if !ok {
		return nil, fmt.Errorf("no advscan handler")
	}
	var keys []string
	cursor := ""
	for iter := 0; iter < 10000; iter++ {
		cmd := common.BuildCommand([][]byte{[]byte("advscan"), []byte(h.cfg.NSBase + ":" + h.cfg.Table + ":" + cursor),
			[]byte(typ), []byte("count"), []byte("500")})
		v, err := mh(cmd)
		if err != nil {
			return nil, fmt.Errorf("advscan %s: %v", typ, err)
		}
		sr, ok := v.(*common.ScanResult)
		if !ok {
			return nil, fmt.Errorf("advscan %s: unexpected result %T", typ, v)
		}
		for _, k := range sr.Keys {
			_, rk, err := common.ExtractTable(k)
			if err != nil {
				return nil, fmt.Errorf("advscan key %q: %v", k, err)
			}
			keys = append(keys, string(rk))
		}
		if len(sr.NextCursor) == 0 {
			return keys, nil
		}
		cursor = string(sr.NextCursor)
	}
	return nil, fmt.Errorf("advscan %s does not terminate", typ)
}

// dump reads the whole table through the node's own read handlers (the ones
// the redis API dispatches to), bypassing only the server-level "reads go to
// the leader" gate, so that it also works on followers.
func (h *vnodeHarness) dump(w http.ResponseWriter, req *http.Request) {
	kvn := h.kvn()
	if kvn == nil {
		http.Error(w, "namespace not ready", 503)
		return
	}
	hll := map[string]bool{}
	for _, k := range strings.Split(req.URL.Query().Get("hll"), ",") {
		if k != "" {
			hll[k] = true
		}
	}
	d, err := h.doDump(kvn, hll)
	if err != nil {
		http.Error(w, err.Error(), 500)
		return
	}
	json.NewEncoder(w).Encode(d)
}

func (h *vnodeHarness) card(kvn *node.KVNode, d *Dump, cmd, k, fullKey string) error {
	v, err := h.read(kvn, cmd, fullKey)
	if err != nil {
		return fmt.Errorf("%s %s: %v", cmd, k, err)
	}
	n, ok := v.(int64)
	if !ok {
		return fmt.Errorf("%s %s: reply %v", cmd, k, v)
	}
	if d.Card == nil {
		d.Card = map[string]int64{}
	}
	d.Card[k] = n
	return nil
}

func (h *vnodeHarness) doDump(kvn *node.KVNode, hll map[string]bool) (d *Dump, err error) {
	defer func() {
		if r := recover(); r != nil {
			err = fmt.Errorf("dump panicked: %v", r)
		}
	}()
	d = &Dump{KV: map[string]string{}, TTL: map[string]bool{}, Hash: map[string]map[string]string{},
		List: map[string][]string{}, Set: map[string][]string{}, ZSet: map[string][][2]string{}}
	full := func(k string) string { return h.cfg.NSBase + ":" + h.cfg.Table + ":" + k }
	keys, err := h.scanKeys(kvn, "KV")
	if err != nil {
		return nil, err
	}
	if len(hll) > 0 {
		d.PF = map[string]int64{}
		for k := range hll {
			v, err := h.read(kvn, "pfcount", full(k))
			if err != nil {
				return nil, fmt.Errorf("pfcount %s: %v", k, err)
			}
			n, ok := v.(int64)
			if !ok {
				return nil, fmt.Errorf("pfcount %s: reply %v", k, v)
			}
			d.PF[k] = n
		}
	}
	for _, k := range keys {
		if hll[k] {
			continue
		}
		v, err := h.read(kvn, "get", full(k))
		if err != nil {
			return nil, fmt.Errorf("get %s: %v", k, err)
		}
		s, ok := v.(string)
		if !ok {
			return nil, fmt.Errorf("get %s: scanned key has value %v", k, v)
		}
		d.KV[k] = s
		t, err := h.read(kvn, "ttl", full(k))
		if err != nil {
			return nil, fmt.Errorf("ttl %s: %v", k, err)
		}
		if n, ok := t.(int64); ok && n >= 0 {
			d.TTL[k] = true
		}
	}
	if keys, err = h.scanKeys(kvn, "HASH"); err != nil {
		return nil, err
	}
	for _, k := range keys {
		v, err := h.read(kvn, "hgetall", full(k))
		if err != nil {
			return nil, fmt.Errorf("hgetall %s: %v", k, err)
		}
		fl, err := asStrings(v)
		if err != nil || len(fl)%2 != 0 {
			return nil, fmt.Errorf("hgetall %s: bad reply %v %v", k, v, err)
		}
		m := map[string]string{}
		for i := 0; i < len(fl); i += 2 {
			if _, dup := m[fl[i]]; dup {
				return nil, fmt.Errorf("hgetall %s: duplicate field %s", k, fl[i])
			}
			m[fl[i]] = fl[i+1]
		}
		d.Hash[k] = m
		if err := h.card(kvn, d, "hlen", k, full(k)); err != nil {
			return nil, err
		}
	}
	if keys, err = h.scanKeys(kvn, "LIST"); err != nil {
		return nil, err
	}
	for _, k := range keys {
		v, err := h.read(kvn, "lrange", full(k), "0", "-1")
		if err != nil {
			return nil, fmt.Errorf("lrange %s: %v", k, err)
		}
		l, err := asStrings(v)
		if err != nil {
			return nil, fmt.Errorf("lrange %s: %v", k, err)
		}
		d.List[k] = l
		if err := h.card(kvn, d, "llen", k, full(k)); err != nil {
			return nil, err
		}
	}
	if keys, err = h.scanKeys(kvn, "SET"); err != nil {
		return nil, err
	}
	for _, k := range keys {
		v, err := h.read(kvn, "smembers", full(k))
		if err != nil {
			return nil, fmt.Errorf("smembers %s: %v", k, err)
		}
		l, err := asStrings(v)
		if err != nil {
			return nil, fmt.Errorf("smembers %s: %v", k, err)
		}
		sort.Strings(l)
		d.Set[k] = l
		if err := h.card(kvn, d, "scard", k, full(k)); err != nil {
			return nil, err
		}
	}
	if keys, err = h.scanKeys(kvn, "ZSET"); err != nil {
		return nil, err
	}
	for _, k := range keys {
		v, err := h.read(kvn, "zrange", full(k), "0", "-1", "withscores")
		if err != nil {
			return nil, fmt.Errorf("zrange %s: %v", k, err)
		}
		l, err := asStrings(v)
		if err != nil || len(l)%2 != 0 {
			return nil, fmt.Errorf("zrange %s: bad reply %v %v", k, v, err)
		}
		var ps [][2]string
		for i := 0; i < len(l); i += 2 {
			ps = append(ps, [2]string{l[i], l[i+1]})
		}
		d.ZSet[k] = ps
		if err := h.card(kvn, d, "zcard", k, full(k)); err != nil {
			return nil, err
		}
	}
	return d, nil
}
