package procluster

import (
	"encoding/json"
	"fmt"
	"io/ioutil"
	"path/filepath"
	"regexp"
	"sort"
	"strings"
	"sync"

	"verif/harness/vc"
)

func readJSON(path string, v interface{}) error {
	b, err := ioutil.ReadFile(path)
	if err != nil {
		return err
	}
	return json.Unmarshal(b, v)
}

// raceReport is one "WARNING: DATA RACE" block of a GORACE log.
type raceReport struct {
	Text   string
	Stacks [][]string // function names per stack (first two stacks are the two accesses)
	Files  [][]string // file paths per stack
}

var (
	raceFuncRe = regexp.MustCompile(`^  ([^\s].*)\(\)$`)
	raceFileRe = regexp.MustCompile(`^      (/[^\s:]+):(\d+)`)
)

func parseRaceLog(text string) []raceReport {
	var out []raceReport
	blocks := strings.Split(text, "WARNING: DATA RACE")
	for _, b := range blocks[1:] {
		if i := strings.Index(b, "=================="); i >= 0 {
			b = b[:i]
		}
		rr := raceReport{Text: strings.TrimSpace(b)}
		var funcs, files []string
		flush := func() {
			if len(funcs) > 0 {
				rr.Stacks = append(rr.Stacks, funcs)
				rr.Files = append(rr.Files, files)
			}
			funcs, files = nil, nil
		}
		for _, l := range strings.Split(b, "\n") {
			if strings.TrimSpace(l) == "" {
				flush()
				continue
			}
			if m := raceFuncRe.FindStringSubmatch(l); m != nil {
				funcs = append(funcs, m[1])
			} else if m := raceFileRe.FindStringSubmatch(l); m != nil {
				files = append(files, m[1])
			}
		}
		flush()
		out = append(out, rr)
	}
	return out
}

// anchorFiles are the files whose functions are the mechanism of the property.
var anchorFiles = map[string][]string{
	"C04": {"server/server.go", "server/redis_api.go", "node/node.go", "node/raft.go", "node/state_machine.go", "node/util.go", "pkg/wait/wait.go"},
	"C06": {"node/raft.go", "node/node.go", "node/raft_storage.go", "node/state_machine.go", "node/kvstore.go", "rockredis/rockredis.go", "wal/wal.go", "snap/snapshotter.go", "pkg/fileutil/purge.go"},
}

func firstRepoFrame(funcs, files []string) (string, string) {
	for i, f := range funcs {
		if strings.Contains(f, "github.com/youzan/ZanRedisDB/") && i < len(files) {
			return f, files[i]
		}
	}
	return "", ""
}

var raceSeen sync.Map // dedupe across instances of one run

// reportRaces reads the GORACE logs of the cluster's nodes, de-duplicates the
// reports and turns those whose two accesses are both in anchor files of the
// property into violations.
func reportRaces(c *vc.Ctx, prop string, cl *Cluster, witness func() map[string]interface{}) {
	for _, n := range cl.Nodes {
		files, _ := filepath.Glob(n.raceLog + ".*")
		for _, f := range files {
			b, err := ioutil.ReadFile(f)
			if err != nil {
				continue
			}
			for _, rr := range parseRaceLog(string(b)) {
				c.Ev.Count("race_reports_total", 1)
				if len(rr.Stacks) < 2 {
					continue
				}
				f1, p1 := firstRepoFrame(rr.Stacks[0], rr.Files[0])
				f2, p2 := firstRepoFrame(rr.Stacks[1], rr.Files[1])
				fs := []string{shortFunc(f1), shortFunc(f2)}
				sort.Strings(fs)
				key := strings.Join(fs, " vs ")
				if _, dup := raceSeen.LoadOrStore(prop+"|"+key, true); dup {
					continue
				}
				c.Ev.Count("race_reports_distinct", 1)
				inAnchor := func(p string) bool {
					for _, a := range anchorFiles[prop] {
						if strings.HasSuffix(p, "/"+a) {
							return true
						}
					}
					return false
				}
				if p1 != "" && p2 != "" && inAnchor(p1) && inAnchor(p2) {
					w := witness()
					w["race_report"] = strings.Split(rr.Text, "\n")
					c.Violation("race/"+key, fmt.Sprintf("data race between %s and %s (both in anchor files of %s) in node %d", fs[0], fs[1], prop, n.ID), w)
				} else {
					c.Ev.Count("race_reports_outside_anchor", 1)
					c.Ev.Sample(8, map[string]interface{}{"race_outside_anchor": key, "files": []string{p1, p2}})
				}
			}
		}
	}
}

func shortFunc(f string) string {
	f = strings.TrimPrefix(f, "github.com/youzan/ZanRedisDB/")
	if f == "" {
		return "(non-repo)"
	}
	return f
}
