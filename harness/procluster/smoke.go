package procluster

import (
	"fmt"
	"io/ioutil"
	"os"
	"time"

	"verif/harness/vc"
)

func init() { vc.RegisterChild("procsmoke", smokeMain) }

func smokeMain(args []string) int {
	dir, _ := ioutil.TempDir("", "procsmoke-")
	defer os.RemoveAll(dir)
	defer KillAllChildren()
	eng := "pebble"
	if len(args) > 0 {
		eng = args[0]
	}
	cl, err := NewCluster("smoke", dir, ClusterOpts{N: 3, Engine: eng, SnapCount: 20, SnapCatchup: 5, KeepBackup: 2})
	if err != nil {
		fmt.Println("new cluster:", err)
		return 1
	}
	defer cl.Close()
	t0 := time.Now()
	if err := cl.StartAll(); err != nil {
		fmt.Println("start:", err)
		return 1
	}
	l, err := cl.WaitLeader(30 * time.Second)
	fmt.Println("leader", l, err, time.Since(t0))
	if err != nil {
		for _, n := range cl.Nodes {
			fmt.Println(n.LogTail(3000))
		}
		return 1
	}
	clock := NewClock()
	h := &History{}
	c := NewClient(0, cl, clock, h, 12*time.Second)
	L := cl.Nodes[l]
	fmt.Println(c.Do(L.ID, "k", "getset", "v1"))
	fmt.Println(L.SetFailpoint("node.queue.beforePropose", "sleep(4500)"))
	fmt.Println(c.Do(L.ID, "k", "del"))
	fmt.Println(L.SetFailpoint("node.queue.beforePropose", ""))
	fmt.Println(c.Do(L.ID, "k", "get"))
	fmt.Println(c.Do(L.ID, "k", "exists"))
	for _, x := range L.LogGrep(10, "merge command") {
		fmt.Println(x)
	}
	return 0
}
