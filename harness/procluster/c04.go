package procluster

import (
	"encoding/json"
	"fmt"
	"math/rand"
	"path/filepath"
	"sort"
	"strings"
	"sync"
	"sync/atomic"
	"time"

	"verif/harness/vc"
)

func init() {
	vc.Register("C04", "exploration", runC04)
	vc.Need("C04", "race")
}

// FaultEvent is one step of an instance's fault plan. The generated part
// (Kind, Params) is a function of the seed; the resolved part is filled in
// when the event is executed.
type FaultEvent struct {
	Kind    string   `json:"kind"` // kill-follower kill-leader kill-two term-restart transfer fp-sleep
	Role    string   `json:"role,omitempty"`
	DownMs  int      `json:"down_ms,omitempty"`
	Point   string   `json:"point,omitempty"`
	Chain   string   `json:"chain,omitempty"`
	HoldMs  int      `json:"hold_ms,omitempty"`
	Targets []uint64 `json:"targets,omitempty"`
	T0      int64    `json:"t0_ms,omitempty"`
	T1      int64    `json:"t1_ms,omitempty"`
	Note    string   `json:"note,omitempty"`
	// acknowledged writes whose call came after the fault was injected
	AckedAfter int `json:"acked_after"`
}

// C04Instance is one generated (or replayed) execution.
type C04Instance struct {
	Index    int          `json:"index"`
	Seed     int64        `json:"seed"`
	Directed string       `json:"directed,omitempty"` // "" | "precheck"
	Opts     ClusterOpts  `json:"opts"`
	Clients  int          `json:"clients"`
	Keys     int          `json:"keys"`
	GapAcked int          `json:"gap_acked"`
	Plan     []FaultEvent `json:"plan"`
}

var fpSleepPoints = []string{"node.apply.beforeEntry", "node.raft.beforePersist", "node.queue.beforePropose"}

func genC04Instance(c *vc.Ctx, idx int) *C04Instance {
	rng := c.Rand(int64(4000 + idx))
	inst := &C04Instance{Index: idx, Seed: rng.Int63(), Clients: 4 + rng.Intn(5), Keys: 3 + rng.Intn(4), GapAcked: 120 + rng.Intn(120)}
	inst.Opts = ClusterOpts{N: 3, Engine: []string{"pebble", "mem"}[(idx+int(c.Seed))%2], SnapCount: 16 + rng.Intn(10), SnapCatchup: 3 + rng.Intn(4),
		KeepBackup: 2 + rng.Intn(2), ElectionTick: 10, UseRocksWAL: rng.Intn(4) == 0, WALSegmentBytes: int64(64<<10) << uint(rng.Intn(3))}
	inst.Opts.OptimizedFsync = idx%3 == 1 // a fixed third of the instances runs with optimized_fsync on
	nEvents := c.Pick(6, 8)
	for e := 0; e < nEvents; e++ {
		var ev FaultEvent
		r := rng.Intn(29)
		if e == 0 {
			r = rng.Intn(12) // always start with a kill so that a restart / snapshot install happens
		}
		switch {
		case r < 6:
			ev = FaultEvent{Kind: "kill-follower", DownMs: 200 + rng.Intn(1500)}
		case r < 12:
			ev = FaultEvent{Kind: "kill-leader", DownMs: 200 + rng.Intn(1500)}
		case r < 16:
			ev = FaultEvent{Kind: "kill-two", DownMs: 200 + rng.Intn(800), Role: []string{"leader", "follower"}[rng.Intn(2)]}
		case r < 19:
			ev = FaultEvent{Kind: "term-restart", Role: []string{"leader", "follower"}[rng.Intn(2)], DownMs: 100 + rng.Intn(500)}
		case r < 23:
			ev = FaultEvent{Kind: "transfer"}
		default:
			pt := fpSleepPoints[rng.Intn(len(fpSleepPoints))]
			ms := 5 + rng.Intn(60)
			if rng.Intn(3) == 0 {
				ms = 100 + rng.Intn(300)
			}
			ev = FaultEvent{Kind: "fp-sleep", Point: pt, Role: []string{"leader", "follower"}[rng.Intn(2)],
				Chain: fmt.Sprintf("%d%%sleep(%d)", 20+rng.Intn(80), ms), HoldMs: 1500 + rng.Intn(1500)}
		}
		inst.Plan = append(inst.Plan, ev)
	}
	return inst
}

type c04Result struct {
	inconclusive string
	nontrivial   bool
}

type c04Run struct {
	c               *vc.Ctx
	inst            *C04Instance
	cl              *Cluster
	w               *workload
	rng             *rand.Rand
	terms           map[string]bool // observed (term,leader) pairs
	tmu             sync.Mutex
	unexpectedExits []string
	selfStops       int
}

func (r *c04Run) nowMs() int64 { return r.w.clock.Now() / 1e6 }

func (r *c04Run) observe() (leader int, sts []*NodeStatus) {
	sts = r.cl.Statuses()
	leader = -1
	var bestTerm uint64
	for i, st := range sts {
		if st != nil && st.Ready && st.IsLeader && st.RaftStatusOK && st.Term >= bestTerm {
			leader, bestTerm = i, st.Term
		}
	}
	if leader >= 0 {
		r.tmu.Lock()
		r.terms[fmt.Sprintf("%d/%d", bestTerm, r.cl.Nodes[leader].ID)] = true
		r.tmu.Unlock()
		atomic.StoreInt64(&r.w.leaderHint, int64(r.cl.Nodes[leader].ID))
	}
	return
}

func (r *c04Run) waitLeader(d time.Duration) int {
	dl := time.Now().Add(d)
	for time.Now().Before(dl) {
		if l, _ := r.observe(); l >= 0 {
			return l
		}
		time.Sleep(150 * time.Millisecond)
	}
	return -1
}

// monitor keeps the leader hint fresh and acts as supervisor: a node whose
// process ended although the driver did not stop it is restarted (and
// reported in evidence).
func (r *c04Run) monitor(stop chan struct{}, wg *sync.WaitGroup) {
	defer wg.Done()
	for {
		select {
		case <-stop:
			return
		case <-time.After(250 * time.Millisecond):
		}
		r.observe()
		for _, n := range r.cl.Nodes {
			if n.Alive() {
				continue
			}
			sig, code, wanted := n.Exit()
			if wanted || n.Starts == 0 {
				continue
			}
			desc := fmt.Sprintf("node %d: signal=%v code=%d; log tail: %s", n.ID, sig, code, strings.Join(lastN(n.LogTail(6000), 12), " | "))
			r.tmu.Lock()
			if code == 7 {
				r.selfStops++
			}
			if len(r.unexpectedExits) < 20 {
				r.unexpectedExits = append(r.unexpectedExits, desc)
			}
			r.tmu.Unlock()
			n.mu.Lock()
			n.wantDown = true // handled
			n.mu.Unlock()
			n.Start("", int64(n.ID))
		}
	}
}

func lastN(s []string, n int) []string {
	if len(s) > n {
		return s[len(s)-n:]
	}
	return s
}

func (r *c04Run) pickByRole(role string, leader int) int {
	if role == "leader" && leader >= 0 {
		return leader
	}
	var cands []int
	for i := range r.cl.Nodes {
		if i != leader {
			cands = append(cands, i)
		}
	}
	return cands[r.rng.Intn(len(cands))]
}

func (r *c04Run) killRestart(i int, downMs int, ev *FaultEvent) error {
	n := r.cl.Nodes[i]
	ev.Targets = append(ev.Targets, n.ID)
	n.Kill()
	time.Sleep(time.Duration(downMs) * time.Millisecond)
	if err := n.Start("", int64(n.ID)); err != nil {
		return err
	}
	if _, err := n.WaitUp(40 * time.Second); err != nil {
		if ee, ok := err.(*ExitError); ok {
			ev.Note += fmt.Sprintf("restart of node %d: %v; ", n.ID, ee)
			return nil // the monitor restarts it and reports the exit
		}
		return err
	}
	return nil
}

// execEvent injects one fault. A returned error makes the instance inconclusive.
func (r *c04Run) execEvent(ev *FaultEvent) error {
	leader := r.waitLeader(40 * time.Second)
	if leader < 0 {
		return fmt.Errorf("no leader before fault %s", ev.Kind)
	}
	ev.T0 = r.nowMs()
	defer func() { ev.T1 = r.nowMs() }()
	switch ev.Kind {
	case "kill-follower":
		return r.killRestart(r.pickByRole("follower", leader), ev.DownMs, ev)
	case "kill-leader":
		return r.killRestart(leader, ev.DownMs, ev)
	case "kill-two":
		a := r.pickByRole("follower", leader)
		if err := r.killRestart(a, ev.DownMs, ev); err != nil {
			return err
		}
		// second kill right after the first victim is back (a majority is alive at every instant)
		b := leader
		if ev.Role == "follower" || !r.cl.Nodes[leader].Alive() {
			for i := range r.cl.Nodes {
				if i != a && i != leader {
					b = i
				}
			}
		}
		return r.killRestart(b, ev.DownMs, ev)
	case "term-restart":
		i := r.pickByRole(ev.Role, leader)
		n := r.cl.Nodes[i]
		ev.Targets = append(ev.Targets, n.ID)
		if !n.Term(40 * time.Second) {
			ev.Note += "SIGTERM did not stop the node within 40s, killed; "
		}
		time.Sleep(time.Duration(ev.DownMs) * time.Millisecond)
		if err := n.Start("", int64(n.ID)); err != nil {
			return err
		}
		if _, err := n.WaitUp(40 * time.Second); err != nil {
			if _, ok := err.(*ExitError); !ok {
				return err
			}
			ev.Note += err.Error() + "; "
		}
	case "transfer":
		to := r.pickByRole("follower", leader)
		ev.Targets = []uint64{r.cl.Nodes[leader].ID, r.cl.Nodes[to].ID}
		if err := r.cl.Nodes[leader].TransferLeader(r.cl.Nodes[to].ID); err != nil {
			ev.Note += "transfer: " + err.Error() + "; "
		}
	case "fp-sleep":
		i := r.pickByRole(ev.Role, leader)
		n := r.cl.Nodes[i]
		ev.Targets = append(ev.Targets, n.ID)
		if err := n.SetFailpoint(ev.Point, ev.Chain); err != nil {
			ev.Note += "set: " + err.Error() + "; "
			return nil
		}
		time.Sleep(time.Duration(ev.HoldMs) * time.Millisecond)
		if n.Alive() {
			if err := n.SetFailpoint(ev.Point, ""); err != nil {
				ev.Note += "clear: " + err.Error() + "; "
			}
		}
	}
	return nil
}

func (r *c04Run) waitAcked(target int64, d time.Duration) bool {
	dl := time.Now().Add(d)
	for time.Now().Before(dl) {
		if atomic.LoadInt64(&r.w.acked) >= target {
			return true
		}
		time.Sleep(50 * time.Millisecond)
	}
	return false
}

func runC04(c *vc.Ctx) error {
	c.Ev.Rule = "instance = 3 vnode processes (real server.Server each) + 4..8 redis clients on 3..6 single-family keys (counter INCR/INCRBY, hash counter HINCRBY, register GETSET/SETNX/DEL, list LPUSH/RPUSH/LPOP/RPOP; unique values; requests to random replicas) + a seeded plan of fault events (kill -9 follower/leader/two in a row, SIGTERM+restart, leader transfer, failpoint sleeps in apply/persist/propose), each injected after a fixed number of further acknowledged writes; after the plan: settle observed (all applied == leader commit twice), final read per key, dump of every replica; oracles: equal dumps, unique-value accounting, porcupine per key with open (unknown-outcome) operations. Plus directed scenarios: node-local pre-check path (lagging follower), proposal timeouts (one follower's raft loop stalled by a failpoint for longer than the 4 s proposal timeout while all clients write through it: the proposals time out for the clients but commit later; then a burst of unique-value writes through the same replica), and follower-ack durability (third replica down, follower crashed by failpoint between the early-send position and its WAL write at Readys with new entries and unchanged HardState, leader SIGKILLed right after, both restarted, old leader rejoins; judged after all three are settled). non-trivial = instance with >=1 fault event after whose injection >=1 write was acknowledged; fingerprint = engine/options/instance seed/sequence of executed fault kinds"
	c.Ev.Assume("only writes that go through the raft log are in the history; reads during the run are leader-local by design and not checked")
	c.Ev.Assume("kill -9 keeps the page cache: fsync placement is not decided here")
	c.Ev.Assume("engines pebble and mem only (rocksdb engine is not runnable in this sandbox)")
	c.Ev.Assume("SADD/SETIFEQ/DELIFEQ pre-check paths are not in the C04 models (SETNX, LPOP, RPOP are)")

	if c.Replay != "" {
		return replayC04(c)
	}
	nRandom := c.Pick(3, 40)
	nDirected := c.Pick(1, 3)
	par := c.Pick(6, 4)
	type job struct{ inst *C04Instance }
	var jobs []job
	for i := 0; i < nDirected; i++ {
		rng := c.Rand(int64(4900 + i))
		jobs = append(jobs, job{&C04Instance{Index: 1000 + i, Seed: rng.Int63(), Directed: "precheck",
			Opts: ClusterOpts{N: 3, Engine: []string{"pebble", "mem"}[(i+int(c.Seed))%2], SnapCount: 20, SnapCatchup: 5, KeepBackup: 2, ElectionTick: 10}}})
	}
	for i := 0; i < c.Pick(1, 4); i++ {
		rng := c.Rand(int64(4950 + i))
		jobs = append(jobs, job{&C04Instance{Index: 1100 + i, Seed: rng.Int63(), Directed: "follower-ack", Clients: 2, Keys: 3,
			Opts: ClusterOpts{N: 3, Engine: []string{"mem", "pebble"}[(i+int(c.Seed))%2], SnapCount: 20, SnapCatchup: 5, KeepBackup: 2, ElectionTick: 10,
				OptimizedFsync: (i+int(c.Seed))%2 == 0}}})
	}
	for i := 0; i < c.Pick(1, 4); i++ {
		rng := c.Rand(int64(4970 + i))
		jobs = append(jobs, job{&C04Instance{Index: 1200 + i, Seed: rng.Int63(), Directed: "proposal-timeout", Clients: 5, Keys: 3,
			Opts: ClusterOpts{N: 3, Engine: []string{"pebble", "mem"}[(i+int(c.Seed))%2], SnapCount: 20, SnapCatchup: 5, KeepBackup: 2, ElectionTick: 10}}})
	}
	for i := 0; i < nRandom; i++ {
		inst := genC04Instance(c, i)
		if c.Thorough() && i%5 == 4 {
			inst.Opts.Race = true
		}
		jobs = append(jobs, job{inst})
	}
	sem := make(chan struct{}, par)
	var wg sync.WaitGroup
	for _, j := range jobs {
		wg.Add(1)
		sem <- struct{}{}
		go func(inst *C04Instance) {
			defer wg.Done()
			defer func() { <-sem }()
			defer func() {
				if p := recover(); p != nil {
					c.Inconclusive(fmt.Sprintf("instance %d: harness panic: %v", inst.Index, p))
				}
			}()
			// an inconclusive instance is retried once with a fresh cluster
			for attempt := 0; attempt < 2; attempt++ {
				why := runC04Instance(c, inst, attempt)
				if why == "" {
					return
				}
				c.Inconclusive(fmt.Sprintf("instance %d attempt %d: %s", inst.Index, attempt, why))
				c.Ev.Count("instances_inconclusive", 1)
			}
		}(j.inst)
	}
	wg.Wait()
	KillAllChildren()
	return nil
}

func replayC04(c *vc.Ctx) error {
	var doc struct {
		Witness struct {
			Instance *C04Instance `json:"instance"`
		} `json:"witness"`
	}
	if err := readJSON(c.Replay, &doc); err != nil || doc.Witness.Instance == nil {
		return fmt.Errorf("replay file %s has no instance: %v", c.Replay, err)
	}
	inst := doc.Witness.Instance
	for i := range inst.Plan { // forget the resolved part
		ev := &inst.Plan[i]
		ev.Targets, ev.T0, ev.T1, ev.Note, ev.AckedAfter = nil, 0, 0, "", 0
	}
	defer KillAllChildren()
	if why := runC04Instance(c, inst, 0); why != "" {
		c.Inconclusive(why)
	}
	return nil
}

// runC04Instance executes one instance; it returns "" when a verdict was
// reached (held or violation reported) and a reason when inconclusive.
func runC04Instance(c *vc.Ctx, inst *C04Instance, attempt int) (inconclusive string) {
	t0 := time.Now()
	name := fmt.Sprintf("c04-%d-%d", inst.Index, attempt)
	dir := filepath.Join(c.Scratch, name)
	cl, err := NewCluster(name, dir, inst.Opts)
	if err != nil {
		return "cluster setup: " + err.Error()
	}
	defer cl.Close()
	if err := cl.StartAll(); err != nil {
		return "start: " + err.Error()
	}
	r := &c04Run{c: c, inst: inst, cl: cl, rng: rand.New(rand.NewSource(inst.Seed)), terms: map[string]bool{}}
	r.w = newWorkload(cl, max(inst.Keys, 1), 340, 10, 60000)
	if l := r.waitLeader(60 * time.Second); l < 0 {
		return "no leader after start: " + strings.Join(lastN(cl.Nodes[0].LogTail(4000), 8), " | ")
	}
	stopMon := make(chan struct{})
	var monWG sync.WaitGroup
	monWG.Add(1)
	go r.monitor(stopMon, &monWG)
	stopMonitor := func() {
		select {
		case <-stopMon:
		default:
			close(stopMon)
			monWG.Wait()
		}
	}
	defer stopMonitor()

	var directedNote string
	if inst.Directed == "precheck" {
		directedNote, inconclusive = r.directedPrecheck()
		if inconclusive != "" {
			return inconclusive
		}
	} else if inst.Directed == "proposal-timeout" {
		directedNote, inconclusive = r.directedProposalTimeout()
		if inconclusive != "" {
			return inconclusive
		}
	} else if inst.Directed == "follower-ack" {
		directedNote, inconclusive = r.directedFollowerAck()
		if inconclusive != "" {
			return inconclusive
		}
	} else {
		r.w.start(inst.Clients, inst.Seed, 9*time.Second)
		if !r.waitAcked(int64(inst.GapAcked), 60*time.Second) {
			r.w.stopAndWait()
			return "no progress before the first fault"
		}
		for i := range inst.Plan {
			ev := &inst.Plan[i]
			if err := r.execEvent(ev); err != nil {
				r.w.stopAndWait()
				return fmt.Sprintf("fault %d (%s): %v", i, ev.Kind, err)
			}
			if !r.waitAcked(atomic.LoadInt64(&r.w.acked)+int64(inst.GapAcked), 90*time.Second) {
				r.w.stopAndWait()
				return fmt.Sprintf("no progress (%d further acknowledged writes) within 90s after fault %d (%s)", inst.GapAcked, i, ev.Kind)
			}
			if time.Since(t0) > 6*time.Minute {
				r.w.stopAndWait()
				return "instance watchdog (6 min)"
			}
		}
		r.w.stopAndWait()
	}
	// every replica must be running for the settle
	for _, n := range cl.Nodes {
		if !n.Alive() {
			n.Start("", int64(n.ID))
		}
		n.SetFailpoint("node.apply.beforeEntry", "")
	}
	time.Sleep(300 * time.Millisecond)
	commit, err := cl.Settle(90 * time.Second)
	if err != nil {
		return "settle: " + err.Error()
	}
	stopMonitor()
	leader := r.waitLeader(20 * time.Second)
	if leader < 0 {
		return "no leader for the final reads"
	}
	// final read per key through the redis API of the leader
	keys := r.w.keys()
	fc := NewClient(inst.Clients+1, cl, r.w.clock, r.w.hist, 9*time.Second)
	defer fc.Close()
	for _, k := range keys {
		var op *Op
		for try := 0; try < 5 && (op == nil || op.Status != "ok"); try++ {
			h := &History{}
			fc.hist = h
			switch k.Family {
			case "counter", "register":
				op = fc.Do(cl.Nodes[leader].ID, k.Name, "get")
			case "hcounter":
				op = fc.Do(cl.Nodes[leader].ID, k.Name, "hget", "f")
			case "list":
				op = fc.Do(cl.Nodes[leader].ID, k.Name, "lrange", "0", "-1")
			}
			if op == nil || op.Status != "ok" {
				time.Sleep(500 * time.Millisecond)
				if l := r.waitLeader(20 * time.Second); l >= 0 {
					leader = l
				}
			}
		}
		if op == nil || op.Status != "ok" {
			return fmt.Sprintf("final read of %s failed: %v", k.Name, op)
		}
		r.w.hist.add(op)
	}
	// the settle must still hold after the reads (nothing was in flight)
	commit2, err := cl.Settle(60 * time.Second)
	if err != nil || commit2 != commit {
		return fmt.Sprintf("cluster moved during final reads (commit %d -> %d, %v)", commit, commit2, err)
	}
	dumps := make([]*Dump, len(cl.Nodes))
	for i, n := range cl.Nodes {
		d, err := n.Dump()
		if err != nil {
			return "dump: " + err.Error()
		}
		dumps[i] = d
	}

	// ---------------- evidence
	ops := r.w.hist.Ops()
	byKey := map[string][]*Op{}
	for _, o := range ops {
		byKey[o.Key] = append(byKey[o.Key], o)
		outcome := "ok"
		if o.Status != "ok" {
			outcome = "open_error_reply"
			if o.IOErr {
				outcome = "open_io_or_timeout"
			}
		}
		c.Ev.Count("ops."+o.Cmd+"."+outcome, 1)
	}
	var kinds []string
	nontrivial := inst.Directed != ""
	for i := range inst.Plan {
		ev := &inst.Plan[i]
		for _, o := range ops {
			if o.Status == "ok" && o.Call/1e6 > ev.T0 && o.Client <= inst.Clients {
				ev.AckedAfter++
			}
		}
		c.Ev.Count("faults."+ev.Kind, 1)
		kinds = append(kinds, ev.Kind)
		if ev.AckedAfter > 0 {
			nontrivial = true
		}
	}
	c.Ev.Count("leader_changes_observed", int64(max(len(r.terms)-1, 0)))
	snaps := 0
	for _, n := range cl.Nodes {
		snaps += len(n.LogGrep(100000, "raft applied incoming snapshot done"))
		c.Ev.Count("node_process_starts", int64(n.Starts))
	}
	c.Ev.Count("snapshots_installed", int64(snaps))
	c.Ev.Count("unexpected_node_exits", int64(len(r.unexpectedExits)))
	c.Ev.Count("namespace_self_stops", int64(r.selfStops))
	for _, e := range r.unexpectedExits {
		c.Ev.Sample(6, map[string]interface{}{"unexpected_exit": e, "instance": inst.Index})
	}
	c.Ev.Max("max_instance_wall_s", int64(time.Since(t0).Seconds()))
	c.Ev.Count("history_ops", int64(len(ops)))

	witnessBase := func() map[string]interface{} {
		tails := map[string][]string{}
		for _, n := range cl.Nodes {
			tails[fmt.Sprintf("n%d", n.ID)] = lastN(n.LogTail(8000), 25)
		}
		return map[string]interface{}{"instance": inst, "settled_commit": commit, "directed_note": directedNote,
			"unexpected_exits": r.unexpectedExits, "log_tails": tails}
	}

	violated := false
	// Candidate finding 8 (DESIGN.md 1.6): on pebble a checkpoint whose creation takes
	// longer than the fixed 20 ms after which the apply loop is released can contain
	// writes newer than its raft index; a replica that restores it (restart or
	// snapshot install) and then applies the log from that index applies them twice.
	var ckptSlowest time.Duration
	var ckptEvidence []string
	if inst.Opts.Engine == "pebble" {
		for _, n := range cl.Nodes {
			d, ev := cl.CheckpointEvidence(n)
			if d > ckptSlowest {
				ckptSlowest = d
			}
			for _, e := range ev {
				if len(ckptEvidence) < 12 && strings.Contains(e, "ms;") {
					ckptEvidence = append(ckptEvidence, e)
				}
			}
		}
	}
	ckptLeakPossible := ckptSlowest >= 20*time.Millisecond
	tainted := false // a replica demonstrably applied writes twice after restoring such a checkpoint
	// the leak's symptom is a double apply of a non-idempotent write: some key's
	// accounting must say so before a divergence is attributed to it
	doubleApplySeen := func() bool {
		for _, k := range r.w.keys() {
			if kops := byKey[k.Name]; len(kops) > 1 {
				if sig, _ := accounting(k.Family, kops); sig == "write-applied-twice" {
					return true
				}
			}
		}
		return false
	}
	// (i) pairwise equal dumps
	ref, _ := json.Marshal(dumps[0])
	for i := 1; i < len(dumps); i++ {
		b, _ := json.Marshal(dumps[i])
		if string(b) != string(ref) {
			w := witnessBase()
			diff := diffDumps(dumps[0], dumps[i])
			w["replicas"] = []uint64{cl.Nodes[0].ID, cl.Nodes[i].ID}
			w["first_differences"] = diff
			if len(diff) > 0 {
				k := diff[0]["key"].(string)
				w["history_of_key"] = opStrings(byKey[k])
			}
			sig := "replica-divergence"
			note := ""
			if ckptLeakPossible && doubleApplySeen() {
				sig = "pebble-checkpoint-leaks-later-writes/replica-divergence"
				tainted = true
				w["checkpoint_evidence"] = ckptEvidence
				note = fmt.Sprintf(" [pebble: a replica restored from a checkpoint whose creation took %v (> 20 ms)]", ckptSlowest)
			}
			if c.Violation(sig, fmt.Sprintf("instance %d (%s): settled replicas %d and %d (applied=commit=%d on all) have different data: %v%s",
				inst.Index, inst.Opts.Engine, cl.Nodes[0].ID, cl.Nodes[i].ID, commit, firstOr(diff), note), w) {
				violated = true
			}
			break
		}
	}
	// DEL proposals that failed inside the merged-command path (server/merge.go logs
	// "part of merge command error") but were NOT reported to the client as an
	// error: log lines per (node,key) minus the DELs on that key through that
	// node that did end with an error reply or a dead connection.
	swallowed := map[string]int{}
	for _, n := range cl.Nodes {
		perKey := map[string]int{}
		for _, l := range n.LogGrep(100000, "part of merge command error") {
			if i := strings.Index(l, "default:"+cl.Opts.Table+":"); i >= 0 && strings.Contains(l, "ndel\\r") {
				rest := l[i+len("default:"+cl.Opts.Table+":"):]
				if j := strings.Index(rest, "\\r"); j > 0 {
					perKey[rest[:j]]++
				}
			}
		}
		for _, o := range ops {
			if o.Cmd == "del" && o.Node == n.ID && o.Status != "ok" && perKey[o.Key] > 0 {
				perKey[o.Key]--
			}
		}
		for k, v := range perKey {
			swallowed[k] += v
		}
	}
	nsw := 0
	for _, v := range swallowed {
		nsw += v
	}
	c.Ev.Count("del_errors_not_reported_to_client", int64(nsw))
	// (ii)+(iii) per key accounting and linearizability
	var verdicts []KeyVerdict
	var vmu sync.Mutex
	var kwg sync.WaitGroup
	ksem := make(chan struct{}, 4)
	for _, k := range keys {
		kops := byKey[k.Name]
		if len(kops) <= 1 {
			continue
		}
		kwg.Add(1)
		ksem <- struct{}{}
		go func(k *keyState, kops []*Op) {
			defer kwg.Done()
			defer func() { <-ksem }()
			v := checkKey(k.Family, k.Name, kops, 2*time.Minute, swallowed[k.Name])
			vmu.Lock()
			verdicts = append(verdicts, v)
			vmu.Unlock()
		}(k, kops)
	}
	kwg.Wait()
	sort.Slice(verdicts, func(i, j int) bool { return verdicts[i].Key < verdicts[j].Key })
	unknown := ""
	var taintedKeys []string
	if ckptLeakPossible {
		for _, v := range verdicts {
			if v.Result == "illegal" && v.Signature == "write-applied-twice" {
				tainted = true
			}
		}
	}
	for _, v := range verdicts {
		c.Ev.Count("porcupine.keys."+v.Result, 1)
		c.Ev.Count("porcupine.keys.family."+v.Family, 1)
		c.Ev.Max("porcupine.max_check_ms", v.CheckMs)
		c.Ev.Max("porcupine.max_ops_per_key", int64(v.Ops))
		c.Ev.Max("porcupine.max_open_per_key", int64(v.Open))
		switch v.Result {
		case "unknown":
			unknown = fmt.Sprintf("key %s: %s", v.Key, v.Detail)
		case "illegal":
			if tainted && !strings.HasPrefix(v.Signature, "local-precheck-stale/") {
				// consequence of the double apply: one violation per instance, the keys are listed in it
				taintedKeys = append(taintedKeys, fmt.Sprintf("%s (%s): %s: %s", v.Key, v.Family, v.Signature, v.Detail))
				continue
			}
			w := witnessBase()
			w["key"], w["family"], w["detail"] = v.Key, v.Family, v.Detail
			w["history_of_key"] = opStrings(byKey[v.Key])
			w["ops"] = byKey[v.Key]
			for _, sig := range append([]string{v.Signature}, v.MoreSignatures...) {
				if c.Violation(sig, fmt.Sprintf("instance %d (%s%s): key %s (%s, %d ops, %d open): %s", inst.Index, inst.Opts.Engine, directedTag(inst), v.Key, v.Family, v.Ops, v.Open, v.Detail), w) {
					violated = true
				}
			}
		}
	}
	if len(taintedKeys) > 0 {
		w := witnessBase()
		w["checkpoint_evidence"] = ckptEvidence
		w["keys"] = taintedKeys
		if c.Violation("pebble-checkpoint-leaks-later-writes/double-apply", fmt.Sprintf("instance %d (pebble): %d keys show writes applied twice / replies computed from doubly applied state; a replica restored from a checkpoint whose creation took %v (> 20 ms) and applied the log after the checkpoint's index on top: first %s",
			inst.Index, len(taintedKeys), ckptSlowest, taintedKeys[0]), w) {
			violated = true
		}
	}
	if unknown != "" && !violated {
		return "checker: " + unknown
	}
	// race reports of -race children
	if inst.Opts.Race {
		reportRaces(c, "C04", cl, witnessBase)
	}
	c.Ev.Eval()
	if nontrivial {
		c.Ev.Nontrivial(fmt.Sprintf("%s/rockswal=%v/optfsync=%v/%d/%s%s", inst.Opts.Engine, inst.Opts.UseRocksWAL, inst.Opts.OptimizedFsync, inst.Seed, strings.Join(kinds, ","), directedTag(inst)))
	}
	if len(ops) > 0 {
		frag := ops
		if len(frag) > 400 {
			frag = frag[200:212]
		} else if len(frag) > 12 {
			frag = frag[:12]
		}
		c.Ev.Sample(3, map[string]interface{}{"instance": inst.Index, "engine": inst.Opts.Engine, "plan": inst.Plan, "history_fragment": opStrings(frag), "note": directedNote})
	}
	fmt.Printf("C04 instance %d (%s%s, rockswal=%v, optfsync=%v, race=%v): %d ops, %d keys, %d faults, %d snapshots installed, %d leader changes, %.0fs, violated=%v\n",
		inst.Index, inst.Opts.Engine, directedTag(inst), inst.Opts.UseRocksWAL, inst.Opts.OptimizedFsync, inst.Opts.Race, len(ops), len(verdicts), len(inst.Plan), snaps, max(len(r.terms)-1, 0), time.Since(t0).Seconds(), violated)
	return ""
}

func directedTag(inst *C04Instance) string {
	if inst.Directed != "" {
		return "/directed-" + inst.Directed
	}
	return ""
}

func firstOr(d []map[string]interface{}) interface{} {
	if len(d) > 0 {
		return d[0]
	}
	return "?"
}

func opStrings(ops []*Op) []string {
	out := make([]string, 0, len(ops))
	for _, o := range ops {
		out = append(out, o.String())
	}
	return out
}

// diffDumps lists up to 5 keys on which two dumps differ.
func diffDumps(a, b *Dump) []map[string]interface{} {
	var out []map[string]interface{}
	add := func(typ, k string, x, y interface{}) {
		if len(out) < 5 {
			out = append(out, map[string]interface{}{"type": typ, "key": k, "a": x, "b": y})
		}
	}
	js := func(v interface{}) string { b, _ := json.Marshal(v); return string(b) }
	cmp := func(typ string, ka, kb []string, get func(d *Dump, k string) (interface{}, bool)) {
		seen := map[string]bool{}
		for _, k := range append(ka, kb...) {
			if seen[k] {
				continue
			}
			seen[k] = true
			x, okx := get(a, k)
			y, oky := get(b, k)
			if okx != oky || js(x) != js(y) {
				add(typ, k, x, y)
			}
		}
	}
	cmp("kv", keysOf(a.KV), keysOf(b.KV), func(d *Dump, k string) (interface{}, bool) { v, ok := d.KV[k]; return []interface{}{v, d.TTL[k]}, ok })
	cmp("hash", keysOfH(a.Hash), keysOfH(b.Hash), func(d *Dump, k string) (interface{}, bool) { v, ok := d.Hash[k]; return v, ok })
	cmp("list", keysOfL(a.List), keysOfL(b.List), func(d *Dump, k string) (interface{}, bool) { v, ok := d.List[k]; return v, ok })
	cmp("set", keysOfL(a.Set), keysOfL(b.Set), func(d *Dump, k string) (interface{}, bool) { v, ok := d.Set[k]; return v, ok })
	cmp("zset", keysOfZ(a.ZSet), keysOfZ(b.ZSet), func(d *Dump, k string) (interface{}, bool) { v, ok := d.ZSet[k]; return v, ok })
	pfk := func(d *Dump) []string {
		var out []string
		for k := range d.PF {
			out = append(out, k)
		}
		sort.Strings(out)
		return out
	}
	cmp("pfcount", pfk(a), pfk(b), func(d *Dump, k string) (interface{}, bool) { v, ok := d.PF[k]; return v, ok })
	ck := func(d *Dump) []string {
		var out []string
		for k := range d.Card {
			out = append(out, k)
		}
		sort.Strings(out)
		return out
	}
	cmp("cardinality", ck(a), ck(b), func(d *Dump, k string) (interface{}, bool) { v, ok := d.Card[k]; return v, ok })
	return out
}

func keysOf(m map[string]string) []string {
	var out []string
	for k := range m {
		out = append(out, k)
	}
	sort.Strings(out)
	return out
}
func keysOfH(m map[string]map[string]string) []string {
	var out []string
	for k := range m {
		out = append(out, k)
	}
	sort.Strings(out)
	return out
}
func keysOfL(m map[string][]string) []string {
	var out []string
	for k := range m {
		out = append(out, k)
	}
	sort.Strings(out)
	return out
}
func keysOfZ(m map[string][][2]string) []string {
	var out []string
	for k := range m {
		out = append(out, k)
	}
	sort.Strings(out)
	return out
}

// directedPrecheck steers into candidate finding 4: one follower applies
// late (failpoint sleep in the apply loop); a write acknowledged through the
// leader is followed, after its reply, by a conditional write through the
// lagging follower whose node-local pre-check still sees the old state.
func (r *c04Run) directedPrecheck() (note string, inconclusive string) {
	cl := r.cl
	c := NewClient(0, cl, r.w.clock, r.w.hist, 9*time.Second)
	defer c.Close()
	rounds := 4
	lagMs := 250 + r.rng.Intn(300)
	stale := 0
	for round := 0; round < rounds; round++ {
		leader := r.waitLeader(30 * time.Second)
		if leader < 0 {
			return "", "directed: no leader"
		}
		L := cl.Nodes[leader].ID
		fi := r.pickByRole("follower", leader)
		F := cl.Nodes[fi]
		reg := &keyState{Name: fmt.Sprintf("r%d", round), Family: "register"}
		lst := &keyState{Name: fmt.Sprintf("l%d", round), Family: "list"}
		r.w.mu.Lock()
		r.w.all = append(r.w.all, reg, lst)
		r.w.mu.Unlock()
		v := func(s string) string { return fmt.Sprintf("d%d%s", round, s) }
		must := func(op *Op) bool { return op != nil && op.Status == "ok" }
		if !must(c.Do(L, reg.Name, "getset", v("a"))) {
			return "", "directed: setup write failed"
		}
		if _, err := cl.Settle(30 * time.Second); err != nil {
			return "", "directed: " + err.Error()
		}
		if err := F.SetFailpoint("node.apply.beforeEntry", fmt.Sprintf("sleep(%d)", lagMs)); err != nil {
			return "", "directed: " + err.Error()
		}
		// DEL through the leader, acknowledged; then SETNX through the lagging follower
		d := c.Do(L, reg.Name, "del")
		s := c.Do(F.ID, reg.Name, "setnx", v("b"))
		// list: push through the leader, acknowledged; then pop through the lagging follower
		p := c.Do(L, lst.Name, "rpush", v("e"))
		q := c.Do(F.ID, lst.Name, "lpop")
		F.SetFailpoint("node.apply.beforeEntry", "")
		if must(d) && must(s) && s.Reply == int64(0) {
			stale++
		}
		if must(p) && must(q) && q.Reply == nil {
			stale++
		}
		if _, err := cl.Settle(30 * time.Second); err != nil {
			return "", "directed: " + err.Error()
		}
	}
	// merged-command error path: a DEL whose proposal fails (here: stalled 4.3 s before
	// the propose, longer than the 4 s proposal timeout) is answered by
	// server/merge.go with the integer 0 instead of an error
	swallowedNote := ""
	if leader := r.waitLeader(30 * time.Second); leader >= 0 {
		L := cl.Nodes[leader]
		k := &keyState{Name: "r9", Family: "register"}
		r.w.mu.Lock()
		r.w.all = append(r.w.all, k)
		r.w.mu.Unlock()
		if op := c.Do(L.ID, k.Name, "getset", "d9a"); op != nil && op.Status == "ok" {
			if err := L.SetFailpoint("node.queue.beforePropose", "1*sleep(4300)"); err == nil {
				d := c.Do(L.ID, k.Name, "del")
				L.SetFailpoint("node.queue.beforePropose", "")
				swallowedNote = fmt.Sprintf("; DEL with failing proposal answered: %v", d)
			}
		}
		if _, err := cl.Settle(30 * time.Second); err != nil {
			return "", "directed: " + err.Error()
		}
	}
	return swallowedNote[min(2, len(swallowedNote)):] + " | " + fmt.Sprintf("directed pre-check scenario: %d rounds, follower apply delayed by %d ms per entry, %d stale-looking replies (setnx->0 after acknowledged del / lpop->nil after acknowledged push)", rounds, lagMs, stale), ""
}

// directedFollowerAck steers into "a follower acknowledges entries that are
// not yet in its WAL": the third replica is down, so every acknowledged write
// depends on follower F alone; F is killed by a failpoint between the place
// where a Ready's messages could be sent early and the WAL write (only at
// Readys that carry new entries without publishing committed ones, i.e. whose
// HardState is unchanged), then the leader is lost as well; F and the third
// replica come back and form a majority, later the old leader rejoins. All of
// it under clients; the common oracles judge after all three are settled. On
// correct code F persists before it acknowledges, so whatever a client saw
// succeed is in F's WAL.
func (r *c04Run) directedFollowerAck() (note string, inconclusive string) {
	cl, w := r.cl, r.w
	rounds := r.c.Pick(3, 5)
	points := []string{"wal.save.betweenEntriesAndState", "wal.save.betweenEntriesAndState", "node.raft.beforePersist"}
	fired := 0
	w.setTargets()
	w.start(r.inst.Clients, r.inst.Seed, 9*time.Second)
	defer w.stopAndWait()
	id := func(i int) uint64 { return cl.Nodes[i].ID }
	for round := 0; round < rounds; round++ {
		leader := r.waitLeader(40 * time.Second)
		if leader < 0 {
			return "", "follower-ack: no leader"
		}
		f := r.pickByRole("follower", leader)
		t := 3 - leader - f
		L, F, T := cl.Nodes[leader], cl.Nodes[f], cl.Nodes[t]
		w.setTargets(id(leader), id(f))
		T.Kill()
		if !r.waitAcked(atomic.LoadInt64(&w.acked)+60, 60*time.Second) {
			return "", "follower-ack: no progress with two replicas"
		}
		// in the critical phase every write goes through the leader, so that the entry F
		// acknowledges last belongs to a client that gets its reply from the (surviving) leader
		w.setTargets(id(leader))
		if !r.waitAcked(atomic.LoadInt64(&w.acked)+20, 60*time.Second) {
			return "", "follower-ack: no progress through the leader"
		}
		pt := points[round%len(points)]
		k := 3 + r.rng.Intn(25)
		F.ExpectDown()
		if err := F.SetFailpoint(pt, fmt.Sprintf("unless(node.raft.afterPublish>node.raft.beforeAdvance):%d*off->crash", k)); err != nil {
			return "", "follower-ack: " + err.Error()
		}
		if F.WaitExit(15 * time.Second) {
			fired++
		} else {
			F.Kill()
		}
		time.Sleep(150 * time.Millisecond) // the leader answers what it could commit on F's last acknowledgement
		L.Kill()
		w.setTargets()
		if err := F.Start("", int64(F.ID)); err != nil {
			return "", "follower-ack: " + err.Error()
		}
		if err := T.Start("", int64(T.ID)); err != nil {
			return "", "follower-ack: " + err.Error()
		}
		for _, n := range []*Node{F, T} {
			if _, err := n.WaitUp(60 * time.Second); err != nil {
				return "", "follower-ack: " + err.Error()
			}
		}
		if r.waitLeader(60*time.Second) < 0 {
			return "", "follower-ack: no leader among the two restarted replicas"
		}
		w.setTargets(id(f), id(t))
		if !r.waitAcked(atomic.LoadInt64(&w.acked)+40, 60*time.Second) {
			return "", "follower-ack: no progress after the two replicas came back"
		}
		if err := L.Start("", int64(L.ID)); err != nil {
			return "", "follower-ack: " + err.Error()
		}
		if _, err := L.WaitUp(60 * time.Second); err != nil {
			return "", "follower-ack: " + err.Error()
		}
		w.setTargets(id(0), id(1), id(2))
		if !r.waitAcked(atomic.LoadInt64(&w.acked)+30, 60*time.Second) {
			return "", "follower-ack: no progress after the old leader came back"
		}
		r.inst.Plan = append(r.inst.Plan, FaultEvent{Kind: "follower-ack-round", Point: pt, Targets: []uint64{T.ID, F.ID, L.ID}, T0: r.nowMs(), Note: fmt.Sprintf("k=%d", k)})
	}
	return fmt.Sprintf("directed follower-ack-durability: %d rounds (third replica down, follower killed by failpoint between early-send position and WAL write at a Ready with new entries and no publish, then leader SIGKILLed, both restarted, old leader rejoins), failpoint fired in %d rounds", rounds, fired), ""
}

// directedProposalTimeout creates writes that time out on the proposing
// replica although their proposals commit later, followed by a burst of
// writes through the same replica: follower X's raft loop is stalled by a
// failpoint sleep (longer than the 4 s proposal timeout) while every client
// writes through X; the queued proposals are answered with a timeout (open
// operations) and are forwarded and committed when the loop resumes. The
// common oracles then decide whether every operation took effect at most once.
func (r *c04Run) directedProposalTimeout() (note string, inconclusive string) {
	cl, w := r.cl, r.w
	rounds := r.c.Pick(2, 3)
	w.setTargets(cl.Nodes[0].ID, cl.Nodes[1].ID, cl.Nodes[2].ID)
	w.start(r.inst.Clients, r.inst.Seed, 9*time.Second)
	defer w.stopAndWait()
	timeouts := 0
	for round := 0; round < rounds; round++ {
		leader := r.waitLeader(40 * time.Second)
		if leader < 0 {
			return "", "proposal-timeout: no leader"
		}
		X := cl.Nodes[r.pickByRole("follower", leader)]
		if !r.waitAcked(atomic.LoadInt64(&w.acked)+50, 60*time.Second) {
			return "", "proposal-timeout: no progress"
		}
		before := r.w.hist.Ops()
		w.setTargets(X.ID)
		time.Sleep(50 * time.Millisecond)
		stall := 4500 + r.rng.Intn(400)
		pt := []string{"node.raft.beforePersist", "node.raft.beforeAdvance"}[round%2]
		if err := X.SetFailpoint(pt, fmt.Sprintf("1*sleep(%d)", stall)); err != nil {
			return "", "proposal-timeout: " + err.Error()
		}
		time.Sleep(time.Duration(stall+300) * time.Millisecond)
		// burst through the same replica (its pooled proposal headers are reused now)
		if !r.waitAcked(atomic.LoadInt64(&w.acked)+120, 60*time.Second) {
			return "", "proposal-timeout: no progress through the stalled replica after it resumed"
		}
		for _, o := range r.w.hist.Ops()[len(before):] {
			if o.Status != "ok" && o.Node == X.ID && (strings.Contains(o.Err, "deadline") || strings.Contains(o.Err, "timeout")) {
				timeouts++
			}
		}
		w.setTargets(cl.Nodes[0].ID, cl.Nodes[1].ID, cl.Nodes[2].ID)
		r.inst.Plan = append(r.inst.Plan, FaultEvent{Kind: "proposal-timeout-round", Point: pt, Targets: []uint64{X.ID}, T0: r.nowMs(), Note: fmt.Sprintf("stall %d ms", stall)})
	}
	return fmt.Sprintf("directed proposal-timeout: %d rounds (follower raft loop stalled > 4 s with all clients writing through it, then burst through the same replica), %d operations answered with a timeout", rounds, timeouts), ""
}
