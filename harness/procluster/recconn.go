package procluster

import (
	"fmt"
	"net"
	"strconv"

	"github.com/absolute8511/redcon"
)

// recConn is a redcon.Conn that records what a node-level read handler writes,
// as a tree of values (string / int64 / nil / error / []interface{}).
type recConn struct {
	root  []interface{}
	stack []*recFrame
	ctx   interface{}
}

type recFrame struct {
	want int
	vals []interface{}
}

type recError string

func (c *recConn) push(v interface{}) {
	for {
		if len(c.stack) == 0 {
			c.root = append(c.root, v)
			return
		}
		top := c.stack[len(c.stack)-1]
		top.vals = append(top.vals, v)
		if len(top.vals) < top.want {
			return
		}
		// frame complete: pop and push the finished array into the parent
		c.stack = c.stack[:len(c.stack)-1]
		v = top.vals
	}
}

func (c *recConn) RemoteAddr() string          { return "verif-dump" }
func (c *recConn) Close() error                { return nil }
func (c *recConn) WriteError(msg string)       { c.push(recError(msg)) }
func (c *recConn) WriteString(str string)      { c.push(str) }
func (c *recConn) WriteBulk(bulk []byte)       { c.push(string(bulk)) }
func (c *recConn) WriteBulkString(bulk string) { c.push(bulk) }
func (c *recConn) WriteInt(num int)            { c.push(int64(num)) }
func (c *recConn) WriteInt64(num int64)        { c.push(num) }
func (c *recConn) WriteArray(count int) {
	if count <= 0 {
		c.push([]interface{}{})
		return
	}
	c.stack = append(c.stack, &recFrame{want: count})
}
func (c *recConn) WriteNull()                     { c.push(nil) }
func (c *recConn) WriteRaw(data []byte)           { c.push("raw:" + string(data)) }
func (c *recConn) Context() interface{}           { return c.ctx }
func (c *recConn) SetContext(v interface{})       { c.ctx = v }
func (c *recConn) SetReadBuffer(bytes int)        {}
func (c *recConn) Detach() redcon.DetachedConn    { return nil }
func (c *recConn) ReadPipeline() []redcon.Command { return nil }
func (c *recConn) PeekPipeline() []redcon.Command { return nil }
func (c *recConn) NetConn() net.Conn              { return nil }
func (c *recConn) Flush() error                   { return nil }

// result returns the single recorded reply.
func (c *recConn) result() (interface{}, error) {
	if len(c.stack) != 0 {
		return nil, fmt.Errorf("incomplete array reply (%d open frames)", len(c.stack))
	}
	if len(c.root) != 1 {
		return nil, fmt.Errorf("handler wrote %d replies", len(c.root))
	}
	if e, ok := c.root[0].(recError); ok {
		return nil, fmt.Errorf("handler error: %s", string(e))
	}
	return c.root[0], nil
}

func asStrings(v interface{}) ([]string, error) {
	arr, ok := v.([]interface{})
	if !ok {
		if v == nil {
			return nil, nil
		}
		return nil, fmt.Errorf("not an array: %T", v)
	}
	out := make([]string, 0, len(arr))
	for _, e := range arr {
		switch x := e.(type) {
		case string:
			out = append(out, x)
		case int64:
			out = append(out, strconv.FormatInt(x, 10))
		case nil:
			out = append(out, "<nil>")
		default:
			return nil, fmt.Errorf("unexpected element %T", e)
		}
	}
	return out, nil
}
