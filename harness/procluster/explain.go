package procluster

import (
	"fmt"
	"sort"
	"time"

	"github.com/anishathalye/porcupine"

	"verif/harness/vc"
)

func init() { vc.RegisterChild("c04explain", explainMain) }

// explainMain re-checks the per-key history stored in a C04 witness and
// prints where the longest partial linearization gets stuck:
// vcheck --child c04explain <replay.json>
func explainMain(args []string) int {
	if len(args) < 1 {
		fmt.Println("usage: vcheck --child c04explain <replay.json>")
		return 2
	}
	var doc struct {
		Witness struct {
			Family string `json:"family"`
			Key    string `json:"key"`
			Ops    []*Op  `json:"ops"`
		} `json:"witness"`
	}
	if err := readJSON(args[0], &doc); err != nil {
		fmt.Println(err)
		return 2
	}
	ops := doc.Witness.Ops
	for _, o := range ops { // JSON numbers come back as float64
		switch v := o.Reply.(type) {
		case float64:
			o.Reply = int64(v)
		case []interface{}:
			var l []string
			for _, e := range v {
				l = append(l, fmt.Sprint(e))
			}
			o.Reply = l
		}
	}
	model := familyModel(doc.Witness.Family)
	relax := map[string]bool{}
	for _, a := range args[1:] { // optional excuses: setnx lpop rpop del
		relax[a] = true
	}
	pops := toPorcupine(ops, relax)
	res, info := porcupine.CheckOperationsVerbose(model, pops, time.Minute)
	fmt.Println("key", doc.Witness.Key, "family", doc.Witness.Family, "ops", len(ops), "result", res)
	if res == porcupine.Ok {
		return 0
	}
	best := []int{}
	for _, part := range info.PartialLinearizations() {
		for _, lin := range part {
			if len(lin) > len(best) {
				best = lin
			}
		}
	}
	in := map[int]bool{}
	for _, i := range best {
		in[i] = true
	}
	fmt.Printf("longest partial linearization: %d of %d ops; last 8 linearized:\n", len(best), len(ops))
	for _, i := range best[max(0, len(best)-8):] {
		fmt.Println("   ", ops[i])
	}
	var rest []int
	for i := range ops {
		if !in[i] {
			rest = append(rest, i)
		}
	}
	sort.Slice(rest, func(a, b int) bool { return ops[rest[a]].Call < ops[rest[b]].Call })
	fmt.Println("first operations that could not be linearized after it:")
	for _, i := range rest[:min(12, len(rest))] {
		fmt.Println("   ", ops[i])
	}
	return 1
}
