package procluster

import (
	"fmt"
	"math/rand"
	"os"
	"sort"
	"strings"
	"sync"

	"verif/harness/vc"
)

func removeAll(dir string) { os.RemoveAll(dir) }

var fibs = []int64{1, 2, 3, 5, 8, 13, 21, 34, 55, 89, 144, 233, 377, 610, 987, 1597}

func fibsUpTo(n int64) []int64 {
	var out []int64
	for _, f := range fibs {
		if f <= n {
			out = append(out, f)
		}
	}
	return out
}

// spread picks up to max values of l: the first, the last and evenly spaced ones.
func spread(l []int64, max int) []int64 {
	if len(l) <= max {
		return l
	}
	out := []int64{}
	for i := 0; i < max; i++ {
		out = append(out, l[i*(len(l)-1)/(max-1)])
	}
	return out
}

// reach tells how often a point was hit in the dry runs of one engine.
type reach struct {
	S1, S2, F1, L1, F2 map[string]int64 // single serving / single restart / follower serving / leader serving / follower restart+catch-up
}

type c06Option struct {
	config, role, kind string
	hits               int64
}

func (r *reach) options(p string) []c06Option {
	var o []c06Option
	if r.S1[p] > 0 {
		o = append(o, c06Option{"single", "", "failpoint", r.S1[p]})
	}
	if r.S2[p] > 0 {
		o = append(o, c06Option{"single", "", "startup", r.S2[p]})
	}
	if r.F1[p] > 0 {
		o = append(o, c06Option{"cluster", "follower", "failpoint", r.F1[p]})
	}
	if r.L1[p] > 0 {
		o = append(o, c06Option{"cluster", "leader", "failpoint", r.L1[p]})
	}
	if r.F2[p] > 0 {
		o = append(o, c06Option{"cluster", "follower", "startup", r.F2[p]})
	}
	return o
}

func c06Opts(rng *rand.Rand, engine string, n int, rocksWAL bool) ClusterOpts {
	return ClusterOpts{N: n, Engine: engine, UseRocksWAL: rocksWAL, SnapCount: 10 + rng.Intn(21), SnapCatchup: 3 + rng.Intn(3), KeepBackup: 2,
		ElectionTick: 10, WALSegmentBytes: 8 << 10}
}

func runC06(c *vc.Ctx) error {
	c.Ev.Rule = "case = (crash point, k-th hit, optional delay before the crash, engine pebble|mem, use_rocks_wal, optimized_fsync on for a fixed third of the cases, config single voter | 3 voters with victim leader/follower, stage: serving process | restarting process after a first kill = double crash) or SIGKILL from outside after n acknowledged writes; plus fixed families in every run: restart before the first snapshot exists (SnapCount > history; external kill and early crash points; single voter and 3-voter victim) and a solo run of batchable writes in the WAL tail behind the newest snapshot followed by a kill of the idle node; and crashes right after the snapshot marker is recorded (node.snap.afterSaveSnap/afterSync at the 1st and 2nd snapshot, mem engine) while the checkpoint copy is held in its window; workload = 4 sequential single-writer-per-key clients (RPUSH+INCR, HSET+SADD, ZADD+SETEX, PFADD on two HyperLogLog keys, batchable commands SET/HMSET on one hash/SETEX/DEL; unique values, 100..200 writes each; HLL keys are judged by PFCOUNT against reference keys filled after the restart with the admissible element sets, SnapCount 10..30, SnapCatchup 3..5, KeepBackup 2, 8 KiB WAL segments so that snapshots, compactions, checkpoint purges and WAL cuts are crossed); k ranges over 1,2,3,5,8,... up to the hits counted in a dry run of the same script; after the crash the node is restarted on its directory, settle is observed, the full logical dump is compared with the admissible states (acked writes in order, unknown-outcome writes at most once, nothing else) and, with 3 voters, with the other replicas. non-trivial = the crash actually fired (failpoint line logged / external kill done), the node was restarted and compared; distinct by (point,k,delay,engine,config,rockswal,role,stage)"
	c.Ev.Assume("kill -9 keeps the page cache: the order of persistence steps is decided, fsync placement (power loss) is not")
	c.Ev.Assume("engines pebble and mem only; the 10-minute WAL/snap file purge timer is not reachable (covered at package level by C05)")
	c.Ev.Assume("single-voter cases attribute a loss of at most the newest acknowledged write per client to the publish-before-persist window of processReady (signature ack-before-persist/single-voter), whichever crash point fired; losses of any other shape, and every loss with 3 voters, are acked-write-missing/<point>")
	if c.Replay != "" {
		var doc struct {
			Witness struct {
				Case *C06Case `json:"case"`
			} `json:"witness"`
		}
		if err := readJSON(c.Replay, &doc); err != nil || doc.Witness.Case == nil {
			return fmt.Errorf("replay file %s has no case: %v", c.Replay, err)
		}
		defer KillAllChildren()
		if out := runC06Case(c, doc.Witness.Case, 0); out.inconclusive != "" {
			c.Inconclusive(out.inconclusive)
		}
		return nil
	}
	defer KillAllChildren()
	engines := []string{"pebble", "mem"}
	par := c.Pick(6, 7)

	// ---- dry runs: how often is each point hit by this script, per engine and config
	reaches := map[string]*reach{}
	var rmu sync.Mutex
	var dwg sync.WaitGroup
	dryFailed := ""
	for ei, eng := range engines {
		reaches[eng] = &reach{}
		for ci, cfg := range []string{"single", "cluster"} {
			dwg.Add(1)
			go func(ei, ci int, eng, cfg string) {
				defer dwg.Done()
				rng := c.Rand(int64(6000 + ei*10 + ci))
				n := 1
				if cfg == "cluster" {
					n = 3
				}
				cs := &C06Case{Index: 9000 + ei*10 + ci, Seed: rng.Int63(), Config: cfg, Opts: c06Opts(rng, eng, n, false), Writes: 150, Kind: "dry",
					KillAfter: 225, MoreAcked: 70, VictimRole: "follower"}
				var out c06Outcome
				for attempt := 0; attempt < 2; attempt++ {
					out = runC06Case(c, cs, attempt)
					if out.inconclusive == "" {
						break
					}
				}
				rmu.Lock()
				defer rmu.Unlock()
				if out.inconclusive != "" || out.hits1 == nil {
					dryFailed = fmt.Sprintf("dry run %s/%s: %s", eng, cfg, out.inconclusive)
					return
				}
				r := reaches[eng]
				if cfg == "single" {
					r.S1, r.S2 = out.hits1, out.hitsStartup
				} else {
					r.F1, r.L1, r.F2 = out.hits1, out.hitsLeader, out.hitsStartup
				}
			}(ei, ci, eng, cfg)
		}
	}
	dwg.Wait()
	if dryFailed != "" {
		return fmt.Errorf("%s", dryFailed)
	}
	unreached := []string{}
	table := map[string]map[string]int64{}
	for _, p := range AllPoints {
		any := false
		for _, eng := range engines {
			r := reaches[eng]
			row := map[string]int64{"single.serving": r.S1[p], "single.restart": r.S2[p], "follower.serving": r.F1[p], "leader.serving": r.L1[p], "follower.restart": r.F2[p]}
			for k, v := range row {
				if v > 0 {
					any = true
				} else {
					delete(row, k)
				}
			}
			table[p+"@"+eng] = row
		}
		if !any {
			unreached = append(unreached, p)
		}
	}
	c.Ev.Set("dry_run_hits", table)
	c.Ev.Set("points_total", len(AllPoints))
	c.Ev.Set("points_unreached_in_dry_runs", unreached)

	// ---- case list
	var cases []*C06Case
	add := func(cs *C06Case) {
		cs.Index = len(cases)
		if cs.Directed == "" && cs.Index%3 == 1 {
			cs.Opts.OptimizedFsync = true // a fixed third of the generated cases runs with optimized_fsync on
		}
		cases = append(cases, cs)
	}
	mk := func(rng *rand.Rand, eng string, p string, o c06Option, k int64, delay int, rocksWAL bool) *C06Case {
		n := 1
		if o.config == "cluster" {
			n = 3
		}
		return &C06Case{Seed: rng.Int63(), Config: o.config, Opts: c06Opts(rng, eng, n, rocksWAL), Writes: 100 + rng.Intn(101), Kind: o.kind, Point: p, K: k,
			DelayMs: delay, VictimRole: o.role, KillAfter: 60 + rng.Intn(200), MoreAcked: 40 + rng.Intn(60)}
	}
	if !c.Thorough() {
		// 12 crash points rotating with the seed x 2 engines
		start := int(c.Seed*12) % len(AllPoints)
		for i := 0; i < 12; i++ {
			p := AllPoints[(start+i)%len(AllPoints)]
			for ei, eng := range engines {
				rng := c.Rand(int64(6100 + i*2 + ei))
				opts := reaches[eng].options(p)
				if len(opts) == 0 {
					c.Ev.Count("cases_skipped_point_unreached", 1)
					continue
				}
				o := opts[rng.Intn(len(opts))]
				ks := fibsUpTo(o.hits)
				delay := 0
				if rng.Intn(5) < 2 {
					delay = 80 + rng.Intn(120)
				}
				add(mk(rng, eng, p, o, ks[rng.Intn(len(ks))], delay, rng.Intn(4) == 0))
			}
		}
	} else {
		for pi, p := range AllPoints {
			for ei, eng := range engines {
				for oi, o := range reaches[eng].options(p) {
					rng := c.Rand(int64(6500 + pi*40 + ei*20 + oi))
					for ki, k := range spread(fibsUpTo(o.hits), 4) {
						delay := 0
						if (ki+oi)%2 == 1 {
							delay = 80 + rng.Intn(120)
						}
						add(mk(rng, eng, p, o, k, delay, (pi+ki+oi)%3 == 0))
					}
				}
			}
		}
	}
	// directed: candidate finding 3 (single voter, crash between publish and persist, window widened)
	for i := 0; i < c.Pick(1, 4); i++ {
		rng := c.Rand(int64(6900 + i))
		eng := engines[(i+int(c.Seed))%2]
		if h := reaches[eng].S1["node.raft.afterPublish"]; h > 0 {
			ks := fibsUpTo(h)
			cs := mk(rng, eng, "node.raft.afterPublish", c06Option{"single", "", "failpoint", h}, ks[len(ks)/2+rng.Intn(len(ks)-len(ks)/2)], 150, false)
			cs.Directed = "ack-before-persist"
			cs.Opts.OptimizedFsync = i%2 == 1
			add(cs)
		}
	}
	// Fixed families, part of every run whatever the seed selects above.
	// (A) restart before the first raft snapshot exists (SnapCount larger than the
	// history): the whole WAL is replayed, the engine data of the previous life must
	// not be trusted. (B) a run of batchable writes (one client alone, one
	// acknowledgement at a time) that sits in the WAL tail behind the newest
	// snapshot and is replayed as ONE apply event after the kill.
	{
		type fx struct {
			cfg, role, eng, kind, point string
			k                           int64
			snap, writes, tail          int
			optFsync                    bool
		}
		rng := c.Rand(6990)
		fk := func(lo int) int64 { l := []int64{21, 34, 55, 89}; return l[lo+rng.Intn(len(l)-lo)] }
		fixed := []fx{
			{"single", "", "pebble", "extkill", "", 0, 100000, 30, 0, true},
			{"single", "", "pebble", "failpoint", "node.apply.afterEntry", fk(0), 100000, 30, 0, false},
			{"single", "", "mem", "extkill", "", 0, 100000, 30, 0, true},
			{"cluster", "follower", "pebble", "extkill", "", 0, 100000, 30, 0, false},
			{"cluster", "leader", "pebble", "failpoint", "node.raft.beforeAdvance", fk(1), 100000, 30, 0, true},
			{"single", "", "pebble", "tailkill", "", 0, 100000, 24, 18, false},
			{"single", "", "pebble", "tailkill", "", 0, 50, 34, 24, false},
			{"single", "", "mem", "tailkill", "", 0, 50, 34, 24, true},
			{"cluster", "follower", "pebble", "tailkill", "", 0, 50, 34, 24, true},
		}
		if c.Thorough() {
			for _, f := range append([]fx(nil), fixed...) {
				if f.eng == "pebble" {
					f.eng = "mem"
				} else {
					f.eng = "pebble"
				}
				fixed = append(fixed, f)
			}
		}
		for _, f := range fixed {
			n := 1
			if f.cfg == "cluster" {
				n = 3
			}
			cs := &C06Case{Seed: rng.Int63(), Config: f.cfg, Opts: c06Opts(rng, f.eng, n, false), Writes: f.writes, Kind: f.kind, Point: f.point, K: f.k,
				VictimRole: f.role, KillAfter: 60 + rng.Intn(60), MoreAcked: 30, TailRun: f.tail, Directed: "fixed-family"}
			cs.Opts.OptimizedFsync = f.optFsync
			cs.Opts.SnapCount = f.snap
			cs.Opts.SnapCatchup = 5
			add(cs)
		}
	}
	// (C) the window between "snapshot marker written to snap file + WAL" and "engine
	// checkpoint complete": the mem engine signals 'started' before it writes the
	// checkpoint file, the snapshot goroutine must wait for 'done'. Crash at the points
	// right after SaveSnap at the 1st and 2nd local snapshot while the checkpoint copy is
	// kept in its window (sleep at engine.mem.checkpoint.afterNotify; larger values).
	{
		rng := c.Rand(6995)
		type fc struct {
			cfg, role, point string
			k                int64
		}
		for _, f := range []fc{{"single", "", "node.snap.afterSaveSnap", 1}, {"single", "", "node.snap.afterSaveSnap", 2},
			{"single", "", "node.snap.afterSync", 1}, {"cluster", "follower", "node.snap.afterSaveSnap", 1}} {
			n := 1
			if f.cfg == "cluster" {
				n = 3
			}
			cs := &C06Case{Seed: rng.Int63(), Config: f.cfg, Opts: c06Opts(rng, "mem", n, false), Writes: 40, Kind: "failpoint", Point: f.point, K: f.k,
				VictimRole: f.role, MoreAcked: 30, Directed: "fixed-family", ExtraFP: "engine.mem.checkpoint.afterNotify=sleep(150)", PadBytes: 32768, ThinkMs: 12}
			cs.Opts.SnapCount = 20
			cs.Opts.SnapCatchup = 5
			add(cs)
		}
	}
	// random-instant SIGKILL from outside
	for i := 0; i < c.Pick(2, 24); i++ {
		rng := c.Rand(int64(6950 + i))
		o := c06Option{"single", "", "extkill", 0}
		if i%2 == 1 {
			o = c06Option{"cluster", []string{"leader", "follower"}[(i/2)%2], "extkill", 0}
		}
		add(mk(rng, engines[(i/2+int(c.Seed))%2], "", o, 0, 0, i%5 == 4))
	}
	c.Ev.Set("cases_generated", len(cases))

	sem := make(chan struct{}, par)
	var wg sync.WaitGroup
	notFired := []string{}
	var nmu sync.Mutex
	done := 0
	for _, cs := range cases {
		wg.Add(1)
		sem <- struct{}{}
		go func(cs *C06Case) {
			defer wg.Done()
			defer func() { <-sem }()
			defer func() {
				if p := recover(); p != nil {
					c.Inconclusive(fmt.Sprintf("case %d: harness panic: %v", cs.Index, p))
				}
			}()
			for attempt := 0; attempt < 2; attempt++ {
				out := runC06Case(c, cs, attempt)
				if out.inconclusive == "" {
					nmu.Lock()
					if cs.Kind != "extkill" && cs.Kind != "tailkill" && !out.fired {
						notFired = append(notFired, fmt.Sprintf("%s k=%d %s/%s/%s", cs.Point, cs.K, cs.Opts.Engine, cs.Config, cs.Kind))
					}
					done++
					if done%25 == 0 {
						fmt.Printf("C06 progress: %d/%d cases\n", done, len(cases))
					}
					nmu.Unlock()
					return
				}
				c.Inconclusive(fmt.Sprintf("case %d (%s %s %s k=%d) attempt %d: %s", cs.Index, cs.Config, cs.Opts.Engine, cs.tag(), cs.K, attempt, out.inconclusive))
				c.Ev.Count("cases_inconclusive", 1)
			}
		}(cs)
	}
	wg.Wait()
	sort.Strings(notFired)
	c.Ev.Set("crash_point_not_reached_cases", notFired)
	if len(cases) > 0 {
		c.Ev.Sample(3, cases[0])
		c.Ev.Sample(3, cases[len(cases)/2])
		c.Ev.Sample(3, cases[len(cases)-1])
	}
	fmt.Printf("C06: %d cases, %d points unreached in dry runs (%s), %d cases where the k-th hit was not reached\n", len(cases), len(unreached), strings.Join(unreached, ","), len(notFired))
	return nil
}
