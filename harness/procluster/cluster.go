// Package procluster is engine E4 of /verif/DESIGN.md: real data-node
// processes (the vnode child of the vcheck binary) under redis-protocol
// clients, kill -9, SIGTERM, leader transfer and failpoints, observed by
// history checkers. It decides C04 and C06.
package procluster

import (
	"bytes"
	"encoding/json"
	"fmt"
	"io/ioutil"
	"math/rand"
	"net"
	"net/http"
	"os"
	"os/exec"
	"os/signal"
	"path/filepath"
	"regexp"
	"runtime"
	"strconv"
	"strings"
	"sync"
	"syscall"
	"time"

	"verif/harness/vc"
)

// ---------------------------------------------------------------- children

// All children are spawned from one goroutine that is locked to an OS thread
// for the life of the process: Pdeathsig is delivered when the *thread* that
// forked the child exits.
type spawnReq struct {
	cmd *exec.Cmd
	res chan error
}

var (
	spawnOnce sync.Once
	spawnC    = make(chan spawnReq)

	childMu  sync.Mutex
	children = map[int]*exec.Cmd{} // pid -> cmd of live children
)

func spawner() {
	runtime.LockOSThread()
	for r := range spawnC {
		r.res <- r.cmd.Start()
	}
}

func startChild(cmd *exec.Cmd) error {
	spawnOnce.Do(func() {
		go spawner()
		sigc := make(chan os.Signal, 1)
		signal.Notify(sigc, syscall.SIGINT, syscall.SIGTERM, syscall.SIGQUIT, syscall.SIGHUP)
		go func() {
			<-sigc
			KillAllChildren()
			os.Exit(2)
		}()
	})
	cmd.SysProcAttr = &syscall.SysProcAttr{Setpgid: true, Pdeathsig: syscall.SIGKILL}
	res := make(chan error, 1)
	spawnC <- spawnReq{cmd, res}
	err := <-res
	if err == nil {
		childMu.Lock()
		children[cmd.Process.Pid] = cmd
		childMu.Unlock()
	}
	return err
}

func forgetChild(pid int) {
	childMu.Lock()
	delete(children, pid)
	childMu.Unlock()
}

// KillAllChildren SIGKILLs the process group of every live child.
func KillAllChildren() {
	childMu.Lock()
	pids := make([]int, 0, len(children))
	for pid := range children {
		pids = append(pids, pid)
	}
	childMu.Unlock()
	for _, pid := range pids {
		syscall.Kill(-pid, syscall.SIGKILL)
		syscall.Kill(pid, syscall.SIGKILL)
	}
}

// ---------------------------------------------------------------- ports

var (
	portMu   sync.Mutex
	portUsed = map[int]bool{}
	portRng  = rand.New(rand.NewSource(time.Now().UnixNano() ^ int64(os.Getpid())<<20))
)

func portFree(p int) bool {
	l, err := net.Listen("tcp", ":"+strconv.Itoa(p))
	if err != nil {
		return false
	}
	l.Close()
	return true
}

// allocPortBlock returns the first port of a block of n consecutive ports
// that were all free when probed. Blocks are below the ephemeral port range
// and never handed out twice by this process.
func allocPortBlock(n int) (int, error) {
	portMu.Lock()
	defer portMu.Unlock()
	const lo, hi, step = 11000, 32000, 40
	if n > step {
		return 0, fmt.Errorf("port block too large")
	}
	for try := 0; try < 400; try++ {
		base := lo + portRng.Intn((hi-lo)/step)*step
		if portUsed[base] {
			continue
		}
		ok := true
		for i := 0; i < n; i++ {
			if !portFree(base + i) {
				ok = false
				break
			}
		}
		if ok {
			portUsed[base] = true
			return base, nil
		}
	}
	return 0, fmt.Errorf("no free port block found")
}

// ---------------------------------------------------------------- cluster

// ClusterOpts are the knobs of one cluster instance.
type ClusterOpts struct {
	N           int
	Engine      string
	UseRocksWAL bool
	// OptimizedFsync: namespace option optimized_fsync (default for namespaces created through
	// the placement driver): WAL entries are flushed to the file but fdatasync is skipped
	// unless term/vote change
	OptimizedFsync  bool
	SnapCount       int
	SnapCatchup     int
	KeepBackup      int
	ElectionTick    int
	WALSegmentBytes int64
	Race            bool
	Table           string
}

// Node is one vnode child process (possibly restarted many times).
type Node struct {
	ID      uint64
	Cfg     NodeConfig
	cl      *Cluster
	cfgPath string
	LogPath string
	fpLog   string
	raceLog string

	mu       sync.Mutex
	cmd      *exec.Cmd
	done     chan struct{} // closed when the current process has exited
	exitSig  syscall.Signal
	exitCode int
	wantDown bool // the driver killed/stopped it on purpose
	Starts   int
	logf     *os.File
}

// Cluster is a set of vnode processes forming one raft group.
type Cluster struct {
	Name  string
	Dir   string
	Opts  ClusterOpts
	Nodes []*Node
	bin   string
	http  *http.Client
	// SettleAbortOnDead makes Settle return at once when a node process has ended
	SettleAbortOnDead bool
	portBase          int
}

// NewCluster allocates ports and writes the node configs under dir.
func NewCluster(name, dir string, o ClusterOpts) (*Cluster, error) {
	if o.Engine != "pebble" && o.Engine != "mem" {
		return nil, fmt.Errorf("engine %q not allowed", o.Engine)
	}
	if o.Table == "" {
		o.Table = "vt"
	}
	if o.ElectionTick == 0 {
		o.ElectionTick = 10
	}
	if err := os.MkdirAll(dir, 0755); err != nil {
		return nil, err
	}
	const perNode = 7
	base, err := allocPortBlock(o.N * perNode)
	if err != nil {
		return nil, err
	}
	cl := &Cluster{Name: name, Dir: dir, Opts: o, http: &http.Client{Timeout: 5 * time.Second}, portBase: base}
	if o.Race {
		cl.bin = vc.VariantBinary("race")
	} else if exe, err := os.Executable(); err == nil {
		cl.bin = exe
	} else {
		cl.bin = vc.VariantBinary("")
	}
	var members []Member
	for i := 0; i < o.N; i++ {
		p := base + i*perNode
		members = append(members, Member{NodeID: uint64(i + 1), RaftAddr: "http://127.0.0.1:" + strconv.Itoa(p+3),
			HTTPPort: p + 1, DataDir: filepath.Join(dir, fmt.Sprintf("n%d", i+1))})
	}
	for i := 0; i < o.N; i++ {
		p := base + i*perNode
		cfg := NodeConfig{
			ClusterID: "verif-" + name, NodeID: uint64(i + 1), DataDir: members[i].DataDir,
			RedisPort: p, HTTPPort: p + 1, GRPCPort: p + 2, RaftPort: p + 3, MetricPort: p + 4, ProfilePort: p + 5, HarnessPort: p + 6,
			Engine: o.Engine, UseRocksWAL: o.UseRocksWAL, TickMs: 100, ElectionTick: o.ElectionTick, KeepBackup: o.KeepBackup,
			WALSegmentBytes: o.WALSegmentBytes, OptimizedFsync: o.OptimizedFsync, NSBase: "default", GroupID: 1000, SnapCount: o.SnapCount, SnapCatchup: o.SnapCatchup,
			Replicator: o.N, Members: members, Table: o.Table,
		}
		n := &Node{ID: cfg.NodeID, Cfg: cfg, cl: cl,
			cfgPath: filepath.Join(dir, fmt.Sprintf("n%d.json", i+1)),
			LogPath: filepath.Join(dir, fmt.Sprintf("n%d.log", i+1)),
			fpLog:   filepath.Join(dir, fmt.Sprintf("n%d.fired", i+1)),
			raceLog: filepath.Join(dir, fmt.Sprintf("n%d.race", i+1)),
		}
		b, _ := json.MarshalIndent(&cfg, "", " ")
		if err := ioutil.WriteFile(n.cfgPath, b, 0644); err != nil {
			return nil, err
		}
		cl.Nodes = append(cl.Nodes, n)
	}
	return cl, nil
}

// Start launches the node process with the given failpoint spec (may be "").
func (n *Node) Start(failpoints string, fpSeed int64) error {
	n.mu.Lock()
	defer n.mu.Unlock()
	if n.cmd != nil {
		select {
		case <-n.done:
		default:
			return fmt.Errorf("node %d already running", n.ID)
		}
	}
	lf, err := os.OpenFile(n.LogPath, os.O_CREATE|os.O_WRONLY|os.O_APPEND, 0644)
	if err != nil {
		return err
	}
	fmt.Fprintf(lf, "\n===== VERIF start #%d of node %d failpoints=%q =====\n", n.Starts+1, n.ID, failpoints)
	cmd := exec.Command(n.cl.bin, "--child", "vnode", n.cfgPath)
	cmd.Stdout = lf
	cmd.Stderr = lf
	cmd.Dir = n.cl.Dir
	env := []string{}
	for _, e := range os.Environ() {
		if strings.HasPrefix(e, "VERIF_FAILPOINT") || strings.HasPrefix(e, "GORACE=") {
			continue
		}
		env = append(env, e)
	}
	env = append(env, "VERIF_FAILPOINTS="+failpoints, "VERIF_FAILPOINT_SEED="+strconv.FormatInt(fpSeed, 10), "VERIF_FAILPOINT_LOG="+n.fpLog)
	if n.cl.Opts.Race {
		env = append(env, "GORACE=halt_on_error=0 history_size=2 log_path="+n.raceLog)
	}
	cmd.Env = env
	if err := startChild(cmd); err != nil {
		lf.Close()
		return err
	}
	n.cmd = cmd
	n.logf = lf
	n.done = make(chan struct{})
	n.wantDown = false
	n.Starts++
	done := n.done
	go func() {
		err := cmd.Wait()
		forgetChild(cmd.Process.Pid)
		n.mu.Lock()
		n.exitSig, n.exitCode = 0, 0
		if ee, ok := err.(*exec.ExitError); ok {
			if ws, ok := ee.Sys().(syscall.WaitStatus); ok {
				if ws.Signaled() {
					n.exitSig = ws.Signal()
				} else {
					n.exitCode = ws.ExitStatus()
				}
			}
		}
		lf.Close()
		n.mu.Unlock()
		close(done)
	}()
	return nil
}

// Alive tells whether the current process has not exited.
func (n *Node) Alive() bool {
	n.mu.Lock()
	d := n.done
	n.mu.Unlock()
	if d == nil {
		return false
	}
	select {
	case <-d:
		return false
	default:
		return true
	}
}

// Exit returns how the last process ended (valid when !Alive()).
func (n *Node) Exit() (sig syscall.Signal, code int, wanted bool) {
	n.mu.Lock()
	defer n.mu.Unlock()
	return n.exitSig, n.exitCode, n.wantDown
}

// WaitExit waits until the current process has exited.
func (n *Node) WaitExit(d time.Duration) bool {
	n.mu.Lock()
	done := n.done
	n.mu.Unlock()
	if done == nil {
		return true
	}
	select {
	case <-done:
		return true
	case <-time.After(d):
		return false
	}
}

// ExpectDown tells the supervisor that the next exit of the process is intended
// (a crash failpoint was armed).
func (n *Node) ExpectDown() {
	n.mu.Lock()
	n.wantDown = true
	n.mu.Unlock()
}

// Kill sends SIGKILL to the process group and waits for the exit.
func (n *Node) Kill() {
	n.mu.Lock()
	cmd := n.cmd
	n.wantDown = true
	n.mu.Unlock()
	if cmd == nil || cmd.Process == nil {
		return
	}
	syscall.Kill(-cmd.Process.Pid, syscall.SIGKILL)
	syscall.Kill(cmd.Process.Pid, syscall.SIGKILL)
	n.WaitExit(10 * time.Second)
}

// Term sends SIGTERM (graceful stop) and waits; falls back to Kill.
func (n *Node) Term(wait time.Duration) (graceful bool) {
	n.mu.Lock()
	cmd := n.cmd
	n.wantDown = true
	n.mu.Unlock()
	if cmd == nil || cmd.Process == nil {
		return false
	}
	syscall.Kill(cmd.Process.Pid, syscall.SIGTERM)
	if n.WaitExit(wait) {
		return true
	}
	n.Kill()
	return false
}

func (n *Node) harnessURL(path string) string {
	return "http://127.0.0.1:" + strconv.Itoa(n.Cfg.HarnessPort) + path
}

// Status queries the harness endpoint.
func (n *Node) Status() (*NodeStatus, error) {
	resp, err := n.cl.http.Get(n.harnessURL("/status"))
	if err != nil {
		return nil, err
	}
	defer resp.Body.Close()
	var st NodeStatus
	if err := json.NewDecoder(resp.Body).Decode(&st); err != nil {
		return nil, err
	}
	return &st, nil
}

// Dump fetches the logical dump of the workload table.
func (n *Node) Dump(hllKeys ...string) (*Dump, error) {
	c := &http.Client{Timeout: 60 * time.Second}
	resp, err := c.Get(n.harnessURL("/dump?hll=" + strings.Join(hllKeys, ",")))
	if err != nil {
		return nil, err
	}
	defer resp.Body.Close()
	b, _ := ioutil.ReadAll(resp.Body)
	if resp.StatusCode != 200 {
		return nil, fmt.Errorf("dump of node %d: %s: %s", n.ID, resp.Status, strings.TrimSpace(string(b)))
	}
	var d Dump
	if err := json.Unmarshal(b, &d); err != nil {
		return nil, err
	}
	return &d, nil
}

// SetFailpoint installs (chain != "") or removes one failpoint program at run time.
func (n *Node) SetFailpoint(point, chain string) error {
	resp, err := n.cl.http.Post(n.harnessURL("/failpoint?point="+point), "text/plain", strings.NewReader(chain))
	if err != nil {
		return err
	}
	defer resp.Body.Close()
	if resp.StatusCode != 200 {
		b, _ := ioutil.ReadAll(resp.Body)
		return fmt.Errorf("set failpoint: %s %s", resp.Status, b)
	}
	return nil
}

// Hits returns the hit and fired counters of the failpoint registry.
func (n *Node) Hits() (hits, fired map[string]int64, err error) {
	resp, err := n.cl.http.Get(n.harnessURL("/failpoint/hits"))
	if err != nil {
		return nil, nil, err
	}
	defer resp.Body.Close()
	var v struct {
		Hits  map[string]int64 `json:"hits"`
		Fired map[string]int64 `json:"fired"`
	}
	if err := json.NewDecoder(resp.Body).Decode(&v); err != nil {
		return nil, nil, err
	}
	return v.Hits, v.Fired, nil
}

// TransferLeader asks this node (must be leader) to hand leadership to `to`.
func (n *Node) TransferLeader(to uint64) error {
	c := &http.Client{Timeout: 10 * time.Second}
	resp, err := c.Post(n.harnessURL("/transfer-leader?to="+strconv.FormatUint(to, 10)), "text/plain", nil)
	if err != nil {
		return err
	}
	defer resp.Body.Close()
	if resp.StatusCode != 200 {
		b, _ := ioutil.ReadAll(resp.Body)
		return fmt.Errorf("%s", strings.TrimSpace(string(b)))
	}
	return nil
}

// FiredLines returns the lines the failpoint handler wrote before crash/exit/panic actions.
func (n *Node) FiredLines() []string {
	b, err := ioutil.ReadFile(n.fpLog)
	if err != nil {
		return nil
	}
	var out []string
	for _, l := range strings.Split(string(b), "\n") {
		if strings.TrimSpace(l) != "" {
			out = append(out, l)
		}
	}
	return out
}

// LogTail returns the last max bytes of the node's stdout/stderr file, by lines.
func (n *Node) LogTail(max int) []string {
	f, err := os.Open(n.LogPath)
	if err != nil {
		return nil
	}
	defer f.Close()
	st, _ := f.Stat()
	off := int64(0)
	if st != nil && st.Size() > int64(max) {
		off = st.Size() - int64(max)
	}
	f.Seek(off, 0)
	b, _ := ioutil.ReadAll(f)
	lines := strings.Split(string(b), "\n")
	if off > 0 && len(lines) > 1 {
		lines = lines[1:]
	}
	// the mem engine prints every key of every checkpoint to stdout; drop that noise
	out := lines[:0]
	for _, l := range lines {
		if strings.HasPrefix(l, "key: (") || strings.HasPrefix(l, "value: (") || l == "" {
			continue
		}
		if len(l) > 400 {
			l = l[:400] + "…"
		}
		out = append(out, l)
	}
	return out
}

// LogGrep returns up to max lines of the node log containing any of the patterns.
func (n *Node) LogGrep(max int, pats ...string) []string {
	b, err := ioutil.ReadFile(n.LogPath)
	if err != nil {
		return nil
	}
	var out []string
	for _, l := range bytes.Split(b, []byte("\n")) {
		for _, p := range pats {
			if bytes.Contains(l, []byte(p)) {
				s := string(l)
				if len(s) > 400 {
					s = s[:400] + "…"
				}
				out = append(out, s)
				break
			}
		}
		if len(out) >= max {
			break
		}
	}
	return out
}

// StartAll starts every node without failpoints.
func (cl *Cluster) StartAll() error {
	for _, n := range cl.Nodes {
		if err := n.Start("", int64(n.ID)); err != nil {
			return err
		}
	}
	return nil
}

// Close kills every node of the cluster and gives its port block back.
func (cl *Cluster) Close() {
	var wg sync.WaitGroup
	for _, n := range cl.Nodes {
		wg.Add(1)
		go func(n *Node) { defer wg.Done(); n.Kill() }(n)
	}
	wg.Wait()
	portMu.Lock()
	delete(portUsed, cl.portBase)
	portMu.Unlock()
}

// Statuses polls every live node; entries are nil for unreachable nodes.
func (cl *Cluster) Statuses() []*NodeStatus {
	out := make([]*NodeStatus, len(cl.Nodes))
	var wg sync.WaitGroup
	for i, n := range cl.Nodes {
		if !n.Alive() {
			continue
		}
		wg.Add(1)
		go func(i int, n *Node) {
			defer wg.Done()
			if st, err := n.Status(); err == nil {
				out[i] = st
			}
		}(i, n)
	}
	wg.Wait()
	return out
}

// Leader returns the index of the node that says it is leader, in the
// highest term, or -1.
func (cl *Cluster) Leader() int {
	sts := cl.Statuses()
	best, bestTerm := -1, uint64(0)
	for i, st := range sts {
		if st != nil && st.Ready && st.IsLeader && st.RaftStatusOK && st.Term >= bestTerm {
			best, bestTerm = i, st.Term
		}
	}
	return best
}

// WaitLeader waits until some node reports itself leader.
func (cl *Cluster) WaitLeader(d time.Duration) (int, error) {
	dl := time.Now().Add(d)
	for time.Now().Before(dl) {
		if l := cl.Leader(); l >= 0 {
			return l, nil
		}
		time.Sleep(200 * time.Millisecond)
	}
	return -1, fmt.Errorf("no leader within %v", d)
}

// WaitUp waits until the node answers on its harness endpoint, or its
// process has exited (returns an error describing the exit).
func (n *Node) WaitUp(d time.Duration) (*NodeStatus, error) {
	dl := time.Now().Add(d)
	for time.Now().Before(dl) {
		if !n.Alive() {
			sig, code, _ := n.Exit()
			return nil, &ExitError{Node: n.ID, Sig: sig, Code: code}
		}
		if st, err := n.Status(); err == nil && st.Ready {
			return st, nil
		}
		time.Sleep(100 * time.Millisecond)
	}
	return nil, fmt.Errorf("node %d not up within %v", n.ID, d)
}

// ExitError reports that a node process ended although it should be running.
type ExitError struct {
	Node uint64
	Sig  syscall.Signal
	Code int
}

func (e *ExitError) Error() string {
	if e.Sig != 0 {
		return fmt.Sprintf("node %d died by signal %v", e.Node, e.Sig)
	}
	return fmt.Sprintf("node %d exited with code %d", e.Node, e.Code)
}

// Settle waits until every node is up, one is leader and all report an
// applied index equal to the leader's commit index, unchanged over two
// consecutive polls.
func (cl *Cluster) Settle(d time.Duration) (uint64, error) {
	dl := time.Now().Add(d)
	var last uint64
	stable := 0
	why := "no poll"
	for time.Now().Before(dl) {
		time.Sleep(250 * time.Millisecond)
		if cl.SettleAbortOnDead {
			for _, n := range cl.Nodes {
				if !n.Alive() {
					return 0, fmt.Errorf("node %d is not running", n.ID)
				}
			}
		}
		sts := cl.Statuses()
		ok := true
		var commit uint64
		leaders := 0
		for i, st := range sts {
			if st == nil || !st.Ready || !st.RaftStatusOK || st.ApplyingSnap {
				ok = false
				why = fmt.Sprintf("node %d not reachable/ready", cl.Nodes[i].ID)
				break
			}
			if st.IsLeader {
				leaders++
				commit = st.Commit
			}
		}
		if ok && leaders != 1 {
			ok = false
			why = fmt.Sprintf("%d nodes claim leadership", leaders)
		}
		if ok {
			for i, st := range sts {
				if st.Applied != commit || st.Commit != commit {
					ok = false
					why = fmt.Sprintf("node %d applied %d commit %d, leader commit %d", cl.Nodes[i].ID, st.Applied, st.Commit, commit)
					break
				}
			}
		}
		if !ok {
			stable = 0
			continue
		}
		if stable > 0 && commit == last {
			return commit, nil
		}
		last = commit
		stable++
	}
	return 0, fmt.Errorf("not settled within %v: %s", d, why)
}

var (
	ckptNameRe   = regexp.MustCompile(`[0-9a-f]{16}-[0-9a-f]{16}`)
	backupCostRe = regexp.MustCompile(`backup done \(cost ([0-9.a-zµ]+)\), check point to: [^ "\\]*/([0-9a-f]{16}-[0-9a-f]{16})`)
)

// CheckpointEvidence finds the engine checkpoints that node n restored from
// (start-up restore or snapshot install) and, over the logs of all nodes, how
// long the engine took to write a checkpoint of that name. The pebble engine
// releases the apply loop 20 ms after the checkpoint started (engine/pebble_eng.go
// pebbleEngCheckpoint.Save), whether or not pebble has copied its WAL by then;
// a checkpoint that took longer can contain writes newer than its raft index.
func (cl *Cluster) CheckpointEvidence(n *Node) (slowest time.Duration, evidence []string) {
	restored := map[string]bool{}
	for _, l := range n.LogGrep(1000, "begin restore from checkpoint") {
		if m := ckptNameRe.FindAllString(l, -1); len(m) > 0 {
			restored[m[len(m)-1]] = true
		}
	}
	for _, o := range cl.Nodes {
		for _, l := range o.LogGrep(100000, "backup done (cost") {
			m := backupCostRe.FindStringSubmatch(l)
			if m == nil || !restored[m[2]] {
				continue
			}
			d, err := time.ParseDuration(m[1])
			if err != nil {
				continue
			}
			evidence = append(evidence, fmt.Sprintf("node %d wrote checkpoint %s in %v; node %d restored from a checkpoint of that name", o.ID, m[2], d, n.ID))
			if d > slowest {
				slowest = d
			}
		}
	}
	return
}
