package procluster

import (
	"fmt"
	"math/rand"
	"strconv"
	"sync"
	"sync/atomic"
	"time"
)

// keyState is one key of the C04 workload; a key is used by one family only.
type keyState struct {
	Name   string
	Family string // counter | hcounter | register | list
	ops    int64  // reserved operations
	open   int64  // operations with unknown outcome
}

type workload struct {
	cl         *Cluster
	clock      *Clock
	hist       *History
	maxPerKey  int64
	maxOpen    int64
	mu         sync.Mutex
	active     []*keyState
	all        []*keyState
	nextKey    int
	stop       int32
	acked      int64
	total      int64
	hardCap    int64
	leaderHint int64        // node id believed to be leader (0 unknown)
	targets    atomic.Value // []uint64: replicas the clients send to (nil: all)
	wg         sync.WaitGroup
}

var c04Families = []string{"counter", "register", "list", "hcounter", "register", "list"}

func newWorkload(cl *Cluster, nKeys int, maxPerKey, maxOpen, hardCap int64) *workload {
	w := &workload{cl: cl, clock: NewClock(), hist: &History{}, maxPerKey: maxPerKey, maxOpen: maxOpen, hardCap: hardCap}
	for i := 0; i < nKeys; i++ {
		w.active = append(w.active, w.newKey(c04Families[i%len(c04Families)]))
	}
	return w
}

func (w *workload) newKey(family string) *keyState {
	k := &keyState{Name: fmt.Sprintf("%s%d", family[:1], w.nextKey), Family: family}
	w.nextKey++
	w.all = append(w.all, k)
	return k
}

// pick reserves one operation on a random active key, retiring keys whose
// history is long enough (short histories keep the checker fast).
func (w *workload) pick(rng *rand.Rand) *keyState {
	w.mu.Lock()
	defer w.mu.Unlock()
	i := rng.Intn(len(w.active))
	k := w.active[i]
	maxOps, maxOpen := w.maxPerKey, w.maxOpen
	if k.Family == "list" {
		// the list model has the largest state space: keep its histories shorter
		maxOps, maxOpen = w.maxPerKey/2, (w.maxOpen+1)/2
	}
	if k.ops >= maxOps || atomic.LoadInt64(&k.open) >= maxOpen {
		k = w.newKey(k.Family)
		w.active[i] = k
	}
	k.ops++
	return k
}

func (w *workload) keys() []*keyState {
	w.mu.Lock()
	defer w.mu.Unlock()
	return append([]*keyState(nil), w.all...)
}

func (w *workload) stopped() bool { return atomic.LoadInt32(&w.stop) != 0 }

// client runs until the workload is stopped. Every written value is unique.
func (w *workload) client(id int, seed int64, timeout time.Duration) {
	defer w.wg.Done()
	rng := rand.New(rand.NewSource(seed))
	c := NewClient(id, w.cl, w.clock, w.hist, timeout)
	defer c.Close()
	seq := 0
	n := len(w.cl.Nodes)
	for !w.stopped() {
		if atomic.LoadInt64(&w.total) >= w.hardCap {
			return
		}
		k := w.pick(rng)
		seq++
		uniq := fmt.Sprintf("c%dv%d", id, seq)
		node := w.cl.Nodes[rng.Intn(n)].ID
		if t, _ := w.targets.Load().([]uint64); t != nil {
			if len(t) == 0 {
				w.mu.Lock()
				k.ops--
				w.mu.Unlock()
				time.Sleep(20 * time.Millisecond)
				continue
			}
			node = t[rng.Intn(len(t))]
		}
		var cmd string
		var args []string
		switch k.Family {
		case "counter":
			if rng.Intn(2) == 0 {
				cmd = "incr"
			} else {
				cmd, args = "incrby", []string{strconv.Itoa(2 + rng.Intn(8))}
			}
		case "hcounter":
			cmd, args = "hincrby", []string{"f", strconv.Itoa(1 + rng.Intn(9))}
		case "register":
			switch r := rng.Intn(100); {
			case r < 50:
				cmd, args = "getset", []string{uniq}
			case r < 75:
				cmd, args = "setnx", []string{uniq}
			default:
				cmd = "del"
				// DEL is a merged multi-key command that is only accepted by a node
				// leading the partition: send it to the believed leader mostly
				if h := atomic.LoadInt64(&w.leaderHint); h != 0 && rng.Intn(10) != 0 {
					if t, _ := w.targets.Load().([]uint64); t == nil || containsID(t, uint64(h)) {
						node = uint64(h)
					}
				}
			}
		case "list":
			switch r := rng.Intn(100); {
			case r < 28:
				cmd, args = "lpush", []string{uniq}
			case r < 56:
				cmd, args = "rpush", []string{uniq}
			case r < 78:
				cmd = "lpop"
			default:
				cmd = "rpop"
			}
		}
		op := c.Do(node, k.Name, cmd, args...)
		if op == nil {
			// connection refused: not sent, not part of the history
			w.mu.Lock()
			k.ops--
			w.mu.Unlock()
			time.Sleep(time.Duration(20+rng.Intn(60)) * time.Millisecond)
			continue
		}
		atomic.AddInt64(&w.total, 1)
		if op.Status == "ok" {
			atomic.AddInt64(&w.acked, 1)
			if d := rng.Intn(4); d > 0 {
				time.Sleep(time.Duration(d) * time.Millisecond)
			}
		} else {
			atomic.AddInt64(&k.open, 1)
			time.Sleep(time.Duration(60+rng.Intn(200)) * time.Millisecond)
		}
	}
}

func (w *workload) start(nClients int, seed int64, timeout time.Duration) {
	for i := 0; i < nClients; i++ {
		w.wg.Add(1)
		go w.client(i, seed*131+int64(i)*7+1, timeout)
	}
}

func (w *workload) stopAndWait() {
	atomic.StoreInt32(&w.stop, 1)
	w.wg.Wait()
}

func (w *workload) setTargets(ids ...uint64) {
	if ids == nil {
		ids = []uint64{}
	}
	w.targets.Store(ids)
}

func containsID(l []uint64, id uint64) bool {
	for _, x := range l {
		if x == id {
			return true
		}
	}
	return false
}
