package procluster

import (
	"fmt"
	"strconv"
	"sync"
	"sync/atomic"
	"time"

	"github.com/absolute8511/redigo/redis"
)

// Op is one recorded client operation.
type Op struct {
	ID     int      `json:"id"`
	Client int      `json:"client"`
	Node   uint64   `json:"node"` // replica the request was sent to
	Key    string   `json:"key"`
	Cmd    string   `json:"cmd"`
	Args   []string `json:"args,omitempty"`
	Call   int64    `json:"call"`   // ns on the run's monotonic clock
	Return int64    `json:"return"` // -1: still open at the end of the history
	// Status: "ok" (a reply was received), "open" (error reply, timeout or dead
	// connection: outcome unknown, may take effect later, at most once).
	Status string      `json:"status"`
	Reply  interface{} `json:"reply,omitempty"` // int64 | string | nil | []string
	Err    string      `json:"err,omitempty"`
	IOErr  bool        `json:"io_err,omitempty"` // open because the connection failed / timed out (not an error reply)
}

func (o *Op) String() string {
	r := ""
	switch o.Status {
	case "ok":
		r = fmt.Sprintf("%v", fmtReply(o.Reply))
	default:
		r = "?(" + o.Err + ")"
	}
	return fmt.Sprintf("#%d c%d n%d [%d..%d] %s %s %v -> %s", o.ID, o.Client, o.Node, o.Call/1e6, o.Return/1e6, o.Cmd, o.Key, o.Args, r)
}

func fmtReply(v interface{}) string {
	switch x := v.(type) {
	case nil:
		return "nil"
	case string:
		return strconv.Quote(x)
	case int64:
		return strconv.FormatInt(x, 10)
	default:
		return fmt.Sprintf("%v", v)
	}
}

// Clock is the single monotonic clock of a run.
type Clock struct{ t0 time.Time }

func NewClock() *Clock      { return &Clock{t0: time.Now()} }
func (c *Clock) Now() int64 { return int64(time.Since(c.t0)) + 1 }

// History collects operations of all clients.
type History struct {
	mu  sync.Mutex
	ops []*Op
	n   int64
}

func (h *History) add(o *Op) {
	h.mu.Lock()
	o.ID = len(h.ops)
	h.ops = append(h.ops, o)
	h.mu.Unlock()
}

// Ops returns a snapshot of the recorded operations.
func (h *History) Ops() []*Op {
	h.mu.Lock()
	defer h.mu.Unlock()
	return append([]*Op(nil), h.ops...)
}

// Conn is a redis connection to one replica that records into a history.
type Conn struct {
	addr    string
	node    uint64
	c       redis.Conn
	timeout time.Duration
}

// Client is one logical client with a connection per replica.
type Client struct {
	ID    int
	clock *Clock
	hist  *History
	conns map[uint64]*Conn
	ns    string
	table string
}

// NewClient creates a client for the cluster's redis ports.
func NewClient(id int, cl *Cluster, clock *Clock, hist *History, timeout time.Duration) *Client {
	c := &Client{ID: id, clock: clock, hist: hist, conns: map[uint64]*Conn{}, ns: "default", table: cl.Opts.Table}
	for _, n := range cl.Nodes {
		c.conns[n.ID] = &Conn{addr: "127.0.0.1:" + strconv.Itoa(n.Cfg.RedisPort), node: n.ID, timeout: timeout}
	}
	return c
}

// Close closes all connections.
func (c *Client) Close() {
	for _, cn := range c.conns {
		if cn.c != nil {
			cn.c.Close()
			cn.c = nil
		}
	}
}

func (c *Client) fullKey(k string) string { return c.ns + ":" + c.table + ":" + k }

var errNotSent = fmt.Errorf("not sent")

func normReply(v interface{}) interface{} {
	switch x := v.(type) {
	case []byte:
		return string(x)
	case int64, nil, string:
		return x
	case []interface{}:
		out := make([]string, 0, len(x))
		for _, e := range x {
			switch y := e.(type) {
			case []byte:
				out = append(out, string(y))
			case int64:
				out = append(out, strconv.FormatInt(y, 10))
			case nil:
				out = append(out, "<nil>")
			default:
				out = append(out, fmt.Sprintf("%v", e))
			}
		}
		return out
	default:
		return fmt.Sprintf("%v", v)
	}
}

// Do sends one command for key to the given replica and records it. It
// returns the recorded op, or nil when the request was certainly not sent
// (the replica refused the connection) - such attempts are not part of the
// history. record=false executes without recording (setup / final reads that
// the caller records itself).
func (c *Client) Do(node uint64, key string, cmd string, args ...string) *Op {
	cn := c.conns[node]
	if cn == nil {
		return nil
	}
	if cn.c == nil {
		rc, err := redis.Dial("tcp", cn.addr, redis.DialConnectTimeout(time.Second),
			redis.DialReadTimeout(cn.timeout), redis.DialWriteTimeout(cn.timeout))
		if err != nil {
			return nil
		}
		cn.c = rc
	}
	rargs := make([]interface{}, 0, len(args)+1)
	rargs = append(rargs, c.fullKey(key))
	for _, a := range args {
		rargs = append(rargs, a)
	}
	op := &Op{Client: c.ID, Node: node, Key: key, Cmd: cmd, Args: args, Return: -1}
	op.Call = c.clock.Now()
	reply, err := cn.c.Do(cmd, rargs...)
	ret := c.clock.Now()
	if err != nil {
		op.Status = "open"
		op.Err = err.Error()
		if len(op.Err) > 160 {
			op.Err = op.Err[:160]
		}
		if _, isReply := err.(redis.Error); !isReply {
			// I/O error or timeout: the connection is unusable (a late reply would be misattributed)
			op.IOErr = true
			cn.c.Close()
			cn.c = nil
		}
	} else {
		op.Status = "ok"
		op.Return = ret
		op.Reply = normReply(reply)
	}
	c.hist.add(op)
	atomic.AddInt64(&c.hist.n, 1)
	return op
}
