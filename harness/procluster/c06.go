package procluster

import (
	"encoding/json"
	"fmt"
	"io/ioutil"
	"math/rand"
	"os"
	"path/filepath"
	"sort"
	"strconv"
	"strings"
	"sync"
	"sync/atomic"
	"time"

	"verif/harness/vc"
)

func init() {
	vc.Register("C06", "fault_enumeration", runC06)
}

// AllPoints are the verifhook points added to /repo (see failpoint/POINTS.md).
var AllPoints = []string{
	"node.apply.afterEntry", "node.apply.beforeCommitBatch", "node.apply.beforeEntry",
	"node.applySnap.afterRestore", "node.applySnap.beforeRestore",
	"node.queue.beforePropose",
	"node.raft.afterApplySnap", "node.raft.afterPublish", "node.raft.beforeAdvance", "node.raft.beforeAppend",
	"node.raft.beforePersist", "node.raft.beforeSend", "node.raft.persist.afterSaveSnap",
	"node.snap.afterCompact", "node.snap.afterCreate", "node.snap.afterGetData", "node.snap.afterRelease",
	"node.snap.afterSaveSnap", "node.snap.afterSync", "node.snap.afterUpdateState",
	"node.storage.saveSnap.betweenFileAndWAL",
	"rockredis.backup.afterSave", "rockredis.backup.beforePurge", "rockredis.backup.beforeSave",
	"rockredis.purge.beforeRemove",
	"rockredis.restore.afterDelete", "rockredis.restore.beforeReopen", "rockredis.restore.betweenCopies",
	"wal.cut.afterDirFsync", "wal.cut.afterRename", "wal.cut.afterTruncate", "wal.cut.beforeRename",
	"wal.save.betweenEntriesAndState",
}

// the window in which entries are already published to the apply loop (and
// answered) but not yet in the WAL (candidate finding 3)
var ackBeforePersistWindow = map[string]bool{
	"node.raft.afterPublish": true, "node.raft.beforePersist": true, "wal.save.betweenEntriesAndState": true, "wal.cut.afterTruncate": true,
}

// C06Case is one generated (or replayed) crash/restart execution.
type C06Case struct {
	Index  int         `json:"index"`
	Seed   int64       `json:"seed"`
	Config string      `json:"config"` // "single" (1 voter) | "cluster" (3 voters)
	Opts   ClusterOpts `json:"opts"`
	Writes int         `json:"writes_per_client"`
	// Kind: "failpoint" (crash at the K-th hit of Point in the serving
	// process), "startup" (first an external kill, then crash at the K-th hit
	// of Point in the restarting process = double crash), "extkill" (SIGKILL
	// from outside after KillAfter acknowledged writes), "dry" (no fault: count hits)
	Kind       string `json:"kind"`
	Point      string `json:"point,omitempty"`
	K          int64  `json:"k,omitempty"`
	DelayMs    int    `json:"delay_ms,omitempty"` // sleep at the point before the crash (widens the window for concurrent goroutines)
	VictimRole string `json:"victim_role,omitempty"`
	KillAfter  int    `json:"kill_after,omitempty"`
	MoreAcked  int    `json:"more_acked,omitempty"` // cluster: writes acknowledged by the survivors before the victim restarts
	// TailRun: after the concurrent scripts, the batch client alone sends this many
	// further batchable writes (SET / HMSET on one hash / SETEX / DEL), one
	// acknowledgement at a time, so that they sit in the WAL tail behind the newest
	// snapshot; kind "tailkill" then kills the idle node from outside
	TailRun int `json:"tail_run,omitempty"`
	// ExtraFP: further failpoint programs on the victim ("point=chain;..."), e.g. a sleep
	// that keeps a concurrent activity inside its window while the crash point fires
	ExtraFP string `json:"extra_fp,omitempty"`
	// PadBytes: the hash values of client 1 are padded to this size (larger checkpoints)
	PadBytes int `json:"pad_bytes,omitempty"`
	// ThinkMs: pause of every client between two writes (stretches the script over several snapshots)
	ThinkMs  int    `json:"think_ms,omitempty"`
	Directed string `json:"directed,omitempty"`
}

func (cs *C06Case) chain() string {
	act := "crash"
	if cs.DelayMs > 0 {
		act = fmt.Sprintf("sleep(%d)+crash", cs.DelayMs)
	}
	if cs.K <= 1 {
		return act
	}
	return fmt.Sprintf("%d*off->%s", cs.K-1, act)
}

func (cs *C06Case) tag() string {
	if cs.Kind == "extkill" || cs.Kind == "tailkill" {
		return "external-kill"
	}
	if cs.Kind == "dry" {
		return "dry-run"
	}
	return cs.Point
}

// ---------------------------------------------------------------- script

// scriptOp is one write of a single-writer-per-key client script.
type scriptOp struct {
	Key  string
	Type string // list counter hash set zset kvttl
	Cmd  string
	Args []string
	Elem string // unique element / field / member / value
	Val  string
	op   *Op
}

func c06Script(client, n, tailFrom, pad int) []scriptOp {
	var out []scriptOp
	for i := 0; i < n; i++ {
		u := fmt.Sprintf("u%d_%d", client, i)
		if client == 4 {
			// batchable commands (set/setex/del/hmset share one engine write batch per apply
			// event): one hash, one plain key that is set and deleted, one key with TTL.
			// Pattern SET,HMSET,HMSET,SETEX,HMSET,DEL: the hash is written repeatedly
			// behind another key that opened the batch.
			h, ks, ke := fmt.Sprintf("B%dh", client), fmt.Sprintf("B%ds", client), fmt.Sprintf("B%de", client)
			if i >= tailFrom {
				h = fmt.Sprintf("B%dt", client) // the solo tail run creates its own hash
			}
			switch i % 6 {
			case 0:
				out = append(out, scriptOp{Key: ks, Type: "kvdel", Cmd: "set", Args: []string{u}, Elem: u})
			case 1, 2, 4:
				out = append(out, scriptOp{Key: h, Type: "hash", Cmd: "hmset", Args: []string{"f" + strconv.Itoa(i), u}, Elem: "f" + strconv.Itoa(i), Val: u})
			case 3:
				out = append(out, scriptOp{Key: ke, Type: "kvttl", Cmd: "setex", Args: []string{"1000000", u}, Elem: u})
			case 5:
				out = append(out, scriptOp{Key: ks, Type: "kvdel", Cmd: "del"})
			}
			continue
		}
		if client == 3 {
			// HyperLogLog family: two single-writer keys (they stay in the 32-entry write-back cache)
			out = append(out, scriptOp{Key: fmt.Sprintf("P%d%c", client, 'a'+byte(i%2)), Type: "hll", Cmd: "pfadd", Args: []string{u}, Elem: u})
			continue
		}
		switch client % 3 {
		case 0:
			if i%2 == 0 {
				out = append(out, scriptOp{Key: fmt.Sprintf("L%d", client), Type: "list", Cmd: "rpush", Args: []string{u}, Elem: u})
			} else {
				out = append(out, scriptOp{Key: fmt.Sprintf("C%d", client), Type: "counter", Cmd: "incr"})
			}
		case 1:
			if i%2 == 0 {
				v := u
				if pad > len(v) {
					v += "_" + strings.Repeat("x", pad-len(v)-1)
				}
				out = append(out, scriptOp{Key: fmt.Sprintf("H%d", client), Type: "hash", Cmd: "hset", Args: []string{"f" + strconv.Itoa(i), v}, Elem: "f" + strconv.Itoa(i), Val: v})
			} else {
				out = append(out, scriptOp{Key: fmt.Sprintf("S%d", client), Type: "set", Cmd: "sadd", Args: []string{u}, Elem: u})
			}
		default:
			if i%2 == 0 {
				out = append(out, scriptOp{Key: fmt.Sprintf("Z%d", client), Type: "zset", Cmd: "zadd", Args: []string{strconv.Itoa(i), u}, Elem: u, Val: strconv.Itoa(i)})
			} else {
				out = append(out, scriptOp{Key: fmt.Sprintf("E%d", client), Type: "kvttl", Cmd: "setex", Args: []string{"1000000", u}, Elem: u})
			}
		}
	}
	return out
}

// checkAgainstScript compares a dump with the admissible states: all
// acknowledged writes applied in order, writes with unknown outcome applied
// at most once (not before writes acknowledged before their call), nothing else.
// It returns (signature class, detail) with class "" | "missing" | "twice" | "unwritten".
func checkAgainstScript(d *Dump, scripts [][]scriptOp) (string, string) {
	type keyOps struct {
		typ string
		ops []*scriptOp
	}
	keys := map[string]*keyOps{}
	for ci := range scripts {
		for i := range scripts[ci] {
			so := &scripts[ci][i]
			if so.op == nil || so.Type == "hll" {
				continue // never sent / judged by checkHLL
			}
			k := keys[so.Key]
			if k == nil {
				k = &keyOps{typ: so.Type}
				keys[so.Key] = k
			}
			k.ops = append(k.ops, so)
		}
	}
	acked := func(so *scriptOp) bool { return so.op.Status == "ok" }
	// keys in the dump that no script wrote
	seenKey := func(k string) bool { _, ok := keys[k]; return ok }
	for k := range d.KV {
		if !seenKey(k) {
			return "unwritten", fmt.Sprintf("kv key %s=%q was never written", k, d.KV[k])
		}
	}
	for k := range d.Hash {
		if !seenKey(k) {
			return "unwritten", fmt.Sprintf("hash key %s was never written", k)
		}
	}
	for k := range d.List {
		if !seenKey(k) {
			return "unwritten", fmt.Sprintf("list key %s was never written", k)
		}
	}
	for k := range d.Set {
		if !seenKey(k) {
			return "unwritten", fmt.Sprintf("set key %s was never written", k)
		}
	}
	for k := range d.ZSet {
		if !seenKey(k) {
			return "unwritten", fmt.Sprintf("zset key %s was never written", k)
		}
	}
	names := make([]string, 0, len(keys))
	for k := range keys {
		names = append(names, k)
	}
	sort.Strings(names)
	for _, name := range names {
		k := keys[name]
		switch k.typ {
		case "counter":
			var a, u int64
			for _, so := range k.ops {
				if acked(so) {
					a++
				} else {
					u++
				}
			}
			var got int64
			if s, ok := d.KV[name]; ok {
				v, err := strconv.ParseInt(s, 10, 64)
				if err != nil {
					return "unwritten", fmt.Sprintf("counter %s holds %q", name, s)
				}
				got = v
			}
			if got < a {
				return "missing", fmt.Sprintf("counter %s = %d but %d INCRs were acknowledged (%d more with unknown outcome)", name, got, a, u)
			}
			if got > a+u {
				return "twice", fmt.Sprintf("counter %s = %d but only %d INCRs were acknowledged and %d have an unknown outcome", name, got, a, u)
			}
		case "kvdel":
			// plain key that its single writer sets and deletes: the final state is the one after
			// the last acknowledged op, or what any unknown-outcome op would leave
			got, present := d.KV[name]
			adm := map[string]bool{} // "" = absent
			cur := ""
			written := map[string]bool{}
			for _, so := range k.ops {
				if so.Cmd == "set" {
					written[so.Elem] = true
				}
				if acked(so) {
					cur = so.Elem // "" for del
				} else {
					adm[so.Elem] = true
				}
			}
			adm[cur] = true
			if present && !written[got] {
				return "unwritten", fmt.Sprintf("key %s = %q was never written", name, got)
			}
			g := got
			if !present {
				g = ""
			}
			if !adm[g] {
				if cur != "" {
					return "missing", fmt.Sprintf("key %s serves %q (present=%v) but the last acknowledged write on it is SET %q", name, got, present, cur)
				}
				return "missing", fmt.Sprintf("key %s = %q although its last acknowledged write is DEL", name, got)
			}
		case "kvttl":
			got, present := d.KV[name]
			var lastAcked string
			ok := false
			for _, so := range k.ops {
				if acked(so) {
					lastAcked = so.Elem
				}
			}
			if !present {
				if lastAcked != "" {
					return "missing", fmt.Sprintf("key %s is absent but SETEX %s was acknowledged", name, lastAcked)
				}
				continue
			}
			if got == lastAcked {
				ok = true
			}
			written := false
			for _, so := range k.ops {
				if so.Elem == got {
					written = true
					if !acked(so) {
						ok = true
					}
				}
			}
			if !written {
				return "unwritten", fmt.Sprintf("key %s = %q was never written", name, got)
			}
			if !ok {
				return "missing", fmt.Sprintf("key %s = %q (an older acknowledged value) but the last acknowledged SETEX wrote %q", name, got, lastAcked)
			}
			if !d.TTL[name] {
				return "missing", fmt.Sprintf("key %s lost its TTL (written with SETEX only)", name)
			}
		case "list":
			got := d.List[name]
			pos := map[string]int{}
			for i, e := range got {
				if _, dup := pos[e]; dup {
					return "twice", fmt.Sprintf("list %s contains %s twice", name, e)
				}
				pos[e] = i
			}
			byElem := map[string]*scriptOp{}
			for _, so := range k.ops {
				byElem[so.Elem] = so
			}
			for _, e := range got {
				if byElem[e] == nil {
					return "unwritten", fmt.Sprintf("list %s contains %s which was never pushed", name, e)
				}
			}
			last := -1
			for _, so := range k.ops {
				p, in := pos[so.Elem]
				if acked(so) {
					if !in {
						return "missing", fmt.Sprintf("list %s lacks acknowledged element %s (list has %d elements, last %v)", name, so.Elem, len(got), tailOf(got, 3))
					}
					if p < last {
						return "missing", fmt.Sprintf("list %s: acknowledged elements out of order at %s", name, so.Elem)
					}
					last = p
				}
			}
			// an element of unknown outcome cannot precede an element acknowledged before its call
			for _, so := range k.ops {
				p, in := pos[so.Elem]
				if acked(so) || !in {
					continue
				}
				for _, o2 := range k.ops {
					if acked(o2) && o2.op.Return < so.op.Call && pos[o2.Elem] > p {
						return "unwritten", fmt.Sprintf("list %s: element %s (unknown outcome) precedes %s which was acknowledged before it was sent", name, so.Elem, o2.Elem)
					}
				}
			}
			if card, ok := d.Card[name]; ok && card != int64(len(got)) {
				cls := "missing"
				if card > int64(len(got)) {
					cls = "twice"
				}
				return cls, fmt.Sprintf("list %s: LLEN serves %d but LRANGE enumerates %d elements", name, card, len(got))
			}
		case "hash", "set", "zset":
			got := map[string]string{}
			switch k.typ {
			case "hash":
				for f, v := range d.Hash[name] {
					got[f] = v
				}
			case "set":
				for _, m := range d.Set[name] {
					if _, dup := got[m]; dup {
						return "twice", fmt.Sprintf("set %s enumerates %s twice", name, m)
					}
					got[m] = ""
				}
			case "zset":
				for _, p := range d.ZSet[name] {
					if _, dup := got[p[0]]; dup {
						return "twice", fmt.Sprintf("zset %s enumerates %s twice", name, p[0])
					}
					got[p[0]] = p[1]
				}
			}
			want := map[string]*scriptOp{}
			for _, so := range k.ops {
				want[so.Elem] = so
			}
			for e, v := range got {
				so := want[e]
				if so == nil {
					return "unwritten", fmt.Sprintf("%s %s contains %s which was never written", k.typ, name, e)
				}
				if so.Val != v {
					return "unwritten", fmt.Sprintf("%s %s: %s has value %q, written %q", k.typ, name, e, v, so.Val)
				}
			}
			for _, so := range k.ops {
				if _, in := got[so.Elem]; acked(so) && !in {
					return "missing", fmt.Sprintf("%s %s lacks acknowledged element %s (%d of %d present)", k.typ, name, so.Elem, len(got), len(k.ops))
				}
			}
			// the counting command must agree with the enumeration (size meta is part of the served state)
			if card, ok := d.Card[name]; ok && card != int64(len(got)) {
				cls := "missing"
				if card > int64(len(got)) {
					cls = "twice"
				}
				return cls, fmt.Sprintf("%s %s: the counting command serves %d but %d elements are enumerated (all acknowledged ones present)", k.typ, name, card, len(got))
			}
		}
	}
	return "", ""
}

func tailOf(s []string, n int) []string {
	if len(s) > n {
		return s[len(s)-n:]
	}
	return s
}

// lostPerClient counts, per client, the acknowledged writes whose effect is
// missing from the dump, and tells whether they are exactly the newest
// acknowledged writes of that client (a suffix).
func lostPerClient(d *Dump, scripts [][]scriptOp) (maxLost int, suffixOnly bool) {
	suffixOnly = true
	for ci := range scripts {
		var ackedOps []*scriptOp
		for i := range scripts[ci] {
			so := &scripts[ci][i]
			if so.op != nil && so.op.Status == "ok" {
				ackedOps = append(ackedOps, so)
			}
		}
		lost := make([]bool, len(ackedOps))
		// counters: the newest (acked - value) increments count as lost
		cntAcked := map[string]int64{}
		for _, so := range ackedOps {
			if so.Type == "counter" {
				cntAcked[so.Key]++
			}
		}
		cntSeen := map[string]int64{}
		lastKV := map[string]int{} // kvttl key -> index (in ackedOps) of the op whose value is present
		for i, so := range ackedOps {
			if so.Type == "kvttl" && d.KV[so.Key] == so.Elem {
				lastKV[so.Key] = i + 1
			}
		}
		for i, so := range ackedOps {
			switch so.Type {
			case "list":
				lost[i] = !contains(d.List[so.Key], so.Elem)
			case "hash":
				_, in := d.Hash[so.Key][so.Elem]
				lost[i] = !in
			case "set":
				lost[i] = !contains(d.Set[so.Key], so.Elem)
			case "zset":
				in := false
				for _, p := range d.ZSet[so.Key] {
					if p[0] == so.Elem {
						in = true
					}
				}
				lost[i] = !in
			case "counter":
				cntSeen[so.Key]++
				v, _ := strconv.ParseInt(d.KV[so.Key], 10, 64)
				lost[i] = cntSeen[so.Key] > v
			case "kvttl":
				// lost if a value older than this acknowledged one (or nothing) is present;
				// a present value of unknown outcome hides nothing
				if _, present := d.KV[so.Key]; !present {
					lost[i] = true
				} else if at, ok := lastKV[so.Key]; ok {
					lost[i] = i+1 > at
				}
			}
		}
		n := 0
		seenLost := false
		for i := range lost {
			if lost[i] {
				n++
				seenLost = true
			} else if seenLost {
				suffixOnly = false
			}
		}
		if n > maxLost {
			maxLost = n
		}
	}
	return
}

func contains(s []string, e string) bool {
	for _, x := range s {
		if x == e {
			return true
		}
	}
	return false
}

// ---------------------------------------------------------------- execution

type c06Outcome struct {
	inconclusive string
	fired        bool
	hits1        map[string]int64 // serving process, before the crash (dry runs)
	hitsStartup  map[string]int64 // restarted process, right after it is up (dry runs)
	hitsLeader   map[string]int64
}

type c06Exec struct {
	c          *vc.Ctx
	cs         *C06Case
	cl         *Cluster
	clock      *Clock
	hist       *History
	scripts    [][]scriptOp
	acked      int64
	stop       int32
	victim     *Node
	dead       int32 // victim observed dead
	nClients   int
	leaderIdx  int32
	othersDone int32 // clients other than the batch client that have finished
}

func (x *c06Exec) client(ci int, wg *sync.WaitGroup) {
	defer wg.Done()
	if ci != 4 {
		defer atomic.AddInt32(&x.othersDone, 1)
	}
	rng := rand.New(rand.NewSource(x.cs.Seed*31 + int64(ci)))
	c := NewClient(ci, x.cl, x.clock, x.hist, 9*time.Second)
	defer c.Close()
	script := x.scripts[ci]
	notSent := 0
	unknownHLL := 0
	for i := 0; i < len(script); {
		if atomic.LoadInt32(&x.stop) != 0 {
			return
		}
		if ci == 4 && i == x.cs.Writes && x.cs.TailRun > 0 {
			// the tail run starts when every other client has finished (nothing else is in the log behind it)
			for atomic.LoadInt32(&x.othersDone) < int32(x.nClients-1) && atomic.LoadInt32(&x.stop) == 0 {
				time.Sleep(5 * time.Millisecond)
			}
		}
		so := &script[i]
		n := x.cl.Nodes[rng.Intn(len(x.cl.Nodes))]
		if so.Cmd == "del" && len(x.cl.Nodes) > 1 {
			// DEL is only accepted by the leader of the partition
			if l := atomic.LoadInt32(&x.leaderIdx); l >= 0 && x.cl.Nodes[l].Alive() {
				n = x.cl.Nodes[l]
			}
		}
		op := c.Do(n.ID, so.Key, so.Cmd, so.Args...)
		if op == nil {
			// connection refused: the write was not sent
			notSent++
			if len(x.cl.Nodes) == 1 || notSent > 400 {
				return
			}
			time.Sleep(20 * time.Millisecond)
			continue
		}
		notSent = 0
		so.op = op
		i++
		if op.Status == "ok" {
			atomic.AddInt64(&x.acked, 1)
			if x.cs.ThinkMs > 0 {
				time.Sleep(time.Duration(x.cs.ThinkMs) * time.Millisecond)
			}
			continue
		}
		if len(x.cl.Nodes) == 1 && op.IOErr {
			return // the only node died
		}
		if so.Type == "hll" {
			// the HLL oracle enumerates the subsets of unknown-outcome elements: keep them few
			if unknownHLL++; unknownHLL >= 3 {
				return
			}
		}
		time.Sleep(time.Duration(40+rng.Intn(80)) * time.Millisecond)
	}
}

func (x *c06Exec) violation(sig, summary string, extra map[string]interface{}) {
	w := map[string]interface{}{"case": x.cs, "acked_writes": atomic.LoadInt64(&x.acked)}
	for k, v := range extra {
		w[k] = v
	}
	var lastOps []string
	for ci := range x.scripts {
		var mine []string
		for i := range x.scripts[ci] {
			if o := x.scripts[ci][i].op; o != nil {
				mine = append(mine, o.String())
			}
		}
		lastOps = append(lastOps, tailOf(mine, 6)...)
	}
	w["last_ops_per_client"] = lastOps
	tails := map[string][]string{}
	for _, n := range x.cl.Nodes {
		tails[fmt.Sprintf("n%d", n.ID)] = lastN(n.LogTail(12000), 30)
		if f := n.FiredLines(); len(f) > 0 {
			tails[fmt.Sprintf("n%d.fired", n.ID)] = f
		}
	}
	w["log_tails"] = tails
	x.c.Violation(sig, summary, w)
}

func runC06Case(c *vc.Ctx, cs *C06Case, attempt int) (out c06Outcome) {
	tStart := time.Now()
	var tScript, tRestart time.Duration
	var ackedDbg int64
	defer func() {
		c.Ev.Max("max_case_wall_s", int64(time.Since(tStart).Seconds()))
		if os.Getenv("VERIF_DEBUG") != "" {
			fmt.Printf("C06 case %d %s %s %s/%s k=%d delay=%d fired=%v: script %.1fs restart+settle %.1fs total %.1fs acked=%d %s\n", cs.Index, cs.Config, cs.Opts.Engine, cs.Kind, cs.tag(), cs.K, cs.DelayMs, out.fired,
				tScript.Seconds(), tRestart.Seconds(), time.Since(tStart).Seconds(), ackedDbg, out.inconclusive)
		}
	}()
	name := fmt.Sprintf("c06-%d-%d", cs.Index, attempt)
	dir := filepath.Join(c.Scratch, name)
	var cl0 []*Cluster
	defer func() {
		// data dirs are large (preallocated WAL segments): remove right away
		if keep := os.Getenv("VERIF_KEEP_LOGS"); keep != "" && len(cl0) > 0 {
			for _, n := range cl0[0].Nodes {
				b, _ := ioutil.ReadFile(n.LogPath)
				ioutil.WriteFile(fmt.Sprintf("%s/c06-%d-n%d.log", keep, cs.Index, n.ID), b, 0644)
			}
		}
		removeAll(dir)
	}()
	cl, err := NewCluster(name, dir, cs.Opts)
	if err != nil {
		out.inconclusive = "cluster setup: " + err.Error()
		return
	}
	cl0 = append(cl0, cl)
	defer cl.Close()
	cl.SettleAbortOnDead = true
	x := &c06Exec{c: c, cs: cs, cl: cl, clock: NewClock(), hist: &History{}}
	nClients := 5
	for ci := 0; ci < nClients; ci++ {
		n := cs.Writes
		if ci == 4 {
			n += cs.TailRun
		}
		x.scripts = append(x.scripts, c06Script(ci, n, cs.Writes, cs.PadBytes))
	}
	x.nClients = nClients
	single := cs.Config == "single"
	envFP := ""
	if single && cs.Kind == "failpoint" {
		envFP = cs.Point + "=" + cs.chain()
	}
	if single && cs.ExtraFP != "" {
		envFP = strings.Trim(envFP+";"+cs.ExtraFP, ";")
	}
	for _, n := range cl.Nodes {
		if err := n.Start(envFP, cs.Seed); err != nil {
			out.inconclusive = "start: " + err.Error()
			return
		}
	}
	// the failpoint may already fire while the node starts (k-th hit reached before serving)
	leader := -1
	dl := time.Now().Add(60 * time.Second)
	for time.Now().Before(dl) {
		if single && !cl.Nodes[0].Alive() {
			break
		}
		if l := cl.Leader(); l >= 0 {
			leader = l
			break
		}
		time.Sleep(100 * time.Millisecond)
	}
	if leader < 0 && !(single && !cl.Nodes[0].Alive()) {
		out.inconclusive = "no leader after start"
		return
	}
	if !single {
		for _, n := range cl.Nodes {
			if _, err := n.WaitUp(60 * time.Second); err != nil {
				out.inconclusive = "start: " + err.Error()
				return
			}
		}
	}
	if single {
		x.victim = cl.Nodes[0]
	} else {
		vi := leader
		if cs.VictimRole != "leader" {
			vi = (leader + 1 + int(cs.Seed%2)) % len(cl.Nodes)
		}
		x.victim = cl.Nodes[vi]
		for _, ent := range strings.Split(cs.ExtraFP, ";") {
			if i := strings.Index(ent, "="); i > 0 {
				if err := x.victim.SetFailpoint(ent[:i], ent[i+1:]); err != nil {
					out.inconclusive = "set failpoint: " + err.Error()
					return
				}
			}
		}
		if cs.Kind == "failpoint" {
			if err := x.victim.SetFailpoint(cs.Point, cs.chain()); err != nil {
				out.inconclusive = "set failpoint: " + err.Error()
				return
			}
		}
	}
	atomic.StoreInt32(&x.leaderIdx, int32(leader))
	var wg sync.WaitGroup
	for ci := 0; ci < nClients; ci++ {
		wg.Add(1)
		go x.client(ci, &wg)
	}
	clientsDone := make(chan struct{})
	go func() { wg.Wait(); close(clientsDone) }()
	if !single {
		go func() { // keeps the leader hint (target of DEL) fresh
			for {
				select {
				case <-clientsDone:
					return
				case <-time.After(200 * time.Millisecond):
				}
				if l := cl.Leader(); l >= 0 {
					atomic.StoreInt32(&x.leaderIdx, int32(l))
				}
			}
		}()
	}

	killAt := int64(cs.KillAfter)
	externalKilled := false
	externalKilledUnderLoad := false // SIGKILL from outside while clients were writing
	var ackedAtDeath int64 = -1
	watchdog := time.After(4 * time.Minute)
loop:
	for {
		select {
		case <-clientsDone:
			break loop
		case <-watchdog:
			atomic.StoreInt32(&x.stop, 1)
			<-clientsDone
			out.inconclusive = "script watchdog (4 min)"
			return
		case <-time.After(5 * time.Millisecond):
		}
		if (cs.Kind == "extkill" || cs.Kind == "startup" || cs.Kind == "dry") && !externalKilled && killAt > 0 && atomic.LoadInt64(&x.acked) >= killAt {
			if cs.Kind == "dry" {
				out.hits1, _, _ = x.victim.Hits()
				if !single {
					out.hitsLeader, _, _ = cl.Nodes[leader].Hits()
				}
			}
			x.victim.Kill()
			externalKilled = true
			externalKilledUnderLoad = true
		}
		if ackedAtDeath < 0 && !x.victim.Alive() {
			ackedAtDeath = atomic.LoadInt64(&x.acked)
			if single {
				// clients notice by themselves
			}
		}
		if !single && ackedAtDeath >= 0 && atomic.LoadInt64(&x.acked) >= ackedAtDeath+int64(cs.MoreAcked) {
			atomic.StoreInt32(&x.stop, 1)
		}
	}
	atomic.StoreInt32(&x.stop, 1)
	<-clientsDone
	tScript = time.Since(tStart)
	ackedDbg = atomic.LoadInt64(&x.acked)
	defer func() { tRestart = time.Since(tStart) - tScript }()
	fired := false
	firedInWindow := false // the raft loop was between publish and WAL persist when the crash point fired
	for _, l := range x.victim.FiredLines() {
		if strings.Contains(l, "point="+cs.Point+" ") {
			fired = true
			if strings.Contains(l, " window=1 ") {
				firedInWindow = true
			}
		}
	}
	out.fired = fired
	if x.victim.Alive() {
		// the crash point was not reached (k-th hit never happened): kill from outside, still compare.
		// The node is idle; give the raft loop time to finish persisting the last Ready first.
		time.Sleep(300 * time.Millisecond)
		for _, l := range x.victim.FiredLines() { // the crash point may fire in the idle phase (snapshot goroutine)
			if strings.Contains(l, "point="+cs.Point+" ") {
				fired, out.fired = true, true
				if strings.Contains(l, " window=1 ") {
					firedInWindow = true
				}
			}
		}
		if cs.Kind == "dry" && out.hits1 == nil {
			out.hits1, _, _ = x.victim.Hits()
		}
		x.victim.Kill()
		externalKilled = true
	} else if !fired && !externalKilled {
		sig, code, _ := x.victim.Exit()
		// died without the failpoint and without our kill: the node crashed by itself
		c.Ev.Eval()
		x.violation("node-crashed/"+cs.tag(), fmt.Sprintf("case %d: node %d died by itself during the script (signal %v, exit code %d)", cs.Index, x.victim.ID, sig, code), nil)
		return
	}
	time.Sleep(time.Duration(50+cs.Seed%200) * time.Millisecond)

	// ---- restart (possibly with a second-stage crash = double crash), settle
	stageFP := ""
	if cs.Kind == "startup" {
		stageFP = cs.Point + "=" + cs.chain()
	}
	settled := false
	selfStops := 0
	// A crash during the very first Ready of a fresh replica (before anything was
	// persisted or acknowledged) leaves a WAL without entries; the restarted
	// single voter has no configuration and never elects itself. Nothing was ever
	// acknowledged, so C06 says nothing about it: recorded, not judged.
	bootstrapCrash := single && leader < 0 && atomic.LoadInt64(&x.acked) == 0
	settleWait := 90 * time.Second
	if bootstrapCrash {
		settleWait = 12 * time.Second
	}
	for round := 0; round < 6 && !settled; round++ {
		n := x.victim
		firedBefore := len(n.FiredLines())
		if err := n.Start(stageFP, cs.Seed); err != nil {
			out.inconclusive = "restart: " + err.Error()
			return
		}
		_, err := n.WaitUp(90 * time.Second)
		if err == nil {
			c.Ev.Count("restarts", 1)
			_, err = cl.Settle(settleWait)
			if err == nil {
				settled = true
				break
			}
			if n.Alive() {
				if bootstrapCrash {
					c.Ev.Count("crash_during_bootstrap_before_first_persist.no_leader_after_restart", 1)
					out.fired = true
					return
				}
				out.inconclusive = "settle after restart: " + err.Error()
				return
			}
		} else if _, isExit := err.(*ExitError); !isExit {
			out.inconclusive = fmt.Sprintf("victim slow: %v (process alive=%v, start #%d, %d start headers in log); log tail: %s", err, n.Alive(), n.Starts, len(n.LogGrep(100, "===== VERIF start")), strings.Join(lastN(n.LogTail(20000), 4), " | "))
			return
		}
		// the victim's process ended
		sig, code, _ := n.Exit()
		if stageFP != "" && len(n.FiredLines()) > firedBefore {
			// the second-stage failpoint fired: double crash; next start is clean
			fired = true
			out.fired = true
			stageFP = ""
			c.Ev.Count("double_crashes", 1)
			continue
		}
		if code == 7 && selfStops < 2 {
			// the namespace stopped itself (e.g. snapshot transfer failed); a supervisor starts it again
			selfStops++
			c.Ev.Count("namespace_self_stops", 1)
			continue
		}
		c.Ev.Eval()
		x.violation("restart-fails/"+cs.tag(), fmt.Sprintf("case %d (%s %s rockswal=%v, %s k=%d): node %d does not come back on its directory: signal=%v exit code=%d", cs.Index, cs.Config, cs.Opts.Engine, cs.Opts.UseRocksWAL, cs.tag(), cs.K, n.ID, sig, code),
			map[string]interface{}{"start_errors": n.LogGrep(30, "VNODE-FATAL", "panic", "failed to restore", "restarting node failed", "error loading wal", "failed to read WAL", "no backup")})
		return
	}
	if !settled {
		out.inconclusive = "victim did not settle within 6 restarts"
		return
	}
	c.Ev.Count("restarts_compared", 1)
	if cs.Kind == "dry" {
		out.hitsStartup, _, _ = x.victim.Hits()
	}
	dumps := make([]*Dump, len(cl.Nodes))
	for i, n := range cl.Nodes {
		d, err := n.Dump(x.hllKeys()...)
		if err != nil {
			out.inconclusive = "dump: " + err.Error()
			return
		}
		dumps[i] = d
	}
	c.Ev.Eval()
	if cs.Kind == "dry" {
		return
	}
	c.Ev.Count("cases."+cs.Kind+"."+cs.Config, 1)
	if fired {
		c.Ev.Count("crash_fired."+cs.Point, 1)
		c.Ev.Nontrivial(fmt.Sprintf("%s/k=%d/delay=%d/%s/%s/rockswal=%v/optfsync=%v/%s/%s", cs.Point, cs.K, cs.DelayMs, cs.Opts.Engine, cs.Config, cs.Opts.UseRocksWAL, cs.Opts.OptimizedFsync, cs.VictimRole, cs.Kind))
	} else if cs.Kind == "extkill" || cs.Kind == "tailkill" {
		c.Ev.Count("crash_fired.external-kill", 1)
		c.Ev.Nontrivial(fmt.Sprintf("%s/after=%d/tail=%d/snapcount=%d/%s/%s/rockswal=%v/optfsync=%v/%s", cs.Kind, cs.KillAfter, cs.TailRun, cs.Opts.SnapCount, cs.Opts.Engine, cs.Config, cs.Opts.UseRocksWAL, cs.Opts.OptimizedFsync, cs.VictimRole))
	} else {
		c.Ev.Count("crash_not_reached."+cs.Point, 1)
	}
	// replicas agree
	vi := 0
	for i, n := range cl.Nodes {
		if n == x.victim {
			vi = i
		}
	}
	ref, _ := json.Marshal(dumps[vi])
	for i := range dumps {
		b, _ := json.Marshal(dumps[i])
		if string(b) != string(ref) {
			diff := diffDumps(dumps[vi], dumps[i])
			dsig := "replica-diverges-after-restart"
			onlyPF := len(diff) > 0
			for _, df := range diff {
				if df["type"] != "pfcount" {
					onlyPF = false
				}
			}
			if onlyPF {
				dsig += "/pfadd" // only HyperLogLog cardinalities differ
			}
			dextra := map[string]interface{}{"first_differences": diff}
			// attributed to the pebble checkpoint leak only when the restarted node also shows a
			// double apply of a non-idempotent write (the leak's symptom), never for missing data
			if cls, _ := checkAgainstScript(dumps[vi], x.scripts); cs.Opts.Engine == "pebble" && cls == "twice" {
				if slowest, ev := cl.CheckpointEvidence(x.victim); slowest >= 20*time.Millisecond {
					dsig = "pebble-checkpoint-leaks-later-writes/replica-divergence"
					dextra["checkpoint_evidence"] = ev
				}
			}
			x.violation(dsig, fmt.Sprintf("case %d (%s %s k=%d, %s): restarted node %d and node %d differ after settle: %v", cs.Index, cs.Opts.Engine, cs.tag(), cs.K, cs.VictimRole, x.victim.ID, cl.Nodes[i].ID, firstOr(diff)), dextra)
			return
		}
	}
	// One voter: processReady hands committed entries to the apply loop (which
	// answers the client) before persistRaftState writes them to the WAL. Every
	// client is sequential, so at most its newest acknowledged write can be in
	// that window. Attributed to that window only when the crash is known to be
	// inside it (failpoint line says the raft loop was between publish and
	// persist) or its instant is unknown (SIGKILL from outside during load).
	inWindow := (cs.Kind == "failpoint" && fired && (firedInWindow || ackBeforePersistWindow[cs.Point])) || externalKilledUnderLoad
	// HyperLogLog keys: PFCOUNT against reference keys filled with the admissible element sets
	if why := x.checkHLL(dumps[vi], single && inWindow, fired); why != "" {
		out.inconclusive = why
		return
	}
	class, detail := checkAgainstScript(dumps[vi], x.scripts)
	if class == "" {
		return
	}
	sig := ""
	extra := map[string]interface{}{}
	switch class {
	case "missing":
		sig = "acked-write-missing/" + cs.tag()
		maxLost, suffix := lostPerClient(dumps[vi], x.scripts)
		if single && suffix && maxLost <= 1 && inWindow {
			sig = "ack-before-persist/single-voter"
			detail += fmt.Sprintf(" [single voter; for every client only its newest acknowledged write is lost; raft loop between publish and WAL persist at the crash: failpoint-window=%v external-kill-under-load=%v]", firedInWindow || ackBeforePersistWindow[cs.Point], externalKilledUnderLoad)
		}
	case "twice":
		sig = "write-applied-twice/" + cs.tag()
		if cs.Opts.Engine == "pebble" {
			if slowest, ev := cl.CheckpointEvidence(x.victim); slowest >= 20*time.Millisecond {
				// candidate finding 8 of DESIGN.md 1.6: the restored checkpoint may contain
				// writes newer than its raft index; the WAL tail is then applied on top of them
				sig = "pebble-checkpoint-leaks-later-writes/double-apply"
				detail += fmt.Sprintf(" [pebble: the node restored from a checkpoint whose creation took %v (> the fixed 20 ms after which pebbleEngCheckpoint.Save releases the apply loop), then replayed the log after the checkpoint's index]", slowest)
				extra["checkpoint_evidence"] = ev
			}
		}
	case "unwritten":
		sig = "unwritten-value-present"
	}
	extra["detail"] = detail
	x.violation(sig, fmt.Sprintf("case %d (%s %s rockswal=%v optfsync=%v, %s k=%d delay=%dms fired=%v): after restart on the same directory: %s", cs.Index, cs.Config, cs.Opts.Engine, cs.Opts.UseRocksWAL, cs.Opts.OptimizedFsync, cs.tag(), cs.K, cs.DelayMs, fired, detail), extra)
	return
}

func (x *c06Exec) hllKeys() []string {
	seen := map[string]bool{}
	var out []string
	for ci := range x.scripts {
		for i := range x.scripts[ci] {
			so := &x.scripts[ci][i]
			if so.Type == "hll" && !seen[so.Key] {
				seen[so.Key] = true
				out = append(out, so.Key)
			}
		}
	}
	sort.Strings(out)
	return out
}

// checkHLL judges the HyperLogLog keys. HLL estimates are not exact, so the
// count served after the restart is compared with the count the same
// implementation gives for a reference key that is filled, after the restart,
// with exactly an admissible element set: all acknowledged elements plus any
// subset of the (at most 3) elements of unknown outcome. With one voter and a
// crash inside the publish->persist window the newest acknowledged element may
// be missing as well (known finding, reported under its own signature).
// Returns a reason when no verdict could be reached.
func (x *c06Exec) checkHLL(d *Dump, newestMayBeLost bool, fired bool) (inconclusive string) {
	cs := x.cs
	keys := x.hllKeys()
	if len(keys) == 0 {
		return ""
	}
	leader := x.cl.Leader()
	if leader < 0 {
		return "hll reference: no leader"
	}
	c := NewClient(90, x.cl, x.clock, &History{}, 9*time.Second)
	defer c.Close()
	L := x.cl.Nodes[leader].ID
	refN := 0
	countOf := func(elems []string) (int64, string) {
		refN++
		ref := fmt.Sprintf("ZR%d", refN)
		for i := 0; i < len(elems); i += 50 {
			op := c.Do(L, ref, "pfadd", elems[i:min(i+50, len(elems))]...)
			if op == nil || op.Status != "ok" {
				return 0, fmt.Sprintf("hll reference write failed: %v", op)
			}
		}
		op := c.Do(L, ref, "pfcount")
		if op == nil || op.Status != "ok" {
			return 0, fmt.Sprintf("hll reference read failed: %v", op)
		}
		n, _ := op.Reply.(int64)
		return n, ""
	}
	for _, k := range keys {
		var acked, unknown []string
		for ci := range x.scripts {
			for i := range x.scripts[ci] {
				so := &x.scripts[ci][i]
				if so.Key != k || so.op == nil {
					continue
				}
				if so.op.Status == "ok" {
					acked = append(acked, so.Elem)
				} else {
					unknown = append(unknown, so.Elem)
				}
			}
		}
		got, present := d.PF[k]
		if !present {
			return "hll: dump has no PFCOUNT for " + k
		}
		admissible := map[int64]bool{}
		excused := map[int64]bool{} // counts that additionally need "newest acknowledged element lost"
		var lo, hi int64 = 1 << 62, -1
		for mask := 0; mask < 1<<uint(len(unknown)); mask++ {
			set := append([]string(nil), acked...)
			for b := range unknown {
				if mask&(1<<uint(b)) != 0 {
					set = append(set, unknown[b])
				}
			}
			n, why := countOf(set)
			if why != "" {
				return why
			}
			admissible[n] = true
			lo, hi = min(lo, n), max(hi, n)
			if newestMayBeLost && len(acked) > 0 {
				set2 := append([]string(nil), acked[:len(acked)-1]...)
				set2 = append(set2, set[len(acked):]...)
				n2, why := countOf(set2)
				if why != "" {
					return why
				}
				excused[n2] = true
			}
		}
		x.c.Ev.Count("hll_keys_compared", 1)
		if admissible[got] {
			continue
		}
		detail := fmt.Sprintf("PFCOUNT %s = %d after the restart; %d acknowledged PFADDs (+ any of %d with unknown outcome) give %v on reference keys of the same server", k, got, len(acked), len(unknown), keysOfCounts(admissible))
		if excused[got] {
			x.violation("ack-before-persist/single-voter", fmt.Sprintf("case %d (%s %s, %s k=%d): %s [single voter; matches the count without the newest acknowledged element; crash in the publish->WAL window]", cs.Index, cs.Config, cs.Opts.Engine, cs.tag(), cs.K, detail), map[string]interface{}{"detail": detail})
			continue
		}
		sig := "acked-write-missing/" + cs.tag() + "/pfadd"
		if got > hi {
			sig = "unwritten-value-present/pfadd"
		}
		x.violation(sig, fmt.Sprintf("case %d (%s %s rockswal=%v, %s k=%d delay=%dms fired=%v): %s", cs.Index, cs.Config, cs.Opts.Engine, cs.Opts.UseRocksWAL, cs.tag(), cs.K, cs.DelayMs, fired, detail),
			map[string]interface{}{"detail": detail, "key": k, "acked_elements": len(acked), "unknown_elements": unknown})
	}
	return ""
}

func keysOfCounts(m map[int64]bool) []int64 {
	var out []int64
	for k := range m {
		out = append(out, k)
	}
	sort.Slice(out, func(i, j int) bool { return out[i] < out[j] })
	return out
}
