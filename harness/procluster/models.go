package procluster

import (
	"fmt"
	"sort"
	"strconv"
	"strings"
	"time"

	"github.com/anishathalye/porcupine"
)

// Sequential models of the three C04 families. Every model is
// nondeterministic only for *open* operations (no reply seen): such an
// operation may take effect once, at any point after its call, or never.

type mIn struct {
	cmd  string // lower case command
	arg  string // value / element / increment
	open bool
	// relaxed: accept the replies of the node-local pre-check path
	// (setnx->0, lpop/rpop->nil) as no-ops in any state (candidate finding 4)
	relax bool
}

type mOut struct {
	v interface{} // int64 | string | nil | []string
}

func same(a, b interface{}) bool {
	switch x := a.(type) {
	case nil:
		return b == nil
	case int64:
		y, ok := b.(int64)
		return ok && x == y
	case string:
		y, ok := b.(string)
		return ok && x == y
	}
	return false
}

// ---- counter: state = int64 (0 <=> key absent, increments are > 0)

func counterStep(state interface{}, input interface{}, output interface{}) []interface{} {
	s := state.(int64)
	in := input.(mIn)
	out := output.(mOut)
	switch in.cmd {
	case "incr", "incrby", "hincrby":
		d, _ := strconv.ParseInt(in.arg, 10, 64)
		if in.open {
			return []interface{}{s, s + d}
		}
		if v, ok := out.v.(int64); ok && v == s+d {
			return []interface{}{s + d}
		}
		return nil
	case "get", "hget":
		if s == 0 {
			if out.v == nil {
				return []interface{}{s}
			}
			return nil
		}
		if v, ok := out.v.(string); ok && v == strconv.FormatInt(s, 10) {
			return []interface{}{s}
		}
		return nil
	}
	return nil
}

// ---- register: state = string ("" <=> absent; written values are non-empty)

func registerStep(state interface{}, input interface{}, output interface{}) []interface{} {
	s := state.(string)
	in := input.(mIn)
	out := output.(mOut)
	switch in.cmd {
	case "getset":
		if in.open {
			return []interface{}{s, in.arg}
		}
		if (s == "" && out.v == nil) || (s != "" && same(out.v, s)) {
			return []interface{}{in.arg}
		}
		return nil
	case "setnx":
		if in.open {
			if s == "" {
				return []interface{}{s, in.arg}
			}
			return []interface{}{s}
		}
		v, _ := out.v.(int64)
		if v == 1 && s == "" {
			return []interface{}{in.arg}
		}
		if v == 0 && (s != "" || in.relax) {
			return []interface{}{s}
		}
		return nil
	case "del":
		if in.open {
			return []interface{}{s, ""}
		}
		v, _ := out.v.(int64)
		if (v == 1 && s != "") || (v == 0 && s == "") {
			return []interface{}{""}
		}
		return nil
	case "get":
		if (s == "" && out.v == nil) || (s != "" && same(out.v, s)) {
			return []interface{}{s}
		}
		return nil
	}
	return nil
}

// ---- list: state = elements joined by "," (elements are unique tokens without ",")

func listSplit(s string) []string {
	if s == "" {
		return nil
	}
	return strings.Split(s, ",")
}

func listStep(state interface{}, input interface{}, output interface{}) []interface{} {
	s := state.(string)
	in := input.(mIn)
	out := output.(mOut)
	l := listSplit(s)
	switch in.cmd {
	case "lpush", "rpush":
		var ns string
		if s == "" {
			ns = in.arg
		} else if in.cmd == "lpush" {
			ns = in.arg + "," + s
		} else {
			ns = s + "," + in.arg
		}
		if in.open {
			return []interface{}{s, ns}
		}
		if v, ok := out.v.(int64); ok && v == int64(len(l)+1) {
			return []interface{}{ns}
		}
		return nil
	case "lpop", "rpop":
		var popped, ns string
		if len(l) > 0 {
			if in.cmd == "lpop" {
				popped, ns = l[0], strings.Join(l[1:], ",")
			} else {
				popped, ns = l[len(l)-1], strings.Join(l[:len(l)-1], ",")
			}
		}
		if in.open {
			if len(l) == 0 {
				return []interface{}{s}
			}
			return []interface{}{s, ns}
		}
		if out.v == nil {
			if len(l) == 0 || in.relax {
				return []interface{}{s}
			}
			return nil
		}
		if len(l) > 0 && same(out.v, popped) {
			return []interface{}{ns}
		}
		return nil
	case "lrange":
		got, _ := out.v.([]string)
		if strings.Join(got, ",") == s {
			return []interface{}{s}
		}
		return nil
	}
	return nil
}

func familyModel(family string) porcupine.Model {
	nm := porcupine.NondeterministicModel{
		Equal: func(a, b interface{}) bool { return a == b },
		DescribeOperation: func(in, out interface{}) string {
			i := in.(mIn)
			o := out.(mOut)
			if i.open {
				return fmt.Sprintf("%s(%s) -> ?", i.cmd, i.arg)
			}
			return fmt.Sprintf("%s(%s) -> %s", i.cmd, i.arg, fmtReply(o.v))
		},
		DescribeState: func(s interface{}) string { return fmt.Sprintf("%v", s) },
	}
	switch family {
	case "counter", "hcounter":
		nm.Init = func() []interface{} { return []interface{}{int64(0)} }
		nm.Step = counterStep
	case "register":
		nm.Init = func() []interface{} { return []interface{}{""} }
		nm.Step = registerStep
	case "list":
		nm.Init = func() []interface{} { return []interface{}{""} }
		nm.Step = listStep
	default:
		panic("unknown family " + family)
	}
	return nm.ToModel()
}

// opArg extracts the model argument of an op.
func opArg(o *Op) string {
	switch o.Cmd {
	case "incr":
		return "1"
	case "incrby", "getset", "setnx", "lpush", "rpush":
		return o.Args[0]
	case "hincrby":
		return o.Args[1]
	}
	return ""
}

// isPrecheckReply: the replies the node-local pre-check path can produce
// without going through the log.
func isPrecheckReply(o *Op) bool {
	if o.Status != "ok" {
		return false
	}
	switch o.Cmd {
	case "setnx":
		v, ok := o.Reply.(int64)
		return ok && v == 0
	case "lpop", "rpop":
		return o.Reply == nil
	}
	return false
}

// isSwallowedDelCandidate: DEL answered 0. The server's merged-command path
// (server/merge.go doMergeKeysCommand) sums the int64 results of the
// per-partition handlers and silently skips results that are errors, so a DEL
// whose proposal failed (dropped during leader transfer, proposal timeout) is
// answered with the integer 0 instead of an error.
func isSwallowedDelCandidate(o *Op) bool {
	if o.Status != "ok" || o.Cmd != "del" {
		return false
	}
	v, ok := o.Reply.(int64)
	return ok && v == 0
}

// toPorcupine converts the ops of one key. relax is a set of excuses:
// "setnx"/"lpop"/"rpop": the replies the node-local pre-check can produce are
// accepted as no-ops in any state; "del": DEL->0 replies are treated as
// operations of unknown outcome (failed proposal reported as 0).
func toPorcupine(ops []*Op, relax map[string]bool) []porcupine.Operation {
	var maxT int64
	for _, o := range ops {
		if o.Call > maxT {
			maxT = o.Call
		}
		if o.Return > maxT {
			maxT = o.Return
		}
	}
	out := make([]porcupine.Operation, 0, len(ops))
	for _, o := range ops {
		in := mIn{cmd: o.Cmd, arg: opArg(o), open: o.Status != "ok"}
		if relax[o.Cmd] && isPrecheckReply(o) {
			continue // excused: a no-op in any state, i.e. not part of the history
		}
		if relax["del"] && isSwallowedDelCandidate(o) {
			in.open = true
		}
		ret := o.Return
		if in.open {
			ret = maxT + 1
		}
		out = append(out, porcupine.Operation{ClientId: o.Client, Input: in, Call: o.Call, Output: mOut{o.Reply}, Return: ret})
	}
	return out
}

// KeyVerdict is the outcome of checking one key's history.
type KeyVerdict struct {
	Key       string
	Family    string
	Result    string // "ok" | "illegal" | "unknown"
	Signature string // for illegal
	// further signatures of the same illegal history (pre-check staleness of several commands)
	MoreSignatures []string
	Detail         string
	Ops            int
	Open           int
	CheckMs        int64
}

// checkKey runs the accounting checks and porcupine on one key's history
// (which must already contain the final read).
func checkKey(family, key string, ops []*Op, timeout time.Duration, swallowedDelErrors int) (kv KeyVerdict) {
	kv = KeyVerdict{Key: key, Family: family, Ops: len(ops)}
	for _, o := range ops {
		if o.Status != "ok" {
			kv.Open++
		}
	}
	t0 := time.Now()
	defer func() { kv.CheckMs = time.Since(t0).Nanoseconds() / 1e6 }()
	if sig, detail := accounting(family, ops); sig != "" {
		// accounting failures are definite; still classify pre-check staleness first
		kv.Result, kv.Signature, kv.Detail = "illegal", sig, detail
	}
	model := familyModel(family)
	res, _ := porcupine.CheckOperationsVerbose(model, toPorcupine(ops, nil), timeout)
	switch res {
	case porcupine.Ok:
		if kv.Result == "illegal" {
			// the accounting oracle is implied by linearizability of the history with
			// the final read; disagreement means the harness is wrong
			kv.Detail = "HARNESS: accounting says " + kv.Signature + " but the history is linearizable: " + kv.Detail
			kv.Result, kv.Signature = "unknown", ""
			return kv
		}
		kv.Result = "ok"
		return kv
	case porcupine.Unknown:
		if kv.Result != "illegal" {
			kv.Result = "unknown"
			kv.Detail = "porcupine timeout"
		}
		return kv
	}
	// illegal: is it explained by the node-local pre-check replies and/or by
	// swallowed DEL errors alone? Find a smallest set of excuses that makes the
	// history linearizable; every member gets its own signature.
	relaxedTimeout := false
	has := map[string]bool{}
	for _, o := range ops {
		if isPrecheckReply(o) {
			has[o.Cmd] = true
		}
		if isSwallowedDelCandidate(o) && swallowedDelErrors > 0 {
			has["del"] = true
		}
	}
	if len(has) > 0 {
		cands := make([]string, 0, len(has))
		for c := range has {
			cands = append(cands, c)
		}
		sort.Slice(cands, func(i, j int) bool { // pre-check excuses first, "del" last
			if (cands[i] == "del") != (cands[j] == "del") {
				return cands[j] == "del"
			}
			return cands[i] < cands[j]
		})
		var subsets [][]string
		for _, c := range cands {
			subsets = append(subsets, []string{c})
		}
		for i := range cands {
			for j := i + 1; j < len(cands); j++ {
				subsets = append(subsets, []string{cands[i], cands[j]})
			}
		}
		if len(cands) > 2 {
			subsets = append(subsets, cands)
		}
		sigOf := func(c string) string {
			if c == "del" {
				return "merge-error-swallowed/del"
			}
			return "local-precheck-stale/" + c
		}
		for _, sub := range subsets {
			relax := map[string]bool{}
			for _, c := range sub {
				relax[c] = true
			}
			r, _ := porcupine.CheckOperationsVerbose(model, toPorcupine(ops, relax), timeout/2)
			if r == porcupine.Unknown {
				relaxedTimeout = true
			}
			if r != porcupine.Ok {
				continue
			}
			kv.Result, kv.Signature, kv.MoreSignatures = "illegal", sigOf(sub[0]), nil
			for _, c := range sub[1:] {
				kv.MoreSignatures = append(kv.MoreSignatures, sigOf(c))
			}
			kv.Detail = "history is not linearizable, but becomes linearizable when exactly these replies are excused: "
			var parts []string
			for _, c := range sub {
				if c == "del" {
					parts = append(parts, fmt.Sprintf("DEL->0 treated as unknown outcome (the node logs show %d DEL proposals on this key that failed and were answered with 0 by the merged-command path)", swallowedDelErrors))
				} else {
					parts = append(parts, c+" replies of the node-local pre-check (setnx->0, lpop/rpop->nil) treated as no-ops")
				}
			}
			kv.Detail += strings.Join(parts, "; ")
			return kv
		}
	}
	if relaxedTimeout {
		// an excuse could not be decided: no verdict for this key
		kv.Result, kv.Signature = "unknown", ""
		kv.Detail = "history is not linearizable as recorded; the re-check with pre-check replies excused timed out"
		return kv
	}
	if kv.Result != "illegal" {
		kv.Result, kv.Signature = "illegal", "non-linearizable/"+family
		kv.Detail = "no linearization of the key's history (with final read) against the " + family + " model"
	}
	return kv
}

// accounting: every acknowledged unique element / increment is accounted for
// exactly once in (final state + acknowledged removals). Returns a signature
// ("acked-write-lost" / "write-applied-twice") or "".
func accounting(family string, ops []*Op) (string, string) {
	var final *Op
	for _, o := range ops {
		if o.Cmd == "get" || o.Cmd == "hget" || o.Cmd == "lrange" {
			final = o
		}
	}
	if final == nil || final.Status != "ok" {
		return "", ""
	}
	switch family {
	case "counter", "hcounter":
		var acked, open int64
		seen := map[int64]int{}
		for _, o := range ops {
			if o == final {
				continue
			}
			d, _ := strconv.ParseInt(opArg(o), 10, 64)
			if o.Status == "ok" {
				acked += d
				if v, ok := o.Reply.(int64); ok {
					if prev, dup := seen[v]; dup {
						return "write-applied-twice", fmt.Sprintf("counter value %d returned to two acknowledged increments (#%d and #%d)", v, prev, o.ID)
					}
					seen[v] = o.ID
				}
			} else {
				open += d
			}
		}
		var fin int64
		if s, ok := final.Reply.(string); ok {
			fin, _ = strconv.ParseInt(s, 10, 64)
		}
		if fin < acked {
			return "acked-write-lost", fmt.Sprintf("final counter %d < sum of acknowledged increments %d", fin, acked)
		}
		if fin > acked+open {
			return "write-applied-twice", fmt.Sprintf("final counter %d > acknowledged %d + unknown-outcome %d increments", fin, acked, open)
		}
	case "list":
		fin, _ := final.Reply.([]string)
		count := map[string]int{}
		for _, e := range fin {
			count[e]++
		}
		openPops := 0
		for _, o := range ops {
			if (o.Cmd == "lpop" || o.Cmd == "rpop") && o.Status == "ok" {
				if s, ok := o.Reply.(string); ok {
					count[s]++
				}
			}
			if (o.Cmd == "lpop" || o.Cmd == "rpop") && o.Status != "ok" {
				openPops++
			}
		}
		pushed := map[string]*Op{}
		for _, o := range ops {
			if o.Cmd == "lpush" || o.Cmd == "rpush" {
				pushed[o.Args[0]] = o
			}
		}
		for e, n := range count {
			if n > 1 {
				return "write-applied-twice", fmt.Sprintf("element %s appears %d times in final list + acknowledged pops", e, n)
			}
			if pushed[e] == nil {
				return "non-linearizable/list", fmt.Sprintf("element %s was never pushed", e)
			}
		}
		missing := 0
		var first string
		for e, o := range pushed {
			if o.Status == "ok" && count[e] == 0 {
				missing++
				if first == "" || e < first {
					first = e
				}
			}
		}
		if missing > openPops {
			return "acked-write-lost", fmt.Sprintf("%d acknowledged pushed elements (first %s) are neither in the final list nor returned by an acknowledged pop, only %d pops have unknown outcome", missing, first, openPops)
		}
	case "register":
		// a value can be handed back as "old value" at most once, and the final value only if not handed back
		count := map[string]int{}
		for _, o := range ops {
			if o.Cmd == "getset" && o.Status == "ok" {
				if s, ok := o.Reply.(string); ok {
					count[s]++
				}
			}
		}
		if s, ok := final.Reply.(string); ok {
			count[s]++
		}
		for v, n := range count {
			if n > 1 {
				return "write-applied-twice", fmt.Sprintf("value %s observed %d times as overwritten/final value", v, n)
			}
		}
	}
	return "", ""
}
