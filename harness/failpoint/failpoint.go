// Package failpoint is the handler behind the repository's verifhook.Point
// calls (compiled in with -tags verif). It is installed by the vnode child
// process (procluster) and gives every named point a small program:
//
//	spec   := entry { ";" entry }
//	entry  := point "=" chain
//	chain  := [ "unless(" point ">" point "):" ] step { "->" step }
//	step   := [ count "*" ] [ prob "%" ] action { "+" action }
//	action := "off" | "sleep(" ms ")" | "crash" | "exit" | "panic" | "print"
//
// A step with a count is used for that many hits of the point and then the
// chain moves on to the next step; a step without a count stays forever.
// "3*off->crash" therefore kills the process (SIGKILL to itself) at the 4th
// hit, "sleep(100)+crash" sleeps first (so that concurrent goroutines can run
// into the window) and then kills, "30%sleep(50)" sleeps at 30 % of the hits
// (seeded PRNG). When the chain is exhausted the point is off.
//
// A chain guarded by "unless(a>b):" ignores the hits at which the last hit of
// point a is newer than the last hit of point b (e.g. "this Ready published
// committed entries": unless(node.raft.afterPublish>node.raft.beforeAdvance)).
//
// Every hit of every point is counted, whether or not a program is attached,
// so that a dry run can report how often each point is reached.
package failpoint

import (
	"encoding/json"
	"fmt"
	"io/ioutil"
	"math/rand"
	"net/http"
	"os"
	"sort"
	"strconv"
	"strings"
	"sync"
	"syscall"
	"time"

	"github.com/youzan/ZanRedisDB/pkg/verifhook"
)

type action struct {
	kind string // off sleep crash exit panic print
	ms   int
}

type step struct {
	count   int64 // <0: forever
	prob    float64
	actions []action
}

type program struct {
	src   string
	steps []step
	pos   int
	used  int64
	// guard "unless(a>b):" - a hit is ignored (not counted by the chain, no
	// action) when the last hit of point a is newer than the last hit of point b
	guardA, guardB string
}

// Registry holds the programs and hit counters of one process.
type Registry struct {
	mu    sync.Mutex
	progs map[string]*program
	hits  map[string]int64
	fired map[string]int64
	rng   *rand.Rand
	// Window: the fired line of a crash/exit/panic action says whether, at that
	// instant, some goroutine was inside the window that opens at any point of
	// WindowOpen and closes at WindowClose (last hit of an opener is newer than
	// the last hit of the closer). vnode uses it for the publish->persist window
	// of the raft loop, so that a crash point in another goroutine can be
	// attributed (or not) to that window.
	WindowOpen  []string
	WindowClose string
	seq         int64
	lastSeq     map[string]int64
	// FiredLog, when set, receives one line per executed crash/exit/panic
	// action before it happens (file opened O_APPEND|O_SYNC by the caller).
	FiredLog *os.File
}

// NewRegistry returns an empty registry whose probabilities are drawn from seed.
func NewRegistry(seed int64) *Registry {
	return &Registry{progs: map[string]*program{}, hits: map[string]int64{}, fired: map[string]int64{}, lastSeq: map[string]int64{},
		rng: rand.New(rand.NewSource(seed))}
}

func parseAction(s string) (action, error) {
	s = strings.TrimSpace(s)
	switch {
	case s == "off" || s == "crash" || s == "exit" || s == "panic" || s == "print":
		return action{kind: s}, nil
	case strings.HasPrefix(s, "sleep(") && strings.HasSuffix(s, ")"):
		ms, err := strconv.Atoi(s[len("sleep(") : len(s)-1])
		if err != nil || ms < 0 {
			return action{}, fmt.Errorf("bad sleep %q", s)
		}
		return action{kind: "sleep", ms: ms}, nil
	}
	return action{}, fmt.Errorf("unknown action %q", s)
}

// ParseChain parses one chain ("3*off->crash").
func ParseChain(src string) ([]step, error) {
	var steps []step
	for _, part := range strings.Split(src, "->") {
		part = strings.TrimSpace(part)
		if part == "" {
			return nil, fmt.Errorf("empty step in %q", src)
		}
		st := step{count: -1, prob: 1}
		if i := strings.Index(part, "*"); i > 0 {
			n, err := strconv.ParseInt(strings.TrimSpace(part[:i]), 10, 64)
			if err != nil || n < 0 {
				return nil, fmt.Errorf("bad count in %q", part)
			}
			st.count = n
			part = part[i+1:]
		}
		if i := strings.Index(part, "%"); i > 0 {
			p, err := strconv.ParseFloat(strings.TrimSpace(part[:i]), 64)
			if err != nil || p < 0 || p > 100 {
				return nil, fmt.Errorf("bad probability in %q", part)
			}
			st.prob = p / 100
			part = part[i+1:]
		}
		for _, a := range strings.Split(part, "+") {
			act, err := parseAction(a)
			if err != nil {
				return nil, err
			}
			st.actions = append(st.actions, act)
		}
		steps = append(steps, st)
	}
	return steps, nil
}

func parseProgram(chain string) (*program, error) {
	p := &program{src: chain}
	if strings.HasPrefix(chain, "unless(") {
		i := strings.Index(chain, "):")
		if i < 0 {
			return nil, fmt.Errorf("bad guard in %q", chain)
		}
		ab := strings.Split(chain[len("unless("):i], ">")
		if len(ab) != 2 {
			return nil, fmt.Errorf("bad guard in %q", chain)
		}
		p.guardA, p.guardB = strings.TrimSpace(ab[0]), strings.TrimSpace(ab[1])
		chain = chain[i+2:]
	}
	steps, err := ParseChain(chain)
	if err != nil {
		return nil, err
	}
	p.steps = steps
	return p, nil
}

// ParseSpec parses "a=chain;b=chain".
func ParseSpec(spec string) (map[string]*program, error) {
	out := map[string]*program{}
	for _, ent := range strings.Split(spec, ";") {
		ent = strings.TrimSpace(ent)
		if ent == "" {
			continue
		}
		i := strings.Index(ent, "=")
		if i <= 0 {
			return nil, fmt.Errorf("bad failpoint entry %q", ent)
		}
		name, chain := strings.TrimSpace(ent[:i]), strings.TrimSpace(ent[i+1:])
		pr, err := parseProgram(chain)
		if err != nil {
			return nil, fmt.Errorf("%s: %v", name, err)
		}
		out[name] = pr
	}
	return out, nil
}

// Set replaces all programs by spec (hit counters are kept).
func (r *Registry) Set(spec string) error {
	progs, err := ParseSpec(spec)
	if err != nil {
		return err
	}
	r.mu.Lock()
	r.progs = progs
	r.mu.Unlock()
	return nil
}

// SetPoint replaces (chain != "") or removes (chain == "") one program.
func (r *Registry) SetPoint(name, chain string) error {
	if chain == "" {
		r.mu.Lock()
		delete(r.progs, name)
		r.mu.Unlock()
		return nil
	}
	pr, err := parseProgram(chain)
	if err != nil {
		return err
	}
	r.mu.Lock()
	r.progs[name] = pr
	r.mu.Unlock()
	return nil
}

// Spec returns the current programs in spec syntax.
func (r *Registry) Spec() string {
	r.mu.Lock()
	defer r.mu.Unlock()
	var names []string
	for n := range r.progs {
		names = append(names, n)
	}
	sort.Strings(names)
	var parts []string
	for _, n := range names {
		parts = append(parts, n+"="+r.progs[n].src)
	}
	return strings.Join(parts, ";")
}

// Hits returns a copy of the hit counters.
func (r *Registry) Hits() map[string]int64 {
	r.mu.Lock()
	defer r.mu.Unlock()
	out := make(map[string]int64, len(r.hits))
	for k, v := range r.hits {
		out[k] = v
	}
	return out
}

// Fired returns how often a non-off action was executed per point.
func (r *Registry) Fired() map[string]int64 {
	r.mu.Lock()
	defer r.mu.Unlock()
	out := make(map[string]int64, len(r.fired))
	for k, v := range r.fired {
		out[k] = v
	}
	return out
}

// Handle is the verifhook handler.
func (r *Registry) Handle(name string) {
	r.mu.Lock()
	r.hits[name]++
	hit := r.hits[name]
	r.seq++
	r.lastSeq[name] = r.seq
	window := 0
	for _, o := range r.WindowOpen {
		if r.lastSeq[o] > r.lastSeq[r.WindowClose] {
			window = 1
		}
	}
	var acts []action
	if p := r.progs[name]; p != nil && !(p.guardA != "" && r.lastSeq[p.guardA] > r.lastSeq[p.guardB]) {
		for p.pos < len(p.steps) && p.steps[p.pos].count >= 0 && p.used >= p.steps[p.pos].count {
			p.pos++
			p.used = 0
		}
		if p.pos < len(p.steps) {
			st := p.steps[p.pos]
			p.used++
			if st.prob >= 1 || r.rng.Float64() < st.prob {
				acts = st.actions
			}
		}
	}
	if len(acts) > 0 && !(len(acts) == 1 && acts[0].kind == "off") {
		r.fired[name]++
	}
	flog := r.FiredLog
	r.mu.Unlock()
	for _, a := range acts {
		switch a.kind {
		case "off":
		case "sleep":
			time.Sleep(time.Duration(a.ms) * time.Millisecond)
		case "print":
			fmt.Fprintf(os.Stderr, "VERIF-FAILPOINT print point=%s hit=%d\n", name, hit)
		case "crash", "exit", "panic":
			// the window is evaluated at the instant of the action (after any sleep before it)
			r.mu.Lock()
			window = 0
			for _, o := range r.WindowOpen {
				if r.lastSeq[o] > r.lastSeq[r.WindowClose] {
					window = 1
				}
			}
			r.mu.Unlock()
			line := fmt.Sprintf("VERIF-FAILPOINT fired point=%s hit=%d action=%s window=%d pid=%d t=%d\n", name, hit, a.kind, window, os.Getpid(), time.Now().UnixNano())
			if flog != nil {
				flog.WriteString(line)
			}
			os.Stderr.WriteString(line)
			switch a.kind {
			case "crash":
				syscall.Kill(os.Getpid(), syscall.SIGKILL)
				// SIGKILL is not synchronous for the calling thread on every kernel; never continue.
				for {
					time.Sleep(time.Hour)
				}
			case "exit":
				os.Exit(99)
			case "panic":
				panic("VERIF-FAILPOINT panic at " + name)
			}
		}
	}
}

// Install makes r the process-wide handler of verifhook.Point.
func (r *Registry) Install() {
	if !verifhook.Enabled {
		fmt.Fprintln(os.Stderr, "failpoint: binary built without -tags verif, hook points are inert")
	}
	verifhook.SetHandler(r.Handle)
}

// InstallFromEnv builds a registry from VERIF_FAILPOINTS / VERIF_FAILPOINT_SEED
// / VERIF_FAILPOINT_LOG, installs it and returns it.
func InstallFromEnv() (*Registry, error) {
	seed := int64(1)
	if s := os.Getenv("VERIF_FAILPOINT_SEED"); s != "" {
		if v, err := strconv.ParseInt(s, 10, 64); err == nil {
			seed = v
		}
	}
	r := NewRegistry(seed)
	if p := os.Getenv("VERIF_FAILPOINT_LOG"); p != "" {
		f, err := os.OpenFile(p, os.O_CREATE|os.O_WRONLY|os.O_APPEND|os.O_SYNC, 0644)
		if err != nil {
			return nil, err
		}
		r.FiredLog = f
	}
	if err := r.Set(os.Getenv("VERIF_FAILPOINTS")); err != nil {
		return nil, err
	}
	r.Install()
	return r, nil
}

// ServeHTTP serves the control endpoint (mounted by vnode under /failpoint):
//
//	GET  /failpoint          current spec
//	POST /failpoint          body = full spec (replaces all programs)
//	POST /failpoint?point=p  body = chain for one point (empty body removes it)
//	GET  /failpoint/hits     {"hits":{point:n}, "fired":{point:n}}
func (r *Registry) ServeHTTP(w http.ResponseWriter, req *http.Request) {
	if strings.HasSuffix(req.URL.Path, "/hits") {
		json.NewEncoder(w).Encode(map[string]interface{}{"hits": r.Hits(), "fired": r.Fired()})
		return
	}
	switch req.Method {
	case "GET":
		fmt.Fprint(w, r.Spec())
	case "POST", "PUT":
		body, _ := ioutil.ReadAll(req.Body)
		var err error
		if p := req.URL.Query().Get("point"); p != "" {
			err = r.SetPoint(p, strings.TrimSpace(string(body)))
		} else {
			err = r.Set(string(body))
		}
		if err != nil {
			http.Error(w, err.Error(), 400)
			return
		}
		fmt.Fprint(w, r.Spec())
	default:
		http.Error(w, "method", 405)
	}
}
