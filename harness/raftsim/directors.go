package raftsim

import (
	"math/rand"

	"github.com/youzan/ZanRedisDB/raft"
	pb "github.com/youzan/ZanRedisDB/raft/raftpb"
)

// Scenario directors: scripted shapes built from the same primitives as the
// random layer (every step goes through Sim.Do, so the result is an ordinary
// replayable action list), with seeded perturbation, followed by a random
// tail and the settle phase. A director that does not reach its shape is
// still a valid schedule for the safety monitors.

var directorNames = []string{"figure8", "deposed-leader", "conf-both-sides", "snapshot-laggard", "unapplied-conf-restart", "transfer-laggard", "revote-after-restart", "stale-snapshot", "removenode-replay", "vote-after-term-bump", "conf-behind-backlog", "snapshot-shrunk-conf", "vote-for-new-voter-restart"}

func directorConfig(name string, rng *rand.Rand) SimConfig {
	c := SimConfig{ElectionTick: 10, HeartbeatTick: 1, MaxInflight: 256, MaxSizePerMsg: 1 << 20, MaxCommittedSize: 1 << 20}
	c.Storage = storageMix[rng.Intn(len(storageMix))]
	onOn := rng.Intn(10) < 6
	c.PreVote, c.CheckQuorum = onOn, onOn
	c.EarlyLeaderSend = rng.Intn(4) == 0
	switch name {
	case "figure8":
		c.Voters = 5
		c.MaxSizePerMsg = 0 // one entry per message
		c.MaxCommittedSize = []uint64{0, 1 << 20}[rng.Intn(2)]
	case "deposed-leader":
		c.Voters = []int{3, 5}[rng.Intn(2)]
		c.PreVote, c.CheckQuorum = true, true
	case "conf-both-sides":
		c.Voters = 5
	case "snapshot-laggard":
		c.Voters = []int{3, 5}[rng.Intn(2)]
		c.MaxCommittedSize = []uint64{1, 200, 1 << 20}[rng.Intn(3)]
		c.MaxSizePerMsg = []uint64{0, 64, 1 << 20}[rng.Intn(3)]
	case "unapplied-conf-restart":
		c.Voters = []int{1, 3, 3}[rng.Intn(3)]
	case "transfer-laggard":
		c.Voters = []int{3, 5}[rng.Intn(2)]
		c.Learners = []int{0, 0, 1}[rng.Intn(3)]
	case "revote-after-restart":
		c.Voters = []int{3, 5, 5}[rng.Intn(3)]
	case "stale-snapshot":
		c.Voters = 3
		c.Storage = "mem" // RocksStorage has no catch-up window behind its newest snapshot
	case "removenode-replay":
		c.Voters = 1
	case "vote-after-term-bump":
		c.Voters = []int{3, 3, 5}[rng.Intn(3)]
		c.PreVote, c.CheckQuorum = true, true
	case "conf-behind-backlog":
		c.Voters = 3
		c.MaxSizePerMsg = []uint64{64, 64, 200}[rng.Intn(3)]
	case "snapshot-shrunk-conf":
		c.Voters = 5
	case "vote-for-new-voter-restart":
		c.Voters = 3
	}
	return c
}

type director struct {
	s    *Sim
	rng  *rand.Rand
	hook func(a *Action) // lets the crash enumeration arm ready cycles
}

const (
	vKeep = iota
	vDeliver
	vDrop
)

func (d *director) ready(id uint64) {
	a := act("ready", id)
	if d.hook != nil {
		d.hook(&a)
	}
	d.s.Do(a)
}

func (d *director) tick(id uint64, n int) {
	for i := 0; i < n && !d.s.Done(); i++ {
		d.s.Do(act("tick", id))
		d.ready(id)
	}
}

func (d *director) rounds(n int) {
	for i := 0; i < n && !d.s.Done(); i++ {
		d.s.Do(act("round", 0))
	}
}

// pump applies verdict to the in-flight messages in send order until nothing
// but kept messages is left; every delivery is followed by the receiver's
// cycle (and the sender's, for transport reports).
func (d *director) pump(verdict func(f *flight) int, budget int) {
	s := d.s
	for budget > 0 && !s.Done() {
		var f *flight
		v := vKeep
		for _, x := range s.net {
			if x.held {
				continue
			}
			if v = verdict(x); v != vKeep {
				f = x
				break
			}
		}
		if f == nil {
			return
		}
		budget--
		a := act("deliver", 0)
		if v == vDrop {
			a.Op = "drop"
		} else if d.rng.Intn(12) == 0 {
			// perturbation: the message arrives twice
			dup := act("dup", 0)
			dup.ID = f.id
			s.Do(dup)
			d.ready(f.m.To)
		}
		a.ID = f.id
		to, from := f.m.To, f.m.From
		s.Do(a)
		if v == vDeliver {
			d.ready(to)
		}
		if snd := s.rep(from); snd != nil && snd.alive && snd.pendingIn > 0 {
			d.ready(from)
		}
	}
}

func deliverAll(f *flight) int { return vDeliver }

func among(ids ...uint64) func(f *flight) bool {
	return func(f *flight) bool { return hasID(ids, f.m.From) && hasID(ids, f.m.To) }
}

func voteTraffic(t pb.MessageType) bool {
	return t == pb.MsgVote || t == pb.MsgVoteResp || t == pb.MsgPreVote || t == pb.MsgPreVoteResp
}

// elect steers x into leadership using only vote traffic between x and the
// replicas of set; everything else that involves set is dropped meanwhile
// except messages for which keep says true.
func (d *director) elect(x uint64, set []uint64, keep func(f *flight) bool) bool {
	s := d.s
	rx := s.rep(x)
	if rx == nil || !rx.alive {
		return false
	}
	if s.cfg.CheckQuorum {
		// let the leases run out: ElectionTick ticks without leader traffic
		for _, id := range set {
			if r := s.rep(id); r != nil && r.alive && id != x && r.role != raft.StateLeader {
				d.tick(id, s.cfg.ElectionTick)
			}
		}
		d.pump(func(f *flight) int {
			if keep != nil && keep(f) {
				return vKeep
			}
			return vDrop
		}, 400)
	}
	// a candidate with committed but unapplied conf changes refuses to campaign
	for k := 0; k < 60 && rx.alive && (rx.readyN == 0 || rx.app.applied < rx.hsCur.Commit) && !s.Done(); k++ {
		d.ready(x)
	}
	for try := 0; try < 4 && !s.Done(); try++ {
		if rx.role == raft.StateLeader {
			return true
		}
		s.Do(act("camp", x))
		d.ready(x)
		d.pump(func(f *flight) int {
			if keep != nil && keep(f) {
				return vKeep
			}
			if voteTraffic(f.m.Type) && (f.m.From == x || f.m.To == x) && hasID(set, f.m.From) && hasID(set, f.m.To) {
				return vDeliver
			}
			if rx.role == raft.StateLeader && f.m.From == x {
				return vKeep // the new leader's first appends: the caller decides
			}
			return vDrop
		}, 400)
	}
	return rx.alive && rx.role == raft.StateLeader
}

func (d *director) propose(id uint64, n int) {
	for i := 0; i < n && !d.s.Done(); i++ {
		a := act("prop", id)
		a.A = uint64(d.rng.Intn(40))
		d.s.Do(a)
		d.ready(id)
	}
}

func (d *director) lastIndex(id uint64) uint64 {
	r := d.s.rep(id)
	if r == nil || r.st == nil {
		return 0
	}
	li, _ := r.st.LastIndex()
	return li
}

func (d *director) tail(steps int) {
	names := []string{"lossy", "partition", "crash", "transfer", "quiet"}
	p := profiles[names[d.rng.Intn(len(names))]]
	p.Conf = 0
	randomSteps(d.s, d.rng, p, steps)
	finish(d.s)
}

func (d *director) reached(name string) {
	d.s.count("director_reached/"+name, 1)
	d.s.event("director reached %s", name)
}

func runDirector(name string, s *Sim, rng *rand.Rand) bool {
	d := &director{s: s, rng: rng}
	switch name {
	case "figure8":
		return d.figure8()
	case "deposed-leader":
		return d.deposedLeader()
	case "conf-both-sides":
		return d.confBothSides()
	case "snapshot-laggard":
		return d.snapshotLaggard()
	case "unapplied-conf-restart":
		return d.unappliedConfRestart()
	case "transfer-laggard":
		return d.transferLaggard()
	case "revote-after-restart":
		return d.revoteAfterRestart()
	case "stale-snapshot":
		return d.staleSnapshot()
	case "removenode-replay":
		return d.removeNodeReplay()
	case "vote-after-term-bump":
		return d.voteAfterTermBump()
	case "conf-behind-backlog":
		return d.confBehindBacklog()
	case "snapshot-shrunk-conf":
		return d.snapshotShrunkConf()
	case "vote-for-new-voter-restart":
		return d.voteForNewVoterRestart()
	}
	return false
}

// figure8 is the shape of figure 8 of the Raft paper: an old-term entry ends
// up on a majority while a newer-term entry sits on a minority leader. Five
// replicas, one entry per message, per-link and per-type delivery filters,
// crash/restart of the two rival leaders. No message is ever altered.
func (d *director) figure8() bool {
	s := d.s
	perm := d.rng.Perm(5)
	S := func(k int) uint64 { return uint64(perm[k-1] + 1) }
	all := []uint64{1, 2, 3, 4, 5}
	s1, s2, s3, s4, s5 := S(1), S(2), S(3), S(4), S(5)
	s.Do(act("pdone", 0))
	// (a) S1 leads; everybody holds the bootstrap entries and S1's empty entry
	if !d.elect(s1, all, nil) {
		d.tail(300)
		return true
	}
	d.pump(deliverAll, 600)
	d.rounds(2)
	d.propose(s1, d.rng.Intn(3))
	d.pump(deliverAll, 600)
	if s.Done() {
		return true
	}
	if l := s.leader(); l == nil || l.id != s1 {
		d.tail(300)
		return true
	}
	// (b) S1 appends X at index i and replicates it to S2 only, then crashes
	d.propose(s1, 1)
	i := d.lastIndex(s1)
	d.pump(func(f *flight) int {
		if (f.m.From == s1 && f.m.To == s2) || (f.m.From == s2 && f.m.To == s1) {
			return vDeliver
		}
		return vDrop
	}, 200)
	if s.Done() {
		return true
	}
	if d.lastIndex(s2) != i || d.lastIndex(s3) >= i {
		d.tail(300)
		return true
	}
	s.Do(act("crash", s1))
	// (c) S5 wins the next term with S3 and S4, appends its own entry at i,
	// replicates nothing and crashes
	if !d.elect(s5, []uint64{s3, s4, s5}, nil) {
		d.tail(300)
		return true
	}
	d.pump(func(f *flight) int { return vDrop }, 400)
	if d.lastIndex(s5) != i {
		d.tail(300)
		return true
	}
	s.Do(act("crash", s5))
	// (d) S1 comes back, wins a newer term with S2, S3 (S4), and brings entry i
	// (old term) to S3: it is now on a majority, but not of S1's current term
	ra := act("restart", s1)
	s.Do(ra)
	if !d.elect(s1, []uint64{s1, s2, s3, s4}, nil) {
		d.tail(300)
		return true
	}
	r3 := s.rep(s3)
	for k := 0; k < 6 && !s.Done(); k++ {
		d.pump(func(f *flight) int {
			m := &f.m
			switch {
			case m.From == s1 && m.To == s3:
				if m.Type == pb.MsgApp && len(m.Entries) > 0 {
					li, _ := r3.st.LastIndex()
					if m.Entries[len(m.Entries)-1].Index <= i || li < m.Index {
						return vDeliver // carries at most entry i, or will be rejected
					}
					return vDrop
				}
				return vDeliver
			case m.From == s3 && m.To == s1:
				return vDeliver
			case (m.From == s1 && m.To == s2) || (m.From == s2 && m.To == s1):
				// S2 may take S1's new-term entry too: i+1 then sits on two of
				// five replicas, entry i (old term) on three
				return vDeliver
			}
			return vDrop
		}, 300)
		if d.lastIndex(s3) >= i {
			break
		}
		d.tick(s1, 1) // heartbeat: resumes the probe of S3
	}
	// a few more leader ticks: on the unchanged tree nothing can commit i
	d.tick(s1, 1+d.rng.Intn(2))
	d.pump(func(f *flight) int {
		if f.m.Type == pb.MsgHeartbeat || f.m.Type == pb.MsgHeartbeatResp || f.m.Type == pb.MsgAppResp {
			if among(s1, s2, s3)(f) {
				return vDeliver
			}
		}
		return vDrop
	}, 200)
	if s.Done() {
		return true
	}
	if d.lastIndex(s3) == i && d.lastIndex(s2) >= i && s.rep(s1).alive {
		d.reached("figure8")
	}
	s.Do(act("crash", s1))
	// (e) S5 comes back and wins with S2, S3, S4: its entry at i is newer
	s.Do(act("restart", s5))
	if d.elect(s5, []uint64{s2, s3, s4, s5}, nil) {
		d.reached("figure8-second-leader")
	}
	d.rounds(12)
	s.Do(act("restart", s1))
	d.rounds(8)
	d.tail(200)
	return true
}

func (d *director) proloqueOK() bool {
	if !prologue(d.s, d.s.cfg.Learners) {
		return false
	}
	d.s.Do(act("pdone", 0))
	return true
}

// sideTicks advances only the replicas of ids by n ticks, delivering
// everything deliverable (the partition already removed cross traffic).
func (d *director) sideTicks(ids []uint64, n int) {
	for k := 0; k < n && !d.s.Done(); k++ {
		for _, id := range ids {
			if r := d.s.rep(id); r != nil && r.alive {
				d.s.Do(act("tick", id))
				d.ready(id)
			}
		}
		d.pump(deliverAll, 300)
	}
}

func (d *director) partition(sideOne []uint64) {
	a := act("part", 0)
	a.G = make([]int, maxIDs+1)
	for _, id := range sideOne {
		a.G[id] = 1
	}
	d.s.Do(a)
}

func (d *director) others(ex ...uint64) []uint64 {
	var out []uint64
	for _, r := range d.s.started() {
		if !hasID(ex, r.id) && !r.removed {
			out = append(out, r.id)
		}
	}
	return out
}

// deposedLeader: a leader cut off from the majority keeps acting as leader of
// its term (lease not yet expired on its own clock) while the majority elects
// a successor; both accept proposals; then the network heals.
func (d *director) deposedLeader() bool {
	s := d.s
	if !d.proloqueOK() {
		return false
	}
	if l0 := s.leader(); l0 != nil {
		d.propose(l0.id, 2+d.rng.Intn(4))
	}
	d.rounds(2)
	l := s.leader()
	if l == nil || s.Done() {
		d.tail(300)
		return true
	}
	old := l.id
	rest := d.others(old)
	d.partition([]uint64{old})
	// the old leader's clock runs slowly: it stays leader
	d.tick(old, d.rng.Intn(s.cfg.ElectionTick-2))
	d.propose(old, 1+d.rng.Intn(3))
	d.sideTicks(rest, 2*s.cfg.ElectionTick+d.rng.Intn(s.cfg.ElectionTick))
	for k := 0; k < 30 && !s.Done(); k++ {
		if nl := s.leader(); nl != nil && nl.id != old {
			break
		}
		d.sideTicks(rest, 2)
	}
	if s.Done() {
		return true
	}
	if nl := s.leader(); nl != nil && nl.id != old && s.rep(old).role == raft.StateLeader {
		d.reached("deposed-leader")
		d.propose(nl.id, 2+d.rng.Intn(3))
		d.propose(old, 1+d.rng.Intn(3))
		d.sideTicks(rest, 2)
		x := act("xfer", old)
		x.A, x.B = old, rest[d.rng.Intn(len(rest))]
		s.Do(x)
		d.ready(old)
	}
	s.Do(act("heal", 0))
	d.tick(old, 1)
	d.rounds(3 + d.rng.Intn(5))
	d.tail(400)
	return true
}

// confBothSides: the leader on the minority side of a partition appends a
// membership change it cannot commit while the majority side elects a leader
// and commits a different one.
func (d *director) confBothSides() bool {
	s := d.s
	if !d.proloqueOK() {
		return false
	}
	l := s.leader()
	if l == nil || s.Done() {
		return true
	}
	old := l.id
	all := d.others()
	var mate uint64
	for _, id := range all {
		if id != old {
			mate = id
			break
		}
	}
	minority := []uint64{old, mate}
	majority := d.others(minority...)
	d.partition(minority)
	c := act("conf", old)
	switch d.rng.Intn(3) {
	case 0:
		c.A, c.B = uint64(pb.ConfChangeRemoveNode), majority[0]
	case 1:
		c.A, c.B = uint64(pb.ConfChangeAddNode), s.nextID
	default:
		c.A, c.B = uint64(pb.ConfChangeAddLearnerNode), s.nextID
	}
	s.Do(c)
	d.ready(old)
	d.sideTicks(minority, 1+d.rng.Intn(5))
	d.sideTicks(majority, 2*s.cfg.ElectionTick+5)
	for k := 0; k < 30 && !s.Done(); k++ {
		if nl := s.leader(); nl != nil && hasID(majority, nl.id) {
			break
		}
		d.sideTicks(majority, 2)
	}
	if s.Done() {
		return true
	}
	if nl := s.leader(); nl != nil && hasID(majority, nl.id) {
		d.reached("conf-both-sides")
		c2 := act("conf", nl.id)
		switch d.rng.Intn(3) {
		case 0:
			c2.A, c2.B = uint64(pb.ConfChangeRemoveNode), mate
		case 1:
			c2.A, c2.B = uint64(pb.ConfChangeAddNode), s.nextID
		default:
			c2.A, c2.B = uint64(pb.ConfChangeAddLearnerNode), s.nextID
		}
		s.Do(c2)
		d.ready(nl.id)
		d.sideTicks(majority, 3)
		d.propose(nl.id, 2)
		d.sideTicks(majority, 2)
	}
	d.propose(old, 1)
	s.Do(act("heal", 0))
	d.rounds(5 + d.rng.Intn(10))
	d.tail(400)
	return true
}

// snapshotLaggard: a cut-off follower falls behind the compaction point; the
// snapshot sent to it is delayed across a leader change and arrives together
// with the traffic of the new leader.
func (d *director) snapshotLaggard() bool {
	s := d.s
	if !d.proloqueOK() {
		return false
	}
	l := s.leader()
	if l == nil || s.Done() {
		return true
	}
	var lag uint64
	for _, id := range d.others(l.id) {
		lag = id
	}
	rest := d.others(lag)
	d.partition([]uint64{lag})
	for k := 0; k < 4+d.rng.Intn(6) && !s.Done(); k++ {
		if cl := s.leader(); cl != nil {
			d.propose(cl.id, 2+d.rng.Intn(4))
		}
		d.sideTicks(rest, 1)
	}
	for _, id := range rest {
		a := act("snap", id)
		a.A = uint64(d.rng.Intn(2))
		s.Do(a)
	}
	if d.rng.Intn(2) == 0 {
		b := act("busy", lag)
		b.A = 1
		s.Do(b)
	}
	s.Do(act("heal", 0))
	l = s.leader()
	if l == nil || s.Done() {
		d.tail(300)
		return true
	}
	// leader probes the laggard, gets rejected, falls back to MsgSnap; hold it
	held := 0
	for k := 0; k < 8 && held == 0 && !s.Done(); k++ {
		d.tick(l.id, 1)
		d.pump(func(f *flight) int {
			if f.m.Type == pb.MsgSnap {
				return vKeep
			}
			return vDeliver
		}, 300)
		for _, f := range s.net {
			if f.m.Type == pb.MsgSnap && !f.held {
				h := act("hold", 0)
				h.ID = f.id
				s.Do(h)
				held++
			}
		}
	}
	if held > 0 {
		d.reached("snapshot-laggard")
	}
	// leader change while the snapshot is in flight
	var target uint64
	for _, id := range rest {
		if id != l.id {
			target = id
		}
	}
	switch d.rng.Intn(3) {
	case 0:
		x := act("xfer", l.id)
		x.A, x.B = l.id, target
		s.Do(x)
		d.ready(l.id)
		d.pump(deliverAll, 300)
	case 1:
		s.Do(act("crash", l.id))
		d.sideTicks(d.others(l.id), 2*s.cfg.ElectionTick+5)
	default:
		d.elect(target, d.others(), func(f *flight) bool { return f.m.Type == pb.MsgSnap })
	}
	if nl := s.leader(); nl != nil {
		d.propose(nl.id, 2)
		if d.rng.Intn(2) == 0 {
			a := act("snap", nl.id)
			s.Do(a)
		}
		d.tick(nl.id, 2)
	}
	b := act("busy", lag)
	s.Do(b)
	s.Do(act("release", 0))
	d.pump(deliverAll, 600)
	d.rounds(4)
	for _, r := range s.started() {
		if !r.alive && !r.removed {
			s.Do(act("restart", r.id))
		}
	}
	d.tail(400)
	return true
}

// unappliedConfRestart: a replica persists a commit index that covers a conf
// change it has not been handed yet (apply backlog), crashes, restarts and is
// pushed to campaign at once.
func (d *director) unappliedConfRestart() bool {
	s := d.s
	if !d.proloqueOK() {
		return false
	}
	l := s.leader()
	if l == nil || s.Done() {
		return true
	}
	x := l.id
	if o := d.others(l.id); len(o) > 0 && d.rng.Intn(3) != 0 {
		x = o[d.rng.Intn(len(o))]
	}
	na := act("noapply", x)
	na.A = 1
	s.Do(na)
	d.propose(l.id, 1+d.rng.Intn(3))
	c := act("conf", l.id)
	if d.rng.Intn(2) == 0 {
		c.A = uint64(pb.ConfChangeAddLearnerNode)
	} else {
		c.A = uint64(pb.ConfChangeAddNode)
	}
	c.B = s.nextID
	s.Do(c)
	d.ready(l.id)
	d.rounds(3)
	d.propose(l.id, 1+d.rng.Intn(3))
	d.rounds(2)
	rx := s.rep(x)
	if s.Done() || !rx.alive {
		d.tail(300)
		return true
	}
	if rx.hsCur.Commit > rx.app.applied {
		d.reached("unapplied-conf-restart")
	}
	cr := act("ready", x)
	switch d.rng.Intn(3) {
	case 0:
		s.Do(act("crash", x))
	default:
		s.Do(act("tick", x))
		cr.P = 3 + d.rng.Intn(4)
		cr.M = d.rng.Uint64()
		s.Do(cr)
		if rx.alive {
			s.Do(act("crash", x))
		}
	}
	if d.rng.Intn(2) == 0 {
		d.partition([]uint64{x})
	}
	ra := act("restart", x)
	ra.A = uint64(d.rng.Intn(2))
	s.Do(ra)
	s.Do(act("camp", x))
	d.ready(x)
	s.Do(act("camp", x))
	d.tick(x, 2*s.cfg.ElectionTick)
	d.pump(deliverAll, 300)
	s.Do(act("heal", 0))
	d.rounds(6)
	d.tail(300)
	return true
}

// transferLaggard: leadership is transferred to a replica that is far behind
// (possibly behind the compaction point); proposals meanwhile are dropped, the
// MsgTimeoutNow may be delayed or duplicated, the old leader may crash.
func (d *director) transferLaggard() bool {
	s := d.s
	if !d.proloqueOK() {
		return false
	}
	l := s.leader()
	if l == nil || s.Done() {
		return true
	}
	var voters []uint64
	for _, id := range d.others(l.id) {
		if !s.rep(id).learner {
			voters = append(voters, id)
		}
	}
	if len(voters) == 0 {
		d.tail(300)
		return true
	}
	tgt := voters[d.rng.Intn(len(voters))]
	rest := d.others(tgt)
	d.partition([]uint64{tgt})
	for k := 0; k < 3+d.rng.Intn(6) && !s.Done(); k++ {
		if cl := s.leader(); cl != nil {
			d.propose(cl.id, 2+d.rng.Intn(4))
		}
		d.sideTicks(rest, 1)
	}
	l = s.leader()
	if l == nil || s.Done() {
		d.tail(300)
		return true
	}
	if d.rng.Intn(3) == 0 {
		a := act("snap", l.id)
		s.Do(a)
	}
	s.Do(act("heal", 0))
	x := act("xfer", l.id)
	if d.rng.Intn(4) == 0 {
		x.N = tgt // the request enters at the target and is forwarded
	}
	x.A, x.B = l.id, tgt
	s.Do(x)
	d.ready(x.N)
	d.reached("transfer-laggard")
	d.propose(l.id, 1+d.rng.Intn(2)) // dropped while the transfer is in progress
	mode := d.rng.Intn(4)
	for k := 0; k < 12 && !s.Done(); k++ {
		d.pump(func(f *flight) int {
			if f.m.Type == pb.MsgTimeoutNow {
				switch mode {
				case 0:
					return vKeep // delayed: arrives after the transfer was given up
				case 1:
					return vDrop
				}
			}
			return vDeliver
		}, 300)
		if mode == 0 {
			for _, f := range s.net {
				if f.m.Type == pb.MsgTimeoutNow && !f.held {
					h := act("hold", 0)
					h.ID = f.id
					s.Do(h)
				}
			}
		}
		if k == 3 && mode == 2 && s.rep(l.id).alive {
			s.Do(act("crash", l.id))
		}
		for _, r := range s.alive() {
			d.s.Do(act("tick", r.id))
			d.ready(r.id)
		}
	}
	d.rounds(2*s.cfg.ElectionTick + 2)
	s.Do(act("release", 0)) // the delayed MsgTimeoutNow
	d.pump(deliverAll, 300)
	d.rounds(3)
	for _, r := range s.started() {
		if !r.alive && !r.removed {
			s.Do(act("restart", r.id))
		}
	}
	d.tail(300)
	return true
}

// revoteAfterRestart: two candidates of the same term; the voters grant the
// first one, crash (some inside the granting Ready after the hard state was
// persisted), restart from storage and are then asked by the second one.
func (d *director) revoteAfterRestart() bool {
	s := d.s
	if !d.proloqueOK() {
		return false
	}
	l := s.leader()
	if l == nil || s.Done() {
		return true
	}
	d.propose(l.id, 1+d.rng.Intn(3))
	d.rounds(2)
	if l = s.leader(); l == nil || s.Done() {
		d.tail(200)
		return true
	}
	s.Do(act("crash", l.id))
	rest := d.others(l.id)
	d.rng.Shuffle(len(rest), func(i, j int) { rest[i], rest[j] = rest[j], rest[i] })
	a, b := rest[0], rest[1]
	voters := rest[2:]
	if s.cfg.CheckQuorum {
		for _, id := range rest {
			d.tick(id, s.cfg.ElectionTick)
		}
	}
	d.pump(func(f *flight) int { return vDrop }, 400)
	ra, rb := s.rep(a), s.rep(b)
	for try := 0; try < 3 && !s.Done(); try++ {
		if ra.role != raft.StateCandidate {
			s.Do(act("camp", a))
			d.ready(a)
		}
		if rb.role != raft.StateCandidate {
			s.Do(act("camp", b))
			d.ready(b)
		}
		// pre-vote traffic flows freely, real vote requests wait
		d.pump(func(f *flight) int {
			switch f.m.Type {
			case pb.MsgPreVote, pb.MsgPreVoteResp:
				return vDeliver
			case pb.MsgVote:
				return vKeep
			}
			return vDrop
		}, 400)
		if ra.role == raft.StateCandidate && rb.role == raft.StateCandidate {
			break
		}
	}
	if s.Done() {
		return true
	}
	if ra.role != raft.StateCandidate || rb.role != raft.StateCandidate || ra.term != rb.term {
		d.pump(deliverAll, 300)
		d.tail(300)
		return true
	}
	d.reached("revote-two-candidates")
	if len(voters) == 0 {
		// 3 replicas: the second candidate itself restarts and is asked by the first
		voters = []uint64{b}
	}
	// first candidate's requests reach the voters; a voter may crash inside
	// the granting Ready once the vote is persisted (p3, p4) or half sent (p5)
	for _, v := range voters {
		for _, f := range s.net {
			if f.m.Type == pb.MsgVote && f.m.From == a && f.m.To == v && v != b {
				dl := act("deliver", 0)
				dl.ID = f.id
				s.Do(dl)
				r := act("ready", v)
				if d.rng.Intn(2) == 0 {
					r.P = 3 + d.rng.Intn(3)
					r.M = d.rng.Uint64()
				}
				s.Do(r)
				break
			}
		}
	}
	if d.rng.Intn(2) == 0 {
		// the grants reach the first candidate: it may already lead this term
		d.pump(func(f *flight) int {
			if f.m.Type == pb.MsgVoteResp && f.m.To == a {
				return vDeliver
			}
			return vKeep
		}, 100)
	}
	for _, v := range voters {
		if s.rep(v).alive {
			s.Do(act("crash", v))
		}
		ra := act("restart", v)
		ra.A = uint64(d.rng.Intn(2))
		s.Do(ra)
		d.ready(v)
	}
	// now the other candidate's requests of the same term arrive
	from := b
	if voters[0] == b {
		from = a
	}
	d.pump(func(f *flight) int {
		if f.m.Type == pb.MsgVote && f.m.From == from {
			return vDeliver
		}
		if f.m.Type == pb.MsgVoteResp && f.m.To == from {
			return vDeliver
		}
		return vKeep
	}, 200)
	d.pump(deliverAll, 400)
	s.Do(act("restart", l.id))
	d.rounds(5)
	d.tail(300)
	return true
}

// staleSnapshot: a snapshot sent to a follower is given up by the sender's
// transport but still arrives much later, when the follower has long caught
// up by appends and holds committed entries beyond the snapshot that it has
// not applied yet (apply backlog); the third replica misses those entries and
// the leader crashes.
func (d *director) staleSnapshot() bool {
	s := d.s
	if !d.proloqueOK() {
		return false
	}
	l := s.leader()
	if l == nil || s.Done() {
		return true
	}
	o := d.others(l.id)
	f, x := o[0], o[1]
	if d.rng.Intn(2) == 0 {
		f, x = x, f
	}
	L := l.id
	stillLeader := func() bool { cl := s.leader(); return cl != nil && cl.id == L && !s.Done() }
	// F falls behind the compaction point
	d.partition([]uint64{f})
	for k := 0; k < 3 && stillLeader(); k++ {
		d.propose(L, 2+d.rng.Intn(3))
		d.sideTicks([]uint64{L, x}, 1)
	}
	if !stillLeader() {
		d.tail(300)
		return true
	}
	s.Do(act("snap", L))
	s.Do(act("heal", 0))
	findSnap := func() *flight {
		for _, fl := range s.net {
			if fl.m.Type == pb.MsgSnap && fl.m.To == f && !fl.held {
				return fl
			}
		}
		return nil
	}
	noSnap := func(fl *flight) int {
		if fl.m.Type == pb.MsgSnap {
			return vKeep
		}
		return vDeliver
	}
	hold := func(fl *flight) {
		h := act("hold", 0)
		h.ID = fl.id
		s.Do(h)
	}
	var m1 *flight
	for k := 0; k < 8 && m1 == nil && stillLeader(); k++ {
		d.tick(L, 1)
		d.pump(noSnap, 200)
		m1 = findSnap()
	}
	if m1 == nil || !stillLeader() {
		d.pump(deliverAll, 300)
		d.tail(300)
		return true
	}
	hold(m1)
	// more entries commit with X; the leader's newest snapshot moves on while
	// its log still reaches back to the first snapshot
	d.propose(L, 3+d.rng.Intn(3))
	d.sideTicks([]uint64{L, x}, 2)
	sn := act("snap", L)
	sn.A = 1000
	s.Do(sn)
	// sender-side timeout of the first snapshot: the leader sends its newest one
	sf := act("snapfail", 0)
	sf.ID = m1.id
	s.Do(sf)
	d.ready(L)
	var m2 *flight
	for k := 0; k < 8 && m2 == nil && stillLeader(); k++ {
		d.tick(L, 1)
		d.pump(noSnap, 200)
		m2 = findSnap()
	}
	if m2 == nil || !stillLeader() {
		s.Do(act("release", 0))
		d.pump(deliverAll, 300)
		d.tail(300)
		return true
	}
	hold(m2)
	// the first snapshot arrives after all; the second is given up as well, so
	// the leader goes on with appends; F's applier falls behind from here on
	na := act("noapply", f)
	na.A = 1
	s.Do(na)
	rl := act("release", 0)
	rl.ID = m1.id
	s.Do(rl)
	dl := act("deliver", 0)
	dl.ID = m1.id
	s.Do(dl)
	d.ready(f)
	d.pump(noSnap, 200)
	sf2 := act("snapfail", 0)
	sf2.ID = m2.id
	s.Do(sf2)
	d.ready(L)
	// X is cut off; L and F commit entries that X never sees; F does not get
	// to apply them (backlog)
	d.partition([]uint64{x})
	for k := 0; k < 6 && stillLeader(); k++ {
		d.sideTicks([]uint64{L, f}, 1)
		if k == 2 {
			d.propose(L, 2+d.rng.Intn(3))
		}
	}
	rf := s.rep(f)
	if s.Done() {
		return true
	}
	if rf.alive && rf.hsCur.Commit > m2.m.Snapshot.Metadata.Index && rf.app.applied < m2.m.Snapshot.Metadata.Index {
		d.reached("stale-snapshot")
	}
	// the stale second snapshot finally arrives at F
	rl2 := act("release", 0)
	rl2.ID = m2.id
	s.Do(rl2)
	dl2 := act("deliver", 0)
	dl2.ID = m2.id
	s.Do(dl2)
	d.ready(f)
	d.pump(func(fl *flight) int { return vDrop }, 100)
	// the leader crashes; F and X are on their own
	if r := s.rep(L); r.alive {
		s.Do(act("crash", L))
	}
	s.Do(act("heal", 0))
	na2 := act("noapply", f)
	s.Do(na2)
	d.sideTicks([]uint64{f, x}, 3*s.cfg.ElectionTick)
	if nl := s.leader(); nl != nil {
		d.propose(nl.id, 2)
		d.sideTicks([]uint64{f, x}, 3)
	}
	s.Do(act("restart", L))
	d.rounds(8)
	d.tail(200)
	return true
}

// confWait proposes one conf change at the leader and runs fair rounds until
// every live replica that knows a configuration has applied it.
func (d *director) confWait(t pb.ConfChangeType, target uint64) bool {
	s := d.s
	for try := 0; try < 5 && !s.Done(); try++ {
		l := s.leader()
		if l == nil {
			d.rounds(3)
			continue
		}
		a := act("conf", l.id)
		a.A, a.B = uint64(t), target
		s.Do(a)
		for k := 0; k < 40 && !s.Done(); k++ {
			d.rounds(1)
			if cl := s.leader(); cl != nil {
				has := hasID(cl.app.conf.Nodes, target) || hasID(cl.app.conf.Learners, target)
				want := t != pb.ConfChangeRemoveNode
				if t == pb.ConfChangeAddNode {
					has = hasID(cl.app.conf.Nodes, target)
				}
				if has == want {
					d.rounds(2)
					return true
				}
			}
		}
	}
	return false
}

// removeNodeReplay: a group that started with a single voter takes a
// snapshot, removes a learner, grows to three voters; the first replica is
// cut off as leader with an unreplicated tail, crashes, the others move on,
// and it restarts: it replays the RemoveNode entry while its configuration
// (from the snapshot) is still "single voter".
func (d *director) removeNodeReplay() bool {
	s := d.s
	if !d.proloqueOK() {
		return false
	}
	first := uint64(1)
	if !d.confWait(pb.ConfChangeAddLearnerNode, 2) {
		d.tail(200)
		return true
	}
	d.propose(first, 1+d.rng.Intn(3))
	d.rounds(2)
	s.Do(act("snap", first)) // snapshot configuration: voters [1], learners [2]
	if !d.confWait(pb.ConfChangeRemoveNode, 2) || !d.confWait(pb.ConfChangeAddNode, 3) || !d.confWait(pb.ConfChangeAddNode, 4) {
		d.tail(200)
		return true
	}
	l := s.leader()
	if l == nil || l.id != first || s.Done() {
		d.tail(200)
		return true
	}
	d.propose(first, 1+d.rng.Intn(3))
	d.rounds(2)
	// the old leader is cut off and keeps appending
	d.partition([]uint64{first})
	d.propose(first, 2+d.rng.Intn(3))
	if s.Done() || !s.rep(first).alive || s.rep(first).role != raft.StateLeader {
		d.tail(200)
		return true
	}
	s.Do(act("crash", first))
	rest := []uint64{3, 4}
	d.sideTicks(rest, 2*s.cfg.ElectionTick+5)
	for k := 0; k < 30 && s.leader() == nil && !s.Done(); k++ {
		d.sideTicks(rest, 2)
	}
	if nl := s.leader(); nl != nil {
		d.propose(nl.id, 3+d.rng.Intn(3))
		d.sideTicks(rest, 3)
		d.reached("removenode-replay")
	}
	// restart from the snapshot: voters [1], learners [2]; replay RemoveNode 2
	s.Do(act("restart", first))
	for k := 0; k < 6 && !s.Done(); k++ {
		d.ready(first)
	}
	s.Do(act("heal", 0))
	d.rounds(10)
	d.tail(200)
	return true
}

// voteAfterTermBump separates the term bump and the vote of a replica into two
// Readys: the old leader learns the new term from a higher-term MsgAppResp
// (follower of T+1, Vote=None, persisted), only then the delayed MsgVote of
// the first candidate arrives (only Vote changes), the voter crashes and
// restarts, and the delayed MsgVote of the second candidate of the same term
// arrives. PreVote + CheckQuorum (the production setting).
func (d *director) voteAfterTermBump() bool {
	s := d.s
	if !d.proloqueOK() {
		return false
	}
	l := s.leader()
	if l == nil || s.Done() {
		return true
	}
	d.propose(l.id, d.rng.Intn(3))
	d.rounds(3)
	if l = s.leader(); l == nil || s.Done() {
		d.tail(200)
		return true
	}
	L := l.id
	rest := d.others(L)
	d.rng.Shuffle(len(rest), func(i, j int) { rest[i], rest[j] = rest[j], rest[i] })
	a, b := rest[0], rest[1]
	ra, rb, rl := s.rep(a), s.rep(b), s.rep(L)
	// the leader's clock stands still (it is cut off: nothing it sends arrives);
	// the others' leases run out
	for _, id := range rest {
		d.tick(id, s.cfg.ElectionTick)
	}
	d.pump(func(f *flight) int { return vDrop }, 400)
	for try := 0; try < 3 && !s.Done(); try++ {
		if ra.role != raft.StateCandidate {
			s.Do(act("camp", a))
			d.ready(a)
		}
		if rb.role != raft.StateCandidate {
			s.Do(act("camp", b))
			d.ready(b)
		}
		d.pump(func(f *flight) int {
			switch f.m.Type {
			case pb.MsgPreVote, pb.MsgPreVoteResp:
				if f.m.To == L || f.m.From == L {
					return vDrop
				}
				return vDeliver
			case pb.MsgVote:
				return vKeep
			}
			return vDrop
		}, 400)
		if ra.role == raft.StateCandidate && rb.role == raft.StateCandidate {
			break
		}
	}
	if s.Done() {
		return true
	}
	if ra.role != raft.StateCandidate || rb.role != raft.StateCandidate || ra.term != rb.term || rl.role != raft.StateLeader || rl.term+1 != ra.term {
		d.pump(deliverAll, 300)
		d.tail(300)
		return true
	}
	// the vote requests for the old leader are delayed; the rest is lost
	var va, vb int
	for _, f := range s.net {
		if f.m.Type == pb.MsgVote && f.m.To == L {
			h := act("hold", 0)
			h.ID = f.id
			s.Do(h)
			if f.m.From == a {
				va = f.id
			} else if f.m.From == b {
				vb = f.id
			}
		}
	}
	d.pump(func(f *flight) int { return vDrop }, 200)
	if va == 0 || vb == 0 {
		s.Do(act("release", 0))
		d.pump(deliverAll, 300)
		d.tail(300)
		return true
	}
	// a heartbeat of the old leader reaches candidate A; A's answer carries the
	// new term and makes the old leader a follower of T+1 with Vote=None
	d.tick(L, 1)
	d.pump(func(f *flight) int {
		if (f.m.From == L && f.m.To == a) || (f.m.From == a && f.m.To == L) {
			return vDeliver
		}
		return vDrop
	}, 50)
	if s.Done() {
		return true
	}
	if rl.role != raft.StateFollower || rl.term != ra.term || rl.hsCur.Vote != 0 {
		s.Do(act("release", 0))
		d.pump(deliverAll, 300)
		d.tail(300)
		return true
	}
	d.reached("vote-after-term-bump")
	// now, in a batch of its own, the delayed MsgVote of A: only Vote changes
	deliverHeld := func(id int) {
		rl := act("release", 0)
		rl.ID = id
		s.Do(rl)
		dl := act("deliver", 0)
		dl.ID = id
		s.Do(dl)
	}
	deliverHeld(va)
	rd := act("ready", L)
	mode := d.rng.Intn(3)
	if mode == 1 {
		rd.P, rd.M = 6, ^uint64(0) // everything sent, crash before Advance
	}
	s.Do(rd)
	if mode != 2 {
		// A may win with this vote
		d.pump(func(f *flight) int {
			if f.m.Type == pb.MsgVoteResp && f.m.To == a {
				return vDeliver
			}
			return vKeep
		}, 50)
	}
	if rl.alive {
		s.Do(act("crash", L))
	}
	rs := act("restart", L)
	rs.A = uint64(d.rng.Intn(2))
	s.Do(rs)
	d.ready(L)
	// the second candidate of the same term asks the restarted voter
	deliverHeld(vb)
	d.ready(L)
	d.pump(func(f *flight) int {
		if f.m.Type == pb.MsgVoteResp {
			return vDeliver
		}
		return vKeep
	}, 50)
	d.pump(deliverAll, 400)
	d.rounds(5)
	d.tail(250)
	return true
}

// confBehindBacklog: a replica with a busy state machine (StepNode with
// moreEntriesToApply=false) holds two committed membership changes behind
// more than MaxSizePerMsg bytes of committed, unapplied entries: it still
// runs the two-changes-old configuration while the leader already commits
// alone. Its election timer fires next to an equally stale, cut-off replica.
func (d *director) confBehindBacklog() bool {
	s := d.s
	if !d.proloqueOK() {
		return false
	}
	l := s.leader()
	if l == nil || s.Done() {
		return true
	}
	d.rounds(3)
	if l = s.leader(); l == nil || s.Done() {
		d.tail(200)
		return true
	}
	L := l.id
	o := d.others(L)
	p, slow := o[0], o[1]
	if d.rng.Intn(2) == 0 {
		p, slow = slow, p
	}
	rs := s.rep(slow)
	stillLeader := func() bool { cl := s.leader(); return cl != nil && cl.id == L && !s.Done() }
	d.partition([]uint64{p})
	na := act("noapply", slow)
	na.A = 1
	s.Do(na)
	both := []uint64{L, slow}
	// a backlog of ordinary entries, larger than MaxSizePerMsg
	for k := 0; k < 6+d.rng.Intn(5) && stillLeader(); k++ {
		a := act("prop", L)
		a.A = uint64(30 + d.rng.Intn(40))
		s.Do(a)
		d.ready(L)
	}
	d.pump(deliverAll, 400)
	d.sideTicks(both, 1)
	// two successive removals shrink the group to the leader alone
	for _, victim := range []uint64{p, slow} {
		if !stillLeader() {
			break
		}
		c := act("conf", L)
		c.A, c.B = uint64(pb.ConfChangeRemoveNode), victim
		s.Do(c)
		d.ready(L)
		d.pump(deliverAll, 400)
		d.sideTicks(both, 1)
	}
	if !stillLeader() || len(l.app.conf.Nodes) != 1 || !rs.alive {
		s.Do(act("heal", 0))
		un := act("noapply", slow)
		s.Do(un)
		d.rounds(5)
		d.tail(250)
		return true
	}
	// the leader goes on alone
	d.propose(L, 2+d.rng.Intn(3))
	d.tick(L, 2)
	if rs.hsCur.Commit > rs.app.applied {
		d.reached("conf-behind-backlog")
	}
	// the two stale replicas can talk to each other but not to the leader;
	// their clocks run: leases expire, election timers fire
	d.partition([]uint64{L})
	stale := []uint64{slow, p}
	pBusy := d.rng.Intn(3) != 0
	if pBusy {
		// the cut-off replica's applier is busy as well: it persists and
		// acknowledges, but does not get to apply its own removal yet
		nb := act("noapply", p)
		nb.A = 1
		s.Do(nb)
	}
	d.sideTicks(stale, 4*s.cfg.ElectionTick+d.rng.Intn(s.cfg.ElectionTick))
	if nl := s.leader(); nl != nil && nl.id != L {
		d.propose(nl.id, 1+d.rng.Intn(2))
		d.sideTicks(stale, 3)
	}
	d.propose(L, 1)
	d.tick(L, 1)
	un := act("noapply", slow)
	s.Do(un)
	if pBusy {
		s.Do(act("noapply", p))
	}
	s.Do(act("heal", 0))
	d.rounds(8)
	d.tail(250)
	return true
}

// snapshotShrunkConf: two voters are removed one after the other while a third
// voter is cut off; the removed replicas keep running (busy appliers); the
// leader compacts, so the laggard catches up by a MsgSnap that carries the
// shrunk configuration; then the restored replica and a real member campaign.
func (d *director) snapshotShrunkConf() bool {
	s := d.s
	if !d.proloqueOK() {
		return false
	}
	l := s.leader()
	if l == nil || s.Done() {
		return true
	}
	d.rounds(3)
	if l = s.leader(); l == nil || s.Done() {
		d.tail(200)
		return true
	}
	L := l.id
	o := d.others(L)
	d.rng.Shuffle(len(o), func(i, j int) { o[i], o[j] = o[j], o[i] })
	lag, ra, rb, c := o[0], o[1], o[2], o[3]
	d.partition([]uint64{lag})
	for _, id := range []uint64{ra, rb} {
		// the replicas that are about to be removed do not get to apply it
		na := act("noapply", id)
		na.A = 1
		s.Do(na)
	}
	d.propose(L, 2+d.rng.Intn(3))
	d.rounds(2)
	for _, victim := range []uint64{ra, rb} {
		if !d.confWait(pb.ConfChangeRemoveNode, victim) {
			s.Do(act("heal", 0))
			d.tail(300)
			return true
		}
	}
	if cl := s.leader(); cl == nil || cl.id != L || s.Done() {
		s.Do(act("heal", 0))
		d.tail(300)
		return true
	}
	d.propose(L, 2)
	d.rounds(2)
	s.Do(act("snap", L))
	s.Do(act("snap", c))
	s.Do(act("heal", 0))
	rl := s.rep(lag)
	for k := 0; k < 12 && rl.alive && !rl.confFromSnap && !s.Done(); k++ {
		d.rounds(1)
	}
	if s.Done() {
		return true
	}
	if rl.confFromSnap && len(rl.app.conf.Nodes) == 3 {
		d.reached("snapshot-shrunk-conf")
	}
	// the old leader goes away; leases run out everywhere, removed replicas included
	mode := d.rng.Intn(2)
	if mode == 0 {
		s.Do(act("crash", L))
	} else {
		d.partition([]uint64{L})
	}
	for _, id := range []uint64{lag, c, ra, rb} {
		d.tick(id, s.cfg.ElectionTick)
	}
	d.pump(func(f *flight) int { return vDrop }, 400)
	// the restored replica and a real member campaign
	s.Do(act("camp", lag))
	d.ready(lag)
	s.Do(act("camp", c))
	d.ready(c)
	d.pump(func(f *flight) int {
		if voteTraffic(f.m.Type) {
			return vDeliver
		}
		return vDrop
	}, 400)
	s.Do(act("heal", 0))
	if mode == 0 {
		s.Do(act("restart", L))
	}
	d.rounds(2 * s.cfg.ElectionTick)
	for _, id := range []uint64{ra, rb} {
		s.Do(act("noapply", id))
	}
	d.rounds(5)
	d.tail(250)
	return true
}

// voteForNewVoterRestart: every replica snapshots, then voter X is added; the
// leader goes away; X and an old voter Y become candidates of the same term; the
// remaining voter V grants X (persisted and answered), crashes, restarts from
// its snapshot (which does not list X yet) and is asked by Y.
func (d *director) voteForNewVoterRestart() bool {
	s := d.s
	if !d.proloqueOK() {
		return false
	}
	l := s.leader()
	if l == nil || s.Done() {
		return true
	}
	d.propose(l.id, 1+d.rng.Intn(3))
	d.rounds(3)
	for _, r := range s.alive() {
		s.Do(act("snap", r.id))
	}
	x := s.nextID
	if !d.confWait(pb.ConfChangeAddNode, x) {
		d.tail(300)
		return true
	}
	d.propose(s.leader().id, 1)
	d.rounds(4)
	if l = s.leader(); l == nil || s.Done() || !s.rep(x).alive || !hasID(s.rep(x).app.conf.Nodes, x) {
		d.tail(300)
		return true
	}
	L := l.id
	o := d.others(L, x)
	if len(o) < 2 {
		d.tail(300)
		return true
	}
	y, v := o[0], o[1]
	if d.rng.Intn(2) == 0 {
		y, v = v, y
	}
	s.Do(act("crash", L))
	for _, id := range []uint64{x, y, v} {
		if s.cfg.CheckQuorum {
			d.tick(id, s.cfg.ElectionTick)
		}
	}
	d.pump(func(f *flight) int { return vDrop }, 400)
	rx, ry, rv := s.rep(x), s.rep(y), s.rep(v)
	for try := 0; try < 3 && !s.Done(); try++ {
		if rx.role != raft.StateCandidate {
			s.Do(act("camp", x))
			d.ready(x)
		}
		if ry.role != raft.StateCandidate {
			s.Do(act("camp", y))
			d.ready(y)
		}
		d.pump(func(f *flight) int {
			switch f.m.Type {
			case pb.MsgPreVote, pb.MsgPreVoteResp:
				return vDeliver
			case pb.MsgVote:
				return vKeep
			}
			return vDrop
		}, 400)
		if rx.role == raft.StateCandidate && ry.role == raft.StateCandidate {
			break
		}
	}
	if s.Done() {
		return true
	}
	if rx.role != raft.StateCandidate || ry.role != raft.StateCandidate || rx.term != ry.term {
		d.pump(deliverAll, 300)
		s.Do(act("restart", L))
		d.tail(300)
		return true
	}
	d.reached("vote-for-new-voter-restart")
	find := func(from uint64) int {
		for _, f := range s.net {
			if f.m.Type == pb.MsgVote && f.m.From == from && f.m.To == v {
				return f.id
			}
		}
		return 0
	}
	if id := find(x); id != 0 {
		dl := act("deliver", 0)
		dl.ID = id
		s.Do(dl)
		d.ready(v)
	}
	if d.rng.Intn(2) == 0 {
		d.pump(func(f *flight) int {
			if f.m.Type == pb.MsgVoteResp && f.m.To == x {
				return vDeliver
			}
			return vKeep
		}, 50)
	}
	if rv.alive {
		s.Do(act("crash", v))
	}
	rs := act("restart", v)
	rs.A = uint64(d.rng.Intn(2))
	s.Do(rs)
	d.ready(v)
	if id := find(y); id != 0 {
		dl := act("deliver", 0)
		dl.ID = id
		s.Do(dl)
		d.ready(v)
	}
	d.pump(func(f *flight) int {
		if f.m.Type == pb.MsgVoteResp {
			return vDeliver
		}
		return vKeep
	}, 50)
	d.pump(deliverAll, 400)
	s.Do(act("restart", L))
	d.rounds(5)
	d.tail(250)
	return true
}
