package raftsim

import (
	"math"
	"math/rand"

	pb "github.com/youzan/ZanRedisDB/raft/raftpb"
)

// Profile is a fault mix: weights of the action menu of the random scheduler.
type Profile struct {
	Name       string
	Tick       float64
	Deliver    float64
	Ready      float64
	Drop       float64
	Dup        float64
	Hold       float64
	Release    float64
	Part       float64
	Heal       float64
	Prop       float64
	Conf       float64
	Xfer       float64
	Camp       float64
	Snap       float64
	Crash      float64 // clean crash between two Readies
	Restart    float64
	Busy       float64
	NoApply    float64
	CrashReady float64 // probability that a generated ready cycle crashes at p0..p6
	Reorder    float64 // probability that deliver picks a random instead of an old message
	Immediate  float64 // probability that an input is followed by the receiver's cycle
}

var profiles = map[string]Profile{
	"quiet": {Name: "quiet", Tick: 16, Deliver: 60, Ready: 6, Prop: 10, Snap: 0.6, Camp: 0.05, Reorder: 0.05, Immediate: 0.85,
		Drop: 0.2, Dup: 0.2, Restart: 1},
	"lossy": {Name: "lossy", Tick: 16, Deliver: 55, Ready: 8, Drop: 7, Dup: 5, Hold: 3, Release: 1.5, Prop: 9, Snap: 0.8, Camp: 0.2,
		Part: 0.05, Heal: 0.2, Crash: 0.05, Restart: 1, Xfer: 0.1, Busy: 0.1, NoApply: 0.1, CrashReady: 0.0004, Reorder: 0.5, Immediate: 0.7},
	"partition": {Name: "partition", Tick: 18, Deliver: 55, Ready: 8, Drop: 1.5, Dup: 1, Hold: 1, Release: 0.6, Prop: 9, Snap: 0.8, Camp: 0.3,
		Part: 0.45, Heal: 0.35, Crash: 0.05, Restart: 1, Xfer: 0.15, Busy: 0.05, NoApply: 0.05, CrashReady: 0.0004, Reorder: 0.25, Immediate: 0.75},
	"crash": {Name: "crash", Tick: 17, Deliver: 55, Ready: 8, Drop: 1.5, Dup: 1, Hold: 0.6, Release: 0.5, Prop: 9, Snap: 1, Camp: 0.2,
		Part: 0.1, Heal: 0.3, Crash: 0.35, Restart: 1.6, Xfer: 0.1, Busy: 0.05, NoApply: 0.1, CrashReady: 0.006, Reorder: 0.25, Immediate: 0.75},
	"membership": {Name: "membership", Tick: 16, Deliver: 58, Ready: 8, Drop: 1.5, Dup: 1, Hold: 0.5, Release: 0.5, Prop: 8, Snap: 1, Camp: 0.2,
		Conf: 0.9, Part: 0.12, Heal: 0.3, Crash: 0.12, Restart: 1.5, Xfer: 0.1, Busy: 0.05, NoApply: 0.05, CrashReady: 0.001, Reorder: 0.25, Immediate: 0.75},
	"transfer": {Name: "transfer", Tick: 16, Deliver: 58, Ready: 8, Drop: 1.5, Dup: 1, Hold: 0.8, Release: 0.6, Prop: 9, Snap: 0.8, Camp: 0.3,
		Part: 0.1, Heal: 0.3, Crash: 0.08, Restart: 1.2, Xfer: 1.3, Busy: 0.05, NoApply: 0.05, CrashReady: 0.0008, Reorder: 0.3, Immediate: 0.75},
	// C02 flavour: compaction far enough that laggards need MsgSnap, paged commits
	"snapshot": {Name: "snapshot", Tick: 16, Deliver: 58, Ready: 8, Drop: 2.5, Dup: 1.5, Hold: 1, Release: 0.6, Prop: 13, Snap: 2.2, Camp: 0.2,
		Part: 0.3, Heal: 0.3, Crash: 0.15, Restart: 1.2, Xfer: 0.5, Busy: 0.3, NoApply: 0.3, CrashReady: 0.0015, Reorder: 0.3, Immediate: 0.75},
}

var profileOrder = []string{"quiet", "lossy", "partition", "crash", "membership", "transfer", "snapshot"}

func pickWeighted(rng *rand.Rand, w []float64) int {
	t := 0.0
	for _, x := range w {
		t += x
	}
	v := rng.Float64() * t
	for i, x := range w {
		if v < x {
			return i
		}
		v -= x
	}
	return len(w) - 1
}

// drawConfig draws one point of the configuration matrix.
func drawConfig(rng *rand.Rand, storages []string) SimConfig {
	c := SimConfig{ElectionTick: 10, HeartbeatTick: 1}
	c.Voters = []int{1, 2, 3, 3, 3, 3, 4, 5, 5, 5}[rng.Intn(10)]
	c.Learners = []int{0, 0, 0, 0, 0, 0, 1, 1, 2, 0}[rng.Intn(10)]
	if rng.Intn(10) < 6 {
		c.PreVote, c.CheckQuorum = true, true
	}
	c.MaxSizePerMsg = []uint64{0, 64, 1 << 20, math.MaxUint64, 1 << 20}[rng.Intn(5)]
	c.MaxCommittedSize = []uint64{0, 1, 1 << 20, 1 << 20}[rng.Intn(4)]
	c.MaxInflight = []int{1, 2, 4, 256, 256}[rng.Intn(5)]
	c.Storage = storages[rng.Intn(len(storages))]
	c.EarlyLeaderSend = rng.Intn(4) == 0
	return c
}

var storageMix = []string{"mem", "mem", "mem", "mem", "mem", "rocks-mem", "rocks-mem", "rocks-mem", "rocks-pebble", "rocks-pebble"}

// prologue: fair rounds until a leader exists, then the configured learners
// are added one conf change at a time and awaited. Returns false if the group
// did not get there (the schedule is then inconclusive, never a verdict).
func prologue(s *Sim, learners int) bool {
	for i := 0; i < 150 && s.leader() == nil && !s.Done(); i++ {
		s.Do(act("round", 0))
	}
	if s.Done() {
		return true
	}
	if s.leader() == nil {
		return false
	}
	for k := 0; k < learners; k++ {
		id := s.nextID
		if id > maxIDs {
			break
		}
		ok := false
		for try := 0; try < 6 && !ok && !s.Done(); try++ {
			l := s.leader()
			if l == nil {
				s.Do(act("round", 0))
				continue
			}
			a := act("conf", l.id)
			a.A, a.B = uint64(pb.ConfChangeAddLearnerNode), id
			s.Do(a)
			for i := 0; i < 60 && !s.Done(); i++ {
				s.Do(act("round", 0))
				all := true
				for _, r := range s.alive() {
					if !hasID(r.app.conf.Learners, id) {
						all = false
					}
				}
				if all {
					ok = true
					break
				}
			}
		}
		if s.Done() {
			return true
		}
		if !ok {
			return false
		}
	}
	return true
}

// runRandom is the random layer of the generator.
func runRandom(s *Sim, rng *rand.Rand, p Profile, steps int, cold bool) bool {
	if !cold || s.cfg.Learners > 0 {
		if !prologue(s, s.cfg.Learners) {
			return false
		}
	}
	s.Do(act("pdone", 0))
	randomSteps(s, rng, p, steps)
	finish(s)
	return true
}

// finish ends the fault phase and runs the bounded-progress phase.
func finish(s *Sim) {
	if !s.Done() {
		a := act("settle", 0)
		a.A = SettleBound
		if s.churn {
			a.A = 300
		}
		s.Do(a)
	}
}

// randomSteps draws steps actions from the weighted menu of profile p.
func randomSteps(s *Sim, rng *rand.Rand, p Profile, steps int) {
	// per-schedule jitter of the fault weights
	j := func(x float64) float64 { return x * (0.5 + rng.Float64()) }
	w := []float64{j(p.Tick), j(p.Deliver), j(p.Ready), j(p.Drop), j(p.Dup), j(p.Hold), j(p.Release), j(p.Part), j(p.Heal), j(p.Prop),
		j(p.Conf), j(p.Xfer), j(p.Camp), j(p.Snap), j(p.Crash), j(p.Restart), j(p.Busy), j(p.NoApply)}
	const (
		oTick = iota
		oDeliver
		oReady
		oDrop
		oDup
		oHold
		oRelease
		oPart
		oHeal
		oProp
		oConf
		oXfer
		oCamp
		oSnap
		oCrash
		oRestart
		oBusy
		oNoApply
	)
	ready := func(id uint64) {
		a := act("ready", id)
		if p.CrashReady > 0 && rng.Float64() < p.CrashReady {
			a.P = rng.Intn(7)
			a.M = rng.Uint64()
		}
		s.Do(a)
	}
	after := func(id uint64) {
		if rng.Float64() < p.Immediate {
			ready(id)
		}
	}
	cur := make([]float64, len(w))
	for step := 0; step < steps && !s.Done(); step++ {
		alive := s.alive()
		var down []*Replica
		for _, r := range s.started() {
			if !r.alive && !r.removed {
				down = append(down, r)
			}
		}
		copy(cur, w)
		if len(alive) == 0 {
			for i := range cur {
				cur[i] = 0
			}
			cur[oRestart] = 1
		}
		if len(down) == 0 {
			cur[oRestart] = 0
		} else {
			cur[oRestart] = w[oRestart] * float64(len(down)) * 0.08
			if len(alive) == 0 {
				cur[oRestart] = 1
			}
		}
		free := 0
		for _, f := range s.net {
			if !f.held {
				free++
			}
		}
		if free == 0 {
			cur[oDeliver], cur[oDrop], cur[oDup], cur[oHold] = 0, 0, 0, 0
		} else if free > 300 {
			cur[oDeliver] *= 3
		}
		if free == len(s.net) {
			cur[oRelease] = 0
		}
		if s.side == nil {
			cur[oHeal] = 0
		} else {
			cur[oPart] *= 0.2
		}
		pickFree := func(reorder bool) *flight {
			k := rng.Intn(free)
			if !reorder {
				// one of the three oldest
				k = rng.Intn(3)
				if k >= free {
					k = 0
				}
			}
			for _, f := range s.net {
				if f.held {
					continue
				}
				if k == 0 {
					return f
				}
				k--
			}
			return nil
		}
		pickAlive := func() *Replica { return alive[rng.Intn(len(alive))] }
		pickLeaderish := func() *Replica {
			if l := s.leader(); l != nil && rng.Intn(10) < 6 {
				return l
			}
			return pickAlive()
		}
		switch pickWeighted(rng, cur) {
		case oTick:
			r := pickAlive()
			s.Do(act("tick", r.id))
			after(r.id)
		case oDeliver:
			f := pickFree(rng.Float64() < p.Reorder)
			a := act("deliver", 0)
			a.ID = f.id
			to := f.m.To
			s.Do(a)
			after(to)
		case oReady:
			ready(pickAlive().id)
		case oDrop:
			a := act("drop", 0)
			a.ID = pickFree(true).id
			s.Do(a)
		case oDup:
			f := pickFree(true)
			a := act("dup", 0)
			a.ID = f.id
			to := f.m.To
			s.Do(a)
			after(to)
		case oHold:
			a := act("hold", 0)
			a.ID = pickFree(true).id
			s.Do(a)
		case oRelease:
			a := act("release", 0)
			if rng.Intn(2) == 0 {
				for _, f := range s.net {
					if f.held {
						a.ID = f.id
						break
					}
				}
			}
			s.Do(a)
		case oPart:
			a := act("part", 0)
			k := 2 + rng.Intn(2)
			a.G = make([]int, maxIDs+1)
			for {
				same := true
				for i := 1; i <= maxIDs; i++ {
					a.G[i] = rng.Intn(k)
				}
				for _, r := range alive {
					if a.G[r.id] != a.G[alive[0].id] {
						same = false
					}
				}
				if !same || len(alive) < 2 {
					break
				}
			}
			s.Do(a)
		case oHeal:
			s.Do(act("heal", 0))
		case oProp:
			r := pickAlive()
			if r.lead == 0 && rng.Intn(4) != 0 {
				r = pickLeaderish()
			}
			a := act("prop", r.id)
			a.A = []uint64{0, 8, 8, 30, 100, 100, 700}[rng.Intn(7)]
			s.Do(a)
			after(r.id)
		case oConf:
			genConf(s, rng, pickLeaderish())
		case oXfer:
			r := pickLeaderish()
			a := act("xfer", r.id)
			a.A = r.lead
			if l := s.leader(); l != nil && rng.Intn(5) != 0 {
				a.A = l.id
			}
			st := s.started()
			a.B = st[rng.Intn(len(st))].id
			s.Do(a)
			after(r.id)
		case oCamp:
			r := pickAlive()
			s.Do(act("camp", r.id))
			after(r.id)
		case oSnap:
			r := pickAlive()
			a := act("snap", r.id)
			a.A = []uint64{0, 0, 1, 2, 5, 20}[rng.Intn(6)]
			s.Do(a)
		case oCrash:
			s.Do(act("crash", pickAlive().id))
		case oRestart:
			a := act("restart", down[rng.Intn(len(down))].id)
			a.A = uint64(rng.Intn(2))
			s.Do(a)
		case oBusy:
			r := pickAlive()
			a := act("busy", r.id)
			if !r.busySnap && rng.Intn(3) == 0 {
				a.A = 1
			}
			s.Do(a)
		case oNoApply:
			r := pickAlive()
			a := act("noapply", r.id)
			if !r.noApply && rng.Intn(3) == 0 {
				a.A = 1
			}
			s.Do(a)
		}
	}
}

// genConf emits one sane-operator membership change (never the last voter).
func genConf(s *Sim, rng *rand.Rand, at *Replica) {
	V, L := s.newestConf.Nodes, s.newestConf.Learners
	type cand struct {
		t  pb.ConfChangeType
		id uint64
	}
	var cs []cand
	members := 0
	for _, id := range append(append([]uint64{}, V...), L...) {
		if !s.removalsAsked[id] {
			members++
		}
	}
	if s.nextID <= maxIDs && members < 7 {
		cs = append(cs, cand{pb.ConfChangeAddNode, s.nextID}, cand{pb.ConfChangeAddLearnerNode, s.nextID})
	}
	for _, id := range L {
		if !s.removalsAsked[id] {
			cs = append(cs, cand{pb.ConfChangeAddNode, id}, cand{pb.ConfChangeAddNode, id}) // promote
			cs = append(cs, cand{pb.ConfChangeRemoveNode, id})
		}
	}
	left := 0
	for _, id := range V {
		if !s.removalsAsked[id] {
			left++
		}
	}
	if left >= 2 {
		for _, id := range V {
			if !s.removalsAsked[id] {
				cs = append(cs, cand{pb.ConfChangeRemoveNode, id})
			}
		}
	}
	// a joiner whose addition was proposed but is not a member yet: propose again
	for _, r := range s.started() {
		if !r.removed && !s.removalsAsked[r.id] && !hasID(V, r.id) && !hasID(L, r.id) {
			t := pb.ConfChangeAddNode
			if r.learner {
				t = pb.ConfChangeAddLearnerNode
			}
			cs = append(cs, cand{t, r.id})
		}
	}
	if len(cs) == 0 {
		return
	}
	c := cs[rng.Intn(len(cs))]
	a := act("conf", at.id)
	a.A, a.B = uint64(c.t), c.id
	s.Do(a)
	if rng.Intn(4) != 0 {
		s.Do(act("ready", at.id))
	}
}
