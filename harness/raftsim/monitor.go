package raftsim

import (
	"crypto/sha256"
	"encoding/binary"
	"fmt"
	"math"

	"github.com/youzan/ZanRedisDB/raft"
	pb "github.com/youzan/ZanRedisDB/raft/raftpb"
)

// Monitor holds the oracles of C01, C02 and C03 over one event stream.
//
// C01: term -> leader registry (SoftState + leader-only messages), learner
// clause, (replica, term) -> votedFor registry that survives restarts.
// C02: global index -> (term, type, sha(data)) registry, per-replica apply
// cursor, snapshot index/term/app-hash-chain equality.
// C03: committed registry must be contained in the log of every new leader;
// restart must not panic (Sim.restart); bounded progress (Sim.settle).
type Monitor struct {
	s            *Sim
	leaders      map[uint64]uint64
	votes        map[[2]uint64]voteRec
	ents         map[uint64]*entRec
	chain        []uint64 // chain[i] = app hash chain after applying 1..i (registry view)
	maxCommitted uint64
	maxTerm      uint64
}

type voteRec struct {
	cand uint64
	inc  int
	how  string
}

type entRec struct {
	term       uint64
	typ        pb.EntryType
	hash       uint64
	commitTerm uint64 // upper estimate of the term in which it became committed
	by         uint64 // first reporter
}

func newMonitor(s *Sim) *Monitor {
	return &Monitor{s: s, leaders: map[uint64]uint64{}, votes: map[[2]uint64]voteRec{}, ents: map[uint64]*entRec{}, chain: []uint64{0}}
}

func dataHash(e *pb.Entry) uint64 {
	h := sha256.New()
	var b [20]byte
	binary.BigEndian.PutUint64(b[0:8], e.ID)
	binary.BigEndian.PutUint32(b[8:12], uint32(e.DataType))
	binary.BigEndian.PutUint64(b[12:20], uint64(e.Timestamp))
	h.Write(b[:])
	h.Write(e.Data)
	return binary.BigEndian.Uint64(h.Sum(nil)[:8])
}

func mix(chain, index, term uint64, typ pb.EntryType, hash uint64) uint64 {
	x := chain
	for _, v := range [...]uint64{index, term, uint64(typ) + 1, hash} {
		x ^= v + 0x9e3779b97f4a7c15 + (x << 6) + (x >> 2)
		x *= 0xff51afd7ed558ccd
		x ^= x >> 33
	}
	return x
}

func (m *Monitor) regLeader(term, id uint64, how string) {
	if term == 0 {
		return
	}
	if term > m.maxTerm {
		m.maxTerm = term
	}
	if old, ok := m.leaders[term]; ok {
		if old != id {
			m.s.violate("two-leaders-in-term", []string{"C01"}, "term %d: replica %d and replica %d both act as leader (%s)", term, old, id, how)
		}
		return
	}
	m.leaders[term] = id
	m.s.count("distinct_term_leader", 1)
	m.s.event("leader registry: term %d -> replica %d (%s)", term, id, how)
}

func leaderOnly(t pb.MessageType) bool {
	return t == pb.MsgApp || t == pb.MsgHeartbeat || t == pb.MsgSnap || t == pb.MsgTimeoutNow
}

func (m *Monitor) onReady(r *Replica, rd *raft.Ready, hasSnap bool) {
	s := m.s
	if !raft.IsEmptyHardState(rd.HardState) {
		if rd.HardState.Term < r.term {
			s.violate("term-went-backwards", []string{"C01", "C03"}, "replica %d emits HardState term %d after term %d", r.id, rd.HardState.Term, r.term)
			return
		}
		r.term = rd.HardState.Term
	}
	if rd.SoftState != nil {
		if rd.SoftState.RaftState == raft.StateLeader && r.role != raft.StateLeader {
			s.count("elections_won", 1)
		}
		r.role = rd.SoftState.RaftState
		r.lead = rd.SoftState.Lead
		if r.lead != 0 {
			r.propsNoLeader = 0
		}
	}
	if r.role == raft.StateLeader {
		m.regLeader(r.term, r.id, "SoftState")
	}
	for i := range rd.Messages {
		mm := &rd.Messages[i]
		if leaderOnly(mm.Type) && mm.From == r.id {
			m.regLeader(mm.Term, mm.From, mm.Type.String())
		}
	}
	if s.viol != nil {
		return
	}
	// A replica whose configuration base is a snapshot (installed, or restored
	// at restart) knows exactly the snapshot's members plus the conf entries it
	// applied since: requests it originates go to those replicas only.
	if (r.confFromSnap || hasSnap) && r.stepConfKnown {
		for i := range rd.Messages {
			mm := &rd.Messages[i]
			switch mm.Type {
			case pb.MsgVote, pb.MsgPreVote, pb.MsgApp, pb.MsgHeartbeat, pb.MsgSnap, pb.MsgTimeoutNow:
				if mm.To != 0 && mm.To != r.id && !hasID(r.stepConf.Nodes, mm.To) && !hasID(r.stepConf.Learners, mm.To) {
					s.violate("message-to-nonmember-after-snapshot", []string{"C01"}, "replica %d sends %s (term %d) to replica %d, which is neither in the snapshot configuration it restored nor added since (its configuration: voters %v learners %v)", r.id, mm.Type, mm.Term, mm.To, r.stepConf.Nodes, r.stepConf.Learners)
					return
				}
			}
		}
	}
	// learner clause, against the replica's own applied configuration (a
	// snapshot carried by this Ready already reconfigured the raft state).
	conf, known := r.stepConf, r.stepConfKnown
	if known && hasID(conf.Learners, r.id) {
		switch r.role {
		case raft.StateCandidate, raft.StatePreCandidate:
			s.violate("learner-campaigns", []string{"C01"}, "replica %d is a learner in its applied configuration %v/%v and shows %s at term %d", r.id, conf.Nodes, conf.Learners, r.role, r.term)
		case raft.StateLeader:
			s.violate("learner-leads", []string{"C01"}, "replica %d is a learner in its applied configuration %v/%v and shows StateLeader at term %d", r.id, conf.Nodes, conf.Learners, r.term)
		}
	}
}

func (m *Monitor) regVote(r *Replica, term, cand uint64, how string) {
	if term == 0 || cand == 0 {
		return
	}
	k := [2]uint64{r.id, term}
	if old, ok := m.votes[k]; ok {
		if old.cand != cand {
			if old.inc != r.incarnation {
				m.s.violate("double-vote/across-restart", []string{"C01", "C03"}, "replica %d voted for %d in term %d (%s, incarnation %d) and after a restart for %d (%s, incarnation %d): the vote was not durable", r.id, old.cand, term, old.how, old.inc, cand, how, r.incarnation)
			} else {
				m.s.violate("double-vote/same-incarnation", []string{"C01"}, "replica %d voted for %d (%s) and for %d (%s) in term %d", r.id, old.cand, old.how, cand, how, term)
			}
		}
		return
	}
	m.votes[k] = voteRec{cand: cand, inc: r.incarnation, how: how}
}

func (m *Monitor) onSend(r *Replica, mm *pb.Message) {
	if (mm.Type == pb.MsgVoteResp || mm.Type == pb.MsgPreVoteResp) && !mm.Reject {
		// judged against the configuration in effect when the vote was cast
		// (the Ready's own committed conf changes are applied after the step)
		if r.stepConfKnown && hasID(r.stepConf.Learners, r.id) {
			m.s.violate("learner-grants-vote", []string{"C01"}, "replica %d is a learner in its applied configuration %v/%v and sends a granting %s to %d for term %d", r.id, r.stepConf.Nodes, r.stepConf.Learners, mm.Type, mm.To, mm.Term)
			return
		}
		if mm.Type == pb.MsgVoteResp {
			m.s.count("votes_granted", 1)
			// "one vote per term, persisted before it is answered": when the
			// grant leaves, the storage must hold this vote, or already a later
			// term (then the replica can never vote in mm.Term again). A replica
			// that just became leader may send before persisting (sendingEarly).
			if hs := r.hsCur; !r.sendingEarly && !(hs.Term > mm.Term || (hs.Term == mm.Term && hs.Vote == mm.To)) {
				m.s.violate("vote-sent-before-persisted", []string{"C01", "C03"}, "replica %d releases a granting MsgVoteResp to %d for term %d while its persisted hard state is {term %d, vote %d}: a crash now forgets the vote", r.id, mm.To, mm.Term, hs.Term, hs.Vote)
				return
			}
			m.regVote(r, mm.Term, mm.To, "MsgVoteResp")
		}
	}
}

func (m *Monitor) onPersistHS(r *Replica, hs pb.HardState) {
	if hs.Vote != 0 {
		m.regVote(r, hs.Term, hs.Vote, "HardState")
	}
	if m.s.viol != nil {
		return
	}
	if hs.Commit > r.persistedCommit {
		lo, hi := r.persistedCommit+1, hs.Commit
		first, _ := r.st.FirstIndex()
		if lo < first {
			lo = first
		}
		if lo <= hi {
			var ents []pb.Entry
			var err error
			if !m.s.lib("storage.Entries", r, func() { ents, err = r.st.Entries(lo, hi+1, math.MaxUint64) }) {
				return
			}
			if err != nil || uint64(len(ents)) != hi+1-lo {
				m.s.violate("persisted-commit-without-entries", []string{"C03"}, "replica %d persisted HardState.Commit=%d but its storage returns %d entries for [%d,%d] (err %v)", r.id, hs.Commit, len(ents), lo, hi, err)
				return
			}
			for i := range ents {
				m.regEntry(r, &ents[i], "persisted HardState.Commit")
				if m.s.viol != nil {
					return
				}
			}
		}
		r.persistedCommit = hs.Commit
	}
}

// regEntry feeds the global registry (first writer wins).
func (m *Monitor) regEntry(r *Replica, e *pb.Entry, how string) *entRec {
	h := dataHash(e)
	rec, ok := m.ents[e.Index]
	if !ok {
		rec = &entRec{term: e.Term, typ: e.Type, hash: h, commitTerm: r.term, by: r.id}
		m.ents[e.Index] = rec
		if e.Index > m.maxCommitted {
			m.maxCommitted = e.Index
		}
		for {
			n := uint64(len(m.chain))
			nx, ok := m.ents[n]
			if !ok {
				break
			}
			m.chain = append(m.chain, mix(m.chain[n-1], n, nx.term, nx.typ, nx.hash))
		}
		return rec
	}
	if rec.term != e.Term || rec.typ != e.Type || rec.hash != h {
		m.s.violate("different-entry-at-index", []string{"C02", "C03"}, "index %d: replica %d reports (term %d, %s, data %016x) via %s, but replica %d reported (term %d, %s, data %016x) as committed before", e.Index, r.id, e.Term, e.Type, h, how, rec.by, rec.term, rec.typ, rec.hash)
		return rec
	}
	if r.term < rec.commitTerm {
		rec.commitTerm = r.term
	}
	return rec
}

func (m *Monitor) onApply(r *Replica, e *pb.Entry) {
	s := m.s
	if e.Index != r.app.applied+1 {
		if e.Index > r.app.applied+1 {
			s.violate("apply-gap", []string{"C02"}, "replica %d is handed index %d after applied %d without a snapshot covering the gap", r.id, e.Index, r.app.applied)
		} else {
			s.violate("apply-backwards", []string{"C02"}, "replica %d is handed index %d although it already applied %d", r.id, e.Index, r.app.applied)
		}
		return
	}
	rec := m.regEntry(r, e, "CommittedEntries")
	if s.viol != nil {
		return
	}
	r.app.chain = mix(r.app.chain, e.Index, rec.term, rec.typ, rec.hash)
	r.app.applied = e.Index
	if e.Index < uint64(len(m.chain)) && m.chain[e.Index] != r.app.chain {
		s.violate("app-state-diverged", []string{"C02"}, "replica %d: application hash chain after index %d is %016x, registry has %016x", r.id, e.Index, r.app.chain, m.chain[e.Index])
	}
	if lag := m.maxCommitted - e.Index; int64(lag) > s.st["max_lag"] {
		s.st["max_lag"] = int64(lag)
	}
}

func (m *Monitor) onInstall(r *Replica, sn *pb.Snapshot) {
	s := m.s
	idx, term := sn.Metadata.Index, sn.Metadata.Term
	if idx <= r.app.applied {
		s.violate("snapshot-install-backwards", []string{"C02"}, "replica %d is handed snapshot %d/%d although it already applied %d", r.id, idx, term, r.app.applied)
		return
	}
	rec, ok := m.ents[idx]
	if !ok || idx >= uint64(len(m.chain)) {
		s.violate("snapshot-beyond-applied-history", []string{"C02"}, "replica %d is handed snapshot %d/%d but nobody applied index %d", r.id, idx, term, idx)
		return
	}
	if rec.term != term {
		s.violate("snapshot-term-mismatch", []string{"C02"}, "replica %d installs snapshot %d with term %d, the registry has term %d at that index", r.id, idx, term, rec.term)
		return
	}
	if len(sn.Data) != 16 {
		s.violate("snapshot-state-mismatch", []string{"C02"}, "replica %d installs snapshot %d/%d with %d bytes of application state", r.id, idx, term, len(sn.Data))
		return
	}
	ai, ac := binary.BigEndian.Uint64(sn.Data[0:8]), binary.BigEndian.Uint64(sn.Data[8:16])
	if ai != idx || ac != m.chain[idx] {
		s.violate("snapshot-state-mismatch", []string{"C02"}, "replica %d installs snapshot %d/%d carrying application state (applied %d, chain %016x), the registry has chain %016x at %d", r.id, idx, term, ai, ac, m.chain[idx], idx)
	}
}

// onBecameLeader: every entry known committed in an earlier term must be in
// the new leader's log (storage object after persisting this Ready).
func (m *Monitor) onBecameLeader(r *Replica) {
	s := m.s
	var first, last uint64
	var ents []pb.Entry
	var err error
	if !s.lib("storage.Entries", r, func() {
		first, _ = r.st.FirstIndex()
		last, _ = r.st.LastIndex()
		if last >= first {
			ents, err = r.st.Entries(first, last+1, math.MaxUint64)
		}
	}) {
		return
	}
	if err != nil {
		s.violate("storage-error/Entries", allChecks, "new leader %d: storage.Entries(%d,%d) failed: %v", r.id, first, last+1, err)
		return
	}
	s.event("replica %d became leader at term %d log=[%d..%d] known committed up to %d", r.id, r.term, first, last, m.maxCommitted)
	checked := 0
	for i := first; i <= m.maxCommitted; i++ {
		rec, ok := m.ents[i]
		if !ok || rec.commitTerm >= r.term {
			continue
		}
		checked++
		if i > last {
			s.violate("leader-missing-committed", []string{"C03"}, "replica %d became leader at term %d with last index %d, but index %d (term %d) was reported committed by replica %d in a term <= %d", r.id, r.term, last, i, rec.term, rec.by, rec.commitTerm)
			return
		}
		e := &ents[i-first]
		if e.Index != i {
			s.violate("storage-error/Entries", allChecks, "new leader %d: storage.Entries(%d,%d) returned index %d at position of %d", r.id, first, last+1, e.Index, i)
			return
		}
		if e.Term != rec.term || e.Type != rec.typ || dataHash(e) != rec.hash {
			s.violate("leader-missing-committed", []string{"C03"}, "replica %d became leader at term %d holding (term %d, %s) at index %d, but (term %d, %s) was reported committed there by replica %d in a term <= %d", r.id, r.term, e.Term, e.Type, i, rec.term, rec.typ, rec.by, rec.commitTerm)
			return
		}
	}
	s.count("leader_completeness_entries_checked", int64(checked))
}

func (m *Monitor) onRestart(r *Replica) {}

func (m *Monitor) describe() string {
	return fmt.Sprintf("terms=%d maxCommitted=%d", len(m.leaders), m.maxCommitted)
}
