package raftsim

import (
	"math/rand"
)

// Crash enumeration of C03: crash position p0..p6 inside the k-th Ready cycle
// of the trigger replica, combined with a subset kind (single follower,
// leader, majority, all replicas at once), on fixed 3-replica scripts.

type EnumCase struct {
	Script string `json:"script"`
	Pos    int    `json:"pos"`
	Subset int    `json:"subset"` // index into subsetKinds
	K      int    `json:"k"`
	Fixed  bool   `json:"fixed_config"`
}

var enumScripts = []string{"plain", "laggard"}

const enumMaxK = 30

func enumCase(tier string, k int, rng *rand.Rand) EnumCase {
	if tier == "thorough" {
		per := 7 * 4 * enumMaxK
		sc := (k / per) % len(enumScripts)
		fixed := k/(per*len(enumScripts)) == 0
		k %= per
		return EnumCase{Script: enumScripts[sc], Pos: k / (4 * enumMaxK), Subset: (k / enumMaxK) % 4, K: k%enumMaxK + 1, Fixed: fixed}
	}
	sc := (k / 28) % len(enumScripts)
	return EnumCase{Script: enumScripts[sc], Pos: (k % 28) / 4, Subset: k % 4, K: 1 + rng.Intn(enumMaxK)}
}

func enumConfig(ec EnumCase, rng *rand.Rand) SimConfig {
	c := SimConfig{Voters: 3, PreVote: true, CheckQuorum: true, ElectionTick: 10, HeartbeatTick: 1,
		MaxInflight: 256, MaxSizePerMsg: 1 << 20, MaxCommittedSize: 1 << 20}
	if ec.Fixed {
		c.Storage = "mem" // pass 0 of the thorough enumeration: the production default
		return c
	}
	c.Storage = storageMix[rng.Intn(len(storageMix))]
	if rng.Intn(4) == 0 {
		c.PreVote, c.CheckQuorum = false, false
	}
	if rng.Intn(4) == 0 {
		c.MaxSizePerMsg, c.MaxCommittedSize = 0, 0
	}
	c.EarlyLeaderSend = rng.Intn(3) == 0
	return c
}

func runEnum(s *Sim, ec EnumCase, rng *rand.Rand) bool {
	d := &director{s: s, rng: rng}
	if !prologue(s, 0) {
		return false
	}
	s.Do(act("pdone", 0))
	step := func() {
		if l := s.leader(); l != nil {
			a := act("prop", l.id)
			a.A = 8
			s.Do(a)
		}
		for _, r := range s.alive() {
			s.Do(act("tick", r.id))
			d.ready(r.id)
		}
		d.pump(deliverAll, 300)
	}
	l := s.leader()
	if l == nil || s.Done() {
		return true
	}
	var followers []uint64
	for _, id := range d.others(l.id) {
		followers = append(followers, id)
	}
	lagg := followers[len(followers)-1]
	if ec.Script == "laggard" {
		d.partition([]uint64{lagg})
		for k := 0; k < 6 && !s.Done(); k++ {
			step()
		}
		for _, id := range d.others(lagg) {
			s.Do(act("snap", id))
		}
		s.Do(act("heal", 0))
		if l = s.leader(); l == nil || s.Done() {
			finish(s)
			return true
		}
		followers = d.others(l.id)
	}
	trigger := l.id
	var also []uint64
	switch subsetKinds[ec.Subset] {
	case "single":
		trigger = followers[0]
		if ec.Script == "laggard" {
			trigger = lagg
		}
	case "leader":
	case "majority":
		also = []uint64{followers[0]}
		if ec.Script == "laggard" {
			also = []uint64{lagg}
		}
	case "all":
		also = followers
	}
	tr := s.rep(trigger)
	armAt := uint64(tr.readyN + ec.K)
	d.hook = func(a *Action) {
		if a.N == trigger && tr.alive && uint64(tr.readyN) < armAt {
			a.P, a.B, a.M = ec.Pos, armAt, rng.Uint64()
		}
	}
	crashed := false
	for k := 0; k < 60 && !s.Done() && !crashed; k++ {
		step()
		if !tr.alive {
			crashed = true
		}
	}
	d.hook = nil
	if s.Done() {
		return true
	}
	if crashed {
		wasLeader := subsetKinds[ec.Subset] == "single" || tr.everLeader
		for _, id := range also {
			s.Do(act("crash", id))
		}
		if wasLeader {
			c := act("case", 0)
			c.P, c.A = ec.Pos, uint64(ec.Subset)
			s.Do(c)
		}
		s.count("enum_cases_fired", 1)
	} else {
		s.count("enum_cases_not_fired", 1)
	}
	for k := 0; k < 12+rng.Intn(15) && !s.Done(); k++ {
		step()
	}
	var down []uint64
	for _, r := range s.started() {
		if !r.alive && !r.removed {
			down = append(down, r.id)
		}
	}
	rng.Shuffle(len(down), func(i, j int) { down[i], down[j] = down[j], down[i] })
	for _, id := range down {
		a := act("restart", id)
		a.A = uint64(rng.Intn(2))
		s.Do(a)
		if rng.Intn(2) == 0 {
			step()
		}
	}
	for k := 0; k < 15 && !s.Done(); k++ {
		step()
	}
	finish(s)
	return true
}
