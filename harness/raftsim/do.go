package raftsim

import (
	"fmt"

	"github.com/youzan/ZanRedisDB/raft"
	pb "github.com/youzan/ZanRedisDB/raft/raftpb"
)

// Done reports whether the schedule must stop (violation or harness problem).
func (s *Sim) Done() bool { return s.viol != nil || s.harness != nil }

// Do executes and records one action. Every action is a deterministic
// function of the simulator state, so the recorded list replays exactly.
func (s *Sim) Do(a Action) {
	if s.Done() {
		return
	}
	s.actions = append(s.actions, a.String())
	if s.trace != nil {
		fmt.Fprintf(s.trace, "#%d %s\n", len(s.actions), a.String())
	}
	r := s.rep(a.N)
	switch a.Op {
	case "tick":
		if r != nil && r.alive && r.pendingTicks < 100 {
			r.node.Tick()
			r.pendingTicks++
			s.count("ticks", 1)
		}
	case "ready":
		s.cycle(r, a.P, a.M, a.B)
	case "deliver":
		s.deliver(a.ID, false)
	case "dup":
		s.deliver(a.ID, true)
	case "drop":
		if i := s.find(a.ID); i >= 0 {
			f := s.net[i]
			s.net = append(s.net[:i], s.net[i+1:]...)
			s.count("dropped/"+f.m.Type.String(), 1)
			s.faultSeen = true
			s.lost(&f.m)
		}
	case "snapfail":
		// the sender's transport gives up on an in-flight MsgSnap (timeout) and
		// reports failure, although the data still arrives later
		if i := s.find(a.ID); i >= 0 && s.net[i].m.Type == pb.MsgSnap {
			s.lost(&s.net[i].m)
			s.count("snapshot_send_timeouts", 1)
		}
	case "hold":
		if i := s.find(a.ID); i >= 0 && !s.net[i].held {
			s.net[i].held = true
			s.count("held/"+s.net[i].m.Type.String(), 1)
		}
	case "release":
		for _, f := range s.net {
			if f.held && (a.ID == 0 || f.id == a.ID) {
				f.held = false
			}
		}
	case "part":
		s.side = append([]int{}, a.G...)
		s.count("partitions", 1)
		s.event("partition sides=%v", a.G)
	case "heal":
		if s.side != nil {
			s.side = nil
			s.count("heals", 1)
			s.event("heal")
		}
	case "prop":
		s.propose(r, int(a.A))
	case "conf":
		s.proposeConf(r, pb.ConfChangeType(a.A), a.B)
	case "xfer":
		if r != nil && r.alive {
			r.node.TransferLeadership(bg, a.A, a.B)
			r.pendingIn++
			s.count("transfer_requests", 1)
			s.event("transfer leadership requested at %d: lead=%d transferee=%d", r.id, a.A, a.B)
		}
	case "camp":
		if r != nil && r.alive {
			r.node.Campaign(bg)
			r.pendingIn++
			s.count("forced_campaigns", 1)
		}
	case "snap":
		s.snapshot(r, a.A)
	case "crash":
		if r != nil && r.alive {
			s.crashAt(r, -1, true)
		}
	case "restart":
		s.restart(r, a.A == 1)
	case "busy":
		if r != nil && r.alive {
			r.busySnap = a.A == 1
			if r.busySnap {
				s.count("busy_snap_phases", 1)
			}
		}
	case "noapply":
		if r != nil && r.alive {
			r.noApply = a.A == 1
			if r.noApply {
				s.count("no_apply_phases", 1)
			}
		}
	case "case":
		// marks the crash case (position/subset kind) of the replicas that are down now
		for _, x := range s.started() {
			if !x.alive && !x.removed {
				s.pendingCase[x.id] = fmt.Sprintf("p%d/%s", a.P, subsetKinds[int(a.A)%len(subsetKinds)])
			}
		}
	case "pdone":
		// end of the prologue: membership changes from here on are churn
		s.prologueDone = true
		s.churn = false
	case "round":
		s.round()
	case "settle":
		s.settle(int(a.A))
	default:
		s.harness = fmt.Errorf("unknown action %q", a.Op)
	}
}

var subsetKinds = []string{"single", "leader", "majority", "all"}

func (s *Sim) find(id int) int {
	for i, f := range s.net {
		if f.id == id {
			return i
		}
	}
	return -1
}

func (s *Sim) deliver(id int, dup bool) {
	i := s.find(id)
	if i < 0 {
		return
	}
	f := s.net[i]
	m := f.m
	if dup {
		m = msgClone(f.m)
	} else {
		s.net = append(s.net[:i], s.net[i+1:]...)
	}
	typ := m.Type.String()
	if s.blocked(m.From, m.To) {
		if !dup {
			s.count("dropped_partition/"+typ, 1)
			s.faultSeen = true
			s.lost(&m)
		}
		return
	}
	dst := s.rep(m.To)
	if dst == nil || !dst.alive {
		if !dup {
			s.count("dropped_dead/"+typ, 1)
			s.lost(&m)
		}
		return
	}
	if dst.pendingIn > 2000 {
		s.cycle(dst, -1, 0, 0)
		if s.Done() || !dst.alive {
			return
		}
	}
	if !dup {
		// reordering: an older message on the same link is still in flight
		for _, o := range s.net {
			if o.id < f.id && o.m.From == m.From && o.m.To == m.To {
				s.count("reordered/"+typ, 1)
				s.faultSeen = true
				break
			}
		}
	} else {
		s.count("duplicated/"+typ, 1)
		s.faultSeen = true
	}
	if !s.lib("Step", dst, func() { dst.node.Step(bg, m) }) {
		return
	}
	dst.pendingIn++
	if leaderOnly(m.Type) {
		dst.leaderMsgs++
	}
	s.count("delivered/"+typ, 1)
	if m.Type == pb.MsgSnap {
		if snd := s.rep(m.From); snd != nil && snd.alive {
			snd.node.ReportSnapshot(m.To, m.ToGroup, raft.SnapshotFinish)
			snd.pendingIn++
		}
	}
}

func (s *Sim) propose(r *Replica, size int) {
	if r == nil || !r.alive || r.pendingIn > 1000 {
		return
	}
	if r.lead == 0 {
		if r.propsNoLeader > 300 {
			return
		}
		r.propsNoLeader++
	}
	s.propSeq++
	data := make([]byte, 0, 12+size)
	data = append(data, []byte(fmt.Sprintf("p%d@%d:", s.propSeq, r.id))...)
	for i := 0; i < size; i++ {
		data = append(data, byte('a'+(s.propSeq+i)%26))
	}
	if !s.lib("Propose", r, func() { r.node.Propose(bg, data) }) {
		return
	}
	r.pendingIn++
	s.count("proposals", 1)
}

// proposeConf proposes one single-step membership change at r. A replica that
// is being added is started first (empty, the way a joining process starts).
func (s *Sim) proposeConf(r *Replica, t pb.ConfChangeType, target uint64) {
	if r == nil || !r.alive || target == 0 || target > maxIDs {
		return
	}
	if r.lead == 0 {
		if r.propsNoLeader > 300 {
			return
		}
		r.propsNoLeader++
	}
	tr := s.rep(target)
	switch t {
	case pb.ConfChangeAddNode:
		if tr == nil {
			s.startReplica(target, nil, false)
			if target >= s.nextID {
				s.nextID = target + 1
			}
		}
	case pb.ConfChangeAddLearnerNode:
		if tr == nil {
			s.startReplica(target, nil, true)
			if target >= s.nextID {
				s.nextID = target + 1
			}
		}
	case pb.ConfChangeRemoveNode:
		s.removalsAsked[target] = true
	default:
		return
	}
	if s.Done() {
		return
	}
	if s.prologueDone {
		s.churn = true
	}
	cc := pb.ConfChange{Type: t, ReplicaID: target, NodeGroup: grp(target), Context: []byte(fmt.Sprintf("m%d", target))}
	if !s.lib("ProposeConfChange", r, func() { r.node.ProposeConfChange(bg, cc) }) {
		return
	}
	r.pendingIn++
	s.count("conf_proposed/"+t.String(), 1)
	s.event("conf change %s %d proposed at replica %d", t, target, r.id)
}

func (s *Sim) snapshot(r *Replica, catchup uint64) {
	if r == nil || !r.alive || !r.app.confKnown || r.app.applied == 0 {
		return
	}
	var cur pb.Snapshot
	if !s.lib("storage.Snapshot", r, func() { cur, _ = r.st.Snapshot() }) {
		return
	}
	if r.app.applied <= cur.Metadata.Index {
		return
	}
	cs := cloneConf(r.app.conf)
	data := encodeApp(&r.app)
	idx := r.app.applied
	var err, cerr error
	if !s.lib("storage.CreateSnapshot", r, func() {
		_, err = r.st.CreateSnapshot(idx, &cs, data)
		if err != nil {
			return
		}
		if idx > catchup {
			cerr = r.st.Compact(idx - catchup)
		}
	}) {
		return
	}
	if err != nil {
		if err != raft.ErrSnapOutOfDate {
			s.violate("storage-error/CreateSnapshot", allChecks, "replica %d: storage.CreateSnapshot(%d) failed although the replica applied and persisted that index: %v", r.id, idx, err)
		}
		return
	}
	if cerr != nil && cerr != raft.ErrCompacted {
		s.violate("storage-error/Compact", allChecks, "replica %d: storage.Compact(%d) failed: %v", r.id, idx-catchup, cerr)
		return
	}
	s.count("snapshots_created", 1)
	s.event("replica %d snapshots at %d and compacts to %d", r.id, idx, int64(idx)-int64(catchup))
}

// round is one fair round: tick every live replica, run its Ready cycle, then
// deliver everything deliverable in send order (each delivery followed by the
// receiver's cycle) until the bag is empty or the round budget is used.
func (s *Sim) round() {
	s.count("fair_rounds", 1)
	// like the real loop, which re-notifies itself while a Ready reports
	// MoreCommittedEntries, a replica keeps cycling until its commit backlog
	// is handed out (bounded per round)
	cyc := func(r *Replica) {
		s.cycle(r, -1, 0, 0)
		for k := 0; k < 256 && r != nil && r.alive && r.more && !r.noApply && !s.Done(); k++ {
			s.cycle(r, -1, 0, 0)
		}
	}
	for _, r := range s.alive() {
		if r.pendingTicks < 100 {
			r.node.Tick()
			r.pendingTicks++
		}
		cyc(r)
		if s.Done() {
			return
		}
	}
	budget := 400
	for budget > 0 {
		var f *flight
		for _, x := range s.net {
			if !x.held {
				f = x
				break
			}
		}
		if f == nil {
			break
		}
		budget--
		to, from := f.m.To, f.m.From
		s.deliver(f.id, false)
		if s.Done() {
			return
		}
		cyc(s.rep(to))
		if s.Done() {
			return
		}
		// a failure/unreachable report queued at the sender
		if snd := s.rep(from); snd != nil && snd.alive && snd.pendingIn > 0 {
			cyc(snd)
			if s.Done() {
				return
			}
		}
	}
}

func (s *Sim) members() []*Replica {
	var out []*Replica
	for _, r := range s.started() {
		if r.removed {
			continue
		}
		if hasID(s.newestConf.Nodes, r.id) || hasID(s.newestConf.Learners, r.id) {
			out = append(out, r)
		}
	}
	return out
}

func (s *Sim) converged() bool {
	if s.mon.maxCommitted == 0 {
		return true // nothing was ever reported committed: nothing to demand
	}
	ms := s.members()
	if len(ms) == 0 {
		return false
	}
	for _, r := range ms {
		if !r.alive || r.app.applied < s.mon.maxCommitted {
			return false
		}
	}
	return true
}

// settle ends the fault phase: heal, release, restart every crashed replica,
// then run fair rounds until every live member applied everything that was
// ever reported committed, at most bound rounds (C03 bounded progress).
func (s *Sim) settle(bound int) {
	s.side = nil
	for _, f := range s.net {
		f.held = false
	}
	for _, r := range s.started() {
		if !r.alive && !r.removed {
			s.restart(r, false)
			if s.Done() {
				return
			}
		}
		r.busySnap, r.noApply = false, false
	}
	s.settled = true
	for n := 0; n < bound; n++ {
		if s.converged() {
			s.settleRounds = n
			if int64(n) > s.st["max_settle_rounds"] {
				s.st["max_settle_rounds"] = int64(n)
			}
			return
		}
		s.round()
		if s.Done() {
			return
		}
	}
	if s.converged() {
		s.settleRounds = bound
		return
	}
	s.stuck = true
	s.settleRounds = bound
	desc := ""
	for _, r := range s.started() {
		desc += fmt.Sprintf(" %d:{alive=%v role=%s term=%d lead=%d applied=%d commit=%d}", r.id, r.alive, r.role, r.term, r.lead, r.app.applied, r.hsCur.Commit)
	}
	if s.churn || !s.prologueDone {
		s.count("stuck_after_churn", 1)
		s.event("not converged after %d rounds (membership churn, not decided):%s", bound, desc)
		return
	}
	s.violate("no-progress-after-heal", []string{"C03"}, "after healing and restarting everything, %d fair rounds did not bring every live member to applied=%d (fixed membership voters=%v learners=%v):%s", bound, s.mon.maxCommitted, s.newestConf.Nodes, s.newestConf.Learners, desc)
}
