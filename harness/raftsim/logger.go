package raftsim

import (
	"fmt"
	"io"
)

// simLogger is the raft.Logger handed to every raft.Config and installed as
// the package logger: silent unless a trace writer is set, and Panic*/Fatal*
// panic with the formatted text (the library relies on Panicf panicking).
type simLogger struct {
	out io.Writer // nil: discard
}

func (l *simLogger) p(lvl, s string) {
	if l.out != nil {
		fmt.Fprintf(l.out, "    raft %s %s\n", lvl, s)
	}
}

func (l *simLogger) Debug(v ...interface{})                   {}
func (l *simLogger) Debugf(format string, v ...interface{})   {}
func (l *simLogger) Error(v ...interface{})                   { l.p("E", fmt.Sprint(v...)) }
func (l *simLogger) Errorf(format string, v ...interface{})   { l.pf("E", format, v...) }
func (l *simLogger) Info(v ...interface{})                    { l.p("I", fmt.Sprint(v...)) }
func (l *simLogger) Infof(format string, v ...interface{})    { l.pf("I", format, v...) }
func (l *simLogger) Warning(v ...interface{})                 { l.p("W", fmt.Sprint(v...)) }
func (l *simLogger) Warningf(format string, v ...interface{}) { l.pf("W", format, v...) }
func (l *simLogger) Fatal(v ...interface{})                   { panic(fmt.Sprint(v...)) }
func (l *simLogger) Fatalf(format string, v ...interface{})   { panic(fmt.Sprintf(format, v...)) }
func (l *simLogger) Panic(v ...interface{})                   { panic(fmt.Sprint(v...)) }
func (l *simLogger) Panicf(format string, v ...interface{})   { panic(fmt.Sprintf(format, v...)) }

func (l *simLogger) pf(lvl, format string, v ...interface{}) {
	if l.out != nil {
		l.p(lvl, fmt.Sprintf(format, v...))
	}
}
