// Package raftsim is engine E1 of the runtime-verification framework: a
// deterministic single-threaded simulator around the real raft.Node of
// github.com/youzan/ZanRedisDB/raft, driven by seeded adversarial schedules
// and scenario directors and observed by the monitors of C01, C02 and C03.
// See /verif/DESIGN.md section 2 (E1) and section 3 (C01-C03).
package raftsim

import (
	"context"
	"encoding/binary"
	"fmt"
	"io"
	"math"
	"regexp"
	"runtime"
	"sort"
	"strings"

	"github.com/youzan/ZanRedisDB/engine"
	"github.com/youzan/ZanRedisDB/raft"
	pb "github.com/youzan/ZanRedisDB/raft/raftpb"
)

const (
	groupName = "g"
	groupGID  = 1
	maxIDs    = 9 // replica ids 1..maxIDs, never reused
	// SettleBound is B of C03: fair rounds after healing within which every
	// live member must have applied everything committed.
	SettleBound = 1000
)

// SimConfig is the part of a schedule that is not the action list.
type SimConfig struct {
	Voters           int    `json:"voters"`
	Learners         int    `json:"learners"` // added through conf changes in the prologue
	PreVote          bool   `json:"pre_vote"`
	CheckQuorum      bool   `json:"check_quorum"`
	MaxSizePerMsg    uint64 `json:"max_size_per_msg"`
	MaxCommittedSize uint64 `json:"max_committed_size_per_ready"`
	MaxInflight      int    `json:"max_inflight"`
	ElectionTick     int    `json:"election_tick"`
	HeartbeatTick    int    `json:"heartbeat_tick"`
	Storage          string `json:"storage"` // "mem" | "rocks-mem" | "rocks-pebble"
	EarlyLeaderSend  bool   `json:"early_leader_send"`
}

func grp(id uint64) pb.Group {
	return pb.Group{NodeId: id, Name: groupName, GroupId: groupGID, RaftReplicaId: id}
}

type appState struct {
	applied   uint64
	chain     uint64
	conf      pb.ConfState
	confKnown bool
}

// Replica = {raft.Node, storage, applied cursor, app hash chain, conf state}.
type Replica struct {
	id      uint64
	node    raft.Node
	st      raft.IExtRaftStorage
	started bool
	alive   bool
	removed bool // applied its own removal: stopped for good
	learner bool // started as learner (StartNode isLearner)
	peers   []raft.Peer
	app     appState

	role  raft.StateType
	lead  uint64
	term  uint64 // last HardState.Term emitted / restored
	hsCur pb.HardState

	more            bool         // last Ready said MoreCommittedEntries
	confFromSnap    bool         // this incarnation took its configuration base from a snapshot
	sendingEarly    bool         // inside the early send of a replica that just became leader
	leaderMsgs      int          // MsgApp/MsgHeartbeat/MsgSnap stepped in since the last StepNode
	removedAsNonLdr bool         // applied a RemoveNode in its last Ready while not leader
	stepConf        pb.ConfState // configuration in effect when the current Ready was produced
	stepConfKnown   bool
	persistedCommit uint64
	readyN          int
	incarnation     int
	pendingTicks    int
	pendingIn       int
	busySnap        bool
	noApply         bool
	selfRemoved     bool
	propsNoLeader   int
	lastCrashPos    int
	everLeader      bool
}

type flight struct {
	id   int
	m    pb.Message
	held bool
}

// Violation is the first monitor alarm of a schedule.
type Violation struct {
	Sig     string   `json:"signature"`
	Owners  []string `json:"owners"` // checks that report this kind
	Summary string   `json:"summary"`
}

// Sim is one schedule execution.
type Sim struct {
	cfg   SimConfig
	seed  int64
	gid   uint32
	eng   engine.KVEngine
	reps  [maxIDs + 1]*Replica
	net   []*flight
	nextM int
	side  []int // partition side per id; nil = healed
	mon   *Monitor
	st    map[string]int64
	log   *simLogger
	trace io.Writer

	actions []string
	events  []string
	viol    *Violation
	harness error // harness-level problem: the schedule is inconclusive

	propSeq       int
	nextID        uint64
	churn         bool // membership change requested after the prologue
	prologueDone  bool
	removalsAsked map[uint64]bool
	newestConf    pb.ConfState
	newestConfAt  uint64
	settled       bool
	settleRounds  int
	stuck         bool
	faultSeen     bool // a drop/dup/reorder was delivered
	fps           map[uint64]struct{}
	crashCases    map[string]bool // "p3/leader" cases followed by restart (C03)
	pendingCase   map[uint64]string
	snapInstallN  int
	truncN        int
	rootCause     string // classifier result appended to C02/C03 signatures
	check         string // the check whose monitor set reports ("" = all)
	foreign       map[string]bool
}

var nextGid uint32

// NewSim builds the initial group: cfg.Voters voters bootstrapped with
// StartNode(peers). Learners are added by the prologue through conf changes.
func NewSim(check string, cfg SimConfig, seed int64, eng engine.KVEngine, trace io.Writer) *Sim {
	nextGid++
	s := &Sim{check: check, foreign: map[string]bool{}, cfg: cfg, seed: seed, gid: nextGid, eng: eng, st: map[string]int64{}, trace: trace,
		removalsAsked: map[uint64]bool{}, fps: map[uint64]struct{}{}, crashCases: map[string]bool{},
		pendingCase: map[uint64]string{}}
	s.log = &simLogger{out: trace}
	raft.SetLogger(s.log)
	raft.VerifSeedRand(seed)
	s.mon = newMonitor(s)
	peers := make([]raft.Peer, 0, cfg.Voters)
	for i := 1; i <= cfg.Voters; i++ {
		peers = append(peers, raft.Peer{NodeID: uint64(i), ReplicaID: uint64(i), Context: []byte(fmt.Sprintf("m%d", i))})
	}
	for i := 1; i <= cfg.Voters; i++ {
		s.startReplica(uint64(i), peers, false)
	}
	s.nextID = uint64(cfg.Voters) + 1
	return s
}

func (s *Sim) rep(id uint64) *Replica {
	if id == 0 || id > maxIDs {
		return nil
	}
	return s.reps[id]
}

func (s *Sim) count(k string, n int64) { s.st[k] += n }

func (s *Sim) event(format string, a ...interface{}) {
	e := fmt.Sprintf("@%d ", len(s.actions)) + fmt.Sprintf(format, a...)
	if s.trace != nil {
		fmt.Fprintln(s.trace, e)
	}
	s.events = append(s.events, e)
	if len(s.events) > 120 {
		s.events = append(s.events[:0], s.events[40:]...)
	}
}

func (s *Sim) violate(sig string, owners []string, format string, a ...interface{}) {
	if s.viol != nil {
		return
	}
	if s.rootCause != "" {
		for _, o := range owners {
			if o == "C02" || o == "C03" {
				sig += "/" + s.rootCause
				break
			}
		}
	}
	if s.check != "" {
		mine := false
		for _, o := range owners {
			if o == s.check {
				mine = true
			}
		}
		if !mine {
			// belongs to another check's monitor set: counted, not reported here,
			// and the schedule goes on (the monitors are independent)
			if !s.foreign[sig] {
				s.foreign[sig] = true
				s.count("foreign_violations/"+sig, 1)
				s.event("(other check's monitor) %s: %s", sig, fmt.Sprintf(format, a...))
			}
			return
		}
	}
	s.viol = &Violation{Sig: sig, Owners: owners, Summary: fmt.Sprintf(format, a...)}
	s.event("VIOLATION %s: %s", sig, s.viol.Summary)
}

var allChecks = []string{"C01", "C02", "C03"}

var reDigits = regexp.MustCompile(`[0-9a-fx]*[0-9]+[0-9a-fx]*`)
var reNonAl = regexp.MustCompile(`[^a-z]+`)

func panicClass(msg string) string {
	m := strings.ToLower(msg)
	m = reDigits.ReplaceAllString(m, "")
	m = reNonAl.ReplaceAllString(m, "-")
	m = strings.Trim(m, "-")
	if len(m) > 56 {
		m = m[:56]
	}
	return strings.Trim(m, "-")
}

// lib runs fn, which calls into the raft library. A panic raised by library
// code (or by a Panicf of the library through our logger) becomes a violation
// witness; a panic raised by harness code is re-raised.
func (s *Sim) lib(where string, r *Replica, fn func()) (ok bool) {
	defer func() {
		if p := recover(); p != nil {
			buf := make([]byte, 1<<14)
			buf = buf[:runtime.Stack(buf, false)]
			if !libraryPanic(string(buf)) {
				panic(fmt.Sprintf("harness panic in %s: %v\n%s", where, p, buf))
			}
			msg := fmt.Sprint(p)
			var id uint64
			if r != nil {
				id = r.id
			}
			if where == "restart" {
				s.violate("restart-panic/"+panicClass(msg), []string{"C03"}, "replica %d panicked while restarting from its storage: %s", id, msg)
			} else {
				s.violate("raft-panic/"+panicClass(msg), allChecks, "replica %d: raft library panicked in %s: %s", id, where, msg)
			}
			s.count("raft_panics", 1)
			if r != nil && r.alive {
				// the node is unusable now; treat it as crashed
				r.alive = false
				r.node = nil
			}
			ok = false
		}
	}()
	fn()
	return true
}

// libraryPanic reports whether the innermost non-runtime, non-logger frame of
// the panicking stack belongs to the repository (raft/engine), i.e. whether
// the library rather than the harness raised the panic.
func libraryPanic(stack string) bool {
	lines := strings.Split(stack, "\n")
	seenPanic := false
	for _, ln := range lines {
		if strings.HasPrefix(ln, "\t") || ln == "" {
			continue
		}
		if strings.HasPrefix(ln, "panic(") || strings.HasPrefix(ln, "runtime.gopanic") {
			seenPanic = true
			continue
		}
		if !seenPanic {
			continue
		}
		if strings.HasPrefix(ln, "runtime.") || strings.Contains(ln, "raftsim.(*simLogger)") || strings.HasPrefix(ln, "log.") || strings.HasPrefix(ln, "fmt.") {
			continue
		}
		return strings.Contains(ln, "github.com/youzan/ZanRedisDB/")
	}
	return false
}

func (s *Sim) newStorage(id uint64) raft.IExtRaftStorage {
	if s.cfg.Storage == "mem" || s.eng == nil {
		return raft.NewRealMemoryStorage()
	}
	return raft.NewRocksStorage(id, s.gid, true, s.eng)
}

func (s *Sim) raftConfig(r *Replica) *raft.Config {
	return &raft.Config{
		ID: r.id, Group: grp(r.id), ElectionTick: s.cfg.ElectionTick, HeartbeatTick: s.cfg.HeartbeatTick,
		Storage: r.st, MaxSizePerMsg: s.cfg.MaxSizePerMsg, MaxCommittedSizePerReady: s.cfg.MaxCommittedSize,
		MaxInflightMsgs: s.cfg.MaxInflight, CheckQuorum: s.cfg.CheckQuorum, PreVote: s.cfg.PreVote, Logger: s.log,
	}
}

func (s *Sim) startReplica(id uint64, peers []raft.Peer, learner bool) {
	r := &Replica{id: id, started: true, alive: true, learner: learner, lastCrashPos: -1, peers: peers}
	s.reps[id] = r
	s.lib("start", r, func() {
		r.st = s.newStorage(id)
		r.node = raft.StartNode(s.raftConfig(r), peers, learner)
	})
	r.term = 1
	s.event("start replica %d learner=%v peers=%d", id, learner, len(peers))
}

func (s *Sim) alive() []*Replica {
	var out []*Replica
	for id := 1; id <= maxIDs; id++ {
		if r := s.reps[id]; r != nil && r.alive {
			out = append(out, r)
		}
	}
	return out
}

func (s *Sim) started() []*Replica {
	var out []*Replica
	for id := 1; id <= maxIDs; id++ {
		if r := s.reps[id]; r != nil {
			out = append(out, r)
		}
	}
	return out
}

// leader returns the live replica that shows StateLeader with the highest term.
func (s *Sim) leader() *Replica {
	var best *Replica
	for _, r := range s.alive() {
		if r.role == raft.StateLeader && (best == nil || r.term > best.term) {
			best = r
		}
	}
	return best
}

func (s *Sim) blocked(a, b uint64) bool {
	if s.side == nil {
		return false
	}
	sa, sb := 0, 0
	if int(a) < len(s.side) {
		sa = s.side[a]
	}
	if int(b) < len(s.side) {
		sb = s.side[b]
	}
	return sa != sb
}

func encodeApp(a *appState) []byte {
	b := make([]byte, 16)
	binary.BigEndian.PutUint64(b[0:8], a.applied)
	binary.BigEndian.PutUint64(b[8:16], a.chain)
	return b
}

func cloneConf(cs pb.ConfState) pb.ConfState {
	var out pb.ConfState
	out.Nodes = append([]uint64{}, cs.Nodes...)
	out.Learners = append([]uint64{}, cs.Learners...)
	for _, g := range cs.Groups {
		gg := *g
		out.Groups = append(out.Groups, &gg)
	}
	for _, g := range cs.LearnerGroups {
		gg := *g
		out.LearnerGroups = append(out.LearnerGroups, &gg)
	}
	return out
}

func hasID(l []uint64, id uint64) bool {
	for _, v := range l {
		if v == id {
			return true
		}
	}
	return false
}

func msgClone(m pb.Message) pb.Message {
	c := m
	if len(m.Entries) > 0 {
		c.Entries = make([]pb.Entry, len(m.Entries))
		copy(c.Entries, m.Entries)
	}
	if len(m.Context) > 0 {
		c.Context = append([]byte{}, m.Context...)
	}
	if len(m.Snapshot.Data) > 0 {
		c.Snapshot.Data = append([]byte{}, m.Snapshot.Data...)
	}
	c.Snapshot.Metadata.ConfState = cloneConf(m.Snapshot.Metadata.ConfState)
	return c
}

// ---------------------------------------------------------------------------
// Ready cycle

// cycle runs one StepNode/Ready/Advance cycle of r, following the order of
// node/raft.go (persist snapshot, entries, hard state; send; apply; Advance).
// crashPos in 0..6 stops the replica at that sub-step (p0..p6); mask selects
// the messages that still leave at p5.
func (s *Sim) cycle(r *Replica, crashPos int, mask uint64, onlyAt uint64) {
	if r == nil || !r.alive {
		return
	}
	var rd raft.Ready
	var has bool
	if !s.lib("StepNode", r, func() { rd, has = r.node.StepNode(!r.noApply, r.busySnap) }) {
		return
	}
	r.pendingTicks, r.pendingIn = 0, 0
	leaderMsgs := r.leaderMsgs
	r.leaderMsgs = 0
	r.more = has && rd.MoreCommittedEntries
	if !has {
		return
	}
	// Root-cause classifier (not an oracle): a replica that is not leader and
	// was told nothing by a leader since its last step can only have moved
	// its commit index by itself. Seen after ApplyConfChange(RemoveNode):
	// raft.removeNode calls maybeCommit without checking r.state.
	if r.removedAsNonLdr && leaderMsgs == 0 && r.role != raft.StateLeader &&
		!(rd.SoftState != nil && rd.SoftState.RaftState == raft.StateLeader) &&
		!raft.IsEmptyHardState(rd.HardState) && rd.HardState.Commit > r.hsCur.Commit {
		if s.rootCause == "" {
			s.rootCause = "nonleader-commit-on-removenode"
		}
		s.count("nonleader_commit_on_removenode", 1)
		s.event("replica %d (%s, term %d) moved its commit index %d -> %d right after applying a RemoveNode, without any leader message", r.id, r.role, r.term, r.hsCur.Commit, rd.HardState.Commit)
	}
	r.removedAsNonLdr = false
	r.readyN++
	s.count("readies", 1)
	if onlyAt != 0 && uint64(r.readyN) != onlyAt {
		crashPos = -1 // armed for another Ready of this replica
	}
	hasSnap := !raft.IsEmptySnap(rd.Snapshot)
	if rd.MoreCommittedEntries {
		s.count("more_committed_entries_readies", 1)
	}
	// the configuration the raft state machine had when it produced this
	// Ready: the replica's applied configuration, or the snapshot it restored
	// during this step (committed conf changes of this Ready come later)
	r.stepConf, r.stepConfKnown = r.app.conf, r.app.confKnown
	if hasSnap {
		r.stepConf, r.stepConfKnown = rd.Snapshot.Metadata.ConfState, true
	}
	s.mon.onReady(r, &rd, hasSnap)
	if s.viol != nil {
		return
	}
	becameLeader := rd.SoftState != nil && rd.SoftState.RaftState == raft.StateLeader
	if crashPos == 0 {
		s.crashAt(r, 0, true)
		return
	}
	msgs := make([]pb.Message, 0, len(rd.Messages))
	for _, m := range rd.Messages {
		if m.To != 0 {
			msgs = append(msgs, msgClone(m))
		}
	}
	// Ready.Messages is built while iterating Go maps (bcastAppend, campaign):
	// canonical order = stable by destination, so that message ids replay.
	sort.SliceStable(msgs, func(i, j int) bool { return msgs[i].To < msgs[j].To })
	sent := false
	if becameLeader && s.cfg.EarlyLeaderSend {
		// node/raft.go: a replica that just became leader sends before it persists
		r.sendingEarly = true
		s.sendAll(r, msgs, ^uint64(0))
		r.sendingEarly = false
		sent = true
		s.count("early_leader_sends", 1)
	}
	// --- persist
	ok := true
	if hasSnap {
		// A snapshot record without a hard state covering it is ignored at
		// restart (wal.ValidSnapshotEntries), so the snapshot, the entries and
		// the hard state of such a Ready become effective together at p3.
		if crashPos == 1 || crashPos == 2 {
			s.crashAt(r, crashPos, true)
			return
		}
		s.lib("persist", r, func() {
			if err := r.st.ApplySnapshot(rd.Snapshot); err != nil {
				s.violate("storage-error/ApplySnapshot", allChecks, "replica %d: storage.ApplySnapshot(%d/%d) failed: %v", r.id, rd.Snapshot.Metadata.Index, rd.Snapshot.Metadata.Term, err)
				ok = false
				return
			}
			ok = s.appendEntries(r, rd.Entries)
		})
	} else {
		if crashPos == 1 {
			s.crashAt(r, 1, false)
			return
		}
		s.lib("persist", r, func() { ok = s.appendEntries(r, rd.Entries) })
		if s.viol == nil && crashPos == 2 {
			s.crashAt(r, 2, len(rd.Entries) > 0)
			return
		}
	}
	if s.viol != nil || !ok {
		return
	}
	if !raft.IsEmptyHardState(rd.HardState) {
		s.lib("persist", r, func() { r.st.SetHardState(rd.HardState) })
		r.hsCur = rd.HardState
		s.mon.onPersistHS(r, rd.HardState)
		if s.viol != nil {
			return
		}
	}
	if crashPos == 3 {
		s.crashAt(r, 3, !raft.IsEmptyHardState(rd.HardState))
		return
	}
	if becameLeader {
		r.everLeader = true
		s.mon.onBecameLeader(r)
		if s.viol != nil {
			return
		}
	}
	if crashPos == 4 {
		s.crashAt(r, 4, len(msgs) > 0)
		return
	}
	// --- send / apply. Like processReady, a Ready that carries a snapshot or a
	// committed conf change is applied before its messages leave.
	waitApply := hasSnap
	for i := range rd.CommittedEntries {
		if rd.CommittedEntries[i].Type == pb.EntryConfChange {
			waitApply = true
		}
	}
	if waitApply {
		s.applyReady(r, &rd, hasSnap)
		if s.viol != nil || !r.alive {
			return
		}
	}
	if crashPos == 5 {
		if !sent {
			n := uint64(len(msgs))
			if n > 0 {
				full := (uint64(1) << n) - 1
				if n >= 64 {
					full = ^uint64(0)
				}
				if mask&full == full { // strict subset
					mask &^= 1 << (n - 1)
				}
			}
			s.sendAll(r, msgs, mask)
		}
		s.crashAt(r, 5, len(msgs) > 1)
		return
	}
	if !sent {
		s.sendAll(r, msgs, ^uint64(0))
	}
	if !waitApply {
		s.applyReady(r, &rd, hasSnap)
		if s.viol != nil || !r.alive {
			return
		}
	}
	if crashPos == 6 {
		s.crashAt(r, 6, true)
		return
	}
	if !s.lib("Advance", r, func() { r.node.Advance(rd) }) {
		return
	}
	if r.selfRemoved {
		s.event("replica %d applied its own removal and stops", r.id)
		r.node.Stop()
		r.alive, r.removed, r.node = false, true, nil
		s.count("self_removed_stops", 1)
	}
	s.fingerprint()
}

func (s *Sim) appendEntries(r *Replica, ents []pb.Entry) bool {
	if len(ents) == 0 {
		return true
	}
	last, _ := r.st.LastIndex()
	if ents[0].Index <= last {
		first, _ := r.st.FirstIndex()
		if ents[0].Index >= first {
			s.truncN++
			s.count("log_truncations", 1)
			s.event("replica %d overwrites its persisted suffix from index %d (last %d)", r.id, ents[0].Index, last)
		}
	}
	cp := make([]pb.Entry, len(ents))
	copy(cp, ents)
	if err := r.st.Append(cp); err != nil {
		s.violate("storage-error/Append", allChecks, "replica %d: storage.Append([%d..%d]) failed: %v", r.id, ents[0].Index, ents[len(ents)-1].Index, err)
		return false
	}
	s.count("entries_persisted", int64(len(ents)))
	return true
}

func (s *Sim) sendAll(r *Replica, msgs []pb.Message, mask uint64) {
	for i, m := range msgs {
		if i < 64 && mask&(1<<uint(i)) == 0 {
			s.count("unsent_at_crash/"+m.Type.String(), 1)
			continue
		}
		s.mon.onSend(r, &m)
		if s.viol != nil {
			return
		}
		s.count("sent/"+m.Type.String(), 1)
		if s.blocked(m.From, m.To) {
			s.count("dropped_partition/"+m.Type.String(), 1)
			s.lost(&m)
			continue
		}
		s.nextM++
		s.net = append(s.net, &flight{id: s.nextM, m: m})
	}
	// keep the bag bounded: the oldest messages are lost
	for len(s.net) > 600 {
		f := s.net[0]
		s.net = s.net[1:]
		s.count("dropped_overflow/"+f.m.Type.String(), 1)
		s.lost(&f.m)
	}
}

// lost tells the sender what the transport would tell it about a message that
// did not arrive.
func (s *Sim) lost(m *pb.Message) {
	snd := s.rep(m.From)
	if snd == nil || !snd.alive {
		return
	}
	if m.Type == pb.MsgSnap {
		snd.node.ReportSnapshot(m.To, m.ToGroup, raft.SnapshotFailure)
		snd.pendingIn++
	} else if m.Type == pb.MsgApp || m.Type == pb.MsgHeartbeat {
		snd.node.ReportUnreachable(m.To, m.ToGroup)
		snd.pendingIn++
	}
}

func (s *Sim) applyReady(r *Replica, rd *raft.Ready, hasSnap bool) {
	if hasSnap {
		s.mon.onInstall(r, &rd.Snapshot)
		if s.viol != nil {
			return
		}
		d := rd.Snapshot.Data
		if len(d) == 16 {
			r.app.applied = binary.BigEndian.Uint64(d[0:8])
			r.app.chain = binary.BigEndian.Uint64(d[8:16])
		}
		r.app.conf = cloneConf(rd.Snapshot.Metadata.ConfState)
		r.app.confKnown = true
		r.confFromSnap = true
		s.noteConf(r)
		s.snapInstallN++
		s.count("snapshots_installed", 1)
		s.event("replica %d installs snapshot %d/%d voters=%v learners=%v", r.id, rd.Snapshot.Metadata.Index, rd.Snapshot.Metadata.Term, r.app.conf.Nodes, r.app.conf.Learners)
	}
	for i := range rd.CommittedEntries {
		e := &rd.CommittedEntries[i]
		s.mon.onApply(r, e)
		if s.viol != nil {
			return
		}
		s.count("entries_applied", 1)
		if e.Type == pb.EntryConfChange {
			var cc pb.ConfChange
			if err := cc.Unmarshal(e.Data); err != nil {
				s.harness = fmt.Errorf("conf change entry %d does not unmarshal: %v", e.Index, err)
				return
			}
			var cs *pb.ConfState
			if !s.lib("ApplyConfChange", r, func() { cs = s.applyConf(r, cc) }) {
				return
			}
			r.app.conf = cloneConf(*cs)
			r.app.confKnown = true
			s.noteConf(r)
			s.count("conf_applied/"+cc.Type.String(), 1)
			if cc.Type == pb.ConfChangeRemoveNode && cc.ReplicaID == r.id {
				r.selfRemoved = true
			}
			if cc.Type == pb.ConfChangeRemoveNode && r.role != raft.StateLeader {
				r.removedAsNonLdr = true
			}
			s.event("replica %d applies conf change %s %d at index %d -> voters=%v learners=%v", r.id, cc.Type, cc.ReplicaID, e.Index, cs.Nodes, cs.Learners)
		}
	}
}

// applyConf is the hand-off of the real loop: the applier blocks in
// ApplyConfChange while the raft loop takes the change from ConfChangedCh and
// runs HandleConfChanged.
func (s *Sim) applyConf(r *Replica, cc pb.ConfChange) *pb.ConfState {
	done := make(chan *pb.ConfState, 1)
	n := r.node
	go func() { done <- n.ApplyConfChange(cc) }()
	got := <-n.ConfChangedCh()
	n.HandleConfChanged(got)
	return <-done
}

func (s *Sim) noteConf(r *Replica) {
	if r.app.applied >= s.newestConfAt {
		s.newestConfAt = r.app.applied
		s.newestConf = cloneConf(r.app.conf)
	}
}

func (s *Sim) fingerprint() {
	var h uint64 = 1469598103934665603
	for id := 1; id <= maxIDs; id++ {
		r := s.reps[id]
		var v uint64
		if r != nil && r.alive {
			v = uint64(r.role)<<32 | (r.term & 0xffffffff) | 1<<40
		}
		h ^= v + uint64(id)
		h *= 1099511628211
	}
	s.fps[h] = struct{}{}
}

// ---------------------------------------------------------------------------
// crash / restart

func (s *Sim) crashAt(r *Replica, pos int, effective bool) {
	if !r.alive {
		return
	}
	wasLeader := r.role == raft.StateLeader
	r.node.Stop()
	r.node = nil
	r.alive = false
	r.app = appState{}
	r.confFromSnap = false
	r.role, r.lead = raft.StateFollower, 0
	r.busySnap, r.noApply = false, false
	r.lastCrashPos = pos
	if pos >= 0 {
		kind := "single"
		if wasLeader {
			kind = "leader"
		}
		total, down := 0, 0
		for _, x := range s.started() {
			if x.removed {
				continue
			}
			total++
			if !x.alive {
				down++
			}
		}
		if total > 1 && down == total {
			kind = "all"
		} else if total > 1 && down*2 > total {
			kind = "majority"
		}
		s.pendingCase[r.id] = fmt.Sprintf("p%d/%s", pos, kind)
		s.count(fmt.Sprintf("crash_p%d", pos), 1)
		if effective {
			s.count(fmt.Sprintf("crash_p%d_effective", pos), 1)
		}
	} else {
		s.count("crash_between_readies", 1)
	}
	s.event("replica %d crashes at p%d (ready #%d)", r.id, pos, r.readyN)
}

// restart rebuilds the replica only from what its storage object holds, the
// way replayWAL does: newest snapshot, hard state, entries after the snapshot.
func (s *Sim) restart(r *Replica, advanceTicks bool) {
	if r == nil || r.alive || r.removed || !r.started {
		return
	}
	old := r.st
	var rerr string
	okk := s.lib("restart", r, func() {
		snap, _ := old.Snapshot()
		hs, _, _ := old.InitialState()
		first, _ := old.FirstIndex()
		last, _ := old.LastIndex()
		lo := first
		if snap.Metadata.Index+1 > lo {
			lo = snap.Metadata.Index + 1
		}
		var ents []pb.Entry
		if last >= lo {
			e, err := old.Entries(lo, last+1, math.MaxUint64)
			if err != nil {
				rerr = fmt.Sprintf("Entries: storage.Entries(%d,%d) with first=%d last=%d failed: %v", lo, last+1, first, last, err)
				return
			}
			ents = make([]pb.Entry, len(e))
			copy(ents, e)
		}
		nst := s.newStorage(r.id)
		if raft.IsEmptySnap(snap) && raft.IsEmptyHardState(hs) && len(ents) == 0 {
			// nothing was ever persisted: the process starts like the first time
			r.st = nst
			r.node = raft.StartNode(s.raftConfig(r), r.peers, r.learner)
			r.term, r.hsCur, r.persistedCommit, r.app = 1, hs, 0, appState{}
			s.count("restarts_from_empty_storage", 1)
			return
		}
		if !raft.IsEmptySnap(snap) {
			snap.Data = append([]byte{}, snap.Data...)
			snap.Metadata.ConfState = cloneConf(snap.Metadata.ConfState)
			if err := nst.ApplySnapshot(snap); err != nil {
				rerr = fmt.Sprintf("ApplySnapshot: %v", err)
				return
			}
		}
		nst.SetHardState(hs)
		if err := nst.Append(ents); err != nil {
			rerr = fmt.Sprintf("Append: %v", err)
			return
		}
		r.st = nst
		r.node = raft.RestartNode(s.raftConfig(r))
		r.term = hs.Term
		r.hsCur = hs
		r.persistedCommit = hs.Commit
		r.app = appState{}
		if !raft.IsEmptySnap(snap) && len(snap.Data) == 16 {
			r.app.applied = binary.BigEndian.Uint64(snap.Data[0:8])
			r.app.chain = binary.BigEndian.Uint64(snap.Data[8:16])
			r.app.conf = cloneConf(snap.Metadata.ConfState)
			r.app.confKnown = true
			r.confFromSnap = true
		}
	})
	if !okk {
		return
	}
	if rerr != "" {
		s.violate("restart-error/"+strings.SplitN(rerr, ":", 2)[0], []string{"C03"}, "replica %d cannot be rebuilt from its storage object: %s", r.id, rerr)
		return
	}
	r.alive = true
	r.incarnation++
	r.role, r.lead = raft.StateFollower, 0
	r.pendingTicks, r.pendingIn, r.propsNoLeader = 0, 0, 0
	s.mon.onRestart(r)
	s.count("restarts", 1)
	if c, ok := s.pendingCase[r.id]; ok {
		s.crashCases[c] = true
		s.count("crash_case_restarted/"+c, 1)
		delete(s.pendingCase, r.id)
	}
	if advanceTicks {
		for i := 0; i < s.cfg.ElectionTick-1; i++ {
			r.node.Tick()
			r.pendingTicks++
		}
	}
	s.event("replica %d restarts: term=%d commit=%d app.applied=%d", r.id, r.term, r.persistedCommit, r.app.applied)
}

var bg = context.Background()
