package raftsim

import (
	"bufio"
	"encoding/json"
	"fmt"
	"hash/fnv"
	"io"
	"io/ioutil"
	"math/rand"
	"os"
	"os/exec"
	"path/filepath"
	"sort"
	"strconv"
	"strings"
	"sync"
	"time"

	"github.com/youzan/ZanRedisDB/engine"

	"verif/harness/vc"
)

func init() {
	vc.Register("C01", "exploration", func(c *vc.Ctx) error { return runCheck(c, "C01") })
	vc.Register("C02", "exploration", func(c *vc.Ctx) error { return runCheck(c, "C02") })
	vc.Register("C03", "fault_enumeration", func(c *vc.Ctx) error { return runCheck(c, "C03") })
	vc.RegisterChild("raftsim-shard", shardMain)
	vc.RegisterChild("raftsim-one", debugMain)
}

// Spec describes one schedule; it is a function of (check, tier, seed, index).
type Spec struct {
	Check string    `json:"check"`
	Tier  string    `json:"tier"`
	Idx   int       `json:"index"`
	Kind  string    `json:"kind"` // random | director | enum
	Name  string    `json:"name"` // profile / director / enum script
	Seed  int64     `json:"seed"` // schedule seed (generator PRNG and raft election PRNG)
	Cfg   SimConfig `json:"config"`
	Steps int       `json:"steps,omitempty"`
	Cold  bool      `json:"cold_start,omitempty"`
	Enum  *EnumCase `json:"enum,omitempty"`
}

// Witness is what a replay needs: seed + config + the executed action list.
type Witness struct {
	Spec    Spec      `json:"spec"`
	Seed    int64     `json:"raft_prng_seed"`
	Config  SimConfig `json:"config"`
	Actions []string  `json:"actions"`
	Events  []string  `json:"last_events"`
	Sig     string    `json:"signature"`
	Summary string    `json:"first_offending_event"`
	Note    string    `json:"note"`
}

type specResult struct {
	Idx          int         `json:"i"`
	Viol         *Violation  `json:"viol,omitempty"`
	Witness      *Witness    `json:"witness,omitempty"`
	Inconclusive string      `json:"inconclusive,omitempty"`
	Nontrivial   []string    `json:"nt,omitempty"`
	Sample       interface{} `json:"sample,omitempty"`
	Done         bool        `json:"done"`
}

type shardTotals struct {
	Totals bool             `json:"totals"`
	Stats  map[string]int64 `json:"stats"`
	Max    map[string]int64 `json:"max"`
}

// ---------------------------------------------------------------------------
// spec lists

func counts(check, tier string) (random, directors, enum int) {
	q := tier != "thorough"
	switch check {
	case "C01":
		if q {
			return 2000, 1000, 0
		}
		return 30000, 15000, 0
	case "C02":
		if q {
			return 2000, 1000, 0
		}
		return 30000, 15000, 0
	default: // C03
		if q {
			return 1400, 500, 448
		}
		return 16000, 6000, 2 * len(enumScripts) * 7 * 4 * enumMaxK
	}
}

func salt(check string) int64 {
	switch check {
	case "C01":
		return 101
	case "C02":
		return 202
	}
	return 303
}

func numSpecs(check, tier string) int {
	a, b, c := counts(check, tier)
	return a + b + c
}

func makeSpec(check, tier string, seed int64, i int) Spec {
	rng := rand.New(rand.NewSource(seed*1000003 + int64(i)*7919 + 17 + salt(check)*1000000007))
	sp := Spec{Check: check, Tier: tier, Idx: i, Seed: rng.Int63()}
	nr, nd, _ := counts(check, tier)
	thorough := tier == "thorough"
	switch {
	case i < nr:
		sp.Kind = "random"
		var names []string
		switch check {
		case "C01":
			names = []string{"quiet", "lossy", "partition", "crash", "membership", "transfer", "lossy", "partition"}
		case "C02":
			names = []string{"snapshot", "snapshot", "lossy", "partition", "crash", "membership", "transfer", "snapshot"}
		default:
			names = []string{"crash", "crash", "crash", "crash", "snapshot", "partition", "lossy", "crash"}
		}
		sp.Name = names[i%len(names)]
		sp.Cfg = drawConfig(rng, storageMix)
		if check == "C03" && sp.Name != "membership" {
			// progress is decided on fixed membership only
		}
		if check == "C02" && rng.Intn(2) == 0 {
			sp.Cfg.MaxCommittedSize = []uint64{1, 1, 200}[rng.Intn(3)]
		}
		sp.Steps = 1500 + rng.Intn(2500)
		if thorough {
			sp.Steps = 2000 + rng.Intn(8000)
		}
		sp.Cold = rng.Intn(10) < 3
	case i < nr+nd:
		sp.Kind = "director"
		sp.Name = directorNames[(i-nr)%len(directorNames)]
		sp.Cfg = directorConfig(sp.Name, rng)
	default:
		sp.Kind = "enum"
		k := i - nr - nd
		ec := enumCase(tier, k, rng)
		sp.Enum = &ec
		sp.Name = ec.Script
		sp.Cfg = enumConfig(ec, rng)
	}
	return sp
}

// ---------------------------------------------------------------------------
// engines (one mem and one pebble KV engine per process, shared by all
// schedules the way SharedRocksWAL shares one engine between raft groups)

type engines struct {
	dir string
	m   map[string]engine.KVEngine
	gen int
}

func (e *engines) get(kind string) (engine.KVEngine, error) {
	if kind == "mem" {
		return nil, nil
	}
	if eng, ok := e.m[kind]; ok {
		return eng, nil
	}
	cfg := engine.NewRockConfig()
	cfg.DataDir = filepath.Join(e.dir, kind)
	cfg.DisableWAL = true
	cfg.DisableMergeCounter = true
	cfg.EnableTableCounter = false
	cfg.BlockCache = 8 << 20
	cfg.WriteBufferSize = 4 << 20
	cfg.EngineType = strings.TrimPrefix(kind, "rocks-") // "mem" | "pebble", never rocksdb
	if cfg.EngineType != "mem" && cfg.EngineType != "pebble" {
		return nil, fmt.Errorf("engine type %q not allowed", cfg.EngineType)
	}
	eng, err := engine.NewKVEng(cfg)
	if err != nil {
		return nil, err
	}
	if err := eng.OpenEng(); err != nil {
		return nil, err
	}
	if e.m == nil {
		e.m = map[string]engine.KVEngine{}
	}
	e.m[kind] = eng
	return eng, nil
}

// healthy reports whether the on-disk engine still has its files (another
// process cleaning /tmp must not turn into a verdict).
func (e *engines) healthy(kind string) bool {
	if kind != "rocks-pebble" {
		return true
	}
	if _, ok := e.m[kind]; !ok {
		return true
	}
	_, err := os.Stat(filepath.Join(e.dir, kind, "pebble", "CURRENT"))
	return err == nil
}

// renew abandons a broken engine and opens a fresh one in a new directory.
func (e *engines) renew(kind string) {
	if eng, ok := e.m[kind]; ok {
		func() {
			defer func() { recover() }()
			eng.CloseAll()
		}()
		delete(e.m, kind)
	}
	e.gen++
	e.dir = filepath.Join(filepath.Dir(e.dir), fmt.Sprintf("%s-renew%d", filepath.Base(e.dir), e.gen))
	os.MkdirAll(e.dir, 0755)
}

func (e *engines) close() {
	for _, eng := range e.m {
		eng.CloseAll()
	}
}

// ---------------------------------------------------------------------------
// running one spec

type outcome struct {
	sim  *Sim
	inc  string
	spec Spec
}

func runSpec(sp Spec, engs *engines, trace io.Writer) (o outcome) {
	o.spec = sp
	if !engs.healthy(sp.Cfg.Storage) {
		engs.renew(sp.Cfg.Storage)
	}
	eng, err := engs.get(sp.Cfg.Storage)
	if err != nil {
		o.inc = "engine: " + err.Error()
		return
	}
	defer func() {
		if p := recover(); p != nil {
			o.inc = fmt.Sprintf("harness panic (schedule %s/%d seed %d): %v", sp.Check, sp.Idx, sp.Seed, p)
		}
	}()
	chk := sp.Check
	if os.Getenv("RAFTSIM_ALL") != "" {
		chk = "" // development: report every monitor
	}
	s := NewSim(chk, sp.Cfg, sp.Seed, eng, trace)
	o.sim = s
	rng := rand.New(rand.NewSource(sp.Seed ^ 0x5DEECE66D))
	ok := true
	switch sp.Kind {
	case "random":
		ok = runRandom(s, rng, profiles[sp.Name], sp.Steps, sp.Cold)
	case "director":
		ok = runDirector(sp.Name, s, rng)
	case "enum":
		ok = runEnum(s, *sp.Enum, rng)
	}
	if s.harness != nil {
		o.inc = "harness: " + s.harness.Error()
	} else if !ok && s.viol == nil {
		o.inc = fmt.Sprintf("schedule %s/%s/%d did not reach its scenario (prologue or director precondition)", sp.Check, sp.Name, sp.Idx)
	}
	s.closeAll()
	if (s.viol != nil || o.inc != "") && !engs.healthy(sp.Cfg.Storage) {
		o.inc = fmt.Sprintf("schedule %s/%d: the engine directory under the scratch dir disappeared during the run (removed by another process); no verdict", sp.Check, sp.Idx)
		s.viol = nil
		engs.renew(sp.Cfg.Storage)
	}
	return
}

func (s *Sim) closeAll() {
	for _, r := range s.started() {
		if r.node != nil {
			r.node.Stop()
		}
	}
}

func (s *Sim) witness(sp Spec) *Witness {
	w := &Witness{Spec: sp, Seed: s.seed, Config: s.cfg, Actions: s.actions, Events: s.events,
		Note: "replay: ./check <id> --replay <this file>; RAFTSIM_TRACE=1 prints every action, event and raft log line"}
	if s.viol != nil {
		w.Sig, w.Summary = s.viol.Sig, s.viol.Summary
	}
	return w
}

func hashActions(a []string) string {
	h := fnv.New64a()
	for _, x := range a {
		h.Write([]byte(x))
		h.Write([]byte{0})
	}
	return fmt.Sprintf("%016x", h.Sum64())
}

func owns(v *Violation, check string) bool {
	for _, o := range v.Owners {
		if o == check {
			return true
		}
	}
	return false
}

// nontrivial returns the fingerprints this schedule contributes to
// distinct_nontrivial of the check.
func nontrivial(check string, s *Sim) []string {
	switch check {
	case "C01":
		if s.st["distinct_term_leader"] >= 2 && s.faultSeen {
			return []string{hashActions(s.actions)}
		}
	case "C02":
		if s.snapInstallN > 0 || s.truncN > 0 {
			return []string{hashActions(s.actions)}
		}
	case "C03":
		var out []string
		for k := range s.crashCases {
			out = append(out, k)
		}
		sort.Strings(out)
		return out
	}
	return nil
}

// ---------------------------------------------------------------------------
// child process: runs the schedules whose indexes arrive on stdin, strictly
// one after the other (the election PRNG of package raft is process-global).

func shardMain(args []string) int {
	if len(args) < 4 {
		fmt.Fprintln(os.Stderr, "usage: raftsim-shard <check> <tier> <seed> <scratch>")
		return 2
	}
	check, tier := args[0], args[1]
	seed, _ := strconv.ParseInt(args[2], 10, 64)
	engine.SetLogger(0, nil)
	engs := &engines{dir: args[3]}
	defer engs.close()
	out := bufio.NewWriterSize(os.Stdout, 1<<16)
	emit := func(v interface{}) {
		b, _ := json.Marshal(v)
		out.WriteString("RS ")
		out.Write(b)
		out.WriteString("\n")
		out.Flush()
	}
	tot := shardTotals{Totals: true, Stats: map[string]int64{}, Max: map[string]int64{}}
	in := bufio.NewScanner(os.Stdin)
	samples := 0
	for in.Scan() {
		idx, err := strconv.Atoi(strings.TrimSpace(in.Text()))
		if err != nil {
			continue
		}
		sp := makeSpec(check, tier, seed, idx)
		t0 := time.Now()
		o := runSpec(sp, engs, nil)
		if ms := time.Since(t0).Milliseconds(); ms > tot.Max["max_schedule_wall_ms"] {
			tot.Max["max_schedule_wall_ms"] = ms
		}
		res := specResult{Idx: idx, Done: true}
		if o.inc != "" {
			res.Inconclusive = o.inc
			emit(res)
			continue
		}
		s := o.sim
		mergeStats(&tot, sp, s)
		if s.viol != nil {
			res.Viol = s.viol
			if owns(s.viol, check) {
				res.Witness = s.witness(sp)
			}
		}
		res.Nontrivial = nontrivial(check, s)
		if samples < 2 && idx < 64 {
			samples++
			n := len(s.actions)
			if n > 40 {
				n = 40
			}
			res.Sample = map[string]interface{}{"index": idx, "kind": sp.Kind, "name": sp.Name, "config": sp.Cfg, "schedule_seed": sp.Seed,
				"actions_total": len(s.actions), "schedule_prefix": s.actions[:n]}
		}
		emit(res)
	}
	emit(tot)
	return 0
}

func mergeStats(tot *shardTotals, sp Spec, s *Sim) {
	for k, v := range s.st {
		if strings.HasPrefix(k, "max_") {
			if v > tot.Max[k] {
				tot.Max[k] = v
			}
		} else {
			tot.Stats[k] += v
		}
	}
	tot.Stats["schedules/"+sp.Kind+"/"+sp.Name]++
	tot.Stats["config/storage/"+sp.Cfg.Storage]++
	tot.Stats[fmt.Sprintf("config/voters/%d+%d", sp.Cfg.Voters, sp.Cfg.Learners)]++
	tot.Stats[fmt.Sprintf("config/prevote_checkquorum/%v", sp.Cfg.PreVote)]++
	tot.Stats["actions"] += int64(len(s.actions))
	tot.Stats["state_fingerprints"] += int64(len(s.fps))
	if int64(s.mon.maxTerm) > tot.Max["max_term"] {
		tot.Max["max_term"] = int64(s.mon.maxTerm)
	}
	if s.settled {
		if s.churn {
			tot.Stats["settle/with_churn_not_decided"]++
		} else if !s.stuck {
			tot.Stats["settle/progress_decided_converged"]++
		}
	}
}

// ---------------------------------------------------------------------------
// parent

func runCheck(c *vc.Ctx, check string) error {
	engine.SetLogger(0, nil)
	setEvidenceText(c, check)
	if c.Replay != "" {
		return replay(c, check)
	}
	n := numSpecs(check, c.Tier)
	exe, err := os.Executable()
	if err != nil {
		return err
	}
	workers := c.Workers
	if workers > n {
		workers = n
	}
	var mu sync.Mutex
	next := 0
	take := func() int {
		mu.Lock()
		defer mu.Unlock()
		if next >= n {
			return -1
		}
		next++
		return next - 1
	}
	deadline := 20 * time.Minute
	if c.Thorough() {
		deadline = 3 * time.Hour
	}
	var wg sync.WaitGroup
	var failMu sync.Mutex
	var fail []string
	samples := 0
	for w := 0; w < workers; w++ {
		wg.Add(1)
		go func(w int) {
			defer wg.Done()
			dir := filepath.Join(c.Scratch, fmt.Sprintf("shard-%d", w))
			os.MkdirAll(dir, 0755)
			cmd := exec.Command(exe, "--child", "raftsim-shard", check, c.Tier, strconv.FormatInt(c.Seed, 10), dir)
			cmd.Env = append(os.Environ(), "GOMAXPROCS=2", "GOGC=300", "GOMEMLIMIT=640MiB")
			errf, _ := os.Create(filepath.Join(dir, "stderr.log"))
			cmd.Stderr = errf
			stdin, _ := cmd.StdinPipe()
			stdout, _ := cmd.StdoutPipe()
			if err := cmd.Start(); err != nil {
				failMu.Lock()
				fail = append(fail, err.Error())
				failMu.Unlock()
				return
			}
			timer := time.AfterFunc(deadline, func() { cmd.Process.Kill() })
			defer timer.Stop()
			rd := bufio.NewReaderSize(stdout, 1<<20)
			readLine := func() (string, error) {
				for {
					ln, err := rd.ReadString('\n')
					if strings.HasPrefix(ln, "RS ") {
						return ln[3:], nil
					}
					if err != nil {
						return "", err
					}
				}
			}
			broken := false
			for !broken {
				i := take()
				if i < 0 {
					break
				}
				fmt.Fprintf(stdin, "%d\n", i)
				ln, err := readLine()
				if err != nil {
					broken = true
					tail := ""
					if errf != nil {
						b, _ := ioutil.ReadFile(errf.Name())
						if len(b) > 1500 {
							b = b[len(b)-1500:]
						}
						tail = string(b)
					}
					c.Inconclusive(fmt.Sprintf("shard %d died while running schedule %d: %v %s", w, i, err, tail))
					break
				}
				var res specResult
				if err := json.Unmarshal([]byte(ln), &res); err != nil {
					c.Inconclusive(fmt.Sprintf("shard %d: bad result line for schedule %d: %v", w, i, err))
					continue
				}
				if res.Inconclusive != "" {
					c.Inconclusive(res.Inconclusive)
					continue
				}
				c.Ev.Eval()
				for _, fp := range res.Nontrivial {
					c.Ev.Nontrivial(fp)
				}
				if res.Sample != nil {
					mu.Lock()
					if samples < 4 {
						samples++
						c.Ev.Sample(4, res.Sample)
					}
					mu.Unlock()
				}
				if res.Viol != nil && res.Witness != nil {
					c.Violation(res.Viol.Sig, res.Viol.Summary, res.Witness)
				}
			}
			stdin.Close()
			if !broken {
				if ln, err := readLine(); err == nil {
					var tot shardTotals
					if json.Unmarshal([]byte(ln), &tot) == nil && tot.Totals {
						for k, v := range tot.Stats {
							c.Ev.Count(k, v)
						}
						for k, v := range tot.Max {
							c.Ev.Max(k, v)
						}
					}
				}
			}
			cmd.Wait()
			if errf != nil {
				errf.Close()
			}
		}(w)
	}
	wg.Wait()
	if len(fail) > 0 {
		return fmt.Errorf("could not start shard processes: %v", fail)
	}
	c.Ev.Set("schedules_planned", n)
	for _, k := range []string{"stuck_after_churn", "elections_won", "distinct_term_leader", "snapshots_created", "snapshots_installed",
		"entries_applied", "log_truncations", "state_fingerprints", "raft_panics", "more_committed_entries_readies", "restarts"} {
		c.Ev.Count(k, 0)
	}
	if c.InconclusiveCount() > 0 && c.Violations() == 0 && int(c.Ev.Evals()) < n*9/10 {
		return fmt.Errorf("%d of %d schedules were inconclusive", c.InconclusiveCount(), n)
	}
	return nil
}

func setEvidenceText(c *vc.Ctx, check string) {
	switch check {
	case "C01":
		c.Ev.Rule = "schedules = seeded random action mixes (tick/deliver/drop/dup/hold/partition/propose/conf change/transfer/snapshot/crash at p0..p6/restart) over the config matrix, one third led by scenario directors; non-trivial = schedule with >=1 leader change (>=2 distinct (term,leader)) AND >=1 delivered reordering, duplicate or drop; distinct by hash of the executed action list"
	case "C02":
		c.Ev.Rule = "same generator with compaction/snapshot-heavy mixes and paged commits; non-trivial = schedule with >=1 snapshot installed by a replica or >=1 conflicting persisted suffix overwritten; distinct by hash of the executed action list"
	case "C03":
		c.Ev.Rule = "crash-heavy random schedules, directors and the crash enumeration (position p0..p6 x subset kind single/leader/majority/all x k-th Ready on fixed 3-replica scripts); non-trivial = (crash position, subset kind) cases that occurred inside a Ready cycle and were followed by a restart of that replica; distinct by (position, kind)"
	}
	c.Ev.Assume("the harness follows the Ready contract in the order of node/raft.go: persist snapshot, entries, hard state, then send, apply, Advance; only a replica that just became leader may send before persisting (as processReady does)")
	c.Ev.Assume("the storage object is the disk; restart rebuilds a fresh storage from it the way replayWAL does (newest snapshot, hard state, entries after the snapshot); a snapshot record without a hard state covering it is ignored at restart (wal.ValidSnapshotEntries), so p1/p2 of a snapshot-bearing Ready leave the storage unchanged")
	c.Ev.Assume("membership changes are single-step, sane-operator (never the last voter, ids never reused); conf changes are applied through the ConfChangedCh/HandleConfChanged hand-off before Advance")
	c.Ev.Assume("messages are only delayed, dropped, duplicated or reordered, never altered; WAL/file-level durability and the transport are out of scope (C05, C06, C16)")
	if check == "C03" {
		c.Ev.Assume(fmt.Sprintf("bounded progress (B=%d fair rounds after healing and restarting everything) is decided only on schedules without membership change after the prologue; churn schedules only count stuck_after_churn", SettleBound))
	}
}

// replay re-executes the recorded schedule of a witness file.
func replay(c *vc.Ctx, check string) error {
	b, err := ioutil.ReadFile(c.Replay)
	if err != nil {
		return err
	}
	var doc struct {
		Signature string  `json:"signature"`
		Witness   Witness `json:"witness"`
	}
	if err := json.Unmarshal(b, &doc); err != nil {
		return err
	}
	w := doc.Witness
	engs := &engines{dir: c.Scratch}
	defer engs.close()
	eng, err := engs.get(w.Config.Storage)
	if err != nil {
		return err
	}
	var trace io.Writer
	if os.Getenv("RAFTSIM_TRACE") != "" {
		trace = os.Stdout
	}
	s := NewSim(check, w.Config, w.Seed, eng, trace)
	for _, as := range w.Actions {
		a, err := ParseAction(as)
		if err != nil {
			return err
		}
		s.Do(a)
		if s.Done() {
			break
		}
	}
	s.closeAll()
	c.Ev.Eval()
	fmt.Printf("REPLAY %s: executed %d of %d actions\n", c.Replay, len(s.actions), len(w.Actions))
	if s.viol != nil {
		fmt.Printf("REPLAY reproduced: %s: %s\n", s.viol.Sig, s.viol.Summary)
		if s.viol.Sig != doc.Signature {
			fmt.Printf("REPLAY note: recorded signature was %s\n", doc.Signature)
		}
		if owns(s.viol, check) {
			c.Violation(s.viol.Sig, s.viol.Summary, s.witness(w.Spec))
		}
		return nil
	}
	fmt.Printf("REPLAY did not reproduce %s\n", doc.Signature)
	return nil
}

// debugMain: vcheck --child raftsim-one <check> <tier> <seed> <from> [to] [trace]
// runs schedules in-process and prints every violation (owned or not); with
// "trace" the full action/event/raft log goes to stdout. Development aid.
func debugMain(args []string) int {
	if len(args) < 4 {
		fmt.Fprintln(os.Stderr, "usage: raftsim-one <check> <tier> <seed> <from> [to] [trace]")
		return 2
	}
	check, tier := args[0], args[1]
	seed, _ := strconv.ParseInt(args[2], 10, 64)
	from, _ := strconv.Atoi(args[3])
	to := from
	trace := false
	for _, a := range args[4:] {
		if a == "trace" {
			trace = true
		} else if v, err := strconv.Atoi(a); err == nil {
			to = v
		}
	}
	engine.SetLogger(0, nil)
	dir, _ := ioutil.TempDir("", "raftsim-one-")
	defer os.RemoveAll(dir)
	engs := &engines{dir: dir}
	defer engs.close()
	for i := from; i <= to; i++ {
		sp := makeSpec(check, tier, seed, i)
		var tw io.Writer
		if trace {
			tw = os.Stdout
		}
		o := runSpec(sp, engs, tw)
		if o.inc != "" {
			fmt.Printf("%d %s/%s INCONCLUSIVE %s\n", i, sp.Kind, sp.Name, o.inc)
			continue
		}
		if o.sim.viol != nil {
			fmt.Printf("%d %s/%s cfg=%+v actions=%d VIOLATION %s owners=%v\n   %s\n", i, sp.Kind, sp.Name, sp.Cfg, len(o.sim.actions), o.sim.viol.Sig, o.sim.viol.Owners, o.sim.viol.Summary)
			if !trace {
				for _, e := range o.sim.events {
					fmt.Println("     ", e)
				}
			}
		} else if slow, _ := strconv.Atoi(os.Getenv("RAFTSIM_SLOW")); slow > 0 && o.sim.settleRounds >= slow {
			fmt.Printf("%d %s/%s cfg=%+v actions=%d settleRounds=%d churn=%v\n", i, sp.Kind, sp.Name, sp.Cfg, len(o.sim.actions), o.sim.settleRounds, o.sim.churn)
		} else if to == from {
			fmt.Printf("%d %s/%s ok actions=%d settleRounds=%d nt=%v\n", i, sp.Kind, sp.Name, len(o.sim.actions), o.sim.settleRounds, nontrivial(check, o.sim))
		}
	}
	return 0
}
