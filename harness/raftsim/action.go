package raftsim

import (
	"fmt"
	"strconv"
	"strings"
)

// Action is one scheduler step. The executed list of actions (together with
// the seed and the configuration) is the replayable schedule.
type Action struct {
	Op string // see Sim.Do
	N  uint64 // replica id
	ID int    // in-flight message id
	A  uint64 // op specific
	B  uint64 // op specific
	P  int    // ready: crash position 0..6, -1 none
	M  uint64 // ready: bit mask of messages sent at p5
	G  []int  // part: side per replica id (index = id)
}

// String is the compact witness encoding: "op n id a b p m g0,g1,..".
func (a Action) String() string {
	g := "-"
	if len(a.G) > 0 {
		parts := make([]string, len(a.G))
		for i, v := range a.G {
			parts[i] = strconv.Itoa(v)
		}
		g = strings.Join(parts, ",")
	}
	return fmt.Sprintf("%s %d %d %d %d %d %d %s", a.Op, a.N, a.ID, a.A, a.B, a.P, a.M, g)
}

func ParseAction(s string) (Action, error) {
	f := strings.Fields(s)
	if len(f) != 8 {
		return Action{}, fmt.Errorf("bad action %q", s)
	}
	var a Action
	a.Op = f[0]
	var err error
	if a.N, err = strconv.ParseUint(f[1], 10, 64); err != nil {
		return a, err
	}
	if a.ID, err = strconv.Atoi(f[2]); err != nil {
		return a, err
	}
	if a.A, err = strconv.ParseUint(f[3], 10, 64); err != nil {
		return a, err
	}
	if a.B, err = strconv.ParseUint(f[4], 10, 64); err != nil {
		return a, err
	}
	if a.P, err = strconv.Atoi(f[5]); err != nil {
		return a, err
	}
	if a.M, err = strconv.ParseUint(f[6], 10, 64); err != nil {
		return a, err
	}
	if f[7] != "-" {
		for _, p := range strings.Split(f[7], ",") {
			v, err := strconv.Atoi(p)
			if err != nil {
				return a, err
			}
			a.G = append(a.G, v)
		}
	}
	return a, nil
}

func act(op string, n uint64) Action { return Action{Op: op, N: n, P: -1} }
