package placelab

import (
	"fmt"
	"reflect"
	"strings"
	"sync/atomic"

	"github.com/youzan/ZanRedisDB/cluster/pdnode_coord"
)

// The v2 algorithm has a rarely reached give-up path: after the fill phase the
// balance loop (moveIfUnbalanced) cannot converge within replica*partitions
// rounds, the driver logs "balance moved too much times" and returns what it
// has. It needs a particular history (small cluster, uneven data centres,
// several nodes lost in one step, a lost node returning, add-then-lose).
// This file reaches it on purpose: directed histories and a chain generator
// biased towards such histories; the number of layout calls that took the
// branch is measured from the driver's own warning line.

// warnCounter receives the cluster logger (level WARN: info lines are not even formatted).
type warnCounter struct {
	nonConverging int64
	otherWarnings int64
}

func (w *warnCounter) Output(d int, s string) error { return nil }
func (w *warnCounter) OutputErr(d int, s string) error {
	atomic.AddInt64(&w.otherWarnings, 1)
	return nil
}
func (w *warnCounter) OutputWarning(d int, s string) error {
	if strings.HasPrefix(s, "balance moved too much times") {
		atomic.AddInt64(&w.nonConverging, 1)
	} else {
		atomic.AddInt64(&w.otherWarnings, 1)
	}
	return nil
}

// unbalancedResult: the returned v2 layout still has a leader or replica load
// difference >= 2 between live nodes, i.e. the balance loop ended without
// converging (a converged loop ends with both differences <= 1).
func unbalancedResult(in *Input, l [][]string) bool {
	if in.Ver != pdnode_coord.BalanceV2Str || l == nil || len(in.Nodes) == 0 {
		return false
	}
	lead := map[string]int{}
	rep := map[string]int{}
	for _, p := range l {
		for j, n := range p {
			if j == 0 {
				lead[n]++
			}
			rep[n]++
		}
	}
	minL, maxL, minR, maxR := 1<<30, -1, 1<<30, -1
	for _, n := range in.Nodes {
		if lead[n.ID] < minL {
			minL = lead[n.ID]
		}
		if lead[n.ID] > maxL {
			maxL = lead[n.ID]
		}
		if rep[n.ID] < minR {
			minR = rep[n.ID]
		}
		if rep[n.ID] > maxR {
			maxR = rep[n.ID]
		}
	}
	return maxL-minL >= 2 || maxR-minR >= 2
}

// runHistory feeds a list of live node sets through v2, each result fed back
// as the old layout (the first call is fresh).
func (r *runner) runHistory(kind, ns string, partitions, replica int, sets [][]NodeSpec) {
	var cur [][]string
	var chain []Input
	hit := false
	for s, nodes := range sets {
		st := Input{Kind: kind, NS: ns, Partitions: partitions, Replica: replica, Ver: pdnode_coord.BalanceV2Str,
			Nodes: append([]NodeSpec{}, nodes...), Old: copyLayout(cur)}
		l := r.runOne(&st, chain)
		if len(chain) < 9 {
			chain = append(chain, st)
		}
		if s > 0 {
			r.ct.add("chain_steps", 1)
			r.ct.add("chain_steps_"+kind, 1)
		}
		if l != nil {
			if unbalancedResult(&st, l) {
				r.ct.add("v2_layouts_returned_unbalanced", 1)
				r.ct.add("v2_layouts_returned_unbalanced_"+kind, 1)
				hit = true
			}
			if cur != nil && !reflect.DeepEqual(cur, l) {
				r.ct.add("chain_steps_that_changed_layout", 1)
			}
			cur = l
		} else {
			cur = nil
		}
	}
	r.ct.add("chains", 1)
	r.ct.add("chains_"+kind, 1)
	if hit {
		r.ct.add("chains_reaching_nonconverging_balance_"+kind, 1)
	}
}

func specs(ids ...string) []NodeSpec {
	var l []NodeSpec
	for _, id := range ids {
		// node id "n<dc><xx>": data centre from the second character
		l = append(l, NodeSpec{ID: id, DC: "dc" + id[1:2]})
	}
	return l
}

// directedHistories: histories known to reach the non-converging balance state
// (from the round-2 seeding of C17), literally and with per-seed perturbations
// of node names, namespace name and partition count.
func (r *runner) runDirected() {
	type hist struct {
		p, rep int
		sets   [][]string
	}
	base := []hist{
		{5, 2, [][]string{{"n101", "n102", "n200", "n201", "n202"}, {"n102", "n200", "n202"}, {"n101", "n102", "n200", "n202"}}},
		{10, 3, [][]string{{"n100", "n101", "n200", "n300", "n301"}, {"n100", "n101", "n200", "n201", "n300", "n301"}, {"n101", "n200", "n201", "n300", "n301"}}},
		{8, 3, [][]string{{"n100", "n101", "n200", "n201", "n202", "n300", "n301", "n302"}, {"n200", "n201", "n202", "n300", "n301", "n302"}}},
	}
	run := func(h hist, ns string, p int, rename func(string) string) {
		var sets [][]NodeSpec
		for _, s := range h.sets {
			var ids []string
			for _, id := range s {
				ids = append(ids, rename(id))
			}
			sets = append(sets, specs(ids...))
		}
		r.runHistory("directed", ns, p, h.rep, sets)
	}
	ident := func(s string) string { return s }
	for _, h := range base {
		run(h, "test", h.p, ident)
	}
	rnd := r.c.Rand(77001)
	nVar := r.c.Pick(60, 600)
	for v := 0; v < nVar; v++ {
		h := base[v%len(base)]
		ns := nsNames[rnd.Intn(len(nsNames))]
		p := h.p
		switch rnd.Intn(4) {
		case 0:
			p += 1 + rnd.Intn(3)
		case 1:
			if p > 3 {
				p -= 1 + rnd.Intn(2)
			}
		}
		off := rnd.Intn(50)
		style := rnd.Intn(3)
		rename := func(id string) string {
			// keep the data centre digit in second place, change the numbering / suffix
			var x int
			fmt.Sscanf(id[2:], "%d", &x)
			switch style {
			case 0:
				return fmt.Sprintf("n%s%02d", id[1:2], x+off)
			case 1:
				return fmt.Sprintf("d%s-host%d", id[1:2], x*3+off)
			default:
				return id
			}
		}
		run(h, ns, p, rename)
	}
}

// runSmallChain: a chain on a small cluster with uneven data centres; steps
// lose several nodes at once, bring a lost node back under its old name, add a
// node and lose another one right after.
func (r *runner) runSmallChain(i int) {
	rnd := r.c.Rand(int64(9000000 + i))
	d := 1 + rnd.Intn(4)
	next := make([]int, d)
	var live, lost []NodeSpec
	newNode := func(dc int) NodeSpec {
		n := NodeSpec{ID: fmt.Sprintf("n%d%02d", dc+1, next[dc]), DC: dcName(dc)}
		next[dc]++
		return n
	}
	for dc := 0; dc < d; dc++ {
		k := 1 + rnd.Intn(4)
		if d == 1 {
			k = 2 + rnd.Intn(5)
		}
		for j := 0; j < k; j++ {
			live = append(live, newNode(dc))
		}
	}
	replica := 1 + rnd.Intn(4)
	if replica > len(live) {
		replica = len(live)
	}
	if replica < 2 && rnd.Intn(4) != 0 {
		replica = 2
		if replica > len(live) {
			replica = len(live)
		}
	}
	partitions := 2 + rnd.Intn(15)
	ns := nsNames[rnd.Intn(len(nsNames))]
	sets := [][]NodeSpec{append([]NodeSpec{}, live...)}
	lose := func(k int) {
		for j := 0; j < k && len(live) > replica; j++ {
			x := rnd.Intn(len(live))
			lost = append(lost, live[x])
			live = append(live[:x], live[x+1:]...)
		}
	}
	loseDC := func() {
		// all nodes of one data centre at once (if enough nodes remain)
		dc := live[rnd.Intn(len(live))].DC
		var keep []NodeSpec
		var gone []NodeSpec
		for _, n := range live {
			if n.DC == dc {
				gone = append(gone, n)
			} else {
				keep = append(keep, n)
			}
		}
		if len(keep) >= replica && len(gone) > 0 {
			live = keep
			lost = append(lost, gone...)
		} else {
			lose(1)
		}
	}
	comeBack := func() bool {
		if len(lost) == 0 {
			return false
		}
		x := rnd.Intn(len(lost))
		live = append(live, lost[x])
		lost = append(lost[:x], lost[x+1:]...)
		return true
	}
	steps := 2 + rnd.Intn(6)
	for s := 0; s < steps; s++ {
		switch rnd.Intn(10) {
		case 0, 1, 2:
			lose(1 + rnd.Intn(3))
		case 3:
			loseDC()
		case 4, 5, 6:
			if !comeBack() {
				lose(1 + rnd.Intn(2))
			}
		case 7, 8:
			live = append(live, newNode(rnd.Intn(d)))
			sets = append(sets, append([]NodeSpec{}, live...))
			lose(1)
		default:
			live = append(live, newNode(rnd.Intn(d)))
		}
		sets = append(sets, append([]NodeSpec{}, live...))
	}
	r.runHistory("small", ns, partitions, replica, sets)
}
