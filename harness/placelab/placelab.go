// Package placelab is engine E7: it drives the real placement functions of
// cluster/pdnode_coord (through the verif-tagged wrappers) over enumerated and
// generated topologies and checks the literal clauses of property C17 on every
// returned layout. See /verif/DESIGN.md section 3, C17.
package placelab

import (
	"encoding/json"
	"fmt"
	"io/ioutil"
	"reflect"
	"sort"
	"strings"
	"sync"
	"sync/atomic"

	"github.com/youzan/ZanRedisDB/cluster"
	"github.com/youzan/ZanRedisDB/cluster/pdnode_coord"
	"github.com/youzan/ZanRedisDB/common"

	"verif/harness/vc"
)

func init() {
	vc.Register("C17", "exploration", runC17)
}

// NodeSpec is one live data node of an input: its id and its data centre
// (attached to the node through Tags["dc_info"], as a data node does from its
// configuration; "" = no tag).
type NodeSpec struct {
	ID string `json:"id"`
	DC string `json:"dc"`
}

// Input is one complete argument list of getRebalancedNamespacePartitions.
type Input struct {
	Kind       string     `json:"kind"` // even | uneven | chain
	NS         string     `json:"ns"`
	Partitions int        `json:"partitions"`
	Replica    int        `json:"replica"`
	Ver        string     `json:"balance_ver"` // "" = ring (v1), "v2" = incremental
	Nodes      []NodeSpec `json:"nodes"`
	Old        [][]string `json:"old_layout"` // nil = fresh layout
	// EvenDCs > 0: the nodes are k*EvenDCs nodes evenly spread over EvenDCs data centres.
	EvenDCs int `json:"even_dcs"`
}

// Witness is what a violation writes to its replay file.
type Witness struct {
	Input   Input      `json:"input"`
	Layout  [][]string `json:"layout,omitempty"`
	Layout2 [][]string `json:"layout_second_call,omitempty"`
	Err     string     `json:"returned_error,omitempty"`
	Detail  string     `json:"detail"`
	Chain   []Input    `json:"chain_prefix,omitempty"`
}

func verName(v string) string {
	if v == pdnode_coord.BalanceV2Str {
		return "v2"
	}
	return "v1"
}

// buildNodes builds the currentNodes map; order selects the insertion order so
// that two calls with equal contents use differently built maps.
func buildNodes(nodes []NodeSpec, order int) map[string]cluster.NodeInfo {
	m := make(map[string]cluster.NodeInfo, len(nodes))
	idx := make([]int, len(nodes))
	for i := range idx {
		idx[i] = i
	}
	switch order {
	case 1:
		for i, j := 0, len(idx)-1; i < j; i, j = i+1, j-1 {
			idx[i], idx[j] = idx[j], idx[i]
		}
	case 2:
		// odd positions first, then even ones
		var a, b []int
		for i := range idx {
			if i%2 == 1 {
				a = append(a, i)
			} else {
				b = append(b, i)
			}
		}
		idx = append(a, b...)
	}
	for _, i := range idx {
		n := nodes[i]
		var ni cluster.NodeInfo
		ni.ID = n.ID
		if n.DC != "" {
			ni.Tags = map[string]interface{}{cluster.DCInfoTag: n.DC}
		}
		m[n.ID] = ni
	}
	return m
}

func copyLayout(l [][]string) [][]string {
	if l == nil {
		return nil
	}
	c := make([][]string, len(l))
	for i, p := range l {
		if p != nil {
			c[i] = append([]string{}, p...)
		}
	}
	return c
}

type callResult struct {
	layout   [][]string
	err      *cluster.CoordErr
	panicked interface{}
}

func callLayout(in *Input, order int) (res callResult) {
	id := enterCall(in, "getRebalancedNamespacePartitions")
	defer leaveCall(id)
	defer func() {
		if r := recover(); r != nil {
			res.panicked = r
		}
	}()
	nodes := buildNodes(in.Nodes, order)
	old := copyLayout(in.Old)
	l, err := pdnode_coord.VerifGetRebalancedNamespacePartitions(in.NS, in.Partitions, in.Replica, old, nodes, in.Ver)
	res.layout = l
	res.err = err
	return
}

// callNameList calls the driver's second entry point, getRebalancedPartitionsFromNameList
// (used directly by the balance path), with the per-data-centre name lists of the same nodes.
func callNameList(in *Input, order int) (res callResult) {
	id := enterCall(in, "getRebalancedPartitionsFromNameList")
	defer leaveCall(id)
	defer func() {
		if r := recover(); r != nil {
			res.panicked = r
		}
	}()
	names := pdnode_coord.VerifGetNodeNameList(buildNodes(in.Nodes, order))
	l, err := pdnode_coord.VerifGetRebalancedPartitionsFromNameList(in.NS, in.Partitions, in.Replica, copyLayout(in.Old), names, in.Ver)
	res.layout = l
	res.err = err
	return
}

// knownOverlongOldPanic: the documented panic shape outside the property (an old replica list
// longer than replica whose live nodes are all excluded; getMinMaxLoadForReplica/Leader on an empty tree).
func knownOverlongOldPanic(in *Input, p interface{}) bool {
	if !strings.Contains(fmt.Sprint(p), "interface {} is nil, not pdnode_coord.loadItem") {
		return false
	}
	for _, o := range in.Old {
		if len(o) > in.Replica {
			return true
		}
	}
	return false
}

type finding struct {
	sig    string
	detail string
	w      Witness
}

// evaluate runs one input (twice, with differently built node maps) and checks
// every clause of C17 that applies to it. It returns the layout (nil when
// refused) and the findings.
func evaluate(in *Input) ([][]string, bool, []finding) {
	var fs []finding
	add := func(sig, detail string, r1, r2 *callResult) {
		w := Witness{Input: *in, Detail: detail}
		if r1 != nil {
			w.Layout = r1.layout
			if r1.err != nil {
				w.Err = r1.err.String()
			}
		}
		if r2 != nil {
			w.Layout2 = r2.layout
		}
		fs = append(fs, finding{sig: sig, detail: detail, w: w})
	}
	r1 := callLayout(in, 0)
	if r1.panicked != nil {
		if knownOverlongOldPanic(in, r1.panicked) {
			return nil, false, fs // evidence only (counted by the caller), see DESIGN.md observations
		}
		add("layout-panic/"+verName(in.Ver), fmt.Sprintf("the layout function panicked: %v", r1.panicked), &r1, nil)
		return nil, false, fs
	}
	live := make(map[string]string, len(in.Nodes))
	for _, n := range in.Nodes {
		live[n.ID] = n.DC
	}
	// refusal clause: too few nodes => error, no layout
	if len(in.Nodes) < in.Replica {
		if r1.err == nil || r1.layout != nil {
			add("layout-despite-too-few-nodes/"+verName(in.Ver),
				fmt.Sprintf("%d nodes < replica %d but a layout was returned", len(in.Nodes), in.Replica), &r1, nil)
		}
		// the same clause at the driver's second entry point (the balance path calls it directly)
		rn := callNameList(in, 1)
		if rn.panicked != nil {
			add("layout-panic/"+verName(in.Ver), fmt.Sprintf("getRebalancedPartitionsFromNameList with %d nodes < replica %d panicked instead of refusing: %v", len(in.Nodes), in.Replica, rn.panicked), &rn, nil)
		} else if rn.err == nil || rn.layout != nil {
			add("layout-despite-too-few-nodes/"+verName(in.Ver),
				fmt.Sprintf("getRebalancedPartitionsFromNameList: %d nodes < replica %d but a layout was returned", len(in.Nodes), in.Replica), &rn, nil)
		}
		return nil, true, fs
	}
	if r1.err != nil {
		// the property only speaks about inputs for which a layout is produced
		return nil, true, fs
	}
	l := r1.layout
	// determinism: second (and third) call with the node map rebuilt in another insertion order
	for order := 1; order <= 2; order++ {
		r2 := callLayout(in, order)
		if r2.panicked != nil {
			add("layout-panic/"+verName(in.Ver), fmt.Sprintf("the layout function panicked on a repeated call: %v", r2.panicked), &r1, nil)
			break
		}
		if (r2.err == nil) != (r1.err == nil) || !reflect.DeepEqual(r2.layout, l) {
			add("nondeterministic-layout/"+verName(in.Ver), "two calls with equal inputs (node map rebuilt in another insertion order) returned different layouts", &r1, &r2)
			break
		}
	}
	// shape
	if len(l) != in.Partitions {
		add("wrong-partition-count/"+verName(in.Ver), fmt.Sprintf("layout has %d partitions, want %d", len(l), in.Partitions), &r1, nil)
		return l, false, fs
	}
	for pid, p := range l {
		if len(p) != in.Replica {
			add("wrong-replica-count/"+verName(in.Ver), fmt.Sprintf("partition %d has %d replicas %v, want %d", pid, len(p), p, in.Replica), &r1, nil)
			break
		}
	}
	for pid, p := range l {
		seen := map[string]bool{}
		dup := false
		for _, n := range p {
			if seen[n] {
				add("repeated-node-in-partition/"+verName(in.Ver), fmt.Sprintf("partition %d lists node %q twice: %v", pid, n, p), &r1, nil)
				dup = true
				break
			}
			seen[n] = true
		}
		if dup {
			break
		}
	}
	for pid, p := range l {
		bad := false
		for _, n := range p {
			if _, ok := live[n]; !ok {
				add("non-live-node-in-layout/"+verName(in.Ver), fmt.Sprintf("partition %d uses node %q which is not in the live node set: %v", pid, n, p), &r1, nil)
				bad = true
				break
			}
		}
		if bad {
			break
		}
	}
	// rack awareness: fresh layout, k*d nodes evenly spread over d >= replica data centres
	if in.Old == nil && in.EvenDCs > 0 && in.EvenDCs >= in.Replica {
		for pid, p := range l {
			dcs := map[string]string{}
			bad := false
			for _, n := range p {
				dc, ok := live[n]
				if !ok {
					continue
				}
				if other, ok := dcs[dc]; ok && other != n {
					add("two-replicas-in-one-dc/"+verName(in.Ver),
						fmt.Sprintf("fresh layout on %d nodes evenly spread over %d DCs, replica %d: partition %d has %q and %q both in %q: %v",
							len(in.Nodes), in.EvenDCs, in.Replica, pid, other, n, dc, p), &r1, nil)
					bad = true
					break
				}
				dcs[dc] = n
			}
			if bad {
				break
			}
		}
	}
	// ring algorithm: equal leader counts when partitions is a multiple of nodes
	if in.Ver != pdnode_coord.BalanceV2Str && len(in.Nodes) > 0 && in.Partitions%len(in.Nodes) == 0 {
		leaders := map[string]int{}
		for _, p := range l {
			if len(p) > 0 {
				leaders[p[0]]++
			}
		}
		want := in.Partitions / len(in.Nodes)
		for _, n := range in.Nodes {
			if leaders[n.ID] != want {
				add("unequal-leader-counts/v1", fmt.Sprintf("ring layout, %d partitions on %d nodes: node %q leads %d partitions, want %d",
					in.Partitions, len(in.Nodes), n.ID, leaders[n.ID], want), &r1, nil)
				break
			}
		}
	}
	return l, false, fs
}

// ---- generators ----

var nsNames = []string{"test", "verif_ns_a", "yz-orders", "ns3", "k", "user_profile_2", "aa", "zz9"}

// nodeID produces ids in several naming schemes (their string order differs).
func nodeID(scheme int, i int, dc int) string {
	switch scheme % 3 {
	case 0:
		return fmt.Sprintf("node-%03d", i)
	case 1:
		// like cluster.GenNodeID: regid:ip:rpc:redis:http:extra, unpadded numbers
		return fmt.Sprintf("%d:10.%d.0.%d::%d:%d:", i+1, dc, i+1, 12380+i, 12381+i)
	default:
		return fmt.Sprintf("dn%d", i)
	}
}

func dcName(d int) string { return fmt.Sprintf("dc%d", d+1) }

// evenNodes: n nodes, node i in data centre i%d. With tagOne=false and d==1 the
// nodes carry no dc tag at all.
func evenNodes(n, d, scheme int, tagOne bool) []NodeSpec {
	nodes := make([]NodeSpec, n)
	for i := 0; i < n; i++ {
		dc := ""
		if d > 1 || tagOne {
			dc = dcName(i % d)
		}
		nodes[i] = NodeSpec{ID: nodeID(scheme, i, i%d), DC: dc}
	}
	return nodes
}

type counters struct {
	mu sync.Mutex
	m  map[string]int64
}

func (c *counters) add(k string, n int64) {
	c.mu.Lock()
	c.m[k] += n
	c.mu.Unlock()
}

type runner struct {
	c  *vc.Ctx
	ct *counters
}

func inputFP(in *Input) string {
	dcs := map[string]bool{}
	for _, n := range in.Nodes {
		dcs[n.DC] = true
	}
	return fmt.Sprintf("%d/%d/%d/%d/%s", len(in.Nodes), len(dcs), in.Partitions, in.Replica, verName(in.Ver))
}

// runOne evaluates one input, records evidence and reports findings.
func (r *runner) runOne(in *Input, chain []Input) [][]string {
	l, refused, fs := evaluate(in)
	r.c.Ev.Eval()
	r.ct.add("layout_calls_"+verName(in.Ver), 1)
	if refused {
		r.ct.add("refusals", 1)
		if len(in.Nodes) < in.Replica {
			r.ct.add("refusals_too_few_nodes", 1)
		}
	} else if l != nil {
		r.ct.add("layouts_"+verName(in.Ver), 1)
		r.ct.add("layouts_kind_"+in.Kind, 1)
		r.c.Ev.Nontrivial(inputFP(in))
		if in.Old == nil && in.EvenDCs > 0 && in.EvenDCs >= in.Replica && in.Replica > 1 {
			r.ct.add("fresh_layouts_rack_clause_checked", 1)
		}
		if in.Ver != pdnode_coord.BalanceV2Str && in.Partitions%len(in.Nodes) == 0 {
			r.ct.add("v1_layouts_leader_clause_checked", 1)
		}
	}
	if l == nil && !refused && len(fs) == 0 {
		r.ct.add("layout_panics_known_overlong_old_list_shape", 1) // evidence only
	}
	for _, f := range fs {
		f.w.Chain = chain
		r.c.Violation(f.sig, f.detail, f.w)
	}
	return l
}

func runC17(c *vc.Ctx) error {
	// the placement code logs through the cluster logger: only warnings are formatted, and counted
	wc := &warnCounter{}
	cluster.SetLogger(common.LOG_WARN, wc)
	r := &runner{c: c, ct: &counters{m: map[string]int64{}}}
	c.Ev.Rule = "inputs of getRebalancedNamespacePartitions: (a) even split: every (nodes 1..40, dcs 1..4 with dcs|nodes, replica 1..5, both balance versions) " +
		"x partition counts (thorough: all 1..64; quick: 8 per combination: a node count multiple, 64 and six seeded) x namespace names (different ring offsets); " +
		"(b) uneven dc splits sampled from the seed; (c) v2 chains: fresh layout, then up to 8 steps of remove/add/replace random nodes, each result fed back as oldPartitionNodes; " +
		"(d) directed histories (with per-seed renamings) and chains on small clusters with uneven data centres (several nodes or a whole data centre lost in one step, a lost node returning, add-then-lose) that reach v2's non-converging balance branch (counted from the driver's 'balance moved too much times' warning). " +
		"Each input is called 3 times with the node map rebuilt in different insertion orders; inputs with nodes < replica are also given to getRebalancedPartitionsFromNameList directly. " +
		"(0) first of all a concurrent phase: 36 small v2 histories of different clusters are computed by one goroutine (reference) and then recomputed by 12 goroutines at once, any difference is a violation. " +
		"An input is non-trivial when the driver returned a layout; distinct = distinct (nodes, dcs, partitions, replica, version)."
	c.Ev.Assume("only old layouts that are themselves results of the driver (chains) are fed back to v2; ISR lists longer/shorter than replica (mid-migration metadata) are exercised by C18, not here")
	c.Ev.Assume("rack-awareness is demanded only for fresh layouts (oldPartitionNodes=nil) on k*d nodes evenly spread over d>=replica data centres, as the property states")

	if c.Replay != "" {
		return r.replay(c.Replay)
	}

	stopWatchdog := startWatchdog(c, nil)
	defer stopWatchdog()

	// (0) concurrent determinism, before the big parallel phases
	if r.runConcurrent() {
		fmt.Println("C17: layouts computed concurrently differ from the sequential reference; the remaining (parallel) phases are SKIPPED in this run - with state shared between layout calls they would only risk an endless loop inside the real code")
		c.Ev.Set("phases_skipped_after_concurrent_violation", true)
		r.ct.mu.Lock()
		for k, v := range r.ct.m {
			c.Ev.Count(k, v)
		}
		r.ct.mu.Unlock()
		return nil
	}

	ncConcurrent := atomic.LoadInt64(&wc.nonConverging)

	// (a) even split
	type combo struct{ n, d, rep int }
	var combos []combo
	dcConfigs := map[string]bool{}
	for n := 1; n <= 40; n++ {
		for d := 1; d <= 4; d++ {
			if n%d != 0 {
				continue
			}
			dcConfigs[fmt.Sprintf("even/%d/%d", n, d)] = true
			for rep := 1; rep <= 5; rep++ {
				combos = append(combos, combo{n, d, rep})
			}
		}
	}
	nNames := c.Pick(2, 4)
	c.ParallelFor(len(combos), func(i int) {
		cb := combos[i]
		rnd := c.Rand(int64(1000 + i))
		var parts []int
		if c.Thorough() {
			for p := 1; p <= 64; p++ {
				parts = append(parts, p)
			}
		} else {
			mult := cb.n
			if k := 64 / cb.n; k > 1 {
				mult = cb.n * (1 + rnd.Intn(k))
			}
			set := map[int]bool{64: true}
			if mult <= 64 {
				set[mult] = true
			}
			for len(set) < 8 {
				set[1+rnd.Intn(64)] = true
			}
			for p := range set {
				parts = append(parts, p)
			}
			sort.Ints(parts)
		}
		for _, p := range parts {
			for _, ver := range []string{"", pdnode_coord.BalanceV2Str} {
				for k := 0; k < nNames; k++ {
					ns := nsNames[(i+k*3+int(c.Seed))%len(nsNames)]
					in := &Input{Kind: "even", NS: ns, Partitions: p, Replica: cb.rep, Ver: ver,
						Nodes: evenNodes(cb.n, cb.d, i+k, k%2 == 0), EvenDCs: cb.d}
					r.runOne(in, nil)
					if i%97 == 0 && p == parts[0] && k == 0 {
						c.Ev.Sample(4, in)
					}
				}
			}
		}
	})
	if c.Thorough() {
		c.Ev.Set("exhaustive_even_split", true)
	} else {
		c.Ev.Set("exhaustive_even_split", false)
	}

	// (b) uneven splits
	nUneven := c.Pick(8000, 160000)
	var dcMu sync.Mutex
	c.ParallelFor(nUneven, func(i int) {
		rnd := c.Rand(int64(2000000 + i))
		n := 2 + rnd.Intn(39)
		d := 2 + rnd.Intn(3)
		if d > n {
			d = n
		}
		scheme := rnd.Intn(3)
		nodes := make([]NodeSpec, n)
		sizes := make([]int, d)
		for j := 0; j < n; j++ {
			dc := j
			if j >= d {
				dc = rnd.Intn(d)
				if rnd.Intn(3) == 0 {
					dc = 0 // skew
				}
			}
			sizes[dc]++
			nodes[j] = NodeSpec{ID: nodeID(scheme, j, dc), DC: dcName(dc)}
		}
		if rnd.Intn(8) == 0 {
			// some nodes without a dc tag
			for j := range nodes {
				if rnd.Intn(4) == 0 {
					nodes[j].DC = ""
				}
			}
		}
		sort.Ints(sizes)
		dcMu.Lock()
		dcConfigs[fmt.Sprintf("uneven/%v", sizes)] = true
		dcMu.Unlock()
		in := &Input{Kind: "uneven", NS: nsNames[rnd.Intn(len(nsNames))], Partitions: 1 + rnd.Intn(64), Replica: 1 + rnd.Intn(5),
			Nodes: nodes}
		if rnd.Intn(2) == 0 {
			in.Ver = pdnode_coord.BalanceV2Str
		}
		r.runOne(in, nil)
		if i < 2 {
			c.Ev.Sample(6, in)
		}
	})

	// (c) v2 chains
	nChains := c.Pick(1200, 75000)
	c.ParallelFor(nChains, func(i int) {
		r.runChain(i)
	})

	// (d) directed histories and small-cluster chains that reach the non-converging balance branch of v2
	r.runDirected()
	nSmall := c.Pick(24000, 150000)
	c.ParallelFor(nSmall, func(i int) {
		r.runSmallChain(i)
	})
	// every input is evaluated by 3 calls; each call that gave up balancing logged one warning
	c.Ev.Set("v2_calls_balance_not_converging", atomic.LoadInt64(&wc.nonConverging)-ncConcurrent)
	c.Ev.Set("v2_calls_balance_not_converging_in_concurrent_phase", ncConcurrent)
	c.Ev.Set("other_driver_warnings", atomic.LoadInt64(&wc.otherWarnings))

	c.Ev.Set("dc_configurations", len(dcConfigs))
	r.ct.mu.Lock()
	for k, v := range r.ct.m {
		c.Ev.Count(k, v)
	}
	r.ct.mu.Unlock()
	return nil
}

// runChain: fresh v2 layout, then up to 8 steps of node loss/addition/replacement.
func (r *runner) runChain(i int) {
	c := r.c
	rnd := c.Rand(int64(5000000 + i))
	scheme := rnd.Intn(3)
	d := 1 + rnd.Intn(4)
	n := 1 + rnd.Intn(40)
	even := rnd.Intn(2) == 0
	if even {
		n = d * (1 + rnd.Intn(40/d))
	}
	next := 0
	newNode := func() NodeSpec {
		dc := next % d
		if !even {
			dc = rnd.Intn(d)
		}
		ns := NodeSpec{ID: nodeID(scheme, next, dc), DC: dcName(dc)}
		if d == 1 && scheme == 2 {
			ns.DC = ""
		}
		next++
		return ns
	}
	var nodes []NodeSpec
	for j := 0; j < n; j++ {
		nodes = append(nodes, newNode())
	}
	in := Input{Kind: "chain", NS: nsNames[rnd.Intn(len(nsNames))], Partitions: 1 + rnd.Intn(64), Replica: 1 + rnd.Intn(5),
		Ver: pdnode_coord.BalanceV2Str, Nodes: append([]NodeSpec{}, nodes...)}
	if even {
		in.EvenDCs = d
	}
	var chain []Input
	cur := r.runOne(&in, nil)
	chain = append(chain, in)
	r.ct.add("chains", 1)
	steps := 1 + rnd.Intn(8)
	for s := 0; s < steps; s++ {
		op := rnd.Intn(3)
		k := 1 + rnd.Intn(3)
		if op == 0 || op == 2 { // remove
			for j := 0; j < k && len(nodes) > 1; j++ {
				x := rnd.Intn(len(nodes))
				nodes = append(nodes[:x], nodes[x+1:]...)
			}
		}
		if op == 1 || op == 2 { // add
			for j := 0; j < k && len(nodes) < 40; j++ {
				nodes = append(nodes, newNode())
			}
		}
		st := Input{Kind: "chain", NS: in.NS, Partitions: in.Partitions, Replica: in.Replica, Ver: in.Ver,
			Nodes: append([]NodeSpec{}, nodes...), Old: copyLayout(cur)}
		if cur == nil {
			// previous call refused (too few nodes): the next call is a fresh one again
			st.Old = nil
		}
		l := r.runOne(&st, chain)
		r.ct.add("chain_steps", 1)
		r.ct.add(fmt.Sprintf("chain_steps_op_%s", []string{"remove", "add", "replace"}[op]), 1)
		if len(chain) < 9 {
			chain = append(chain, st)
		}
		if l != nil {
			if cur != nil {
				moved := 0
				for pid := range l {
					if pid < len(cur) && !reflect.DeepEqual(l[pid], cur[pid]) {
						moved++
					}
				}
				if moved > 0 {
					r.ct.add("chain_steps_that_changed_layout", 1)
				}
			}
			cur = l
		}
		// the v1 ring on the same node set (ignores the old layout)
		v1 := st
		v1.Ver = ""
		v1.Old = nil
		v1.Kind = "chain"
		r.runOne(&v1, nil)
	}
	if i < 2 {
		c.Ev.Sample(8, map[string]interface{}{"chain": chain})
	}
}

func (r *runner) replay(path string) error {
	b, err := ioutil.ReadFile(path)
	if err != nil {
		return err
	}
	var doc struct {
		Witness Witness `json:"witness"`
	}
	if err := json.Unmarshal(b, &doc); err != nil {
		return err
	}
	in := doc.Witness.Input
	l, refused, fs := evaluate(&in)
	r.c.Ev.Eval()
	fmt.Printf("REPLAY property=C17 input=%s refused=%v layout=%v findings=%d\n", inputFP(&in), refused, l, len(fs))
	for _, f := range fs {
		r.c.Violation(f.sig, f.detail, f.w)
	}
	return nil
}
