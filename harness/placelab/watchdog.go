package placelab

import (
	"fmt"
	"io/ioutil"
	"os"
	"path/filepath"
	"runtime"
	"strings"
	"sync"
	"sync/atomic"
	"time"

	"verif/harness/vc"
)

// Every call into the real layout functions is registered here while it runs.
// A layout call takes microseconds; a watchdog goroutine ends the whole
// process when one has not returned after callDeadline (a broken tree can send
// the real code into an endless loop, and a goroutine cannot be killed). That
// is never a verdict: the execution is reported as inconclusive (exit 2; exit
// 1 only if a violation had already been found by an oracle before).

const callDeadline = 60 * time.Second
const inflightShards = 64

type inflightCall struct {
	start time.Time
	in    *Input
	what  string
}

type inflightShard struct {
	mu sync.Mutex
	m  map[int64]*inflightCall
	_  [40]byte
}

var inflight struct {
	seq    int64
	shards [inflightShards]inflightShard
}

func init() {
	for i := range inflight.shards {
		inflight.shards[i].m = map[int64]*inflightCall{}
	}
}

func enterCall(in *Input, what string) int64 {
	id := atomic.AddInt64(&inflight.seq, 1)
	s := &inflight.shards[id%inflightShards]
	s.mu.Lock()
	s.m[id] = &inflightCall{start: time.Now(), in: in, what: what}
	s.mu.Unlock()
	return id
}

func leaveCall(id int64) {
	s := &inflight.shards[id%inflightShards]
	s.mu.Lock()
	delete(s.m, id)
	s.mu.Unlock()
}

// oldestCall returns the longest running registered call.
func oldestCall() *inflightCall {
	var o *inflightCall
	for i := range inflight.shards {
		s := &inflight.shards[i]
		s.mu.Lock()
		for _, c := range s.m {
			if o == nil || c.start.Before(o.start) {
				o = c
			}
		}
		s.mu.Unlock()
	}
	return o
}

func startWatchdog(c *vc.Ctx, skippedNote func() string) (stop func()) {
	done := make(chan struct{})
	go func() {
		t := time.NewTicker(2 * time.Second)
		defer t.Stop()
		for {
			select {
			case <-done:
				return
			case <-t.C:
			}
			o := oldestCall()
			if o == nil || time.Since(o.start) < callDeadline {
				continue
			}
			buf := make([]byte, 1<<24)
			buf = buf[:runtime.Stack(buf, true)]
			ioutil.WriteFile(filepath.Join(c.Scratch, "hang-stacks.log"), buf, 0644)
			dir := filepath.Join(vc.VerifDir, "replays", c.ID)
			os.MkdirAll(dir, 0755)
			keepPath := filepath.Join(dir, fmt.Sprintf("hang-%s-seed%d.stacks.txt", c.Tier, c.Seed))
			ioutil.WriteFile(keepPath, buf, 0644)
			var repo []string
			for _, g := range strings.Split(string(buf), "\n\n") {
				if strings.Contains(g, "pdnode_coord.") || strings.Contains(g, "treemap") {
					repo = append(repo, g)
				}
			}
			head := strings.Join(repo, "\n\n")
			if len(head) > 2500 {
				head = head[:2500]
			}
			c.Inconclusive(fmt.Sprintf("layout call did not return after %.0f s (%s), input %s (%d nodes, %d partitions, replica %d, ns %q, old layout %v); "+
				"all goroutine stacks in %s; the process exits without a verdict for the unfinished phases. First stuck goroutines:\n%s",
				time.Since(o.start).Seconds(), o.what, inputFP(o.in), len(o.in.Nodes), o.in.Partitions, o.in.Replica, o.in.NS, o.in.Old != nil, keepPath, head))
			rc := 2
			if c.Violations() > 0 {
				rc = 1 // an oracle had already decided before the hang
			}
			fmt.Printf("SUMMARY property=%s tier=%s seed=%d evaluations=%d violations=%d ABORTED-BY-WATCHDOG exit=%d\n",
				c.ID, c.Tier, c.Seed, c.Ev.Evals(), c.Violations(), rc)
			os.RemoveAll(c.Scratch)
			os.Exit(rc)
		}
	}()
	return func() { close(done) }
}
