package placelab

import (
	"fmt"
	"reflect"
	"sync"
	"sync/atomic"
	"time"

	"github.com/youzan/ZanRedisDB/cluster/pdnode_coord"
)

// Concurrent determinism: the coordinator calls the layout functions from
// several goroutines (DoBalance, checkNamespaces, the CreateNamespace API), so
// "a deterministic function of its inputs" must also hold when several layouts
// are computed at once. A sequential reference is computed by one goroutine for
// small v2 histories of different clusters; then the same inputs are recomputed
// by many goroutines at the same time and compared with the reference.

type concCase struct {
	in       Input
	expected [][]string
	refused  bool
}

func buildConcCases(r *runner) []concCase {
	var cases []concCase
	rnd := r.c.Rand(4242)
	for k := 0; k < 36; k++ {
		d := 1 + k%4
		var all []NodeSpec
		for dc := 0; dc < d; dc++ {
			n := 2 + rnd.Intn(4)
			for j := 0; j < n; j++ {
				all = append(all, NodeSpec{ID: fmt.Sprintf("c%02d-n%d%02d", k, dc+1, j), DC: dcName(dc)})
			}
		}
		replica := 1 + rnd.Intn(3)
		if replica > len(all)-1 {
			replica = len(all) - 1
		}
		if replica < 1 {
			replica = 1
		}
		partitions := 4 + rnd.Intn(20)
		ns := nsNames[rnd.Intn(len(nsNames))]
		without := func(drop ...int) []NodeSpec {
			var l []NodeSpec
			for i, n := range all {
				skip := false
				for _, x := range drop {
					if x == i {
						skip = true
					}
				}
				if !skip {
					l = append(l, n)
				}
			}
			return l
		}
		a, b, c3 := rnd.Intn(len(all)), rnd.Intn(len(all)), rnd.Intn(len(all))
		steps := [][]NodeSpec{without(), without(a), without(b, c3), without()}
		var old [][]string
		for _, live := range steps {
			in := Input{Kind: "concurrent", NS: ns, Partitions: partitions, Replica: replica, Ver: pdnode_coord.BalanceV2Str,
				Nodes: live, Old: copyLayout(old)}
			res := callLayout(&in, 0)
			if res.panicked != nil {
				continue // the sequential phases judge panics; not a reference
			}
			cc := concCase{in: in, expected: copyLayout(res.layout), refused: res.err != nil}
			cases = append(cases, cc)
			if res.err == nil {
				old = res.layout
			}
		}
	}
	return cases
}

// runConcurrent returns true when a difference was found (the caller then
// skips the big parallel phases: with state shared between calls they would
// only risk an endless loop inside the real code).
func (r *runner) runConcurrent() bool {
	cases := buildConcCases(r)
	const workers = 12
	rounds := r.c.Pick(60, 300)
	var stop int32
	var calls, diffs int64
	type diff struct {
		c      *concCase
		got    callResult
		worker int
		round  int
	}
	var first *diff
	var mu sync.Mutex
	var wg sync.WaitGroup
	for w := 0; w < workers; w++ {
		wg.Add(1)
		go func(w int) {
			defer wg.Done()
			for round := 0; round < rounds; round++ {
				for k := range cases {
					if atomic.LoadInt32(&stop) != 0 {
						return
					}
					// every worker walks the cases from another start, so that different clusters overlap
					c := &cases[(k+w*7+round)%len(cases)]
					res := callLayout(&c.in, (w+round)%3)
					atomic.AddInt64(&calls, 1)
					same := res.panicked == nil && (res.err != nil) == c.refused && reflect.DeepEqual(res.layout, c.expected)
					if !same {
						atomic.AddInt64(&diffs, 1)
						mu.Lock()
						if first == nil {
							first = &diff{c: c, got: res, worker: w, round: round}
						}
						mu.Unlock()
						atomic.StoreInt32(&stop, 1)
						return
					}
				}
			}
		}(w)
	}
	// wait for the workers; after a difference only for a short grace time (a worker may be
	// caught in an endless loop inside the real code; the per-call watchdog covers the case
	// where that happens without any difference having been seen)
	finished := make(chan struct{})
	go func() { wg.Wait(); close(finished) }()
	for waiting := true; waiting; {
		select {
		case <-finished:
			waiting = false
		case <-time.After(200 * time.Millisecond):
			if atomic.LoadInt32(&stop) != 0 {
				select {
				case <-finished:
				case <-time.After(5 * time.Second):
				}
				waiting = false
			}
		}
	}
	r.c.Ev.EvalN(int(atomic.LoadInt64(&calls)))
	r.ct.add("concurrent_phase_cases", int64(len(cases)))
	r.ct.add("concurrent_phase_goroutines", workers)
	r.ct.add("concurrent_phase_calls", atomic.LoadInt64(&calls))
	mu.Lock()
	f := first
	mu.Unlock()
	if f == nil {
		return false
	}
	got := "layout"
	if f.got.panicked != nil {
		got = fmt.Sprintf("panic: %v", f.got.panicked)
	} else if f.got.err != nil {
		got = "refusal: " + f.got.err.String()
	}
	w := Witness{Input: f.c.in, Layout: f.c.expected, Layout2: f.got.layout,
		Detail: fmt.Sprintf("computed alone (reference, one goroutine) the input gives `layout`; computed while %d goroutines compute layouts of other clusters (worker %d, round %d) it gave `layout_second_call` / %s", workers, f.worker, f.round, got)}
	r.c.Violation("nondeterministic-layout/concurrent",
		fmt.Sprintf("v2 layout of %s differs from the sequential reference when %d goroutines compute layouts concurrently (got %s)", inputFP(&f.c.in), workers, got), w)
	return true
}
