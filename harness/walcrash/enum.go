package walcrash

import (
	"fmt"
	"math/rand"
	"os"
	"path/filepath"
	"sort"
	"strings"

	"github.com/youzan/ZanRedisDB/wal/walpb"
)

// Witness is what a violation records and what --replay re-executes.
type Witness struct {
	Scenario  string `json:"scenario"` // history | purge-live
	History   int    `json:"history"`
	Cfg       Config `json:"cfg"`
	Ops       []Op   `json:"ops"`
	ImageSeq  int    `json:"image_seq"`           // which kill image (ordinal of the image within the run of Ops)
	Mid       string `json:"mid,omitempty"`       // hook point inside the call, if the image was taken there
	Fault     Fault  `json:"fault"`               // how the on-disk image is derived from it
	Mode      string `json:"mode"`                // node (ValidSnapshotEntries, Open, ReadAll, Repair) | read (OpenForRead) | live
	Start     *Snap  `json:"start,omitempty"`     // snapshot opened at when not chosen like the node does
	MinP      int    `json:"must_survive_recs"`   // |S|
	NRecs     int    `json:"records_handed_over"` // |L|
	Outcome   string `json:"outcome"`
	PurgeSeed int64  `json:"purge_seed,omitempty"`
}

// stats are accumulated per history and merged into the evidence at its end.
type stats struct {
	cnt map[string]int64
	fp  map[string]struct{}
	max map[string]int64
}

func newStats() *stats {
	return &stats{cnt: map[string]int64{}, fp: map[string]struct{}{}, max: map[string]int64{}}
}
func (s *stats) add(k string, n int64) { s.cnt[k] += n }
func (s *stats) mx(k string, v int64) {
	if v > s.max[k] {
		s.max[k] = v
	}
}

// hctx is the evaluation context of one history (one worker).
type hctx struct {
	e        *engine
	id       int
	dir      string
	wd       *workdir
	st       *stats
	rng      *rand.Rand
	viol     int
	depth    int
	conts    []contCand
	label    string // appended to the fault kind in signatures
	scenario string
}

type contCand struct {
	r    *runner
	hid  int
	im   *Image
	f    Fault
	minP int
	// redoN > 0: the zero-gap shape. After the recovery exactly the first redoN
	// lost records are handed over again (byte-identical frames at the same
	// offsets), then Sync, Close, reopen: the stale frames behind them, which
	// still fit the crc chain, must not come back.
	redoN int
}

// gapFault builds, for a region that starts at a frame boundary, the image
// "the first >= 4 KiB of the unsynced write are missing, the rest reached
// disk" and says how many of the lost records cover the gap (at least one
// complete stale frame must follow them).
func gapFault(rg region) (Fault, int, bool) {
	if rg.Drop {
		return Fault{}, 0, false
	}
	var fr []Frame
	for _, f := range rg.Frames {
		if f.Off >= rg.Lo && f.End <= rg.Hi {
			fr = append(fr, f)
		}
	}
	if len(fr) < 2 || fr[0].Off != rg.Lo {
		return Fault{}, 0, false
	}
	gapEnd := (rg.Lo + 4096 + sector - 1) / sector * sector
	for j := 1; j < len(fr); j++ {
		if fr[j-1].End >= gapEnd {
			// only logical records may be re-issued 1:1 (no segment head in between)
			for _, f := range fr[:j] {
				if f.Type != 2 && f.Type != 3 && f.Type != 5 {
					return Fault{}, 0, false
				}
			}
			return Fault{Kind: "zero-gap", File: rg.File, Off: rg.Lo, Gap: gapEnd - rg.Lo, Size: rg.Size}, j, true
		}
	}
	return Fault{}, 0, false
}

func (h *hctx) stop() bool { return h.viol >= 3 || h.e.c.Violations() >= 30 }

func (h *hctx) report(r *runner, im *Image, f Fault, mode string, start *Snap, minP int, out *Outcome, v verdict) {
	kind := f.Kind
	if f.Kind == "bitflip" {
		kind = "bitflip-" + f.What
	}
	if im.Mid != "" && f.Kind == "clean" {
		kind = "clean-midcall"
	}
	if h.label != "" {
		kind += "/" + h.label
	} else if h.depth > 0 {
		kind += "/after-crash-recovery"
	}
	if mode == "read" {
		kind += "/open-for-read"
	}
	sig := v.Sig + "/" + kind
	if tr := typeTransition(f); tr != "" {
		// one root cause, listed as a known finding: the record's type field (and
		// its protobuf tag byte) is outside the record checksum. Only single-bit
		// flips of exactly those two bytes are classified here.
		sig = "record-type-not-checksummed/" + tr
		v.Msg = "[" + v.Sig + "] " + v.Msg
	}
	if f.Kind == "bitflip" && strings.HasPrefix(f.What, "len") {
		// a length field that becomes zero reads as "end of segment": the reader
		// moves on to the next segment file without error
		if fl := im.file(f.File); fl != nil {
			base := f.Off &^ 7
			var l uint64
			for i := int64(0); i < 8; i++ {
				b := fl.at(base + i)
				if base+i == f.Off {
					b ^= 1 << f.Bit
				}
				l |= uint64(b) << (8 * uint(i))
			}
			if l == 0 {
				sig = "zeroed-length-field-ends-segment/" + strings.TrimPrefix(f.What[strings.Index(f.What, ":")+1:], "") + "/" + v.Sig
			}
		}
	}
	if f.Kind == "bitflip" && strings.HasPrefix(f.What, "len") {
		// a length that grows by a few bytes can pull bytes of the next frame into
		// the record; protobuf's last-value-wins then re-types it, the checksum
		// (payload only) still matches
		if fl := im.file(f.File); fl != nil {
			if fi, err := f.apply(im, im.PrevDur); err == nil {
				base := f.Off &^ 7
				var ot, nt int64 = -1, -1
				for _, fr := range parseFrames(fl.Data, fl.Size) {
					if fr.Off == base {
						ot = fr.Type
					}
				}
				ff := fi.file(f.File)
				for _, fr := range parseFrames(ff.Data, ff.Size) {
					if fr.Off == base {
						nt = fr.Type
					}
				}
				if ot > 0 && nt >= 0 && ot != nt {
					to, ok := recTypeName[nt]
					if !ok {
						to = fmt.Sprintf("type%d", nt)
					}
					sig = "record-retyped-by-length-flip/" + recTypeName[ot] + "->" + to
					v.Msg = "[" + v.Sig + "] " + v.Msg
				}
			}
		}
	}
	scen := "history"
	if h.scenario != "" {
		scen = h.scenario
	}
	w := Witness{Scenario: scen, History: h.id, Cfg: r.cfg, Ops: r.ops[:im.st.opIdx+1], ImageSeq: im.Seq, Mid: im.Mid, Fault: f, Mode: mode,
		Start: start, MinP: minP, NRecs: im.NRecs,
		Outcome: fmt.Sprintf("%s stage=%s err=%s repaired=%v(first error %s) start=%v vse=%v", out.Class, out.Stage, out.Err, out.Repaired, out.FirstErr, out.Start, out.VSE)}
	sum := fmt.Sprintf("history %d (seg=%d opt=%v class=%s) image #%d after call %d (%s%s), fault %s: %s", h.id, r.cfg.Seg, im.Opt, r.cfg.Class, im.Seq, im.Call, im.Op, midName(im), f.String(), v.Msg)
	if h.e.c.Violation(sig, sum, w) {
		h.viol++ // listed (known) findings do not stop the enumeration
	}
}

// typeTransition names what a single-bit flip of a record's type byte (or of
// the tag byte in front of it) turns the record into: "state->entry",
// "crc->snapshot", "entry->type6", "snapshot-tag". Empty for any other fault.
func typeTransition(f Fault) string {
	if f.Kind != "bitflip" {
		return ""
	}
	if strings.HasPrefix(f.What, "tag:") {
		return strings.TrimPrefix(f.What, "tag:") + "-tag"
	}
	if !strings.HasPrefix(f.What, "type:") {
		return ""
	}
	from := strings.TrimPrefix(f.What, "type:")
	for t, n := range recTypeName {
		if n == from {
			nt := t ^ (1 << f.Bit)
			to, ok := recTypeName[nt]
			if !ok {
				to = fmt.Sprintf("type%d", nt)
			}
			return from + "->" + to
		}
	}
	return ""
}

func midName(im *Image) string {
	if im.Mid == "" {
		return ""
	}
	return " at " + im.Mid
}

// check materialises the faulted image, runs the node's recovery procedure on
// it and judges the outcome.
func (h *hctx) check(r *runner, im *Image, f Fault, minP int, anyPrefix, verify bool) (Outcome, verdict) {
	faulted, err := f.apply(im, im.PrevDur)
	if err != nil {
		panic(fmt.Sprintf("fault %v: %v", f, err))
	}
	if err := h.wd.put(faulted); err != nil {
		panic(fmt.Sprintf("materialise: %v", err))
	}
	out := reopen(h.wd.dir, im.Opt, nil, verify, false)
	h.wd.dirty = true
	if im.present == nil {
		im.present = r.present(im)
	}
	v := judge(r.log, im.NRecs, minP, &out, []byte(r.cfg.Meta), im.present, anyPrefix)
	h.e.c.Ev.Eval()
	k := f.Kind
	if im.Mid != "" {
		k = "clean-midcall"
	}
	h.st.add("images."+k, 1)
	h.st.add("outcome."+k+"."+out.Class, 1)
	if out.Class == "err" {
		h.st.add("errors."+out.Stage+"."+out.Err, 1)
	}
	if out.Class == "panic" {
		h.st.add("reopen_panics", 1)
	}
	if out.Repaired {
		h.st.add("repairs_after."+out.FirstErr, 1)
	}
	if v.Dropped > 0 {
		h.st.add("synced_records_dropped_by_corruption", 1)
	}
	if v.OK && v.NoMarker {
		h.st.add("success_without_start_marker", 1)
	}
	if f.Kind == "clean" && out.Class == "err" && out.Err == "file-not-found" && r.purged > 0 && v.OK {
		v = verdict{Sig: "purge-removed-needed-segment", Msg: "the kill image cannot be opened at the newest valid snapshot marker: a needed segment file is gone (files purged so far: " + fmt.Sprint(r.purged) + ")", P: -1}
	}
	if !v.OK {
		h.report(r, im, f, "node", nil, minP, &out, v)
	}
	return out, v
}

// extraOpens exercises, on a clean kill image, the other readers: the
// read-only path and older start snapshots.
func (h *hctx) extraOpens(r *runner, im *Image, out *Outcome) {
	if !out.VSEOk {
		return
	}
	meta := []byte(r.cfg.Meta)
	starts := []walpb.Snapshot{out.Start}
	if len(out.VSE) > 1 {
		starts = append(starts, out.VSE[h.rng.Intn(len(out.VSE)-1)])
	}
	for i, st := range starts {
		if err := h.wd.put(im); err != nil {
			panic(err)
		}
		ro := reopenRead(h.wd.dir, st)
		h.wd.dirty = true
		// OpenForRead does not run ValidSnapshotEntries / Verify
		v := judge(r.log, im.NRecs, im.KillMin, &ro, meta, im.present, false)
		h.e.c.Ev.Eval()
		h.st.add("images.open-for-read", 1)
		h.st.add("outcome.open-for-read."+ro.Class, 1)
		if !v.OK {
			s := Snap{st.Index, st.Term}
			h.report(r, im, Fault{Kind: "clean"}, "read", &s, im.KillMin, &ro, v)
		}
		if i == 1 {
			// the node's procedure at an older marker
			h.wd.put(im)
			o2 := reopen(h.wd.dir, im.Opt, &st, true, false)
			h.wd.dirty = true
			v2 := judge(r.log, im.NRecs, im.KillMin, &o2, meta, im.present, false)
			h.e.c.Ev.Eval()
			h.st.add("images.older-start", 1)
			h.st.add("outcome.older-start."+o2.Class, 1)
			if !v2.OK {
				s := Snap{st.Index, st.Term}
				h.report(r, im, Fault{Kind: "clean"}, "node", &s, im.KillMin, &o2, v2)
			}
		}
	}
}

func nonPrefixMasks(n int) []uint32 {
	var out []uint32
	for m := uint32(0); m < 1<<uint(n); m++ {
		// keep masks where some later sector reached disk and an earlier one did not
		seenZero, ok := false, false
		for i := 0; i < n; i++ {
			if m&(1<<uint(i)) == 0 {
				seenZero = true
			} else if seenZero {
				ok = true
			}
		}
		if ok {
			out = append(out, m)
		}
	}
	return out
}

func sampleInts(rng *rand.Rand, lo, hi int64, n int, into map[int64]bool) {
	if hi <= lo {
		return
	}
	if hi-lo <= int64(n) {
		for x := lo; x < hi; x++ {
			into[x] = true
		}
		return
	}
	for i := 0; i < n; i++ {
		into[lo+rng.Int63n(hi-lo)] = true
	}
}

// tearPlan lists the fault images derived from one region.
type tearPlan struct {
	faults     []Fault
	exhaustive bool
	offsets    int64
}

// budgets per enumeration depth
type tearBudget struct {
	allIfBelow  int64 // enumerate every offset when the region is at most this long
	lastTwoMax  int64 // quick rule: every offset of the last two records when they are at most this long
	lastTwoSamp int   // ... else this many sampled offsets inside them
	restSamp    int   // sampled offsets in the rest of the region
	frames      int   // structural offsets (boundaries, length field, header, padding +-1) of the last n frames
	sectors     int   // sector boundaries (+-1) used as truncation points
	zeroSectors int   // zero-fill from that many sector boundaries
	zeroBytes   int   // zero-fill from that many sampled byte offsets
	windows     int   // windows for the later-sector-reached-disk patterns
}

var budgets = map[string]tearBudget{
	"thorough": {allIfBelow: 32 << 10, restSamp: 768, frames: 1 << 30, sectors: 256, zeroSectors: 64, zeroBytes: 48, windows: 64},
	"quick":    {lastTwoMax: 1200, lastTwoSamp: 300, restSamp: 64, frames: 8, sectors: 8, zeroSectors: 12, zeroBytes: 12, windows: 6},
	"light":    {restSamp: 16, frames: 3, sectors: 4, zeroSectors: 4, zeroBytes: 4, windows: 2},
}

// pickSome keeps at most n of the sorted values: the first, the last three and a sample.
func pickSome(rng *rand.Rand, v []int64, n int) []int64 {
	if len(v) <= n {
		return v
	}
	keep := map[int64]bool{v[0]: true}
	for i := len(v) - 1; i >= 0 && i >= len(v)-3 && len(keep) < n; i-- {
		keep[v[i]] = true
	}
	for len(keep) < n {
		keep[v[rng.Intn(len(v))]] = true
	}
	out := make([]int64, 0, n)
	for _, x := range v {
		if keep[x] {
			out = append(out, x)
		}
	}
	return out
}

func (h *hctx) planTears(rg region, mode string) tearPlan {
	var tp tearPlan
	rng := h.rng
	bd, ok := budgets[mode]
	if !ok {
		bd = budgets["light"]
	}
	lo, hi := rg.Lo, rg.Hi
	// frames that intersect the region
	var fr []Frame
	for _, f := range rg.Frames {
		if f.End > lo && f.Off < hi {
			fr = append(fr, f)
		}
	}
	var bounds []int64 // sector boundaries inside the region
	for b := (lo + sector - 1) / sector * sector; b < hi; b += sector {
		bounds = append(bounds, b)
	}
	offs := map[int64]bool{}
	add := func(x int64) {
		if x >= lo && x < hi {
			offs[x] = true
		}
	}
	if bd.allIfBelow > 0 && hi-lo <= bd.allIfBelow {
		for x := lo; x < hi; x++ {
			offs[x] = true
		}
		tp.exhaustive = true
	} else {
		ff := fr
		if len(ff) > bd.frames {
			ff = ff[len(ff)-bd.frames:]
		}
		for _, f := range ff {
			for _, x := range []int64{f.Off - 1, f.Off, f.Off + 1, f.Off + 7, f.Off + 8, f.Off + 9, f.Off + 10, f.PadOff - 1, f.PadOff, f.End - 1} {
				add(x)
			}
			if f.DataLen > 0 {
				add(f.DataOff)
			}
		}
		for _, b := range pickSome(rng, bounds, bd.sectors) {
			add(b - 1)
			add(b)
			add(b + 1)
		}
		cut := lo
		if bd.lastTwoMax > 0 {
			// every offset of the last two records
			if n := len(fr); n >= 2 {
				cut = fr[n-2].Off
			} else if n == 1 {
				cut = fr[0].Off
			}
			if cut < lo {
				cut = lo
			}
			if hi-cut <= bd.lastTwoMax {
				for x := cut; x < hi; x++ {
					offs[x] = true
				}
				tp.exhaustive = cut == lo
			} else {
				sampleInts(rng, cut, hi, bd.lastTwoSamp, offs)
			}
			sampleInts(rng, lo, cut, bd.restSamp, offs)
		} else {
			sampleInts(rng, lo, hi, bd.restSamp, offs)
		}
	}
	sorted := make([]int64, 0, len(offs))
	for x := range offs {
		sorted = append(sorted, x)
	}
	sort.Slice(sorted, func(i, j int) bool { return sorted[i] < sorted[j] })
	tp.offsets = int64(len(sorted))
	for _, x := range sorted {
		tp.faults = append(tp.faults, Fault{Kind: "trunc-eof", File: rg.File, Off: x, Drop: rg.Drop})
	}
	if rg.Drop && rg.Opt {
		// With optimizedFsync the cut does not fdatasync the old segment: after a
		// power loss its tail can be missing although the next segment exists.
		// The crc chained across the segments must make that loud.
		ks := map[int64]bool{}
		for _, f := range fr {
			if f.Off >= lo {
				ks[f.Off] = true
			}
		}
		for _, b := range bounds {
			ks[b] = true
		}
		var kv []int64
		for x := range ks {
			kv = append(kv, x)
		}
		sort.Slice(kv, func(i, j int) bool { return kv[i] < kv[j] })
		for _, x := range pickSome(rng, kv, 12) {
			tp.faults = append(tp.faults, Fault{Kind: "zero-earlier-segment", File: rg.File, Off: x, Size: rg.Size})
		}
	}
	// zero-fill (the file keeps its preallocated length) from sector boundaries
	// (a first sector that also holds synced bytes is covered by the subset patterns)
	for _, b := range pickSome(rng, bounds, bd.zeroSectors) {
		tp.faults = append(tp.faults, Fault{Kind: "zero-sector", File: rg.File, Off: b, Drop: rg.Drop, Size: rg.Size})
	}
	// zero-fill from sampled byte offsets (not sector aligned)
	zo := map[int64]bool{}
	nz := bd.zeroBytes
	if mode == "thorough" && hi-lo <= 1024 {
		nz = 1024
	}
	sampleInts(rng, lo, hi, nz, zo)
	zs := make([]int64, 0, len(zo))
	for x := range zo {
		zs = append(zs, x)
	}
	sort.Slice(zs, func(i, j int) bool { return zs[i] < zs[j] })
	for _, x := range zs {
		tp.faults = append(tp.faults, Fault{Kind: "trunc-zero", File: rg.File, Off: x, Drop: rg.Drop, Size: rg.Size})
	}
	// later sector reached disk, earlier did not: windows of up to 4 sectors
	lastS := (hi - 1) / sector
	var wins []int64
	for s := lo / sector; s <= lastS; s++ {
		wins = append(wins, s)
	}
	for _, s := range pickSome(rng, wins, bd.windows) {
		n := int(lastS - s + 1)
		if n > 4 {
			n = 4
		}
		for _, m := range nonPrefixMasks(n) {
			tp.faults = append(tp.faults, Fault{Kind: "sector-subset", File: rg.File, Off: s * sector, N: n, Mask: m, Drop: rg.Drop, Size: rg.Size, Lo: lo})
		}
	}
	return tp
}

// imgWork is the unit of parallel work: one image of one history with the
// regions to tear (nil when identical to the previous image's) and whether
// bit flips are applied to it.
type imgWork struct {
	tear     string // enumeration depth for this image: thorough | quick | light
	r        *runner
	hid      int
	idx      int
	regions  []region
	lastOfOp bool
	flips    bool
	cost     int64
	mode     string
	depth    int
	label    string
	scenario string
}

// prepare lists the work of one executed history (sequential, cheap).
func prepare(r *runner, hid int, mode string, depth int, label, scenario string, rng *rand.Rand) []imgWork {
	var out []imgWork
	prevKey := ""
	for i, im := range r.imgs {
		w := imgWork{r: r, hid: hid, idx: i, mode: mode, depth: depth, label: label, scenario: scenario, cost: 1}
		w.lastOfOp = im.Mid == "" && (i == len(r.imgs)-1 || r.imgs[i+1].st.opIdx != im.st.opIdx)
		im.st.lastOfOp = w.lastOfOp
		im.present = r.present(im)
		if im.Mid == "" {
			regions := unsyncedRegions(im, im.PrevDur, r.cfg.Seg)
			key := ""
			for _, rg := range regions {
				key += fmt.Sprintf("%s:%d-%d;", rg.File, rg.Lo, rg.Hi)
			}
			if key != "" && key != prevKey {
				if len(regions) > 2 {
					regions = regions[len(regions)-2:]
				}
				w.regions = regions
				w.tear = tearMode(mode, hid, im, rng)
				for _, rg := range regions {
					n := rg.Hi - rg.Lo
					if w.tear == "light" && n > 80 {
						n = 80
					} else if w.tear == "quick" && n > 1500 {
						n = 1500
					} else if n > 33000 {
						n = 1500
					}
					w.cost += n * (int64(len(im.Files)) + (rg.Hi-rg.Lo)/4096)
				}
			}
			if key != "" {
				prevKey = key
			}
		}
		out = append(out, w)
	}
	if depth == 0 {
		// (d) images that are entirely synced get bit flips
		var durs []int
		for i, im := range r.imgs {
			if im.Dur && im.Mid == "" && im.NRecs > 3 {
				durs = append(durs, i)
			}
		}
		if len(durs) > 0 {
			nImg := 3
			if mode == "thorough" {
				nImg = 5
			}
			out[durs[len(durs)-1]].flips = true
			for k := 1; k < nImg; k++ {
				out[durs[rng.Intn(len(durs))]].flips = true
			}
			for i := range out {
				if out[i].flips {
					out[i].cost += 400 * int64(len(r.imgs[i].Files))
				}
			}
		}
	}
	return out
}

// tearMode decides how densely the unsynced region of one image is enumerated.
// thorough tier: every offset (regions up to the cap) for every call of every
// 24th history and for 2% of the calls of the others, the quick rule (every
// offset of the last two records + 64 sampled) for another 8%, structural
// offsets + a sample elsewhere. quick tier: the quick rule for a quarter of
// the calls and for every call that cut a segment or wrote a snapshot marker,
// structural offsets + a sample elsewhere.
func tearMode(mode string, hid int, im *Image, rng *rand.Rand) string {
	u := rng.Intn(100)
	switch mode {
	case "thorough":
		switch {
		case hid%24 == 0 || u < 2:
			return "thorough"
		case u < 10 || im.cut || im.Op == "snap":
			return "quick"
		}
		return "light"
	case "quick":
		if u < 25 || im.cut || im.Op == "snap" {
			return "quick"
		}
		return "light"
	}
	return "light"
}

// evalImage runs the fault enumeration on one image.
func (h *hctx) evalImage(w imgWork) {
	r, im, mode := w.r, w.r.imgs[w.idx], w.mode
	if h.stop() {
		return
	}
	// (a) clean kill image
	out, _ := h.check(r, im, Fault{Kind: "clean"}, im.KillMin, false, true)
	if im.Mid != "" {
		return
	}
	if h.depth == 0 && (w.idx%7 == 3 || w.idx == len(r.imgs)-1) {
		h.extraOpens(r, im, &out)
	}
	if w.lastOfOp && h.depth == 0 && h.rng.Intn(12) == 0 {
		h.conts = append(h.conts, contCand{r: r, hid: w.hid, im: im, f: Fault{Kind: "clean"}, minP: im.KillMin})
	}
	// (b),(c) tears of what was written since the durable sync point before the call
	for _, rg := range w.regions {
		tp := h.planTears(rg, w.tear)
		h.st.add("regions", 1)
		h.st.add("regions."+w.tear, 1)
		h.st.add("region_bytes", rg.Hi-rg.Lo)
		h.st.add("offsets_enumerated", tp.offsets)
		h.st.mx("max_region_bytes", rg.Hi-rg.Lo)
		if tp.exhaustive {
			h.st.add("regions_all_offsets", 1)
		} else {
			h.st.add("regions_sampled", 1)
			if w.tear == "thorough" && rg.Hi-rg.Lo <= h.e.exhaustCap {
				h.st.add("regions_sampled_below_cap", 1)
			}
		}
		for _, f := range tp.faults {
			if h.stop() {
				return
			}
			o, v := h.check(r, im, f, im.PrevDurMin, false, h.rng.Intn(8) == 0)
			// classification of the fault position
			typ, cls, inside := posClass(rg.Frames, f.Off)
			if f.Kind == "sector-subset" {
				// first sector of the window that did not reach disk
				for s := 0; s < f.N; s++ {
					if f.Mask&(1<<uint(s)) == 0 {
						x := f.Off + int64(s)*sector
						if x < rg.Lo {
							x = rg.Lo
						}
						typ, cls, inside = posClass(rg.Frames, x)
						break
					}
				}
			}
			h.st.add("cut_position."+cls, 1)
			if inside {
				h.st.add("images_cut_inside_record", 1)
				h.st.fp[fmt.Sprintf("h%d/c%d/%s/%s/%s", h.id, im.Seq, f.Kind, recTypeName[typ], cls)] = struct{}{}
				h.st.add("cut_inside."+f.Kind+"."+recTypeName[typ]+"."+cls, 1)
			} else {
				h.st.add("images_cut_at_boundary_or_beyond", 1)
			}
			if v.OK && v.P >= 0 {
				if v.P < im.NRecs {
					h.st.add("prefix_shorter_than_written", 1)
				}
				// Save granularity: entries of the last Save without its hard state
				if v.P < im.NRecs && v.P > im.PrevDurMin && r.log.Recs[v.P].Kind == recState && r.log.Recs[v.P-1].Kind == recEntry && r.log.Recs[v.P-1].Call == r.log.Recs[v.P].Call {
					h.st.add("prefix_entries_without_their_state", 1)
				}
			}
			if w.lastOfOp && h.depth == 0 && (o.Class == "ok" || o.Class == "repaired") {
				// candidates for continue-after-crash; stale bytes behind the tear are the interesting ones
				p := 400
				if f.Kind == "sector-subset" || f.Kind == "zero-sector" {
					p = 60
				}
				if mode == "thorough" {
					p *= 4
				}
				if h.rng.Intn(p) == 0 {
					h.conts = append(h.conts, contCand{r: r, hid: w.hid, im: im, f: f, minP: im.PrevDurMin})
				}
			}
		}
	}
	// zero gap of >= 4 KiB at the start of the unsynced write, later sectors present
	if w.lastOfOp && h.depth == 0 {
		for _, rg := range w.regions {
			if f, j, ok := gapFault(rg); ok && !h.stop() {
				o, _ := h.check(r, im, f, im.PrevDurMin, false, false)
				if o.Class == "ok" || o.Class == "repaired" {
					h.conts = append(h.conts, contCand{r: r, hid: w.hid, im: im, f: f, minP: im.PrevDurMin, redoN: j})
				}
			}
		}
	}
	if w.flips {
		h.flipImage(r, im, mode)
	}
}

// flips: single bit flips in images that are entirely synced.
func (h *hctx) flipImage(r *runner, im *Image, mode string) {
	nRec := 8
	if mode == "thorough" {
		nRec = 24
	}
	{
		type tgt struct {
			f  *File
			fr Frame
		}
		byType := map[int64][]tgt{}
		var all []tgt
		for _, f := range im.walFiles() {
			for _, fr := range parseFrames(f.Data, f.Size) {
				t := tgt{f, fr}
				byType[fr.Type] = append(byType[fr.Type], t)
				all = append(all, t)
			}
		}
		var chosen []tgt
		for t := int64(1); t <= 5; t++ {
			if l := byType[t]; len(l) > 0 {
				chosen = append(chosen, l[h.rng.Intn(len(l))])
				chosen = append(chosen, l[len(l)-1])
			}
		}
		for len(chosen) < nRec && len(all) > 0 {
			chosen = append(chosen, all[h.rng.Intn(len(all))])
		}
		for _, t := range chosen {
			fr := t.fr
			tn := recTypeName[fr.Type]
			type fl struct {
				off  int64
				bit  uint
				what string
			}
			rb := func() uint { return uint(h.rng.Intn(8)) }
			list := []fl{
				{fr.Off, rb(), "len"}, {fr.Off + 1, rb(), "len"}, {fr.Off + int64(2+h.rng.Intn(5)), rb(), "len"},
				{fr.Off + 7, 7, "len-padflag"}, {fr.Off + 7, uint(h.rng.Intn(3)), "len-padcount"},
				{fr.Off + 8, rb(), "tag"},
				{fr.Off + 9, 0, "type"}, {fr.Off + 9, 1, "type"}, {fr.Off + 9, 2, "type"}, {fr.Off + 9, uint(3 + h.rng.Intn(5)), "type"},
				{fr.Off + 11, rb(), "crc"},
			}
			hdrEnd := fr.PadOff
			if fr.DataLen > 0 {
				hdrEnd = fr.DataOff
				list = append(list, fl{fr.DataOff - 1, rb(), "dlen"},
					fl{fr.DataOff, rb(), "payload"}, fl{fr.DataOff + fr.DataLen - 1, rb(), "payload"},
					fl{fr.DataOff + h.rng.Int63n(fr.DataLen), rb(), "payload"})
			}
			if hdrEnd-1 > fr.Off+11 {
				list = append(list, fl{fr.Off + 11 + h.rng.Int63n(hdrEnd-fr.Off-11), rb(), "hdr"})
			}
			if fr.End > fr.PadOff {
				list = append(list, fl{fr.PadOff + h.rng.Int63n(fr.End-fr.PadOff), rb(), "pad"})
			}
			for _, x := range list {
				if h.stop() {
					return
				}
				if x.off < fr.Off || x.off >= fr.End {
					continue
				}
				f := Fault{Kind: "bitflip", File: t.f.Name, Off: x.off, Bit: x.bit, What: x.what + ":" + tn}
				o, v := h.check(r, im, f, im.NRecs, true, h.rng.Intn(4) == 0)
				h.st.add("flips."+x.what+"."+tn+"."+o.Class, 1)
				if v.OK && v.P >= 0 && v.Dropped == 0 {
					h.st.add("flips_ignored."+x.what, 1)
				}
				h.st.add("images_cut_inside_record", 1)
				h.st.fp[fmt.Sprintf("h%d/c%d/bitflip/%s/%s", h.id, im.Seq, tn, x.what)] = struct{}{}
			}
		}
	}
}

// selectConts caps the continue-after-crash candidates per history (torn ones first).
func selectConts(all []contCand, max int) []contCand {
	sort.SliceStable(all, func(i, j int) bool {
		a, b := all[i], all[j]
		if a.hid != b.hid {
			return a.hid < b.hid
		}
		if (a.f.Kind == "clean") != (b.f.Kind == "clean") {
			return b.f.Kind == "clean"
		}
		if a.im.Seq != b.im.Seq {
			return a.im.Seq < b.im.Seq
		}
		return a.f.String() < b.f.String()
	})
	var out []contCand
	n, nclean, ngap, cur := 0, 0, 0, -1
	for _, c := range all {
		if c.hid != cur {
			cur, n, nclean, ngap = c.hid, 0, 0, 0
		}
		if c.redoN > 0 {
			// the identical-re-append shape has its own small allowance
			if ngap < 6 {
				ngap++
				out = append(out, c)
			}
			continue
		}
		if n >= max {
			continue
		}
		if c.f.Kind == "clean" {
			if nclean >= 2 {
				continue
			}
			nclean++
		}
		n++
		out = append(out, c)
	}
	return out
}

// continuation: (f) reopen a faulted image, append more, crash again.
func (h *hctx) continuation(cc contCand, ci int) {
	r := cc.r
	dir := filepath.Join(h.dir, "cont")
	nr, _, _, err := crashInto(r.cfg, dir, r, cc.im, cc.f, cc.minP)
	if err != nil {
		h.st.add("continuations_skipped", 1)
		return
	}
	if nr == nil {
		// a violation here was already reported by check() on the same image
		h.st.add("continuations_not_reopened", 1)
		return
	}
	defer os.RemoveAll(dir)
	defer nr.close()
	gid := goid()
	activeRunners.Store(gid, nr)
	defer activeRunners.Delete(gid)
	h.st.add("continuations", 1)
	h.st.add("continuations."+cc.f.Kind, 1)
	lost := r.log.Recs[len(nr.log.Recs):cc.im.NRecs]
	if cc.redoN > 0 {
		if len(lost) <= cc.redoN {
			h.st.add("continuations_skipped", 1)
			return
		}
		for _, op := range redoOps(lost[:cc.redoN]) {
			nr.exec(op)
		}
		nr.exec(Op{K: "sync"})
		nr.exec(Op{K: "reopen"})
		h.st.add("continuations_identical_reappend_after_zero_gap", 1)
		h.depth++
		h.liveReport(nr)
		for _, w := range prepare(nr, h.id, "cont", h.depth, h.label, h.scenario, h.rng) {
			h.evalImage(w)
		}
		h.depth--
		return
	}
	seed := int64(h.id)*1000003 + int64(ci)*7919 + 500000
	if len(lost) > 0 && h.rng.Intn(2) == 0 {
		// hand over exactly the lost records again (a raft leader re-sends the same entries)
		for _, op := range redoOps(lost) {
			nr.exec(op)
		}
		h.st.add("continuations_redo", 1)
	}
	g := deriveGen(nr.log.Recs, seed)
	n := 3 + h.rng.Intn(5)
	for k := 0; k < n && nr.err == nil; k++ {
		for _, op := range g.next(h.rng, r.cfg, true) {
			nr.exec(op)
		}
	}
	nr.exec(Op{K: "reopen"})
	h.depth++
	h.liveReport(nr)
	for _, w := range prepare(nr, h.id, "cont", h.depth, h.label, h.scenario, h.rng) {
		h.evalImage(w)
	}
	h.depth--
}

// redoOps turns lost records back into the calls that wrote them.
func redoOps(lost []Rec) []Op {
	var ops []Op
	cur := Op{K: "save"}
	curCall := -1
	flush := func() {
		if len(cur.Ents) > 0 || cur.HS != nil {
			ops = append(ops, cur)
		}
		cur = Op{K: "save"}
	}
	for i := range lost {
		r := &lost[i]
		if r.Call != curCall {
			flush()
			curCall = r.Call
		}
		switch r.Kind {
		case recEntry:
			cur.Ents = append(cur.Ents, *r.Spec)
		case recState:
			cur.HS = &HS{r.HS.Term, r.HS.Vote, r.HS.Commit}
		case recSnap:
			flush()
			ops = append(ops, Op{K: "snap", Snap: &Snap{r.Snap.Index, r.Snap.Term}})
		}
	}
	flush()
	return ops
}

// liveReport reports what the execution of the history itself found.
func (h *hctx) liveReport(r *runner) {
	if r.liveViol != nil && len(r.imgs) > 0 {
		im := r.imgs[len(r.imgs)-1]
		h.report(r, im, Fault{Kind: "clean"}, "live", nil, im.NRecs, r.liveOut, *r.liveViol)
	} else if r.deadOut != nil && h.depth > 0 {
		// loud failure: admissible; recorded
		h.st.add("clean_close_then_reopen_failed_after_recovery."+r.deadOut.Err, 1)
	} else if r.err != nil {
		h.e.c.Inconclusive(fmt.Sprintf("history %d (depth %d) could not be executed: %v", h.id, h.depth, r.err))
		h.st.add("histories_not_executable", 1)
	}
}
