package walcrash

import (
	"bytes"
	"fmt"
	"os"
	"path/filepath"
	"runtime"
	"strconv"
	"sync"
	"time"

	"github.com/youzan/ZanRedisDB/pkg/fileutil"
	"github.com/youzan/ZanRedisDB/pkg/verifhook"
	"github.com/youzan/ZanRedisDB/raft/raftpb"
	"github.com/youzan/ZanRedisDB/wal"
	"github.com/youzan/ZanRedisDB/wal/walpb"
)

// runner executes a history against a live WAL directory, keeps the logical
// record list with the sync marks and takes a directory image after every call.
type runner struct {
	cfg  Config
	dir  string // live WAL directory
	w    *wal.WAL
	log  *Log
	ops  []Op // ops executed so far (the witness)
	imgs []*Image

	calls     int
	seqNext   int
	opt       bool
	specState HS           // last hard state persisted (what MustSync compares with, by specification)
	wState    HS           // mirror of the WAL's own w.state (empty after a reopen); decides the state copy at a segment head
	headState map[int]bool // segment seq -> its head carries a hard-state copy
	killMin   int
	durMin    int
	durImg    *Image
	tailName  string
	cuts      int
	purged    int
	midOn     bool
	stable    bool // a purger runs concurrently: image only a stable directory listing
	curOpIdx  int
	curOp     string
	viol      int32 // violations reported for this history (shared by its work items)

	// violation found while executing the history itself (live reopen)
	deadOut  *Outcome // the live WAL could not be reopened after a clean Close (loud failure: admissible, but recorded)
	liveViol *verdict
	liveOut  *Outcome
	err      error // the history could not be executed (no verdict)
}

// snapshot of the scalar runner state stored with each image so that a
// history can be forked at that image.
type runnerState struct {
	calls     int
	opt       bool
	specState HS
	wState    HS
	headState map[int]bool
	opIdx     int
	lastOfOp  bool
}

var (
	activeRunners sync.Map // goroutine id -> *runner
	hookOnce      sync.Once
)

func goid() uint64 {
	var b [64]byte
	n := runtime.Stack(b[:], false)
	// "goroutine 123 ["
	s := b[len("goroutine "):n]
	i := bytes.IndexByte(s, ' ')
	if i < 0 {
		return 0
	}
	id, _ := strconv.ParseUint(string(s[:i]), 10, 64)
	return id
}

func installHook() {
	hookOnce.Do(func() {
		verifhook.SetHandler(func(name string) {
			if v, ok := activeRunners.Load(goid()); ok {
				v.(*runner).midCapture(name)
			}
		})
	})
}

func newRunner(cfg Config, dir string) *runner {
	return &runner{cfg: cfg, dir: dir, log: &Log{}, opt: cfg.Opt, headState: map[int]bool{}, midOn: true}
}

func (r *runner) tailSeq() int {
	if r.tailName == "" {
		return 0
	}
	s, _ := parseSeq(r.tailName)
	return int(s)
}

func (r *runner) present(im *Image) func(int) bool {
	have := map[int]bool{}
	for _, f := range im.walFiles() {
		s, _ := parseSeq(f.Name)
		have[int(s)] = true
	}
	return func(seg int) bool { return have[seg] }
}

// take captures the directory after (or, with mid != "", inside) the current call.
func (r *runner) take(mid string, prevDurMin int, prevDur *Image) *Image {
	var prev *Image
	if n := len(r.imgs); n > 0 {
		prev = r.imgs[n-1]
	}
	im, err := capture(r.dir, prev, r.stable)
	if err != nil {
		r.err = fmt.Errorf("capture: %v", err)
		return nil
	}
	if mid != "" && prev != nil && sameContent(im, prev) {
		return nil
	}
	im.Seq = r.seqNext
	r.seqNext++
	im.Call = r.calls
	im.Op = r.curOp
	im.Mid = mid
	im.NRecs = len(r.log.Recs)
	im.KillMin = r.killMin
	im.PrevDurMin = prevDurMin
	im.PrevDur = prevDur
	im.Opt = r.opt
	hs := make(map[int]bool, len(r.headState))
	for k, v := range r.headState {
		hs[k] = v
	}
	im.st = runnerState{calls: r.calls, opt: r.opt, specState: r.specState, wState: r.wState, headState: hs, opIdx: r.curOpIdx}
	r.imgs = append(r.imgs, im)
	return im
}

func sameContent(a, b *Image) bool {
	// segment files only: the preallocated *.tmp files come and go asynchronously
	x, y := a.walFiles(), b.walFiles()
	if len(x) != len(y) {
		return false
	}
	for i := range x {
		if x[i].Name != y[i].Name || x[i].Size != y[i].Size || !bytes.Equal(x[i].Data, y[i].Data) {
			return false
		}
	}
	return true
}

func (r *runner) midCapture(name string) {
	if !r.midOn || r.err != nil {
		return
	}
	r.take(name, r.durMin, r.durImg)
}

// finish is called after every API call: flush says the call is a point after
// which a process kill must preserve everything handed over so far; durable
// says the data was also fdatasync'ed (power-loss baseline).
func (r *runner) finish(flush, durable bool) *Image {
	prevDurMin, prevDur := r.durMin, r.durImg
	if flush {
		r.killMin = len(r.log.Recs)
	}
	im := r.take("", prevDurMin, prevDur)
	if im == nil {
		return nil
	}
	// detect a segment cut
	wals := im.walFiles()
	if len(wals) > 0 {
		name := wals[len(wals)-1].Name
		if r.tailName != "" && name != r.tailName {
			r.cuts++
			s, _ := parseSeq(name)
			r.headState[int(s)] = !r.wState.empty()
			im.st.headState[int(s)] = !r.wState.empty()
			im.cut = true
		}
		r.tailName = name
	}
	if durable {
		r.durMin = len(r.log.Recs)
		r.durImg = im
		im.Dur = true
	}
	r.calls++
	return im
}

func purgeOnce(dir string, max int) error {
	stop := make(chan struct{})
	close(stop)
	done, errc := fileutil.PurgeFileWithDoneNotify(dir, "wal", uint(max), time.Hour, stop)
	<-done
	select {
	case err := <-errc:
		return err
	default:
		return nil
	}
}

// exec performs one op on the live WAL.
func (r *runner) exec(op Op) {
	if r.err != nil {
		return
	}
	defer func() {
		if p := recover(); p != nil {
			r.err = fmt.Errorf("op %s panicked: %v", op.K, p)
		}
	}()
	r.curOpIdx = len(r.ops)
	r.curOp = op.K
	r.ops = append(r.ops, op)
	call := r.calls
	seg := r.tailSeq()
	switch op.K {
	case "create":
		w, err := wal.Create(r.dir, []byte(r.cfg.Meta), r.opt)
		if err != nil {
			r.err = fmt.Errorf("Create: %v", err)
			return
		}
		r.w = w
		r.log.Recs = append(r.log.Recs, Rec{Kind: recMeta, Call: call, Seg: 0}, Rec{Kind: recSnap, Call: call, Seg: 0})
		r.finish(true, true)
	case "save":
		var hs HS
		if op.HS != nil {
			hs = *op.HS
		}
		ents := make([]raftpb.Entry, len(op.Ents))
		for i, e := range op.Ents {
			ents[i] = e.pb()
		}
		for i := range ents {
			e := ents[i]
			e.Data = append([]byte(nil), e.Data...) // the expectation must not alias what the WAL was given
			sp := op.Ents[i]
			r.log.Recs = append(r.log.Recs, Rec{Kind: recEntry, Call: call, Seg: seg, Ent: &e, Spec: &sp})
		}
		if !hs.empty() {
			r.log.Recs = append(r.log.Recs, Rec{Kind: recState, Call: call, Seg: seg, HS: hs.pb()})
		}
		// sync points by specification (raft.MustSync; optimizedFsync only fdatasyncs on term/vote change)
		tv := !hs.empty() && (hs.Vote != r.specState.Vote || hs.Term != r.specState.Term)
		mustSync := len(ents) > 0 || tv
		before := r.tailName
		if !hs.empty() {
			r.wState = hs
		}
		if err := r.w.Save(hs.pb(), ents); err != nil {
			r.err = fmt.Errorf("Save: %v", err)
			return
		}
		if !hs.empty() {
			r.specState = hs
		}
		// a cut also flushes; it is detected from the directory
		cut := false
		if names, _ := readNames(r.dir); len(names) > 0 {
			last := ""
			for _, n := range names {
				if isWal(n) {
					last = n
				}
			}
			cut = before != "" && last != before
		}
		flush := mustSync || cut
		durable := flush
		if r.opt {
			durable = tv && !cut
		}
		r.finish(flush, durable)
	case "snap":
		r.log.Recs = append(r.log.Recs, Rec{Kind: recSnap, Call: call, Seg: seg, Snap: op.Snap.pb()})
		if err := r.w.SaveSnapshot(op.Snap.pb()); err != nil {
			r.err = fmt.Errorf("SaveSnapshot: %v", err)
			return
		}
		r.finish(true, !r.opt)
	case "sync":
		if err := r.w.Sync(); err != nil {
			r.err = fmt.Errorf("Sync: %v", err)
			return
		}
		r.finish(true, true)
	case "release":
		if err := r.w.ReleaseLockTo(op.Index); err != nil {
			r.err = fmt.Errorf("ReleaseLockTo: %v", err)
			return
		}
		r.finish(false, false)
	case "flag":
		r.w.ChangeFsyncFlag(op.Opt)
		r.opt = op.Opt
		r.finish(false, false)
	case "purge":
		before, _ := readNames(r.dir)
		if err := purgeOnce(r.dir, op.Max); err != nil {
			r.err = fmt.Errorf("purge: %v", err)
			return
		}
		after, _ := readNames(r.dir)
		r.purged += len(before) - len(after)
		r.finish(false, false)
	case "reopen":
		if err := r.w.Close(); err != nil {
			r.err = fmt.Errorf("Close: %v", err)
			return
		}
		r.w = nil
		im := r.finish(true, true)
		if im == nil {
			return
		}
		var st *walpb.Snapshot
		if op.Snap != nil {
			s := op.Snap.pb()
			st = &s
		}
		out := reopen(r.dir, r.opt, st, true, true)
		v := judge(r.log, len(r.log.Recs), len(r.log.Recs), &out, []byte(r.cfg.Meta), r.present(im), false)
		if !v.OK {
			r.liveViol, r.liveOut = &v, &out
			r.err = fmt.Errorf("live reopen: %s", v.Sig)
			return
		}
		if out.W == nil {
			r.err = fmt.Errorf("live reopen after a clean Close failed: %s/%s %s", out.Class, out.Stage, out.Err)
			r.deadOut = &out
			return
		}
		r.w = out.W
		r.wState = HS{}
		r.finish(true, true)
	default:
		r.err = fmt.Errorf("unknown op %q", op.K)
	}
}

func (r *runner) close() {
	if r.w != nil {
		func() {
			defer func() { recover() }()
			r.w.Close()
		}()
		r.w = nil
	}
}

// countSurvivors parses the directory physically and returns how many logical
// records it holds (used after a successful reopen, when everything behind
// the last valid record has been zeroed, to learn which prefix survived).
func countSurvivors(dir string, recs []Rec, headState map[int]bool) (int, error) {
	im, err := capture(dir, nil, false)
	if err != nil {
		return 0, err
	}
	wals := im.walFiles()
	if len(wals) == 0 {
		return 0, fmt.Errorf("no segment")
	}
	first, _ := parseSeq(wals[0].Name)
	n := 0
	for i := range recs {
		if recs[i].Seg < int(first) {
			n++
		}
	}
	for _, f := range wals {
		seq, _ := parseSeq(f.Name)
		c := 0
		for _, fr := range parseFrames(f.Data, f.Size) {
			if fr.Type == 2 || fr.Type == 3 || fr.Type == 5 || (fr.Type == 1 && seq == 0) {
				c++
			}
		}
		if headState[int(seq)] && c > 0 {
			c--
		}
		n += c
	}
	return n, nil
}

// crashInto builds the successor of a crash: the faulted image becomes the
// live directory, the node's recovery procedure runs on it, and the history
// continues from the surviving prefix. It returns the judged outcome.
func crashInto(cfg Config, dir string, src *runner, im *Image, f Fault, minP int) (*runner, Outcome, verdict, error) {
	faulted, err := f.apply(im, im.PrevDur)
	if err != nil {
		return nil, Outcome{}, verdict{}, err
	}
	os.RemoveAll(dir)
	if err := os.MkdirAll(dir, 0700); err != nil {
		return nil, Outcome{}, verdict{}, err
	}
	for i := range faulted.Files {
		fl := &faulted.Files[i]
		if err := writeSparse(filepath.Join(dir, fl.Name), fl.Data, fl.Size); err != nil {
			return nil, Outcome{}, verdict{}, err
		}
	}
	out := reopen(dir, im.Opt, nil, false, true)
	v := judge(src.log, im.NRecs, minP, &out, []byte(cfg.Meta), src.present(faulted), false)
	if !v.OK || out.W == nil {
		if out.W != nil {
			out.W.Close()
		}
		return nil, out, v, nil
	}
	n, err := countSurvivors(dir, src.log.Recs[:im.NRecs], im.st.headState)
	if err != nil || n < 0 || n > im.NRecs {
		out.W.Close()
		return nil, out, v, fmt.Errorf("survivor count %d (%v)", n, err)
	}
	// the physical count must explain what was returned, else do not build on it
	ef := effect(src.log.Recs[:n], out.Start)
	same := !ef.Bad && len(ef.Ents) == len(out.Ents) && ef.HS == out.HS && ef.Meta == (len(out.Meta) != 0)
	for i := 0; same && i < len(ef.Ents); i++ {
		same = entEqual(ef.Ents[i], &out.Ents[i])
	}
	if !same {
		out.W.Close()
		return nil, out, v, fmt.Errorf("survivor count %d does not explain the returned state", n)
	}
	nr := newRunner(cfg, dir)
	nr.w = out.W
	nr.log = &Log{Recs: append([]Rec(nil), src.log.Recs[:n]...)}
	nr.ops = append(append([]Op(nil), src.ops[:im.st.opIdx+1]...), Op{K: "crash", Fault: &f})
	nr.curOpIdx = len(nr.ops) - 1
	nr.curOp = "crash"
	nr.calls = im.st.calls + 1
	nr.seqNext = im.Seq + 1
	nr.opt = im.Opt
	nr.specState = hsOf(out.HS)
	nr.wState = HS{}
	for k, b := range im.st.headState {
		nr.headState[k] = b
	}
	nr.killMin, nr.durMin = n, n
	// the reopened directory is the new durable baseline
	base := nr.take("", n, nil)
	if base == nil {
		nr.close()
		return nil, out, v, nr.err
	}
	if w := base.walFiles(); len(w) > 0 {
		nr.tailName = w[len(w)-1].Name
	}
	nr.durImg = base
	base.PrevDur = base // nothing of it is unsynced
	nr.calls++
	return nr, out, v, nil
}
