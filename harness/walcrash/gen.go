package walcrash

import (
	"math/rand"
)

// genState is the raft-side view the generator keeps so that histories are
// the kind a raft node produces: overwrites only above the commit index with
// a higher term, snapshots at or below the commit index (or ahead of the log,
// as installed from a leader), commit never above the last index.
type genState struct {
	ents     []struct{ idx, term uint64 } // log above base
	base     Snap                         // log starts after this index
	term     uint64
	vote     uint64
	commit   uint64
	snap     Snap // newest marker with index <= commit
	released uint64
	seed     int64
	pending  *Snap // marker ahead of the log whose hard state has not been seen yet (deriveGen only)
}

func (g *genState) last() uint64 {
	if n := len(g.ents); n > 0 {
		return g.ents[n-1].idx
	}
	return g.base.Index
}

func (g *genState) termAt(i uint64) uint64 {
	for _, e := range g.ents {
		if e.idx == i {
			return e.term
		}
	}
	if i == g.base.Index {
		return g.base.Term
	}
	return 0
}

func (g *genState) apply(r *Rec) {
	switch r.Kind {
	case recEntry:
		if r.Ent.Index > g.last()+1 {
			g.ents = nil
			g.base = Snap{r.Ent.Index - 1, 0}
		}
		for len(g.ents) > 0 && g.ents[len(g.ents)-1].idx >= r.Ent.Index {
			g.ents = g.ents[:len(g.ents)-1]
		}
		g.ents = append(g.ents, struct{ idx, term uint64 }{r.Ent.Index, r.Ent.Term})
		if r.Ent.Term > g.term {
			g.term = r.Ent.Term
		}
	case recState:
		if r.HS.Term > g.term {
			g.term = r.HS.Term
		}
		g.vote, g.commit = r.HS.Vote, r.HS.Commit
	case recSnap:
		s := Snap{r.Snap.Index, r.Snap.Term}
		if s.Index > g.last() {
			// a snapshot ahead of the log takes effect with the hard state that commits it
			g.pending = &s
		}
		if s.Term > g.term {
			g.term = s.Term
		}
	}
	if g.pending != nil && g.commit >= g.pending.Index && g.pending.Index > g.last() {
		g.ents, g.base = nil, *g.pending
		g.pending = nil
	}
}

// deriveGen rebuilds the generator state from a record list (start of a
// history, or the surviving prefix after a crash).
func deriveGen(recs []Rec, seed int64) *genState {
	g := &genState{seed: seed}
	for i := range recs {
		g.apply(&recs[i])
	}
	if g.commit > g.last() {
		g.commit = g.last()
	}
	for i := range recs {
		if recs[i].Kind == recSnap && recs[i].Snap.Index <= g.commit && recs[i].Snap.Index >= g.snap.Index {
			g.snap = Snap{recs[i].Snap.Index, recs[i].Snap.Term}
		}
	}
	if g.term == 0 {
		g.term = 1
	}
	return g
}

func (g *genState) size(r *rand.Rand, class string) (int, int) {
	fill := 0
	switch x := r.Intn(100); {
	case x < 8:
		fill = 1
	case x < 12:
		fill = 2
	case x < 15:
		fill = 3
	}
	p := r.Intn(100)
	switch class {
	case "page":
		switch {
		case p < 45:
			return r.Intn(64), fill
		case p < 70:
			return 4096 - 60 + r.Intn(90), fill
		case p < 82:
			return 8192 - 60 + r.Intn(90), fill
		case p < 97:
			return 440 + r.Intn(120), fill
		default:
			return 128*1024 - 80 + r.Intn(120), fill
		}
	case "big":
		switch {
		case p < 55:
			return r.Intn(64), fill
		case p < 85:
			// entry size / record size around the 1 MiB marshal buffers of WAL and encoder
			return 1<<20 - 44 + r.Intn(56), fill
		case p < 93:
			return 128*1024 - 80 + r.Intn(120), fill
		default:
			return 4096 - 60 + r.Intn(90), fill
		}
	}
	switch {
	case p < 62:
		return r.Intn(48), fill
	case p < 84:
		return 430 + r.Intn(140), fill // records around one 512-byte sector
	case p < 93:
		return 940 + r.Intn(140), fill // around two sectors
	default:
		return 1500 + r.Intn(700), fill
	}
}

func (g *genState) ent(r *rand.Rand, idx, term uint64, class string) EntSpec {
	n, fill := g.size(r, class)
	if fill == 1 && n < 600 {
		fill = 0
	}
	g.seed++
	e := EntSpec{Index: idx, Term: term, Size: n, Fill: fill, Seed: g.seed}
	if r.Intn(10) == 0 {
		e.Type = 1
	}
	if r.Intn(2) == 0 {
		e.ID = r.Uint64() >> uint(r.Intn(60))
		e.DType = int32(r.Intn(3))
		e.Ts = r.Int63() >> uint(r.Intn(40))
	}
	return e
}

func (g *genState) hs() *HS { return &HS{g.term, g.vote, g.commit} }

// next generates the next step (one to three ops) and updates the state.
func (g *genState) next(r *rand.Rand, cfg Config, allowReopen bool) []Op {
	for {
		switch p := r.Intn(100); {
		case p < 40: // new tail
			n := 1 + r.Intn(3)
			if r.Intn(8) == 0 {
				n += r.Intn(6)
			}
			if cfg.Class == "big" {
				n = 1 + r.Intn(2)
			}
			op := Op{K: "save"}
			for i := 0; i < n; i++ {
				idx := g.last() + 1
				op.Ents = append(op.Ents, g.ent(r, idx, g.term, cfg.Class))
				g.ents = append(g.ents, struct{ idx, term uint64 }{idx, g.term})
			}
			switch r.Intn(4) {
			case 0: // entries only
			case 1: // unchanged hard state is not handed over by raft; commit moves
				if g.commit < g.last()-uint64(n) {
					g.commit += 1 + uint64(r.Int63n(int64(g.last()-uint64(n)-g.commit)))
				}
				op.HS = g.hs()
			default:
				if c := g.last() - uint64(r.Intn(n+1)); c > g.commit && r.Intn(2) == 0 {
					g.commit = c
				}
				op.HS = g.hs()
			}
			return []Op{op}
		case p < 50: // overwrite a suffix with a higher term
			if g.last() <= g.commit || len(g.ents) == 0 {
				continue
			}
			lo := g.commit + 1
			if f := g.ents[0].idx; f > lo {
				lo = f
			}
			if lo > g.last() {
				continue
			}
			from := lo + uint64(r.Int63n(int64(g.last()-lo+1)))
			g.term += 1 + uint64(r.Intn(2))
			g.vote = uint64(1 + r.Intn(3))
			for len(g.ents) > 0 && g.ents[len(g.ents)-1].idx >= from {
				g.ents = g.ents[:len(g.ents)-1]
			}
			op := Op{K: "save"}
			n := 1 + r.Intn(3)
			for i := 0; i < n; i++ {
				idx := from + uint64(i)
				op.Ents = append(op.Ents, g.ent(r, idx, g.term, cfg.Class))
				g.ents = append(g.ents, struct{ idx, term uint64 }{idx, g.term})
			}
			if r.Intn(5) > 0 {
				op.HS = g.hs()
				return []Op{op}
			}
			// term/vote first (vote request), entries afterwards
			return []Op{{K: "save", HS: g.hs()}, op}
		case p < 64: // commit only
			if g.commit >= g.last() {
				continue
			}
			g.commit += 1 + uint64(r.Int63n(int64(g.last()-g.commit)))
			return []Op{{K: "save", HS: g.hs()}}
		case p < 70: // term / vote change
			if r.Intn(3) == 0 && g.vote != 0 {
				g.vote = g.vote%3 + 1
				g.term++
			} else {
				g.term++
				g.vote = uint64(r.Intn(4))
			}
			return []Op{{K: "save", HS: g.hs()}}
		case p < 78: // local snapshot at or below commit, the way the node does it: marker, Sync, Release
			if g.commit <= g.snap.Index {
				continue
			}
			idx := g.snap.Index + 1 + uint64(r.Int63n(int64(g.commit-g.snap.Index)))
			t := g.termAt(idx)
			if t == 0 {
				continue
			}
			g.snap = Snap{idx, t}
			ops := []Op{{K: "snap", Snap: &Snap{idx, t}}}
			switch r.Intn(6) {
			case 0:
			case 1:
				ops = append(ops, Op{K: "sync"})
			default:
				// the node releases only after Sync (node/raft.go): everything that makes
				// the marker valid (its commit) is flushed before older segments may go
				ops = append(ops, Op{K: "sync"}, Op{K: "release", Index: idx})
				g.released = idx
			}
			return ops
		case p < 81: // snapshot from a leader, ahead of the log: marker, then hard state with that commit
			idx := g.last() + 1 + uint64(r.Intn(4))
			if r.Intn(3) == 0 {
				g.term++
			}
			s := Snap{idx, g.term}
			g.ents, g.base, g.commit, g.snap = nil, s, idx, s
			return []Op{{K: "snap", Snap: &s}, {K: "save", HS: g.hs()}}
		case p < 85:
			return []Op{{K: "sync"}}
		case p < 88:
			if g.snap.Index == 0 {
				continue
			}
			g.released = g.snap.Index
			return []Op{{K: "sync"}, {K: "release", Index: g.snap.Index}}
		case p < 93:
			if !allowReopen {
				continue
			}
			return []Op{{K: "reopen"}}
		case p < 97:
			if g.released == 0 {
				continue
			}
			return []Op{{K: "purge", Max: 1 + r.Intn(3)}}
		default:
			if r.Intn(3) > 0 {
				continue
			}
			return []Op{{K: "flag", Opt: r.Intn(2) == 0}}
		}
	}
}
