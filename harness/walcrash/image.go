package walcrash

import (
	"bytes"
	"encoding/binary"
	"fmt"
	"io/ioutil"
	"os"
	"path/filepath"
	"sort"
	"strings"
	"time"

	"github.com/youzan/ZanRedisDB/wal/walpb"
)

// ---------------------------------------------------------------------------
// Directory images (what a process kill leaves on disk), held in memory
// ---------------------------------------------------------------------------

// File is one file of an image. Data has trailing zero bytes trimmed; the
// bytes in [len(Data), Size) are zero (preallocated space).
type File struct {
	Name  string
	Data  []byte
	Size  int64
	mtime time.Time
}

func (f *File) at(i int64) byte {
	if i < int64(len(f.Data)) {
		return f.Data[i]
	}
	return 0
}

// Image is the content of a WAL directory at one instant.
type Image struct {
	Files []File // sorted by name
	// bookkeeping of the history position
	Seq        int    // ordinal of the image within the history
	Call       int    // ordinal of the API call it was taken after (or during, if Mid != "")
	Op         string // kind of that call
	Mid        string // name of the hook point when taken inside the call
	NRecs      int    // records handed to the WAL so far, including those of the call in flight
	KillMin    int    // records that a process kill at this instant must preserve (calls completed up to the last flush/sync point)
	PrevDurMin int    // records durable before the call started (power-loss lower bound for tears of this image)
	PrevDur    *Image // image at that durable sync point
	Opt        bool   // optimizedFsync in force
	Dur        bool   // the call was a durable sync point: the whole image is synced

	st      runnerState
	cut     bool
	present func(int) bool
}

func isWal(name string) bool { return strings.HasSuffix(name, ".wal") }

func (im *Image) walFiles() []*File {
	var out []*File
	for i := range im.Files {
		if isWal(im.Files[i].Name) {
			out = append(out, &im.Files[i])
		}
	}
	return out
}

func (im *Image) file(name string) *File {
	for i := range im.Files {
		if im.Files[i].Name == name {
			return &im.Files[i]
		}
	}
	return nil
}

func parseSeq(name string) (seq, idx uint64) {
	fmt.Sscanf(name, "%016x-%016x.wal", &seq, &idx)
	return
}

func trimZeros(b []byte) []byte {
	n := len(b)
	for n > 0 && b[n-1] == 0 {
		n--
	}
	return b[:n:n]
}

// capture reads the directory into an image. Files of the previous image are
// shared when name, size and mtime are unchanged and the file is not one of
// the two newest segments (those are always re-read).
func capture(dir string, prev *Image, stable bool) (*Image, error) {
	for attempt := 0; ; attempt++ {
		var before []string
		if stable {
			before, _ = readNames(dir)
		}
		im, err := captureOnce(dir, prev)
		if err == nil && stable {
			// files only disappear while the WAL is idle: two equal listings
			// around the capture mean the image is the directory at one instant
			after, _ := readNames(dir)
			if !sameWalNames(before, after) || !sameWalNames(after, im.names()) {
				if attempt > 50 {
					return nil, fmt.Errorf("directory listing does not settle")
				}
				continue
			}
		}
		if err == nil {
			return im, nil
		}
		if !os.IsNotExist(err) || attempt > 50 {
			return nil, err
		}
		// a file vanished between listing and reading (concurrent purge): retry
	}
}

func (im *Image) names() []string {
	var out []string
	for i := range im.Files {
		out = append(out, im.Files[i].Name)
	}
	return out
}

func sameWalNames(a, b []string) bool {
	var x, y []string
	for _, n := range a {
		if isWal(n) {
			x = append(x, n)
		}
	}
	for _, n := range b {
		if isWal(n) {
			y = append(y, n)
		}
	}
	if len(x) != len(y) {
		return false
	}
	for i := range x {
		if x[i] != y[i] {
			return false
		}
	}
	return true
}

func captureOnce(dir string, prev *Image) (*Image, error) {
	fis, err := ioutil.ReadDir(dir)
	if err != nil {
		return nil, err
	}
	sort.Slice(fis, func(i, j int) bool { return fis[i].Name() < fis[j].Name() })
	nwal := 0
	for _, fi := range fis {
		if isWal(fi.Name()) {
			nwal++
		}
	}
	im := &Image{}
	seen := 0
	for _, fi := range fis {
		if fi.IsDir() {
			continue
		}
		name := fi.Name()
		fresh := true
		if isWal(name) {
			seen++
			fresh = seen > nwal-2
		}
		if prev != nil && !fresh {
			if pf := prev.file(name); pf != nil && pf.Size == fi.Size() && pf.mtime.Equal(fi.ModTime()) {
				im.Files = append(im.Files, *pf)
				continue
			}
		}
		var data []byte
		if isWal(name) || strings.HasSuffix(name, ".tmp") {
			// *.tmp: the preallocated next segment; it may already hold the head records of a cut in progress
			b, err := ioutil.ReadFile(filepath.Join(dir, name))
			if err != nil {
				return nil, err
			}
			data = trimZeros(b)
			if prev != nil {
				// share the bytes with the previous image when nothing was written
				if pf := prev.file(name); pf != nil && bytes.Equal(pf.Data, data) {
					data = pf.Data
				}
			}
			if int64(len(b)) != fi.Size() {
				// raced with a writer; sizes are re-read below
				fi2, err := os.Stat(filepath.Join(dir, name))
				if err != nil {
					return nil, err
				}
				fi = fi2
			}
			im.Files = append(im.Files, File{Name: name, Data: data, Size: int64(len(b)), mtime: fi.ModTime()})
			continue
		}
		// non-segment files (preallocated *.tmp, *.broken): content is irrelevant
		// to every reader; keep name and size only
		im.Files = append(im.Files, File{Name: name, Size: fi.Size(), mtime: fi.ModTime()})
	}
	return im, nil
}

// clone returns a copy sharing the file contents.
func (im *Image) clone() *Image {
	c := *im
	c.Files = append([]File(nil), im.Files...)
	return &c
}

// workdir materialises images on disk for reopening. It rewrites only what
// differs from what it wrote last time; since a reopen may modify the newest
// segment (zeroing, repair, truncation) and create files, everything the
// reopen could have touched is restored.
type workdir struct {
	dir   string
	have  map[string]haveFile
	dirty bool
}

type haveFile struct {
	data *byte
	n    int
	size int64
}

func dataPtr(b []byte) *byte {
	if len(b) == 0 {
		return nil
	}
	return &b[0]
}

func newWorkdir(dir string) (*workdir, error) {
	os.RemoveAll(dir)
	if err := os.MkdirAll(dir, 0700); err != nil {
		return nil, err
	}
	return &workdir{dir: dir, have: map[string]haveFile{}}, nil
}

func writeSparse(path string, data []byte, size int64) error {
	f, err := os.OpenFile(path, os.O_CREATE|os.O_TRUNC|os.O_WRONLY, 0600)
	if err != nil {
		return err
	}
	if len(data) > 0 {
		if _, err = f.Write(data); err != nil {
			f.Close()
			return err
		}
	}
	if size > int64(len(data)) {
		if err = f.Truncate(size); err != nil {
			f.Close()
			return err
		}
	}
	return f.Close()
}

// put makes the directory content equal to the image.
func (w *workdir) put(im *Image) error {
	names, err := readNames(w.dir)
	if err != nil {
		return err
	}
	want := map[string]bool{}
	wals := im.walFiles()
	lastTwo := map[string]bool{}
	for i := len(wals) - 1; i >= 0 && i >= len(wals)-2; i-- {
		lastTwo[wals[i].Name] = true
	}
	for i := range im.Files {
		want[im.Files[i].Name] = true
	}
	onDisk := map[string]bool{}
	for _, n := range names {
		if !want[n] {
			os.Remove(filepath.Join(w.dir, n))
			delete(w.have, n)
			continue
		}
		onDisk[n] = true
	}
	// the newest segment on disk may have been modified by the previous reopen
	var diskWals []string
	for _, n := range names {
		if isWal(n) && onDisk[n] {
			diskWals = append(diskWals, n)
		}
	}
	touched := map[string]bool{}
	if w.dirty && len(diskWals) > 0 {
		touched[diskWals[len(diskWals)-1]] = true
	}
	for i := range im.Files {
		f := &im.Files[i]
		h, ok := w.have[f.Name]
		if ok && onDisk[f.Name] && !touched[f.Name] && isWal(f.Name) && h.data == dataPtr(f.Data) && h.n == len(f.Data) && h.size == f.Size {
			continue
		}
		if !isWal(f.Name) {
			// a fresh inode: a lock left on the old one (reader that panicked) must not block the next reopen
			os.Remove(filepath.Join(w.dir, f.Name))
		}
		if err := writeSparse(filepath.Join(w.dir, f.Name), f.Data, f.Size); err != nil {
			return err
		}
		w.have[f.Name] = haveFile{dataPtr(f.Data), len(f.Data), f.Size}
	}
	w.dirty = false
	return nil
}

func readNames(dir string) ([]string, error) {
	d, err := os.Open(dir)
	if err != nil {
		return nil, err
	}
	names, err := d.Readdirnames(-1)
	d.Close()
	sort.Strings(names)
	return names, err
}

// ---------------------------------------------------------------------------
// Physical frames (harness-side parser; used for classification of fault
// positions, for choosing bit-flip targets and for counting the records that
// survived a reopen — never for deciding what the WAL should have returned)
// ---------------------------------------------------------------------------

type Frame struct {
	Off, End int64 // [Off,End) including the 8-byte length field and padding
	Type     int64
	DataOff  int64 // offset of the record payload (Record.Data), 0 if none
	DataLen  int64
	PadOff   int64 // start of padding (== End when none)
}

func parseFrames(data []byte, size int64) []Frame {
	var out []Frame
	off := int64(0)
	var rec walpb.Record
	for off+8 <= int64(len(data)) {
		l := int64(binary.LittleEndian.Uint64(data[off:]))
		if l == 0 {
			break
		}
		recBytes := int64(uint64(l) & ^(uint64(0xff) << 56))
		pad := int64(0)
		if l < 0 {
			pad = int64((uint64(l) >> 56) & 0x7)
		}
		end := off + 8 + recBytes + pad
		body := off + 8 + recBytes
		if recBytes <= 0 || end > size {
			break
		}
		if body > int64(len(data)) {
			// trailing zero bytes of the record were trimmed together with the
			// preallocated space: restore them
			nd := make([]byte, body)
			copy(nd, data)
			data = nd
		}
		rec.Reset()
		if err := rec.Unmarshal(data[off+8 : body]); err != nil {
			break
		}
		fr := Frame{Off: off, End: end, Type: rec.Type, PadOff: body}
		if rec.Data != nil {
			fr.DataLen = int64(len(rec.Data))
			fr.DataOff = body - fr.DataLen
		}
		out = append(out, fr)
		off = end
	}
	return out
}

// posClass says which part of a record byte offset x falls into.
func posClass(frames []Frame, x int64) (typ int64, class string, inside bool) {
	i := sort.Search(len(frames), func(i int) bool { return frames[i].End > x })
	if i == len(frames) {
		return 0, "beyond", false
	}
	f := frames[i]
	switch {
	case x == f.Off:
		return f.Type, "boundary", false
	case x < f.Off+8:
		return f.Type, "len", true
	case f.DataLen > 0 && x >= f.DataOff && x < f.DataOff+f.DataLen:
		return f.Type, "payload", true
	case x >= f.PadOff:
		return f.Type, "pad", true
	default:
		return f.Type, "hdr", true
	}
}

var recTypeName = map[int64]string{1: "metadata", 2: "entry", 3: "state", 4: "crc", 5: "snapshot"}

// ---------------------------------------------------------------------------
// Faults
// ---------------------------------------------------------------------------

// Fault describes how an on-disk image is derived from a kill image.
type Fault struct {
	Kind string `json:"kind"` // clean | trunc-eof | trunc-zero | zero-sector | zero-gap | zero-earlier-segment | sector-subset | bitflip
	File string `json:"file,omitempty"`
	Off  int64  `json:"off,omitempty"`
	// sector-subset: sectors [Off/512 .. +N) of the unsynced region; bit i of Mask set = sector i reached
	// disk; sectors after the window did not reach disk.
	N    int    `json:"n,omitempty"`
	Mask uint32 `json:"mask,omitempty"`
	Bit  uint   `json:"bit,omitempty"`  // bitflip: bit number within the byte at Off
	What string `json:"what,omitempty"` // bitflip: which field (len, type, crc, dlen, payload, pad) of which record type
	Drop bool   `json:"drop,omitempty"` // remove the segment files after File (the crash happened before the cut created them)
	Gap  int64  `json:"gap,omitempty"`  // zero-gap: bytes [Off,Off+Gap) did not reach disk, everything behind them did
	Lo   int64  `json:"lo,omitempty"`   // sector-subset: start of the unsynced region (bytes before it stay as they are)
	Size int64  `json:"size,omitempty"` // size File has in the faulted image when not implied (trunc-zero on a segment that the cut shortened)
}

func (f Fault) String() string {
	switch f.Kind {
	case "clean":
		return "clean"
	case "bitflip":
		return fmt.Sprintf("bitflip %s@%d bit %d (%s)", f.File, f.Off, f.Bit, f.What)
	case "sector-subset":
		return fmt.Sprintf("sector-subset %s@%d n=%d mask=%b", f.File, f.Off, f.N, f.Mask)
	case "zero-gap":
		return fmt.Sprintf("zero-gap %s@%d+%d", f.File, f.Off, f.Gap)
	}
	return fmt.Sprintf("%s %s@%d", f.Kind, f.File, f.Off)
}

const sector = 512

// apply derives the faulted image. base is the image at the last durable sync
// point before the call (content that is certainly on disk); it may be nil.
func (f Fault) apply(im *Image, base *Image) (*Image, error) {
	if f.Kind == "clean" {
		return im, nil
	}
	out := im.clone()
	idx := -1
	for i := range out.Files {
		if out.Files[i].Name == f.File {
			idx = i
		}
	}
	if idx < 0 {
		return nil, fmt.Errorf("fault file %s not in image", f.File)
	}
	cur := out.Files[idx]
	var old *File
	if base != nil {
		old = base.file(f.File)
	}
	size := cur.Size
	if f.Size > 0 {
		size = f.Size
	}
	switch f.Kind {
	case "trunc-eof":
		n := f.Off
		if n > int64(len(cur.Data)) {
			n = int64(len(cur.Data))
		}
		out.Files[idx] = File{Name: cur.Name, Data: cur.Data[:n:n], Size: f.Off}
	case "trunc-zero", "zero-sector", "zero-earlier-segment":
		n := f.Off
		if n > int64(len(cur.Data)) {
			n = int64(len(cur.Data))
		}
		out.Files[idx] = File{Name: cur.Name, Data: trimZeros(cur.Data[:n:n]), Size: size}
	case "zero-gap":
		// the leading sectors of the unsynced write are missing (durable content,
		// i.e. zeros of the preallocated space), the later sectors reached disk
		nb := make([]byte, len(cur.Data))
		copy(nb, cur.Data)
		for x := f.Off; x < f.Off+f.Gap && x < int64(len(nb)); x++ {
			if old != nil {
				nb[x] = old.at(x)
			} else {
				nb[x] = 0
			}
		}
		out.Files[idx] = File{Name: cur.Name, Data: trimZeros(nb), Size: size}
	case "sector-subset":
		// bytes before the window: current; window sectors: current if the mask
		// bit is set, else the durable content; after the window: durable content
		end := int64(len(cur.Data))
		nb := make([]byte, end)
		copy(nb, cur.Data)
		w0 := f.Off / sector * sector
		if w0 < f.Lo {
			w0 = f.Lo // bytes before the unsynced region are on disk (synced data, segment head)
		}
		for x := w0; x < end; x++ {
			s := int((x - f.Off/sector*sector) / sector)
			if s < f.N && f.Mask&(1<<uint(s)) != 0 {
				continue
			}
			if old != nil {
				nb[x] = old.at(x)
			} else {
				nb[x] = 0
			}
		}
		out.Files[idx] = File{Name: cur.Name, Data: trimZeros(nb), Size: size}
	case "bitflip":
		if f.Off >= cur.Size {
			return nil, fmt.Errorf("bitflip offset beyond file")
		}
		n := int64(len(cur.Data))
		if f.Off >= n {
			n = f.Off + 1
		}
		nb := make([]byte, n)
		copy(nb, cur.Data)
		nb[f.Off] ^= 1 << f.Bit
		out.Files[idx] = File{Name: cur.Name, Data: trimZeros(nb), Size: cur.Size}
	default:
		return nil, fmt.Errorf("unknown fault kind %q", f.Kind)
	}
	if f.Drop {
		keep := out.Files[:0:0]
		for i := range out.Files {
			if isWal(out.Files[i].Name) && out.Files[i].Name > f.File {
				continue
			}
			keep = append(keep, out.Files[i])
		}
		out.Files = keep
	}
	return out, nil
}

// region is the part of one segment file written since the durable sync point.
type region struct {
	File   string
	Lo, Hi int64 // [Lo,Hi): bytes that differ from / lie beyond the durable image
	Size   int64 // preallocated size to use for zero-fill variants
	Drop   bool  // later segments exist in the image and must be dropped for a tear of this file
	Opt    bool  // optimizedFsync was in force
	Frames []Frame
}

// unsyncedRegions diffs the image with the durable image: for every segment
// that changed, the byte range that is not known to be on disk.
func unsyncedRegions(im, base *Image, seg int64) []region {
	var out []region
	wals := im.walFiles()
	for i, f := range wals {
		var old *File
		if base != nil {
			old = base.file(f.Name)
		}
		frames := parseFrames(f.Data, f.Size)
		hi := int64(len(f.Data))
		if n := len(frames); n > 0 && frames[n-1].End > hi {
			hi = frames[n-1].End
		}
		lo := int64(0)
		if old == nil {
			// A segment created since the durable point: its head records (crc,
			// metadata, hard-state copy) are written and synced before the rename
			// publishes it (not fdatasync'ed with optimizedFsync, whose power-loss
			// durability is not claimed): taken as on disk.
			want := []int64{4, 1, 3}
			for k := 0; k < len(frames) && k < 3 && frames[k].Type == want[k]; k++ {
				lo = frames[k].End
			}
		}
		if old != nil {
			if bytes.Equal(old.Data, f.Data) {
				continue
			}
			// first byte that differs (beyond its trimmed length a file is zeros)
			for lo < hi && old.at(lo) == f.at(lo) {
				lo++
			}
		}
		if lo >= hi {
			continue
		}
		size := f.Size
		if i < len(wals)-1 {
			// the cut shortened it; before the cut it had its preallocated size
			if old != nil && old.Size > size {
				size = old.Size
			} else if seg > size {
				size = seg
			}
		}
		if size < hi {
			size = hi
		}
		out = append(out, region{File: f.Name, Lo: lo, Hi: hi, Size: size, Drop: i < len(wals)-1, Opt: im.Opt, Frames: frames})
	}
	return out
}
