package walcrash

import (
	"bytes"
	"fmt"
	"io"
	"strings"

	"github.com/youzan/ZanRedisDB/raft/raftpb"
	"github.com/youzan/ZanRedisDB/wal"
	"github.com/youzan/ZanRedisDB/wal/walpb"
)

// Outcome of reopening one on-disk image the way node/raft.go does
// (startRaft: ValidSnapshotEntries -> newest snapshot; openWAL: Open, ReadAll,
// on error Close + Repair + one more Open/ReadAll).
type Outcome struct {
	Class    string // ok | repaired | err | panic
	Err      string
	Stage    string // which call failed: vse | open | readall | repair
	VSE      []walpb.Snapshot
	VSEOk    bool
	VerRun   bool
	VerErr   string
	Start    walpb.Snapshot
	Meta     []byte
	HS       raftpb.HardState
	Ents     []raftpb.Entry
	Repaired bool
	FirstErr string // ReadAll error that led to Repair
	W        *wal.WAL
}

func pickStart(snaps []walpb.Snapshot) walpb.Snapshot {
	// the snapshotter loads the newest snapshot file (names sort by term, then
	// index) that matches any WAL marker; every marker has its file here
	var best walpb.Snapshot
	for _, s := range snaps {
		if s.Term > best.Term || (s.Term == best.Term && s.Index >= best.Index) {
			best = s
		}
	}
	return best
}

func errClass(err error) string {
	switch err {
	case nil:
		return ""
	case io.ErrUnexpectedEOF:
		return "unexpected-eof"
	case io.EOF:
		return "eof"
	case wal.ErrCRCMismatch, walpb.ErrCRCMismatch:
		return "crc-mismatch"
	case wal.ErrFileNotFound:
		return "file-not-found"
	case wal.ErrSnapshotNotFound:
		return "snapshot-not-found"
	case wal.ErrSnapshotMismatch:
		return "snapshot-mismatch"
	case wal.ErrMetadataConflict:
		return "metadata-conflict"
	case wal.ErrMaxWALEntrySizeLimitExceeded:
		return "max-entry-size"
	}
	s := err.Error()
	switch {
	case strings.Contains(s, "index out of range"):
		return "index-out-of-range"
	case strings.Contains(s, "unexpected block type"):
		return "unexpected-block-type"
	case strings.Contains(s, "proto") || strings.Contains(s, "wiretype") || strings.Contains(s, "illegal tag") || strings.Contains(s, "overflow"):
		return "proto-unmarshal"
	}
	return "other"
}

// reopen runs the node's recovery procedure on dir. start==nil: choose the
// snapshot like the node does. keep: leave the WAL open for appending (Outcome.W).
func reopen(dir string, opt bool, start *walpb.Snapshot, verify, keep bool) (out Outcome) {
	var w *wal.WAL
	defer func() {
		if r := recover(); r != nil {
			out.Class = "panic"
			out.Err = fmt.Sprint(r)
			if len(out.Err) > 200 {
				out.Err = out.Err[:200]
			}
			out.W = nil
			if w != nil {
				// do not leak the file locks and the preallocation goroutine
				func() {
					defer func() { recover() }()
					w.Close()
				}()
			}
		}
	}()
	if !wal.Exist(dir) {
		out.Class, out.Stage, out.Err = "err", "open", "no-wal"
		return
	}
	snaps, err := wal.ValidSnapshotEntries(dir)
	if err != nil {
		out.Class, out.Stage, out.Err = "err", "vse", errClass(err)
		return
	}
	out.VSE, out.VSEOk = snaps, true
	if start != nil {
		out.Start = *start
	} else {
		out.Start = pickStart(snaps)
	}
	if verify {
		out.VerRun = true
		if err := wal.Verify(dir, out.Start); err != nil {
			out.VerErr = errClass(err)
		}
	}
	for {
		w, err = wal.Open(dir, out.Start, opt)
		if err != nil {
			out.Class, out.Stage, out.Err = "err", "open", errClass(err)
			return
		}
		meta, hs, ents, err := w.ReadAll()
		if err != nil {
			w.Close()
			w = nil
			if !out.Repaired {
				out.FirstErr = errClass(err)
				if wal.Repair(dir) {
					out.Repaired = true
					continue
				}
				out.Class, out.Stage, out.Err = "err", "repair", errClass(err)
				return
			}
			out.Class, out.Stage, out.Err = "err", "readall", errClass(err)
			return
		}
		out.Meta, out.HS, out.Ents = meta, hs, ents
		break
	}
	out.Class = "ok"
	if out.Repaired {
		out.Class = "repaired"
	}
	if keep {
		out.W = w
	} else {
		w.Close()
	}
	return
}

// reopenRead is the read-only path: OpenForRead + ReadAll (tolerates a torn tail itself).
func reopenRead(dir string, start walpb.Snapshot) (out Outcome) {
	defer func() {
		if r := recover(); r != nil {
			out.Class, out.Err = "panic", fmt.Sprint(r)
		}
	}()
	out.Start = start
	w, err := wal.OpenForRead(dir, start)
	if err != nil {
		out.Class, out.Stage, out.Err = "err", "open", errClass(err)
		return
	}
	meta, hs, ents, err := w.ReadAll()
	w.Close()
	if err != nil {
		out.Class, out.Stage, out.Err = "err", "readall", errClass(err)
		return
	}
	out.Class, out.Meta, out.HS, out.Ents = "ok", meta, hs, ents
	return
}

// verdict of the admissibility oracle for one outcome.
type verdict struct {
	OK       bool
	Sig      string // violation class (fault kind is appended by the caller)
	Msg      string
	P        int  // matched prefix length (-1: outcome was a loud failure)
	NoMarker bool // success although the matched prefix does not hold the start marker (ReadAll drops ErrSnapshotNotFound in write mode)
	Dropped  int  // records of the must-survive set S missing from the matched prefix (only possible when anyPrefix)
}

func snapsEqual(a, b []walpb.Snapshot) bool {
	if len(a) != len(b) {
		return false
	}
	for i := range a {
		if a[i] != b[i] {
			return false
		}
	}
	return true
}

// judge decides whether the outcome is admissible: a loud failure, or exactly
// effect(recs[:p]) for some p in [minP, nrecs] (p in [0, nrecs] when
// anyPrefix: corruption of synced bytes may be cut off, never returned).
func judge(l *Log, nrecs, minP int, out *Outcome, meta []byte, present func(int) bool, anyPrefix bool) verdict {
	lo := minP
	if anyPrefix {
		lo = 0
	}
	recs := l.Recs[:nrecs]
	// --- ValidSnapshotEntries
	if out.VSEOk {
		ok := false
		var hs raftpb.HardState
		var all []walpb.Snapshot
		tmp := make([]walpb.Snapshot, 0, 8)
		test := func() bool {
			tmp = tmp[:0]
			for _, s := range all {
				if s.Index <= hs.Commit {
					tmp = append(tmp, s)
				}
			}
			return snapsEqual(tmp, out.VSE)
		}
		if lo == 0 && test() {
			ok = true
		}
		for p := 1; p <= nrecs && !ok; p++ {
			switch r := &recs[p-1]; r.Kind {
			case recState:
				hs = r.HS
			case recSnap:
				if present == nil || present(r.Seg) {
					all = append(all, r.Snap)
				}
			}
			if p >= lo && test() {
				ok = true
			}
		}
		if !ok {
			sig := "valid-snapshots-not-a-prefix"
			// a marker that was never written?
			for _, s := range out.VSE {
				found := false
				for i := range recs {
					if recs[i].Kind == recSnap && recs[i].Snap == s {
						found = true
					}
				}
				if !found {
					sig = "unwritten-snapshot-marker-returned"
				}
			}
			return verdict{Sig: sig, Msg: fmt.Sprintf("ValidSnapshotEntries returned %v, which is the marker list of no record prefix of length %d..%d (all %d records: %v)", out.VSE, lo, nrecs, nrecs, validSnaps(recs, present)), P: -1}
		}
	}
	if out.Class != "ok" && out.Class != "repaired" {
		return verdict{OK: true, P: -1}
	}
	// --- Verify said the log is fine up to a torn tail and holds the marker
	if out.VerRun && out.VerErr == "" {
		sums := l.sums(out.Start)
		ok := false
		for p := lo; p <= nrecs; p++ {
			if sums[p].found {
				ok = true
				break
			}
		}
		if !ok {
			return verdict{Sig: "verify-accepts-missing-snapshot", Msg: fmt.Sprintf("Verify(%v) == nil but no admissible prefix contains that marker", out.Start), P: -1}
		}
	}
	// --- Open + ReadAll succeeded
	if len(out.Meta) != 0 && !bytes.Equal(out.Meta, meta) {
		return verdict{Sig: "metadata-altered", Msg: fmt.Sprintf("metadata %q returned, %q written", out.Meta, meta), P: -1}
	}
	match := func(from, to int) int {
		sums := l.sums(out.Start)
		var lastIdx, lastTerm uint64
		if n := len(out.Ents); n > 0 {
			lastIdx, lastTerm = out.Ents[n-1].Index, out.Ents[n-1].Term
		}
		for p := to; p >= from; p-- {
			s := &sums[p]
			if s.bad || s.meta != (len(out.Meta) != 0) || s.n != len(out.Ents) || s.hs != out.HS || s.lastIdx != lastIdx || s.lastTerm != lastTerm {
				continue
			}
			ef := effect(recs[:p], out.Start)
			same := len(ef.Ents) == len(out.Ents)
			for i := 0; same && i < len(ef.Ents); i++ {
				same = entEqual(ef.Ents[i], &out.Ents[i])
			}
			if same {
				return p
			}
		}
		return -1
	}
	if p := match(lo, nrecs); p >= 0 {
		v := verdict{OK: true, P: p, NoMarker: !l.sums(out.Start)[p].found}
		if p < minP {
			v.Dropped = minP - p
		}
		return v
	}
	// --- not admissible: classify
	what := fmt.Sprintf("Open(%v)+ReadAll (%s) returned state=%+v and %d entries", out.Start, out.Class, hsOf(out.HS), len(out.Ents))
	if n := len(out.Ents); n > 0 {
		what += fmt.Sprintf(" [%d..%d]", out.Ents[0].Index, out.Ents[n-1].Index)
	}
	for i := range out.Ents {
		e := &out.Ents[i]
		found := false
		for j := range recs {
			if recs[j].Kind == recEntry && recs[j].Ent.Index == e.Index && entEqual(recs[j].Ent, e) {
				found = true
				break
			}
		}
		if !found {
			return verdict{Sig: "unwritten-entry-returned", Msg: what + fmt.Sprintf("; entry index=%d term=%d len=%d was never written in that form", e.Index, e.Term, len(e.Data)), P: -1}
		}
	}
	if (out.HS != raftpb.HardState{}) {
		found := false
		for j := range recs {
			if recs[j].Kind == recState && recs[j].HS == out.HS {
				found = true
				break
			}
		}
		if !found {
			return verdict{Sig: "unwritten-state-returned", Msg: what + "; that hard state was never written", P: -1}
		}
	}
	if !anyPrefix && minP > 0 {
		if p := match(0, minP-1); p >= 0 {
			kind := map[int]string{recEntry: "entry", recState: "state", recSnap: "snapshot", recMeta: "metadata"}[recs[p].Kind]
			return verdict{Sig: "synced-" + kind + "-lost", Msg: what + fmt.Sprintf(" = effect of the first %d records, but %d records were saved before the last completed sync (first missing: %s of call %d)", p, minP, kind, recs[p].Call), P: -1}
		}
	}
	// The result may be explained by a reader that lets only entries above the
	// start snapshot truncate: an overwrite at or below the snapshot index does
	// not remove the stale entries above it.
	for p := nrecs; p >= lo; p-- {
		var ents []*raftpb.Entry
		var hs raftpb.HardState
		for i := range recs[:p] {
			switch r := &recs[i]; r.Kind {
			case recEntry:
				if r.Ent.Index > out.Start.Index {
					for n := len(ents); n > 0 && ents[n-1].Index >= r.Ent.Index; n = len(ents) {
						ents = ents[:n-1]
					}
					ents = append(ents, r.Ent)
				}
			case recState:
				hs = r.HS
			}
		}
		same := hs == out.HS && len(ents) == len(out.Ents)
		for i := 0; same && i < len(ents); i++ {
			same = entEqual(ents[i], &out.Ents[i])
		}
		if same {
			return verdict{Sig: "truncated-entries-returned-above-snapshot", Msg: what + fmt.Sprintf("; these are entries that an overwrite at an index <= the start snapshot %d had truncated (the reader applies the truncation of an entry only when its index is above the start snapshot); effect of all %d records: %s", out.Start.Index, nrecs, effStr(effect(recs, out.Start))), P: -1}
		}
	}
	for i := 1; i < len(out.Ents); i++ {
		if out.Ents[i].Index != out.Ents[i-1].Index+1 {
			return verdict{Sig: "not-a-prefix/index-not-consecutive", Msg: what + fmt.Sprintf("; entry %d is followed by entry %d", out.Ents[i-1].Index, out.Ents[i].Index), P: -1}
		}
	}
	return verdict{Sig: "not-a-prefix", Msg: what + fmt.Sprintf("; no record prefix of length %d..%d has that effect (all %d records: %s)", lo, nrecs, nrecs, effStr(effect(recs, out.Start))), P: -1}
}

func hsOf(h raftpb.HardState) HS { return HS{h.Term, h.Vote, h.Commit} }

func effStr(full Effect) string {
	fs := fmt.Sprintf("state=%+v, %d entries", hsOf(full.HS), len(full.Ents))
	if n := len(full.Ents); n > 0 {
		fs += fmt.Sprintf(" [%d..%d] last term %d", full.Ents[0].Index, full.Ents[n-1].Index, full.Ents[n-1].Term)
	}
	if full.Bad {
		fs += " (undefined: hole or marker term mismatch)"
	}
	return fs
}
