// Package walcrash is engine E2 of /verif/DESIGN.md: it decides property C05
// (WAL reopen after a crash returns exactly a durable prefix) by driving the
// exported wal API with seeded histories, imaging the directory after every
// call and reopening clean, torn, zero-filled and bit-flipped variants of the
// images the way node/raft.go does.
package walcrash

import (
	"encoding/json"
	"fmt"
	"io/ioutil"
	"os"
	"os/signal"
	"path/filepath"
	"runtime/debug"
	"sort"
	"strconv"
	"sync"
	"sync/atomic"
	"syscall"
	"time"

	"github.com/youzan/ZanRedisDB/pkg/fileutil"
	"github.com/youzan/ZanRedisDB/wal"

	"verif/harness/vc"
)

func init() { vc.Register("C05", "fault_enumeration", runC05) }

type engine struct {
	pool       chan *workdir
	batch      int
	c          *vc.Ctx
	base       string
	mode       string // quick | thorough
	exhaustCap int64
	mu         sync.Mutex
	samples    int
}

type histSpec struct {
	ID   int
	Cfg  Config
	NOps int
}

func plan(c *vc.Ctx) []histSpec {
	var out []histSpec
	add := func(n int, seg int64, class string, nops int) {
		for i := 0; i < n; i++ {
			id := len(out)
			out = append(out, histSpec{ID: id, NOps: nops, Cfg: Config{Seg: seg, Opt: id%2 == 1, Class: class,
				Meta: fmt.Sprintf(`{"ID":%d,"GroupID":%d,"GroupName":"verif-%d"}`, id+1, c.Seed, id)}})
		}
	}
	if c.Thorough() {
		add(400, 4096, "small", 100)
		add(140, 65536, "page", 40)
		add(52, 65536, "small", 120)
		add(8, 65536, "big", 16)
	} else {
		add(26, 4096, "small", 70)
		add(8, 65536, "page", 36)
		add(4, 65536, "small", 90)
		add(2, 65536, "big", 12)
	}
	return out
}

// silenceRepoLogs points file descriptor 1 (captured by the loggers of wal,
// fileutil and pbutil at package init) at /dev/null and keeps the real stdout
// for the check's own lines.
func silenceRepoLogs() {
	fd, err := syscall.Dup(1)
	if err != nil {
		return
	}
	null, err := os.OpenFile(os.DevNull, os.O_WRONLY, 0)
	if err != nil {
		return
	}
	if err := syscall.Dup3(int(null.Fd()), 1, 0); err != nil {
		return
	}
	os.Stdout = os.NewFile(uintptr(fd), "/dev/stdout")
}

func memLimit() int64 {
	var si syscall.Sysinfo_t
	lim := int64(4 << 30)
	if syscall.Sysinfo(&si) == nil {
		free := int64(si.Freeram) * int64(si.Unit)
		if free/4 > lim {
			lim = free / 4
		}
		if lim > 24<<30 {
			lim = 24 << 30
		}
	}
	return lim
}

func scratchBase(c *vc.Ctx) string {
	var st syscall.Statfs_t
	if os.Getenv("VERIF_C05_NOSHM") == "" && syscall.Statfs("/dev/shm", &st) == nil && uint64(st.Bavail)*uint64(st.Bsize) > 6<<30 {
		if d, err := ioutil.TempDir("/dev/shm", "verif-C05-"); err == nil {
			return d
		}
	}
	return c.Scratch
}

func runC05(c *vc.Ctx) error {
	silenceRepoLogs()
	e := &engine{c: c, mode: c.Tier, exhaustCap: 32 << 10, batch: 48}
	e.base = scratchBase(c)
	if e.base != c.Scratch {
		defer os.RemoveAll(e.base)
		sig := make(chan os.Signal, 1)
		signal.Notify(sig, syscall.SIGINT, syscall.SIGTERM)
		go func() {
			<-sig
			os.RemoveAll(e.base)
			os.RemoveAll(c.Scratch)
			os.Exit(2)
		}()
	}
	// wal.Open and ReadAll allocate 2.1 MiB of buffers per reopen; with the
	// default pacing the collector and the scavenger (page faults on a shared
	// address space) serialise the workers. Collect rarely, keep pages mapped.
	// Collect moderately often (the freed buffers are reused while still mapped)
	// and stay well below the sandbox's per-process memory watchdog.
	gcp := 150
	if v, err := strconv.Atoi(os.Getenv("VERIF_C05_GOGC")); err == nil {
		gcp = v
	}
	defer debug.SetGCPercent(debug.SetGCPercent(gcp))
	defer debug.SetMemoryLimit(debug.SetMemoryLimit(4 << 30))
	// watchdog: a reader that blocks forever (e.g. on a file lock) must not hang the check
	wdone := make(chan struct{})
	defer close(wdone)
	go func() {
		last, idle := int64(-1), 0
		t := time.NewTicker(30 * time.Second)
		defer t.Stop()
		for {
			select {
			case <-wdone:
				return
			case <-t.C:
				if n := c.Ev.Evals(); n != last {
					last, idle = n, 0
				} else if idle++; idle >= 12 {
					fmt.Printf("INCONCLUSIVE property=C05 watchdog: no reopen execution completed for 6 minutes (a WAL call blocks); no verdict\n")
					if e.base != c.Scratch {
						os.RemoveAll(e.base)
					}
					os.RemoveAll(c.Scratch)
					os.Exit(2)
				}
			}
		}
	}()
	installHook()
	oldSeg := wal.SegmentSizeBytes
	defer func() { wal.SegmentSizeBytes = oldSeg }()

	e.pool = make(chan *workdir, c.Workers)
	for k := 0; k < c.Workers; k++ {
		wd, err := newWorkdir(filepath.Join(e.base, fmt.Sprintf("w%d", k), "work"))
		if err != nil {
			return err
		}
		e.pool <- wd
	}
	if c.Replay != "" {
		return e.replay(c.Replay)
	}

	c.Ev.Rule = "Histories: seeded random sequences of wal API calls as a raft node issues them (Create; Save with a new tail / an overwriting suffix of higher term above the commit index / commit-only hard state / term-vote change; SaveSnapshot at or below commit or ahead of the log; Sync; ReleaseLockTo; one-pass PurgeFile; ChangeFsyncFlag; Close+Open+ReadAll), " +
		"SegmentSizeBytes 4 KiB and 64 KiB, both optimizedFsync settings, entry payloads around 512 B sectors, 4 KiB pages, the 128 KiB page-writer buffer and the 1 MiB marshal buffers. After every call (and at the verifhook points inside Save/cut when present) the directory is imaged. " +
		"Each image is reopened like node/raft.go does (ValidSnapshotEntries -> newest marker, Verify, Open, ReadAll, on error Close+Repair+retry) as is (kill image, S = records of calls up to the last flush point) and in fault variants of the region written since the last fdatasync point before the call, found by diffing with the image taken there (S = records durable at that point): " +
		"file ends at byte offset x (trunc-eof), zero-filled from sector boundary / byte offset (zero-sector, trunc-zero), windows of <=4 sectors where a later sector reached disk and an earlier did not (sector-subset), the first >= 4 KiB of the unsynced write missing while the rest reached disk (zero-gap; continued by handing over exactly the first lost records again, Sync, Close, reopen); single bit flips in fully synced images (any prefix admissible, altered data never). " +
		"evaluations = reopen executions judged. A fault image is non-trivial when the fault position (cut offset, first missing sector, flipped bit) lies strictly inside a physical record frame; its fingerprint is (history, image ordinal, fault kind, type of the record hit, part of the record: len field / header / payload / padding / flipped field). " +
		"distinct_nontrivial = number of distinct fingerprints (each stands for >= 1 distinct image; the raw number of inside-record images is images_cut_inside_record)."
	c.Ev.Assume("Power loss is modelled by images: bytes written since the last fdatasync point may be missing sector-wise; whether fdatasync is really issued is not observable (optimizedFsync skips it on purpose for entries and snapshot markers; there only term/vote changes, Sync and Close count as durable points and the torn region spans several calls).")
	c.Ev.Assume("Tears are applied to the newest one or two segment files that changed since the durable point; older segments are left intact. Directory metadata (rename, file creation) is assumed atomic and ordered as issued, and the head records of a segment (crc, metadata, hard-state copy) are assumed on disk once the segment is visible under its final name (true without optimizedFsync; with optimizedFsync cut() does not fdatasync them before the rename, a power loss there can leave a segment without head, which a later Open starting at that segment reports as crc mismatch or returns without metadata - not judged).")
	c.Ev.Assume("A loud failure (error or panic from ValidSnapshotEntries/Open/ReadAll, Repair returning false) is always admissible; error rates per fault kind are reported, not judged. Bit flips that make the reader cut off synced records silently are allowed by the property text and counted in synced_records_dropped_by_corruption.")
	c.Ev.Assume("Snapshot files are assumed present for every WAL marker (the node picks the newest marker returned by ValidSnapshotEntries).")

	specs := plan(c)
	t0 := time.Now()
	for _, seg := range []int64{4096, 65536} {
		var idx []int
		for i, s := range specs {
			if s.Cfg.Seg == seg {
				idx = append(idx, i)
			}
		}
		wal.SegmentSizeBytes = seg
		nPurge := 0
		if seg == 4096 {
			nPurge = c.Pick(6, 48)
		}
		// Histories are processed in batches so that only the images of one batch
		// are in memory; big-entry histories are spread over the batches.
		nb := (len(idx) + e.batch - 1) / e.batch
		if nb < 1 {
			nb = 1
		}
		nItems, nConts := 0, 0
		for bi := 0; bi < nb; bi++ {
			var bidx []int
			for i := bi; i < len(idx); i += nb {
				bidx = append(bidx, idx[i])
			}
			np := 0
			if bi == 0 {
				np = nPurge
			}
			ni, nc := e.runBatch(specs, bidx, np)
			nItems += ni
			nConts += nc
			if nb > 1 {
				fmt.Printf("C05: segment size %d: batch %d/%d (%d histories) done, %d reopen executions so far, %.1fs\n", seg, bi+1, nb, len(bidx), c.Ev.Evals(), time.Since(t0).Seconds())
			}
			if c.Violations() >= 30 {
				break
			}
		}
		fmt.Printf("C05: segment size %d: %d histories, %d images, %d continuations, %d reopen executions so far, %.1fs\n", seg, len(idx), nItems, nConts, c.Ev.Evals(), time.Since(t0).Seconds())
	}
	c.Ev.Set("exhaustive_tail_offsets", c.Thorough() && c.Ev.Counter("regions_sampled_below_cap") == 0 && c.Ev.Counter("regions_all_offsets") > 0)
	c.Ev.Set("exhaustive_tail_offsets_scope", fmt.Sprintf("thorough tier: every byte offset of the unsynced region is a truncation point for every call of every 24th history and 2%% of the calls of the other histories (regions.thorough; regions of more than %d bytes, i.e. entries of 128 KiB / 1 MiB, are sampled); elsewhere and in the quick tier: every offset of the last two records + 64 sampled (regions.quick) or frame/sector boundaries +-1 and 24 sampled offsets (regions.light)", e.exhaustCap))
	c.Ev.Set("scratch_on_shm", e.base != c.Scratch)
	if bad, all := c.Ev.Counter("histories_not_executable"), c.Ev.Counter("histories"); bad*10 > all {
		// e.g. the WAL cannot be reopened after a clean Close: loud, hence admissible
		// for every single image, but then the histories were not exercised
		return fmt.Errorf("%d of %d histories could not be executed to their end (live WAL failed): too little was exercised", bad, all)
	}
	return nil
}

// runBatch executes a batch of histories (plus np concurrent-purge scenarios)
// and runs the fault enumeration over their images.
func (e *engine) runBatch(specs []histSpec, idx []int, np int) (int, int) {
	c := e.c
	// stage 1: execute the histories (and the concurrent-purge scenarios), imaging after every call
	works := make([][]imgWork, len(idx)+np)
	c.ParallelFor(len(idx)+np, func(k int) {
		if k >= len(idx) {
			works[k] = e.purgeLive(1000+k-len(idx), nil)
			return
		}
		works[k] = e.runHistory(specs[idx[k]])
	})
	var items []imgWork
	for _, w := range works {
		items = append(items, w...)
	}
	// stage 2: fault enumeration, one image per work item, most expensive first
	sort.SliceStable(items, func(a, b int) bool { return items[a].cost > items[b].cost })
	var cmu sync.Mutex
	var conts []contCand
	c.ParallelFor(len(items), func(k int) {
		w := items[k]
		h := e.newHctx(w.hid, int64(w.idx)+1, w.depth, w.label, w.scenario)
		defer e.release(h)
		h.viol = int(atomic.LoadInt32(&w.r.viol))
		h.evalImage(w)
		atomic.StoreInt32(&w.r.viol, int32(h.viol))
		if len(h.conts) > 0 {
			cmu.Lock()
			conts = append(conts, h.conts...)
			cmu.Unlock()
		}
	})
	// stage 3: continue after a crash, crash again
	conts = selectConts(conts, c.Pick(6, 14))
	c.ParallelFor(len(conts), func(k int) {
		cc := conts[k]
		h := e.newHctx(cc.hid, int64(k)+100000, 0, "", "")
		defer e.release(h)
		if h.stop() {
			return
		}
		h.continuation(cc, k)
	})
	return len(items), len(conts)
}

func (e *engine) merge(st *stats) {
	for k, v := range st.cnt {
		e.c.Ev.Count(k, v)
	}
	for k, v := range st.max {
		e.c.Ev.Max(k, v)
	}
	for k := range st.fp {
		e.c.Ev.Nontrivial(k)
	}
}

// newHctx takes a work directory from the pool.
func (e *engine) newHctx(hid int, stream int64, depth int, label, scenario string) *hctx {
	wd := <-e.pool
	return &hctx{e: e, id: hid, dir: filepath.Dir(wd.dir), wd: wd, st: newStats(), rng: e.c.Rand(int64(hid)*100003 + stream), depth: depth, label: label, scenario: scenario}
}

func (e *engine) release(h *hctx) {
	e.merge(h.st)
	e.pool <- h.wd
}

func (e *engine) runHistory(hs histSpec) []imgWork {
	dir := filepath.Join(e.base, fmt.Sprintf("h%d", hs.ID))
	os.MkdirAll(dir, 0700)
	defer os.RemoveAll(dir)
	st := newStats()
	defer e.merge(st)
	rng := e.c.Rand(int64(hs.ID) * 100003)
	r := newRunner(hs.Cfg, filepath.Join(dir, "live"))
	gid := goid()
	activeRunners.Store(gid, r)
	defer activeRunners.Delete(gid)
	r.exec(Op{K: "create"})
	g := deriveGen(r.log.Recs, int64(hs.ID)*1000003)
	for len(r.ops) < hs.NOps && r.err == nil {
		for _, op := range g.next(rng, hs.Cfg, true) {
			r.exec(op)
		}
	}
	if r.err == nil && rng.Intn(2) == 0 {
		r.exec(Op{K: "reopen"})
	}
	r.close()
	st.add("histories", 1)
	st.add("histories."+hs.Cfg.Class+fmt.Sprintf(".seg%d", hs.Cfg.Seg), 1)
	if hs.Cfg.Opt {
		st.add("histories.optimizedFsync", 1)
	}
	st.add("segment_cuts", int64(r.cuts))
	st.add("segments_purged_by_purge_op", int64(r.purged))
	st.add("api_calls", int64(r.calls))
	st.add("records_written", int64(len(r.log.Recs)))
	for _, op := range r.ops {
		st.add("ops."+op.K, 1)
	}
	for _, im := range r.imgs {
		if im.Mid != "" {
			st.add("midcall_images."+im.Mid, 1)
		}
	}
	h := &hctx{e: e, id: hs.ID, st: st}
	h.liveReport(r)
	e.mu.Lock()
	if e.samples < 3 {
		e.samples++
		n := len(r.ops)
		if n > 12 {
			n = 12
		}
		e.c.Ev.Sample(3, map[string]interface{}{"history": hs.ID, "cfg": hs.Cfg, "first_ops": r.ops[:n], "calls": r.calls, "records": len(r.log.Recs), "segment_cuts": r.cuts, "images": len(r.imgs)})
	}
	e.mu.Unlock()
	return prepare(r, hs.ID, e.mode, 0, "", "", rng)
}

// purgeLive is scenario (e): fileutil.PurgeFile at 1 ms interval runs against
// a live WAL that cuts segments, writes snapshot markers and releases locks
// like the node does. Every kill image must still open at its newest valid
// snapshot marker. Which files are gone at which image depends on timing; the
// judgement does not.
func (e *engine) purgeLive(id int, replayOps []Op) []imgWork {
	dir := filepath.Join(e.base, fmt.Sprintf("p%d", id))
	os.MkdirAll(dir, 0700)
	defer os.RemoveAll(dir)
	st := newStats()
	defer e.merge(st)
	rng := e.c.Rand(int64(id))
	cfg := Config{Seg: 4096, Opt: id%2 == 1, Class: "small", Meta: fmt.Sprintf(`{"ID":%d,"purge":true}`, id)}
	r := newRunner(cfg, filepath.Join(dir, "live"))
	r.midOn = false
	r.stable = true
	r.exec(Op{K: "create"})
	stop := make(chan struct{})
	errc := fileutil.PurgeFile(r.dir, "wal", uint(1+id%2), time.Millisecond, stop)
	if replayOps != nil {
		for i, op := range replayOps[1:] {
			r.exec(op)
			if i%8 == 7 {
				time.Sleep(time.Millisecond)
			}
		}
	} else {
		g := deriveGen(r.log.Recs, int64(id)*1000003)
		nops := e.c.Pick(260, 420)
		for len(r.ops) < nops && r.err == nil {
			// no Close/reopen here: a closed WAL holds no locks, nothing protects its files from the purger
			for _, op := range g.next(rng, cfg, false) {
				if op.K == "purge" || op.K == "flag" {
					continue
				}
				r.exec(op)
			}
			if len(r.ops)%8 == 0 {
				time.Sleep(time.Millisecond)
			}
		}
	}
	close(stop)
	select {
	case err := <-errc:
		e.c.Inconclusive(fmt.Sprintf("purge scenario %d: PurgeFile failed: %v", id, err))
	default:
	}
	time.Sleep(3 * time.Millisecond)
	// files missing below the first present segment were purged
	maxPurged := 0
	for _, im := range r.imgs {
		if w := im.walFiles(); len(w) > 0 {
			s, _ := parseSeq(w[0].Name)
			if int(s) > maxPurged {
				maxPurged = int(s)
			}
		}
	}
	r.purged = maxPurged
	st.add("purge_live_scenarios", 1)
	st.add("purge_live_segments_removed", int64(maxPurged))
	st.add("purge_live_segment_cuts", int64(r.cuts))
	r.close()
	h := &hctx{e: e, id: id, st: st, depth: 1}
	h.liveReport(r)
	return prepare(r, id, "cont", 1, "concurrent-purge", "purge-live", rng)
}

// ---------------------------------------------------------------------------
// Replay
// ---------------------------------------------------------------------------

func (e *engine) replay(path string) error {
	b, err := ioutil.ReadFile(path)
	if err != nil {
		return err
	}
	var doc struct {
		Signature string  `json:"signature"`
		Witness   Witness `json:"witness"`
	}
	if err := json.Unmarshal(b, &doc); err != nil {
		return err
	}
	w := doc.Witness
	wal.SegmentSizeBytes = w.Cfg.Seg
	if w.Scenario == "purge-live" {
		fmt.Printf("C05 replay: concurrent purge scenario %d (timing dependent)\n", w.History)
		for _, it := range e.purgeLive(w.History, w.Ops) {
			h := e.newHctx(it.hid, int64(it.idx)+1, it.depth, it.label, it.scenario)
			h.evalImage(it)
			e.release(h)
		}
		return nil
	}
	dir := filepath.Join(e.base, "replay")
	os.MkdirAll(dir, 0700)
	defer os.RemoveAll(dir)
	h := e.newHctx(w.History, 0, 0, "", "")
	wd := h.wd
	r := newRunner(w.Cfg, filepath.Join(dir, "live0"))
	gid := goid()
	activeRunners.Store(gid, r)
	defer activeRunners.Delete(gid)
	for i, op := range w.Ops {
		if op.K == "crash" {
			im := r.imgs[len(r.imgs)-1]
			minP := im.PrevDurMin
			if op.Fault.Kind == "clean" {
				minP = im.KillMin
			}
			nr, out, v, err := crashInto(w.Cfg, filepath.Join(dir, fmt.Sprintf("live%d", i)), r, im, *op.Fault, minP)
			if err != nil {
				return fmt.Errorf("replay: crash op %d: %v", i, err)
			}
			if nr == nil {
				return fmt.Errorf("replay: crash op %d did not reopen: %s %s (%s)", i, out.Class, out.Err, v.Sig)
			}
			r.close()
			r = nr
			h.depth++
			activeRunners.Store(gid, r)
			continue
		}
		r.exec(op)
		if r.err != nil && r.liveViol == nil {
			return fmt.Errorf("replay: op %d (%s): %v", i, op.K, r.err)
		}
	}
	defer r.close()
	if os.Getenv("VERIF_C05_TRACE") != "" {
		for _, x := range r.imgs {
			var fs []string
			for _, f := range x.walFiles() {
				fs = append(fs, fmt.Sprintf("%s:%d/%d", f.Name[12:16], len(f.Data), f.Size))
			}
			pd := -1
			if x.PrevDur != nil {
				pd = x.PrevDur.Seq
			}
			fmt.Printf("  img #%d call %d op %s%s nrecs=%d killMin=%d prevDurMin=%d prevDur=#%d dur=%v opt=%v cut=%v files=%v\n", x.Seq, x.Call, x.Op, midName(x), x.NRecs, x.KillMin, x.PrevDurMin, pd, x.Dur, x.Opt, x.cut, fs)
		}
	}
	if w.Mode == "live" {
		if r.liveViol != nil {
			h.report(r, r.imgs[len(r.imgs)-1], Fault{Kind: "clean"}, "live", nil, w.MinP, r.liveOut, *r.liveViol)
		} else {
			fmt.Printf("C05 replay: live reopen is fine now\n")
		}
		return nil
	}
	var im *Image
	for _, x := range r.imgs {
		if x.Seq == w.ImageSeq && x.Mid == w.Mid {
			im = x
		}
	}
	if im == nil {
		return fmt.Errorf("replay: image #%d (%q) not produced by the recorded ops (%d images)", w.ImageSeq, w.Mid, len(r.imgs))
	}
	im.present = r.present(im)
	if os.Getenv("VERIF_C05_TRACE") != "" && w.Fault.File != "" {
		if fi, err := w.Fault.apply(im, im.PrevDur); err == nil {
			for _, x := range []*Image{im, fi} {
				fl := x.file(w.Fault.File)
				fmt.Printf("  frames of %s (size %d, data %d):\n", fl.Name, fl.Size, len(fl.Data))
				for _, fr := range parseFrames(fl.Data, fl.Size) {
					if fr.End > w.Fault.Off-200 && fr.Off < w.Fault.Off+300 {
						b := fl.Data[fr.Off:]
						if len(b) > 24 {
							b = b[:24]
						}
						fmt.Printf("    [%d,%d) type=%d datalen=%d pad=%d  % x\n", fr.Off, fr.End, fr.Type, fr.DataLen, fr.End-fr.PadOff, b)
					}
				}
			}
		}
	}
	var out Outcome
	var v verdict
	switch {
	case w.Mode == "read":
		wd.put(im)
		out = reopenRead(wd.dir, w.Start.pb())
		v = judge(r.log, im.NRecs, w.MinP, &out, []byte(w.Cfg.Meta), im.present, false)
		if !v.OK {
			h.report(r, im, w.Fault, "read", w.Start, w.MinP, &out, v)
		}
	case w.Start != nil:
		wd.put(im)
		s := w.Start.pb()
		out = reopen(wd.dir, im.Opt, &s, true, false)
		v = judge(r.log, im.NRecs, w.MinP, &out, []byte(w.Cfg.Meta), im.present, false)
		if !v.OK {
			h.report(r, im, w.Fault, "node", w.Start, w.MinP, &out, v)
		}
	default:
		out, v = h.check(r, im, w.Fault, w.MinP, w.Fault.Kind == "bitflip", true)
	}
	fmt.Printf("C05 replay: image #%d after call %d (%s), fault %s -> %s stage=%s err=%s repaired=%v start=%v state=%+v entries=%d; admissible=%v %s\n",
		im.Seq, im.Call, im.Op, w.Fault.String(), out.Class, out.Stage, out.Err, out.Repaired, out.Start, hsOf(out.HS), len(out.Ents), v.OK, v.Sig)
	return nil
}
