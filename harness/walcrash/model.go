package walcrash

import (
	"bytes"
	"math/rand"
	"sync"

	"github.com/youzan/ZanRedisDB/raft/raftpb"
	"github.com/youzan/ZanRedisDB/wal/walpb"
)

// ---------------------------------------------------------------------------
// History description (JSON-serialisable: it is the witness)
// ---------------------------------------------------------------------------

// HS is a hard state as given to Save.
type HS struct {
	Term   uint64 `json:"t"`
	Vote   uint64 `json:"v"`
	Commit uint64 `json:"c"`
}

func (h HS) empty() bool { return h == HS{} }
func (h HS) pb() raftpb.HardState {
	return raftpb.HardState{Term: h.Term, Vote: h.Vote, Commit: h.Commit}
}

// EntSpec describes one entry; its payload is a function of (Seed,Size,Fill).
type EntSpec struct {
	Index uint64 `json:"i"`
	Term  uint64 `json:"t"`
	Size  int    `json:"n"`           // payload length
	Fill  int    `json:"f,omitempty"` // 0 random, 1 random with a >=600 byte zero run, 2 all zero, 3 all 0xff
	Seed  int64  `json:"s"`
	Type  int    `json:"ty,omitempty"`
	ID    uint64 `json:"id,omitempty"`
	DType int32  `json:"dt,omitempty"`
	Ts    int64  `json:"ts,omitempty"`
}

func genData(seed int64, size, fill int) []byte {
	if size == 0 {
		return nil
	}
	b := make([]byte, size)
	switch fill {
	case 2:
		return b
	case 3:
		for i := range b {
			b[i] = 0xff
		}
		return b
	}
	r := rand.New(rand.NewSource(seed))
	r.Read(b)
	if fill == 1 {
		run := 600 + r.Intn(700)
		if run > size {
			run = size
		}
		at := 0
		if size > run {
			at = r.Intn(size - run + 1)
		}
		for i := at; i < at+run; i++ {
			b[i] = 0
		}
	}
	return b
}

func (e EntSpec) pb() raftpb.Entry {
	return raftpb.Entry{Term: e.Term, Index: e.Index, Type: raftpb.EntryType(e.Type), Data: genData(e.Seed, e.Size, e.Fill),
		ID: e.ID, DataType: e.DType, Timestamp: e.Ts}
}

// Snap is a snapshot marker.
type Snap struct {
	Index uint64 `json:"i"`
	Term  uint64 `json:"t"`
}

func (s Snap) pb() walpb.Snapshot { return walpb.Snapshot{Index: s.Index, Term: s.Term} }

// Op is one step of a history. Every op except "crash" is exactly one call
// (or, for reopen, the Close / Open+ReadAll pair) of the exported wal API.
type Op struct {
	K     string    `json:"k"` // create save snap sync release reopen purge flag crash
	HS    *HS       `json:"hs,omitempty"`
	Ents  []EntSpec `json:"ents,omitempty"`
	Snap  *Snap     `json:"snap,omitempty"`  // snap: marker; reopen: snapshot to open at (nil = the one the node would pick)
	Index uint64    `json:"index,omitempty"` // release
	Max   int       `json:"max,omitempty"`   // purge: files to keep
	Opt   bool      `json:"opt,omitempty"`   // flag: new optimizedFsync value
	Fault *Fault    `json:"fault,omitempty"` // crash: the fault applied to the kill image taken after the previous call
}

// Config of one history.
type Config struct {
	Seg  int64  `json:"seg"` // wal.SegmentSizeBytes
	Opt  bool   `json:"opt"` // optimizedFsync
	Meta string `json:"meta"`
	// Class of entry sizes: "small", "page", "big"
	Class string `json:"class"`
}

// ---------------------------------------------------------------------------
// Logical records and the reference effect
// ---------------------------------------------------------------------------

const (
	recEntry = 1
	recState = 2
	recSnap  = 3
	recMeta  = 4 // the metadata record written by Create
)

// Rec is one logical record handed to the WAL (crc/metadata records and the
// hard-state copy written at the head of a new segment carry no information
// and are not listed).
type Rec struct {
	Kind int
	Call int // ordinal of the API call that wrote it
	Seg  int // sequence number of the segment file it was written to
	Ent  *raftpb.Entry
	Spec *EntSpec
	HS   raftpb.HardState
	Snap walpb.Snapshot
}

// Effect is what a reader positioned at snapshot `start` must see for a record prefix.
type Effect struct {
	Meta  bool // the metadata record is in the prefix
	HS    raftpb.HardState
	Ents  []*raftpb.Entry
	Found bool // marker `start` is in the prefix
	Bad   bool // prefix has no defined effect at this start (hole above start / marker term differs): only a loud failure fits
}

// effect is the reference semantics of a record prefix: a later entry with the
// same index truncates and replaces, the last hard state wins, entries at or
// below the start snapshot are dropped.
func effect(p []Rec, start walpb.Snapshot) Effect {
	var ef Effect
	for i := range p {
		switch r := &p[i]; r.Kind {
		case recEntry:
			for n := len(ef.Ents); n > 0 && ef.Ents[n-1].Index >= r.Ent.Index; n = len(ef.Ents) {
				ef.Ents = ef.Ents[:n-1]
			}
			if r.Ent.Index > start.Index {
				prev := start.Index
				if n := len(ef.Ents); n > 0 {
					prev = ef.Ents[n-1].Index
				}
				ef.Bad = ef.Bad || r.Ent.Index != prev+1
				ef.Ents = append(ef.Ents, r.Ent)
			}
		case recMeta:
			ef.Meta = true
		case recState:
			ef.HS = r.HS
		case recSnap:
			if r.Snap.Index == start.Index {
				ef.Found = ef.Found || r.Snap.Term == start.Term
				ef.Bad = ef.Bad || r.Snap.Term != start.Term
			}
		}
	}
	return ef
}

// validSnaps is the reference for wal.ValidSnapshotEntries: markers of the
// prefix (restricted to segment files still present) whose index is not above
// the commit of the last hard state of the prefix.
func validSnaps(p []Rec, present func(seg int) bool) []walpb.Snapshot {
	var hs raftpb.HardState
	var all []walpb.Snapshot
	for i := range p {
		switch p[i].Kind {
		case recState:
			hs = p[i].HS
		case recSnap:
			if present == nil || present(p[i].Seg) {
				all = append(all, p[i].Snap)
			}
		}
	}
	out := all[:0:0]
	for _, s := range all {
		if s.Index <= hs.Commit {
			out = append(out, s)
		}
	}
	return out
}

func entEqual(a, b *raftpb.Entry) bool {
	return a.Index == b.Index && a.Term == b.Term && a.Type == b.Type && a.ID == b.ID &&
		a.DataType == b.DataType && a.Timestamp == b.Timestamp && bytes.Equal(a.Data, b.Data)
}

// prefixSums caches, for one record list and one start snapshot, the cheap
// summary of effect(recs[:p]) for every p, so that candidate prefixes can be
// filtered before the full comparison.
type prefixSum struct {
	hs       raftpb.HardState
	n        int
	lastIdx  uint64
	lastTerm uint64
	found    bool
	bad      bool
	meta     bool
}

func prefixSums(recs []Rec, start walpb.Snapshot) []prefixSum {
	out := make([]prefixSum, len(recs)+1)
	type it struct{ idx, term uint64 }
	var st []it
	var cur prefixSum
	for i := range recs {
		switch r := &recs[i]; r.Kind {
		case recEntry:
			for len(st) > 0 && st[len(st)-1].idx >= r.Ent.Index {
				st = st[:len(st)-1]
			}
			if r.Ent.Index > start.Index {
				prev := start.Index
				if len(st) > 0 {
					prev = st[len(st)-1].idx
				}
				if r.Ent.Index != prev+1 {
					cur.bad = true
				}
				st = append(st, it{r.Ent.Index, r.Ent.Term})
			}
			cur.n = len(st)
			cur.lastIdx, cur.lastTerm = 0, 0
			if len(st) > 0 {
				cur.lastIdx, cur.lastTerm = st[len(st)-1].idx, st[len(st)-1].term
			}
		case recMeta:
			cur.meta = true
		case recState:
			cur.hs = r.HS
		case recSnap:
			if r.Snap.Index == start.Index {
				if r.Snap.Term == start.Term {
					cur.found = true
				} else {
					cur.bad = true
				}
			}
		}
		out[i+1] = cur
	}
	return out
}

// Log is a record list with its summary cache.
type Log struct {
	Recs  []Rec
	mu    sync.Mutex
	cache map[walpb.Snapshot][]prefixSum
}

func (l *Log) sums(start walpb.Snapshot) []prefixSum {
	l.mu.Lock()
	defer l.mu.Unlock()
	if l.cache == nil {
		l.cache = map[walpb.Snapshot][]prefixSum{}
	}
	s, ok := l.cache[start]
	if !ok || len(s) != len(l.Recs)+1 {
		s = prefixSums(l.Recs, start)
		l.cache[start] = s
	}
	return s
}
