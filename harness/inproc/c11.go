package inproc

// C11 — no client input can crash a replica or leave a partial write behind.
// The parent only supervises: every server lives in a child process
// ("vcheck --child c11-server"), the liveness children are built with -race
// (which implies checkptr).

import (
	"bytes"
	"encoding/json"
	"fmt"
	"io/ioutil"
	"os"
	"os/exec"
	"path/filepath"
	"regexp"
	"sort"
	"strconv"
	"strings"
	"sync"
	"sync/atomic"
	"syscall"
	"time"

	"verif/harness/vc"
)

func init() {
	vc.Register("C11", "exploration", runC11)
	vc.Need("C11", "race")
}

// anchor files of the property (properties.jsonl C11): a race report whose two
// stacks both have their innermost repo frame in one of these is a violation.
var c11Anchors = []string{"node/node_cmd_reg.go", "node/util.go", "node/keys.go", "node/hash.go", "node/list.go", "node/set.go", "node/zset.go",
	"node/json.go", "node/geo.go", "node/ttl.go", "node/scan.go", "node/state_machine.go", "server/redis_api.go", "server/merge.go", "common/"}

type childRun struct {
	name         string
	conf         childConf
	variant      string // "race" | "plain"
	dir          string
	cmd          *exec.Cmd
	started      time.Time
	exitErr      error
	exited       bool
	killed       bool // by our watchdog
	result       *childResult
	wall         time.Duration
	logged       int
	loggedRandom int
	stdoutTail   *tailWriter
}

// tailWriter keeps the last max bytes written and counts the recovered-panic
// log lines of the connection path by command name.
type tailWriter struct {
	mu     sync.Mutex
	buf    []byte
	max    int
	total  int64
	counts map[string]int64
}

func (t *tailWriter) Write(p []byte) (int, error) {
	t.mu.Lock()
	defer t.mu.Unlock()
	t.total += int64(len(p))
	for _, m := range recoveredPanicRe.FindAllSubmatch(p, -1) {
		t.counts[strings.ToLower(string(m[1]))]++
	}
	t.buf = append(t.buf, p...)
	if len(t.buf) > 2*t.max {
		t.buf = append([]byte(nil), t.buf[len(t.buf)-t.max:]...)
	}
	return len(p), nil
}

func (t *tailWriter) bytes() []byte {
	t.mu.Lock()
	defer t.mu.Unlock()
	if len(t.buf) > t.max {
		return t.buf[len(t.buf)-t.max:]
	}
	return t.buf
}

func (cr *childRun) stderrPath() string { return filepath.Join(cr.dir, "stderr-"+cr.conf.Mode+".log") }
func (cr *childRun) stdoutPath() string { return filepath.Join(cr.dir, "stdout-"+cr.conf.Mode+".log") }

// spawn starts the child; wait() supervises it.
func (cr *childRun) spawn() error {
	os.MkdirAll(cr.dir, 0755)
	cr.conf.Dir = cr.dir
	b, _ := json.MarshalIndent(&cr.conf, "", " ")
	confPath := filepath.Join(cr.dir, "conf-"+cr.conf.Mode+".json")
	if err := ioutil.WriteFile(confPath, b, 0644); err != nil {
		return err
	}
	os.Remove(filepath.Join(cr.dir, "result.json"))
	bin := vc.VariantBinary(cr.variant)
	if _, err := os.Stat(bin); err != nil {
		return fmt.Errorf("child binary %s missing (run through ./check, which builds it): %v", bin, err)
	}
	cmd := exec.Command(bin, "--child", "c11-server", confPath)
	// stdout = the server's log (every failing command is logged with its full
	// argv): only its tail is kept, recovered-panic lines are counted on the fly
	cr.stdoutTail = &tailWriter{max: 4 << 20, counts: map[string]int64{}}
	se, err := os.OpenFile(cr.stderrPath(), os.O_CREATE|os.O_WRONLY|os.O_APPEND, 0644)
	if err != nil {
		return err
	}
	cmd.Stdout = cr.stdoutTail
	cmd.Stderr = se
	cmd.Env = append(os.Environ(),
		"GORACE=halt_on_error=0 exitcode=0 history_size=2 log_path="+filepath.Join(cr.dir, "race"),
		"GOTRACEBACK=all")
	cmd.SysProcAttr = &syscall.SysProcAttr{Pdeathsig: syscall.SIGKILL, Setpgid: true}
	cr.started = time.Now()
	if err := cmd.Start(); err != nil {
		se.Close()
		return err
	}
	se.Close()
	cr.cmd = cmd
	return nil
}

func (cr *childRun) wait(watchdog time.Duration) {
	done := make(chan error, 1)
	go func() { done <- cr.cmd.Wait() }()
	select {
	case err := <-done:
		cr.exitErr = err
	case <-time.After(watchdog):
		cr.killed = true
		syscall.Kill(-cr.cmd.Process.Pid, syscall.SIGKILL)
		cr.cmd.Process.Kill()
		cr.exitErr = <-done
	}
	cr.exited = true
	cr.wall = time.Since(cr.started)
	if cr.stdoutTail != nil {
		ioutil.WriteFile(cr.stdoutPath(), cr.stdoutTail.bytes(), 0644)
	}
	if keep := os.Getenv("VERIF_C11_KEEP"); keep != "" {
		// debugging aid: keep the logs of every child
		dst := filepath.Join(keep, cr.name+"-"+cr.conf.Mode)
		os.MkdirAll(dst, 0755)
		for _, pat := range []string{"stderr-*.log", "stdout-*.log", "result.json", "cmdlog-*.jsonl", "conf-*.json", "race.*", "stall-*.txt"} {
			fs, _ := filepath.Glob(filepath.Join(cr.dir, pat))
			for _, f := range fs {
				if b, err := ioutil.ReadFile(f); err == nil {
					ioutil.WriteFile(filepath.Join(dst, filepath.Base(f)), b, 0644)
				}
			}
		}
	}
	if b, err := ioutil.ReadFile(filepath.Join(cr.dir, "result.json")); err == nil {
		var res childResult
		if json.Unmarshal(b, &res) == nil {
			cr.result = &res
		}
	}
}

func (cr *childRun) kill() {
	if cr.cmd != nil && cr.cmd.Process != nil && !cr.exited {
		syscall.Kill(-cr.cmd.Process.Pid, syscall.SIGKILL)
		cr.cmd.Process.Kill()
	}
}

// portClash: the child could not bind a port it had probed as free (another
// process of this busy machine took it in between): a harness-level accident.
func (cr *childRun) portClash() bool {
	b, err := ioutil.ReadFile(cr.stderrPath())
	return err == nil && bytes.Contains(b, []byte("address already in use"))
}

// died: the process ended without completing its work and we did not kill it.
func (cr *childRun) died() bool {
	return cr.exited && !cr.killed && (cr.result == nil || !cr.result.Done)
}

// ---- live children registry: kill everything on every exit path ---------------

var liveMu sync.Mutex
var liveChildren = map[*childRun]bool{}

func track(cr *childRun)   { liveMu.Lock(); liveChildren[cr] = true; liveMu.Unlock() }
func untrack(cr *childRun) { liveMu.Lock(); delete(liveChildren, cr); liveMu.Unlock() }
func killAllChildren() {
	liveMu.Lock()
	defer liveMu.Unlock()
	for cr := range liveChildren {
		cr.kill()
	}
}

func runChild(cr *childRun, watchdog time.Duration) error {
	for attempt := 0; ; attempt++ {
		if err := cr.spawn(); err != nil {
			return err
		}
		track(cr)
		cr.wait(watchdog)
		untrack(cr)
		if attempt < 3 && cr.died() && cr.portClash() {
			// start again (fresh ports); the stderr of the failed start is dropped
			os.Remove(cr.stderrPath())
			cr.exited, cr.result = false, nil
			continue
		}
		return nil
	}
}

// ---- the check -----------------------------------------------------------------

func runC11(c *vc.Ctx) error {
	defer killAllChildren()
	c.Ev.Rule = "one evaluation = one generated command sent over TCP to a real single-replica server in a child process (liveness: PING + canary INCR per partition after every 200 commands of a client, then a restart on the same data directory), " +
		"or one twin case (prefix, bad, probe) on two identical servers (bad errored => dump before/after, probe replies and twin dumps compared). " +
		"Commands: for every name registered in node/node_cmd_reg.go + the server-level switch (parsed at run time) a valid template instance mutated by one of the listed kinds. " +
		"non-trivial+distinct = distinct (command name, mutation kind) that reached the apply path: in twin children measured by the partition's applied index advancing while the command ran, in fuzz children (concurrent clients) a client-reachable write command answered without error."
	c.Ev.Assume("engines mem and pebble only (RocksDB build is a link shim, DESIGN 1.2)")
	c.Ev.Assume("single-replica raft groups: what a follower does with a replicated hostile entry is the same apply code, reached here through the leader's own apply loop and through WAL replay at restart")
	c.Ev.Assume("connection-path panics are recovered by serverRedis by design (connection closed): counted per command, not a violation")
	c.Ev.Assume("twin differential excludes SPOP (random effect); keys carrying a TTL are excluded from dump comparisons; the raw engine dump is compared only in rounds without TTL/HLL commands (their engine content changes asynchronously)")
	c.Ev.Assume("race reports: violation only if both stacks' innermost repo frames are in the property's anchor files, otherwise listed as evidence")

	names, err := ExtractRegisteredCommands(RepoDir())
	if err != nil {
		return fmt.Errorf("cannot extract the registered commands: %v", err)
	}
	var gaps, skipped []string
	kindsCount := map[string]int{}
	for _, rc := range names {
		for _, k := range rc.Kinds {
			kindsCount[k]++
		}
		if why, ok := skippedCommands[rc.Name]; ok {
			skipped = append(skipped, rc.Name+": "+why)
			continue
		}
		if _, ok := templates[rc.Name]; !ok {
			gaps = append(gaps, rc.Name)
		}
	}
	c.Ev.Set("registered_names", len(names))
	c.Ev.Set("registered_by_kind", kindsCount)
	c.Ev.Set("coverage_gap_names_without_template", gaps)
	c.Ev.Set("skipped_commands", skipped)
	if len(gaps) > 0 {
		fmt.Printf("C11 coverage gap: registered names without a template: %v\n", gaps)
	}

	if c.Replay != "" {
		return replayC11(c, names)
	}

	engines := []string{"mem", "pebble"}
	// A lane runs `lives` children one after the other, each on a fresh data
	// directory that is deleted when its verdicts are in: that bounds the
	// scratch volume (WAL, engine files, command logs) of the thorough tier.
	type plan struct {
		cr       *childRun
		watchdog time.Duration
		lives    int
	}
	var plans []plan
	delims := ExtractDelimiters(RepoDir())
	c.Ev.Set("grammar_delimiters", delims)
	dict := ExtractDictionary(RepoDir())
	c.Ev.Set("dictionary_strict_literals", dict.Strict)
	c.Ev.Set("dictionary_loose_literals", len(dict.Loose))
	mk := func(name, variant string, conf childConf, wd time.Duration, lives int) {
		conf.Seed = c.Seed
		conf.Names = names
		conf.Dict = dict
		conf.Delims = delims
		plans = append(plans, plan{&childRun{name: name, variant: variant, conf: conf, dir: filepath.Join(c.Scratch, name)}, wd, lives})
	}
	if !c.Thorough() {
		// ≈ 20 000 commands: 8 clients x 1500 (race child) + twin 4 workers x 6 rounds x (14 + 60 x ~2.7 x 2) + batch scenario
		mk("fuzz0", "race", childConf{Mode: "fuzz", Index: 0, Engine: engines[int(c.Seed)%2], Clients: 8, PerConn: 1500, SnapCnt: 2500}, 10*time.Minute, 1)
		mk("twin0", "plain", childConf{Mode: "twin", Index: 1, Engine: engines[(int(c.Seed)+1)%2], Workers: 4, Rounds: 6, Cases: 60}, 10*time.Minute, 1)
		mk("batch0", "race", childConf{Mode: "batch", Index: 2, Engine: engines[int(c.Seed)%2], BatchN: 250}, 5*time.Minute, 1)
	} else {
		// ≈ 10^6 commands: 5 fuzz lanes x 4 lives x 8 clients x 5000 + 2 twin lanes x 4 lives x 6 workers x 6 rounds x 150 cases
		for i := 0; i < 5; i++ {
			conf := childConf{Mode: "fuzz", Index: i, Engine: engines[(int(c.Seed)+i)%2], Clients: 8, PerConn: 5000, SnapCnt: 3000}
			if i == 3 {
				conf.ExpPol, conf.DataVer = "wait_compact", "value_header_v1"
			}
			mk(fmt.Sprintf("fuzz%d", i), "race", conf, 30*time.Minute, 4)
		}
		for i := 0; i < 2; i++ {
			conf := childConf{Mode: "twin", Index: 10 + i, Engine: engines[(int(c.Seed)+i)%2], Workers: 6, Rounds: 6, Cases: 150}
			if i == 1 {
				conf.ExpPol, conf.DataVer = "wait_compact", "value_header_v1"
			}
			mk(fmt.Sprintf("twin%d", i), "plain", conf, 30*time.Minute, 4)
		}
		mk("batch0", "race", childConf{Mode: "batch", Index: 20, Engine: engines[int(c.Seed)%2], BatchN: 2000}, 20*time.Minute, 1)
	}

	// scratch guard: the whole check aborts (inconclusive) above 5 GB
	guardStop := make(chan struct{})
	atomic.StoreInt32(&scratchExceeded, 0)
	var peakScratch int64
	go func() {
		t := time.NewTicker(4 * time.Second)
		defer t.Stop()
		for {
			select {
			case <-guardStop:
				return
			case <-t.C:
				sz := dirSize(c.Scratch)
				if sz > atomic.LoadInt64(&peakScratch) {
					atomic.StoreInt64(&peakScratch, sz)
				}
				if sz > 5<<30 {
					atomic.StoreInt32(&scratchExceeded, 1)
					fmt.Printf("C11 scratch guard: %d MiB in %s, aborting the run\n", sz>>20, c.Scratch)
					killAllChildren()
				}
			}
		}
	}()
	defer func() {
		close(guardStop)
	}()

	maxRelaunch := c.Pick(4, 12)
	var avoidMu sync.Mutex
	avoided := map[string]bool{}
	avoidedKinds := map[string]bool{}
	for _, n := range strings.Split(os.Getenv("VERIF_C11_AVOID"), ",") { // debugging aid: start with names left out
		if n = strings.TrimSpace(n); n != "" {
			avoided[n] = true
		}
	}
	var wg sync.WaitGroup
	for _, p := range plans {
		wg.Add(1)
		go func(p plan) {
			defer wg.Done()
			for life := 0; life < p.lives; life++ {
				if atomic.LoadInt32(&scratchExceeded) == 1 {
					return
				}
				first := &childRun{name: p.cr.name, variant: p.cr.variant, conf: p.cr.conf, dir: p.cr.dir}
				if life > 0 {
					first.name = fmt.Sprintf("%s.%d", p.cr.name, life)
					first.dir = filepath.Join(c.Scratch, first.name)
					first.conf.Index = p.cr.conf.Index + 50*life
				}
				runLane(c, first, p.watchdog, names, maxRelaunch, &avoidMu, avoided, avoidedKinds)
			}
		}(p)
	}
	wg.Wait()
	if atomic.LoadInt32(&scratchExceeded) == 1 {
		return fmt.Errorf("scratch directory exceeded 5 GB: run aborted")
	}
	c.Ev.Set("peak_scratch_mib", atomic.LoadInt64(&peakScratch)>>20)
	var av []string
	for n := range avoided {
		av = append(av, n)
	}
	sort.Strings(av)
	for n := range avoidedKinds {
		av = append(av, "mutation kind "+n)
	}
	c.Ev.Set("commands_left_out_after_they_killed_a_child", av)
	flushAgg(c)
	return nil
}

// runLane runs one child and, when it is killed by a command, its successors
// (same remaining budget, the culprit left out), deleting every data
// directory as soon as its verdicts are in.
func runLane(c *vc.Ctx, cr *childRun, watchdog time.Duration, names []RegisteredCmd, maxRelaunch int, avoidMu *sync.Mutex, avoided, avoidedKinds map[string]bool) {
	baseName := cr.name
	{
		{
			for attempt := 0; ; attempt++ {
				if atomic.LoadInt32(&scratchExceeded) == 1 {
					return
				}
				avoidMu.Lock()
				cr.conf.Avoid, cr.conf.AvoidKinds = nil, nil
				for n := range avoided {
					cr.conf.Avoid = append(cr.conf.Avoid, n)
				}
				for n := range avoidedKinds {
					cr.conf.AvoidKinds = append(cr.conf.AvoidKinds, n)
				}
				avoidMu.Unlock()
				sort.Strings(cr.conf.Avoid)
				sort.Strings(cr.conf.AvoidKinds)
				if err := runChild(cr, watchdog); err != nil {
					c.Inconclusive(cr.name + ": " + err.Error())
					return
				}
				if atomic.LoadInt32(&scratchExceeded) == 1 {
					return
				}
				fmt.Printf("C11 child %s (%s, %s, %s) ended after %.0fs\n", cr.name, cr.conf.Mode, cr.variant, cr.conf.Engine, cr.wall.Seconds())
				culprit := c11Judge(c, cr, names)
				cr.logged = countLogLines(cr.dir)
				cr.loggedRandom = 0
				for _, ll := range readLog(cr.dir) {
					if !strings.HasPrefix(ll.Kind, "argc-") && ll.Kind != "dict-sys" && ll.Kind != "grammar-sys" {
						cr.loggedRandom++
					}
				}
				// verdicts are in (witnesses carry what they need): free the disk
				removeChildDirs(c.Scratch, cr.name)
				if culprit == "" || culprit == "unknown" || attempt >= maxRelaunch || cr.conf.Mode == "batch" {
					return
				}
				// the child died: go on with the rest of its budget on a fresh
				// server, leaving out the command that killed it
				avoidMu.Lock()
				if strings.HasPrefix(culprit, "kind:") {
					avoidedKinds[culprit[5:]] = true
				} else {
					avoided[culprit] = true
				}
				avoidMu.Unlock()
				c.Ev.Count("children_relaunched_after_death", 1)
				next := &childRun{name: fmt.Sprintf("%s+%d", baseName, attempt+1), variant: cr.variant, conf: cr.conf, dir: filepath.Join(c.Scratch, fmt.Sprintf("%s+%d", baseName, attempt+1))}
				next.conf.Index = cr.conf.Index + 1000
				logged := cr.loggedRandom
				switch cr.conf.Mode {
				case "fuzz":
					next.conf.PerConn = cr.conf.PerConn - logged/maxInt(1, cr.conf.Clients)
					if next.conf.PerConn < 50 {
						return
					}
				case "twin":
					done := 0
					if cr.result != nil {
						done = int(cr.result.Counters["twin_rounds_done"]) / maxInt(1, cr.conf.Workers)
					}
					next.conf.Rounds = cr.conf.Rounds - done
					if next.conf.Rounds < 1 {
						return
					}
				}
				cr = next
			}
		}
	}
}

// scratchExceeded is set by the scratch guard of runC11: children are being
// killed by the harness, nothing that ends from now on is judged.
var scratchExceeded int32

// removeChildDirs deletes the directory of a child and of its helpers
// (-shrinkN, -bombconfirmN, ...), which all start with the child's name.
func removeChildDirs(scratch, name string) {
	ds, _ := filepath.Glob(filepath.Join(scratch, name+"*"))
	for _, d := range ds {
		base := filepath.Base(d)
		if base == name || strings.HasPrefix(base, name+"-") {
			os.RemoveAll(d)
		}
	}
}

func dirSize(dir string) int64 {
	var total int64
	filepath.Walk(dir, func(_ string, info os.FileInfo, err error) error {
		if err == nil && info != nil && !info.IsDir() {
			if st, ok := info.Sys().(*syscall.Stat_t); ok {
				total += st.Blocks * 512 // allocated blocks: preallocated files count in full
			} else {
				total += info.Size()
			}
		}
		return nil
	})
	return total
}

func maxInt(a, b int) int {
	if a > b {
		return a
	}
	return b
}

// c11Judge turns what one child did into verdicts and evidence, and performs
// the restart on the same data directory.
func c11Judge(c *vc.Ctx, cr *childRun, names []RegisteredCmd) string {
	mergeChildEvidence(c, cr)
	reportRaces(c, cr)
	if cr.killed {
		c.Inconclusive(fmt.Sprintf("%s: watchdog (%s) fired, child killed; last commands: %v", cr.name, cr.conf.Mode, lastCommandsHuman(cr.dir, 3)))
		return ""
	}
	if cr.result != nil && !cr.result.Done && cr.result.MemBomb != nil {
		return c11MemBomb(c, cr, names)
	}
	if cr.result != nil && !cr.result.Done && cr.result.Stall != nil && strings.Contains(fmt.Sprint(cr.exitErr), "exit status 4") {
		// wall-clock observation only: no verdict, but leave the suspect out and go on
		st := cr.result.Stall
		name := "unknown"
		human := ""
		if st.Oldest != nil {
			name, human = strings.ToLower(st.Oldest.Name), st.Oldest.Human
		}
		c.Ev.Count("children_ended_by_stall_watchdog", 1)
		c.Ev.Sample(24, map[string]interface{}{"apply_loop_stalled": st.What, "suspect_oldest_in_flight": human})
		c.Inconclusive(fmt.Sprintf("%s: server stopped answering (%s); suspect (longest in flight): %s", cr.name, st.What, human))
		return name
	}
	if cr.died() {
		return c11ProcessDied(c, cr, names)
	}
	if cr.result != nil && len(cr.result.SlowCmds) > 0 {
		c.Ev.Sample(24, map[string]interface{}{"commands_not_answered_within_20s_but_later": cr.result.SlowCmds})
	}
	if cr.conf.Mode != "fuzz" {
		return ""
	}
	// regular end of a fuzz child: restart on the same directory (WAL replay of
	// everything since the last snapshot, including the hostile entries)
	rs := &childRun{name: cr.name + "-restart", variant: cr.variant, dir: cr.dir, conf: cr.conf}
	rs.conf.Mode = "canary"
	rs.conf.HoldS = 11 // past one round of the periodic loops (metrics every 10 s)
	if err := runChild(rs, 5*time.Minute); err != nil {
		c.Inconclusive(rs.name + ": " + err.Error())
		return ""
	}
	c.Ev.Count("restarts_performed", 1)
	reportRaces(c, rs)
	switch {
	case rs.killed:
		c.Inconclusive(rs.name + ": restart watchdog fired")
	case rs.result != nil && rs.result.MemBomb != nil:
		c.Violation("restart-poisoned/unknown", fmt.Sprintf("the server ran %d hostile commands and stayed up, but its restart on the same data directory allocates without bound (%s)", cr.result.Counters["commands"], rs.result.MemBomb.What),
			map[string]interface{}{"child": cr.conf, "note": "replay: the whole command log of the child (re-run with the same seed)"})
	case rs.died():
		culprit := culpritFromStderr(rs.stderrPath())
		sig := "restart-poisoned/" + culprit
		if culprit == "" {
			// not in a command handler: classified by the call site, like a death of the first life
			if site := crashSite(rs.stderrPath()); site != "" {
				sig = "process-died/" + site
			} else {
				sig = "restart-poisoned/unknown"
			}
		}
		c.Violation(sig, fmt.Sprintf("the server ran %d hostile commands and stayed up, but its restart on the same data directory dies: %s", cr.result.Counters["commands"], firstPanicLine(rs.stderrPath())),
			map[string]interface{}{"child": cr.conf, "stderr_panic": panicBlock(rs.stderrPath(), 70), "note": "replay: the whole command log of the child (not kept in the witness: re-run with the same seed)"})
	case rs.result != nil && rs.result.Counters["canary_probes_ok"] >= 1:
		c.Ev.Count("restart_canary_ok", 1)
		// the restarted canaries continue the counters of the first life (an
		// acknowledged INCR lost over a clean exit is C06's business: evidence only)
		for k, v := range cr.result.Canaries {
			if nv, ok := rs.result.Canaries[k]; ok && nv <= v {
				c.Ev.Count("restart_canary_behind", 1)
			}
		}
	default:
		c.Inconclusive(rs.name + ": restarted server did not answer the canaries: " + strings.Join(rs.result.Inconclusive, "; "))
	}
	return ""
}

// evAgg collects the per-name maps of all children; flushed into the evidence at the end.
var evAgg = struct {
	sync.Mutex
	perName, kinds, connClosed, recovered, noReply, errPairs map[string]int64
}{perName: map[string]int64{}, kinds: map[string]int64{}, connClosed: map[string]int64{}, recovered: map[string]int64{}, noReply: map[string]int64{}, errPairs: map[string]int64{}}

func flushAgg(c *vc.Ctx) {
	evAgg.Lock()
	defer evAgg.Unlock()
	c.Ev.Set("commands_per_name", evAgg.perName)
	c.Ev.Set("commands_per_mutation_kind", evAgg.kinds)
	c.Ev.Set("connection_closed_by_server_per_name", evAgg.connClosed)
	c.Ev.Set("connection_path_recovered_panics_per_name", evAgg.recovered)
	c.Ev.Set("commands_answered_by_no_reply_per_name", evAgg.noReply)
	c.Ev.Set("distinct_command_errorclass_pairs", len(evAgg.errPairs))
	min, minName := int64(1<<62), ""
	for n, v := range evAgg.perName {
		if v < min {
			min, minName = v, n
		}
	}
	c.Ev.Set("least_exercised_name", fmt.Sprintf("%s (%d commands)", minName, min))
}

func mergeChildEvidence(c *vc.Ctx, cr *childRun) {
	res := cr.result
	if res == nil {
		// a dead child without result file: count what its logs say
		n := countLogLines(cr.dir)
		c.Ev.Count("commands_logged_by_children_without_result", int64(n))
		c.Ev.EvalN(n)
		return
	}
	evAgg.Lock()
	for k, v := range res.Counters {
		switch {
		case strings.HasPrefix(k, "kind/"):
			evAgg.kinds[k[5:]] += v
		case strings.HasPrefix(k, "no_reply/"):
			evAgg.noReply[k[9:]] += v
		default:
			c.Ev.Count(cr.conf.Mode+"/"+k, v)
		}
	}
	for k, v := range res.PerName {
		evAgg.perName[k] += v
	}
	for k, v := range res.ConnClosed {
		evAgg.connClosed[k] += v
	}
	for k, v := range res.ErrClasses {
		evAgg.errPairs[k] += v
	}
	// recovered panics of the connection path, by command, from the server log
	if cr.stdoutTail != nil {
		cr.stdoutTail.mu.Lock()
		for k, v := range cr.stdoutTail.counts {
			evAgg.recovered[k] += v
		}
		c.Ev.Count("server_log_bytes_seen", cr.stdoutTail.total)
		cr.stdoutTail.mu.Unlock()
	}
	evAgg.Unlock()
	switch cr.conf.Mode {
	case "fuzz":
		c.Ev.EvalN(int(res.Counters["commands"]))
	case "twin":
		c.Ev.EvalN(int(res.Counters["twin_cases_conclusive"] + res.Counters["twin_bad_accepted"]))
	case "batch":
		c.Ev.EvalN(int(res.Counters["batch_sets"] + res.Counters["batch_round_commands"]))
	}
	for k := range res.Applied {
		c.Ev.Nontrivial(cr.conf.Mode + ":" + k)
	}
	for _, s := range res.Samples {
		c.Ev.Sample(16, s)
	}
	for _, w := range res.Inconclusive {
		c.Inconclusive(cr.name + ": " + w)
	}
	for _, v := range res.Violations {
		c.Violation(v.Signature, v.Summary, map[string]interface{}{"child": cr.conf.Mode, "engine": cr.conf.Engine, "child_seed": cr.conf.Seed, "child_index": cr.conf.Index, "case": v.Witness})
	}
}

var recoveredPanicRe = regexp.MustCompile(`handle redis command (\S+) panic`)

// ---- process death ---------------------------------------------------------------

var applyFrameRe = regexp.MustCompile(`node\.\(\*kvStoreSM\)\.local(\w+?)(?:Command)?\(`)
var handlerFrameRe = regexp.MustCompile(`node\.\(\*KVNode\)\.(\w+?)Command\(`)

// culpritFromStderr names the command from the handler frame of the crash stack.
func culpritFromStderr(path string) string {
	b, err := ioutil.ReadFile(path)
	if err != nil {
		return ""
	}
	i := bytes.Index(b, []byte("panic:"))
	if j := bytes.Index(b, []byte("fatal error:")); j >= 0 && (i < 0 || j < i) {
		i = j
	}
	if i < 0 {
		return ""
	}
	// the first goroutine block after the panic line is the crashing one
	blk := b[i:]
	if k := bytes.Index(blk, []byte("\n\ngoroutine ")); k >= 0 {
		if k2 := bytes.Index(blk[k+2:], []byte("\n\n")); k2 >= 0 {
			blk = blk[:k+2+k2]
		}
	}
	if m := applyFrameRe.FindSubmatch(blk); m != nil {
		return strings.ToLower(string(m[1]))
	}
	if m := handlerFrameRe.FindSubmatch(blk); m != nil {
		return strings.ToLower(string(m[1]))
	}
	return ""
}

var repoFrameRe = regexp.MustCompile(`github\.com/youzan/ZanRedisDB/([\w/]+)\.(\(\*?\w+\)\.)?(\w+)`)

// crashSite returns the innermost repo function of the crashing goroutine as
// "pkg.Func" (e.g. server.metricLoop): the call site of a death that no
// command handler frame explains.
func crashSite(path string) string {
	for _, ln := range panicBlock(path, 40) {
		if strings.HasPrefix(ln, "\t") || strings.HasPrefix(ln, "created by") {
			continue
		}
		if m := repoFrameRe.FindStringSubmatch(ln); m != nil {
			pkg := m[1]
			if i := strings.LastIndexByte(pkg, '/'); i >= 0 {
				pkg = pkg[i+1:]
			}
			return pkg + "." + m[3]
		}
	}
	return ""
}

var quotedRe = regexp.MustCompile(`"((?:[^"\\]|\\.)*)"`)

// valuesEchoedByPanic: byte strings quoted in the panic message (a panic often
// echoes the offending input), used to find the command in the log.
func valuesEchoedByPanic(panicLine string) [][]byte {
	var out [][]byte
	for _, m := range quotedRe.FindAllStringSubmatch(panicLine, -1) {
		if s, err := strconv.Unquote(`"` + m[1] + `"`); err == nil && len(s) > 0 {
			out = append(out, []byte(s))
		}
	}
	return out
}

// panicBlock returns the n lines starting at the first panic / fatal error line
// of a stderr file (with GOTRACEBACK=all the tail is other goroutines).
func panicBlock(path string, n int) []string {
	b, err := ioutil.ReadFile(path)
	if err != nil {
		return nil
	}
	lines := strings.Split(string(b), "\n")
	for i, ln := range lines {
		if strings.HasPrefix(ln, "panic:") || strings.HasPrefix(ln, "fatal error:") || strings.HasPrefix(ln, "unexpected fault address") || strings.HasPrefix(ln, "SIGSEGV") {
			end := i + n
			if end > len(lines) {
				end = len(lines)
			}
			return lines[i:end]
		}
	}
	if len(lines) > n {
		lines = lines[len(lines)-n:]
	}
	return lines
}

func firstPanicLine(path string) string {
	b, err := ioutil.ReadFile(path)
	if err != nil {
		return ""
	}
	for _, ln := range strings.Split(string(b), "\n") {
		if strings.HasPrefix(ln, "panic:") || strings.HasPrefix(ln, "fatal error:") || strings.Contains(ln, "[signal ") {
			return cut(ln, 300)
		}
	}
	return "(no panic line on stderr)"
}

func readLog(dir string) []logLine {
	files, _ := filepath.Glob(filepath.Join(dir, "cmdlog-*.jsonl"))
	var all []logLine
	for _, f := range files {
		b, err := ioutil.ReadFile(f)
		if err != nil {
			continue
		}
		for _, ln := range bytes.Split(b, []byte("\n")) {
			var ll logLine
			if len(ln) > 0 && json.Unmarshal(ln, &ll) == nil {
				all = append(all, ll)
			}
		}
	}
	sort.Slice(all, func(i, j int) bool { return all[i].Seq < all[j].Seq })
	return all
}

func countLogLines(dir string) int { return len(readLog(dir)) }

func lastCommandsHuman(dir string, perClient int) []string {
	all := readLog(dir)
	seen := map[int]int{}
	var out []string
	for i := len(all) - 1; i >= 0; i-- {
		if seen[all[i].Client] < perClient {
			seen[all[i].Client]++
			argv, _ := DecodeArgv(all[i].Argv)
			out = append(out, fmt.Sprintf("client %d seq %d [%s/%s] %s", all[i].Client, all[i].Seq, all[i].Name, all[i].Kind, HumanArgv(argv)))
		}
	}
	return out
}

// c11ProcessDied handles the death of a child: restart on the same directory,
// attribute the death to a command and shrink the witness by replaying
// candidates against fresh children.
func c11ProcessDied(c *vc.Ctx, cr *childRun, names []RegisteredCmd) string {
	if atomic.LoadInt32(&scratchExceeded) == 1 {
		return ""
	}
	c.Ev.Count("children_died", 1)
	all := readLog(cr.dir)
	// in flight = the last logged command of every client
	lastOf := map[int]logLine{}
	for _, ll := range all {
		lastOf[ll.Client] = ll
	}
	var inflight []logLine
	for _, ll := range lastOf {
		inflight = append(inflight, ll)
	}
	sort.Slice(inflight, func(i, j int) bool { return inflight[i].Seq > inflight[j].Seq })
	panicLine := firstPanicLine(cr.stderrPath())
	culprit := culpritFromStderr(cr.stderrPath())
	site := ""
	hold := 0
	if culprit == "" {
		// no command handler on the crashing stack (periodic loop, post-processing
		// of the apply loop, ...): name the call site, and look for the command
		// through what the panic message echoes
		site = crashSite(cr.stderrPath())
		hold = 12 // periodic loops (metrics: 10 s) need time to run into it again
		isWrite := map[string]bool{}
		for _, rc := range names {
			if isWriteKind(rc.Kinds) {
				isWrite[rc.Name] = true
			}
		}
		for _, val := range valuesEchoedByPanic(panicLine) {
			seen := map[string]bool{}
			var hits []logLine
			for i := len(all) - 1; i >= 0 && len(hits) < 40; i-- {
				argv, err := DecodeArgv(all[i].Argv)
				if err != nil || len(argv) < 2 {
					continue
				}
				hit := false
				for _, a := range argv {
					if bytes.Contains(a, val) {
						hit = true
					}
				}
				key := strings.Join(all[i].Argv, " ")
				if hit && !seen[key] {
					seen[key] = true
					hits = append(hits, all[i])
				}
			}
			// writes whose other arguments are untouched are the likely creators of the offending state
			sort.SliceStable(hits, func(i, j int) bool {
				return isWrite[hits[i].Name] && !isWrite[hits[j].Name]
			})
			if len(hits) > 6 {
				hits = hits[:6]
			}
			inflight = append(hits, inflight...)
		}
	}

	// 1. restart on the same data directory
	poisoned := false
	restartNote := ""
	if cr.conf.Mode == "fuzz" || cr.conf.Mode == "replay" || cr.conf.Mode == "batch" {
		rs := &childRun{name: cr.name + "-restart", variant: cr.variant, dir: cr.dir, conf: cr.conf}
		rs.conf.Mode = "canary"
		rs.conf.HoldS = 11
		if err := runChild(rs, 5*time.Minute); err == nil {
			c.Ev.Count("restarts_performed", 1)
			reportRaces(c, rs)
			if rs.died() {
				poisoned = true
				restartNote = "restart on the same data directory dies again: " + firstPanicLine(rs.stderrPath())
				if culprit == "" {
					culprit = culpritFromStderr(rs.stderrPath())
				}
			} else if rs.result != nil && rs.result.Counters["canary_probes_ok"] >= 1 {
				restartNote = "restart on the same data directory succeeded and answered the canaries"
			} else {
				restartNote = "restart on the same data directory did not answer the canaries (inconclusive)"
			}
		}
	}

	// 2. shrink: replay each in-flight command alone on a fresh server
	var minimal *logLine
	minimalDied := false
	type cand struct {
		ll   logLine
		died bool
		note string
	}
	cands := make([]cand, len(inflight))
	var wg sync.WaitGroup
	for i, ll := range inflight {
		if i >= 6 {
			break
		}
		wg.Add(1)
		go func(i int, ll logLine) {
			defer wg.Done()
			rp := &childRun{name: fmt.Sprintf("%s-shrink%d", cr.name, i), variant: cr.variant, dir: filepath.Join(c.Scratch, fmt.Sprintf("%s-shrink%d", cr.name, i)), conf: cr.conf}
			rp.conf.Mode = "replay"
			rp.conf.Replay = [][]string{ll.Argv}
			rp.conf.HoldS = hold
			if err := runChild(rp, 4*time.Minute); err != nil {
				return
			}
			cands[i] = cand{ll, rp.died() || (rp.result != nil && rp.result.MemBomb != nil), firstPanicLine(rp.stderrPath())}
		}(i, ll)
	}
	wg.Wait()
	for i := range cands {
		if cands[i].died {
			minimal = &cands[i].ll
			minimalDied = true
			if culprit == "" {
				culprit = strings.ToLower(cands[i].ll.Name)
			}
			break
		}
	}
	if minimal != nil {
		culprit = strings.ToLower(minimal.Name) // the replayed single command is the better attribution
	}
	sigName := culprit
	if site != "" {
		sigName = site // the death is not in a command handler: the call site classifies it
	}
	if culprit == "" && len(inflight) > 0 {
		culprit = strings.ToLower(inflight[0].Name)
	}
	if culprit == "" {
		culprit = "unknown"
	}
	if sigName == "" {
		sigName = culprit
	}
	sig := "process-died/" + sigName
	if poisoned && site == "" {
		// (deaths classified by a call site keep one signature; the restart outcome is in the summary)
		sig = "restart-poisoned/" + sigName
	}
	w := map[string]interface{}{
		"child":             map[string]interface{}{"mode": cr.conf.Mode, "engine": cr.conf.Engine, "build": cr.variant, "seed": cr.conf.Seed, "index": cr.conf.Index},
		"panic":             panicLine,
		"exit_status":       fmt.Sprint(cr.exitErr),
		"restart":           restartNote,
		"stderr_panic":      panicBlock(cr.stderrPath(), 70),
		"in_flight_human":   lastCommandsHuman(cr.dir, 1),
		"last_cmds_human":   lastCommandsHuman(cr.dir, 3),
		"commands_logged":   len(all),
		"minimal_confirmed": minimalDied,
	}
	var replay [][]string
	if minimal != nil {
		replay = [][]string{minimal.Argv}
		argv, _ := DecodeArgv(minimal.Argv)
		w["minimal_command_human"] = HumanArgv(argv)
	} else {
		for _, ll := range inflight {
			replay = append(replay, ll.Argv)
		}
	}
	w["replay"] = replay
	summary := fmt.Sprintf("server process died (%s) while handling client commands; %s; ", panicLine, restartNote)
	if minimal != nil {
		argv, _ := DecodeArgv(minimal.Argv)
		summary += "single command that kills a fresh server: " + HumanArgv(argv)
	} else {
		summary += fmt.Sprintf("no single in-flight command reproduces it alone; in flight: %v", lastCommandsHuman(cr.dir, 1))
	}
	if atomic.LoadInt32(&scratchExceeded) == 1 {
		return ""
	}
	c.Violation(sig, summary, w)
	if strings.Contains(panicLine, "is not valid UTF-8") {
		return "kind:bintable" // the input class of this death, whatever command carried it
	}
	if site != "" && minimal != nil {
		// any command can carry the offending input: leave out the mutation kind
		return "kind:" + minimal.Kind
	}
	return culprit
}

// ---- race reports ------------------------------------------------------------------

var raceSeen = struct {
	sync.Mutex
	m map[string]bool
}{m: map[string]bool{}}

var frameFileRe = regexp.MustCompile(`^\s+(/\S+\.go):(\d+)`)

type raceStack struct {
	funcs []string
	files []string
}

// parseRaceReports splits a GORACE log into reports of two (or more) stacks.
func parseRaceReports(b []byte) [][]raceStack {
	var reports [][]raceStack
	for _, blk := range strings.Split(string(b), "==================") {
		if !strings.Contains(blk, "WARNING: DATA RACE") {
			continue
		}
		var stacks []raceStack
		var cur *raceStack
		lines := strings.Split(blk, "\n")
		for i := 0; i < len(lines); i++ {
			ln := lines[i]
			if strings.HasPrefix(ln, "Read at") || strings.HasPrefix(ln, "Write at") || strings.HasPrefix(ln, "Previous read at") || strings.HasPrefix(ln, "Previous write at") {
				stacks = append(stacks, raceStack{})
				cur = &stacks[len(stacks)-1]
				continue
			}
			if strings.HasPrefix(ln, "Goroutine ") {
				cur = nil // creation stacks are not accesses
				continue
			}
			if cur == nil {
				continue
			}
			if strings.HasPrefix(ln, "  ") && !strings.HasPrefix(ln, "   ") && strings.Contains(ln, "(") {
				fn := strings.TrimSpace(ln)
				if p := strings.Index(fn, "("); p > 0 && !strings.HasPrefix(fn, "(") {
					// keep receiver type parentheses: cut at the LAST "(" that starts the arg list
					fn = fn[:strings.LastIndex(fn, "(")]
				}
				file := ""
				if i+1 < len(lines) {
					if m := frameFileRe.FindStringSubmatch(lines[i+1]); m != nil {
						file = m[1] + ":" + m[2]
					}
				}
				cur.funcs = append(cur.funcs, fn)
				cur.files = append(cur.files, file)
			}
		}
		if len(stacks) >= 2 {
			reports = append(reports, stacks[:2])
		}
	}
	return reports
}

// innermostRepoFrame returns the first frame of the stack inside the repo.
func innermostRepoFrame(s raceStack) (fn, relFile string) {
	for i, f := range s.funcs {
		if strings.Contains(f, "github.com/youzan/ZanRedisDB/") {
			file := s.files[i]
			if p := strings.LastIndexByte(file, ':'); p > 0 {
				file = file[:p]
			}
			rel := file
			for _, root := range []string{RepoDir() + "/", "/repo/"} {
				if strings.HasPrefix(file, root) {
					rel = file[len(root):]
				}
			}
			return strings.TrimPrefix(f, "github.com/youzan/ZanRedisDB/"), rel
		}
	}
	return "", ""
}

func inAnchors(rel string) bool {
	for _, a := range c11Anchors {
		if rel == a || (strings.HasSuffix(a, "/") && strings.HasPrefix(rel, a)) {
			return true
		}
	}
	return false
}

func reportRaces(c *vc.Ctx, cr *childRun) {
	files, _ := filepath.Glob(filepath.Join(cr.dir, "race.*"))
	for _, f := range files {
		b, err := ioutil.ReadFile(f)
		if err != nil {
			continue
		}
		os.Rename(f, f+".seen")
		for _, rep := range parseRaceReports(b) {
			c.Ev.Count("race_reports", 1)
			f0, file0 := innermostRepoFrame(rep[0])
			f1, file1 := innermostRepoFrame(rep[1])
			pair := []string{f0, f1}
			sort.Strings(pair)
			key := strings.Join(pair, " | ")
			raceSeen.Lock()
			dup := raceSeen.m[key]
			raceSeen.m[key] = true
			raceSeen.Unlock()
			if dup {
				continue
			}
			c.Ev.Count("race_reports_distinct", 1)
			if f0 != "" && f1 != "" && inAnchors(file0) && inAnchors(file1) {
				c.Violation("race/"+key, fmt.Sprintf("data race between %s (%s) and %s (%s), both in files anchoring the property", f0, file0, f1, file1),
					map[string]interface{}{"stack_a": rep[0].funcs, "stack_b": rep[1].funcs, "files_a": rep[0].files, "files_b": rep[1].files, "child": cr.name})
			} else {
				c.Ev.Count("race_reports_outside_anchor", 1)
				c.Ev.Sample(16, map[string]interface{}{"race_outside_anchor": key, "files": []string{file0, file1}})
			}
		}
	}
}

// ---- replay ----------------------------------------------------------------------

// replayC11 re-runs the command list of a witness: for process deaths on a
// fresh race-built child (then a restart), for twin cases on a fresh twin pair.
func replayC11(c *vc.Ctx, names []RegisteredCmd) error {
	b, err := ioutil.ReadFile(c.Replay)
	if err != nil {
		return err
	}
	var doc struct {
		Signature string                 `json:"signature"`
		Witness   map[string]interface{} `json:"witness"`
	}
	if err := json.Unmarshal(b, &doc); err != nil {
		return err
	}
	engine := "mem"
	if ch, ok := doc.Witness["child"].(map[string]interface{}); ok {
		if e, ok := ch["engine"].(string); ok && e != "" {
			engine = e
		}
	}
	if e, ok := doc.Witness["engine"].(string); ok && e != "" {
		engine = e
	}
	toList := func(v interface{}) [][]string {
		var out [][]string
		if l, ok := v.([]interface{}); ok {
			for _, e := range l {
				var argv []string
				if al, ok := e.([]interface{}); ok {
					for _, a := range al {
						if s, ok := a.(string); ok {
							argv = append(argv, s)
						}
					}
				}
				out = append(out, argv)
			}
		}
		return out
	}
	if cs, ok := doc.Witness["case"].(map[string]interface{}); ok && cs["commands"] != nil {
		// twin case
		cmds := toList(cs["commands"])
		badIdx := -1
		if f, ok := cs["bad_index"].(float64); ok {
			badIdx = int(f)
		}
		return replayTwinCase(c, doc.Signature, engine, cmds, badIdx)
	}
	cmds := toList(doc.Witness["replay"])
	if len(cmds) == 0 {
		return fmt.Errorf("witness has no command list to replay")
	}
	hold := 0
	if f, ok := doc.Witness["hold_s"].(float64); ok {
		hold = int(f)
	}
	cr := &childRun{name: "replay", variant: "race", dir: filepath.Join(c.Scratch, "replay"),
		conf: childConf{Mode: "replay", Engine: engine, Seed: c.Seed, Names: names, Replay: cmds, HoldS: hold}}
	if err := runChild(cr, 5*time.Minute); err != nil {
		return err
	}
	if cr.result == nil || !cr.result.Done {
		c11Judge(c, cr, names)
	} else {
		for _, smp := range cr.result.Samples {
			bb, _ := json.Marshal(smp)
			fmt.Printf("replay: %s\n", bb)
		}
		fmt.Printf("replay: the server survived the %d recorded commands (%v) %v\n", len(cmds), cr.result.Counters, cr.result.Inconclusive)
	}
	return nil
}

func replayTwinCase(c *vc.Ctx, sig, engine string, cmds [][]string, badIdx int) error {
	if badIdx < 0 || badIdx >= len(cmds) {
		return fmt.Errorf("witness has no bad_index")
	}
	// the namespace is the prefix of the first key
	ns := ""
	for _, enc := range cmds {
		argv, err := DecodeArgv(enc)
		if err == nil && len(argv) > 1 {
			if i := bytes.IndexByte(argv[1], ':'); i > 0 {
				ns = string(argv[1][:i])
				break
			}
		}
	}
	if ns == "" {
		return fmt.Errorf("cannot find the namespace of the witness commands")
	}
	names, _ := ExtractRegisteredCommands(RepoDir())
	cr := &childRun{name: "twinreplay", variant: "plain", dir: filepath.Join(c.Scratch, "twinreplay"),
		conf: childConf{Mode: "twinreplay", Engine: engine, Seed: c.Seed, Names: names, Replay: cmds, ReplayNS: ns, BadIndex: badIdx}}
	if err := runChild(cr, 5*time.Minute); err != nil {
		return err
	}
	if b, err := ioutil.ReadFile(cr.stdoutPath()); err == nil {
		for _, ln := range strings.Split(string(b), "\n") {
			if strings.HasPrefix(ln, "replay[") {
				fmt.Println(ln)
			}
		}
	}
	if cr.died() {
		c11ProcessDied(c, cr, names)
		return nil
	}
	if cr.result != nil {
		for _, v := range cr.result.Violations {
			c.Violation(sig, "replayed: "+v.Summary, map[string]interface{}{"commands": cmds, "bad_index": badIdx})
		}
		for _, smp := range cr.result.Samples {
			bb, _ := json.Marshal(smp)
			fmt.Printf("replay result: %s\n", bb)
		}
	}
	return nil
}

// c11MemBomb: the child's memory guard fired. The command in flight longest is
// the suspect; it is confirmed by replaying it alone on a fresh server, and the
// restart on the same data directory tells whether the entry poisons the log.
func c11MemBomb(c *vc.Ctx, cr *childRun, names []RegisteredCmd) string {
	if atomic.LoadInt32(&scratchExceeded) == 1 {
		return ""
	}
	c.Ev.Count("children_ended_by_memory_guard", 1)
	mb := cr.result.MemBomb
	cands := mb.candidates(4)
	if len(cands) == 0 {
		c.Inconclusive(fmt.Sprintf("%s: %s with no suspect command", cr.name, mb.What))
		return "unknown"
	}
	// confirm each suspect alone on a fresh (plain-built, faster) server, in parallel
	type outcome struct {
		confirmed, poisoned bool
		restartNote         string
	}
	outs := make([]outcome, len(cands))
	var wg sync.WaitGroup
	for i := range cands {
		wg.Add(1)
		go func(i int) {
			defer wg.Done()
			nm := fmt.Sprintf("%s-bombconfirm%d", cr.name, i)
			rp := &childRun{name: nm, variant: "plain", dir: filepath.Join(c.Scratch, nm), conf: cr.conf}
			rp.conf.Mode = "replay"
			rp.conf.Replay = [][]string{cands[i].Argv}
			if err := runChild(rp, 6*time.Minute); err != nil {
				return
			}
			if rp.result == nil || rp.result.MemBomb == nil {
				return
			}
			outs[i].confirmed = true
			outs[i].restartNote = "restart not tried"
			// restart of THAT server (one hostile entry in its log)
			rs := &childRun{name: rp.name + "-restart", variant: "plain", dir: rp.dir, conf: rp.conf}
			rs.conf.Mode = "canary"
			if err := runChild(rs, 6*time.Minute); err == nil {
				c.Ev.Count("restarts_performed", 1)
				switch {
				case rs.result != nil && rs.result.MemBomb != nil:
					outs[i].poisoned = true
					outs[i].restartNote = "restart on the same data directory runs into the memory guard again (" + rs.result.MemBomb.What + ")"
				case rs.died():
					outs[i].poisoned = true
					outs[i].restartNote = "restart on the same data directory dies: " + firstPanicLine(rs.stderrPath())
				case rs.result != nil && rs.result.Counters["canary_probes_ok"] >= 1:
					outs[i].restartNote = "restart on the same data directory succeeded and answered the canaries"
				default:
					outs[i].restartNote = "restart on the same data directory did not answer the canaries within the watchdog (inconclusive)"
				}
			}
		}(i)
	}
	wg.Wait()
	pick := -1
	for i := range outs {
		if outs[i].confirmed {
			pick = i
			break
		}
	}
	if pick >= 0 {
		mb.Oldest = &cands[pick]
	}
	name := strings.ToLower(cands[0].Name)
	confirmed := pick >= 0
	poisoned, restartNote := false, ""
	if confirmed {
		name = strings.ToLower(cands[pick].Name)
		poisoned, restartNote = outs[pick].poisoned, outs[pick].restartNote
	}
	if !confirmed {
		var hs []string
		for _, e := range cands {
			hs = append(hs, e.Human)
		}
		c.Inconclusive(fmt.Sprintf("%s: %s, but none of the suspect commands reproduces it alone on a fresh server: %v", cr.name, mb.What, hs))
		return name
	}
	sig := "memory-bomb/" + name
	if poisoned {
		sig = "restart-poisoned/" + name
	}
	c.Violation(sig, fmt.Sprintf("one %d-argument command makes the server allocate without bound (%s after %.0f s; without the harness guard the kernel OOM killer ends the process): %s; confirmed alone on a fresh server; %s",
		len(mb.Oldest.Argv), mb.What, mb.AfterS, mb.Oldest.Human, restartNote),
		map[string]interface{}{"child": map[string]interface{}{"mode": cr.conf.Mode, "engine": cr.conf.Engine, "build": cr.variant, "seed": cr.conf.Seed, "index": cr.conf.Index},
			"minimal_command_human": mb.Oldest.Human, "replay": [][]string{mb.Oldest.Argv}, "minimal_confirmed": true, "restart": restartNote, "guard": mb.What, "in_flight": mb.InFlight})
	return name
}
