package inproc

// Protocol-level half of C13 (cursor scans return every element exactly once,
// in order): SCAN / ADVSCAN / REVSCAN / ADVREVSCAN cursor chains through the
// real server's merge path on 1..4-partition namespaces, and HSCAN / SSCAN /
// ZSCAN (+ reverse forms) on collections. Called by the C13 check (package
// keylab) at the end of its run: violations are reported through c.Violation
// with signatures proto-scan-<what>/<form>, evidence under keys proto_*.

import (
	"encoding/base64"
	"fmt"
	"os"
	"path/filepath"
	"sort"
	"strconv"
	"strings"
	"sync"
	"time"

	"github.com/gobwas/glob"
	zanredisdb "github.com/youzan/go-zanredisdb"

	"verif/harness/vc"
)

type scanWitness struct {
	Engine     string     `json:"engine"`
	Partitions int        `json:"partitions"`
	Form       string     `json:"form"`
	Populate   [][]string `json:"populate_commands_quoted"` // commands that create the population (quoted argv)
	Chain      [][]string `json:"chain_commands_quoted"`    // the scan commands of the chain, in order
	Pages      []string   `json:"pages"`
	Expected   []string   `json:"expected_quoted"`
	Got        []string   `json:"got_quoted"`
	Detail     string     `json:"detail"`
}

const scanTable = "st"

var scanDecoyTables = []string{"s", "ss", "st0", "stt", "su"}

// scanNames: non-empty names, prefixes of each other, separators, binary.
func scanNames(c *vc.Ctx, extra int) []string {
	base := []string{"a", "aa", "aaa", "ab", "b", "ba", "k1", "k10", "k2", "k:1", "a:", ":a", "::", "0", "00", "z", "zz", "\x01", "\xfe\xff", "a b",
		"A", "aA", strings.Repeat("L", 200), "~", "k1:", "k1\x00"}
	r := c.Rand(7300)
	seen := map[string]bool{}
	for _, b := range base {
		seen[b] = true
	}
	for len(base) < 26+extra {
		n := 1 + r.Intn(6)
		b := make([]byte, n)
		for i := range b {
			b[i] = "abk:019z\xf0"[r.Intn(9)]
		}
		if !seen[string(b)] {
			seen[string(b)] = true
			base = append(base, string(b))
		}
	}
	return base
}

type scanPop struct {
	ns         string
	n          int
	keys       map[string][]string // advscan type -> key names in the target table
	hashFields []string
	setMembers []string
	zsetMember []string
	populate   [][]string
}

var scanTypes = []string{"KV", "HASH", "LIST", "SET", "ZSET"}

func writeCmdFor(typ, full, name string) []string {
	switch typ {
	case "KV":
		return []string{"SET", full, "v-" + name}
	case "HASH":
		return []string{"HSET", full, "f", "v"}
	case "LIST":
		return []string{"RPUSH", full, "v"}
	case "SET":
		return []string{"SADD", full, "m"}
	default:
		return []string{"ZADD", full, "1", "m"}
	}
}

// RunScanProtocol is the protocol-level part of C13.
func RunScanProtocol(c *vc.Ctx) {
	c.Ev.Assume("proto: protocol-level scans run on a real in-process server (single-replica partitions, n in 1..4); order is checked within each partition's subsequence (documented guarantee), exactly-once / containment / termination on the merged stream")
	c.Ev.Assume("proto: MATCH patterns start with '*' and use no character of the table prefix, so that the result does not depend on whether the server matches the bare key or table:key; reverse chains start from a cursor above the last element (an empty reverse cursor means 'below the table start' in this server)")
	if err := RouteLogs(filepath.Join(c.Scratch, "scanproto-servers.log")); err != nil {
		c.Inconclusive("proto: " + err.Error())
		return
	}
	// pebble first: a reverse chain that fails on mem only is attributed to the mem engine
	engines := []string{"pebble", "mem"}
	for ei, eng := range engines {
		var specs []NSSpec
		for n := 1; n <= 4; n++ {
			specs = append(specs, NSSpec{Name: "sc" + strconv.Itoa(n), PartNum: n})
		}
		h, err := StartHost(HostConf{Dir: filepath.Join(c.Scratch, fmt.Sprintf("scanproto-%d", ei)), Engine: eng, NodeID: uint64(40 + ei), ClusterID: "verif-c13-proto", Namespaces: specs})
		if err != nil {
			c.Inconclusive("proto: start server: " + err.Error())
			return
		}
		if err := h.WaitLeaders(60 * time.Second); err != nil {
			c.Inconclusive("proto: " + err.Error())
			return
		}
		names := scanNames(c, c.Pick(14, 120))
		// smallest chains first (three keys, COUNT 1): they give the minimal witness of a broken form
		for _, n := range []int{1, 2} {
			scanDirected(c, h, eng, n)
		}
		var wg sync.WaitGroup
		for n := 1; n <= 4; n++ {
			wg.Add(1)
			go func(n int) {
				defer wg.Done()
				scanProtoNamespace(c, h, eng, n, names)
			}(n)
		}
		wg.Wait()
	}
}

func scanProtoNamespace(c *vc.Ctx, h *Host, eng string, n int, names []string) {
	ns := "sc" + strconv.Itoa(n)
	conn, err := Dial(h.Addr(), 30*time.Second)
	if err != nil {
		c.Inconclusive("proto: dial: " + err.Error())
		return
	}
	defer conn.Close()
	pop := &scanPop{ns: ns, n: n, keys: map[string][]string{}}
	do := func(args ...string) bool {
		rp, err := conn.DoS(args...)
		if err != nil {
			c.Inconclusive("proto: populate: " + err.Error())
			return false
		}
		pop.populate = append(pop.populate, qargv(B(args...)))
		return !rp.IsErr()
	}
	r := c.Rand(int64(7400 + n))
	// per type a different subset of the names in the target table; decoys in neighbouring tables and other types
	for ti, typ := range scanTypes {
		for i, nm := range names {
			if (i+ti)%5 == 4 {
				continue // absent for this type: the same name exists for other types only
			}
			if do(writeCmdFor(typ, ns+":"+scanTable+":"+nm, nm)...) {
				pop.keys[typ] = append(pop.keys[typ], nm)
			}
		}
		for _, dt := range scanDecoyTables {
			for k := 0; k < 4; k++ {
				nm := names[r.Intn(len(names))]
				do(writeCmdFor(typ, ns+":"+dt+":"+nm, nm)...)
			}
		}
	}
	// collections: fields / members = the names; decoy collections with neighbouring key names
	coll := ns + ":" + scanTable + ":coll"
	for _, nm := range names {
		if do("HSET", coll, nm, "v-"+nm) {
			pop.hashFields = append(pop.hashFields, nm)
		}
		if do("SADD", coll, nm) {
			pop.setMembers = append(pop.setMembers, nm)
		}
		if do("ZADD", coll, strconv.Itoa(r.Intn(5)), nm) {
			pop.zsetMember = append(pop.zsetMember, nm)
		}
	}
	for _, dk := range []string{"col", "coll0", "colm", "coll:"} {
		d := ns + ":" + scanTable + ":" + dk
		do("HSET", d, "decoy-"+dk, "v")
		do("SADD", d, "decoy-"+dk)
		do("ZADD", d, "1", "decoy-"+dk)
	}
	// "coll" itself is a key of the target table for HASH / SET / ZSET, and so are the decoy collections
	for _, typ := range []string{"HASH", "SET", "ZSET"} {
		pop.keys[typ] = append(pop.keys[typ], "coll", "col", "coll0", "colm", "coll:")
	}
	c.Ev.Count("proto_populations", 1)
	c.Ev.Count("proto_population_writes", int64(len(pop.populate)))

	patterns := []string{"", "*a*", "*1", "*[ab]?", "*k*0", "*z"}
	for _, typ := range scanTypes {
		exp := pop.keys[typ]
		counts := scanCounts(len(exp))
		for _, reverse := range []bool{false, true} {
			for _, cnt := range counts {
				for pi, pat := range patterns {
					if pi > 0 && cnt != counts[0] && cnt != -1 && cnt != len(exp) {
						continue // MATCH with three COUNT classes only
					}
					if typ == "KV" {
						scanKeyChain(c, conn, eng, pop, "SCAN", typ, reverse, cnt, pat)
					}
					scanKeyChain(c, conn, eng, pop, "ADVSCAN", typ, reverse, cnt, pat)
				}
			}
		}
	}
	for _, col := range []struct {
		cmd string
		el  []string
	}{{"HSCAN", pop.hashFields}, {"SSCAN", pop.setMembers}, {"ZSCAN", pop.zsetMember}} {
		counts := scanCounts(len(col.el))
		for _, reverse := range []bool{false, true} {
			for _, cnt := range counts {
				for pi, pat := range patterns {
					if pi > 0 && cnt != counts[0] && cnt != -1 && cnt != len(col.el) {
						continue
					}
					scanCollChain(c, conn, eng, pop, col.cmd, coll, col.el, reverse, cnt, pat)
				}
			}
		}
	}
}

// scanCounts: COUNT in {1,2,3,n-1,n,n+1, omitted(-1)}.
func scanCounts(n int) []int {
	seen := map[int]bool{}
	var out []int
	for _, v := range []int{1, 2, 3, n - 1, n, n + 1} {
		if v >= 1 && !seen[v] {
			seen[v] = true
			out = append(out, v)
		}
	}
	return append(out, -1)
}

func globFilter(names []string, pat string) []string {
	if pat == "" {
		return append([]string(nil), names...)
	}
	g, err := glob.Compile(pat)
	if err != nil {
		return nil
	}
	var out []string
	for _, n := range names {
		if g.Match(n) {
			out = append(out, n)
		}
	}
	return out
}

func quoteAll(xs []string) []string {
	out := make([]string, len(xs))
	for i, x := range xs {
		out[i] = strconv.Quote(cut(x, 40))
	}
	return out
}

// aboveAllCursor builds the merged start cursor of a reverse chain: every
// partition starts above the last possible key.
func aboveAllCursor(n int) string {
	var b []byte
	for p := 0; p < n; p++ {
		b = append(b, strconv.Itoa(p)...)
		b = append(b, ':')
		b = append(b, base64.StdEncoding.EncodeToString([]byte("\xff\xff\xff\xff"))...)
		b = append(b, ';')
	}
	return base64.StdEncoding.EncodeToString(b)
}

type chainVerdict struct {
	what   string // missing, duplicate, foreign, order, noterm, match, cursor-reuse, error
	detail string
	a, b   string // order: b followed a
}

// judgeStream checks exactly-once / containment / order of a complete chain.
func judgeStream(got []string, expected []string, all []string, partOf func(string) int, reverse bool, matched bool) *chainVerdict {
	expSet := map[string]bool{}
	for _, e := range expected {
		expSet[e] = true
	}
	allSet := map[string]bool{}
	for _, e := range all {
		allSet[e] = true
	}
	seen := map[string]int{}
	for _, g := range got {
		seen[g]++
	}
	for g, k := range seen {
		if k > 1 {
			return &chainVerdict{what: "duplicate", detail: fmt.Sprintf("element %q returned %d times", g, k)}
		}
		if !expSet[g] {
			if matched && allSet[g] {
				return &chainVerdict{what: "match", detail: fmt.Sprintf("element %q does not match the pattern but was returned", g)}
			}
			return &chainVerdict{what: "foreign", detail: fmt.Sprintf("element %q is not in the scanned table/type/collection", g)}
		}
	}
	for _, e := range expected {
		if seen[e] == 0 {
			what := "missing"
			if matched {
				what = "match"
			}
			return &chainVerdict{what: what, detail: fmt.Sprintf("element %q exists (and matches) but was never returned", e)}
		}
	}
	last := map[int]string{}
	has := map[int]bool{}
	for _, g := range got {
		p := partOf(g)
		if has[p] {
			if (!reverse && !(g > last[p])) || (reverse && !(g < last[p])) {
				return &chainVerdict{what: "order", detail: fmt.Sprintf("within partition %d element %q follows %q", p, g, last[p]), a: last[p], b: g}
			}
		}
		last[p], has[p] = g, true
	}
	return nil
}

func sortedCopy(xs []string) []string {
	out := append([]string(nil), xs...)
	sort.Strings(out)
	return out
}

var scanFired sync.Map

// pebbleFailed remembers the chains that (also) fail on pebble: a mem-only
// failure of a reverse chain is then attributable to the mem engine.
var pebbleFailed sync.Map

// zeroExt: one name is the other extended by bytes starting with 0x00.
func zeroExt(a, b string) bool {
	if len(a) > len(b) {
		a, b = b, a
	}
	return len(b) > len(a) && strings.HasPrefix(b, a) && b[len(a)] == 0
}

func hasZeroExtPair(names []string) bool {
	set := map[string]bool{}
	for _, n := range names {
		set[n] = true
	}
	for _, n := range names {
		if i := strings.IndexByte(n, 0); i > 0 && set[n[:i]] {
			return true
		}
	}
	return false
}

func reportScan(c *vc.Ctx, v *chainVerdict, form string, w scanWitness, chainID string, reverse bool, all []string) {
	c.Ev.Count("proto_violating_chains", 1)
	base := form
	if i := strings.IndexByte(base, '/'); i >= 0 {
		base = base[:i]
	}
	if w.Engine == "pebble" {
		pebbleFailed.Store(chainID, true)
	}
	// input class of the listed mem-engine defect: reverse iteration on mem visits
	// a key before the key that extends it by 0x00
	class := ""
	if w.Engine == "mem" && reverse {
		_, alsoPebble := pebbleFailed.Load(chainID)
		switch {
		case v.what == "order" && zeroExt(v.a, v.b):
			class = "mem-reverse-0x00"
		case (v.what == "duplicate" || v.what == "missing") && !alsoPebble && hasZeroExtPair(all):
			class = "mem-reverse-0x00"
		}
	}
	sig := "proto-scan-" + v.what + "/" + form
	dedupe := base
	if class != "" {
		sig = "proto-scan-" + v.what + "/" + base + "/" + class
		dedupe = base + "|" + class
	}
	// one violation per command form (and class): the other symptoms (missing /
	// duplicate / no termination, with or without COUNT or MATCH) of a form
	// whose smallest chain already fails are consequences of the same cause
	if _, dup := scanFired.LoadOrStore(dedupe, true); dup {
		c.Ev.Count("proto_violating_chains_same_form_not_repeated", 1)
		return
	}
	w.Detail = v.detail
	w.Form = form
	c.Violation(sig, fmt.Sprintf("%s on %d partitions (%s): %s; chain: %v", form, w.Partitions, w.Engine, v.detail, cutList(flatten(w.Chain), 4)), w)
}

func flatten(xs [][]string) []string {
	out := make([]string, len(xs))
	for i, x := range xs {
		out[i] = strings.Join(x, " ")
	}
	return out
}

// scanKeyChain chains SCAN / ADVSCAN (or the reverse forms) over the keys of one type.
func scanKeyChain(c *vc.Ctx, conn *Conn, eng string, pop *scanPop, base, typ string, reverse bool, cnt int, pat string) {
	scanKeyChainIn(c, conn, eng, pop, scanTable, base, typ, reverse, cnt, pat)
}

func scanKeyChainIn(c *vc.Ctx, conn *Conn, eng string, pop *scanPop, table, base, typ string, reverse bool, cnt int, pat string) {
	cmd := base
	if reverse {
		cmd = map[string]string{"SCAN": "REVSCAN", "ADVSCAN": "ADVREVSCAN"}[base]
	}
	form := cmd
	if base == "ADVSCAN" {
		form += "-" + typ
	}
	if cnt < 0 {
		form += "/nocount"
	}
	all := pop.keys[typ]
	expected := globFilter(all, pat)
	partOf := func(name string) int { return zanredisdb.GetHashedPartitionID([]byte(table+":"+name), pop.n) }
	mk := func(cursor string) []string {
		args := []string{cmd, pop.ns + ":" + table + ":" + cursor}
		if base == "ADVSCAN" {
			args = append(args, typ)
		}
		if pat != "" {
			args = append(args, "MATCH", pat)
		}
		if cnt >= 0 {
			args = append(args, "COUNT", strconv.Itoa(cnt))
		}
		return args
	}
	cursor := ""
	if reverse {
		cursor = aboveAllCursor(pop.n)
	}
	w := scanWitness{Engine: eng, Partitions: pop.n, Populate: pop.populate, Expected: quoteAll(sortedCopy(expected))}
	chainID := fmt.Sprintf("%s|%s|n%d|c%d|p%s", form, table, pop.n, cnt, pat)
	reportScan := func(c *vc.Ctx, v *chainVerdict, form string, w scanWitness) {
		reportScan(c, v, form, w, chainID, reverse, all)
	}
	var got []string
	type page struct {
		cursor string
		keys   []string
	}
	var pages []page
	bound := len(all) + 2 + 1
	for pg := 0; ; pg++ {
		args := mk(cursor)
		rp, err := conn.DoS(args...)
		w.Chain = append(w.Chain, qargv(B(args...)))
		if err != nil {
			c.Inconclusive("proto: " + err.Error())
			return
		}
		c.Ev.Count("proto_pages", 1)
		if rp.IsErr() || rp.Kind != '*' || len(rp.Arr) != 2 || rp.Arr[1].Kind != '*' {
			w.Pages = append(w.Pages, rp.Short(200))
			reportScan(c, &chainVerdict{what: "error", detail: "page answered " + rp.Short(160)}, form, w)
			return
		}
		var keys []string
		for _, e := range rp.Arr[1].Arr {
			keys = append(keys, string(e.Str))
		}
		w.Pages = append(w.Pages, fmt.Sprintf("cursor=%q keys=%v", string(rp.Arr[0].Str), quoteAll(keys)))
		pages = append(pages, page{cursor, keys})
		got = append(got, keys...)
		cursor = string(rp.Arr[0].Str)
		if cursor == "" {
			break
		}
		if pg+1 >= bound {
			w.Got = quoteAll(got)
			reportScan(c, &chainVerdict{what: "noterm", detail: fmt.Sprintf("no empty cursor after %d pages for a population of %d", pg+1, len(all))}, form, w)
			return
		}
	}
	w.Got = quoteAll(got)
	c.Ev.Eval()
	c.Ev.Count("proto_chains", 1)
	spans := map[int]bool{}
	for _, e := range expected {
		spans[partOf(e)] = true
	}
	cls := "n"
	switch {
	case cnt < 0:
		cls = "default"
	case cnt < pop.n:
		cls = "lt-partitions"
	case cnt <= 3:
		cls = strconv.Itoa(cnt)
	}
	c.Ev.Nontrivial(fmt.Sprintf("proto/%s/n%d/count-%s/match-%v/pages-%d", form, pop.n, cls, pat != "", minInt(len(pages), 4)))
	if v := judgeStream(got, expected, all, partOf, reverse, pat != ""); v != nil {
		reportScan(c, v, form, w)
		return
	}
	// idempotence of a page: every cursor produced along the way, used again as a fresh start
	for i := 1; i < len(pages); i++ {
		args := mk(pages[i].cursor)
		rp, err := conn.DoS(args...)
		if err != nil {
			c.Inconclusive("proto: " + err.Error())
			return
		}
		c.Ev.Count("proto_cursor_reuses", 1)
		var keys []string
		if rp.Kind == '*' && len(rp.Arr) == 2 {
			for _, e := range rp.Arr[1].Arr {
				keys = append(keys, string(e.Str))
			}
		}
		if strings.Join(sortedCopy(keys), "\x00") != strings.Join(sortedCopy(pages[i].keys), "\x00") {
			w.Chain = append(w.Chain, qargv(B(args...)))
			reportScan(c, &chainVerdict{what: "cursor-reuse", detail: fmt.Sprintf("cursor of page %d used again returns %v, the first time it returned %v", i, quoteAll(keys), quoteAll(pages[i].keys))}, form, w)
			return
		}
	}
}

func minInt(a, b int) int {
	if a < b {
		return a
	}
	return b
}

// scanCollChain chains HSCAN / SSCAN / ZSCAN (or reverse forms) over one collection.
func scanCollChain(c *vc.Ctx, conn *Conn, eng string, pop *scanPop, base, coll string, all []string, reverse bool, cnt int, pat string) {
	cmd := base
	if reverse {
		cmd = base[:1] + "REVSCAN"
	}
	form := cmd
	if cnt < 0 {
		form += "/nocount"
	}
	expected := globFilter(all, pat)
	stride := 2
	if base == "SSCAN" {
		stride = 1
	}
	mk := func(cursor string) []string {
		args := []string{cmd, coll, cursor}
		if pat != "" {
			args = append(args, "MATCH", pat)
		}
		if cnt >= 0 {
			args = append(args, "COUNT", strconv.Itoa(cnt))
		}
		return args
	}
	cursor := ""
	if reverse {
		cursor = "\xff\xff\xff\xff"
	}
	w := scanWitness{Engine: eng, Partitions: pop.n, Populate: pop.populate, Expected: quoteAll(sortedCopy(expected))}
	chainID := fmt.Sprintf("%s|%s|n%d|c%d|p%s", form, coll, pop.n, cnt, pat)
	reportScan := func(c *vc.Ctx, v *chainVerdict, form string, w scanWitness) {
		reportScan(c, v, form, w, chainID, reverse, all)
	}
	var got []string
	type page struct {
		cursor string
		keys   []string
	}
	var pages []page
	bound := len(all) + 2 + 1
	for pg := 0; ; pg++ {
		args := mk(cursor)
		rp, err := conn.DoS(args...)
		w.Chain = append(w.Chain, qargv(B(args...)))
		if err != nil {
			c.Inconclusive("proto: " + err.Error())
			return
		}
		c.Ev.Count("proto_pages", 1)
		if rp.IsErr() || rp.Kind != '*' || len(rp.Arr) != 2 || rp.Arr[1].Kind != '*' || len(rp.Arr[1].Arr)%stride != 0 {
			w.Pages = append(w.Pages, rp.Short(200))
			reportScan(c, &chainVerdict{what: "error", detail: "page answered " + rp.Short(160)}, form, w)
			return
		}
		var keys []string
		for i := 0; i < len(rp.Arr[1].Arr); i += stride {
			keys = append(keys, string(rp.Arr[1].Arr[i].Str))
		}
		w.Pages = append(w.Pages, fmt.Sprintf("cursor=%q elements=%v", string(rp.Arr[0].Str), quoteAll(keys)))
		pages = append(pages, page{cursor, keys})
		got = append(got, keys...)
		cursor = string(rp.Arr[0].Str)
		if cursor == "" {
			break
		}
		if pg+1 >= bound {
			w.Got = quoteAll(got)
			reportScan(c, &chainVerdict{what: "noterm", detail: fmt.Sprintf("no empty cursor after %d pages for a population of %d", pg+1, len(all))}, form, w)
			return
		}
	}
	w.Got = quoteAll(got)
	c.Ev.Eval()
	c.Ev.Count("proto_chains", 1)
	cls := "n"
	switch {
	case cnt < 0:
		cls = "default"
	case cnt <= 3:
		cls = strconv.Itoa(cnt)
	}
	c.Ev.Nontrivial(fmt.Sprintf("proto/%s/n%d/count-%s/match-%v/pages-%d", form, pop.n, cls, pat != "", minInt(len(pages), 4)))
	if v := judgeStream(got, expected, all, func(string) int { return 0 }, reverse, pat != ""); v != nil {
		reportScan(c, v, form, w)
		return
	}
	for i := 1; i < len(pages); i++ {
		args := mk(pages[i].cursor)
		rp, err := conn.DoS(args...)
		if err != nil {
			c.Inconclusive("proto: " + err.Error())
			return
		}
		c.Ev.Count("proto_cursor_reuses", 1)
		var keys []string
		if rp.Kind == '*' && len(rp.Arr) == 2 {
			for j := 0; j < len(rp.Arr[1].Arr); j += stride {
				keys = append(keys, string(rp.Arr[1].Arr[j].Str))
			}
		}
		if strings.Join(keys, "\x00") != strings.Join(pages[i].keys, "\x00") {
			w.Chain = append(w.Chain, qargv(B(args...)))
			reportScan(c, &chainVerdict{what: "cursor-reuse", detail: fmt.Sprintf("cursor of page %d used again returns %v, the first time it returned %v", i, quoteAll(keys), quoteAll(pages[i].keys))}, form, w)
			return
		}
	}
}

func init() {
	// development entry point only (VERIF_INPROC_DEV=1 ./check C13P quick); the
	// registered C13 check lives in package keylab and calls RunScanProtocol.
	if os.Getenv("VERIF_INPROC_DEV") != "" {
		vc.Register("C13P", "exploration", func(c *vc.Ctx) error {
			c.Ev.Rule = "development run of the protocol-level half of C13"
			RunScanProtocol(c)
			return nil
		})
	}
}

// scanDirected: per form the smallest multi-page chain: keys a, b, c of each
// type in their own table, COUNT 1, forward and reverse.
func scanDirected(c *vc.Ctx, h *Host, eng string, n int) {
	ns := "sc" + strconv.Itoa(n)
	conn, err := Dial(h.Addr(), 30*time.Second)
	if err != nil {
		c.Inconclusive("proto: dial: " + err.Error())
		return
	}
	defer conn.Close()
	pop := &scanPop{ns: ns, n: n, keys: map[string][]string{}}
	for _, typ := range scanTypes {
		for _, nm := range []string{"a", "b", "b\x00", "c"} {
			args := writeCmdFor(typ, ns+":"+scanTable+"min:"+nm, nm)
			rp, err := conn.DoS(args...)
			if err != nil || rp.IsErr() {
				c.Inconclusive(fmt.Sprintf("proto: populate %v: %v %s", args, err, rp.Short(80)))
				return
			}
			pop.populate = append(pop.populate, qargv(B(args...)))
			pop.keys[typ] = append(pop.keys[typ], nm)
		}
	}
	for _, typ := range scanTypes {
		for _, reverse := range []bool{false, true} {
			if typ == "KV" {
				scanKeyChainIn(c, conn, eng, pop, scanTable+"min", "SCAN", typ, reverse, 1, "")
			}
			scanKeyChainIn(c, conn, eng, pop, scanTable+"min", "ADVSCAN", typ, reverse, 1, "")
		}
	}
	// the same four names as fields / members of one small collection
	coll := ns + ":" + scanTable + "min:mincoll"
	el := []string{"a", "b", "b\x00", "c"}
	cpop := &scanPop{ns: ns, n: n}
	for _, nm := range el {
		for _, args := range [][]string{{"HSET", coll, nm, "v"}, {"SADD", coll, nm}, {"ZADD", coll, "1", nm}} {
			rp, err := conn.DoS(args...)
			if err != nil || rp.IsErr() {
				c.Inconclusive(fmt.Sprintf("proto: populate %v: %v %s", args, err, rp.Short(80)))
				return
			}
			cpop.populate = append(cpop.populate, qargv(B(args...)))
		}
	}
	for _, cmd := range []string{"HSCAN", "SSCAN", "ZSCAN"} {
		for _, reverse := range []bool{false, true} {
			scanCollChain(c, conn, eng, cpop, cmd, coll, el, reverse, 1, "")
		}
	}
}
