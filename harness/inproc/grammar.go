package inproc

// Structure-aware mutation of arguments that carry a small grammar (index
// query conditions, JSON paths, score / lex range specs, units, scan types,
// glob patterns, JSON documents): tokenised by the operators and delimiters
// the code itself looks for.

import (
	"go/ast"
	"go/parser"
	"go/token"
	"path/filepath"
	"sort"
	"strconv"
	"strings"
)

// baseDelims are grammar characters of the command set whatever the tree says.
var baseDelims = []string{"=", ">", "<", ">=", "<=", "(", "[", "-", "+", "\"", "'", ".", ":", ",", "*", "?", "{", "}", "]", ")", " ", "and", "$", "\\"}

// ExtractDelimiters harvests the short literals (1..3 bytes) that node/*.go and
// rockredis/*.go pass to bytes./strings. Index, IndexByte, IndexAny, Split*,
// Trim*, HasPrefix, HasSuffix, Contains (and byte constants compared with ==).
func ExtractDelimiters(repo string) []string {
	set := map[string]bool{}
	for _, d := range baseDelims {
		set[d] = true
	}
	add := func(e ast.Expr) {
		if ce, ok := e.(*ast.CallExpr); ok && len(ce.Args) == 1 { // []byte("x")
			e = ce.Args[0]
		}
		bl, ok := e.(*ast.BasicLit)
		if !ok {
			return
		}
		var s string
		switch bl.Kind {
		case token.STRING:
			s, _ = strconv.Unquote(bl.Value)
		case token.CHAR:
			if r, _, _, err := strconv.UnquoteChar(strings.Trim(bl.Value, "'"), '\''); err == nil {
				s = string(r)
			}
		}
		if len(s) >= 1 && len(s) <= 3 {
			set[s] = true
		}
	}
	for _, dir := range []string{"node", "rockredis"} {
		files, _ := filepath.Glob(filepath.Join(repo, dir, "*.go"))
		for _, f := range files {
			if strings.HasSuffix(f, "_test.go") {
				continue
			}
			af, err := parser.ParseFile(token.NewFileSet(), f, nil, 0)
			if err != nil {
				continue
			}
			ast.Inspect(af, func(n ast.Node) bool {
				switch x := n.(type) {
				case *ast.CallExpr:
					sel, ok := x.Fun.(*ast.SelectorExpr)
					if !ok {
						return true
					}
					pkg, _ := sel.X.(*ast.Ident)
					if pkg == nil || (pkg.Name != "bytes" && pkg.Name != "strings") {
						return true
					}
					nm := sel.Sel.Name
					if strings.HasPrefix(nm, "Index") || strings.HasPrefix(nm, "LastIndex") || strings.HasPrefix(nm, "Split") || strings.HasPrefix(nm, "Trim") ||
						nm == "HasPrefix" || nm == "HasSuffix" || nm == "Contains" || nm == "ContainsAny" || nm == "Fields" || nm == "Count" {
						for _, a := range x.Args[1:] {
							add(a)
						}
					}
				case *ast.BinaryExpr:
					if x.Op == token.EQL || x.Op == token.NEQ {
						if bl, ok := x.Y.(*ast.BasicLit); ok && bl.Kind == token.CHAR {
							add(bl)
						}
					}
				}
				return true
			})
		}
	}
	var out []string
	for s := range set {
		out = append(out, s)
	}
	sort.Slice(out, func(i, j int) bool {
		if len(out[i]) != len(out[j]) {
			return len(out[i]) > len(out[j]) // longer operators first when tokenising
		}
		return out[i] < out[j]
	})
	return out
}

// isGrammarSlot: template slots whose value is parsed as a small language.
func isGrammarSlot(k string) bool {
	switch k {
	case "COND", "PATH", "SMIN", "SMAX", "LMIN", "LMAX", "UNIT", "TYPE", "PAT", "JSON", "CURF":
		return true
	}
	return false
}

// GrammarVariants returns the structure-aware mutations of one valid value:
// operator first / last / doubled, only operators, empty operands,
// delimiter-only strings, unbalanced quotes and brackets, a very long operand.
func GrammarVariants(v string, delims []string) []string {
	seen := map[string]bool{v: true}
	var out []string
	add := func(s string) {
		if !seen[s] {
			seen[s] = true
			out = append(out, s)
		}
	}
	inner := strings.Trim(v, "\"")
	quoted := inner != v
	wrap := func(s string) {
		add(s)
		if quoted {
			add("\"" + s + "\"")
		}
	}
	// operators present in the value (longest first), else a few to graft on
	var ops []string
	for _, d := range delims {
		if d != " " && d != "\"" && strings.Contains(inner, d) {
			ops = append(ops, d)
		}
	}
	if len(ops) > 4 {
		ops = ops[:4]
	}
	for _, op := range ops {
		i := strings.Index(inner, op)
		left, right := inner[:i], inner[i+len(op):]
		wrap(op + right)             // operator first (no left operand)
		wrap(left + op)              // operator last (no right operand)
		wrap(left + op + op + right) // operator doubled
		wrap(op)                     // only the operator
		wrap(op + op + op)           // only operators
		wrap(" " + op + " ")         // blank operands
		wrap(right + op + left)      // operands swapped
		wrap(left + op + right + op) // trailing operator
		wrap(op + left + op + right) // leading operator
		wrap(left + " " + op + " " + right)
	}
	for _, op := range []string{"=", ">", "<", ">=", "<=", "(", "[", "-", "+", ".", "and", "*", "$"} {
		wrap(op + inner)
		wrap(inner + op)
		wrap(op)
	}
	// delimiter-only strings
	for _, d := range delims {
		add(d)
		add(d + d + d)
	}
	// unbalanced quotes / brackets
	for _, q := range []string{"\"", "'", "(", "[", "{", ")", "]", "}"} {
		add(q + inner)
		add(inner + q)
		add(q + q + inner)
	}
	add("\"\"")
	add("")
	return out
}
