// Package inproc is engine E5: one process hosting one or more REAL
// server.Server instances (single-replica namespaces with 1..16 partitions)
// reachable over the redis protocol on 127.0.0.1, and the checks C11 and C15
// built on top of it. See /verif/DESIGN.md section 2 "E5 inproc".
package inproc

import (
	"fmt"
	"io/ioutil"
	"log"
	"math/rand"
	"net"
	"os"
	"path/filepath"
	"strconv"
	"sync"
	"sync/atomic"
	"time"

	"github.com/youzan/ZanRedisDB/cluster"
	"github.com/youzan/ZanRedisDB/common"
	"github.com/youzan/ZanRedisDB/engine"
	"github.com/youzan/ZanRedisDB/node"
	"github.com/youzan/ZanRedisDB/raft"
	"github.com/youzan/ZanRedisDB/rockredis"
	"github.com/youzan/ZanRedisDB/server"
	"github.com/youzan/ZanRedisDB/slow"
	"github.com/youzan/ZanRedisDB/transport/rafthttp"
	"github.com/youzan/ZanRedisDB/wal"
)

// ---- logging ---------------------------------------------------------------

type fileLogger struct {
	mu sync.Mutex
	l  *log.Logger
}

func (f *fileLogger) Output(d int, s string) error        { f.l.Output(d+1, s); return nil }
func (f *fileLogger) OutputErr(d int, s string) error     { f.l.Output(d+1, "ERR: "+s); return nil }
func (f *fileLogger) OutputWarning(d int, s string) error { f.l.Output(d+1, "WARN: "+s); return nil }

var logOnce sync.Once
var walOnce sync.Once

// RouteLogs sends the loggers of all repo packages to one file. Level info for
// the server and node packages (the recovered-panic lines of the connection
// path are read back from this file), warnings for the chatty rest.
func RouteLogs(path string) error {
	f, err := os.OpenFile(path, os.O_CREATE|os.O_WRONLY|os.O_APPEND, 0644)
	if err != nil {
		return err
	}
	logOnce.Do(func() {
		fl := &fileLogger{l: log.New(f, "", log.LstdFlags|log.Lmicroseconds|log.Lshortfile)}
		server.SetLogger(common.LOG_INFO, fl)
		node.SetLogger(common.LOG_WARN, fl)
		rockredis.SetLogger(common.LOG_WARN, fl)
		engine.SetLogger(common.LOG_WARN, fl)
		slow.SetLogger(common.LOG_ERR, fl)
		rafthttp.SetLogger(common.LOG_WARN, fl)
		cluster.SetLogger(common.LOG_WARN, fl)
		raft.SetLogger(&raft.DefaultLogger{Logger: log.New(f, "raft ", log.LstdFlags|log.Lmicroseconds)})
	})
	return nil
}

// ---- ports -----------------------------------------------------------------

var portCursor int32

// freePorts probes n free TCP ports (on all interfaces, which is how the
// server binds). Other checks run concurrently on this machine, so the range
// start is derived from the pid and every candidate is test-bound first.
func freePorts(n int) ([]int, error) {
	var out []int
	base := 20000 + (os.Getpid()*37)%30000
	for tries := 0; len(out) < n && tries < 20000; tries++ {
		p := base + int(atomic.AddInt32(&portCursor, 1))
		if p > 64000 {
			p = 20000 + p%40000
		}
		l, err := net.Listen("tcp", ":"+strconv.Itoa(p))
		if err != nil {
			continue
		}
		l.Close()
		out = append(out, p)
	}
	if len(out) < n {
		return nil, fmt.Errorf("no free ports")
	}
	return out, nil
}

// ---- host ------------------------------------------------------------------

type fakeClusterInfo struct{ name string }

func (ci *fakeClusterInfo) GetClusterName() string { return ci.name }
func (ci *fakeClusterInfo) GetSnapshotSyncInfo(fullNS string) ([]common.SnapshotSyncInfo, error) {
	return nil, nil
}
func (ci *fakeClusterInfo) UpdateMeForNamespaceLeader(fullNS string) (bool, error) { return false, nil }

// NSSpec describes one namespace hosted (fully or partly) by a Host.
type NSSpec struct {
	Name    string `json:"name"`
	PartNum int    `json:"part_num"`
	// Parts lists the partitions this host serves; nil = all of them.
	Parts []int `json:"parts,omitempty"`
	// ExpPolicy "" = the production default (local_deletion).
	ExpPolicy string `json:"exp_policy,omitempty"`
	// DataVersion "" = default; "value_header_v1" is required by wait_compact.
	DataVersion string `json:"data_version,omitempty"`
	SnapCount   int    `json:"snap_count,omitempty"`
	// Gen distinguishes incarnations of a namespace that is deleted and created
	// again under the same name (a re-created namespace gets new raft group ids).
	Gen int `json:"gen,omitempty"`
}

type HostConf struct {
	Dir        string   `json:"dir"`
	Engine     string   `json:"engine"` // "mem" | "pebble" (never rocksdb)
	NodeID     uint64   `json:"node_id"`
	ClusterID  string   `json:"cluster_id"`
	Namespaces []NSSpec `json:"namespaces"`
	// Ports, when set (restart on the same directory), are reused.
	Ports []int `json:"ports,omitempty"`
}

type Host struct {
	Conf      HostConf
	Srv       *server.Server
	RedisPort int
	Ports     []int
	raftAddr  string
	groupSeq  uint64
	mu        sync.Mutex
	nodes     map[string]*node.NamespaceNode
}

func (h *Host) Addr() string { return "127.0.0.1:" + strconv.Itoa(h.RedisPort) }

// StartHost creates and starts a real server the way server_test.go does.
func StartHost(conf HostConf) (*Host, error) {
	if conf.Engine != "mem" && conf.Engine != "pebble" {
		return nil, fmt.Errorf("engine %q not allowed (only mem and pebble)", conf.Engine)
	}
	if conf.NodeID == 0 {
		conf.NodeID = 1
	}
	if conf.ClusterID == "" {
		conf.ClusterID = "verif-inproc"
	}
	if err := os.MkdirAll(conf.Dir, 0755); err != nil {
		return nil, err
	}
	// Every raft group preallocates two WAL segments of wal.SegmentSizeBytes
	// (64 MB by default): with dozens of single-replica groups per process that
	// alone is gigabytes of scratch. The segment size is the package's own knob.
	walOnce.Do(func() { wal.SegmentSizeBytes = 1 << 20 })
	ports := conf.Ports
	if len(ports) < 5 {
		var err error
		ports, err = freePorts(5)
		if err != nil {
			return nil, err
		}
	}
	ioutil.WriteFile(filepath.Join(conf.Dir, "myid"), []byte(strconv.FormatUint(conf.NodeID, 10)), 0644)
	raftAddr := "http://127.0.0.1:" + strconv.Itoa(ports[3])
	kvOpts := server.ServerConfig{
		ClusterID:     conf.ClusterID,
		DataDir:       conf.Dir,
		RedisAPIPort:  ports[0],
		HttpAPIPort:   ports[1],
		GrpcAPIPort:   ports[2],
		LocalRaftAddr: raftAddr,
		MetricAddr:    "127.0.0.1:" + strconv.Itoa(ports[4]),
		ProfilePort:   -1,
		BroadcastAddr: "127.0.0.1",
		TickMs:        100,
		ElectionTick:  5,
		KeepBackup:    1,
		KeepWAL:       2,
	}
	kvOpts.RocksDBOpts.EngineType = conf.Engine
	// dozens of stores per process: small memtables and caches (64 MB write
	// buffers would preallocate ~70 MB of disk and 64 MB of RAM per partition)
	kvOpts.RocksDBOpts.WriteBufferSize = 4 << 20
	kvOpts.RocksDBOpts.BlockCache = 16 << 20
	srv, err := server.NewServer(kvOpts)
	if err != nil {
		return nil, err
	}
	srv.GetNsMgr().SetIClusterInfo(&fakeClusterInfo{name: conf.ClusterID})
	h := &Host{Conf: conf, Srv: srv, RedisPort: ports[0], Ports: ports, raftAddr: raftAddr,
		nodes: map[string]*node.NamespaceNode{}}
	for _, ns := range conf.Namespaces {
		if err := h.initNamespace(ns, false); err != nil {
			return nil, err
		}
	}
	srv.Start()
	return h, nil
}

func nsGroupBase(name string) uint64 {
	// stable group ids per (namespace, partition): restart must reuse them
	var hsh uint64 = 1469598103934665603
	for i := 0; i < len(name); i++ {
		hsh ^= uint64(name[i])
		hsh *= 1099511628211
	}
	return 1000 + (hsh%1000000)*64
}

func (h *Host) initNamespace(ns NSSpec, startNow bool) error {
	parts := ns.Parts
	if parts == nil {
		for i := 0; i < ns.PartNum; i++ {
			parts = append(parts, i)
		}
	}
	for _, pid := range parts {
		nsConf := node.NewNSConfig()
		nsConf.Name = ns.Name + "-" + strconv.Itoa(pid)
		nsConf.BaseName = ns.Name
		nsConf.EngType = rockredis.EngType
		nsConf.PartitionNum = ns.PartNum
		nsConf.Replicator = 1
		if ns.SnapCount > 0 {
			nsConf.SnapCount = ns.SnapCount
			nsConf.SnapCatchup = ns.SnapCount / 2
		}
		if ns.ExpPolicy != "" {
			nsConf.ExpirationPolicy = ns.ExpPolicy
		}
		if ns.DataVersion != "" {
			nsConf.DataVersion = ns.DataVersion
		}
		nsConf.RaftGroupConf.GroupID = nsGroupBase(ns.Name) + uint64(ns.Gen)*32 + uint64(pid)
		nsConf.RaftGroupConf.SeedNodes = []node.ReplicaInfo{{NodeID: h.Conf.NodeID, ReplicaID: h.Conf.NodeID, RaftAddr: h.raftAddr}}
		nn, err := h.Srv.InitKVNamespace(h.Conf.NodeID, nsConf, false)
		for try := 0; err == node.ErrNamespaceAlreadyExist && startNow && try < 100; try++ {
			// a destroyed partition of the same name unregisters itself asynchronously
			time.Sleep(50 * time.Millisecond)
			nn, err = h.Srv.InitKVNamespace(h.Conf.NodeID, nsConf, false)
		}
		if err != nil {
			return fmt.Errorf("init namespace %s: %v", nsConf.Name, err)
		}
		if startNow {
			if err := nn.Start(false); err != nil {
				return fmt.Errorf("start namespace %s: %v", nsConf.Name, err)
			}
		}
		h.mu.Lock()
		h.nodes[nsConf.Name] = nn
		h.mu.Unlock()
	}
	return nil
}

// AddNamespace adds (and starts) a namespace on a running host.
func (h *Host) AddNamespace(ns NSSpec) error {
	h.Conf.Namespaces = append(h.Conf.Namespaces, ns)
	return h.initNamespace(ns, true)
}

// InitPartitions initialises and starts some partitions of a namespace on a
// running host, the way the data-node coordinator does for one partition
// (InitNamespaceNode + Start).
func (h *Host) InitPartitions(ns NSSpec, pids ...int) error {
	ns.Parts = pids
	return h.initNamespace(ns, true)
}

// DestroyPartition removes a local partition the way the data-node coordinator
// does (forceRemoveLocalNamespace: NamespaceNode.Destroy) and waits until it
// is unregistered from the namespace manager.
func (h *Host) DestroyPartition(ns string, pid int) error {
	full := ns + "-" + strconv.Itoa(pid)
	nn := h.Srv.GetNsMgr().GetNamespaces()[full]
	if nn == nil {
		return fmt.Errorf("partition %s not registered", full)
	}
	if err := nn.Destroy(); err != nil {
		return err
	}
	h.mu.Lock()
	delete(h.nodes, full)
	h.mu.Unlock()
	for i := 0; i < 200; i++ {
		if cur, ok := h.Srv.GetNsMgr().GetNamespaces()[full]; !ok || cur != nn {
			return nil
		}
		time.Sleep(25 * time.Millisecond)
	}
	return fmt.Errorf("partition %s still registered 5 s after Destroy", full)
}

// Node returns the KVNode of one hosted partition (nil if not hosted/ready).
func (h *Host) Node(ns string, pid int) *node.KVNode {
	nn := h.Srv.GetNamespaceFromFullName(ns + "-" + strconv.Itoa(pid))
	if nn == nil {
		return nil
	}
	return nn.Node
}

// WaitLeaders waits until every hosted partition is a leader that has applied
// its own first entries (a single-replica group elects itself after 1–2 s).
func (h *Host) WaitLeaders(timeout time.Duration) error {
	deadline := time.Now().Add(timeout)
	for {
		h.mu.Lock()
		names := make([]string, 0, len(h.nodes))
		for n := range h.nodes {
			names = append(names, n)
		}
		h.mu.Unlock()
		pending := ""
		for _, n := range names {
			nn := h.Srv.GetNamespaceFromFullName(n)
			if nn == nil || !nn.Node.IsLead() {
				pending = n
				break
			}
		}
		if pending == "" {
			return nil
		}
		if time.Now().After(deadline) {
			return fmt.Errorf("partition %s has no leader after %v", pending, timeout)
		}
		time.Sleep(50 * time.Millisecond)
	}
}

// CallRead invokes the real read handler of ONE partition's KVNode in-process
// and returns what it wrote.
func CallRead(kvn *node.KVNode, args [][]byte) ([]Reply, error) {
	h, ok := kvn.GetHandler(string(lower(args[0])))
	if !ok {
		return nil, fmt.Errorf("no read handler %q", args[0])
	}
	rc := &recConn{}
	h(rc, buildRedconCommand(args))
	return rc.replies()
}

// CallRead1 is CallRead for handlers that answer with exactly one reply.
func CallRead1(kvn *node.KVNode, args ...string) (Reply, error) {
	rs, err := CallRead(kvn, B(args...))
	if err != nil {
		return Reply{}, err
	}
	if len(rs) != 1 {
		return Reply{}, fmt.Errorf("handler %s wrote %d replies", args[0], len(rs))
	}
	return rs[0], nil
}

// CallMerge invokes the real merge (read) handler of one partition's KVNode.
func CallMerge(kvn *node.KVNode, args [][]byte) (interface{}, error) {
	h, isWrite, ok := kvn.GetMergeHandler(string(lower(args[0])))
	if !ok {
		return nil, fmt.Errorf("no merge handler %q", args[0])
	}
	if isWrite {
		return nil, fmt.Errorf("merge handler %q is a write", args[0])
	}
	return h(buildRedconCommand(args))
}

func lower(b []byte) []byte {
	out := make([]byte, len(b))
	for i, c := range b {
		if c >= 'A' && c <= 'Z' {
			c += 'a' - 'A'
		}
		out[i] = c
	}
	return out
}

// newRand is a helper for code that has no vc.Ctx (child processes).
func newRand(seed, stream int64) *rand.Rand {
	return rand.New(rand.NewSource(seed*1000003 + stream*7919 + 17))
}
