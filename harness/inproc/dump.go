package inproc

// Dumps of one partition of an in-process server: logical (what a client can
// read, through the real read / scan handlers of the partition's KVNode) and
// raw (every engine key/value, through the verif hook VerifKVStore).

import (
	"crypto/sha1"
	"encoding/hex"
	"fmt"
	"sort"
	"strconv"
	"strings"

	"github.com/youzan/ZanRedisDB/common"
	"github.com/youzan/ZanRedisDB/node"
)

// LogicalDump maps "type|fullkey" to a canonical rendering of the content.
// Entries whose key currently has a TTL are listed in Volatile: their content
// changes on its own (expiry), so comparisons skip them.
type LogicalDump struct {
	Entries  map[string]string
	Volatile map[string]bool
}

type typeReader struct {
	typ     string
	scanTyp string // advscan type, "" if the type cannot be scanned
	read    func(k string) [][]string
	ttlCmd  string
	// absent tells whether the rendered reads mean "no such key"
	absent func(rs []string) bool
}

func allNil(rs []string) bool {
	for _, r := range rs {
		if r != "nil" && r != "[]" && r != ":0" {
			return false
		}
	}
	return true
}

var typeReaders = []typeReader{
	{"kv", "KV", func(k string) [][]string { return [][]string{{"get", k}} }, "ttl", allNil},
	{"hash", "HASH", func(k string) [][]string { return [][]string{{"hgetall", k}, {"hlen", k}} }, "httl", allNil},
	{"list", "LIST", func(k string) [][]string { return [][]string{{"lrange", k, "0", "-1"}, {"llen", k}} }, "lttl", allNil},
	{"set", "SET", func(k string) [][]string { return [][]string{{"smembers", k}, {"scard", k}} }, "sttl", allNil},
	{"zset", "ZSET", func(k string) [][]string {
		return [][]string{{"zrange", k, "0", "-1", "withscores"}, {"zcard", k}}
	}, "zttl", allNil},
	{"bitmap", "", func(k string) [][]string { return [][]string{{"bitcount", k}, {"bkeyexist", k}} }, "bttl", allNil},
	{"json", "", func(k string) [][]string { return [][]string{{"json.get", k}, {"json.keyexists", k}} }, "", allNil},
}

// sortedArrayCmds return arrays whose order is not part of the content.
var sortedArrayCmds = map[string]bool{"hgetall": false, "smembers": true}

func renderRead(kvn *node.KVNode, args []string) string {
	rs, err := CallRead(kvn, B(args...))
	if err != nil {
		return "harness-error:" + err.Error()
	}
	if len(rs) != 1 {
		return fmt.Sprintf("replies=%d", len(rs))
	}
	r := rs[0]
	if r.Kind == '*' && sortedArrayCmds[args[0]] {
		ss := make([]string, len(r.Arr))
		for i, e := range r.Arr {
			ss[i] = e.String()
		}
		sort.Strings(ss)
		return "[" + strings.Join(ss, " ") + "]"
	}
	return r.String()
}

// DumpLogical reads every pool key of every type plus every key found by
// ADVSCAN in the given tables.
func DumpLogical(kvn *node.KVNode, ns string, tables []string, poolKeys []string) *LogicalDump {
	d := &LogicalDump{Entries: map[string]string{}, Volatile: map[string]bool{}}
	for _, tr := range typeReaders {
		keys := map[string]bool{}
		for _, k := range poolKeys {
			keys[k] = true
		}
		if tr.scanTyp != "" {
			for _, tb := range tables {
				cursor := ""
				for page := 0; page < 50; page++ {
					res, err := CallMerge(kvn, B("advscan", ns+":"+tb+":"+cursor, tr.scanTyp, "count", "500"))
					sr, ok := res.(*common.ScanResult)
					if err != nil || !ok || sr == nil {
						d.Entries[tr.typ+"|scan-error|"+tb] = fmt.Sprint(err)
						break
					}
					for _, k := range sr.Keys {
						keys[ns+":"+string(k)] = true
					}
					if len(sr.NextCursor) == 0 {
						break
					}
					cursor = string(sr.NextCursor)
				}
			}
		}
		for k := range keys {
			var parts []string
			for _, rd := range tr.read(k) {
				parts = append(parts, renderRead(kvn, rd))
			}
			if tr.absent(parts) {
				continue
			}
			id := tr.typ + "|" + k
			d.Entries[id] = strings.Join(parts, " ; ")
			if tr.ttlCmd != "" {
				t := renderRead(kvn, []string{tr.ttlCmd, k})
				if t != ":-1" {
					d.Volatile[id] = true
				}
			}
		}
	}
	return d
}

// DiffLogical lists differences between two dumps, skipping entries that are
// volatile (have a TTL) in either.
func DiffLogical(a, b *LogicalDump) []string {
	var ds []string
	for id, va := range a.Entries {
		if a.Volatile[id] || b.Volatile[id] {
			continue
		}
		vb, ok := b.Entries[id]
		if !ok {
			ds = append(ds, fmt.Sprintf("%s: %s vs <absent>", strconv.Quote(id), cut(va, 160)))
		} else if va != vb {
			ds = append(ds, fmt.Sprintf("%s: %s vs %s", strconv.Quote(id), cut(va, 160), cut(vb, 160)))
		}
	}
	for id, vb := range b.Entries {
		if a.Volatile[id] || b.Volatile[id] {
			continue
		}
		if _, ok := a.Entries[id]; !ok {
			ds = append(ds, fmt.Sprintf("%s: <absent> vs %s", strconv.Quote(id), cut(vb, 160)))
		}
	}
	sort.Strings(ds)
	return ds
}

// RawDump is every engine key with a hash of its value.
type RawDump map[string]string

func DumpRaw(kvn *node.KVNode) (RawDump, error) {
	store := kvn.VerifKVStore()
	if store == nil {
		return nil, fmt.Errorf("no store")
	}
	it, err := store.NewDBRangeIterator(nil, nil, common.RangeClose, false)
	if err != nil {
		return nil, err
	}
	defer it.Close()
	out := RawDump{}
	for ; it.Valid(); it.Next() {
		k := it.Key()
		v := it.Value()
		if len(v) > 64 {
			h := sha1.Sum(v)
			out[string(k)] = fmt.Sprintf("sha1:%s/%d", hex.EncodeToString(h[:8]), len(v))
		} else {
			out[string(k)] = hex.EncodeToString(v)
		}
	}
	return out, nil
}

func DiffRaw(a, b RawDump) []string {
	var ds []string
	for k, va := range a {
		vb, ok := b[k]
		if !ok {
			ds = append(ds, fmt.Sprintf("raw key %s: %s vs <absent>", strconv.Quote(cut(k, 120)), va))
		} else if va != vb {
			ds = append(ds, fmt.Sprintf("raw key %s: %s vs %s", strconv.Quote(cut(k, 120)), va, vb))
		}
	}
	for k, vb := range b {
		if _, ok := a[k]; !ok {
			ds = append(ds, fmt.Sprintf("raw key %s: <absent> vs %s", strconv.Quote(cut(k, 120)), vb))
		}
	}
	sort.Strings(ds)
	return ds
}
