package inproc

// C15 parts (e) namespace re-creation with another partition count and
// (d2) multi-key commands whose keys mix two namespaces.

import (
	"encoding/hex"
	"fmt"
	"sort"
	"strconv"
	"strings"
	"sync/atomic"
	"time"

	zanredisdb "github.com/youzan/go-zanredisdb"

	"verif/harness/vc"
)

// ---- (e) ------------------------------------------------------------------

type recreatePlan struct {
	p1, p2 int
	order  string // "in-order": replace partition j = 0,1,.. one by one; "high-first": the partitions only one side has first; "reverse": from the highest index down
	// hosted: partitions of the NEW namespace this server hosts (nil = all)
	hosted []int
}

// c15Recreate: namespace N exists with p1 partitions and data; it is deleted
// and created again under the same name with p2 partitions, the local
// partitions being replaced one after the other (what the data-node
// coordinator does: Destroy of the old local partition, InitNamespaceNode +
// Start of the new one), so that partitions of the new namespace are
// initialised while partitions of the old one are still registered. Afterwards
// routing must follow the NEW partition count: the placement oracle of (b)
// and the non-owner oracle of (c).
func c15Recreate(c *vc.Ctx, h *Host, eng string) {
	plans := []recreatePlan{
		{2, 4, "in-order", nil},
		{4, 2, "in-order", nil},
		{3, 5, "high-first", nil},
		{1, 3, "high-first", nil},
		{2, 4, "reverse", []int{0, 1, 2}},
	}
	if c.Thorough() {
		plans = append(plans, recreatePlan{5, 3, "reverse", nil}, recreatePlan{8, 2, "in-order", nil}, recreatePlan{2, 16, "high-first", nil},
			recreatePlan{3, 4, "in-order", []int{1, 2, 3}}, recreatePlan{4, 3, "high-first", nil}, recreatePlan{2, 3, "in-order", nil})
	}
	var fired int32
	c.ParallelFor(len(plans), func(i int) {
		c15RecreateOne(c, h, eng, i, plans[i], &fired)
	})
}

func c15RecreateOne(c *vc.Ctx, h *Host, eng string, idx int, pl recreatePlan, fired *int32) {
	ns := "re" + strconv.Itoa(idx)
	desc := fmt.Sprintf("namespace %s re-created %d->%d partitions (%s, new partitions hosted: %v)", ns, pl.p1, pl.p2, pl.order, hostedDesc(pl))
	var steps []string
	fail := func(why string) { c.Inconclusive("e: " + desc + ": " + why) }
	if err := h.AddNamespace(NSSpec{Name: ns, PartNum: pl.p1}); err != nil {
		fail(err.Error())
		return
	}
	steps = append(steps, fmt.Sprintf("create %s with %d partitions", ns, pl.p1))
	if err := h.WaitLeaders(30 * time.Second); err != nil {
		fail(err.Error())
		return
	}
	conn, err := Dial(h.Addr(), 20*time.Second)
	if err != nil {
		fail(err.Error())
		return
	}
	defer func() { conn.Close() }()
	r := c.Rand(int64(6000 + idx))
	// first life: some data, placed by the old partition count
	for k := 0; k < 20; k++ {
		table, pk := genUserKey(r, k)
		pkey := zanredisdb.NewPKey(ns, table, pk)
		conn.Do([]byte("SET"), pkey.RawKey, []byte("old"))
	}
	hostedNew := map[int]bool{}
	if pl.hosted == nil {
		for j := 0; j < pl.p2; j++ {
			hostedNew[j] = true
		}
	} else {
		for _, j := range pl.hosted {
			hostedNew[j] = true
		}
	}
	newSpec := NSSpec{Name: ns, PartNum: pl.p2, Gen: 1}
	destroy := func(j int) bool {
		if err := h.DestroyPartition(ns, j); err != nil {
			fail(err.Error())
			return false
		}
		steps = append(steps, fmt.Sprintf("destroy old %s-%d", ns, j))
		return true
	}
	initNew := func(j int) bool {
		if !hostedNew[j] {
			return true
		}
		if err := h.InitPartitions(newSpec, j); err != nil {
			fail(err.Error())
			return false
		}
		steps = append(steps, fmt.Sprintf("init+start new %s-%d (of %d)", ns, j, pl.p2))
		return true
	}
	maxP := pl.p1
	if pl.p2 > maxP {
		maxP = pl.p2
	}
	var order []int
	switch pl.order {
	case "in-order":
		for j := 0; j < maxP; j++ {
			order = append(order, j)
		}
	case "reverse":
		for j := maxP - 1; j >= 0; j-- {
			order = append(order, j)
		}
	default: // high-first: indexes that only one incarnation has, then the shared ones
		minP := pl.p1 + pl.p2 - maxP
		for j := minP; j < maxP; j++ {
			order = append(order, j)
		}
		for j := 0; j < minP; j++ {
			order = append(order, j)
		}
	}
	for _, j := range order {
		if j < pl.p1 && !destroy(j) {
			return
		}
		if j < pl.p2 && !initNew(j) {
			return
		}
	}
	if err := h.WaitLeaders(30 * time.Second); err != nil {
		fail(err.Error())
		return
	}
	c.Ev.Count("e_namespaces_recreated", 1)
	c.Ev.Sample(20, map[string]interface{}{"part": "e", "scenario": desc, "steps": steps})
	// second life: placement by the NEW partition count
	perN := c.Pick(40, 200)
	report := func(sig, msg string, key []byte, cmd [][]byte, detail interface{}) {
		if atomic.AddInt32(fired, 1) <= 3 {
			c.Violation(sig, desc+": "+msg, c15Witness{Part: "e", Engine: eng, N: pl.p2, KeyHex: hex.EncodeToString(key), Key: strconv.Quote(string(key)), Commands: [][]string{qargv(cmd)},
				Detail: map[string]interface{}{"scenario": desc, "steps": steps, "observed": detail}})
		}
	}
	for k := 0; k < perN; k++ {
		table, pk := genUserKey(r, 1000+k)
		pkey := zanredisdb.NewPKey(ns, table, pk)
		owner := zanredisdb.GetHashedPartitionID(pkey.ShardingKey(), pl.p2)
		t := c15Types[k%len(c15Types)]
		val := fmt.Sprintf("e-%d-%d", idx, k)
		wcmd := t.write(pkey.RawKey, val)
		rp, err := conn.Do(wcmd...)
		if err != nil {
			fail(err.Error())
			return
		}
		holders, unclear := whoHolds([]*Host{h}, ns, maxP, t, pkey.RawKey, val)
		c.Ev.Eval()
		c.Ev.Count("e_placements", 1)
		c.Ev.Nontrivial(fmt.Sprintf("e/%d-%d/%s/%s/%d/%v", pl.p1, pl.p2, pl.order, t.name, owner, hostedNew[owner]))
		want := fmt.Sprintf("s0/%s-%d", ns, owner)
		switch {
		case hostedNew[owner] && rp.IsErr():
			sig := "key-on-wrong-partition"
			if strings.Contains(string(rp.Str), "ERR_CLUSTER_CHANGED") {
				sig = "partition-out-of-range"
			}
			report(sig, fmt.Sprintf("%s of key %q (SDK owner partition %d of %d, hosted and leader) is refused: %s; readable from %v", wcmd[0], pkey.RawKey, owner, pl.p2, rp.Short(140), holders),
				pkey.RawKey, wcmd, map[string]interface{}{"reply": rp.Short(200), "owner": want, "holders": holders})
			return
		case hostedNew[owner] && (len(holders) != 1 || holders[0] != want || len(unclear) != 0):
			report("key-on-wrong-partition", fmt.Sprintf("%s key %q: SDK owner %s (of %d partitions), readable from %v (unclear %v)", t.name, pkey.RawKey, want, pl.p2, holders, unclear),
				pkey.RawKey, wcmd, map[string]interface{}{"reply": rp.Short(200), "owner": want, "holders": holders})
			return
		case !hostedNew[owner] && (!rp.IsErr() || len(holders) != 0):
			report("executed-on-non-owner", fmt.Sprintf("%s for key %q whose owner partition %d (of %d) is not hosted by this server: reply %s, afterwards readable from %v", wcmd[0], pkey.RawKey, owner, pl.p2, rp.Short(120), holders),
				pkey.RawKey, wcmd, map[string]interface{}{"reply": rp.Short(200), "holders": holders})
			return
		}
		// read through the protocol: answered by the owner, or refused when the owner is elsewhere
		rcmd := t.read(pkey.RawKey)
		rr, err := conn.Do(rcmd...)
		if err != nil {
			fail(err.Error())
			return
		}
		c.Ev.Eval()
		if hostedNew[owner] && !t.present(rr, val) {
			report("key-on-wrong-partition", fmt.Sprintf("after the acknowledged %s, %s of key %q through the protocol answers %s (owner %s)", wcmd[0], rcmd[0], pkey.RawKey, rr.Short(120), want), pkey.RawKey, rcmd, nil)
			return
		}
		if !hostedNew[owner] && !rr.IsErr() {
			report("executed-on-non-owner", fmt.Sprintf("%s of key %q whose owner partition %d is not hosted here is answered %s instead of an error", rcmd[0], pkey.RawKey, owner, rr.Short(120)), pkey.RawKey, rcmd, nil)
			return
		}
	}
}

func hostedDesc(pl recreatePlan) string {
	if pl.hosted == nil {
		return "all"
	}
	return fmt.Sprint(pl.hosted)
}

// ---- (d2) cross-namespace multi-key commands ---------------------------------

type xnsStore map[string]string // "partition full name|user key" -> rendered value

// xnsSnapshot reads every pool key from EVERY partition store of both namespaces.
func xnsSnapshot(h *Host, nss map[string]int, pool []string) xnsStore {
	out := xnsStore{}
	for ns, n := range nss {
		for pid := 0; pid < n; pid++ {
			kvn := h.Node(ns, pid)
			if kvn == nil {
				continue
			}
			for _, k := range pool {
				rp, err := CallRead1(kvn, "get", ns+":"+k)
				if err != nil || !rp.IsNil() {
					out[fmt.Sprintf("%s-%d|%s", ns, pid, k)] = rp.String()
				}
			}
		}
	}
	return out
}

// xnsExpected renders what the stores must hold according to the per-namespace models.
func xnsExpected(models map[string]map[string]string, nss map[string]int) xnsStore {
	out := xnsStore{}
	for ns, m := range models {
		for k, v := range m {
			pid := zanredisdb.GetHashedPartitionID([]byte(k), nss[ns])
			out[fmt.Sprintf("%s-%d|%s", ns, pid, k)] = "$" + strconv.Quote(v)
		}
	}
	return out
}

func xnsDiff(a, b xnsStore) []string {
	var ds []string
	for k, v := range a {
		if w, ok := b[k]; !ok {
			ds = append(ds, fmt.Sprintf("%s: %s vs <absent>", k, cut(v, 40)))
		} else if w != v {
			ds = append(ds, fmt.Sprintf("%s: %s vs %s", k, cut(v, 40), cut(w, 40)))
		}
	}
	for k, w := range b {
		if _, ok := a[k]; !ok {
			ds = append(ds, fmt.Sprintf("%s: <absent> vs %s", k, cut(w, 40)))
		}
	}
	sort.Strings(ds)
	if len(ds) > 6 {
		ds = append(ds[:6], fmt.Sprintf("... %d more", len(ds)-6))
	}
	return ds
}

// c15CrossNamespace: one multi-key command (DEL, EXISTS, explicit PLSET, or a
// pipeline of plain SETs, which the server folds into PLSET) naming keys of
// two live namespaces with different partition counts. Either it is rejected
// and nothing changes in any partition store of either namespace, or every key
// was acted on in its own namespace and partition (per-namespace one-store
// models); a key of one namespace never shows up in a store of the other.
func c15CrossNamespace(c *vc.Ctx, h *Host, liveNs []int, eng string) {
	var multi []int
	for _, n := range liveNs {
		if n >= 2 {
			multi = append(multi, n)
		}
	}
	if len(multi) < 2 {
		return
	}
	pairs := [][2]int{{multi[1], multi[len(multi)-1]}, {multi[len(multi)-1], multi[1]}, {multi[0], multi[1]}}
	count := c.Pick(60, 400)
	fired := map[string]bool{}
	for pi, pr := range pairs {
		if pr[0] == pr[1] {
			continue
		}
		c15CrossPair(c, h, eng, pi, pr, count, fired)
	}
}

func c15CrossPair(c *vc.Ctx, h *Host, eng string, pi int, pr [2]int, count int, fired map[string]bool) {
	{
		nsA, nsB := "p"+strconv.Itoa(pr[0]), "p"+strconv.Itoa(pr[1])
		nss := map[string]int{nsA: pr[0], nsB: pr[1]}
		conn, err := Dial(h.Addr(), 20*time.Second)
		if err != nil {
			c.Inconclusive("d2: " + err.Error())
			return
		}
		r := c.Rand(int64(5200 + pi))
		pool := make([]string, 12)
		for i := range pool {
			pool[i] = fmt.Sprintf("xn%d:k%02d", pi, i)
		}
		models := map[string]map[string]string{nsA: {}, nsB: {}}
		var hist [][]string
		// both namespaces start with distinct values under the same user keys
		for i, k := range pool {
			for _, ns := range []string{nsA, nsB} {
				if (i+len(ns))%3 == 0 {
					continue
				}
				v := "init-" + ns + "-" + strconv.Itoa(i)
				args := B("SET", ns+":"+k, v)
				if rp, err := conn.Do(args...); err == nil && !rp.IsErr() {
					models[ns][k] = v
					hist = append(hist, qargv(args))
				}
			}
		}
		vseq := 0
		for op := 0; op < count; op++ {
			name := []string{"DEL", "EXISTS", "PLSET", "SET-PIPELINE"}[r.Intn(4)]
			nk := 2 + r.Intn(4)
			type ref struct{ ns, k, v string }
			var refs []ref
			for i := 0; i < nk; i++ {
				ns := nsA
				if i > 0 && r.Intn(2) == 0 {
					ns = nsB
				}
				refs = append(refs, ref{ns: ns, k: pool[r.Intn(len(pool))]})
			}
			refs[1+r.Intn(nk-1)].ns = nsB // at least one key of the other namespace, never the first
			if r.Intn(3) == 0 {
				refs = append(refs, refs[r.Intn(len(refs))]) // duplicate
			}
			var argv [][]byte
			switch name {
			case "DEL", "EXISTS":
				argv = append(argv, []byte(name))
				for _, rf := range refs {
					argv = append(argv, []byte(rf.ns+":"+rf.k))
				}
			default:
				argv = append(argv, []byte("PLSET"))
				for i := range refs {
					vseq++
					refs[i].v = fmt.Sprintf("x%d-%d", pi, vseq)
					argv = append(argv, []byte(refs[i].ns+":"+refs[i].k), []byte(refs[i].v))
				}
			}
			before := xnsSnapshot(h, nss, pool)
			var rs []Reply
			switch name {
			case "SET-PIPELINE":
				rs, err = conn.DoPipelinedSetsFramed(argv[1:], 300*time.Millisecond)
			case "PLSET":
				rs, err = conn.DoLone(argv, 300*time.Millisecond)
			default:
				rs, err = conn.DoFramed(argv)
			}
			shown := qargv(argv)
			if name == "SET-PIPELINE" {
				shown = append([]string{"(pipeline of SET key value, sent in one write:)"}, shown[1:]...)
			}
			if err != nil {
				c.Inconclusive("d2: " + err.Error())
				conn.Close()
				return
			}
			after := xnsSnapshot(h, nss, pool)
			c.Ev.Eval()
			c.Ev.Count("d_cross_namespace_commands", 1)
			c.Ev.Nontrivial(fmt.Sprintf("d2/%s/%d-%d/%d", name, pr[0], pr[1], minInt(len(refs), 5)))
			allErr := len(rs) > 0
			for _, rp := range rs {
				if !rp.IsErr() {
					allErr = false
				}
			}
			reply := renderReplies(rs)
			violate := func(msg string, diff []string) {
				sig := "multikey-cross-namespace/" + name
				if fired[sig] {
					return
				}
				fired[sig] = true
				c.Violation(sig, fmt.Sprintf("%v (namespaces %s: %d partitions, %s: %d partitions) answered %s: %s %v", shown, nsA, pr[0], nsB, pr[1], cut(reply, 120), msg, diff),
					c15Witness{Part: "d2", Engine: eng, N: pr[0], Commands: append(append([][]string(nil), hist...), shown),
						Detail: map[string]interface{}{"reply": reply, "diff": diff, "namespaces": nss}})
			}
			if allErr || len(rs) == 0 {
				c.Ev.Count("d_cross_namespace_rejected", 1)
				if d := xnsDiff(before, after); len(d) > 0 {
					violate("the command was refused but the partition stores changed (before vs after):", d)
					conn.Close()
					return
				}
				continue
			}
			// accepted: every key in its own namespace and partition
			c.Ev.Count("d_cross_namespace_accepted", 1)
			{
				want := ""
				switch name {
				case "DEL":
					cnt := 0
					for _, rf := range refs {
						if _, ok := models[rf.ns][rf.k]; ok {
							delete(models[rf.ns], rf.k)
							cnt++
						}
					}
					want = ":" + strconv.Itoa(cnt)
				case "EXISTS":
					cnt := 0
					for _, rf := range refs {
						if _, ok := models[rf.ns][rf.k]; ok {
							cnt++ // with multiplicity, like the one-store EXISTS of part (d)
						}
					}
					want = ":" + strconv.Itoa(cnt)
				default:
					// PLSET / pipelined SETs: the server may apply a part only (a pipeline
					// can reach it in two reads: the first SETs run alone, the rest is
					// folded; a partition group of PLSET can fail on its own). Sound
					// demand: every store cell that changed is the owner cell of a named
					// (namespace, key) and now holds a value this command gave to exactly
					// that (namespace, key).
					allowed := map[string]map[string]bool{}
					for _, rf := range refs {
						cell := fmt.Sprintf("%s-%d|%s", rf.ns, zanredisdb.GetHashedPartitionID([]byte(rf.k), nss[rf.ns]), rf.k)
						if allowed[cell] == nil {
							allowed[cell] = map[string]bool{}
						}
						allowed[cell]["$"+strconv.Quote(rf.v)] = true
					}
					var bad []string
					cells := map[string]bool{}
					for k := range before {
						cells[k] = true
					}
					for k := range after {
						cells[k] = true
					}
					for cell := range cells {
						if before[cell] != after[cell] && !allowed[cell][after[cell]] {
							bad = append(bad, fmt.Sprintf("%s: %s -> %s", cell, cut(before[cell], 40), cut(after[cell], 40)))
						}
					}
					if len(bad) > 0 {
						sort.Strings(bad)
						violate("a partition store changed in a cell / to a value that no named (namespace, key) owns (cell: before -> after):", bad)
						conn.Close()
						return
					}
					allOK := len(rs) == len(refs)
					for _, rp := range rs {
						if rp.IsErr() {
							allOK = false
						}
					}
					if allOK {
						var oks []string
						for _, rf := range refs {
							models[rf.ns][rf.k] = rf.v
							oks = append(oks, "+OK")
						}
						want = strings.Join(oks, " ")
					} else {
						// partly applied: take the models from the (validated) observation
						c.Ev.Count("d_cross_namespace_partly_applied", 1)
						for _, rf := range refs {
							cell := fmt.Sprintf("%s-%d|%s", rf.ns, zanredisdb.GetHashedPartitionID([]byte(rf.k), nss[rf.ns]), rf.k)
							if v, ok := after[cell]; ok {
								if uq, err := strconv.Unquote(strings.TrimPrefix(v, "$")); err == nil {
									models[rf.ns][rf.k] = uq
								}
							}
						}
						want = reply
					}
				}
				if d := xnsDiff(xnsExpected(models, nss), after); len(d) > 0 {
					violate("the command was accepted but the keys were not acted on in their own namespace and partition (expected vs observed stores):", d)
					conn.Close()
					return
				}
				if reply != want {
					violate("the command was accepted but a one-store-per-namespace model answers "+want, nil)
					conn.Close()
					return
				}
			}
		}
		conn.Close()
	}
}
