package inproc

// Dictionary of C11: string literals harvested at run time from the sources
// of the checked-out tree that classify or compare error / argument text
// (standard fuzzing practice: magic strings are not found by random bytes).

import (
	"go/ast"
	"go/parser"
	"go/token"
	"path/filepath"
	"sort"
	"strconv"
	"strings"
)

// Dictionary: Strict = literals passed to strings.HasPrefix/HasSuffix/
// Contains/EqualFold/Index/Compare (text classifiers: few, sent
// systematically); Loose = literals compared with == / != / case, and the
// texts of errors.New / fmt.Errorf (sent by the random "dict" mutation kind).
type Dictionary struct {
	Strict []string `json:"strict"`
	Loose  []string `json:"loose"`
}

func ExtractDictionary(repo string) Dictionary {
	strict, loose := map[string]bool{}, map[string]bool{}
	lit := func(e ast.Expr) (string, bool) {
		bl, ok := e.(*ast.BasicLit)
		if !ok || bl.Kind != token.STRING {
			return "", false
		}
		s, err := strconv.Unquote(bl.Value)
		if err != nil || len(s) < 2 || len(s) > 80 {
			return "", false
		}
		return s, true
	}
	for _, dir := range []string{"node", "rockredis", "server", "common", "engine"} {
		files, _ := filepath.Glob(filepath.Join(repo, dir, "*.go"))
		for _, f := range files {
			if strings.HasSuffix(f, "_test.go") {
				continue
			}
			fset := token.NewFileSet()
			af, err := parser.ParseFile(fset, f, nil, 0)
			if err != nil {
				continue
			}
			ast.Inspect(af, func(n ast.Node) bool {
				switch x := n.(type) {
				case *ast.CallExpr:
					if sel, ok := x.Fun.(*ast.SelectorExpr); ok {
						pkg, _ := sel.X.(*ast.Ident)
						if pkg != nil && (pkg.Name == "strings" || pkg.Name == "bytes") {
							switch sel.Sel.Name {
							case "HasPrefix", "HasSuffix", "Contains", "EqualFold", "Index", "Compare", "LastIndex":
								for _, a := range x.Args {
									if s, ok := lit(a); ok {
										strict[s] = true
									}
									// []byte("literal")
									if ce, ok := a.(*ast.CallExpr); ok && len(ce.Args) == 1 {
										if s, ok := lit(ce.Args[0]); ok {
											strict[s] = true
										}
									}
								}
							}
						}
						if pkg != nil && ((pkg.Name == "errors" && sel.Sel.Name == "New") || (pkg.Name == "fmt" && sel.Sel.Name == "Errorf")) && len(x.Args) > 0 {
							if s, ok := lit(x.Args[0]); ok {
								loose[s] = true
							}
						}
					}
				case *ast.BinaryExpr:
					if x.Op == token.EQL || x.Op == token.NEQ {
						if s, ok := lit(x.X); ok {
							loose[s] = true
						}
						if s, ok := lit(x.Y); ok {
							loose[s] = true
						}
					}
				case *ast.CaseClause:
					for _, e := range x.List {
						if s, ok := lit(e); ok {
							loose[s] = true
						}
					}
				}
				return true
			})
		}
	}
	var d Dictionary
	for s := range strict {
		d.Strict = append(d.Strict, s)
		delete(loose, s)
	}
	for s := range loose {
		d.Loose = append(d.Loose, s)
	}
	sort.Strings(d.Strict)
	sort.Strings(d.Loose)
	if len(d.Loose) > 800 {
		d.Loose = d.Loose[:800]
	}
	return d
}

// dictVariants: the literal as is, in other cases, and embedded in more text
// (classifiers use prefix / substring tests).
func dictVariants(s string) []string {
	out := []string{s}
	if u := strings.ToUpper(s); u != s {
		out = append(out, u)
	}
	if l := strings.ToLower(s); l != s {
		out = append(out, l)
	}
	out = append(out, "1 "+s+": x")
	return out
}
