package inproc

// Twin differential of C11 (no partial write): two identical single-replica
// servers A and B in one child process. Per case A gets (prefix, bad, probe),
// B gets (prefix, probe). Whenever bad returned an error: A's dump (logical,
// and raw in quiet rounds) before and after bad must be equal, the probe must
// be answered alike by A and B, and the logical dumps of A and B must be equal.

import (
	"fmt"
	"path/filepath"
	"strings"
	"sync"
	"time"

	"github.com/youzan/ZanRedisDB/node"
)

var twinFamilies = []string{"kv", "hash", "list", "set", "zset", "json", "bitmap", "volatile", "kv", "hash", "zset", "list"}

// nondeterministic commands: effect or reply depends on chance or on the clock
var twinExcluded = map[string]bool{"spop": true}
var twinReplyIncomparable = map[string]bool{"srandmember": true, "ttl": true, "httl": true, "lttl": true, "sttl": true, "zttl": true, "bttl": true,
	"stale.getversion": true, "stale.hget.version": true, "info": true, "georadius": false}

type twinCaseWitness struct {
	Engine    string     `json:"engine"`
	Namespace string     `json:"namespace"`
	Family    string     `json:"family"`
	Commands  [][]string `json:"commands"` // encoded argv, in order, as sent to A ("bad" is the one before last unless probe-less)
	Human     []string   `json:"commands_human"`
	Focus     []string   `json:"commands_on_the_same_keys_human"` // readable subset: commands addressing the key of the erroring command or of the probe
	BadIndex  int        `json:"bad_index"`
	BadReply  string     `json:"bad_reply"`
	Diff      []string   `json:"diff"`
	Oracle    string     `json:"oracle"`
}

func (s *childState) runTwin() error {
	conf := s.conf
	var specs []NSSpec
	for w := 0; w < conf.Workers; w++ {
		for r := 0; r < conf.Rounds; r++ {
			sp := NSSpec{Name: fmt.Sprintf("w%dr%d", w, r), PartNum: 1, ExpPolicy: conf.ExpPol, DataVersion: conf.DataVer}
			specs = append(specs, sp)
		}
	}
	hosts := make([]*Host, 2)
	for i, nm := range []string{"A", "B"} {
		h, err := StartHost(HostConf{Dir: filepath.Join(conf.Dir, "data"+nm), Engine: conf.Engine, NodeID: uint64(1 + i), ClusterID: "verif-c11-twin-" + nm, Namespaces: specs})
		if err != nil {
			return fmt.Errorf("start twin %s: %v", nm, err)
		}
		hosts[i] = h
	}
	for _, h := range hosts {
		if err := h.WaitLeaders(120 * time.Second); err != nil {
			return err
		}
	}
	s.count("server_started", 2)
	byFamily := map[string][]string{}
	for _, rc := range conf.Names {
		if _, skip := skippedCommands[rc.Name]; skip || twinExcluded[rc.Name] || s.avoided(rc.Name) {
			continue
		}
		if _, ok := templates[rc.Name]; !ok {
			continue
		}
		f := cmdFamily(rc.Name)
		byFamily[f] = append(byFamily[f], rc.Name)
		if isWriteKind(rc.Kinds) {
			// only writes can reach the apply path: draw them three times as often
			byFamily[f] = append(byFamily[f], rc.Name, rc.Name)
		}
	}
	var wg sync.WaitGroup
	for w := 0; w < conf.Workers; w++ {
		wg.Add(1)
		go func(w int) {
			defer wg.Done()
			for r := 0; r < conf.Rounds; r++ {
				fam := twinFamilies[(w+r*conf.Workers+int(conf.Seed)+conf.Index)%len(twinFamilies)]
				s.twinRound(hosts, w, r, fam, byFamily)
			}
		}(w)
	}
	wg.Wait()
	return nil
}

type twinSide struct {
	h    *Host
	conn *Conn
	kvn  *node.KVNode
}

func (t *twinSide) send(c GenCmd, how string) ([]Reply, error) {
	if t.conn == nil {
		cn, err := Dial(t.h.Addr(), 30*time.Second)
		if err != nil {
			return nil, err
		}
		t.conn = cn
	}
	rs, err := sendOne(t.conn, c, how)
	if err != nil {
		t.conn.Close()
		t.conn = nil
	}
	return rs, err
}

func familyBuilders(fam string) []string {
	var out []string
	for _, b := range stateBuilders {
		if twinExcluded[b] {
			continue
		}
		f := cmdFamily(b)
		if f == fam || (fam == "volatile" && (f == "kv" || f == "hash" || f == "zset")) {
			out = append(out, b)
		}
	}
	return out
}

func (s *childState) twinRound(hosts []*Host, w, r int, fam string, byFamily map[string][]string) {
	conf := s.conf
	ns := fmt.Sprintf("w%dr%d", w, r)
	rnd := newRand(conf.Seed, int64(conf.Index*100000+w*1000+r))
	g := NewGen(rnd, []string{ns})
	g.AvoidKinds = s.avoidKinds()
	g.Dict = append(append([]string(nil), conf.Dict.Strict...), conf.Dict.Loose...)
	g.Delims = conf.Delims
	a := &twinSide{h: hosts[0], kvn: hosts[0].Node(ns, 0)}
	b := &twinSide{h: hosts[1], kvn: hosts[1].Node(ns, 0)}
	if a.kvn == nil || b.kvn == nil {
		s.inconclusive("twin: namespace " + ns + " not ready")
		return
	}
	defer func() {
		if a.conn != nil {
			a.conn.Close()
		}
		if b.conn != nil {
			b.conn.Close()
		}
	}()
	lg, _ := newCmdLogger(conf.Dir, w)
	hostileNames := append([]string(nil), byFamily[fam]...)
	if fam == "kv" {
		// merge / scan / server-level commands ride with the kv rounds
	}
	builders := familyBuilders(fam)
	if len(hostileNames) == 0 || len(builders) == 0 {
		return
	}
	// pool keys of this namespace (what Gen.key can produce)
	var pool []string
	for _, tb := range g.Tables {
		for i := 0; i < g.KeysPerTab; i++ {
			pool = append(pool, fmt.Sprintf("%s:%s:k%d", ns, tb, i), fmt.Sprintf("%s:%s:c%d", ns, tb, i))
		}
	}
	rawQuiet := fam != "volatile"
	var history []GenCmd // everything sent to A in this round
	abandon := func(why string) {
		s.count("twin_rounds_abandoned", 1)
		s.inconclusive(fmt.Sprintf("twin round %s (%s) abandoned: %s", ns, fam, why))
	}
	both := func(c GenCmd) (ra, rb []Reply, ok bool) {
		how := howToSend(c, rnd.Intn(4))
		lg.log(c, how)
		history = append(history, c)
		ra, errA := a.send(c, how)
		rb, errB := b.send(c, how)
		s.count("twin_commands", 2)
		if (errA != nil) != (errB != nil) {
			abandon(fmt.Sprintf("%s: connection error on one twin only: %v / %v", HumanArgv(c.Args), errA, errB))
			return nil, nil, false
		}
		if volatileCmds[c.Name] && errA == nil && len(ra) > 0 && !ra[0].IsErr() {
			rawQuiet = false
		}
		return ra, rb, true
	}
	// initial state
	for i := 0; i < 14; i++ {
		c, _, _ := g.Valid(builders[rnd.Intn(len(builders))])
		if _, _, ok := both(c); !ok {
			return
		}
	}
	for cs := 0; cs < conf.Cases; cs++ {
		if rnd.Intn(10) < 6 {
			c, _, _ := g.Valid(builders[rnd.Intn(len(builders))])
			if _, _, ok := both(c); !ok {
				return
			}
		}
		name := hostileNames[rnd.Intn(len(hostileNames))]
		bad, ok := g.Hostile(name)
		if !ok {
			continue
		}
		beforeL := DumpLogical(a.kvn, ns, g.Tables, pool)
		var beforeR RawDump
		if rawQuiet {
			beforeR, _ = DumpRaw(a.kvn)
		}
		appliedBefore := a.kvn.GetAppliedIndex()
		how := howToSend(bad, rnd.Intn(4))
		lg.log(bad, how)
		history = append(history, bad)
		badIdx := len(history) - 1
		inFlight.begin(w, bad)
		ra, errA := a.send(bad, how)
		if errA == nil || !isTimeout(errA) {
			inFlight.endWith(w, ra, errA) // a timed-out command stays registered: it is the suspect if the memory guard fires later
		}
		for _, rp := range ra {
			if rp.IsErr() && isTimeoutClass(string(rp.Str)) {
				// the server gave up waiting, the entry may still be applied: no verdict possible
				abandon("propose timeout on " + HumanArgv(bad.Args) + ": " + cut(string(rp.Str), 80))
				return
			}
		}
		s.count("twin_commands", 1)
		s.count("twin_bad_commands", 1)
		s.inc(s.res.PerName, bad.Name)
		s.count("kind/"+bad.Kind, 1)
		if errA != nil && isTimeout(errA) {
			abandon("timeout on " + HumanArgv(bad.Args))
			return
		}
		if errA != nil && !strings.HasPrefix(errA.Error(), "resp:") {
			s.inc(s.res.ConnClosed, bad.Name)
		}
		reached := a.kvn.GetAppliedIndex() > appliedBefore
		if reached {
			s.inc(s.res.Applied, bad.Name+"|"+bad.Kind)
			s.count("twin_bad_reached_apply", 1)
		} else {
			s.count("twin_bad_rejected_before_propose", 1)
		}
		isErr := errA != nil || len(ra) == 0
		if !isErr {
			isErr = true
			for _, rp := range ra {
				if !rp.IsErr() {
					isErr = false
				}
			}
		}
		for _, rp := range ra {
			if rp.IsErr() {
				s.inc(s.res.ErrClasses, bad.Name+"|"+errClass(string(rp.Str)))
			}
		}
		badReply := renderReplies(ra)
		if errA != nil {
			badReply += " <" + errA.Error() + ">"
		}
		mkWitness := func(oracle string, diff []string, extra ...GenCmd) twinCaseWitness {
			cmds := append(append([]GenCmd(nil), history...), extra...)
			wit := twinCaseWitness{Engine: conf.Engine, Namespace: ns, Family: fam, BadIndex: badIdx, BadReply: cut(badReply, 300), Diff: diff, Oracle: oracle}
			// keep the witness readable: commands touching other keys than the diff are still needed for replay, so keep all
			keys := map[string]bool{}
			for _, c := range cmds[badIdx:] {
				if len(c.Args) > 1 {
					keys[string(c.Args[1])] = true
				}
			}
			for _, c := range cmds {
				wit.Commands = append(wit.Commands, EncodeArgv(c.Args))
				wit.Human = append(wit.Human, HumanArgv(c.Args))
				if len(c.Args) > 1 && keys[string(c.Args[1])] {
					wit.Focus = append(wit.Focus, HumanArgv(c.Args))
				}
			}
			return wit
		}
		if !isErr {
			// accepted: B must see it too, to stay identical
			s.count("twin_bad_accepted", 1)
			rb, errB := b.send(bad, how)
			s.count("twin_commands", 1)
			if volatileCmds[bad.Name] {
				rawQuiet = false
			}
			bErr := errB != nil || len(rb) == 0
			if !bErr {
				bErr = true
				for _, rp := range rb {
					if !rp.IsErr() {
						bErr = false
					}
				}
			}
			if bErr {
				abandon(fmt.Sprintf("twins answered differently to %s: %s / %s", HumanArgv(bad.Args), cut(badReply, 100), cut(renderReplies(rb), 100)))
				return
			}
			continue
		}
		s.count("twin_cases_bad_errored", 1)
		if reached {
			s.count("twin_bad_errored_at_apply", 1)
		}
		// (i) an erroring command changes nothing
		afterL := DumpLogical(a.kvn, ns, g.Tables, pool)
		if d := DiffLogical(beforeL, afterL); len(d) > 0 {
			s.violation("error-left-effect/"+bad.Name, fmt.Sprintf("%s answered %s but changed the data: %s", HumanArgv(bad.Args), cut(badReply, 120), cut(strings.Join(d, "; "), 400)),
				mkWitness("logical dump of the same server before/after the erroring command", d))
			return
		}
		if rawQuiet {
			afterR, _ := DumpRaw(a.kvn)
			s.count("twin_raw_compares", 1)
			if d := DiffRaw(beforeR, afterR); len(d) > 0 {
				s.violation("error-left-effect/"+bad.Name, fmt.Sprintf("%s answered %s but changed the engine content: %s", HumanArgv(bad.Args), cut(badReply, 120), cut(strings.Join(d, "; "), 400)),
					mkWitness("raw engine dump of the same server before/after the erroring command", d))
				return
			}
		}
		// (ii) the next command behaves as on the twin that never saw bad
		probe, _, _ := g.Valid(builders[rnd.Intn(len(builders))])
		// aim the probe at the key of the bad command when that is a pool key
		if len(bad.Args) > 1 && len(probe.Args) > 1 {
			for _, pk := range pool {
				if string(bad.Args[1]) == pk {
					if _, kinds, ok := g.Valid(probe.Name); ok && len(kinds) > 1 && strings.HasPrefix(kinds[1].kind, "K:") {
						probe.Args[1] = []byte(pk)
					}
					break
				}
			}
		}
		pa, pb, ok := both(probe)
		if !ok {
			return
		}
		s.count("twin_probes", 1)
		if !twinReplyIncomparable[probe.Name] && renderReplies(pa) != renderReplies(pb) {
			s.violation("error-left-effect/"+bad.Name, fmt.Sprintf("after %s (answered %s) the next command %s is answered %s; on the twin that never saw the erroring command it is answered %s",
				HumanArgv(bad.Args), cut(badReply, 100), HumanArgv(probe.Args), cut(renderReplies(pa), 100), cut(renderReplies(pb), 100)),
				mkWitness("probe reply A vs twin B", []string{"A: " + cut(renderReplies(pa), 200), "B: " + cut(renderReplies(pb), 200)}))
			return
		}
		la := DumpLogical(a.kvn, ns, g.Tables, pool)
		lb := DumpLogical(b.kvn, ns, g.Tables, pool)
		if d := DiffLogical(la, lb); len(d) > 0 {
			s.violation("error-left-effect/"+bad.Name, fmt.Sprintf("after %s (answered %s) and the probe %s the data differs from the twin that never saw the erroring command: %s",
				HumanArgv(bad.Args), cut(badReply, 100), HumanArgv(probe.Args), cut(strings.Join(d, "; "), 400)),
				mkWitness("logical dump A vs twin B after the probe", d))
			return
		}
		s.count("twin_cases_conclusive", 1)
		if w == 0 && r == 0 && cs < 40 {
			s.sample(3, map[string]interface{}{"twin_case": []string{"bad: " + HumanArgv(bad.Args), "reply: " + cut(badReply, 100), "probe: " + HumanArgv(probe.Args)}, "family": fam, "reached_apply": reached})
		}
	}
	s.count("twin_rounds_done", 1)
}

// runTwinReplay re-executes a recorded twin case: A gets every command, B gets
// every command except the erroring one; last replies and dumps are compared.
func (s *childState) runTwinReplay() error {
	conf := s.conf
	ns := conf.ReplayNS
	specs := []NSSpec{{Name: ns, PartNum: 1, ExpPolicy: conf.ExpPol, DataVersion: conf.DataVer}}
	hosts := make([]*Host, 2)
	for i, nm := range []string{"A", "B"} {
		h, err := StartHost(HostConf{Dir: filepath.Join(conf.Dir, "data"+nm), Engine: conf.Engine, NodeID: uint64(1 + i), ClusterID: "verif-c11-twin-" + nm, Namespaces: specs})
		if err != nil {
			return err
		}
		hosts[i] = h
	}
	for _, h := range hosts {
		if err := h.WaitLeaders(60 * time.Second); err != nil {
			return err
		}
	}
	g := NewGen(newRand(1, 1), []string{ns})
	var pool []string
	for _, tb := range g.Tables {
		for i := 0; i < g.KeysPerTab; i++ {
			pool = append(pool, fmt.Sprintf("%s:%s:k%d", ns, tb, i), fmt.Sprintf("%s:%s:c%d", ns, tb, i))
		}
	}
	a := &twinSide{h: hosts[0], kvn: hosts[0].Node(ns, 0)}
	b := &twinSide{h: hosts[1], kvn: hosts[1].Node(ns, 0)}
	var lastA, lastB, badReply string
	var before *LogicalDump
	var beforeR RawDump
	var diffBA, diffRaw []string
	for i, enc := range conf.Replay {
		argv, err := DecodeArgv(enc)
		if err != nil || len(argv) == 0 {
			continue
		}
		c := GenCmd{Name: strings.ToLower(string(argv[0])), Kind: "replay", Args: argv}
		how := howToSend(c, 1)
		if i == conf.BadIndex {
			before = DumpLogical(a.kvn, ns, g.Tables, pool)
			beforeR, _ = DumpRaw(a.kvn)
		}
		ra, errA := a.send(c, how)
		lastA = renderReplies(ra)
		if errA != nil {
			lastA += " <" + errA.Error() + ">"
		}
		if i == conf.BadIndex {
			badReply = lastA
			after := DumpLogical(a.kvn, ns, g.Tables, pool)
			afterR, _ := DumpRaw(a.kvn)
			diffBA = DiffLogical(before, after)
			diffRaw = DiffRaw(beforeR, afterR)
			fmt.Printf("replay[%d] A only (bad): %s -> %s\n", i, HumanArgv(argv), cut(lastA, 200))
			continue
		}
		rb, errB := b.send(c, how)
		lastB = renderReplies(rb)
		if errB != nil {
			lastB += " <" + errB.Error() + ">"
		}
		fmt.Printf("replay[%d]: %s -> A %s | B %s\n", i, HumanArgv(argv), cut(lastA, 120), cut(lastB, 120))
	}
	la := DumpLogical(a.kvn, ns, g.Tables, pool)
	lb := DumpLogical(b.kvn, ns, g.Tables, pool)
	dAB := DiffLogical(la, lb)
	s.sample(4, map[string]interface{}{"bad_reply": cut(badReply, 200), "diff_before_after": diffBA, "diff_raw_before_after": diffRaw, "diff_A_vs_B": dAB, "last_reply_A": cut(lastA, 200), "last_reply_B": cut(lastB, 200)})
	if len(diffBA) > 0 || len(dAB) > 0 || (conf.BadIndex != len(conf.Replay)-1 && lastA != lastB) {
		s.violation("replayed", fmt.Sprintf("bad answered %s; dump before/after bad: %v; raw: %v; A vs twin B: %v; last replies A %s / B %s", cut(badReply, 100), diffBA, cutList(diffRaw, 4), dAB, cut(lastA, 100), cut(lastB, 100)), nil)
	}
	return nil
}

func cutList(l []string, n int) []string {
	if len(l) > n {
		return append(append([]string(nil), l[:n]...), fmt.Sprintf("... %d more", len(l)-n))
	}
	return l
}
